package main

// End-to-end differential for METRICS (C08 storage/return of datapoints, C09 selectors + aggregations):
// one op line = series definitions + ingest history + queries.
//
//	me S <series> S <series> … H <history…> Q <query…>
//	series  : <hexname>{k=<hexv>,…}@<ts>:<16 hex digits of the float64>,…
//	          k=#<hexv>: the OTSDB datapoints with an EVEN point index send the value as a bare JSON number ("k":5), the
//	          others as a JSON string ("k":"5") — the same tag (a tag value is the number's text)
//	          k=^<hexv>: the OTSDB datapoints with an ODD point index spell the first byte of the value as \u00XX (the same
//	          value: the identity of a series must not depend on the JSON spelling); ^<hexname>: likewise for the metric name
//	          k=!t | k=!n | k=!q<hexv>: the value is sent as JSON true / null / as the string <v>\q (invalid escape): not a
//	          tag value — every datapoint of the series must be REJECTED and nothing of it may ever be served
//	history : p<seriesIdx>.<pointIdx>  ingest that point (OTSDB JSON through writer.AddTimeSeriesEntryToInMemBuf)
//	          w<seriesIdx>.<pointIdx>  ingest that point through Prometheus remote write (prompb → snappy → HandlePutMetrics):
//	                                   label values are raw strings there; the same series whatever the protocol
//	          br  block rotation (open block → TSO/TSG files, segment stays open)      ro  forced segment rotation
//	          tf  one pass of the tags-tree flush timer (every 60 s in production)
//	          cr  CRASH + RESTART: the WAL timers run once (every datapoint ingested so far has its WAL append completed),
//	              the process is killed, a new process on the same data directory recovers (RecoverWALData,
//	              RecoverMNameWALData, RecoverMEntryWALData) and goes on with the history
//	query   : <start>/<end>/<style>/<label>~<eq|ne|re|nre>~<hexvalue>;…[/<sum|min|max|avg|count>:<none|by|wo>:<l1+l2|->]
//	          style b = bare metric name / fn(sel) by (…);  n = {__name__="…"} / fn by (…) (sel)
//	          lv/<start>/<end>/<label>     GET /promql/api/v1/label/<label>/values
//	          bx!<start>!<end>!<expr>      expression with scalar operands, unary minus, on()/ignoring(), nesting; <expr> in
//	              prefix form:  v!<style>!<matchers>!<agg|->  |  s!<num>!<den>  |  n!<expr>  |
//	              o!<op>!<0|1 bool>!<d|on|ig>!<l1+l2|->!<expr>!<expr>
//	          fx!<start>!<end>!<expr>      the same expression sent through the FORMULA route (metrics explorer time series API,
//	              metric alert evaluation): every distinct operand text becomes a named query a, b, … ({"name","query","qlType"}),
//	              the expression over the names the formula; promql.ParseMetricTimeSeriesRequest + ProcessMetricsQueryRequest.
//	              Same value as bx (Spec/Metrics.lean formulaJudged says where it is judged)
//
//	mc <n> <hexname> <sharedKey>=<hexv> <idKey> <ts> Q <query…>      CARDINALITY: n series name{sharedKey=v,idKey="s<i>"} with
//	          the single point (ts, float64(i mod 50)), all ingested, no rotation before the queries: more than 65535 series
//	          share ONE tag value (the tags tree file stores the number of TSIDs of a value in 16 bits)
//
// Which datapoints must be ACCEPTED is part of the specification (Spec/Metrics.lean `accepted`): a series without tags
// and a series with a tag value above 65535 bytes must be rejected at ingest (PropFail e2em/in-class/no-tags resp.
// e2em/in-class/tag-value-over-64k when such a datapoint is accepted: it could not be served), every other datapoint
// must be accepted (PropFail e2em/ingest-rejected).
//
// Exec runs history and queries in a fresh `corr mworker` process, then forces one more rotation and runs
// every query again: the two answers must be identical (PropFail e2em/open-vs-rotated-differ).  It prints one
// canonical segment per query; the Lean Oracle prints the SPECIFICATION's answer (lean/SigModel/Spec/Metrics.lean)
// for the same line; lib/e2ecmp.py compares them (kind=mseries / kind=magg).

import (
	"bytes"
	"encoding/hex"
	"encoding/json"
	"fmt"
	"math"
	"math/big"
	"math/rand"
	"os"
	"os/exec"
	"regexp"
	"sort"
	"strconv"
	"strings"
	"time"

	"github.com/siglens/siglens/pkg/segment/results/mresults"
)

func init() {
	register(&Suite{Name: "e2e_metrics", Parallel: 6, Gen: genE2EM, Exec: execE2EM,
		Rule: "1..5 series (names sharing prefixes; tag sets differing in one value / one key / subsets; keys that are suffixes of other keys; TSID-preimage collision pairs; values with spaces, unicode, punctuation, JSON escapes, 65535/65536+ bytes, values sent as JSON numbers; series without tags) ingested as OpenTSDB JSON, through Prometheus remote write, or both within one series × float64 values from the adversarial Gorilla pool incl. -0 or small integers × timestamps (irregular steps at dod bucket edges, large gaps, bucket-aligned for every downsample interval used) × ingest histories with out-of-order points and 0..2 block and 0..2 segment rotations × selector and sum/min/max/avg/count by/without queries incl. range boundaries on points, regex on __name__, several matchers on one label; every fourth case: binary operators (+ - * / % ^, == != > < >= <= with and without bool, and/or/unless, default matching) between two operands (selector, selector with a matcher, aggregation) over two or three metrics whose names are prefixes of each other and that share some label sets and not others, label values over an alphabet with { } = \" \\ space unicode and the empty string, a few timestamps present on one side only; plus expressions (query token bx: scalar operands on either side incl. computed scalars, unary minus, on()/ignoring() over subsets of the keys for arithmetic, comparisons and and/or/unless, nesting up to depth 3, label values h-1 /api a.b 10.0.0.1:9100 *, zero divisors); plus (second metrics round) the label value \"*\" with matchers k=\"*\" / k!=\"*\", metric names and tag values spelled with and without a JSON escape within one series, tag values that are not strings or numbers (true / null / invalid escape: must be rejected whole), label-values requests through the HTTP handler, and crash + restart inside the history (WAL timers run once, process killed, recovery in a new process on the same data directory; mostly right after a pass of the tags-tree flush timer); plus (binary-operator cases) operands REPEATED within one expression by construction — m * m, (m / m) - x, x + (m - m), with on()/ignoring() — on the PromQL route (textually identical selectors) and on the FORMULA route (query token fx: the metrics explorer / metric alert request with named queries through promql.ParseMetricTimeSeriesRequest + ProcessMetricsQueryRequest, a * a, a / a, a + a - b, a * 2), the repeated operand mostly the metric with the most series (two or more label sets), sometimes a single series, a selector with matchers or an aggregation; controls with two different operands and with a constant; plus cardinality lines (65535..131071 series sharing one tag value); each case in its own engine process(es), every query answered before and after a final rotation; non-trivial = ≥2 ingested points and ≥1 query"})
}

type mkv struct {
	k, v string
	num  bool   // sent as a bare JSON number by the OTSDB datapoints with an even point index
	esc  bool   // the OTSDB datapoints with an odd point index spell the first byte as \u00XX
	bad  string // "t" JSON true, "n" JSON null, "q" string with an invalid escape: not a tag value
}
type mpt struct {
	ts   uint32
	bits uint64
}
type mser struct {
	name    string
	labels  []mkv
	pts     []mpt
	escName bool // the OTSDB datapoints with an odd point index spell the first byte of the name as \u00XX
}

var mNamePool = [][]string{
	{"cpu", "cpu_total", "cpu_t", "cp"},
	{"mem", "mem_free", "me", "memx"},
	{"http_requests_total", "http_requests", "http"},
	{"m", "m_x", "mm", "m:a"},
	{"cpu", "CPU", "Cpu", "cpU"}, // names differing only in case
}
var mValPool = []string{"h1", "h2", "x", "y", "s1", "s2", "xa", "a", "1", "0", "h1x", "xh1", "ab", "b", "H1", "X", "A"}
var mOddVals = []string{"sp ace", "ü", "a.b", "a-b", "a=b", "a|b", "a/b", "h1 ", "日本", "(x)", "a+b", "[1]", "x:y", "/api/{id}", "{", "}", "{}", "a{b",
	"", "", "", " ", " ", "  ", `q"uote`, `back\slash`, `\"`, strings.Repeat("v", 300), strings.Repeat("long-", 700) + "x", strings.Repeat("long-", 700) + "y"}

func isIdent(s string) bool {
	ok, _ := regexp.MatchString(`^[a-zA-Z_:][a-zA-Z0-9_:]*$`, s)
	return ok
}

func finiteBits(b uint64) bool { return (b>>52)&0x7ff != 0x7ff }

func genMValue(r *rand.Rand, prev uint64) uint64 {
	for {
		v := genValue(r, prev)
		if r.Intn(6) == 0 {
			v = []uint64{0, 0, 1, 0x000fffffffffffff, 0x0010000000000000, 0x7fefffffffffffff, 0xffefffffffffffff,
				math.Float64bits(1.0), math.Float64bits(1.0) + 1, math.Float64bits(0.1), math.Float64bits(-1.5)}[r.Intn(11)]
		}
		if finiteBits(v) {
			return v
		}
	}
}

// tag sets derived from a base set: one value changed, one key changed, subsets, supersets
func genTagSets(r *rand.Rand, n int, tags map[string]int) [][]mkv {
	// half of the key families contain a key that is a suffix of another key
	keyFam := [][]string{{"host", "st", "dc"}, {"ab", "b", "z"}, {"xhost", "host", "k"},
		{"host", "dc", "rack"}, {"job", "instance", "env"}, {"a", "b", "c"}, {"k1", "k2", "k3"}, {"dc", "host", "zone"},
		{"host", "Host", "HOST"}}[r.Intn(9)] // last family: keys differing only in case
	homogeneous := r.Intn(4) != 0 // every series carries the same keys
	val := func() string {
		if r.Intn(12) == 0 {
			tags["odd-value"]++
			return mOddVals[r.Intn(len(mOddVals))]
		}
		return mValPool[r.Intn(len(mValPool))]
	}
	nk := 1 + r.Intn(len(keyFam))
	var base []mkv
	for _, k := range keyFam[:nk] {
		base = append(base, mkv{k: k, v: val()})
	}
	sets := [][]mkv{base}
	cp := func(s []mkv) []mkv { return append([]mkv(nil), s...) }
	for len(sets) < n {
		src := cp(sets[r.Intn(len(sets))])
		kind := r.Intn(7)
		if homogeneous {
			kind = 0
		}
		switch kind {
		case 0, 1, 2: // one value differs
			if len(src) > 0 {
				src[r.Intn(len(src))].v = val()
			}
		case 3: // one key differs
			if len(src) > 0 {
				src[r.Intn(len(src))].k = keyFam[r.Intn(len(keyFam))]
			}
		case 4: // subset
			if len(src) > 1 {
				i := r.Intn(len(src))
				src = append(src[:i], src[i+1:]...)
			}
		case 5: // superset
			src = append(src, mkv{k: keyFam[r.Intn(len(keyFam))], v: val()})
		default: // key/value boundary shifted: {a="bc"} vs {ab="c"} style (no collision in the TSID string: key and value are separated)
			if len(src) > 0 {
				i := r.Intn(len(src))
				if len(src[i].v) > 1 {
					src[i].k, src[i].v = src[i].k+src[i].v[:1], src[i].v[1:]
				}
			}
		}
		// distinct keys, distinct from the other sets
		seen := map[string]bool{}
		ok := true
		for _, kv := range src {
			if seen[kv.k] || !isIdent(kv.k) || strings.Contains(kv.k, ":") {
				ok = false
			}
			seen[kv.k] = true
		}
		for _, s := range sets {
			if canonLabels(s) == canonLabels(src) {
				ok = false
			}
		}
		if ok {
			sets = append(sets, src)
		} else if r.Intn(20) == 0 {
			break
		}
	}
	r.Shuffle(len(sets), func(i, j int) { sets[i], sets[j] = sets[j], sets[i] })
	return sets
}

// JSON number literals (RFC 8259); only these are ever sent bare
var mNumRe = regexp.MustCompile(`^-?(0|[1-9][0-9]*)(\.[0-9]+)?([eE][+-]?[0-9]+)?$`)

// numeric tag values: integers, non-integers that truncate to the same integer (the engine used to hash uint64(float)),
// exponent forms, more than 64 bits, negative zero, trailing zeros (the TEXT is the value: 5 and 5.0 are different tags)
var mNumPool = []string{"5", "5.5", "5.0", "6", "-3", "1e3", "0.50", "-0", "100", "12345678901234567890", "0", "1", "7"}

func canonLabels(l []mkv) string {
	s := append([]mkv(nil), l...)
	sort.Slice(s, func(i, j int) bool { return s[i].k < s[j].k || (s[i].k == s[j].k && s[i].v < s[j].v) })
	var p []string
	for _, kv := range s {
		p = append(p, kv.k+"="+hexs(kv.v))
	}
	return "{" + strings.Join(p, ",") + "}"
}

func (s mser) token() string {
	var p []string
	for _, kv := range s.labels { // order as generated: it is the base of the JSON tag order
		switch {
		case kv.bad == "t" || kv.bad == "n":
			p = append(p, kv.k+"=!"+kv.bad)
		case kv.bad == "q":
			p = append(p, kv.k+"=!q"+hexs(kv.v))
		case kv.num:
			p = append(p, kv.k+"=#"+hexs(kv.v))
		case kv.esc:
			p = append(p, kv.k+"=^"+hexs(kv.v))
		default:
			p = append(p, kv.k+"="+hexs(kv.v))
		}
	}
	var q []string
	for _, pt := range s.pts {
		q = append(q, fmt.Sprintf("%d:%016x", pt.ts, pt.bits))
	}
	nm := hexs(s.name)
	if s.escName {
		nm = "^" + nm
	}
	return nm + "{" + strings.Join(p, ",") + "}@" + strings.Join(q, ",")
}

const mBase = uint32(1700000000)

func genE2EM(r *rand.Rand, n int, tier string) []string {
	var out []string
	tags := map[string]int{}
	for c := 0; c < n; c++ {
		if c%150 == 77 {
			out = append(out, genE2EMCard(r))
			continue
		}
		if c%4 == 3 { // binary operators between two vectors
			out = append(out, genE2EMBinCase(r))
			continue
		}
		out = append(out, genE2EMCase(r, tags))
	}
	return out
}

var mBinNames = [][]string{{"hits", "hits_total", "errs"}, {"m", "mm", "m_x"}, {"http_requests", "http", "http_requests_total"}, {"cpu", "cpu_t", "cp"}, {"a", "ab", "b"}}
var mBinVals = []string{"h1", "h2", "h1", "/health", "/api/{id}", "/api/{id}/x", "{", "}", "{}", "}{", "a=b", `q"t`, `b\s`, " ", "sp ace", "ü", "日本", "", "x:y", "m{", "{id}", "1",
	"h-1", "h-2", "/api", "a.b", "a.c", "*", "h1", "h2", "eu-west-1", "10.0.0.1:9100"}
var mBinOps = []string{"add", "sub", "mul", "div", "mod", "pow", "eq", "ne", "gt", "lt", "ge", "le", "and", "or", "unless", "div", "sub", "and", "unless", "or"}

// BINARY-OPERATOR case: two or three metrics (names that are prefixes of each other) over a common pool of tag sets, so that
// the operands share some series and not others; label values over an alphabet with { } = " \ space unicode and the empty
// string; integer values on a bucket-aligned grid (a few timestamps missing on one side); selectors, selectors with a
// matcher and aggregations as operands.
func genE2EMBinCase(r *rand.Rand) string {
	step := []uint32{1, 5, 10, 60}[r.Intn(4)]
	t0 := mBase + uint32(r.Intn(30000000))
	t0 -= t0 % 3600
	start, end := t0, t0+360*step
	fam := mBinNames[r.Intn(len(mBinNames))]
	keyFam := [][]string{{"host", "route"}, {"dc", "k"}, {"job", "instance", "route"}, {"route"}, {"host", "st"}}[r.Intn(5)]
	val := func() string {
		if r.Intn(200) == 0 {
			return []string{"a,b", ","}[r.Intn(2)] // recorded class value-has-comma
		}
		return mBinVals[r.Intn(len(mBinVals))]
	}
	var pool [][]mkv
	seen := map[string]bool{}
	for tries := 0; len(pool) < 2+r.Intn(3) && tries < 30; tries++ {
		var l []mkv
		for _, k := range keyFam {
			if len(l) > 0 && r.Intn(10) == 0 { // a set that lacks a key
				continue
			}
			l = append(l, mkv{k: k, v: val()})
		}
		if len(pool) > 0 && r.Intn(2) == 0 { // one value differs from an earlier set
			l = append([]mkv(nil), pool[r.Intn(len(pool))]...)
			l[r.Intn(len(l))].v = val()
		}
		if !seen[canonLabels(l)] {
			seen[canonLabels(l)] = true
			pool = append(pool, l)
		}
	}
	nmet := 2 + r.Intn(2)
	var sers []mser
	for m := 0; m < nmet; m++ {
		for _, l := range pool {
			if r.Intn(10) < 7 {
				sers = append(sers, mser{name: fam[m], labels: append([]mkv(nil), l...)})
			}
		}
	}
	if len(sers) == 0 {
		sers = append(sers, mser{name: fam[0], labels: append([]mkv(nil), pool[0]...)})
	}
	var grid []uint32
	k := uint32(r.Intn(20))
	for i := 1 + r.Intn(4); i > 0; i-- {
		grid = append(grid, t0+step*k)
		k += uint32(1 + r.Intn(60))
	}
	for i := range sers {
		for _, t := range grid {
			if r.Intn(7) == 0 { // a timestamp this series does not have
				continue
			}
			v := float64(r.Intn(40) - 8)
			if r.Intn(3) == 0 {
				v = float64(r.Intn(5))
			}
			sers[i].pts = append(sers[i].pts, mpt{t, math.Float64bits(v)})
		}
		if len(sers[i].pts) == 0 {
			sers[i].pts = append(sers[i].pts, mpt{grid[0], math.Float64bits(3)})
		}
	}
	// history: every series in time order, interleaved; 0..1 block and segment rotations
	type ref struct{ i, j int }
	var refs []ref
	for i, s := range sers {
		for j := range s.pts {
			refs = append(refs, ref{i, j})
		}
	}
	r.Shuffle(len(refs), func(a, b int) { refs[a], refs[b] = refs[b], refs[a] })
	next := map[int]int{}
	for x := range refs {
		refs[x].j = next[refs[x].i]
		next[refs[x].i]++
	}
	cut := map[int][]string{}
	if r.Intn(2) == 0 {
		x := r.Intn(len(refs) + 1)
		cut[x] = append(cut[x], "ro")
	}
	if r.Intn(3) == 0 {
		x := r.Intn(len(refs) + 1)
		cut[x] = append(cut[x], "br")
	}
	var hist []string
	for x := 0; x <= len(refs); x++ {
		hist = append(hist, cut[x]...)
		if x < len(refs) {
			hist = append(hist, fmt.Sprintf("p%d.%d", refs[x].i, refs[x].j))
		}
	}
	// operands
	operand := func(name string) string {
		style := []string{"b", "b", "n"}[r.Intn(3)]
		ms := []string{"__name__~eq~" + hexs(name)}
		if r.Intn(4) == 0 { // a label matcher (the other operand may have none: the ids must still match)
			l := pool[r.Intn(len(pool))]
			kv := l[r.Intn(len(l))]
			ms = append(ms, kv.k+"~"+[]string{"eq", "eq", "ne"}[r.Intn(3)]+"~"+hexs(kv.v))
			if r.Intn(2) == 0 {
				ms[0], ms[1] = ms[1], ms[0]
			}
		}
		ag := "-"
		if r.Intn(5) == 0 {
			fn := []string{"sum", "min", "max", "count"}[r.Intn(4)]
			switch r.Intn(3) {
			case 0:
				ag = fn + ":none:-"
			case 1:
				ag = fn + ":by:" + keyFam[r.Intn(len(keyFam))]
			default:
				ag = fn + ":by:" + strings.Join(keyFam, "+")
			}
		}
		return style + "!" + strings.Join(ms, ";") + "!" + ag
	}
	var qtoks []string
	for m := 0; m < 2; m++ {
		qtoks = append(qtoks, fmt.Sprintf("%d/%d/b/__name__~eq~%s", start, end, hexs(fam[m])))
	}
	for q := 3 + r.Intn(5); q > 0; q-- {
		op := mBinOps[r.Intn(len(mBinOps))]
		b := "0"
		if r.Intn(3) == 0 && (op == "eq" || op == "ne" || op == "gt" || op == "lt" || op == "ge" || op == "le") {
			b = "1"
		}
		ln, rn := fam[r.Intn(nmet)], fam[r.Intn(nmet)]
		if r.Intn(3) != 0 {
			ln, rn = fam[0], fam[1]
			if r.Intn(2) == 0 {
				ln, rn = rn, ln
			}
		}
		if r.Intn(15) == 0 {
			rn = fam[2] // possibly a metric without any series
		}
		a, e := start, end
		if r.Intn(5) == 0 { // a narrower window on the grid
			a = grid[r.Intn(len(grid))]
			e = a + step*uint32(1+r.Intn(300))
		}
		qtoks = append(qtoks, fmt.Sprintf("bin!%s!%s!%d!%d!%s!%s", op, b, a, e, operand(ln), operand(rn)))
	}
	// EXPRESSIONS: scalar operands (also on the left, also computed), unary minus, on()/ignoring() over subsets of the keys
	// (arithmetic, comparisons and the set operators), nesting up to depth 3, at most 3 vector operands
	isCmp := func(op string) bool {
		return op == "eq" || op == "ne" || op == "gt" || op == "lt" || op == "ge" || op == "le"
	}
	isSet := func(op string) bool { return op == "and" || op == "or" || op == "unless" }
	scalar := func() string {
		switch r.Intn(8) {
		case 0:
			return "s!0!1"
		case 1:
			return []string{"s!1!2", "s!5!2", "s!3!4"}[r.Intn(3)]
		}
		return fmt.Sprintf("s!%d!1", r.Intn(13))
	}
	var genExpr func(depth int, nvec *int, wantVec bool) (string, bool)
	genExpr = func(depth int, nvec *int, wantVec bool) (string, bool) {
		leaf := depth >= 3 || (depth > 0 && r.Intn(3) == 0)
		if leaf {
			if wantVec || (*nvec < 3 && r.Intn(3) != 0) {
				if *nvec >= 3 && !wantVec {
					return scalar(), false
				}
				*nvec++
				return "v!" + operand(fam[r.Intn(nmet)]), true
			}
			return scalar(), false
		}
		if depth > 0 && r.Intn(9) == 0 { // unary minus over a vector expression
			x, _ := genExpr(depth+1, nvec, true)
			return "n!" + x, true
		}
		// shape: vector∘vector (mostly), vector∘scalar, scalar∘vector, scalar∘scalar (only below another operator)
		shape := []int{0, 0, 0, 1, 2}[r.Intn(5)]
		if !wantVec && depth > 0 && r.Intn(2) == 0 {
			shape = 3
		}
		if *nvec >= 2 && shape == 0 {
			shape = 1
		}
		switch shape {
		case 0:
			op := mBinOps[r.Intn(len(mBinOps))]
			b := "0"
			if isCmp(op) && r.Intn(3) == 0 {
				b = "1"
			}
			mk, ls := "d", "-"
			if r.Intn(5) < 2 {
				mk = []string{"on", "on", "ig"}[r.Intn(3)]
				var pick []string
				for _, k := range keyFam {
					if r.Intn(2) == 0 {
						pick = append(pick, k)
					}
				}
				if len(pick) == 0 {
					pick = []string{keyFam[r.Intn(len(keyFam))]}
				}
				ls = strings.Join(pick, "+")
			}
			l, _ := genExpr(depth+1, nvec, true)
			rr, _ := genExpr(depth+1, nvec, true)
			return fmt.Sprintf("o!%s!%s!%s!%s!%s!%s", op, b, mk, ls, l, rr), true
		case 1, 2:
			op := []string{"add", "sub", "mul", "div", "mod", "pow", "gt", "lt", "ge", "le", "eq", "ne", "div", "mul", "gt"}[r.Intn(15)]
			b := "0"
			if isCmp(op) && r.Intn(3) == 0 {
				b = "1"
			}
			v, _ := genExpr(depth+1, nvec, true)
			sc := scalar()
			if r.Intn(4) == 0 { // a computed scalar
				sc = fmt.Sprintf("o!%s!0!d!-!%s!%s", []string{"add", "sub", "mul"}[r.Intn(3)], scalar(), scalar())
			}
			if shape == 1 {
				return fmt.Sprintf("o!%s!%s!d!-!%s!%s", op, b, v, sc), true
			}
			return fmt.Sprintf("o!%s!%s!d!-!%s!%s", op, b, sc, v), true
		default:
			return fmt.Sprintf("o!%s!0!d!-!%s!%s", []string{"add", "sub", "mul"}[r.Intn(3)], scalar(), scalar()), false
		}
	}
	_ = isSet
	for q := 2 + r.Intn(4); q > 0; q-- {
		nv := 0
		x, vec := genExpr(0, &nv, true)
		if !vec {
			continue
		}
		if r.Intn(6) == 0 {
			x = "n!" + x
		}
		qtoks = append(qtoks, fmt.Sprintf("bx!%d!%d!%s", start, end, x))
	}
	// REPEATED OPERANDS and the FORMULA route.  One operand text occurs more than once in an expression (`m * m`, `(m + m) - x`),
	// on the PromQL route (bx / bin: textually identical selectors) and on the formula route (fx: the metrics explorer / metric
	// alert request with named queries, one name used twice: `a * a`, `a / a`, `a + a - b`); the repeated operand is mostly the
	// metric with the most series (≥ 2 label sets most of the time), sometimes a single series, a selector with a matcher or
	// an aggregation; controls: two different operands, a constant operand.
	perName := map[string]int{}
	for _, s := range sers {
		perName[s.name]++
	}
	big, other := fam[0], fam[1]
	for _, n := range fam[:nmet] {
		if perName[n] > perName[big] {
			big = n
		}
	}
	for _, n := range fam[:nmet] {
		if n != big && (other == big || perName[n] > perName[other]) {
			other = n
		}
	}
	plain := func(name string) string {
		return []string{"b", "b", "n"}[r.Intn(3)] + "!__name__~eq~" + hexs(name) + "!-"
	}
	repOperand := func() string {
		switch r.Intn(10) {
		case 0: // a single series (mostly): a matcher on one label set of the pool
			l := pool[r.Intn(len(pool))]
			ms := []string{"__name__~eq~" + hexs(big)}
			for _, kv := range l {
				ms = append(ms, kv.k+"~eq~"+hexs(kv.v))
			}
			return "b!" + strings.Join(ms, ";") + "!-"
		case 1:
			return operand(big)
		case 2: // one group per value of a key / one group
			pb := plain(big)
			return pb[:len(pb)-1] + []string{"sum", "max", "count"}[r.Intn(3)] + ":by:" + keyFam[r.Intn(len(keyFam))]
		case 3:
			return plain(other)
		}
		return plain(big)
	}
	arith := []string{"mul", "div", "sub", "add", "mul", "div", "sub", "add", "mod", "pow"}
	cmps := []string{"eq", "ne", "gt", "ge", "lt", "le"}
	anyOp := func() (string, string) {
		switch x := r.Intn(10); {
		case x < 6:
			return arith[r.Intn(len(arith))], "0"
		case x < 8:
			return cmps[r.Intn(len(cmps))], []string{"0", "1"}[r.Intn(2)]
		}
		return []string{"and", "or", "unless"}[r.Intn(3)], "0"
	}
	repExpr := func() string {
		x := "v!" + repOperand()
		y := "v!" + plain(other)
		if r.Intn(3) == 0 {
			y = "v!" + operand(fam[r.Intn(nmet)])
		}
		op, b := anyOp()
		op2 := arith[r.Intn(4)]
		switch r.Intn(12) {
		case 0: // control: two different operands
			return fmt.Sprintf("o!%s!%s!d!-!%s!%s", op, b, x, y)
		case 1: // control: a constant operand
			return fmt.Sprintf("o!%s!0!d!-!%s!%s", arith[r.Intn(len(arith))], x, scalar())
		case 2, 3: // (a ∘ a) ∘ b
			return fmt.Sprintf("o!%s!0!d!-!o!%s!%s!d!-!%s!%s!%s", op2, op, b, x, x, y)
		case 4: // a ∘ (a ∘ k)
			return fmt.Sprintf("o!%s!%s!d!-!%s!o!%s!0!d!-!%s!%s", op, b, x, op2, x, scalar())
		case 5: // b ∘ (a ∘ a)
			return fmt.Sprintf("o!%s!0!d!-!%s!o!%s!%s!d!-!%s!%s", op2, y, op, b, x, x)
		case 6: // a ∘ a with a matching clause
			return fmt.Sprintf("o!%s!%s!%s!%s!%s!%s", op, b, []string{"on", "ig"}[r.Intn(2)], keyFam[r.Intn(len(keyFam))], x, x)
		case 7: // (a ∘ a) ∘ a
			return fmt.Sprintf("o!%s!0!d!-!o!%s!%s!d!-!%s!%s!%s", op2, op, b, x, x, x)
		}
		return fmt.Sprintf("o!%s!%s!d!-!%s!%s", op, b, x, x) // a ∘ a
	}
	for q := 2 + r.Intn(3); q > 0; q-- {
		a, e := start, end
		if r.Intn(8) == 0 { // a narrower window on the grid
			a = grid[r.Intn(len(grid))]
			e = a + step*uint32(1+r.Intn(300))
		}
		qtoks = append(qtoks, fmt.Sprintf("fx!%d!%d!%s", a, e, repExpr()))
	}
	for q := 1 + r.Intn(2); q > 0; q-- {
		qtoks = append(qtoks, fmt.Sprintf("bx!%d!%d!%s", start, end, repExpr()))
	}
	if r.Intn(2) == 0 {
		op, b := anyOp()
		x := repOperand()
		qtoks = append(qtoks, fmt.Sprintf("bin!%s!%s!%d!%d!%s!%s", op, b, start, end, x, x))
	}
	if r.Intn(3) == 0 { // an expression of the general generator through the formula route
		nv := 0
		if x, vec := genExpr(0, &nv, true); vec {
			qtoks = append(qtoks, fmt.Sprintf("fx!%d!%d!%s", start, end, x))
		}
	}
	toks := []string{"me"}
	for _, s := range sers {
		toks = append(toks, "S", s.token())
	}
	toks = append(toks, "H")
	toks = append(toks, hist...)
	toks = append(toks, "Q")
	toks = append(toks, qtoks...)
	return strings.Join(toks, " ")
}

// CARDINALITY line: n series share one tag value, n at / above the largest TSID count one tags-tree block can frame
func genE2EMCard(r *rand.Rand) string {
	n := []int{65535, 65536, 65537, 70000, 70000, 66000 + r.Intn(5000), 131071}[r.Intn(7)]
	name := []string{"cpu", "node_load", "m"}[r.Intn(3)]
	sk, sv := []string{"env", "dc", "job"}[r.Intn(3)], []string{"prod", "eu-1", "a b", "x"}[r.Intn(4)]
	ik := []string{"id", "instance", "pod"}[r.Intn(3)]
	ts := mBase + uint32(r.Intn(30000000))
	ts -= ts % 3600
	rng := fmt.Sprintf("%d/%d", ts-100, ts+200)
	nm := "__name__~eq~" + hexs(name)
	pick := func() string {
		return hexs("s" + strconv.Itoa([]int{0, 5, n - 1, n - 2, 65535, 65534, r.Intn(n)}[r.Intn(7)]))
	}
	qs := []string{
		rng + "/b/" + nm + ";" + sk + "~eq~" + hexs(sv) + "/count:none:-",
		rng + "/b/" + nm + ";" + sk + "~eq~" + hexs(sv) + ";" + ik + "~eq~" + pick(),
		rng + "/n/" + nm + ";" + ik + "~eq~" + pick(),
		rng + "/b/" + nm + "/" + []string{"sum", "count", "max"}[r.Intn(3)] + ":by:" + sk,
		rng + "/b/" + nm + ";" + sk + "~re~" + hexs(".*") + "/count:none:-",
		rng + "/b/" + nm + ";" + sk + "~ne~" + hexs(sv) + "/count:none:-",
		rng + "/b/" + nm + ";" + ik + "~re~" + hexs("s"+strconv.Itoa(n - 1)[:4]+".*"),
	}
	return fmt.Sprintf("mc %d %s %s=%s %s %d Q %s", n, hexs(name), sk, hexs(sv), ik, ts, strings.Join(qs, " "))
}

func genE2EMCase(r *rand.Rand, tags map[string]int) string {
	intFlavour := r.Intn(20) < 9
	// time profile: step of the full-range query, timestamps are multiples of it
	step := []uint32{1, 1, 1, 5, 10, 20, 60, 600, 3600}[r.Intn(9)]
	irregularWide := r.Intn(8) == 0 // arbitrary timestamps over a wide span: narrow window queries only (+ one unaligned full range)
	if irregularWide {
		step = []uint32{60, 600, 3600}[r.Intn(3)]
	}
	t0 := mBase + uint32(r.Intn(30000000))
	t0 -= t0 % 3600
	span := uint32(330) * step

	nser := 1 + r.Intn(5)
	fam := mNamePool[r.Intn(len(mNamePool))]
	sets := genTagSets(r, nser, tags)
	var sers []mser
	for i := 0; i < nser; i++ {
		name := fam[0]
		if r.Intn(4) == 0 {
			name = fam[r.Intn(len(fam))]
		}
		sers = append(sers, mser{name: name, labels: sets[i%len(sets)]})
	}
	// special classes (rare): same tag set under two names, TSID-preimage collision, no tags, delimiter / escaped values
	switch r.Intn(112) {
	case 90, 91, 92, 93, 94:
		// the same value (and metric name) spelled with and without a JSON escape, alternating point by point within
		// one series: one series, whatever the spelling
		s := &sers[r.Intn(len(sers))]
		if len(s.labels) > 0 {
			s.labels = append([]mkv(nil), s.labels...)
			i := r.Intn(len(s.labels))
			if s.labels[i].v != "" && s.labels[i].v[0] < 0x80 && !s.labels[i].num {
				s.labels[i].esc = true
			}
		}
		if r.Intn(2) == 0 {
			s.escName = true
		}
		tags["spelled-with-escape"]++
	case 95, 96, 97, 98, 99:
		// a tag value that is not a string or a number (true, null, a string with an invalid escape sequence): every
		// datapoint of that series must be rejected and leave nothing behind; a sibling with the remaining tags is served
		base := append([]mkv(nil), sers[0].labels...)
		if len(base) == 0 {
			base = []mkv{{k: "host", v: "web1"}}
			sers[0].labels = base
		}
		bk := []string{"dbg", "a0", "zz", "flag"}[r.Intn(4)] // sorts before / after the other keys
		bad := append(append([]mkv(nil), base...), mkv{k: bk, v: "w", bad: []string{"t", "n", "q"}[r.Intn(3)]})
		if bad[len(bad)-1].bad == "t" {
			bad[len(bad)-1].v = "true"
		} else if bad[len(bad)-1].bad == "n" {
			bad[len(bad)-1].v = "null"
		}
		sers = append(sers, mser{name: sers[0].name, labels: bad})
		if r.Intn(2) == 0 { // … and one that has the key with a proper value
			sers = append(sers, mser{name: sers[0].name, labels: append(append([]mkv(nil), base...), mkv{k: bk, v: "ok"})})
		}
		tags["tag-value-not-a-string"]++
	case 100, 101, 102, 103, 104, 105:
		// the label value "*" (and values that contain it): k="*" selects that value only
		base := append([]mkv(nil), sers[0].labels...)
		if len(base) == 0 {
			base = []mkv{{k: "host", v: "web1"}}
		}
		i := r.Intn(len(base))
		x, y := append([]mkv(nil), base...), append([]mkv(nil), base...)
		x[i].v, x[i].num = "*", false
		y[i].v, y[i].num = []string{"a*", "**", "b", ".*"}[r.Intn(4)], false
		sers[0].labels = x
		sers = append(sers, mser{name: sers[0].name, labels: y})
		if len(base) > 1 && r.Intn(2) == 0 { // … and a series without the key
			z := append([]mkv(nil), base...)
			z = append(z[:i], z[i+1:]...)
			sers = append(sers, mser{name: sers[0].name, labels: z})
		}
		tags["value-is-star"]++
	case 0:
		if nser >= 2 {
			sers[1].name = fam[1]
			sers[1].labels = append([]mkv(nil), sers[0].labels...)
		}
	case 1:
		sers = append(sers[:1], mser{name: sers[0].name}, mser{name: sers[0].name})
		sers[0].labels = []mkv{{k: "z", v: "x"}, {k: "ab", v: "1"}}
		sers[1].labels = []mkv{{k: "z", v: "xa"}, {k: "b", v: "1"}}
		sers[2].labels = []mkv{{k: "z", v: "x"}, {k: "b", v: "1"}}
	case 2:
		sers[r.Intn(len(sers))].labels = nil
	case 3:
		s := &sers[r.Intn(len(sers))]
		if len(s.labels) > 0 {
			s.labels = append([]mkv(nil), s.labels...)
			s.labels[0].v = []string{"a,b", "a,b:1", ",", "x,"}[r.Intn(4)]
		}
	case 4:
		s := &sers[r.Intn(len(sers))]
		if len(s.labels) > 0 {
			s.labels = append([]mkv(nil), s.labels...)
			s.labels[0].v = []string{`q"uote`, `back\slash`, `"`}[r.Intn(3)]
		}
	case 5:
		// a tag value at / above the longest one the tags tree file can frame (16-bit length field): 65535 bytes must be
		// stored and served, anything longer must be rejected at ingest
		s := &sers[r.Intn(len(sers))]
		if len(s.labels) > 0 {
			s.labels = append([]mkv(nil), s.labels...)
			s.labels[r.Intn(len(s.labels))].v = strings.Repeat("w", []int{65535, 65536, 65536 + r.Intn(3000)}[r.Intn(3)])
		}
	case 6, 7, 8, 9, 10, 11:
		// identity with EMPTY tag values: sibling series with / without a tag whose value is "", and two series that
		// differ only in WHICH tag is empty (the unchanged engine keeps all of them apart)
		base := append([]mkv(nil), sers[0].labels...)
		if len(base) == 0 {
			base = []mkv{{k: "host", v: "web1"}}
		}
		ek := []string{"zone", "az", "zz", "a0"}[r.Intn(4)]
		with := append(append([]mkv(nil), base...), mkv{k: ek, v: ""})
		sers[0].labels = with
		sers = append(sers, mser{name: sers[0].name, labels: base})
		if r.Intn(2) == 0 {
			x, y := append([]mkv(nil), base...), append([]mkv(nil), base...)
			v := base[0].v
			if v == "" {
				v = "h"
			}
			x[0].v = v
			y[0].v = ""
			sers = append(sers, mser{name: sers[0].name, labels: append(x, mkv{k: ek + "2", v: ""})}, mser{name: sers[0].name, labels: append(y, mkv{k: ek + "2", v: v})})
		}
		if r.Intn(3) == 0 { // … and one with a single space
			sers = append(sers, mser{name: sers[0].name, labels: append(append([]mkv(nil), base...), mkv{k: ek, v: " "})})
		}
	case 14, 15, 16, 17, 18, 19:
		// NUMERIC tag values ("k":5): the value is the number's text; siblings whose numbers truncate to the same integer,
		// the same text as a string (alternating per point: one series), a string sibling on another series
		base := append([]mkv(nil), sers[0].labels...)
		if len(base) == 0 {
			base = []mkv{{k: "host", v: "web1"}}
		}
		i := r.Intn(len(base))
		a, b := mNumPool[r.Intn(len(mNumPool))], mNumPool[r.Intn(len(mNumPool))]
		x, y := append([]mkv(nil), base...), append([]mkv(nil), base...)
		x[i].v, x[i].num = a, true
		y[i].v, y[i].num = b, r.Intn(3) != 0
		sers[0].labels = x
		sers = append(sers, mser{name: sers[0].name, labels: y})
		if r.Intn(2) == 0 { // same number text, as a string, in a series that differs in another label
			z := append(append([]mkv(nil), base...), mkv{k: "n0", v: "s"})
			z[i].v = a
			sers = append(sers, mser{name: sers[0].name, labels: z})
		}
		tags["numeric-tag-value"]++
	case 20, 21, 22, 23:
		// label values that JSON would escape, to be sent through remote write as they are
		s := &sers[r.Intn(len(sers))]
		if len(s.labels) > 0 {
			s.labels = append([]mkv(nil), s.labels...)
			s.labels[r.Intn(len(s.labels))].v = []string{`C:\temp`, `a\qb`, `end\`, `a\\b`, `q"uote`, `\u0041`, `\n`, `\"`, `x\/y`}[r.Intn(9)]
		}
		tags["backslash-value"]++
	case 12, 13:
		// a tag literally named __name__ (accepted by the ingest path: one more label of the identity), sibling without it
		s := sers[r.Intn(len(sers))]
		sers = append(sers, mser{name: s.name, labels: append(append([]mkv(nil), s.labels...), mkv{k: "__name__", v: []string{"other", s.name, ""}[r.Intn(3)]})})
	}
	// distinct label keys within a series
	for i := range sers {
		seen := map[string]bool{}
		var l []mkv
		for _, kv := range sers[i].labels {
			if !seen[kv.k] {
				seen[kv.k] = true
				l = append(l, kv)
			}
		}
		sers[i].labels = l
	}
	// remove duplicates (same name and label set)
	{
		seen := map[string]bool{}
		var u []mser
		for _, s := range sers {
			k := s.name + canonLabels(s.labels)
			if !seen[k] {
				seen[k] = true
				u = append(u, s)
			}
		}
		sers = u
	}
	// points
	for i := range sers {
		np := 1 + r.Intn(8)
		if r.Intn(10) == 0 {
			np = 11 + r.Intn(55)
		}
		used := map[uint32]bool{}
		var t uint32
		if irregularWide {
			t = t0 + uint32(r.Intn(int(span/2)))
		} else {
			t = t0 + step*uint32(r.Intn(20))
		}
		delta := int64(1 + r.Intn(12))
		v := specialVals[r.Intn(len(specialVals))]
		if !finiteBits(v) {
			v = math.Float64bits(1.0)
		}
		for j := 0; j < np; j++ {
			if !used[t] && t >= t0 && t <= t0+span {
				used[t] = true
				bits := v
				if intFlavour {
					bits = math.Float64bits(float64(r.Intn(60) - 5))
				}
				sers[i].pts = append(sers[i].pts, mpt{t, bits})
			}
			dod := dodEdges[r.Intn(len(dodEdges))]
			if r.Intn(3) == 0 {
				dod = 0
			}
			if r.Intn(4) == 0 {
				dod = int64(r.Intn(600)) - 300
			}
			delta += dod
			if delta <= 0 || delta > int64(span/step)/2 {
				delta = int64(1 + r.Intn(5))
			}
			if irregularWide {
				t += uint32(delta)
				if r.Intn(5) == 0 {
					t += uint32(r.Intn(int(span / 4))) // large gap
				}
			} else {
				t += uint32(delta) * step
			}
			v = genMValue(r, v)
		}
	}
	// history
	type ref struct{ i, j int }
	var refs []ref
	for i, s := range sers {
		for j := range s.pts {
			refs = append(refs, ref{i, j})
		}
	}
	// interleave the series, each in time order …
	r.Shuffle(len(refs), func(a, b int) { refs[a], refs[b] = refs[b], refs[a] })
	next := map[int]int{}
	for k := range refs { // re-number so that every series is ingested in index order at the shuffled positions
		refs[k].j = next[refs[k].i]
		next[refs[k].i]++
	}
	if r.Intn(4) == 0 && len(refs) > 1 { // … except for some out-of-order points
		tags["out-of-order"]++
		for k := 0; k < 1+r.Intn(3); k++ {
			a, b := r.Intn(len(refs)), r.Intn(len(refs))
			refs[a], refs[b] = refs[b], refs[a]
		}
	}
	if r.Intn(10) == 0 && len(refs) > 2 { // a point that is never ingested
		k := r.Intn(len(refs))
		refs = append(refs[:k], refs[k+1:]...)
	}
	nro, nbr := []int{0, 0, 1, 1, 1, 2}[r.Intn(6)], []int{0, 0, 1, 1, 2}[r.Intn(5)]
	var hist []string
	cut := map[int][]string{}
	for k := 0; k < nro; k++ {
		p := r.Intn(len(refs) + 1)
		cut[p] = append(cut[p], "ro")
	}
	for k := 0; k < nbr; k++ {
		p := r.Intn(len(refs) + 1)
		cut[p] = append(cut[p], "br")
	}
	if r.Intn(7) == 0 {
		// CRASH + RESTART somewhere in the history (WAL recovery); mostly right after a pass of the tags-tree flush timer
		// (every series is then reachable after the restart), sometimes without one (recorded finding crash-before-tags-flush)
		p := r.Intn(len(refs) + 1)
		if r.Intn(4) != 0 {
			cut[p] = append(cut[p], "tf")
			tags["crash:after-tags-flush"]++
		} else {
			if r.Intn(2) == 0 && p > 0 {
				p2 := r.Intn(p)
				cut[p2] = append(cut[p2], "tf")
			}
			tags["crash:tags-flush-not-just-before"]++
		}
		cut[p] = append(cut[p], "cr")
		if r.Intn(5) == 0 { // a second crash later on
			p3 := p + r.Intn(len(refs)+1-p)
			cut[p3] = append(cut[p3], "tf", "cr")
		}
	}
	// protocol: OTSDB JSON only (most cases), remote write only, or mixed point by point within every series
	proto := []int{0, 0, 0, 0, 1, 2, 2}[r.Intn(7)]
	tags[fmt.Sprintf("proto=%s", []string{"otsdb", "remote-write", "mixed"}[proto])]++
	for k := 0; k <= len(refs); k++ {
		hist = append(hist, cut[k]...)
		if k < len(refs) {
			c := "p"
			if proto == 1 || (proto == 2 && r.Intn(2) == 0) {
				c = "w"
			}
			for _, kv := range sers[refs[k].i].labels {
				if kv.k == "__name__" || kv.bad != "" || kv.esc { // remote write cannot express a second label named __name__ / JSON spellings
					c = "p"
				}
			}
			if sers[refs[k].i].escName {
				c = "p"
			}
			hist = append(hist, fmt.Sprintf("%s%d.%d", c, refs[k].i, refs[k].j))
		}
	}
	tags[fmt.Sprintf("ro=%d", nro)]++
	tags[fmt.Sprintf("br=%d", nbr)]++

	// queries
	width := 360 * step
	if step == 1 {
		width = uint32(340 + r.Intn(21))
	}
	qs := t0 - uint32(r.Intn(int(width-span)+1))
	full := func() (uint32, uint32) { return qs, qs + width }
	var allTs []uint32
	for _, s := range sers {
		for _, p := range s.pts {
			allTs = append(allTs, p.ts)
		}
	}
	rng := func() (uint32, uint32) {
		if irregularWide && (len(allTs) == 0 || r.Intn(4) != 0) || r.Intn(4) == 0 {
			if len(allTs) == 0 {
				return full()
			}
			// window with a boundary exactly on a point (inclusive range ends) or around a point
			p := allTs[r.Intn(len(allTs))]
			w := uint32(1 + r.Intn(350))
			if !irregularWide && r.Intn(2) == 0 {
				w = uint32(1+r.Intn(300)) * step
			}
			switch r.Intn(4) {
			case 0:
				return p, p + w
			case 1:
				if p > w {
					return p - w, p
				}
				return p, p
			case 2:
				return p, p
			default:
				a := uint32(r.Intn(int(w)))
				return p - a, p - a + w
			}
		}
		return full()
	}
	keysOf := func() []string {
		m := map[string]bool{}
		for _, s := range sers {
			for _, kv := range s.labels {
				if kv.k != "__name__" { // matchers / grouping on __name__ address the metric name
					m[kv.k] = true
				}
			}
		}
		var ks []string
		for k := range m {
			ks = append(ks, k)
		}
		sort.Strings(ks)
		return ks
	}()
	valsOf := func(k string) []string {
		m := map[string]bool{}
		for _, s := range sers {
			for _, kv := range s.labels {
				if kv.k == k {
					m[kv.v] = true
				}
			}
		}
		var vs []string
		for v := range m {
			vs = append(vs, v)
		}
		sort.Strings(vs)
		return vs
	}
	plainRe := regexp.MustCompile(`^[A-Za-z0-9_-]+$`)
	nameMatcher := func() string {
		name := sers[r.Intn(len(sers))].name
		switch r.Intn(8) {
		case 0:
			if plainRe.MatchString(fam[0]) {
				tags["q:name-regex"]++
				return "__name__~re~" + hexs(fam[0]+".*")
			}
		case 1:
			if plainRe.MatchString(fam[0]) && plainRe.MatchString(fam[1]) {
				tags["q:name-regex"]++
				return "__name__~re~" + hexs(fam[0]+"|"+fam[1])
			}
		}
		return "__name__~eq~" + hexs(name)
	}
	labelMatcher := func() string {
		if len(keysOf) == 0 {
			return ""
		}
		k := keysOf[r.Intn(len(keysOf))]
		vs := valsOf(k)
		v := vs[r.Intn(len(vs))]
		if r.Intn(8) == 0 {
			v = mValPool[r.Intn(len(mValPool))]
		}
		for _, kk := range keysOf { // a label that has the value "*": half of the matchers are k="*" / k!="*"
			for _, x := range valsOf(kk) {
				if x == "*" && r.Intn(2) == 0 {
					tags["q:star-literal-matcher"]++
					return kk + "~" + []string{"eq", "eq", "ne"}[r.Intn(3)] + "~" + hexs("*")
				}
			}
		}
		var plain []string
		for _, x := range vs {
			if plainRe.MatchString(x) {
				plain = append(plain, x)
			}
		}
		switch r.Intn(9) {
		case 0, 1, 2:
			return k + "~eq~" + hexs(v)
		case 3, 4:
			return k + "~ne~" + hexs(v)
		case 5:
			if len(plain) > 0 {
				a, b := plain[r.Intn(len(plain))], plain[r.Intn(len(plain))]
				if r.Intn(3) == 0 {
					b = mValPool[r.Intn(len(mValPool))]
				}
				return k + "~re~" + hexs(a+"|"+b)
			}
		case 6:
			if len(plain) > 0 {
				a := plain[r.Intn(len(plain))]
				return k + "~re~" + hexs(a[:1]+".*")
			}
		case 7:
			if len(plain) > 0 {
				a := plain[r.Intn(len(plain))]
				return k + "~nre~" + hexs(a[:1]+".*")
			}
		default:
			if len(plain) > 0 {
				return k + "~nre~" + hexs(plain[r.Intn(len(plain))])
			}
		}
		return k + "~eq~" + hexs(v)
	}
	var qtoks []string
	nq := 4 + r.Intn(5)
	for q := 0; q < nq; q++ {
		a, b := rng()
		if q == 0 {
			a, b = full()
		}
		ms := []string{nameMatcher()}
		if q > 0 {
			usedLabel := map[string]bool{}
			for k := r.Intn(3); k > 0; k-- {
				if m := labelMatcher(); m != "" {
					l := m[:strings.Index(m, "~")]
					if usedLabel[l] && r.Intn(3) != 0 { // two matchers on one label
						continue
					}
					usedLabel[l] = true
					ms = append(ms, m)
				}
			}
		}
		if r.Intn(2) == 0 {
			r.Shuffle(len(ms), func(i, j int) { ms[i], ms[j] = ms[j], ms[i] })
		}
		style := "b"
		if r.Intn(3) == 0 {
			style = "n"
		}
		tok := fmt.Sprintf("%d/%d/%s/%s", a, b, style, strings.Join(ms, ";"))
		wantAgg := q > 0 && (intFlavour && r.Intn(2) == 0 || !intFlavour && r.Intn(6) == 0)
		if wantAgg {
			fn := []string{"sum", "min", "max", "avg", "count"}[r.Intn(5)]
			if !intFlavour {
				fn = []string{"min", "max", "count"}[r.Intn(3)]
			}
			mode := []string{"none", "by", "by", "wo"}[r.Intn(4)]
			ls := "-"
			if mode != "none" && len(keysOf) > 0 {
				var pick []string
				for _, k := range keysOf {
					if r.Intn(2) == 0 {
						pick = append(pick, k)
					}
				}
				if len(pick) == 0 {
					pick = []string{keysOf[r.Intn(len(keysOf))]}
				}
				if mode == "wo" && len(pick) == len(keysOf) && len(pick) > 1 && r.Intn(10) != 0 {
					pick = pick[1:] // `without` every label (group {}): recorded finding, kept rare
				}
				ls = strings.Join(pick, "+")
			} else {
				mode = "none"
			}
			tok += fmt.Sprintf("/%s:%s:%s", fn, mode, ls)
			tags["q:agg-"+mode]++
		} else {
			tags["q:selector"]++
		}
		qtoks = append(qtoks, tok)
	}
	if r.Intn(3) == 0 { // the label-values API for a key of the data set (or one that no series has)
		a, b := full()
		k := "nosuch"
		if len(keysOf) > 0 && r.Intn(6) != 0 {
			k = keysOf[r.Intn(len(keysOf))]
		}
		qtoks = append(qtoks, fmt.Sprintf("lv/%d/%d/%s", a, b, k))
		tags["q:label-values"]++
	}
	toks := []string{"me"}
	for _, s := range sers {
		toks = append(toks, "S", s.token())
	}
	toks = append(toks, "H")
	toks = append(toks, hist...)
	toks = append(toks, "Q")
	toks = append(toks, qtoks...)
	return strings.Join(toks, " ")
}

// ---------------------------------------------------------------- exec

func parseMSeries(tok string) (s mser, ok bool) {
	i := strings.Index(tok, "{")
	j := strings.Index(tok, "}@")
	if i < 0 || j < i {
		return
	}
	s.escName = strings.HasPrefix(tok, "^")
	nb, err := hex.DecodeString(strings.TrimPrefix(tok[:i], "^"))
	if err != nil {
		return
	}
	s.name = string(nb)
	if ls := tok[i+1 : j]; ls != "" {
		for _, kv := range strings.Split(ls, ",") {
			p := strings.Split(kv, "=")
			if len(p) != 2 {
				return
			}
			if p[1] == "!t" || p[1] == "!n" {
				s.labels = append(s.labels, mkv{k: p[0], v: map[string]string{"!t": "true", "!n": "null"}[p[1]], bad: p[1][1:]})
				continue
			}
			if strings.HasPrefix(p[1], "!q") {
				vb, err := hex.DecodeString(p[1][2:])
				if err != nil {
					return
				}
				s.labels = append(s.labels, mkv{k: p[0], v: string(vb), bad: "q"})
				continue
			}
			if strings.HasPrefix(p[1], "!") {
				return
			}
			num := strings.HasPrefix(p[1], "#")
			esc := strings.HasPrefix(p[1], "^")
			vb, err := hex.DecodeString(strings.TrimPrefix(strings.TrimPrefix(p[1], "#"), "^"))
			if err != nil {
				return
			}
			s.labels = append(s.labels, mkv{k: p[0], v: string(vb), num: num, esc: esc})
		}
	}
	if ps := tok[j+2:]; ps != "" {
		for _, p := range strings.Split(ps, ",") {
			tv := strings.Split(p, ":")
			if len(tv) != 2 || len(tv[1]) != 16 {
				return
			}
			t, e1 := strconv.ParseUint(tv[0], 10, 32)
			v, e2 := strconv.ParseUint(tv[1], 16, 64)
			if e1 != nil || e2 != nil {
				return
			}
			s.pts = append(s.pts, mpt{uint32(t), v})
		}
	}
	return s, true
}

// JSON string with only the escapes JSON requires (UTF-8 is sent as is)
func jsonStr(s string) string {
	var sb strings.Builder
	sb.WriteByte('"')
	for _, c := range []byte(s) {
		switch {
		case c == '"' || c == '\\':
			sb.WriteByte('\\')
			sb.WriteByte(c)
		case c < 0x20:
			fmt.Fprintf(&sb, `\u%04x`, c)
		default:
			sb.WriteByte(c)
		}
	}
	sb.WriteByte('"')
	return sb.String()
}

// the same string with its first byte (when it is ASCII) spelled as a \u00XX escape
func jsonStrEsc(s string) string {
	if s == "" || s[0] >= 0x80 {
		return jsonStr(s)
	}
	return fmt.Sprintf(`"\u%04x`, s[0]) + jsonStr(s[1:])[1:]
}

func floatText(bits uint64) string {
	f := math.Float64frombits(bits)
	if bits == 0x8000000000000000 {
		return "-0"
	}
	return strconv.FormatFloat(f, 'g', -1, 64)
}

// the tags of one series are sent in a different order with every point (the engine must not depend on it)
func dpJSON(s mser, j int) string {
	n := len(s.labels)
	var tg []string
	for x := 0; x < n; x++ {
		kv := s.labels[(x+j)%n]
		if j%3 == 2 {
			kv = s.labels[(n-1-x+j)%n]
		}
		switch {
		case kv.bad == "t":
			tg = append(tg, jsonStr(kv.k)+":true")
		case kv.bad == "n":
			tg = append(tg, jsonStr(kv.k)+":null")
		case kv.bad == "q":
			js := jsonStr(kv.v)
			tg = append(tg, jsonStr(kv.k)+":"+js[:len(js)-1]+`\q"`)
		case kv.num && j%2 == 0 && mNumRe.MatchString(kv.v):
			tg = append(tg, jsonStr(kv.k)+":"+kv.v)
		case kv.esc && j%2 == 1:
			tg = append(tg, jsonStr(kv.k)+":"+jsonStrEsc(kv.v))
		default:
			tg = append(tg, jsonStr(kv.k)+":"+jsonStr(kv.v))
		}
	}
	p := s.pts[j]
	nameJS := jsonStr(s.name)
	if s.escName && j%2 == 1 {
		nameJS = jsonStrEsc(s.name)
	}
	parts := []string{`"metric":` + nameJS, `"tags":{` + strings.Join(tg, ",") + `}`, fmt.Sprintf(`"timestamp":%d`, p.ts), `"value":` + floatText(p.bits)}
	if j%2 == 1 { // field order of the JSON object varies as well
		parts[0], parts[3] = parts[3], parts[0]
	}
	return "{" + strings.Join(parts, ",") + "}"
}

type mQuery struct {
	start, end uint32
	promql     string
	agg        bool
	bin        bool   // binary operator between two operands / expression
	lv         string // label-values request for this label
	nvec       int    // expressions: number of vector operands
	tags       []string
	formula    string      // fx: the formula over the named queries (FORMULA path)
	fqueries   [][2]string // fx: name, PromQL text of the named queries, in the order of first use
	leaves     []string    // bx / fx: the operand tokens <style>!<matchers>!<agg> of the vector leaves, in order
}

// the JSON body of POST /metrics-explorer/api/v1/timeseries (the same text is stored as the query parameters of a metric alert)
func (q mQuery) formulaBody() string {
	var qs []string
	for _, nq := range q.fqueries {
		qs = append(qs, fmt.Sprintf(`{"name":%s,"query":%s,"qlType":"promql"}`, jsonStr(nq[0]), jsonStr(nq[1])))
	}
	return fmt.Sprintf(`{"start":%d,"end":%d,"queries":[%s],"formulas":[{"formula":%s}]}`, q.start, q.end, strings.Join(qs, ","), jsonStr(q.formula))
}

var mBinOpText = map[string]string{"add": "+", "sub": "-", "mul": "*", "div": "/", "mod": "%", "pow": "^", "eq": "==", "ne": "!=",
	"gt": ">", "lt": "<", "ge": ">=", "le": "<=", "and": "and", "or": "or", "unless": "unless"}

// bin!<op>!<0|1 bool>!<start>!<end>!<styleL>!<matchersL>!<aggL|->!<styleR>!<matchersR>!<aggR|->
func parseMBinQuery(tok string) (q mQuery, ok bool) {
	p := strings.Split(tok, "!")
	if len(p) != 11 || p[0] != "bin" || (p[2] != "0" && p[2] != "1") {
		return
	}
	opText, okop := mBinOpText[p[1]]
	if !okop {
		return
	}
	operand := func(style, ms, ag string) (string, bool) {
		t := p[3] + "/" + p[4] + "/" + style + "/" + ms
		if ag != "-" {
			t += "/" + ag
		}
		oq, ok := parseMQuery(t)
		return oq.promql, ok && !oq.bin
	}
	l, ok1 := operand(p[5], p[6], p[7])
	r, ok2 := operand(p[8], p[9], p[10])
	a, e1 := strconv.ParseUint(p[3], 10, 32)
	b, e2 := strconv.ParseUint(p[4], 10, 32)
	if !ok1 || !ok2 || e1 != nil || e2 != nil || a > b {
		return
	}
	if p[2] == "1" {
		opText += " bool"
	}
	return mQuery{start: uint32(a), end: uint32(b), promql: "(" + l + ") " + opText + " (" + r + ")", agg: true, bin: true}, true
}

// bx!<start>!<end>!<expr in prefix form>
func parseMExprQuery(tok string) (q mQuery, ok bool) {
	p := strings.Split(tok, "!")
	if len(p) < 5 || (p[0] != "bx" && p[0] != "fx") {
		return
	}
	isFormula := p[0] == "fx"
	nameOf := map[string]string{} // fx: PromQL text of a leaf → name of the query (a, b, c, …: one name per distinct text)
	var fqueries [][2]string
	var leaves, leafText, leafName []string
	a, e1 := strconv.ParseUint(p[1], 10, 32)
	b, e2 := strconv.ParseUint(p[2], 10, 32)
	if e1 != nil || e2 != nil || a > b || !mDigits.MatchString(p[1]) || !mDigits.MatchString(p[2]) {
		return
	}
	q = mQuery{start: uint32(a), end: uint32(b), agg: true, bin: true}
	tagset := map[string]bool{}
	var expr func(t []string, depth int) (text string, vector bool, rest []string, ok bool)
	expr = func(t []string, depth int) (string, bool, []string, bool) {
		if len(t) == 0 || depth > 8 {
			return "", false, nil, false
		}
		switch t[0] {
		case "v":
			if len(t) < 4 || (t[1] != "b" && t[1] != "n") {
				return "", false, nil, false
			}
			ot := p[1] + "/" + p[2] + "/" + t[1] + "/" + t[2]
			if t[3] != "-" {
				ot += "/" + t[3]
			}
			oq, ok := parseMQuery(ot)
			if !ok || oq.bin || oq.lv != "" {
				return "", false, nil, false
			}
			q.nvec++
			leaves = append(leaves, strings.Join(t[1:4], "!"))
			leafText = append(leafText, oq.promql)
			nm, seen := nameOf[oq.promql]
			if !seen {
				if len(nameOf) >= 8 {
					return "", false, nil, false
				}
				nm = string(rune('a' + len(nameOf)))
				nameOf[oq.promql] = nm
				fqueries = append(fqueries, [2]string{nm, oq.promql})
			}
			leafName = append(leafName, nm)
			return fmt.Sprintf("(\x01%d\x01)", len(leaves)-1), true, t[4:], true
		case "s":
			if len(t) < 3 || !regexp.MustCompile(`^-?[0-9]{1,6}$`).MatchString(t[1]) || !regexp.MustCompile(`^[0-9]{1,4}$`).MatchString(t[2]) {
				return "", false, nil, false
			}
			n, _ := strconv.Atoi(t[1])
			d, _ := strconv.Atoi(t[2])
			if d == 0 {
				return "", false, nil, false
			}
			tagset["expr:scalar"] = true
			return strconv.FormatFloat(float64(n)/float64(d), 'f', -1, 64), false, t[3:], true
		case "n":
			x, vec, rest, ok := expr(t[1:], depth+1)
			if !ok {
				return "", false, nil, false
			}
			tagset["expr:unary-minus"] = true
			return "-" + x, vec, rest, true
		case "o":
			if len(t) < 7 || (t[2] != "0" && t[2] != "1") {
				return "", false, nil, false
			}
			opText, okop := mBinOpText[t[1]]
			if !okop {
				return "", false, nil, false
			}
			if t[2] == "1" {
				opText += " bool"
			}
			switch t[3] {
			case "d":
				if t[4] != "-" {
					return "", false, nil, false
				}
			case "on", "ig":
				var ls []string
				if t[4] != "-" {
					ls = strings.Split(t[4], "+")
				}
				for _, l := range ls {
					if !mLabelNameRe.MatchString(l) {
						return "", false, nil, false
					}
				}
				opText += map[string]string{"on": " on", "ig": " ignoring"}[t[3]] + "(" + strings.Join(ls, ",") + ")"
				tagset["expr:"+t[3]] = true
				if t[1] == "and" || t[1] == "or" || t[1] == "unless" {
					tagset["expr:set-op-with-matching"] = true
				}
			default:
				return "", false, nil, false
			}
			l, lv, rest, ok := expr(t[5:], depth+1)
			if !ok {
				return "", false, nil, false
			}
			r, rv, rest, ok := expr(rest, depth+1)
			if !ok {
				return "", false, nil, false
			}
			if depth > 0 {
				tagset["expr:nested"] = true
			}
			if lv != rv {
				tagset["expr:vector-scalar"] = true
			}
			// every operand in parentheses, except number literals (the engine recognises a constant operand by its
			// syntax node: `(11)` is a parenthesised expression for it — not exercised)
			if !strings.HasPrefix(l, "(") && !mNumLit.MatchString(l) {
				l = "(" + l + ")"
			}
			if !strings.HasPrefix(r, "(") && !mNumLit.MatchString(r) {
				r = "(" + r + ")"
			}
			return "(" + l + " " + opText + " " + r + ")", lv || rv, rest, true
		}
		return "", false, nil, false
	}
	text, _, rest, okx := expr(p[3:], 0)
	if !okx || len(rest) != 0 {
		return mQuery{}, false
	}
	// the leaves were written as placeholders: the PromQL text has (the text of) every operand in their place, the formula
	// the NAME of the query with that text (one name per distinct text, as a user of the metrics explorer writes it)
	fill := func(with []string) string {
		out := text
		for i := len(with) - 1; i >= 0; i-- {
			out = strings.ReplaceAll(out, fmt.Sprintf("\x01%d\x01", i), with[i])
		}
		return out
	}
	q.promql = fill(leafText)
	q.leaves = leaves
	if isFormula {
		q.formula, q.fqueries = fill(leafName), fqueries
		tagset["route:formula"] = true
	} else {
		tagset["route:promql"] = true
	}
	distinct := map[string]bool{}
	for _, l := range leaves {
		distinct[l] = true
	}
	if len(distinct) < len(leaves) {
		tagset["expr:repeated-selector"] = true
	}
	for t := range tagset {
		q.tags = append(q.tags, t)
	}
	sort.Strings(q.tags)
	return q, true
}

// DISTRIBUTION TAGS only (nothing is judged with it): roughly how many elements the vector of an operand token
// <style>!<matchers>!<agg|-> has over the given series (absent label = "", regex anchored)
func mLeafElems(sers []mser, leaf string) int {
	p := strings.Split(leaf, "!")
	if len(p) != 3 {
		return 0
	}
	type m struct{ k, op, v string }
	var ms []m
	for _, x := range strings.Split(p[1], ";") {
		y := strings.Split(x, "~")
		if len(y) != 3 {
			return 0
		}
		vb, _ := hex.DecodeString(y[2])
		ms = append(ms, m{y[0], y[1], string(vb)})
	}
	groups := map[string]bool{}
	var byKeys []string
	mode := ""
	if p[2] != "-" {
		a := strings.Split(p[2], ":")
		if len(a) == 3 {
			mode = a[1]
			if a[2] != "-" {
				byKeys = strings.Split(a[2], "+")
			}
		}
	}
	for _, s := range sers {
		if len(s.pts) == 0 || mRejectClass(s) != "" {
			continue
		}
		ok := true
		for _, x := range ms {
			v := ""
			if x.k == "__name__" {
				v = s.name
			}
			for _, kv := range s.labels {
				if kv.k == x.k && x.k != "__name__" {
					v = kv.v
				}
			}
			var hit bool
			switch x.op {
			case "eq", "ne":
				hit = v == x.v
			default:
				re, err := regexp.Compile("^(?:" + x.v + ")$")
				hit = err == nil && re.MatchString(v)
			}
			if x.op == "ne" || x.op == "nre" {
				hit = !hit
			}
			ok = ok && hit
		}
		if !ok {
			continue
		}
		var key []mkv
		for _, kv := range s.labels {
			in := false
			for _, k := range byKeys {
				in = in || k == kv.k
			}
			if mode == "" || (mode == "by" && in) || (mode == "wo" && !in) {
				key = append(key, kv)
			}
		}
		groups[canonLabels(key)] = true
	}
	return len(groups)
}

var mDigits = regexp.MustCompile(`^[0-9]{1,10}$`)
var mNumLit = regexp.MustCompile(`^[0-9]+(\.[0-9]+)?$`)

func parseMQuery(tok string) (q mQuery, ok bool) {
	if strings.HasPrefix(tok, "bin!") {
		return parseMBinQuery(tok)
	}
	if strings.HasPrefix(tok, "bx!") || strings.HasPrefix(tok, "fx!") {
		return parseMExprQuery(tok)
	}
	if strings.HasPrefix(tok, "lv/") {
		p := strings.Split(tok, "/")
		if len(p) != 4 || !mDigits.MatchString(p[1]) || !mDigits.MatchString(p[2]) || !mLabelNameRe.MatchString(p[3]) || p[3] == "__name__" {
			return
		}
		a, _ := strconv.ParseUint(p[1], 10, 32)
		b, _ := strconv.ParseUint(p[2], 10, 32)
		if a > b || a > math.MaxUint32 || b > math.MaxUint32 {
			return
		}
		return mQuery{start: uint32(a), end: uint32(b), lv: p[3]}, true
	}
	p := strings.Split(tok, "/")
	if len(p) != 4 && len(p) != 5 {
		return
	}
	a, e1 := strconv.ParseUint(p[0], 10, 32)
	b, e2 := strconv.ParseUint(p[1], 10, 32)
	if e1 != nil || e2 != nil || a > b || (p[2] != "b" && p[2] != "n") {
		return
	}
	q.start, q.end = uint32(a), uint32(b)
	bare := ""
	var ms []string
	for _, m := range strings.Split(p[3], ";") {
		x := strings.Split(m, "~")
		if len(x) != 3 {
			return
		}
		vb, err := hex.DecodeString(x[2])
		if err != nil {
			return
		}
		op, okop := map[string]string{"eq": "=", "ne": "!=", "re": "=~", "nre": "!~"}[x[1]]
		if !okop {
			return
		}
		if (x[1] == "re" || x[1] == "nre") && !regexp.MustCompile(`^([A-Za-z0-9_-]|\.\*)*(\|([A-Za-z0-9_-]|\.\*)*)*$`).MatchString(string(vb)) {
			return
		}
		if x[0] == "__name__" && x[1] == "eq" && p[2] == "b" && bare == "" && isIdent(string(vb)) {
			bare = string(vb)
			continue
		}
		ms = append(ms, x[0]+op+strconv.Quote(string(vb)))
	}
	sel := bare
	if len(ms) > 0 || bare == "" {
		sel += "{" + strings.Join(ms, ",") + "}"
	}
	q.promql = sel
	if len(p) == 5 {
		x := strings.Split(p[4], ":")
		if len(x) != 3 {
			return
		}
		if !map[string]bool{"sum": true, "min": true, "max": true, "avg": true, "count": true}[x[0]] {
			return
		}
		q.agg = true
		ls := ""
		if x[2] != "-" {
			ls = strings.Join(strings.Split(x[2], "+"), ",")
		}
		switch x[1] {
		case "none":
			q.promql = x[0] + "(" + sel + ")"
		case "by", "wo":
			kw := map[string]string{"by": "by", "wo": "without"}[x[1]]
			if p[2] == "b" {
				q.promql = fmt.Sprintf("%s(%s) %s (%s)", x[0], sel, kw, ls)
			} else {
				q.promql = fmt.Sprintf("%s %s (%s) (%s)", x[0], kw, ls, sel)
			}
		default:
			return
		}
	}
	return q, true
}

// the labels the engine REPORTS for a result series: the parse its own API layer applies to the series id
// (mresults.getPromQLSeriesFormat: name up to "{", then "k:v" items separated by ",")
func canonMSeriesID(id string) (name string, labels string) {
	id = strings.TrimSuffix(id, ",")
	name = id
	rest := ""
	if i := strings.Index(id, "{"); i >= 0 {
		name, rest = id[:i], id[i+1:]
	}
	var l []mkv
	if rest != "" {
		for _, it := range strings.Split(rest, ",") {
			kv := strings.SplitN(it, ":", 2)
			if len(kv) == 2 {
				l = append(l, mkv{k: kv[0], v: kv[1]})
			} else {
				l = append(l, mkv{k: "?" + hexs(it), v: ""})
			}
		}
	}
	return name, canonLabels(l)
}

func ratOfBits(h string) string {
	b, err := strconv.ParseUint(h, 16, 64)
	if err != nil {
		return "?" + h
	}
	f := math.Float64frombits(b)
	if math.IsNaN(f) {
		return "nan"
	}
	if math.IsInf(f, 1) {
		return "inf"
	}
	if math.IsInf(f, -1) {
		return "-inf"
	}
	rt := new(big.Rat).SetFloat64(f)
	if rt.IsInt() {
		return rt.Num().String()
	}
	return rt.Num().String() + "/" + rt.Denom().String()
}

func canonMAnswer(line string, agg bool) string {
	var resp struct {
		Results map[string]map[string]string `json:"results"`
		Errs    []string                     `json:"errs"`
		Err     string                       `json:"err"`
		Lv      []string                     `json:"labelvalues"`
		LvErr   string                       `json:"lverr"`
	}
	if err := json.Unmarshal([]byte(line), &resp); err != nil {
		return "kind=undecodable"
	}
	if resp.LvErr != "" {
		return "kind=error err=" + hexs(trunc(resp.LvErr, 200))
	}
	if resp.Lv != nil {
		var hv []string
		for _, v := range resp.Lv {
			hv = append(hv, "x"+hexs(v))
		}
		sort.Strings(hv)
		return "kind=mlv vals=" + strings.Join(hv, ",")
	}
	if resp.Err != "" {
		return "kind=error err=" + hexs(trunc(resp.Err, 200))
	}
	if len(resp.Errs) > 0 {
		return "kind=error err=" + hexs(trunc(strings.Join(resp.Errs, "; "), 200))
	}
	var sers []string
	for hid, pts := range resp.Results {
		idb, _ := hex.DecodeString(hid)
		name, labels := canonMSeriesID(string(idb))
		var tss []int
		for t := range pts {
			n, _ := strconv.Atoi(t)
			tss = append(tss, n)
		}
		sort.Ints(tss)
		var ps []string
		for _, t := range tss {
			v := pts[strconv.Itoa(t)]
			if agg {
				v = ratOfBits(v)
			}
			ps = append(ps, fmt.Sprintf("%d:%s", t, v))
		}
		sers = append(sers, hexs(name)+labels+"@"+strings.Join(ps, ","))
	}
	sort.Strings(sers)
	kind := "mseries"
	if agg {
		kind = "magg"
	}
	return "kind=" + kind + " ser=" + strings.Join(sers, ";")
}

var mSteps = []uint32{1, 5, 10, 20, 60, 120, 300, 600, 1200, 3600, 7200, 14400, 28800, 57600, 115200, 230400, 460800, 921600}

// mresults.CalculateInterval (checked against the real function in execE2EM)
func mInterval(width uint32) uint32 {
	for _, st := range mSteps {
		if width/st <= 360 {
			return st
		}
	}
	return 0
}

func mUnaligned(sers []mser, ingested map[[2]int]bool, q mQuery) bool {
	iv := mInterval(q.end - q.start)
	if iv == 0 {
		return true
	}
	for si, s := range sers {
		seen := map[uint32]bool{}
		for pj, p := range s.pts {
			if !ingested[[2]int{si, pj}] || p.ts < q.start || p.ts > q.end {
				continue
			}
			if p.ts%iv != 0 || seen[p.ts] {
				return true
			}
			seen[p.ts] = true
		}
	}
	return false
}

func stripAggNames(seg string) string {
	return regexp.MustCompile(`(ser=|;)[0-9a-f]*\{`).ReplaceAllString(seg, "$1{")
}

func stripPoints(seg string) string {
	return regexp.MustCompile(`@[^; ]*`).ReplaceAllString(seg, "@")
}

// two different series whose TSID pre-image strings (tagsholder.go GetTSID: name, then "__key__value" per tag in
// descending key order, no separator between a value and the next key) coincide — input class of a recorded finding
func mPreimageCollision(sers []mser) bool {
	pre := map[string]string{}
	for _, s := range sers {
		l := append([]mkv(nil), s.labels...)
		sort.Slice(l, func(i, j int) bool { return l[i].k > l[j].k })
		p := s.name + "__"
		for _, kv := range l {
			p += kv.k + "__" + kv.v
		}
		id := s.name + canonLabels(s.labels)
		if other, ok := pre[p]; ok && other != id {
			return true
		}
		pre[p] = id
	}
	return false
}

func mOver64k(sers []mser) bool {
	for _, s := range sers {
		for _, kv := range s.labels {
			if len(kv.v) > 65535 {
				return true
			}
		}
	}
	return false
}

// Spec/Metrics.lean `accepted`: "" = the datapoints of the series must be accepted, else the class of the (repaired)
// finding because of which they must be rejected at ingest
func mRejectClass(s mser) string {
	if len(s.labels) == 0 {
		return "no-tags"
	}
	for _, kv := range s.labels {
		if kv.bad != "" {
			return "tag-value-not-a-string"
		}
	}
	for _, kv := range s.labels {
		if len(kv.v) > 65535 {
			return "tag-value-over-64k"
		}
	}
	return ""
}

// input classes of recorded findings that can make the answer depend on rotation (same names as Spec/Metrics.lean `classes`)
func mGoClasses(sers []mser, escaped bool) []string {
	var cl []string
	if escaped {
		cl = append(cl, "json-escaped-tag-value")
	}
	if mOver64k(sers) {
		cl = append(cl, "tag-value-over-64k")
	}
	if mPreimageCollision(sers) {
		cl = append(cl, "tsid-preimage-collision")
	}
	for _, s := range sers {
		for _, kv := range s.labels {
			if strings.Contains(kv.v, ",") { // recorded finding: ids are split on "," — the items of an id are ordered differently open / rotated
				cl = append(cl, "value-has-comma")
				return cl
			}
		}
	}
	return cl
}

func execE2EM(line string) Result {
	f := strings.Fields(line)
	if len(f) > 0 && f[0] == "mc" {
		return execE2EMCard(f)
	}
	if len(f) < 4 || f[0] != "me" {
		return Result{Out: "bad-op"}
	}
	var sers []mser
	i := 1
	for ; i+1 < len(f) && f[i] == "S"; i += 2 {
		s, ok := parseMSeries(f[i+1])
		if !ok {
			return Result{Out: "bad-op"}
		}
		sers = append(sers, s)
	}
	if i >= len(f) || f[i] != "H" {
		return Result{Out: "bad-op"}
	}
	var in bytes.Buffer
	npts, nro, nbr, ntf, ncr := 0, 0, 0, 0, 0
	var chunks []string // the input of the worker processes before the last one (each ends with a crash)
	escaped, rwEscaped, numeric := false, false, false
	ingested := map[[2]int]bool{}
	var dpSeries []int // series index of the n-th dp command
	var dpRW []bool    // … it went through remote write
	for i++; i < len(f) && f[i] != "Q"; i++ {
		t := f[i]
		switch {
		case t == "ro":
			in.WriteString("rotate\n")
			nro++
		case t == "br":
			in.WriteString("blockrotate\n")
			nbr++
		case t == "tf":
			in.WriteString("ttflush\n")
			ntf++
		case t == "cr":
			// the WAL timers run once, then the process dies; the next process recovers and goes on
			in.WriteString("walflush\ncrash\n")
			chunks = append(chunks, in.String())
			in.Reset()
			fmt.Fprintf(&in, "recover\ndpbase %d\n", len(dpSeries))
			ncr++
		case strings.HasPrefix(t, "p"), strings.HasPrefix(t, "w"):
			x := strings.Split(t[1:], ".")
			if len(x) != 2 {
				return Result{Out: "bad-op"}
			}
			si, e1 := strconv.Atoi(x[0])
			pj, e2 := strconv.Atoi(x[1])
			if e1 != nil || e2 != nil || si < 0 || si >= len(sers) || pj < 0 || pj >= len(sers[si].pts) {
				return Result{Out: "bad-op"}
			}
			if t[0] == 'w' {
				var ls []string
				for _, kv := range sers[si].labels {
					if kv.k == "__name__" || kv.bad != "" {
						return Result{Out: "bad-op"} // not expressible in remote write: __name__ is the metric name there, values are strings
					}
					ls = append(ls, kv.k+"="+hexs(kv.v))
					if strings.ContainsAny(kv.v, "\\\"") {
						escaped, rwEscaped = true, true
					}
				}
				l := strings.Join(ls, ",")
				if l == "" {
					l = "-"
				}
				fmt.Fprintf(&in, "rw %s %d %016x %s\n", hexs(sers[si].name), sers[si].pts[pj].ts, sers[si].pts[pj].bits, l)
				dpRW = append(dpRW, true)
			} else {
				js := dpJSON(sers[si], pj)
				if strings.Contains(js, `\`) {
					escaped = true
				}
				for _, kv := range sers[si].labels {
					if kv.num && pj%2 == 0 && mNumRe.MatchString(kv.v) {
						numeric = true
					}
				}
				fmt.Fprintf(&in, "dp %s\n", hexs(js))
				dpRW = append(dpRW, false)
			}
			dpSeries = append(dpSeries, si)
			if mRejectClass(sers[si]) == "" { // the specification: datapoints of the other series are rejected
				ingested[[2]int{si, pj}] = true
			}
			npts++
		default:
			return Result{Out: "bad-op"}
		}
	}
	if i >= len(f) || i+1 >= len(f) {
		return Result{Out: "bad-op"}
	}
	var qs []mQuery
	for _, t := range f[i+1:] {
		q, ok := parseMQuery(t)
		if !ok {
			return Result{Out: "bad-op"}
		}
		if iv, err := mresults.CalculateInterval(q.end - q.start); err != nil || iv != mInterval(q.end-q.start) {
			return Result{Out: "interval-table-differs", Fails: []PropFail{{Sig: "e2em/harness/interval-table", Msg: fmt.Sprintf("mresults.CalculateInterval(%d) = %d, %v; the harness and the Lean specification assume %d", q.end-q.start, iv, err, mInterval(q.end-q.start))}}}
		}
		qs = append(qs, q)
	}
	for phase := 0; phase < 2; phase++ {
		for _, q := range qs {
			if q.lv != "" {
				fmt.Fprintf(&in, "lv %s %d %d\n", hexs(q.lv), q.start, q.end)
			} else if q.formula != "" {
				fmt.Fprintf(&in, "fq %d %d %s\n", q.start, q.end, hexs(q.formulaBody()))
			} else {
				fmt.Fprintf(&in, "q %d %d %s\n", q.start, q.end, hexs(q.promql))
			}
		}
		if phase == 0 {
			in.WriteString("rotate\n")
		}
	}
	chunks = append(chunks, in.String())
	var stdout, stderr bytes.Buffer
	var werr error
	dataDir := ""
	if len(chunks) > 1 { // crash / restart: the processes share one data directory
		d, err := os.MkdirTemp("", "verifmetcr")
		if err != nil {
			return Result{Out: "worker-start-failed"}
		}
		dataDir = d
		defer os.RemoveAll(d)
	}
	for ci, chunk := range chunks {
		cmd := exec.Command(os.Args[0], "mworker")
		cmd.Stdin = strings.NewReader(chunk)
		cmd.Stdout = &stdout
		cmd.Stderr = &stderr
		cmd.Env = append(os.Environ(), "GOMEMLIMIT=2GiB", "GOMAXPROCS=4")
		if dataDir != "" {
			cmd.Env = append(cmd.Env, "VERIF_MW_DIR="+dataDir)
		}
		done := make(chan error, 1)
		if err := cmd.Start(); err != nil {
			return Result{Out: "worker-start-failed"}
		}
		go func() { done <- cmd.Wait() }()
		select {
		case werr = <-done:
		case <-time.After(120 * time.Second):
			cmd.Process.Kill()
			<-done
			return Result{Out: "worker-timeout", Fails: []PropFail{{Sig: "e2em-worker/timeout", Msg: fmt.Sprintf("metrics engine worker %d of %d did not finish within 120 s", ci+1, len(chunks))}}, Nontrivial: true}
		}
		if werr != nil {
			break
		}
	}
	var resLines []string
	var fails []PropFail
	rejected := map[int]bool{}
	for _, l := range strings.Split(strings.TrimSpace(stdout.String()), "\n") {
		switch {
		case strings.HasPrefix(l, `{"dp"`), strings.HasPrefix(l, `{"ingesterr"`):
			var ie struct {
				Dp  int    `json:"dp"`
				Err string `json:"ingesterr"`
			}
			if json.Unmarshal([]byte(l), &ie) != nil || ie.Dp < 0 || ie.Dp >= len(dpSeries) {
				fails = append(fails, PropFail{Sig: "e2em/harness/ingesterr-line", Msg: "unreadable rejection line: " + trunc(l, 300)})
				continue
			}
			rejected[ie.Dp] = true
			if mRejectClass(sers[dpSeries[ie.Dp]]) == "" {
				sig := "e2em/ingest-rejected"
				if dpRW[ie.Dp] && rwEscaped { // (repaired) remote write handed raw label values to the JSON string parser
					sig = "e2em/in-class/remote-write-escape"
				}
				fails = append(fails, PropFail{Sig: sig, Msg: "a datapoint of the generated (well-formed) class was rejected: " + trunc(l, 300)})
			}
		case strings.HasPrefix(l, `{"roterr"`):
			fails = append(fails, PropFail{Sig: "e2em/rotate-error", Msg: "rotation failed: " + trunc(l, 300)})
		case strings.HasPrefix(l, "{"):
			resLines = append(resLines, l)
		}
	}
	reported := map[string]bool{}
	for n, si := range dpSeries {
		if cl := mRejectClass(sers[si]); cl != "" && !rejected[n] && !reported[cl] && werr == nil {
			reported[cl] = true
			fails = append(fails, PropFail{Sig: "e2em/in-class/" + cl, Msg: fmt.Sprintf("datapoint %d (series %d, %s) was accepted although the engine cannot serve it (%s): it must be rejected at ingest", n, si, trunc(sers[si].name+canonLabels(sers[si].labels), 120), cl)})
		}
	}
	if werr != nil || len(resLines) != 2*len(qs) {
		site, pmsg := "unknown", ""
		el := strings.Split(stderr.String(), "\n")
		for li, l := range el {
			if pmsg == "" && (strings.HasPrefix(l, "panic:") || strings.HasPrefix(l, "fatal error:")) {
				pmsg = trunc(l, 200)
			}
			if pmsg != "" && strings.Contains(l, "/pkg/") && strings.HasPrefix(l, "\t") && li > 0 {
				fn := strings.TrimSpace(el[li-1])
				if k := strings.LastIndex(fn, "("); k > 0 {
					fn = fn[:k]
				}
				if k := strings.LastIndex(fn, "/"); k >= 0 {
					fn = fn[k+1:]
				}
				site = fn
				break
			}
		}
		csig := "e2em-worker/crash/" + site
		if mOver64k(sers) { // recorded finding: the tags tree file is corrupt after rotation, readers may run out of bounds
			csig = "e2em/in-class/tag-value-over-64k"
		} else if numeric { // (repaired) the open-segment value iterator handed out the text of a number under a binary type
			csig = "e2em/in-class/numeric-tag-value"
		}
		return Result{Out: fmt.Sprintf("worker-died err=%v answers=%d/%d", werr, len(resLines), 2*len(qs)),
			Fails: []PropFail{{Sig: csig, Msg: fmt.Sprintf("metrics engine worker exited abnormally (%v) after %d of %d answers: %s at %s", werr, len(resLines), 2*len(qs), pmsg, site)}}, Nontrivial: true}
	}
	var segs []string
	nbin := 0
	for qi, q := range qs {
		a := canonMAnswer(resLines[qi], q.agg)
		b := canonMAnswer(resLines[len(qs)+qi], q.agg)
		if q.bin {
			a, b = strings.Replace(a, "kind=magg", "kind=mbin", 1), strings.Replace(b, "kind=magg", "kind=mbin", 1)
			nbin++
		}
		segs = append(segs, a)
		if mUnaligned(sers, ingested, q) {
			// latitude: some point of the range is not alone on the start of its downsample bucket; the engine then
			// averages the points of a bucket in storage order (floating-point rounding may differ): compare series and labels only
			a, b = stripPoints(a), stripPoints(b)
		}
		if q.agg {
			// latitude: PromQL drops the metric name of an aggregate; the engine prints one of the selected names (or "*")
			a, b = stripAggNames(a), stripAggNames(b)
		}
		if strings.HasPrefix(a, "kind=error") && strings.HasPrefix(b, "kind=error") {
			a, b = "kind=error", "kind=error" // the messages name files (the error itself is judged by the comparison with the specification)
		}
		if a != b {
			sig := "e2em/open-vs-rotated-differ"
			cl := mGoClasses(sers, escaped)
			if numeric {
				cl = append(cl, "numeric-tag-value")
			}
			if rwEscaped {
				cl = append(cl, "remote-write-escape")
			}
			sort.Strings(cl)
			if len(cl) > 0 {
				sig = "e2em/in-class/" + strings.Join(cl, "+")
			}
			if q.bin && strings.Contains(q.promql, " or ") && q.nvec > 2 {
				// (repaired, c09-25) the ids of a vector that comes from `or` start with different metric names; a later operator
				// used to cut them at the length of ONE of these names, picked by map iteration order
				sig = "e2em/in-class/mixed-name-vector-operand"
			}
			if q.lv != "" {
				// (repaired, c09-24) the rotated tags tree of a key was read for its first metric only
				names := map[string]bool{}
				for _, s := range sers {
					names[s.name] = true
				}
				if len(names) > 1 {
					sig = "e2em/in-class/label-values-first-metric-only"
				}
			}
			fails = append(fails, PropFail{Sig: sig, Msg: fmt.Sprintf("query %d (%s over [%d,%d]) answered differently after one more forced rotation: before %s ; after %s", qi, q.promql, q.start, q.end, trunc(a, 400), trunc(b, 400))})
		}
	}
	tg := []string{fmt.Sprintf("series=%d", len(sers)), fmt.Sprintf("points<=%d", (npts/10+1)*10), fmt.Sprintf("rotations=%d", nro), fmt.Sprintf("blockrotations=%d", nbr)}
	if ncr > 0 {
		tg = append(tg, fmt.Sprintf("crash-restarts=%d", ncr), fmt.Sprintf("tags-flushes=%d", ntf))
	}
	for _, q := range qs {
		tg = append(tg, q.tags...)
		if len(q.leaves) > 0 {
			// repeated operands: the same operand text more than once in one expression; multi-series = its vector has ≥ 2 elements
			route := "promql"
			if q.formula != "" {
				route = "formula"
			}
			cnt := map[string]int{}
			multi := 0
			for _, l := range q.leaves {
				cnt[l]++
				if mLeafElems(sers, l) >= 2 {
					multi++
				}
			}
			for l, c := range cnt {
				if c >= 2 {
					if mLeafElems(sers, l) >= 2 {
						tg = append(tg, "repeated-multi-series:"+route)
					} else {
						tg = append(tg, "repeated-single-series:"+route)
					}
				}
			}
			if q.formula != "" {
				tg = append(tg, fmt.Sprintf("formula:multi-series-operands=%d", min(multi, 3)))
			}
		}
		if q.lv != "" {
			tg = append(tg, "q:label-values")
		}
	}
	for _, s := range sers {
		if s.escName {
			tg = append(tg, "name-spelled-with-escape")
		}
		for _, kv := range s.labels {
			if kv.esc {
				tg = append(tg, "value-spelled-with-escape")
			}
			if kv.bad != "" {
				tg = append(tg, "tag-value-not-a-string")
			}
			if kv.v == "*" {
				tg = append(tg, "value-is-star")
			}
		}
	}
	tg = dedupStrings(tg)
	nrw := 0
	for _, w := range dpRW {
		if w {
			nrw++
		}
	}
	switch {
	case nrw == 0:
		tg = append(tg, "protocol=otsdb")
	case nrw == len(dpRW):
		tg = append(tg, "protocol=remote-write")
	default:
		tg = append(tg, "protocol=mixed")
	}
	if numeric {
		tg = append(tg, "numeric-tag-value")
	}
	if rwEscaped {
		tg = append(tg, "remote-write-backslash-or-quote")
	}
	if nbin > 0 {
		tg = append(tg, "q:binop")
		brace, shared := false, false
		seenSet := map[string]string{}
		for _, s := range sers {
			for _, kv := range s.labels {
				if strings.ContainsAny(kv.v, "{}") {
					brace = true
				}
			}
			cl := canonLabels(s.labels)
			if n, ok := seenSet[cl]; ok && n != s.name {
				shared = true
			}
			seenSet[cl] = s.name
		}
		if brace {
			tg = append(tg, "binop:brace-in-label-value")
		}
		if shared {
			tg = append(tg, "binop:two-metrics-share-a-label-set")
		}
	}
	return Result{Out: strings.Join(segs, " | "), Fails: fails, Nontrivial: npts >= 2 && len(qs) >= 1, Tags: tg}
}

// ---------------------------------------------------------------- cardinality lines

var mLabelNameRe = regexp.MustCompile(`^[a-zA-Z_][a-zA-Z0-9_]*$`)

// mc <n> <hexname> <sharedKey>=<hexv> <idKey> <ts> Q <query…>
func execE2EMCard(f []string) Result {
	if len(f) < 8 || f[6] != "Q" {
		return Result{Out: "bad-op"}
	}
	n, e1 := strconv.Atoi(f[1])
	nb, e2 := hex.DecodeString(f[2])
	sh := strings.Split(f[3], "=")
	ts, e3 := strconv.ParseUint(f[5], 10, 32)
	if e1 != nil || e2 != nil || e3 != nil || len(sh) != 2 || n < 1 || n > 200000 || !mLabelNameRe.MatchString(sh[0]) || !mLabelNameRe.MatchString(f[4]) ||
		sh[0] == f[4] || sh[0] == "__name__" || f[4] == "__name__" || !regexp.MustCompile(`^[0-9]+$`).MatchString(f[1]) || !regexp.MustCompile(`^[0-9]+$`).MatchString(f[5]) {
		return Result{Out: "bad-op"}
	}
	svb, e4 := hex.DecodeString(sh[1])
	if e4 != nil || !utf8Valid(nb) || !utf8Valid(svb) {
		return Result{Out: "bad-op"}
	}
	var qs []mQuery
	for _, t := range f[7:] {
		q, ok := parseMQuery(t)
		if !ok {
			return Result{Out: "bad-op"}
		}
		qs = append(qs, q)
	}
	var in bytes.Buffer
	for i := 0; i < n; i++ {
		js := fmt.Sprintf(`{"metric":%s,"tags":{%s:%s,%s:"s%d"},"timestamp":%d,"value":%d}`, jsonStr(string(nb)), jsonStr(sh[0]), jsonStr(string(svb)), jsonStr(f[4]), i, ts, i%50)
		fmt.Fprintf(&in, "dp %s\n", hexs(js))
	}
	for phase := 0; phase < 2; phase++ {
		for _, q := range qs {
			fmt.Fprintf(&in, "q %d %d %s\n", q.start, q.end, hexs(q.promql))
		}
		if phase == 0 {
			in.WriteString("rotate\n")
		}
	}
	cmd := exec.Command(os.Args[0], "mworker")
	cmd.Stdin = &in
	var stdout, stderr bytes.Buffer
	cmd.Stdout = &stdout
	cmd.Stderr = &stderr
	cmd.Env = append(os.Environ(), "GOMEMLIMIT=3GiB", "GOMAXPROCS=4")
	done := make(chan error, 1)
	if err := cmd.Start(); err != nil {
		return Result{Out: "worker-start-failed"}
	}
	go func() { done <- cmd.Wait() }()
	var werr error
	select {
	case werr = <-done:
	case <-time.After(300 * time.Second):
		cmd.Process.Kill()
		<-done
		return Result{Out: "worker-timeout", Fails: []PropFail{{Sig: "e2em-worker/timeout", Msg: "metrics engine worker did not finish within 300 s"}}, Nontrivial: true}
	}
	cls := ""
	if n > 65535 {
		cls = "tsids-per-value-over-64k"
	}
	insig := func(s string) string {
		if cls != "" {
			return "e2em/in-class/" + cls
		}
		return s
	}
	var resLines []string
	var fails []PropFail
	for _, l := range strings.Split(strings.TrimSpace(stdout.String()), "\n") {
		switch {
		case strings.HasPrefix(l, `{"dp"`), strings.HasPrefix(l, `{"ingesterr"`):
			if len(fails) < 3 {
				fails = append(fails, PropFail{Sig: "e2em/ingest-rejected", Msg: "a datapoint of the generated (well-formed) class was rejected: " + trunc(l, 300)})
			}
		case strings.HasPrefix(l, `{"roterr"`):
			fails = append(fails, PropFail{Sig: insig("e2em/rotate-error"), Msg: "rotation failed: " + trunc(l, 300)})
		case strings.HasPrefix(l, "{"):
			resLines = append(resLines, l)
		}
	}
	if werr != nil || len(resLines) != 2*len(qs) {
		return Result{Out: fmt.Sprintf("worker-died err=%v answers=%d/%d", werr, len(resLines), 2*len(qs)),
			Fails: []PropFail{{Sig: insig("e2em-worker/crash/cardinality"), Msg: fmt.Sprintf("metrics engine worker exited abnormally (%v) after %d of %d answers: %s", werr, len(resLines), 2*len(qs), trunc(stderr.String(), 300))}}, Nontrivial: true}
	}
	var segs []string
	for qi, q := range qs {
		a := canonMAnswer(resLines[qi], q.agg)
		b := canonMAnswer(resLines[len(qs)+qi], q.agg)
		segs = append(segs, a)
		if q.agg {
			a, b = stripAggNames(a), stripAggNames(b)
		}
		if a != b {
			fails = append(fails, PropFail{Sig: insig("e2em/open-vs-rotated-differ"), Msg: fmt.Sprintf("query %d (%s) over %d series sharing %s=%q answered differently after the forced rotation: before %s ; after %s", qi, q.promql, n, sh[0], string(svb), trunc(a, 300), trunc(b, 300))})
		}
	}
	return Result{Out: strings.Join(segs, " | "), Fails: fails, Nontrivial: true, Tags: []string{"cardinality", fmt.Sprintf("series>65535=%v", n > 65535)}}
}

func dedupStrings(l []string) []string {
	seen := map[string]bool{}
	var out []string
	for _, x := range l {
		if !seen[x] {
			seen[x] = true
			out = append(out, x)
		}
	}
	return out
}

func utf8Valid(b []byte) bool { return strings.ToValidUTF8(string(b), "\uFFFD") == string(b) }
