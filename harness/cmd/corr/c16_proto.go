package main

// suite "timeproto" (C16, protocol level, TIME only): one logical event with an explicit time is
// posted through each log protocol's real processing function into the in-process engine (one
// worker process per case: `corr c16worker x`), flushed, searched, and the stored `timestamp`
// is compared with the event's own time.
//
//	tp <protocol> <form> <epochMs>    → stored=<ms> | stored=arrival | notfound | rejected
//	  esbulk  ms | s | ns-str | ns-num | frac-s | rfc3339 | absent     eswriter.HandleBulkBody
//	  otlp    ns | zero                                                 otlp.ProcessLogIngest (protobuf)
//	  loki    ns-str                                                    loki.ProcessLokiLogsIngestRequest (JSON push)
//	  splunk  hec-time | hec-time-str | hec-time-s | hec-time-ms | hec-both | hec-none | hec-time-bad | ts-ms
//	                                                                    splunk.ProcessSplunkHecIngestRequest
//	          (envelope `time` as fractional number / numeric string / whole seconds / milliseconds; `time` a day
//	           later than a root `timestamp`; neither; `time` not a number; root `timestamp` only)
//
// The oracle's answer is the Lean model `ingestStored` (ExtractTimeStamp on the scalar the protocol
// hands over + the time the protocol handler itself puts on the event + arrival fallback).
// PropFail (independent of the model): every form except `absent`/`zero` carries the time <epochMs>;
// the stored time must be that instant (form `s`: whole seconds).

import (
	"bufio"
	"bytes"
	"encoding/json"
	"fmt"
	"math/rand"
	"os"
	"os/exec"
	"strconv"
	"strings"
	"time"

	collogpb "go.opentelemetry.io/proto/otlp/collector/logs/v1"
	commonpb "go.opentelemetry.io/proto/otlp/common/v1"
	logpb "go.opentelemetry.io/proto/otlp/logs/v1"
	resourcepb "go.opentelemetry.io/proto/otlp/resource/v1"
	"google.golang.org/protobuf/proto"

	"github.com/siglens/siglens/pkg/ast/pipesearch"
	eswriter "github.com/siglens/siglens/pkg/es/writer"
	"github.com/siglens/siglens/pkg/integrations/loki"
	"github.com/siglens/siglens/pkg/integrations/splunk"
	"github.com/siglens/siglens/pkg/otlp"
	"github.com/siglens/siglens/pkg/segment/writer"
	"github.com/valyala/fasthttp"
)

func init() {
	register(&Suite{Name: "timeproto", Gen: genTimeProto, Exec: execTimeProto, Parallel: 6,
		Rule: "one event with an explicit time per case through ES bulk (ms, s, ns string, ns number, fractional seconds, RFC3339, no time), OTLP logs (time_unix_nano, 0), Loki JSON push (ns string), Splunk HEC (envelope `time` as fractional number, numeric string, whole seconds, milliseconds, not a number, absent, next to a root `timestamp`; root `timestamp` alone); fresh engine process per case; flush; search; stored timestamp vs event time"})
}

var c16ProtoForms = [][2]string{
	{"esbulk", "ms"}, {"esbulk", "s"}, {"esbulk", "ns-str"}, {"esbulk", "ns-num"}, {"esbulk", "frac-s"}, {"esbulk", "rfc3339"}, {"esbulk", "absent"},
	{"otlp", "ns"}, {"otlp", "zero"}, {"loki", "ns-str"}, {"splunk", "hec-time"}, {"splunk", "ts-ms"},
	{"splunk", "hec-time-str"}, {"splunk", "hec-time-s"}, {"splunk", "hec-time-ms"}, {"splunk", "hec-both"}, {"splunk", "hec-none"}, {"splunk", "hec-time-bad"},
}

func genTimeProto(r *rand.Rand, n int, tier string) []string {
	var out []string
	fixed := []int64{1700000000123, 1000000000000, 1714352490251}
	for i, pf := range c16ProtoForms {
		out = append(out, fmt.Sprintf("tp %s %s %d", pf[0], pf[1], fixed[i%len(fixed)]))
	}
	now := time.Now().UnixMilli()
	for len(out) < n {
		pf := c16ProtoForms[r.Intn(len(c16ProtoForms))]
		// 2001-09-09 … 2100, away from the wall clock
		ms := 1000000000000 + r.Int63n(3100000000000)
		if ms > now-86400000 && ms < now+86400000 {
			ms -= 2 * 86400000
		}
		out = append(out, fmt.Sprintf("tp %s %s %d", pf[0], pf[1], ms))
	}
	return out
}

func c16ProtoValid(proto, form string) bool {
	for _, pf := range c16ProtoForms {
		if pf[0] == proto && pf[1] == form {
			return true
		}
	}
	return false
}

// ---- parent side

func execTimeProto(line string) Result {
	f := strings.Fields(line)
	if len(f) != 4 || f[0] != "tp" || !c16ProtoValid(f[1], f[2]) {
		return Result{Out: "bad-op"}
	}
	ms, err := strconv.ParseInt(f[3], 10, 64)
	if err != nil || ms < 1000000000000 || ms >= 10000000000000 {
		return Result{Out: "bad-op"}
	}
	exe, _ := os.Executable()
	cmd := exec.Command(exe, "c16worker", "x")
	cmd.Stdin = strings.NewReader(line + "\n")
	var stderr bytes.Buffer
	cmd.Stderr = &stderr
	outb, err := cmd.Output()
	res := Result{Nontrivial: true, Tags: []string{"proto=" + f[1] + "/" + f[2]}}
	ans := ""
	for _, l := range strings.Split(string(outb), "\n") {
		if strings.HasPrefix(l, "RESULT ") {
			ans = strings.TrimPrefix(l, "RESULT ")
		}
	}
	if err != nil || ans == "" {
		res.Out = "worker-failed"
		res.Fails = append(res.Fails, PropFail{Sig: "time-protocol/worker-failed", Msg: trunc(fmt.Sprintf("%v %s", err, stderr.String()), 400)})
		return res
	}
	res.Out = ans
	carries := f[2] != "absent" && f[2] != "zero" && f[2] != "hec-none" && f[2] != "hec-time-bad"
	want := ms
	if f[2] == "s" || f[2] == "hec-time-s" {
		want = ms / 1000 * 1000
	}
	switch {
	case !carries:
		if ans != "stored=arrival" {
			res.Fails = append(res.Fails, PropFail{Sig: "time-protocol/" + f[1] + "-event-without-time-not-at-arrival-time", Msg: "event without a time: " + ans})
		}
	case ans == fmt.Sprintf("stored=%d", want):
	case f[2] == "hec-both" && ans == fmt.Sprintf("stored=%d", (ms/1000+86400)*1000):
		// the envelope carries two times (root `timestamp`, `time`): the statement does not say which one wins
	case f[2] == "hec-time-ms" && ans != "stored=arrival":
		// `time` in milliseconds is outside the HEC protocol (seconds): correspondence with the model only
	case ans == "stored=arrival":
		res.Fails = append(res.Fails, PropFail{Sig: "time-protocol/" + f[1] + "-" + f[2] + "-event-time-replaced-by-arrival-time",
			Msg: fmt.Sprintf("event carried epoch ms %d through %s (%s) and was stored under its arrival time", want, f[1], f[2])})
	default:
		res.Fails = append(res.Fails, PropFail{Sig: "time-protocol/" + f[1] + "-" + f[2] + "-event-time-altered",
			Msg: fmt.Sprintf("event carried epoch ms %d through %s (%s): %s", want, f[1], f[2], ans)})
	}
	return res
}

// ---- worker side: one case, one engine

func c16Ctx(body []byte, contentType string) *fasthttp.RequestCtx {
	ctx := &fasthttp.RequestCtx{}
	ctx.Request.Header.SetMethod("POST")
	ctx.Request.Header.SetContentType(contentType)
	ctx.Request.SetBody(body)
	return ctx
}

func c16WorkerMain() {
	in := bufio.NewScanner(os.Stdin)
	if !in.Scan() {
		os.Exit(4)
	}
	f := strings.Fields(in.Text())
	if len(f) != 4 && !(len(f) == 7 && f[0] == "tpq") {
		os.Exit(4)
	}
	if f[0] == "tpq" {
		c16SeqWorker(f)
		return
	}
	ms, _ := strconv.ParseInt(f[3], 10, 64)
	dir := bootEngine()
	defer os.RemoveAll(dir)
	t0 := time.Now().UnixMilli()
	index, status := c16Post(f, ms)
	c16Readback(index, status, t0)
}

// c16Post: one event through the handler of protocol f[1] in the form f[2]; returns the index it went to and the status
func c16Post(f []string, ms int64) (string, int) {
	index := "c16proto"
	status := 0
	switch f[1] {
	case "esbulk":
		var sc string
		switch f[2] {
		case "ms":
			sc = fmt.Sprintf(`,"timestamp":%d`, ms)
		case "s":
			sc = fmt.Sprintf(`,"timestamp":%d`, ms/1000)
		case "ns-str":
			sc = fmt.Sprintf(`,"timestamp":"%d000000"`, ms)
		case "ns-num":
			sc = fmt.Sprintf(`,"timestamp":%d000000`, ms)
		case "frac-s":
			sc = fmt.Sprintf(`,"timestamp":%d.%03d`, ms/1000, ms%1000)
		case "rfc3339":
			sc = fmt.Sprintf(`,"timestamp":"%s"`, time.UnixMilli(ms).UTC().Format("2006-01-02T15:04:05.000Z"))
		case "absent":
			sc = ""
		}
		body := fmt.Sprintf("{\"index\":{\"_index\":\"%s\"}}\n{\"msg\":\"c16 event\",\"vid\":7%s}\n", index, sc)
		_, resp, _ := eswriter.HandleBulkBody([]byte(body), nil, 0, 0, false)
		if e, _ := resp["errors"].(bool); e {
			status = 400
		}
	case "otlp":
		index = "otel-logs"
		var tn uint64
		if f[2] == "ns" {
			tn = uint64(ms) * 1000000
		}
		req := &collogpb.ExportLogsServiceRequest{ResourceLogs: []*logpb.ResourceLogs{{
			Resource: &resourcepb.Resource{Attributes: []*commonpb.KeyValue{{Key: "service.name", Value: &commonpb.AnyValue{Value: &commonpb.AnyValue_StringValue{StringValue: "c16"}}}}},
			ScopeLogs: []*logpb.ScopeLogs{{
				Scope: &commonpb.InstrumentationScope{Name: "c16scope"},
				LogRecords: []*logpb.LogRecord{{
					TimeUnixNano: tn, SeverityText: "INFO",
					Body: &commonpb.AnyValue{Value: &commonpb.AnyValue_StringValue{StringValue: "c16 event"}},
				}},
			}},
		}}}
		data, err := proto.Marshal(req)
		if err != nil {
			fmt.Fprintln(os.Stderr, "marshal:", err)
			os.Exit(5)
		}
		ctx := c16Ctx(data, "application/x-protobuf")
		otlp.ProcessLogIngest(ctx, 0)
		status = ctx.Response.StatusCode()
	case "loki":
		index = "loki-index"
		body := fmt.Sprintf(`{"streams":[{"stream":{"job":"c16"},"values":[["%d000000","c16 event"]]}]}`, ms)
		ctx := c16Ctx([]byte(body), "application/json")
		loki.ProcessLokiLogsIngestRequest(ctx, 0)
		status = ctx.Response.StatusCode()
	case "splunk":
		var body string
		switch f[2] {
		case "hec-time":
			body = fmt.Sprintf(`{"time":%d.%03d,"index":"%s","event":{"msg":"c16 event"}}`, ms/1000, ms%1000, index)
		case "hec-time-str":
			body = fmt.Sprintf(`{"time":"%d.%03d","index":"%s","event":{"msg":"c16 event"}}`, ms/1000, ms%1000, index)
		case "hec-time-s":
			body = fmt.Sprintf(`{"time":%d,"index":"%s","event":{"msg":"c16 event"}}`, ms/1000, index)
		case "hec-time-ms":
			body = fmt.Sprintf(`{"time":%d,"index":"%s","event":{"msg":"c16 event"}}`, ms, index)
		case "hec-both":
			body = fmt.Sprintf(`{"time":%d,"timestamp":%d,"index":"%s","event":{"msg":"c16 event"}}`, ms/1000+86400, ms, index)
		case "hec-none":
			body = fmt.Sprintf(`{"index":"%s","event":{"msg":"c16 event"}}`, index)
		case "hec-time-bad":
			body = fmt.Sprintf(`{"time":"yesterday","index":"%s","event":{"msg":"c16 event"}}`, index)
		default:
			body = fmt.Sprintf(`{"timestamp":%d,"index":"%s","event":{"msg":"c16 event"}}`, ms, index)
		}
		ctx := c16Ctx([]byte(body), "application/json")
		splunk.ProcessSplunkHecIngestRequest(ctx, 0)
		status = ctx.Response.StatusCode()
	}
	return index, status
}

func c16Readback(index string, status int, t0 int64) {
	t1 := time.Now().UnixMilli()
	if status >= 300 {
		fmt.Printf("RESULT rejected\n")
		return
	}
	z := time.Duration(0)
	writer.FlushWipBufferToFile(&z, &z)
	body := map[string]interface{}{
		"searchText": "*", "startEpoch": float64(1), "endEpoch": float64(99999999999999),
		"indexName": index, "queryLanguage": "Splunk QL", "size": float64(10), "from": float64(0),
	}
	resp, _, _, err := pipesearch.ParseAndExecutePipeRequest(body, 2, 0, time.Now(), "", nil)
	if err != nil || resp == nil {
		fmt.Printf("RESULT queryerr\n")
		return
	}
	b, _ := json.Marshal(resp.Hits.Hits)
	var recs []map[string]interface{}
	dec := json.NewDecoder(bytes.NewReader(b))
	dec.UseNumber()
	_ = dec.Decode(&recs)
	if len(recs) != 1 {
		fmt.Printf("RESULT notfound(%d)\n", len(recs))
		return
	}
	ts, _ := recs[0]["timestamp"].(json.Number)
	v, perr := strconv.ParseUint(ts.String(), 10, 64)
	if perr != nil {
		fmt.Printf("RESULT notimestamp(%v)\n", recs[0]["timestamp"])
		return
	}
	if int64(v) >= t0-5 && int64(v) <= t1+5 {
		fmt.Printf("RESULT stored=arrival\n")
		return
	}
	fmt.Printf("RESULT stored=%d\n", v)
}

func init() { registerWorker("c16worker", c16WorkerMain) }
