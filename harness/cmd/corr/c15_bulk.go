package main

import (
	"bytes"
	"encoding/hex"
	"encoding/json"
	"fmt"
	"math/rand"
	"os"
	"os/exec"
	"path/filepath"
	"sort"
	"strconv"
	"strings"
	"sync"
	"time"

	"github.com/siglens/siglens/pkg/config"
	eswriter "github.com/siglens/siglens/pkg/es/writer"
	"github.com/siglens/siglens/pkg/hooks"
	sutils "github.com/siglens/siglens/pkg/segment/utils"
	"github.com/siglens/siglens/pkg/segment/writer"
	vtable "github.com/siglens/siglens/pkg/virtualtable"
)

// suite "bulk":  bulk T=<entry>,<entry>,... <line> <line> ...
//   entry ::= <p|a|n|x|t|d|k><n>/<valid>:<real slot>:<storefail>:<kibana>   the request's table of index names (slot = position)
//   line  ::= <template>/<i|c|u|o>:<len>:<docOk>:<id>:<slot>
// The op line is the ABSTRACTION of a concrete body and of its surroundings; the abstraction of every concrete line
// (kind, docOk) and of every index name (valid, alias target) is computed by the real ExtractIndexAndValidateAction /
// GetNewPLE / vtable.IsValidIndexName / vtable.IsAlias.  Exec rebuilds the same concrete body deterministically from
// the op line (templates below), re-checks the abstraction, arranges the store failure (a regular file where the
// index's segment directory would have to be created: createSegStore → resetSegStore → MkdirAll fails, so
// writer.AddEntryToInMemBuf returns an error for exactly that index), runs the real HandleBulkBody and observes
// every record the store takes through the production hook hooks.GlobalHooks.AfterWritingToSegment (called by
// SegStore.AddEntry per stored record, with the segstore = the real index).

func init() {
	register(&Suite{Name: "bulk_e2e", Parallel: 6, Gen: genBulkE2E, Exec: execBulkE2E,
		Rule: "bulk bodies over 1..4 index names (plain, alias, alias + its target, new, absent/non-string/invalid names in the middle; any interleaving; optionally a store that refuses one index) posted to the real entry point in a fresh engine process, then flush and one match-all search PER INDEX plus one over all: per item, created ⇔ its document is found exactly once, in the real index of ITS action and nowhere else; K concurrent bodies over 1..2 new indexes likewise; non-trivial = ≥2 lines"})
	register(&Suite{Name: "bulk", Gen: genBulk, Exec: execBulk,
		Rule: "bulk bodies from templates (index/create/update/delete/garbage actions, good/bad/oversize/empty documents, action-like docs, missing trailing newline/doc) over a table of 1..4 valid index names plus absent/non-string/invalid ones, in curated (AABA, ABAB, ABBA, ABCA, …) and random interleavings, aliases with and without their target, new indexes, and a store that refuses chosen indexes; answer = items, errors, processed and, per (real index, index name), the documents the store took in hand-over order; distinct = sha1(op line); non-trivial = ≥2 lines and (a non-201 item or ≥2 index names)"})
}

// ---------------------------------------------------------------- index names

type bkIdx struct {
	tmpl  byte // p: pool index vbp<n%4>; a: alias vbal<n%2> of vbp<n%2>; n: index never seen before vbn<n>; x: no _index member; t: _index is a number; d: a name that is not a simple file name; k: a .kibana name
	n     int
	valid bool
	real  int
	fail  bool
	kib   bool // strings.Contains(name, ".kibana"): the document goes to the (absent) Kibana hook only, nothing stores it
}

// a name documents can be stored under: valid, not an alias, not a .kibana name
func (e bkIdx) storable(k int) bool { return e.valid && e.real == k && !e.kib }

var bkInvalidNames = []string{"..", ".", "vb/x", "../vbesc"}

func bkIdxName(e bkIdx) string {
	switch e.tmpl {
	case 'p':
		return fmt.Sprintf("vbp%d", e.n%4)
	case 'a':
		return fmt.Sprintf("vbal%d", e.n%2)
	case 'n':
		return fmt.Sprintf("vbn%d", e.n)
	case 'd':
		return bkInvalidNames[e.n%len(bkInvalidNames)]
	case 'k':
		return []string{".kibana_1", "vb.kibana"}[e.n%2]
	}
	return ""
}

// the `_index` member of the action object (with its trailing comma)
func bkIdxField(e bkIdx) string {
	switch e.tmpl {
	case 'x':
		return ""
	case 't':
		return fmt.Sprintf(`"_index":%d,`, e.n)
	}
	return fmt.Sprintf(`"_index":"%s",`, bkIdxName(e))
}

var bkBootOnce sync.Once

// engine + the two aliases every case may use (vbal0 → vbp0, vbal1 → vbp1)
func bkBoot() {
	bootEngine()
	bkBootOnce.Do(func() {
		bkWorkerAlias("vbp0", "vbal0")
		bkWorkerAlias("vbp1", "vbal1")
	})
}

func bkWorkerAlias(index, alias string) {
	if err := vtable.AddAliases(index, []string{alias}, 0); err != nil {
		panic("bulk suite: cannot add alias: " + err.Error())
	}
}

func bkFinalDir(name string) string {
	return config.GetDataPath() + config.GetHostID() + "/final/" + name
}

// a regular file where the index's segment directory would be created: every store call for this index fails
func bkWorkerBlock(name string) {
	p := bkFinalDir(name)
	os.RemoveAll(p)
	if err := os.MkdirAll(filepath.Dir(p), 0o755); err != nil {
		panic(err)
	}
	if err := os.WriteFile(p, []byte("verif: not a directory\n"), 0o644); err != nil {
		panic(err)
	}
}

// abstraction of table entry k by the real predicates: (valid, real slot); ok=false when the alias target is not in the table
func bkAbsEntry(tab []bkIdx, k int) (bool, int, bool) {
	name := bkIdxName(tab[k])
	if !vtable.IsValidIndexName(name) {
		return false, k, true
	}
	if is, target := vtable.IsAlias(name, 0); is {
		for j, e := range tab {
			if e.tmpl != 'a' && bkIdxName(e) == target {
				return true, j, true
			}
		}
		return true, k, false
	}
	return true, k, true
}

func bkFormatTable(tab []bkIdx) string {
	var es []string
	for _, e := range tab {
		es = append(es, fmt.Sprintf("%c%d/%d:%d:%d:%d", e.tmpl, e.n, b2i(e.valid), e.real, b2i(e.fail), b2i(e.kib)))
	}
	return "T=" + strings.Join(es, ",")
}

func b2i(b bool) int {
	if b {
		return 1
	}
	return 0
}

func bkParseTable(tok string) ([]bkIdx, string) {
	if !strings.HasPrefix(tok, "T=") {
		return nil, "bad-op"
	}
	var tab []bkIdx
	for _, es := range strings.Split(tok[2:], ",") {
		p := strings.SplitN(es, "/", 2)
		if len(p) != 2 || len(p[0]) < 2 || !strings.ContainsRune("panxtdk", rune(p[0][0])) {
			return nil, "bad-op"
		}
		n, err := strconv.Atoi(p[0][1:])
		q := strings.Split(p[1], ":")
		if err != nil || n < 0 || len(q) != 4 {
			return nil, "bad-op"
		}
		v, e1 := strconv.Atoi(q[0])
		rl, e2 := strconv.Atoi(q[1])
		fl, e3 := strconv.Atoi(q[2])
		kb, e4 := strconv.Atoi(q[3])
		if e1 != nil || e2 != nil || e3 != nil || e4 != nil || v < 0 || v > 1 || fl < 0 || fl > 1 || rl < 0 || kb < 0 || kb > 1 {
			return nil, "bad-op"
		}
		tab = append(tab, bkIdx{tmpl: p[0][0], n: n, valid: v == 1, real: rl, fail: fl == 1, kib: kb == 1})
	}
	for k := range tab {
		v, rl, ok := bkAbsEntry(tab, k)
		if !ok || v != tab[k].valid || rl != tab[k].real || tab[k].kib != strings.Contains(bkIdxName(tab[k]), ".kibana") {
			return nil, fmt.Sprintf("abstraction-drift index %s: valid=%v real=%d", bkIdxName(tab[k]), v, rl)
		}
	}
	return tab, ""
}

// ---------------------------------------------------------------- line templates

// concrete line templates; the abstract form is derived from the real classifiers.  Every line but the empty one
// carries its id, so that a stored record identifies its line.
type bulkTmpl struct {
	name string
	mk   func(id int, ixf string) string
}

var bulkTmpls = []bulkTmpl{
	{"index", func(id int, ixf string) string { return fmt.Sprintf(`{"index":{%s"_id":"%d"}}`, ixf, id) }},
	{"create", func(id int, ixf string) string { return fmt.Sprintf(`{"create":{%s"_id":"%d"}}`, ixf, id) }},
	{"update", func(id int, ixf string) string { return fmt.Sprintf(`{"update":{"_index":"vbp0","_id":"%d"}}`, id) }},
	{"delete", func(id int, ixf string) string { return fmt.Sprintf(`{"delete":{"_index":"vbp0","_id":"%d"}}`, id) }},
	{"garbage", func(id int, ixf string) string { return fmt.Sprintf(`this is not json %d`, id) }},
	{"empty", func(id int, ixf string) string { return `` }},
	{"doc", func(id int, ixf string) string {
		return fmt.Sprintf(`{"_vid":%d,"msg":"hello %d","n":%d}`, id, id, id*3)
	}},
	{"baddoc", func(id int, ixf string) string { return fmt.Sprintf(`{"_vid":%d,"msg":`, id) }},
	{"bigdoc", func(id int, ixf string) string {
		return fmt.Sprintf(`{"_vid":%d,"pad":"%s"}`, id, strings.Repeat("x", 63000))
	}},
	{"edgedoc", func(id int, ixf string) string { // exactly MAX_RECORD_SIZE-1 bytes
		s := fmt.Sprintf(`{"_vid":%d,"pad":""}`, id)
		return fmt.Sprintf(`{"_vid":%d,"pad":"%s"}`, id, strings.Repeat("y", 62999-len(s)))
	}},
}

var tmplIdx = map[string]int{}

func init() {
	for i, t := range bulkTmpls {
		tmplIdx[t.name] = i
	}
}

var bulkTsKey = "timestamp"
var bulkStackBuf [64]byte

// abstract line; also returns the index name the real classifier extracts in action position
func abstractLine(concrete string, id int, slot int) (string, string) {
	k := "o"
	act, ixName, _ := eswriter.ExtractIndexAndValidateAction([]byte(concrete))
	switch act {
	case eswriter.INDEX:
		k = "i"
	case eswriter.CREATE:
		k = "c"
	case eswriter.UPDATE:
		k = "u"
	}
	ok := 0
	ple, err := writer.GetNewPLE([]byte(concrete), 1700000000000, "vbp0", &bulkTsKey, bulkStackBuf[:])
	if err == nil {
		ok = 1
		writer.ReleasePLEs([]*writer.ParsedLogEvent{ple})
	}
	return fmt.Sprintf("%s:%d:%d:%d:%d", k, len(concrete), ok, id, slot), ixName
}

func bkTok(tab []bkIdx, name string, id int, slot int) string {
	ti := tmplIdx[name]
	if name != "index" && name != "create" {
		slot = 0
	}
	a, _ := abstractLine(bulkTmpls[ti].mk(id, bkIdxField(tab[slot])), id, slot)
	return fmt.Sprintf("%d/%s", ti, a)
}

type bkAbs struct {
	kind  string
	ln    int
	docOk bool
	id    int
	slot  int
}

// rebuilds the concrete lines of a body from its tokens and re-checks the abstraction with the real classifiers
func bkParseBody(tab []bkIdx, toks []string) ([]string, []bkAbs, string) {
	var lines []string
	var al []bkAbs
	for _, tok := range toks {
		p := strings.SplitN(tok, "/", 2)
		if len(p) != 2 {
			return nil, nil, "bad-op"
		}
		ti, err := strconv.Atoi(p[0])
		q := strings.Split(p[1], ":")
		if err != nil || ti < 0 || ti >= len(bulkTmpls) || len(q) != 5 {
			return nil, nil, "bad-op"
		}
		id, e1 := strconv.Atoi(q[3])
		ln, e2 := strconv.Atoi(q[1])
		slot, e3 := strconv.Atoi(q[4])
		if e1 != nil || e2 != nil || e3 != nil || slot < 0 || slot >= len(tab) || id < 0 {
			return nil, nil, "bad-op"
		}
		conc := bulkTmpls[ti].mk(id, bkIdxField(tab[slot]))
		a, ixName := abstractLine(conc, id, slot)
		if a != p[1] {
			return nil, nil, "abstraction-drift " + tok + " vs " + a
		}
		if (q[0] == "i" || q[0] == "c") && ixName != bkIdxName(tab[slot]) {
			return nil, nil, fmt.Sprintf("abstraction-drift %s: index name %q extracted, table says %q", tok, ixName, bkIdxName(tab[slot]))
		}
		lines = append(lines, conc)
		al = append(al, bkAbs{q[0], ln, q[2] == "1", id, slot})
	}
	return lines, al, ""
}

// ---------------------------------------------------------------- generator

// curated interleavings of the created documents' index names (letters in order of first appearance; which
// table slot a letter stands for is shuffled, so "the second index of the table comes first" is covered too)
var bkPatterns = map[int][]string{
	1: {"A", "AA", "AAAA"},
	2: {"AABA", "ABAB", "ABBA", "ABA", "AB", "AABB", "ABAA", "AAAB", "ABBBA", "ABABAB", "AABAB", "ABBAB"},
	3: {"ABCA", "ABCB", "ABC", "ABAC", "ABCABC", "AABBCC", "ABCBA", "ACBCA", "ABACA", "AABCA"},
	4: {"ABCD", "ABCDA", "ABCDABCD", "ABACAD", "ABCDCBA", "AABBCCDD", "ABCADB"},
}

// one case: the op line without its command word.  caseNo makes ids and new index names unique.
func bkGenCase(r *rand.Rand, caseNo int, e2e bool) string {
	// ---- the table: m valid names …
	m := []int{1, 1, 1, 2, 2, 2, 2, 2, 3, 3, 3, 4, 4}[r.Intn(13)]
	cands := []bkIdx{{tmpl: 'p', n: 0}, {tmpl: 'p', n: 1}, {tmpl: 'p', n: 2}, {tmpl: 'p', n: 3}, {tmpl: 'a', n: 0}, {tmpl: 'a', n: 1},
		{tmpl: 'n', n: caseNo*2 + 0}, {tmpl: 'n', n: caseNo*2 + 1}}
	r.Shuffle(len(cands), func(i, j int) { cands[i], cands[j] = cands[j], cands[i] })
	var tab []bkIdx
	if m >= 2 && r.Intn(4) == 0 { // an alias AND its target in one request
		k := r.Intn(2)
		tab = append(tab, bkIdx{tmpl: 'a', n: k}, bkIdx{tmpl: 'p', n: k})
	}
	for _, c := range cands {
		if len(tab) >= m {
			break
		}
		dup := false
		for _, e := range tab {
			if e.tmpl == c.tmpl && e.n == c.n {
				dup = true
			}
		}
		if !dup {
			tab = append(tab, c)
		}
	}
	r.Shuffle(len(tab), func(i, j int) { tab[i], tab[j] = tab[j], tab[i] })
	valid := len(tab) // slots 0..valid-1 are the names the created documents go to
	// … the target of every alias (named by no action unless it is one of the m) …
	for k := 0; k < valid; k++ {
		if tab[k].tmpl == 'a' {
			have := false
			for _, e := range tab {
				if e.tmpl == 'p' && e.n == tab[k].n {
					have = true
				}
			}
			if !have {
				tab = append(tab, bkIdx{tmpl: 'p', n: tab[k].n})
			}
		}
	}
	// … and names that fail validation
	var invalid []int
	if r.Intn(3) == 0 {
		for c := 1 + r.Intn(2); c > 0; c-- {
			invalid = append(invalid, len(tab))
			tab = append(tab, bkIdx{tmpl: "xtdk"[r.Intn(4)], n: r.Intn(8)})
		}
	}
	for k := range tab {
		v, rl, ok := bkAbsEntry(tab, k)
		if !ok {
			panic("bulk gen: alias target missing from the table")
		}
		tab[k].valid, tab[k].real = v, rl
		tab[k].kib = strings.Contains(bkIdxName(tab[k]), ".kibana")
	}
	// the store refuses: one real index (3 in 10), every index (1 in 20)
	var reals []int
	for k, e := range tab {
		if e.storable(k) {
			reals = append(reals, k)
		}
	}
	switch f := r.Intn(20); {
	case f < 6:
		tab[reals[r.Intn(len(reals))]].fail = true
	case f == 6:
		for _, k := range reals {
			tab[k].fail = true
		}
	}

	id := func(j int) int { return caseNo*100 + j + 1 }
	var toks []string
	add := func(name string, slot int) {
		i := id(len(toks))
		if e2e && !(name == "doc" || name == "edgedoc" || name == "bigdoc" || name == "baddoc") {
			i = 0 // only document templates carry a _vid; every other line cannot be found by _vid even if stored
		}
		toks = append(toks, bkTok(tab, name, i, slot))
	}
	if r.Intn(10) < 3 {
		// ---- unstructured: lines from the templates, an index/create line mostly followed by a document
		weights := []string{"index", "index", "index", "create", "update", "delete", "garbage", "empty", "doc", "doc", "doc", "doc", "baddoc", "bigdoc", "edgedoc"}
		expectDoc := false
		for j, nl := 0, r.Intn(11); j < nl; j++ {
			var name string
			if expectDoc && r.Intn(6) != 0 {
				name = []string{"doc", "doc", "doc", "baddoc", "bigdoc", "edgedoc", "empty"}[r.Intn(7)]
				if r.Intn(3) != 0 {
					name = "doc"
				}
			} else {
				name = weights[r.Intn(len(weights))]
			}
			expectDoc = !expectDoc && (name == "index" || name == "create" || name == "update")
			slot := r.Intn(len(tab))
			if r.Intn(4) != 0 {
				slot = r.Intn(valid)
			}
			add(name, slot)
		}
	} else {
		// ---- structured: the created documents follow an interleaving pattern over the m names; in between,
		// actions that fail (invalid index name, bad/oversize document, update/delete/garbage)
		var pat string
		if r.Intn(2) == 0 {
			pat = bkPatterns[valid][r.Intn(len(bkPatterns[valid]))]
		} else {
			b := make([]byte, valid+r.Intn(6))
			for i := range b {
				b[i] = byte('A' + r.Intn(valid))
			}
			for l, pos := range r.Perm(len(b))[:valid] { // every name at least once
				b[pos] = byte('A' + l)
			}
			pat = string(b)
		}
		perm := r.Perm(valid) // letter → slot
		noise := func() {
			switch c := r.Intn(12); {
			case c < 4 && len(invalid) > 0:
				add([]string{"index", "create"}[r.Intn(2)], invalid[r.Intn(len(invalid))])
				add([]string{"doc", "doc", "doc", "bigdoc"}[r.Intn(4)], 0)
			case c < 5:
				add("index", r.Intn(valid))
				add([]string{"baddoc", "baddoc", "bigdoc"}[r.Intn(3)], 0)
			case c < 6:
				add("update", 0)
				add("doc", 0)
			case c < 7:
				add("delete", 0)
			case c < 8:
				add("garbage", 0)
			}
		}
		for _, ch := range []byte(pat) {
			if r.Intn(3) == 0 {
				noise()
			}
			act := "index"
			if r.Intn(4) == 0 {
				act = "create"
			}
			add(act, perm[int(ch-'A')])
			if r.Intn(40) == 0 {
				add("edgedoc", 0)
			} else {
				add("doc", 0)
			}
		}
		if r.Intn(4) == 0 {
			noise()
		}
		if r.Intn(20) == 0 { // an action whose document is missing
			add("index", r.Intn(valid))
		}
	}
	if r.Intn(3) != 0 || len(toks) == 0 { // trailing newline = a final empty line
		toks = append(toks, bkTok(tab, "empty", 0, 0))
	}
	return bkFormatTable(tab) + " " + strings.Join(toks, " ")
}

func genBulk(r *rand.Rand, n int, tier string) []string {
	bkBoot()
	var out []string
	for i := 0; i < n; i++ {
		out = append(out, "bulk "+bkGenCase(r, i, false))
	}
	return out
}

// ---------------------------------------------------------------- the per-action specification (independent of the model)

type bkItem struct {
	want  byte // c created, f failed, t too large
	docID int  // id of the action's document line, -1 when it has none
	slot  int  // table slot of the action's index name (meaningful when docID >= 0)
}

// walks the body action by action; each action's expected status depends only on itself.  Returns the items and the
// number of trailing empty lines that were stripped (the trailing newline(s) of the body, not actions; blank lines in
// the middle of a body are malformed actions)
func bkSpec(tab []bkIdx, al []bkAbs) ([]bkItem, int) {
	stripped := 0
	for len(al) > 0 && al[len(al)-1].ln == 0 {
		al = al[:len(al)-1]
		stripped++
	}
	var items []bkItem
	for i := 0; i < len(al); {
		a := al[i]
		switch a.kind {
		case "i", "c":
			if i+1 >= len(al) {
				items = append(items, bkItem{'f', -1, a.slot}) // missing document
				i += 2
				continue
			}
			d := al[i+1]
			it := bkItem{'f', d.id, a.slot}
			if !tab[a.slot].valid {
				it.want = 'f' // no such index can exist
			} else if d.ln >= 63000 {
				it.want = 't'
			} else if tab[a.slot].kib {
				it.want = 'f' // nothing stores a .kibana document
			} else if d.docOk {
				it.want = 'c'
			}
			items = append(items, it)
			i += 2
		case "u":
			items = append(items, bkItem{'f', -1, 0})
			i += 2
		default:
			items = append(items, bkItem{'f', -1, 0})
			i++
		}
	}
	return items, stripped
}

func bkWantString(items []bkItem) string {
	var sb strings.Builder
	for _, it := range items {
		sb.WriteByte(it.want)
	}
	return sb.String()
}

// distribution tags of a request: how many index names its created documents go to and in which interleaving
func bkTags(tab []bkIdx, items []bkItem) []string {
	var seq []int
	for _, it := range items {
		if it.want == 'c' {
			seq = append(seq, it.slot)
		}
	}
	distinct := map[int]bool{}
	reals := map[int]bool{}
	blocks := 0
	for i, s := range seq {
		distinct[s] = true
		reals[tab[s].real] = true
		if i == 0 || seq[i-1] != s {
			blocks++
		}
	}
	tags := []string{fmt.Sprintf("created-index-names=%d", len(distinct))}
	switch {
	case len(distinct) <= 1:
	case blocks == len(distinct):
		tags = append(tags, "interleaving=blocks(AABB)")
	case seq[0] == seq[len(seq)-1]:
		tags = append(tags, "interleaving=mixed,first=last(AABA)")
	default:
		tags = append(tags, "interleaving=mixed,first≠last(ABAB)")
	}
	if len(reals) < len(distinct) {
		tags = append(tags, "alias-and-its-target-both-written")
	}
	anyAlias, anyNew, failSome, okSome := false, false, false, false
	for s := range distinct {
		if tab[s].tmpl == 'a' {
			anyAlias = true
		}
		if tab[s].tmpl == 'n' {
			anyNew = true
		}
		if tab[tab[s].real].fail {
			failSome = true
		} else {
			okSome = true
		}
	}
	if anyAlias {
		tags = append(tags, "alias-written")
	}
	if anyNew {
		tags = append(tags, "new-index-written")
	}
	if failSome && okSome {
		tags = append(tags, "store-refuses-some-indexes")
	} else if failSome {
		tags = append(tags, "store-refuses-all-indexes")
	}
	for _, it := range items {
		if it.docID >= 0 && tab[it.slot].valid && tab[it.slot].kib {
			tags = append(tags, "kibana-index-name")
			break
		}
	}
	for i, it := range items {
		if it.docID >= 0 && !tab[it.slot].valid {
			before, after := false, false
			for j, o := range items {
				if o.want == 'c' && j < i {
					before = true
				}
				if o.want == 'c' && j > i {
					after = true
				}
			}
			if before && after {
				tags = append(tags, "invalid-index-name-in-the-middle")
			} else {
				tags = append(tags, "invalid-index-name-at-an-end")
			}
			break
		}
	}
	return tags
}

// ---------------------------------------------------------------- suite "bulk": the real handler in process

type bkObs struct {
	vt  string // SegStore.VirtualTableName: the real index the record went to
	rec string
}

var bkObserved []bkObs
var bkDirty = map[string]bool{} // index names that have a segstore in this process

// the items as printed (c/f/t, any other status as ?<status>), one letter per item (x = any other status), number of non-201 items
func bkStatusLetters(resp map[string]interface{}) (string, string, int) {
	items, _ := resp["items"].([]interface{})
	var sb, one strings.Builder
	nfail := 0
	for _, it := range items {
		m, _ := it.(map[string]interface{})
		st := 0
		if idx, ok := m["index"].(map[string]interface{}); ok {
			if v, ok := idx["status"].(int); ok {
				st = v
			}
		}
		if v, ok := m["status"].(int); ok {
			st = v
		}
		switch st {
		case 201:
			sb.WriteByte('c')
			one.WriteByte('c')
		case 400:
			sb.WriteByte('f')
			one.WriteByte('f')
			nfail++
		case 413:
			sb.WriteByte('t')
			one.WriteByte('t')
			nfail++
		case 503:
			sb.WriteByte('u')
			one.WriteByte('u')
			nfail++
		default:
			sb.WriteString(fmt.Sprintf("?%d", st))
			one.WriteByte('x')
			nfail++
		}
	}
	return sb.String(), one.String(), nfail
}

func execBulk(line string) Result {
	bkBoot()
	f := strings.Fields(line)
	if len(f) < 3 || f[0] != "bulk" {
		return Result{Out: "bad-op"}
	}
	tab, e := bkParseTable(f[1])
	if e != "" {
		return Result{Out: e}
	}
	lines, al, e := bkParseBody(tab, f[2:])
	if e != "" {
		return Result{Out: e}
	}
	idByText := map[string]int{}
	for i, l := range lines {
		if l != "" {
			idByText[l] = al[i].id
		}
	}
	body := strings.Join(lines, "\n")

	// ---- the store refuses the chosen indexes: no segstore may exist for them, and none can be created
	for k, e := range tab {
		if e.fail && e.storable(k) {
			name := bkIdxName(e)
			if bkDirty[name] {
				writer.DeleteVirtualTableSegStore(name)
				delete(bkDirty, name)
			}
			bkWorkerBlock(name)
		}
	}
	bkObserved = bkObserved[:0]
	hooks.GlobalHooks.AfterWritingToSegment = func(rid uint64, segstore interface{}, record []byte, ts uint64, st sutils.SIGNAL_TYPE) error {
		vt := "?"
		if ss, ok := segstore.(*writer.SegStore); ok {
			vt = ss.VirtualTableName
		}
		bkObserved = append(bkObserved, bkObs{vt, string(record)})
		return nil
	}
	processed, resp, bulkErr := eswriter.HandleBulkBody([]byte(body), nil, 0, 0, false)
	hooks.GlobalHooks.AfterWritingToSegment = nil
	for k, e := range tab {
		if !e.storable(k) {
			continue
		}
		name := bkIdxName(e)
		if e.fail {
			os.Remove(bkFinalDir(name))
		} else if e.tmpl == 'n' {
			writer.DeleteVirtualTableSegStore(name) // new names are used once: keep the number of segstores bounded
		} else {
			bkDirty[name] = true
		}
	}

	gotOut, got, nfail := bkStatusLetters(resp)
	errFlag := 0
	if b, ok := resp["errors"].(bool); ok && b {
		errFlag = 1
	}

	items, stripped := bkSpec(tab, al)
	slotOfDoc := map[int]int{}
	for _, it := range items {
		if it.docID >= 0 {
			slotOfDoc[it.docID] = it.slot
		}
	}
	realSlot := func(vt string) int {
		for k, e := range tab {
			if e.storable(k) && bkIdxName(e) == vt {
				return k
			}
		}
		return -1
	}
	// ---- answer line: per (real index, index name of the document's action) the documents in the order the store took them
	type key struct{ real, slot int }
	groups := map[key][]string{}
	var keys []key
	unknown := ""
	for _, o := range bkObserved {
		id, ok := idByText[o.rec]
		rs := realSlot(o.vt)
		if !ok || rs < 0 {
			unknown = fmt.Sprintf(" unexpected-record=%s:%q", o.vt, trunc(o.rec, 60))
			continue
		}
		k := key{rs, slotOfDoc[id]}
		if _, seen := groups[k]; !seen {
			keys = append(keys, k)
		}
		groups[k] = append(groups[k], strconv.Itoa(id))
	}
	sort.Slice(keys, func(i, j int) bool {
		if keys[i].real != keys[j].real {
			return keys[i].real < keys[j].real
		}
		return keys[i].slot < keys[j].slot
	})
	var gs []string
	for _, k := range keys {
		gs = append(gs, fmt.Sprintf("%d:%d=%s", k.real, k.slot, strings.Join(groups[k], ",")))
	}
	res := Result{Out: fmt.Sprintf("items=%s errors=%d processed=%d allfailed=%d stored=%s%s", gotOut, errFlag, processed, b2i(bulkErr != nil), strings.Join(gs, ";"), unknown)}

	// ---- the property on the real code, from the independent per-action specification
	w := bkWantString(items)
	// an item whose batch the store refuses must not be answered created; with which status is not prescribed
	// (that it IS answered created is reported below as bulk-store/store-refused-batch-still-acknowledged)
	// likewise an item for a .kibana name must not be answered created (reported below as
	// bulk-store/kibana-document-acknowledged-and-dropped); that it fails with 400 is the model's business
	refusedItem := map[int]bool{}
	for i, it := range items {
		if it.want == 'c' && tab[tab[it.slot].real].fail {
			refusedItem[i] = true
		}
		if it.docID >= 0 && tab[it.slot].valid && tab[it.slot].kib && it.want == 'f' {
			refusedItem[i] = true
		}
	}
	// latitude: each blank line before the last trailing newline may or may not be answered with a failed item
	for m := 1; m < stripped && len(got) > len(w); m++ {
		if got[len(w)] == 'f' {
			w += "f"
		}
	}
	res.Tags = append(bkTags(tab, items), fmt.Sprintf("actions=%d", len(w)))
	multi := false
	for _, t := range res.Tags {
		if strings.HasPrefix(t, "interleaving=") {
			multi = true
		}
	}
	res.Nontrivial = len(al) >= 2 && (strings.ContainsAny(w, "ft") || multi)
	sawBig := strings.Contains(w, "t")
	if sawBig {
		res.Tags = append(res.Tags, "has-oversize")
	}
	if len(got) != len(w) {
		cls := "other"
		if len(got) == len(w)-1 && strings.HasPrefix(w, got) {
			cls = "trailing-action-without-following-bytes-dropped"
		}
		res.Fails = append(res.Fails, PropFail{Sig: "bulk-item-count/" + cls, Msg: fmt.Sprintf("items %q but the body has %d actions (expected %q)", got, len(w), w)})
	} else if func() bool {
		for k := range w {
			if got[k] != w[k] && !refusedItem[k] {
				return true
			}
		}
		return false
	}() {
		cls := "other"
		if sawBig {
			stale := true
			seenT := false
			for k := range w {
				if w[k] == 't' {
					seenT = true
				}
				if got[k] != w[k] && !(seenT && w[k] == 'f' && got[k] == 't') {
					stale = false
				}
			}
			if stale {
				cls = "stale-oversize-flag-turns-later-400-into-413"
			}
		}
		res.Fails = append(res.Fails, PropFail{Sig: "bulk-item-status/" + cls, Msg: fmt.Sprintf("items %q, per-action specification %q", got, w)})
	}
	if (errFlag == 1) != (nfail > 0) {
		cls := "other"
		if errFlag == 0 && !strings.Contains(got, "f") {
			cls = "only-413-failures-leave-errors-false"
		} else if errFlag == 0 {
			cls = "stale-oversize-flag-hides-400"
		}
		res.Fails = append(res.Fails, PropFail{Sig: "bulk-errors-flag/" + cls, Msg: fmt.Sprintf("errors=%d but %d item(s) failed (items %q)", errFlag, nfail, got)})
	}
	// created ⇔ the store took the document exactly once, under the real index of ITS action
	seenAt := map[int][]string{}
	for _, o := range bkObserved {
		if id, ok := idByText[o.rec]; ok {
			seenAt[id] = append(seenAt[id], o.vt)
		}
	}
	reported := map[string]bool{}
	fail := func(sig, msg string) {
		if !reported[sig] {
			reported[sig] = true
			res.Fails = append(res.Fails, PropFail{Sig: sig, Msg: msg})
		}
	}
	for i, it := range items {
		if it.docID < 0 || i >= len(got) {
			continue
		}
		at := seenAt[it.docID]
		if got[i] != 'c' {
			if len(at) > 0 {
				fail("bulk-store/failed-item-was-stored", fmt.Sprintf("item %d was answered %c but its document (line id %d) was stored in %v", i, got[i], it.docID, at))
			}
			continue
		}
		if !tab[it.slot].valid { // answered created for a name no index can have
			if len(at) == 0 {
				fail("bulk-store/acknowledged-but-never-stored", fmt.Sprintf("item %d (index name %q, which no index can have) was answered 201 but its document (line id %d) never reached the store (items %q)", i, bkIdxName(tab[it.slot]), it.docID, got))
			} else {
				fail("bulk-store/stored-under-another-index", fmt.Sprintf("item %d addressed the index name %q, which no index can have, and its document (line id %d) was stored in %v", i, bkIdxName(tab[it.slot]), it.docID, at))
			}
			continue
		}
		want := tab[tab[it.slot].real]
		switch {
		case len(at) == 0 && tab[it.slot].kib:
			fail("bulk-store/kibana-document-acknowledged-and-dropped", fmt.Sprintf("item %d (index %s) was answered 201 with errors=%d, but nothing stores a .kibana document here: its document (line id %d) went nowhere", i, bkIdxName(tab[it.slot]), errFlag, it.docID))
		case len(at) == 0 && want.fail:
			fail("bulk-store/store-refused-batch-still-acknowledged", fmt.Sprintf("item %d (index %s) was answered 201 with errors=%d, but the store refused the batch of index %s: its document (line id %d) was not stored", i, bkIdxName(tab[it.slot]), errFlag, bkIdxName(want), it.docID))
		case len(at) == 0:
			fail("bulk-store/acknowledged-but-never-stored", fmt.Sprintf("item %d (index %s) was answered 201 but its document (line id %d) never reached the store, which refused nothing (items %q)", i, bkIdxName(tab[it.slot]), it.docID, got))
		case len(at) > 1:
			fail("bulk-store/document-stored-twice", fmt.Sprintf("item %d: its document (line id %d) was stored %d times: %v", i, it.docID, len(at), at))
		case at[0] != bkIdxName(want):
			fail("bulk-store/stored-under-another-index", fmt.Sprintf("item %d addressed index %s (real index %s) but its document (line id %d) was stored in %s", i, bkIdxName(tab[it.slot]), bkIdxName(want), it.docID, at[0]))
		}
	}
	return res
}

// ---------------------------------------------------------------- end to end: acknowledged == searchable in ITS index
// (C15 "created iff that document becomes searchable exactly once")

func genBulkE2E(r *rand.Rand, n int, tier string) []string {
	var out []string
	bkBoot()
	for i := 0; i < n; i++ {
		c := bkGenCase(r, i, true)
		if len(strings.Fields(c)) == 2 && strings.HasSuffix(c, ":0:0:0:0") {
			continue // empty body
		}
		out = append(out, "bulke2e "+c)
	}
	// concurrent requests: K bodies for the SAME not-yet-existing index (or two of them, interleaved) posted at the
	// same moment (the first writes to a new index race on creating its segment store)
	for c := 0; c < n/4+1; c++ {
		k := 2 + r.Intn(7)
		tab := []bkIdx{{tmpl: 'p', n: r.Intn(4)}}
		if r.Intn(2) == 0 {
			tab = append(tab, bkIdx{tmpl: 'p', n: tab[0].n + 1})
		}
		for j := range tab {
			tab[j].valid, tab[j].real, _ = bkAbsEntry(tab, j)
			tab[j].kib = false
		}
		var bodies []string
		for b := 0; b < k; b++ {
			nd := 1 + r.Intn(5)
			var toks []string
			for d := 0; d < nd; d++ {
				id := 1000000 + c*1000 + b*10 + d + 1
				toks = append(toks, bkTok(tab, "index", 0, r.Intn(len(tab))))
				toks = append(toks, bkTok(tab, "doc", id, 0))
			}
			toks = append(toks, bkTok(tab, "empty", 0, 0))
			bodies = append(bodies, strings.Join(toks, " "))
		}
		out = append(out, "bulke2e "+bkFormatTable(tab)+" "+strings.Join(bodies, " || "))
	}
	return out
}

// runs one engine worker: aliases, the refusing store, the request(s), a flush, one search per real index and one
// over all indexes.  Returns the first output line (the response) and the _vid counts per search.
func bkRunWorker(tab []bkIdx, request string, procs int) (string, []map[int]int, *Result) {
	var in bytes.Buffer
	fmt.Fprintf(&in, "alias vbp0 vbal0\nalias vbp1 vbal1\n")
	var reals []int
	for k, e := range tab {
		if e.storable(k) {
			reals = append(reals, k)
			if e.fail {
				fmt.Fprintf(&in, "block %s\n", bkIdxName(e))
			}
		}
	}
	fmt.Fprintf(&in, "%s\nflush\n", request)
	end := time.Now().UnixMilli() + 3600000
	star := hex.EncodeToString([]byte("*"))
	for _, k := range reals {
		fmt.Fprintf(&in, "idx %s\nq 0 5000 1500000000000 %d %s\n", bkIdxName(tab[k]), end, star)
	}
	fmt.Fprintf(&in, "idx *\nq 0 5000 1500000000000 %d %s\n", end, star)
	cmd := exec.Command(os.Args[0], "e2eworker")
	cmd.Stdin = &in
	var stdout, stderr bytes.Buffer
	cmd.Stdout = &stdout
	cmd.Stderr = &stderr
	cmd.Env = append(os.Environ(), "GOMEMLIMIT=2GiB", fmt.Sprintf("GOMAXPROCS=%d", procs))
	done := make(chan error, 1)
	if err := cmd.Start(); err != nil {
		return "", nil, &Result{Out: "worker-start-failed"}
	}
	go func() { done <- cmd.Wait() }()
	select {
	case err := <-done:
		if err != nil {
			what := bkCrashLines(stderr.String())
			if strings.Contains(what, "query.initSyncSegMetaForAllIds") && strings.Contains(what, "pkg/virtualtable.") {
				// not the engine's fault: bootEngine (engine.go) starts query.InitQueryNode BEFORE vtable.InitVTable, the
				// reverse of cmd/startup; the goroutine InitQueryNode starts can read vtable's file name while InitVTable
				// is writing it (torn string read → SIGSEGV) before any request is handled.  Start the worker again.
				return "", nil, &Result{Out: "worker-boot-race"}
			}
			return "", nil, &Result{Out: "worker-died", Fails: []PropFail{{Sig: "bulk-e2e/worker-crash" + bkCrashClass(what), Msg: fmt.Sprintf("engine worker exited abnormally while handling the request(s) (every acknowledged, unflushed document is lost): %v: %s", err, what)}}, Nontrivial: true}
		}
	case <-time.After(120 * time.Second):
		cmd.Process.Kill()
		<-done
		return "", nil, &Result{Out: "worker-timeout", Fails: []PropFail{{Sig: "bulk-e2e/worker-timeout", Msg: "engine worker did not finish within 120 s"}}, Nontrivial: true}
	}
	outLines := strings.Split(strings.TrimSpace(stdout.String()), "\n")
	if len(outLines) != len(reals)+2 {
		return "", nil, &Result{Out: fmt.Sprintf("worker-protocol: %d output lines for %d searches", len(outLines), len(reals)+1)}
	}
	var founds []map[int]int
	for _, l := range outLines[1:] {
		var qResp map[string]interface{}
		dec := json.NewDecoder(strings.NewReader(l))
		dec.UseNumber()
		dec.Decode(&qResp)
		found := map[int]int{}
		if recs, ok := qResp["recs"].([]interface{}); ok {
			for _, r := range recs {
				m, _ := r.(map[string]interface{})
				if v, ok := m["_vid"].(json.Number); ok {
					n, _ := strconv.Atoi(v.String())
					found[n]++
				}
			}
		}
		founds = append(founds, found)
	}
	return outLines[0], founds, nil
}

// the lines of a crashed worker's stderr that say what happened: the panic / fatal error line and the first frames in /repo
func bkCrashLines(se string) string {
	var keep []string
	on := false
	for _, l := range strings.Split(se, "\n") {
		if strings.HasPrefix(l, "panic:") || strings.HasPrefix(l, "fatal error:") || strings.Contains(l, "[signal ") {
			on = true
			keep = append(keep, strings.TrimSpace(l))
		} else if on && (strings.Contains(l, "siglens/pkg/") || strings.Contains(l, "cmd/corr/")) && len(keep) < 12 {
			keep = append(keep, strings.TrimSpace(l))
		}
	}
	if len(keep) == 0 {
		return trunc(strings.TrimSpace(se), 600)
	}
	return strings.Join(keep, " | ")
}

// witness class of a crash: the Go runtime's "concurrent map …" fatal error, or a nil dereference, at a siglens
// function, as "/concurrent-map-access@pkg/<package>.<function>" / "/nil-dereference@pkg/…"; "" for anything else
func bkCrashClass(what string) string {
	parts := strings.Split(what, " | ")
	kind := ""
	switch {
	case strings.HasPrefix(parts[0], "fatal error: concurrent map"):
		kind = "/concurrent-map-access@"
	case strings.HasPrefix(parts[0], "panic: runtime error: invalid memory address or nil pointer dereference"):
		kind = "/nil-dereference@"
	default:
		return ""
	}
	for _, site := range parts[1:] {
		if !strings.HasPrefix(site, "github.com/siglens/siglens/pkg/") {
			continue
		}
		site = strings.TrimPrefix(site, "github.com/siglens/siglens/")
		if j := strings.LastIndex(site, "("); j > 0 {
			site = site[:j]
		}
		return kind + site
	}
	return ""
}

func bkLetters(sts []int) string {
	var sb strings.Builder
	for _, st := range sts {
		switch st {
		case 201:
			sb.WriteByte('c')
		case 400:
			sb.WriteByte('f')
		case 413:
			sb.WriteByte('t')
		case 503:
			sb.WriteByte('u')
		default:
			sb.WriteString(fmt.Sprintf("?%d", st))
		}
	}
	return sb.String()
}

// the answer line's stored= part and the per-item judgement shared by the single and the concurrent form
func bkJudgeE2E(tab []bkIdx, founds []map[int]int, reqs [][]bkItem, gots []string, res *Result, where string) string {
	var reals []int
	for k, e := range tab {
		if e.storable(k) {
			reals = append(reals, k)
		}
	}
	var parts []string
	for i, k := range reals {
		var vids []int
		for v := range founds[i] {
			if v != 0 {
				vids = append(vids, v)
			}
		}
		sort.Ints(vids)
		if len(vids) > 0 {
			var vs []string
			for _, v := range vids {
				vs = append(vs, strconv.Itoa(v))
			}
			parts = append(parts, fmt.Sprintf("%d=%s", k, strings.Join(vs, ",")))
		}
	}
	all := founds[len(founds)-1]
	reported := map[string]bool{}
	fail := func(sig, msg string) {
		if !reported[sig] {
			reported[sig] = true
			res.Fails = append(res.Fails, PropFail{Sig: "bulk-e2e/" + where + sig, Msg: msg})
		}
	}
	for ri, items := range reqs {
		got := gots[ri]
		if strings.Contains(got, "?") {
			continue
		}
		for i, it := range items {
			if it.docID <= 0 || i >= len(got) {
				continue
			}
			created := got[i] == 'c'
			total := all[it.docID]
			if !created {
				if total > 0 {
					fail("failed-item-was-stored", fmt.Sprintf("request %d item %d was answered %c but its document _vid=%d is searchable", ri, i, got[i], it.docID))
				}
				continue
			}
			if !tab[it.slot].valid { // answered created for a name no index can have
				if total == 0 {
					fail("acknowledged-but-not-searchable", fmt.Sprintf("request %d item %d (index name %q, which no index can have) was answered 201 but its document _vid=%d is not found after flush (items %q)", ri, i, bkIdxName(tab[it.slot]), it.docID, got))
				} else {
					fail("searchable-under-another-index", fmt.Sprintf("request %d item %d addressed the index name %q, which no index can have; its document _vid=%d is searchable", ri, i, bkIdxName(tab[it.slot]), it.docID))
				}
				continue
			}
			wantSlot := tab[it.slot].real
			inOwn := 0
			elsewhere := ""
			for j, k := range reals {
				if k == wantSlot {
					inOwn = founds[j][it.docID]
				} else if founds[j][it.docID] > 0 {
					elsewhere = bkIdxName(tab[k])
				}
			}
			switch {
			case total == 0 && tab[it.slot].kib:
				fail("kibana-document-acknowledged-and-dropped", fmt.Sprintf("request %d item %d (index %s) was answered 201, but nothing stores a .kibana document here: its document _vid=%d is not found after flush", ri, i, bkIdxName(tab[it.slot]), it.docID))
			case total == 0 && tab[wantSlot].fail:
				fail("store-refused-batch-still-acknowledged", fmt.Sprintf("request %d item %d (index %s) was answered 201, but the store refused the batch of index %s: its document _vid=%d is not found after flush", ri, i, bkIdxName(tab[it.slot]), bkIdxName(tab[wantSlot]), it.docID))
			case total == 0:
				fail("acknowledged-but-not-searchable", fmt.Sprintf("request %d item %d (index %s) was answered 201 but its document _vid=%d is not found after flush (items %q)", ri, i, bkIdxName(tab[it.slot]), it.docID, got))
			case total > 1 || inOwn > 1:
				fail("document-stored-twice", fmt.Sprintf("document _vid=%d is returned %d times", it.docID, total))
			case inOwn == 0:
				if elsewhere == "" {
					elsewhere = "an index that is none of the request's"
				}
				fail("searchable-under-another-index", fmt.Sprintf("request %d item %d addressed index %s (real index %s) but its document _vid=%d is not found there; it is found in %s", ri, i, bkIdxName(tab[it.slot]), bkIdxName(tab[wantSlot]), it.docID, elsewhere))
			}
		}
	}
	return strings.Join(parts, ";")
}

func execBulkE2E(line string) Result {
	f := strings.Fields(line)
	if len(f) < 3 || f[0] != "bulke2e" {
		return Result{Out: "bad-op"}
	}
	bkBoot() // the abstraction functions below need the engine's config and the aliases
	tab, e := bkParseTable(f[1])
	if e != "" {
		return Result{Out: e}
	}
	var bodies [][]string
	cur := []string{}
	for _, tok := range f[2:] {
		if tok == "||" {
			bodies = append(bodies, cur)
			cur = []string{}
		} else {
			cur = append(cur, tok)
		}
	}
	bodies = append(bodies, cur)
	var hexes []string
	var reqs [][]bkItem
	nlines := 0
	var tags []string
	for _, b := range bodies {
		lines, al, e := bkParseBody(tab, b)
		if e != "" {
			return Result{Out: e}
		}
		nlines += len(lines)
		hexes = append(hexes, hex.EncodeToString([]byte(strings.Join(lines, "\n"))))
		items, _ := bkSpec(tab, al)
		reqs = append(reqs, items)
		if len(bodies) == 1 {
			tags = bkTags(tab, items)
		}
	}
	par := len(bodies) > 1
	request, procs, where := "bulk "+hexes[0], 4, ""
	if par {
		request, procs, where = "bulkpar "+strings.Join(hexes, " "), 8, "concurrent/"
		tags = []string{fmt.Sprintf("concurrent-bodies=%d", len(bodies)), fmt.Sprintf("concurrent-index-names=%d", len(tab))}
	}
	// a worker that dies of a classified crash (a PropFail of its own, with the crash site as witness class) is
	// started again, so that the case itself is still judged
	var crashes []PropFail
	first, founds, bad := bkRunWorker(tab, request, procs)
	for try := 0; try < 3 && bad != nil && (bad.Out == "worker-boot-race" || (len(bad.Fails) == 1 && strings.HasPrefix(bad.Fails[0].Sig, "bulk-e2e/worker-crash/"))); try++ {
		crashes = append(crashes, bad.Fails...)
		first, founds, bad = bkRunWorker(tab, request, procs)
	}
	if bad != nil {
		bad.Fails = append(crashes, bad.Fails...)
		return *bad
	}
	var gots []string
	if par {
		var pr struct {
			Bulkpar []struct {
				Items []int `json:"items"`
			} `json:"bulkpar"`
		}
		json.Unmarshal([]byte(first), &pr)
		for _, b := range pr.Bulkpar {
			gots = append(gots, bkLetters(b.Items))
		}
	} else {
		var br struct {
			Items []int `json:"items"`
		}
		json.Unmarshal([]byte(first), &br)
		gots = append(gots, bkLetters(br.Items))
	}
	for len(gots) < len(reqs) {
		gots = append(gots, "")
	}
	res := Result{Nontrivial: nlines >= 2, Tags: tags, Fails: crashes}
	stored := bkJudgeE2E(tab, founds, reqs, gots, &res, where)
	res.Out = fmt.Sprintf("items=%s stored=%s", strings.Join(gots, "|"), stored)
	return res
}
