package main

import (
	"bytes"
	"encoding/hex"
	"encoding/json"
	"fmt"
	"math/rand"
	"os"
	"os/exec"
	"sort"
	"strconv"
	"strings"
	"time"

	"github.com/siglens/siglens/pkg/config"
	eswriter "github.com/siglens/siglens/pkg/es/writer"
	"github.com/siglens/siglens/pkg/segment/writer"
)

// suite "bulk": bulk <line> <line> ...   line ::= <i|c|u|o>:<len>:<docOk>:<id>
// The op line is the ABSTRACTION of a concrete body; the abstraction (kind, docOk) of every concrete
// line is computed by the real ExtractIndexAndValidateAction / GetNewPLE. Exec rebuilds the same
// concrete body deterministically from the abstract line (templates below).

func init() {
	register(&Suite{Name: "bulk_e2e", Parallel: 6, Gen: genBulkE2E, Exec: execBulkE2E,
		Rule: "the same bulk bodies posted to the real entry point in a fresh engine process, then flush and a match-all search over all indexes: the documents found (by _vid, each once) must be exactly those whose item was acknowledged 201; non-trivial = ≥2 lines"})
	register(&Suite{Name: "bulk", Gen: genBulk, Exec: execBulk,
		Rule: "bulk bodies of 0..10 lines from templates (index/create/update/delete/garbage actions, good/bad/oversize/empty documents, action-like docs, missing trailing newline/doc); distinct = sha1(op line); non-trivial = ≥2 lines and at least one non-201 item expected"})
}

// concrete line templates; the abstract form is derived from the real classifiers
type bulkTmpl struct {
	name string
	mk   func(id int) string
}

var bulkTmpls = []bulkTmpl{
	{"index", func(id int) string { return fmt.Sprintf(`{"index":{"_index":"vbulk%d"}}`, id%3) }},
	{"create", func(id int) string { return fmt.Sprintf(`{"create":{"_index":"vbulk%d"}}`, id%3) }},
	{"update", func(id int) string { return `{"update":{"_index":"vbulk0","_id":"7"}}` }},
	{"delete", func(id int) string { return `{"delete":{"_index":"vbulk0","_id":"7"}}` }},
	{"garbage", func(id int) string { return `this is not json` }},
	{"empty", func(id int) string { return `` }},
	{"doc", func(id int) string { return fmt.Sprintf(`{"_vid":%d,"msg":"hello %d","n":%d}`, id, id, id*3) }},
	{"baddoc", func(id int) string { return fmt.Sprintf(`{"_vid":%d,"msg":`, id) }},
	{"bigdoc", func(id int) string {
		return fmt.Sprintf(`{"_vid":%d,"pad":"%s"}`, id, strings.Repeat("x", 63000))
	}},
	{"edgedoc", func(id int) string { // exactly MAX_RECORD_SIZE-1 bytes
		s := fmt.Sprintf(`{"_vid":%d,"pad":""}`, id)
		return fmt.Sprintf(`{"_vid":%d,"pad":"%s"}`, id, strings.Repeat("y", 62999-len(s)))
	}},
}

var tmplIdx = map[string]int{}

func init() {
	for i, t := range bulkTmpls {
		tmplIdx[t.name] = i
	}
}

var bulkTsKey = "timestamp"
var bulkStackBuf [64]byte

func abstractLine(concrete string, id int) string {
	k := "o"
	act, _, _ := eswriter.ExtractIndexAndValidateAction([]byte(concrete))
	switch act {
	case eswriter.INDEX:
		k = "i"
	case eswriter.CREATE:
		k = "c"
	case eswriter.UPDATE:
		k = "u"
	}
	ok := 0
	ple, err := writer.GetNewPLE([]byte(concrete), 1700000000000, "vbulk0", &bulkTsKey, bulkStackBuf[:])
	if err == nil {
		ok = 1
		writer.ReleasePLEs([]*writer.ParsedLogEvent{ple})
	}
	return fmt.Sprintf("%s:%d:%d:%d", k, len(concrete), ok, id)
}

// op line token: <tmplIndex>/<id>=<abstract>
func genBulk(r *rand.Rand, n int, tier string) []string {
	bootEngine()
	var out []string
	weights := []string{"index", "index", "index", "create", "update", "delete", "garbage", "empty", "doc", "doc", "doc", "doc", "baddoc", "bigdoc", "edgedoc"}
	for i := 0; i < n; i++ {
		nl := r.Intn(11)
		var toks []string
		expectDoc := false
		for j := 0; j < nl; j++ {
			var name string
			if expectDoc && r.Intn(6) != 0 {
				name = []string{"doc", "doc", "doc", "baddoc", "bigdoc", "edgedoc", "empty"}[r.Intn(7)]
				if r.Intn(3) != 0 {
					name = "doc"
				}
			} else {
				name = weights[r.Intn(len(weights))]
			}
			expectDoc = !expectDoc && (name == "index" || name == "create" || name == "update")
			id := i*100 + j + 1
			toks = append(toks, fmt.Sprintf("%d/%s", tmplIdx[name], abstractLine(bulkTmpls[tmplIdx[name]].mk(id), id)))
		}
		if r.Intn(3) != 0 { // trailing newline = a final empty line
			toks = append(toks, fmt.Sprintf("%d/%s", tmplIdx["empty"], abstractLine("", 0)))
		}
		if len(toks) == 0 {
			toks = append(toks, fmt.Sprintf("%d/%s", tmplIdx["empty"], abstractLine("", 0)))
		}
		out = append(out, "bulk "+strings.Join(toks, " "))
	}
	return out
}

func execBulk(line string) Result {
	bootEngine()
	f := strings.Fields(line)
	if len(f) < 2 || f[0] != "bulk" {
		return Result{Out: "bad-op"}
	}
	var lines []string
	type abs struct {
		kind  string
		ln    int
		docOk bool
		id    int
	}
	var al []abs
	for _, tok := range f[1:] {
		p := strings.SplitN(tok, "/", 2)
		if len(p) != 2 {
			return Result{Out: "bad-op"}
		}
		ti, err := strconv.Atoi(p[0])
		q := strings.Split(p[1], ":")
		if err != nil || ti < 0 || ti >= len(bulkTmpls) || len(q) != 4 {
			return Result{Out: "bad-op"}
		}
		id, _ := strconv.Atoi(q[3])
		ln, _ := strconv.Atoi(q[1])
		conc := bulkTmpls[ti].mk(id)
		if abstractLine(conc, id) != p[1] {
			return Result{Out: "abstraction-drift " + tok + " vs " + abstractLine(conc, id)}
		}
		lines = append(lines, conc)
		al = append(al, abs{q[0], ln, q[2] == "1", id})
	}
	body := strings.Join(lines, "\n")
	_ = config.GetTimeStampKey()
	processed, resp, _ := eswriter.HandleBulkBody([]byte(body), nil, 0, 0, false)
	items, _ := resp["items"].([]interface{})
	var sb strings.Builder
	nfail := 0
	for _, it := range items {
		m, _ := it.(map[string]interface{})
		st := 0
		if idx, ok := m["index"].(map[string]interface{}); ok {
			if v, ok := idx["status"].(int); ok {
				st = v
			}
		}
		if v, ok := m["status"].(int); ok {
			st = v
		}
		switch st {
		case 201:
			sb.WriteByte('c')
		case 400:
			sb.WriteByte('f')
			nfail++
		case 413:
			sb.WriteByte('t')
			nfail++
		default:
			sb.WriteString(fmt.Sprintf("?%d", st))
		}
	}
	errFlag := 0
	if b, ok := resp["errors"].(bool); ok && b {
		errFlag = 1
	}
	res := Result{Out: fmt.Sprintf("items=%s errors=%d processed=%d", sb.String(), errFlag, processed)}

	// ---- the property on the real code, from an independent per-action specification:
	// walk the body action by action; each action's expected status depends only on itself.
	var want strings.Builder
	i := 0
	sawBig := false
	// trailing empty lines are the trailing newline(s) of the body, not actions (blank lines in the
	// middle of a body are malformed actions)
	stripped := 0
	for len(al) > 0 && al[len(al)-1].ln == 0 {
		al = al[:len(al)-1]
		stripped++
	}
	for i < len(al) {
		a := al[i]
		switch a.kind {
		case "i", "c":
			if i+1 >= len(al) {
				want.WriteByte('f') // missing document
				i += 2
				continue
			}
			d := al[i+1]
			if d.ln >= 63000 {
				want.WriteByte('t')
				sawBig = true
			} else if d.docOk {
				want.WriteByte('c')
			} else {
				want.WriteByte('f')
			}
			i += 2
		case "u":
			want.WriteByte('f')
			i += 2
		default:
			want.WriteByte('f')
			i++
		}
	}
	w := want.String()
	got := sb.String()
	// latitude: each blank line before the last trailing newline may or may not be answered with a failed item
	for m := 1; m < stripped && len(got) > len(w); m++ {
		if got[len(w)] == 'f' {
			w += "f"
		}
	}
	res.Nontrivial = len(al) >= 2 && strings.ContainsAny(w, "ft")
	res.Tags = append(res.Tags, fmt.Sprintf("actions=%d", len(w)))
	if strings.Contains(w, "t") {
		res.Tags = append(res.Tags, "has-oversize")
	}
	if len(got) != len(w) {
		cls := "other"
		if len(got) == len(w)-1 && strings.HasPrefix(w, got) {
			cls = "trailing-action-without-following-bytes-dropped"
		}
		res.Fails = append(res.Fails, PropFail{Sig: "bulk-item-count/" + cls, Msg: fmt.Sprintf("items %q but the body has %d actions (expected %q)", got, len(w), w)})
	} else if got != w {
		cls := "other"
		if sawBig {
			stale := true
			seenT := false
			for k := range w {
				if w[k] == 't' {
					seenT = true
				}
				if got[k] != w[k] && !(seenT && w[k] == 'f' && got[k] == 't') {
					stale = false
				}
			}
			if stale {
				cls = "stale-oversize-flag-turns-later-400-into-413"
			}
		}
		res.Fails = append(res.Fails, PropFail{Sig: "bulk-item-status/" + cls, Msg: fmt.Sprintf("items %q, per-action specification %q", got, w)})
	}
	if (errFlag == 1) != (nfail > 0) {
		cls := "other"
		if errFlag == 0 && !strings.Contains(got, "f") {
			cls = "only-413-failures-leave-errors-false"
		} else if errFlag == 0 {
			cls = "stale-oversize-flag-hides-400"
		}
		res.Fails = append(res.Fails, PropFail{Sig: "bulk-errors-flag/" + cls, Msg: fmt.Sprintf("errors=%d but %d item(s) failed (items %q)", errFlag, nfail, got)})
	}
	return res
}

// ---- end to end: acknowledged == searchable (C15 "created iff that document becomes searchable exactly once")

func genBulkE2E(r *rand.Rand, n int, tier string) []string {
	var out []string
	bootEngine()
	for _, l := range genBulk(r, n, tier) {
		// only document templates carry a _vid; every other line gets id 0 (it cannot be found by _vid even if stored)
		var toks []string
		for _, tok := range strings.Fields(l)[1:] {
			p := strings.SplitN(tok, "/", 2)
			ti, _ := strconv.Atoi(p[0])
			name := bulkTmpls[ti].name
			if name == "doc" || name == "edgedoc" || name == "bigdoc" || name == "baddoc" {
				toks = append(toks, tok)
			} else {
				toks = append(toks, fmt.Sprintf("%d/%s", ti, abstractLine(bulkTmpls[ti].mk(0), 0)))
			}
		}
		if len(toks) == 1 && strings.HasSuffix(toks[0], ":0:0:0") && strings.HasPrefix(toks[0], fmt.Sprintf("%d/", tmplIdx["empty"])) {
			continue // empty body
		}
		out = append(out, "bulke2e "+strings.Join(toks, " "))
	}
	// concurrent requests: K bodies for the SAME not-yet-existing index posted at the same moment
	// (the first writes to a new index race on creating its segment store)
	for c := 0; c < n/4+1; c++ {
		k := 2 + r.Intn(7)
		var bodies []string
		for b := 0; b < k; b++ {
			nd := 1 + r.Intn(5)
			var toks []string
			for d := 0; d < nd; d++ {
				id := 1000000 + c*1000 + b*10 + d + 1
				toks = append(toks, fmt.Sprintf("%d/%s", tmplIdx["index"], abstractLine(bulkTmpls[tmplIdx["index"]].mk(0), 0)))
				toks = append(toks, fmt.Sprintf("%d/%s", tmplIdx["doc"], abstractLine(bulkTmpls[tmplIdx["doc"]].mk(id), id)))
			}
			toks = append(toks, fmt.Sprintf("%d/%s", tmplIdx["empty"], abstractLine("", 0)))
			bodies = append(bodies, strings.Join(toks, " "))
		}
		out = append(out, "bulke2e "+strings.Join(bodies, " || "))
	}
	return out
}

func execBulkE2E(line string) Result {
	f := strings.Fields(line)
	if len(f) < 2 || f[0] != "bulke2e" {
		return Result{Out: "bad-op"}
	}
	bootEngine() // the abstraction functions below need the engine's config
	if strings.Contains(line, " || ") {
		return execBulkE2EPar(strings.Split(strings.TrimPrefix(line, "bulke2e "), " || "))
	}
	var lines []string
	var ids []int
	for _, tok := range f[1:] {
		p := strings.SplitN(tok, "/", 2)
		if len(p) != 2 {
			return Result{Out: "bad-op"}
		}
		ti, err := strconv.Atoi(p[0])
		q := strings.Split(p[1], ":")
		if err != nil || ti < 0 || ti >= len(bulkTmpls) || len(q) != 4 {
			return Result{Out: "bad-op"}
		}
		id, _ := strconv.Atoi(q[3])
		lines = append(lines, bulkTmpls[ti].mk(id))
		ids = append(ids, id)
	}
	body := strings.Join(lines, "\n")
	var in bytes.Buffer
	fmt.Fprintf(&in, "bulk %s\nflush\nidx *\nq 0 5000 1500000000000 %d %s\n", hex.EncodeToString([]byte(body)), time.Now().UnixMilli()+3600000, hex.EncodeToString([]byte("*")))
	cmd := exec.Command(os.Args[0], "e2eworker")
	cmd.Stdin = &in
	var stdout bytes.Buffer
	cmd.Stdout = &stdout
	cmd.Env = append(os.Environ(), "GOMEMLIMIT=2GiB", "GOMAXPROCS=4")
	done := make(chan error, 1)
	if err := cmd.Start(); err != nil {
		return Result{Out: "worker-start-failed"}
	}
	go func() { done <- cmd.Wait() }()
	select {
	case err := <-done:
		if err != nil {
			return Result{Out: "worker-died", Fails: []PropFail{{Sig: "bulk-e2e/worker-crash", Msg: fmt.Sprintf("engine worker exited abnormally: %v", err)}}, Nontrivial: true}
		}
	case <-time.After(120 * time.Second):
		cmd.Process.Kill()
		<-done
		return Result{Out: "worker-timeout", Fails: []PropFail{{Sig: "bulk-e2e/worker-timeout", Msg: "engine worker did not finish within 120 s"}}, Nontrivial: true}
	}
	var bulkResp struct {
		Items  []int `json:"items"`
		Errors bool  `json:"errors"`
	}
	var qResp map[string]interface{}
	for _, l := range strings.Split(strings.TrimSpace(stdout.String()), "\n") {
		if strings.HasPrefix(l, `{"bulk"`) || strings.Contains(l, `"bulk":true`) {
			json.Unmarshal([]byte(l), &bulkResp)
		} else if strings.HasPrefix(l, "{") {
			dec := json.NewDecoder(strings.NewReader(l))
			dec.UseNumber()
			dec.Decode(&qResp)
		}
	}
	found := map[int]int{}
	if recs, ok := qResp["recs"].([]interface{}); ok {
		for _, r := range recs {
			m, _ := r.(map[string]interface{})
			if v, ok := m["_vid"].(json.Number); ok {
				n, _ := strconv.Atoi(v.String())
				found[n]++
			}
		}
	}
	var vids []int
	for v := range found {
		vids = append(vids, v)
	}
	sort.Ints(vids)
	var sb strings.Builder
	for _, st := range bulkResp.Items {
		switch st {
		case 201:
			sb.WriteByte('c')
		case 400:
			sb.WriteByte('f')
		case 413:
			sb.WriteByte('t')
		default:
			sb.WriteString(fmt.Sprintf("?%d", st))
		}
	}
	var vs []string
	for _, v := range vids {
		vs = append(vs, strconv.Itoa(v))
	}
	res := Result{Out: fmt.Sprintf("items=%s stored=%s", sb.String(), strings.Join(vs, ",")), Nontrivial: len(lines) >= 2}
	for v, c := range found {
		if c > 1 {
			res.Fails = append(res.Fails, PropFail{Sig: "bulk-e2e/document-stored-twice", Msg: fmt.Sprintf("document _vid=%d is returned %d times", v, c)})
		}
	}
	// independent pairing of acknowledged items with their documents: walk the body like the per-action specification
	type abs struct {
		kind string
		ln   int
		id   int
	}
	var al []abs
	for i, tok := range f[1:] {
		q := strings.Split(strings.SplitN(tok, "/", 2)[1], ":")
		ln, _ := strconv.Atoi(q[1])
		al = append(al, abs{q[0], ln, ids[i]})
	}
	for len(al) > 0 && al[len(al)-1].ln == 0 {
		al = al[:len(al)-1]
	}
	item := 0
	for i := 0; i < len(al); {
		a := al[i]
		docID := -1
		switch a.kind {
		case "i", "c":
			if i+1 < len(al) {
				docID = al[i+1].id
			}
			i += 2
		case "u":
			i += 2
		default:
			i++
		}
		if item < len(bulkResp.Items) {
			created := bulkResp.Items[item] == 201
			if docID > 0 {
				if created && found[docID] == 0 {
					res.Fails = append(res.Fails, PropFail{Sig: "bulk-e2e/acknowledged-but-not-searchable", Msg: fmt.Sprintf("item %d was answered 201 but its document _vid=%d is not found after flush", item, docID)})
				}
				if !created && found[docID] > 0 {
					res.Fails = append(res.Fails, PropFail{Sig: "bulk-e2e/failed-item-was-stored", Msg: fmt.Sprintf("item %d was answered %d but its document _vid=%d is searchable", item, bulkResp.Items[item], docID)})
				}
			}
		}
		item++
	}
	return res
}

// K bodies posted concurrently to the real entry point; all acknowledged documents must be searchable once
func execBulkE2EPar(bodies []string) Result {
	var hexes []string
	var allIDs [][]int
	for _, b := range bodies {
		var lines []string
		var ids []int
		for _, tok := range strings.Fields(b) {
			p := strings.SplitN(tok, "/", 2)
			if len(p) != 2 {
				return Result{Out: "bad-op"}
			}
			ti, err := strconv.Atoi(p[0])
			q := strings.Split(p[1], ":")
			if err != nil || ti < 0 || ti >= len(bulkTmpls) || len(q) != 4 {
				return Result{Out: "bad-op"}
			}
			id, _ := strconv.Atoi(q[3])
			lines = append(lines, bulkTmpls[ti].mk(id))
			if bulkTmpls[ti].name == "doc" {
				ids = append(ids, id)
			}
		}
		hexes = append(hexes, hex.EncodeToString([]byte(strings.Join(lines, "\n"))))
		allIDs = append(allIDs, ids)
	}
	var in bytes.Buffer
	fmt.Fprintf(&in, "bulkpar %s\nflush\nidx *\nq 0 5000 1500000000000 %d %s\n", strings.Join(hexes, " "), time.Now().UnixMilli()+3600000, hex.EncodeToString([]byte("*")))
	cmd := exec.Command(os.Args[0], "e2eworker")
	cmd.Stdin = &in
	var stdout bytes.Buffer
	cmd.Stdout = &stdout
	cmd.Env = append(os.Environ(), "GOMEMLIMIT=2GiB", "GOMAXPROCS=8")
	done := make(chan error, 1)
	if err := cmd.Start(); err != nil {
		return Result{Out: "worker-start-failed"}
	}
	go func() { done <- cmd.Wait() }()
	select {
	case err := <-done:
		if err != nil {
			return Result{Out: "worker-died", Fails: []PropFail{{Sig: "bulk-e2e/worker-crash", Msg: fmt.Sprintf("engine worker exited abnormally: %v", err)}}, Nontrivial: true}
		}
	case <-time.After(120 * time.Second):
		cmd.Process.Kill()
		<-done
		return Result{Out: "worker-timeout", Fails: []PropFail{{Sig: "bulk-e2e/worker-timeout", Msg: "engine worker did not finish within 120 s"}}, Nontrivial: true}
	}
	var par struct {
		Bulkpar []struct {
			Items  []int `json:"items"`
			Errors bool  `json:"errors"`
		} `json:"bulkpar"`
	}
	var qResp map[string]interface{}
	for _, l := range strings.Split(strings.TrimSpace(stdout.String()), "\n") {
		if strings.HasPrefix(l, `{"bulkpar"`) {
			json.Unmarshal([]byte(l), &par)
		} else if strings.HasPrefix(l, "{") {
			dec := json.NewDecoder(strings.NewReader(l))
			dec.UseNumber()
			dec.Decode(&qResp)
		}
	}
	found := map[int]int{}
	if recs, ok := qResp["recs"].([]interface{}); ok {
		for _, r := range recs {
			m, _ := r.(map[string]interface{})
			if v, ok := m["_vid"].(json.Number); ok {
				n, _ := strconv.Atoi(v.String())
				found[n]++
			}
		}
	}
	res := Result{Nontrivial: true, Tags: []string{fmt.Sprintf("concurrent-bodies=%d", len(bodies))}}
	var itemStrs []string
	for bi, ids := range allIDs {
		var sb strings.Builder
		if bi < len(par.Bulkpar) {
			for di, st := range par.Bulkpar[bi].Items {
				if st == 201 {
					sb.WriteByte('c')
					if di < len(ids) && found[ids[di]] == 0 {
						res.Fails = append(res.Fails, PropFail{Sig: "bulk-e2e/concurrent/acknowledged-but-not-searchable", Msg: fmt.Sprintf("request %d item %d was answered 201 but its document _vid=%d is not found after flush (%d concurrent requests to a new index)", bi, di, ids[di], len(bodies))})
					}
				} else {
					sb.WriteString(fmt.Sprintf("?%d", st))
				}
			}
		}
		itemStrs = append(itemStrs, sb.String())
	}
	for v, c := range found {
		if c > 1 {
			res.Fails = append(res.Fails, PropFail{Sig: "bulk-e2e/concurrent/document-stored-twice", Msg: fmt.Sprintf("document _vid=%d is returned %d times", v, c)})
		}
	}
	var vids []int
	for v := range found {
		vids = append(vids, v)
	}
	sort.Ints(vids)
	var vs []string
	for _, v := range vids {
		vs = append(vs, strconv.Itoa(v))
	}
	res.Out = fmt.Sprintf("items=%s stored=%s", strings.Join(itemStrs, "|"), strings.Join(vs, ","))
	return res
}
