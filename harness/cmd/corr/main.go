// corr: correspondence driver. Runs the REAL siglens code in-process on generated or replayed
// operation lines, prints one canonical answer line per operation (to be diffed against the Lean
// Oracle's answer for the same line) and checks the property statement itself on the real code.
//
//	corr gen    <suite> <seed> <n> <tier> <outdir>   → <outdir>/<suite>.ops
//	corr exec   <suite> <opsfile> <outdir>           → <outdir>/<suite>.impl, .prop, .stats
package main

import (
	"bufio"
	"crypto/sha1"
	"encoding/json"
	"fmt"
	"math/rand"
	"os"
	"path/filepath"
	"runtime/debug"
	"sort"
	"strings"
	"sync"

	"io"

	log "github.com/sirupsen/logrus"
)

type PropFail struct {
	Sig string // witness class: call site + input shape (matched against known_findings.txt)
	Msg string
}

type Result struct {
	Out        string
	Fails      []PropFail
	Nontrivial bool
	Tags       []string // distribution counters
}

type Suite struct {
	Name string
	Gen  func(r *rand.Rand, n int, tier string) []string
	Exec func(line string) Result
	Rule string
	// Parallel > 0: Exec spawns its own worker process per line and may run that many lines concurrently
	Parallel int
}

var suites = map[string]*Suite{}

func register(s *Suite) { suites[s.Name] = s }

// worker subcommands (one process per case/dataset); registered from the file that implements them so that
// a property-minimal build (lib/runner.py build_corr_min) can leave other properties' files out
var workers = map[string]func(){}

func registerWorker(name string, f func()) { workers[name] = f }

// exit hooks: clean-ups registered by suites, run by main after exec (kept here, not in a suite's file, so that
// a property-minimal build does not need another property's files)
var exitHooks []func()

func runExitHooks() {
	for _, f := range exitHooks {
		f()
	}
}

func main() {
	log.SetOutput(io.Discard)
	log.SetLevel(log.PanicLevel)
	if len(os.Args) < 2 || (len(os.Args) < 3 && workers[os.Args[1]] == nil && os.Args[1] != "list") {
		fmt.Fprintln(os.Stderr, "usage: corr gen|exec|list ...")
		os.Exit(2)
	}
	if w := workers[os.Args[1]]; w != nil { // worker subcommands register themselves (registerWorker in their own files)
		w()
		return
	}
	switch os.Args[1] {
	case "list":
		names := []string{}
		for k := range suites {
			names = append(names, k)
		}
		sort.Strings(names)
		fmt.Println(strings.Join(names, "\n"))
	case "gen":
		s := suites[os.Args[2]]
		if s == nil {
			fmt.Fprintln(os.Stderr, "unknown suite", os.Args[2])
			os.Exit(2)
		}
		var seed int64
		var n int
		fmt.Sscan(os.Args[3], &seed)
		fmt.Sscan(os.Args[4], &n)
		tier := os.Args[5]
		outdir := os.Args[6]
		r := rand.New(rand.NewSource(seed))
		lines := s.Gen(r, n, tier)
		must(os.WriteFile(filepath.Join(outdir, s.Name+".ops"), []byte(strings.Join(lines, "\n")+"\n"), 0o644))
	case "exec":
		s := suites[os.Args[2]]
		if s == nil {
			fmt.Fprintln(os.Stderr, "unknown suite", os.Args[2])
			os.Exit(2)
		}
		execSuite(s, os.Args[3], os.Args[4])
		runExitHooks() // suite-registered cleanups (c19_path.go)
	default:
		os.Exit(2)
	}
}

func must(err error) {
	if err != nil {
		fmt.Fprintln(os.Stderr, "fatal:", err)
		os.Exit(3)
	}
}

func safeExec(s *Suite, line string) (res Result) {
	defer func() {
		if r := recover(); r != nil {
			st := string(debug.Stack())
			first := ""
			for _, l := range strings.Split(st, "\n") {
				if strings.Contains(l, "/repo/") {
					first = strings.TrimSpace(l)
					break
				}
			}
			res = Result{Out: "panic", Fails: []PropFail{{Sig: s.Name + "-panic", Msg: fmt.Sprintf("panic: %v at %s", r, first)}}, Nontrivial: true, Tags: []string{"panic"}}
		}
	}()
	return s.Exec(line)
}

func execSuite(s *Suite, opsfile, outdir string) {
	f, err := os.Open(opsfile)
	must(err)
	defer f.Close()
	impl, err := os.Create(filepath.Join(outdir, s.Name+".impl"))
	must(err)
	defer impl.Close()
	prop, err := os.Create(filepath.Join(outdir, s.Name+".prop"))
	must(err)
	defer prop.Close()
	w := bufio.NewWriterSize(impl, 1<<20)
	sc := bufio.NewScanner(f)
	sc.Buffer(make([]byte, 1<<20), 1<<28)
	tags := map[string]int{}
	distinct := map[[20]byte]bool{}
	evals := 0
	lineNo := 0
	var samples []string
	var lines []string
	for sc.Scan() {
		lines = append(lines, sc.Text())
	}
	results := make([]Result, len(lines))
	run := func(i int) {
		if strings.TrimSpace(lines[i]) == "" {
			results[i] = Result{Out: "bad-op"}
			return
		}
		results[i] = safeExec(s, lines[i])
	}
	if s.Parallel > 1 {
		sem := make(chan struct{}, s.Parallel)
		var wg sync.WaitGroup
		for i := range lines {
			wg.Add(1)
			sem <- struct{}{}
			go func(i int) {
				defer wg.Done()
				defer func() { <-sem }()
				run(i)
			}(i)
		}
		wg.Wait()
	} else {
		for i := range lines {
			run(i)
		}
	}
	for i, line := range lines {
		lineNo = i + 1
		res := results[i]
		if strings.TrimSpace(line) == "" {
			fmt.Fprintln(w, "bad-op")
			continue
		}
		evals++
		fmt.Fprintln(w, strings.ReplaceAll(res.Out, "\n", "\\n"))
		for _, t := range res.Tags {
			tags[t]++
		}
		if res.Nontrivial {
			distinct[sha1.Sum([]byte(line))] = true
		}
		for _, pf := range res.Fails {
			b, _ := json.Marshal(map[string]interface{}{"line": lineNo, "sig": pf.Sig, "msg": pf.Msg, "op": line})
			fmt.Fprintln(prop, string(b))
		}
		if len(samples) < 3 && res.Nontrivial && len(line) < 400 {
			samples = append(samples, line+"  =>  "+trunc(res.Out, 300))
		}
	}
	w.Flush()
	st := map[string]interface{}{"suite": s.Name, "evaluations": evals, "distinct_nontrivial": len(distinct), "tags": tags, "rule": s.Rule, "samples": samples}
	b, _ := json.MarshalIndent(st, "", " ")
	must(os.WriteFile(filepath.Join(outdir, s.Name+".stats"), b, 0o644))
}

func trunc(s string, n int) string {
	if len(s) > n {
		return s[:n] + "…"
	}
	return s
}
