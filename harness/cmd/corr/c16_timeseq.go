package main

// suite "timeseq" (property C16, time half): SEQUENCES of two ingest requests in ONE engine process — an event that carries
// an explicit time through protocol A, then an event through protocol B (the same or another one) that carries no time of
// its own, or another time — for every pair of log protocols (ES bulk, OTLP logs, Loki push, Splunk HEC).  The ingest path
// recycles its ParsedLogEvent objects through a pool (writer.GetNewPLE / ReleasePLEs) and keeps per-process caches: what an
// earlier request left behind must not leak into a later event ("the time of arrival is used only when the event has no
// time of its own" — and then it IS used, not the time of some earlier event).
//
//	tpq <protoA> <formA> <msA> <protoB> <formB> <msB>      (protocols / forms of suite timeproto, c16_proto.go)
//
// Out: `<answer A> ; <answer B>` with the answers of suite timeproto (stored=<ms> | stored=arrival | rejected …); the model
// answers each step by itself (Oracle/C16T.lean: the `tp` answer of Oracle/C16.lean twice) — requests are independent.
// PropFail time-sequence/<protoB>-event-without-time-stored-at-an-earlier-events-time: step B carries no time and is stored
// at the time step A carried; time-sequence/<protoB>-event-time-altered-after-another-request: B's own time was not kept.

import (
	"bytes"
	"encoding/json"
	"fmt"
	"math/rand"
	"os"
	"os/exec"
	"sort"
	"strconv"
	"strings"
	"time"

	"github.com/siglens/siglens/pkg/ast/pipesearch"
	"github.com/siglens/siglens/pkg/segment/writer"
)

func init() {
	register(&Suite{Name: "timeseq", Gen: genTimeSeq, Exec: execTimeSeq, Parallel: 6,
		Rule: "two requests in one engine process: an event with an explicit time through protocol A (every protocol, several units), then an event WITHOUT a time (ES bulk absent, OTLP time_unix_nano 0, HEC without time / with an unparsable one) or with another explicit time through protocol B, for every ordered pair of log protocols; both read back; requests must not influence each other"})
}

var c16SeqTimed = [][2]string{{"esbulk", "ms"}, {"esbulk", "s"}, {"esbulk", "ns-str"}, {"esbulk", "rfc3339"}, {"otlp", "ns"}, {"loki", "ns-str"}, {"splunk", "hec-time"}, {"splunk", "ts-ms"}, {"splunk", "hec-time-s"}}
var c16SeqUntimed = [][2]string{{"esbulk", "absent"}, {"otlp", "zero"}, {"splunk", "hec-none"}, {"splunk", "hec-time-bad"}}

func genTimeSeq(r *rand.Rand, n int, tier string) []string {
	var out []string
	ms := func() int64 { return 1000000000000 + r.Int63n(600000000000) } // 2001 … 2020: away from the wall clock
	// every (timed protocol, untimed form) pair first
	for _, b := range c16SeqUntimed {
		for _, p := range []string{"esbulk", "otlp", "loki", "splunk"} {
			var c [][2]string
			for _, a := range c16SeqTimed {
				if a[0] == p {
					c = append(c, a)
				}
			}
			a := c[r.Intn(len(c))]
			out = append(out, fmt.Sprintf("tpq %s %s %d %s %s %d", a[0], a[1], ms(), b[0], b[1], ms()))
		}
	}
	for len(out) < n {
		a := c16SeqTimed[r.Intn(len(c16SeqTimed))]
		b := c16SeqUntimed[r.Intn(len(c16SeqUntimed))]
		if r.Intn(4) == 0 {
			b = c16SeqTimed[r.Intn(len(c16SeqTimed))]
		}
		out = append(out, fmt.Sprintf("tpq %s %s %d %s %s %d", a[0], a[1], ms(), b[0], b[1], ms()))
	}
	if len(out) > n && n >= 16 {
		out = out[:n]
	}
	return out
}

func c16SeqWant(form string, ms int64) (int64, bool) {
	switch form {
	case "absent", "zero", "hec-none", "hec-time-bad":
		return 0, false
	case "s", "hec-time-s":
		return ms / 1000 * 1000, true
	}
	return ms, true
}

func execTimeSeq(line string) Result {
	f := strings.Fields(line)
	if len(f) != 7 || f[0] != "tpq" || !c16ProtoValid(f[1], f[2]) || !c16ProtoValid(f[4], f[5]) || f[2] == "hec-both" || f[5] == "hec-both" || f[2] == "hec-time-ms" || f[5] == "hec-time-ms" {
		return Result{Out: "bad-op"}
	}
	var mss [2]int64
	for k, t := range []string{f[3], f[6]} {
		v, err := strconv.ParseInt(t, 10, 64)
		if err != nil || v < 1000000000000 || v >= 10000000000000 {
			return Result{Out: "bad-op"}
		}
		mss[k] = v
	}
	wa, oka := c16SeqWant(f[2], mss[0])
	wb, okb := c16SeqWant(f[5], mss[1])
	if oka && okb && wa == wb {
		return Result{Out: "bad-op"} // two events carrying the same time cannot be told apart
	}
	exe, _ := os.Executable()
	cmd := exec.Command(exe, "c16worker", "x")
	cmd.Stdin = strings.NewReader(line + "\n")
	var stderr bytes.Buffer
	cmd.Stderr = &stderr
	outb, err := cmd.Output()
	res := Result{Nontrivial: true, Tags: []string{"first=" + f[1] + "/" + f[2], "second=" + f[4] + "/" + f[5], "pair=" + f[1] + ">" + f[4]}}
	if !okb {
		res.Tags = append(res.Tags, "timed-then-untimed")
	}
	ans := ""
	for _, l := range strings.Split(string(outb), "\n") {
		if strings.HasPrefix(l, "RESULT ") {
			ans = strings.TrimPrefix(l, "RESULT ")
		}
	}
	if err != nil || ans == "" {
		res.Out = "worker-failed"
		res.Fails = append(res.Fails, PropFail{Sig: "time-sequence/worker-failed", Msg: trunc(fmt.Sprintf("%v %s", err, stderr.String()), 400)})
		return res
	}
	res.Out = ans
	p := strings.Split(ans, " ; ")
	if len(p) == 2 {
		switch {
		case !okb && p[1] != "stored=arrival":
			sig := "time-sequence/" + f[4] + "-event-without-time-not-at-arrival-time"
			if oka && p[1] == fmt.Sprintf("stored=%d", wa) {
				sig = "time-sequence/" + f[4] + "-event-without-time-stored-at-an-earlier-events-time"
			}
			res.Fails = append(res.Fails, PropFail{Sig: sig, Msg: fmt.Sprintf("after an event carrying %d (%s/%s) in the same process, an event without a time (%s/%s) is %s", wa, f[1], f[2], f[4], f[5], p[1])})
		case okb && p[1] != fmt.Sprintf("stored=%d", wb):
			res.Fails = append(res.Fails, PropFail{Sig: "time-sequence/" + f[4] + "-event-time-altered-after-another-request", Msg: fmt.Sprintf("second event carried %d (%s/%s): %s", wb, f[4], f[5], p[1])})
		}
		if oka && p[0] != fmt.Sprintf("stored=%d", wa) {
			res.Fails = append(res.Fails, PropFail{Sig: "time-sequence/" + f[1] + "-first-event-time-altered", Msg: fmt.Sprintf("first event carried %d (%s/%s): %s", wa, f[1], f[2], p[0])})
		}
	}
	return res
}

// ---- worker side (same process as c16WorkerMain: op `tpq …`)

func c16SeqWorker(f []string) {
	dir := bootEngine()
	defer os.RemoveAll(dir)
	var mss [2]int64
	mss[0], _ = strconv.ParseInt(f[3], 10, 64)
	mss[1], _ = strconv.ParseInt(f[6], 10, 64)
	steps := [][]string{{"tp", f[1], f[2], f[3]}, {"tp", f[4], f[5], f[6]}}
	var idx [2]string
	var st [2]int
	var t0, t1 [2]int64
	for k, s := range steps {
		t0[k] = time.Now().UnixMilli()
		idx[k], st[k] = c16Post(s, mss[k])
		t1[k] = time.Now().UnixMilli()
		time.Sleep(3 * time.Millisecond)
	}
	z := time.Duration(0)
	writer.FlushWipBufferToFile(&z, &z)
	read := func(index string) ([]int64, string) {
		body := map[string]interface{}{
			"searchText": "*", "startEpoch": float64(1), "endEpoch": float64(99999999999999),
			"indexName": index, "queryLanguage": "Splunk QL", "size": float64(10), "from": float64(0),
		}
		resp, _, _, err := pipesearch.ParseAndExecutePipeRequest(body, uint64(2+len(index)), 0, time.Now(), "", nil)
		if err != nil || resp == nil {
			return nil, "queryerr"
		}
		b, _ := json.Marshal(resp.Hits.Hits)
		var recs []map[string]interface{}
		dec := json.NewDecoder(bytes.NewReader(b))
		dec.UseNumber()
		_ = dec.Decode(&recs)
		var tss []int64
		for _, r := range recs {
			ts, _ := r["timestamp"].(json.Number)
			v, perr := strconv.ParseUint(ts.String(), 10, 64)
			if perr != nil {
				return nil, fmt.Sprintf("notimestamp(%v)", r["timestamp"])
			}
			tss = append(tss, int64(v))
		}
		sort.Slice(tss, func(i, j int) bool { return tss[i] < tss[j] })
		return tss, ""
	}
	pool := map[string][]int64{}
	errs := map[string]string{}
	for k := range steps {
		if _, ok := pool[idx[k]]; !ok && st[k] < 300 {
			pool[idx[k]], errs[idx[k]] = read(idx[k])
		}
	}
	var ans [2]string
	take := func(index string, pred func(int64) bool) (int64, bool) {
		for i, v := range pool[index] {
			if pred(v) {
				pool[index] = append(append([]int64{}, pool[index][:i]...), pool[index][i+1:]...)
				return v, true
			}
		}
		return 0, false
	}
	// an event is matched with a stored record: first the one at the time it carried, then one at its arrival time, then any
	for pass := 0; pass < 3; pass++ {
		for k := range steps {
			if ans[k] != "" {
				continue
			}
			if st[k] >= 300 {
				ans[k] = "rejected"
				continue
			}
			if e := errs[idx[k]]; e != "" {
				ans[k] = e
				continue
			}
			want, ok := c16SeqWant(steps[k][2], mss[k])
			switch pass {
			case 0:
				if ok {
					if _, hit := take(idx[k], func(v int64) bool { return v == want }); hit {
						ans[k] = fmt.Sprintf("stored=%d", want)
					}
				}
			case 1:
				if _, hit := take(idx[k], func(v int64) bool { return v >= t0[k]-5 && v <= t1[k]+5 }); hit {
					ans[k] = "stored=arrival"
				}
			default:
				if v, hit := take(idx[k], func(int64) bool { return true }); hit {
					ans[k] = fmt.Sprintf("stored=%d", v)
				} else {
					ans[k] = "notfound(0)"
				}
			}
		}
	}
	fmt.Printf("RESULT %s ; %s\n", ans[0], ans[1])
}
