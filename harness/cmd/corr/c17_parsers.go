package main

import (
	"encoding/hex"
	"encoding/json"
	"fmt"
	"math/rand"
	"regexp"
	"strings"
	"time"

	"github.com/siglens/siglens/pkg/ast/pipesearch"
	"github.com/siglens/siglens/pkg/integrations/prometheus/promql"
)

// suite "parsers" (C17, EXPLORATION — this clause is not decided by proof): every query text is answered
// with a plan or an error, in bounded time, without a panic, and the same text yields the same plan.
//   parse <lang> <hex text>      lang ::= spl | sql | promql
// The Oracle answers "ok" (no model of the PEG parsers); findings are PropFails.

// relative time modifiers and the epoch numbers (s, ms, µs, ns) they resolve to
var relTimeRe = regexp.MustCompile(`(?i)(earliest|latest|starttime|endtime)\s*=\s*"?(now|[-+@])`)
var epochRe = regexp.MustCompile(`\b1[5-9]\d{8}(\d{3}){0,3}\b`)

func init() {
	register(&Suite{Name: "parsers", Gen: genParsers, Exec: execParsers,
		Rule: "query texts from grammar fragments (SPL commands, SQL, PromQL) with byte-level mutations (truncation, duplication, unbalanced quotes/parens, huge numbers, unicode); non-trivial = ≥ 8 bytes"})
}

var splFrags = []string{
	"*", "a=1", "a!=2", "a>1.5", "b=\"x y\"", "foo", "\"foo bar\"", "NOT a=1", "(a=1 OR b=2)", "a=1 AND b=*", "a=x*", "index=ind-0",
	"| stats count", "| stats count by a", "| stats sum(a), avg(b) by c, d", "| stats dc(a) as x", "| eval x=a+1", "| eval y=if(a>1,\"p\",\"q\")",
	"| eval z=len(b).\"s\"", "| where a>1", "| where isnull(a)", "| fields a, b", "| fields - a", "| rename a as b", "| head 5", "| head a>1 keeplast=true",
	"| tail 3", "| sort a", "| sort -a, +num(b)", "| sort str(a) limit=3", "| dedup a", "| dedup 2 a b keepempty=true consecutive=true", "| top 3 a", "| rare a by b",
	"| rex field=a \"(?<x>\\d+)\"", "| regex a=\"^x\"", "| bin a span=10", "| bin _time span=1h", "| timechart span=1m count by a", "| timechart avg(b)",
	"| streamstats count", "| streamstats window=3 sum(a) by b", "| fillnull value=0 a", "| makemv delim=\",\" a", "| mvexpand a", "| transaction a",
	"| earliest=-1h", "| stats values(a), list(b)", "| stats perc95(a), median(b)", "| eval t=strftime(_time, \"%H\")", "| tojson", "| inputlookup x.csv",
	"| append [ search a=1 ]", "| eval a=1/0", "| stats count(eval(a>1))", "| where like(a, \"x%\")", "| eval x=case(a>1,1,a<0,2)",
}
var sqlFrags = []string{"SELECT * FROM t", "SELECT a, b FROM t WHERE a = 1", "SELECT COUNT(*) FROM t GROUP BY a", "SELECT a AS x FROM `t` ORDER BY a DESC LIMIT 5", "SELECT MAX(a), MIN(b) FROM t WHERE b LIKE 'x%'", "SHOW COLUMNS IN t", "DESCRIBE t", "SELECT DISTINCT a FROM t"}
var promFrags = []string{"up", "m{a=\"b\"}", "m{a!=\"b\",c=~\"x.*\"}", "sum(m) by (a)", "avg without (a) (m)", "rate(m[5m])", "m + n", "m * on(a) n", "histogram_quantile(0.9, m)", "clamp(m, 1, 2)", "m offset 5m", "topk(3, m)", "count_values(\"v\", m)", "(m)", "-m", "m > bool 1", "label_replace(m, \"a\", \"$1\", \"b\", \"(.*)\")"}

func mutate(r *rand.Rand, s string) string {
	b := []byte(s)
	switch r.Intn(10) {
	case 0:
		if len(b) > 0 {
			b = b[:r.Intn(len(b))]
		}
	case 1:
		if len(b) > 0 {
			i := r.Intn(len(b))
			b = append(b[:i], append([]byte{"\"'()[]{}|\\=<>!*,;:%$#@&^~`?"[r.Intn(27)]}, b[i:]...)...)
		}
	case 2:
		if len(b) > 0 {
			i, j := r.Intn(len(b)), r.Intn(len(b))
			if i > j {
				i, j = j, i
			}
			b = append(b[:j], append(append([]byte{}, b[i:j]...), b[j:]...)...)
		}
	case 3:
		b = append(b, []byte(strings.Repeat("(", 1+r.Intn(40)))...)
	case 4:
		b = []byte(strings.Replace(s, "1", "99999999999999999999999999999999", 1))
	case 5:
		if len(b) > 0 {
			b[r.Intn(len(b))] = byte(r.Intn(256))
		}
	case 6:
		b = []byte(strings.Replace(s, "a", "日本語\u0000é", 1))
	}
	return string(b)
}

func genParsers(r *rand.Rand, n int, tier string) []string {
	var out []string
	for i := 0; i < n; i++ {
		var lang, text string
		switch r.Intn(6) {
		case 0:
			lang, text = "sql", sqlFrags[r.Intn(len(sqlFrags))]
		case 1:
			lang, text = "promql", promFrags[r.Intn(len(promFrags))]
			if r.Intn(3) == 0 {
				text = text + []string{" + ", " / ", " and ", " or ", " unless "}[r.Intn(5)] + promFrags[r.Intn(len(promFrags))]
			}
		default:
			lang = "spl"
			k := 1 + r.Intn(5)
			parts := []string{splFrags[r.Intn(12)]}
			for j := 1; j < k; j++ {
				parts = append(parts, splFrags[12+r.Intn(len(splFrags)-12)])
			}
			text = strings.Join(parts, " ")
		}
		if r.Intn(3) == 0 {
			text = mutate(r, text)
		}
		if r.Intn(40) == 0 {
			b := make([]byte, r.Intn(60))
			r.Read(b)
			text = string(b)
		}
		out = append(out, "parse "+lang+" "+hex.EncodeToString([]byte(text)))
	}
	return out
}

// wall-clock dependent fields ("now"-relative time ranges) are not part of the plan's identity
var nowFields = regexp.MustCompile(`"(StartEpochMs|EndEpochMs|StartEpochSec|EndEpochSec|startEpoch|endEpoch|EpochMs|Epoch|Timestamp)":\d+`)

var epochLike = regexp.MustCompile(`:1[5-9]\d{8}(\d{3})?\b`)

func parseOnce(lang, text string) (plan string, perr bool, panicked string) {
	defer func() {
		plan = nowFields.ReplaceAllString(plan, `"$1":0`)
		plan = epochLike.ReplaceAllString(plan, `:0`)
	}()
	defer func() {
		if rec := recover(); rec != nil {
			panicked = fmt.Sprint(rec)
		}
	}()
	switch lang {
	case "spl":
		node, aggs, idx, err := pipesearch.ParseRequest(text, 1, 1000, 1, "Splunk QL", "*")
		if err != nil {
			return "", true, ""
		}
		a, e1 := json.Marshal(node)
		b, e2 := json.Marshal(aggs)
		if e1 != nil || e2 != nil {
			return "unmarshalable", false, ""
		}
		return string(a) + string(b) + strings.Join(idx, ","), false, ""
	case "sql":
		node, aggs, idx, err := pipesearch.ParseRequest(text, 1, 1000, 1, "SQL", "*")
		if err != nil {
			return "", true, ""
		}
		a, e1 := json.Marshal(node)
		b, e2 := json.Marshal(aggs)
		if e1 != nil || e2 != nil {
			return "unmarshalable", false, ""
		}
		return string(a) + string(b) + strings.Join(idx, ","), false, ""
	case "promql":
		reqs, _, arith, err := promql.ConvertPromQLToMetricsQuery(text, 1700000000, 1700003600, 0)
		if err != nil {
			return "", true, ""
		}
		a, e1 := json.Marshal(reqs)
		b, e2 := json.Marshal(arith)
		if e1 != nil || e2 != nil {
			return "unmarshalable", false, ""
		}
		return string(a) + string(b), false, ""
	}
	return "", true, ""
}

func execParsers(line string) Result {
	f := strings.Fields(line)
	if len(f) == 2 && f[0] == "parse" {
		f = append(f, "")
	}
	if len(f) != 3 || f[0] != "parse" {
		return Result{Out: "bad-op"}
	}
	tb, err := hex.DecodeString(f[2])
	if err != nil {
		return Result{Out: "bad-op"}
	}
	text := string(tb)
	type outT struct {
		plan     string
		perr     bool
		panicked string
	}
	run := func() (outT, bool) {
		ch := make(chan outT, 1)
		go func() {
			p, e, pn := parseOnce(f[1], text)
			ch <- outT{p, e, pn}
		}()
		select {
		case o := <-ch:
			return o, true
		case <-time.After(10 * time.Second):
			return outT{}, false
		}
	}
	res := Result{Out: "ok", Nontrivial: len(text) >= 8}
	o1, ok1 := run()
	if !ok1 {
		res.Fails = append(res.Fails, PropFail{Sig: "parser/" + f[1] + "/no-answer-in-10s", Msg: "parser did not answer within 10 s for " + trunc(text, 120)})
		res.Tags = []string{"lang:" + f[1], "timeout"}
		return res
	}
	if o1.panicked != "" {
		res.Fails = append(res.Fails, PropFail{Sig: "parser/" + f[1] + "/panic", Msg: "parser panicked (" + trunc(o1.panicked, 120) + ") for " + trunc(text, 120)})
		res.Tags = []string{"lang:" + f[1], "panic"}
		return res
	}
	o2, ok2 := run()
	if ok2 && relTimeRe.MatchString(text) {
		// a time modifier relative to "now" (earliest=-1h, latest=now, @d snaps) is resolved against the clock while
		// parsing: the two parses happen at different instants, so the resolved epochs are not part of "the same plan"
		o1.plan = epochRe.ReplaceAllString(o1.plan, "<epoch>")
		o2.plan = epochRe.ReplaceAllString(o2.plan, "<epoch>")
	}
	if ok2 && o2.panicked == "" && (o1.perr != o2.perr || (o1.plan != o2.plan && o1.plan != "unmarshalable")) {
		res.Fails = append(res.Fails, PropFail{Sig: "parser/" + f[1] + "/plan-not-deterministic", Msg: "same text gave two different plans: " + trunc(text, 120)})
	}
	tag := "accepted"
	if o1.perr {
		tag = "rejected"
	}
	res.Tags = []string{"lang:" + f[1], tag}
	return res
}
