package main

import (
	"encoding/hex"
	"encoding/json"
	"fmt"
	"math/rand"
	"regexp"
	"strings"
	"time"

	"github.com/siglens/siglens/pkg/ast/pipesearch"
	"github.com/siglens/siglens/pkg/integrations/prometheus/promql"
)

// suite "parsers" (C17, EXPLORATION — this clause is not decided by proof): every query text is answered
// with a plan or an error, in bounded time, without a panic, and the same text yields the same plan.
//   parse <lang> <hex text>      lang ::= spl | sql | promql
// The Oracle answers "ok" (no model of the PEG parsers); findings are PropFails.

// relative time modifiers and the epoch numbers (s, ms, µs, ns) they resolve to
var relTimeRe = regexp.MustCompile(`(?i)(earliest|latest|starttime|endtime)\s*=\s*"?(now|[-+@])`)
var epochRe = regexp.MustCompile(`\b1[5-9]\d{8}(\d{3}){0,3}\b`)

func init() {
	register(&Suite{Name: "parsers", Gen: genParsers, Exec: execParsers,
		Rule: "query texts from grammar fragments (SPL commands, SQL, PromQL) with byte-level mutations (truncation, duplication, unbalanced quotes/parens, huge numbers, unicode); non-trivial = ≥ 8 bytes"})
}

var splFrags = []string{
	"*", "a=1", "a!=2", "a>1.5", "b=\"x y\"", "foo", "\"foo bar\"", "NOT a=1", "(a=1 OR b=2)", "a=1 AND b=*", "a=x*", "index=ind-0",
	"| stats count", "| stats count by a", "| stats sum(a), avg(b) by c, d", "| stats dc(a) as x", "| eval x=a+1", "| eval y=if(a>1,\"p\",\"q\")",
	"| eval z=len(b).\"s\"", "| where a>1", "| where isnull(a)", "| fields a, b", "| fields - a", "| rename a as b", "| head 5", "| head a>1 keeplast=true",
	"| tail 3", "| sort a", "| sort -a, +num(b)", "| sort str(a) limit=3", "| dedup a", "| dedup 2 a b keepempty=true consecutive=true", "| top 3 a", "| rare a by b",
	"| rex field=a \"(?<x>\\d+)\"", "| regex a=\"^x\"", "| bin a span=10", "| bin _time span=1h", "| timechart span=1m count by a", "| timechart avg(b)",
	"| streamstats count", "| streamstats window=3 sum(a) by b", "| fillnull value=0 a", "| makemv delim=\",\" a", "| mvexpand a", "| transaction a",
	"| earliest=-1h", "| stats values(a), list(b)", "| stats perc95(a), median(b)", "| eval t=strftime(_time, \"%H\")", "| tojson", "| inputlookup x.csv",
	"| append [ search a=1 ]", "| eval a=1/0", "| stats count(eval(a>1))", "| where like(a, \"x%\")", "| eval x=case(a>1,1,a<0,2)",
}
var sqlFrags = []string{"SELECT * FROM t", "SELECT a, b FROM t WHERE a = 1", "SELECT COUNT(*) FROM t GROUP BY a", "SELECT a AS x FROM `t` ORDER BY a DESC LIMIT 5", "SELECT MAX(a), MIN(b) FROM t WHERE b LIKE 'x%'", "SHOW COLUMNS IN t", "DESCRIBE t", "SELECT DISTINCT a FROM t"}
var promFrags = []string{"up", "m{a=\"b\"}", "m{a!=\"b\",c=~\"x.*\"}", "sum(m) by (a)", "avg without (a) (m)", "rate(m[5m])", "m + n", "m * on(a) n", "histogram_quantile(0.9, m)", "clamp(m, 1, 2)", "m offset 5m", "topk(3, m)", "count_values(\"v\", m)", "(m)", "-m", "m > bool 1", "label_replace(m, \"a\", \"$1\", \"b\", \"(.*)\")"}

// PromQL takes ANY number where a function has a numeric parameter (a quantile, a count k, a smoothing factor, a
// duration in seconds, a bound, a bucket width, a capture-group index, a subquery range / step, an offset, an @ time):
// every such parameter with values inside and outside its domain — negative, 0, 1, above 1, huge, NaN, ±Inf, a fraction
// where an integer is expected.  %v = a number, %d = a duration, %i = an integer spelling, %m = a vector selector.
var promNumVals = []string{"-1", "-0.5", "-0.0001", "-2", "-1e9", "-1e18", "-1e308", "0", "-0", "0.5", "1", "1.5", "2", "2.5", "3", "100", "1e3", "1e9", "1e18", "1e19", "1e308", "4294967296", "9223372036854775807", "9223372036854775808",
	"-9223372036854775809", "NaN", "-NaN", "Inf", "+Inf", "-Inf", "0x10", "1e-320", "0.9999999999999999", "1.0000000000000002"}
var promNumDurs = []string{"1ms", "1s", "10s", "15s", "1m", "2m", "5m", "10m", "1h", "1d", "1y", "200y", "0s", "0", "-1s", "-5m", "1e3", "1.5", "5m30s", "292y", "300y", "9223372036854775807s", "1s1ms", "1", "60", "0.5"}
var promNumInts = []string{"0", "1", "2", "9", "10", "99", "-1", "1.5", "99999999999999999999", "4294967296", "00", "+1", "-2", "-99", "{x}", "{1}", "{-1}", "{", "", "$", "name", "-"}

// what follows the `$` of a capture-group reference (label_replace): negative, zero, an existing group, a missing group, beyond
// int, a fraction, a name in braces, a number in braces, a negative number in braces, an open brace, nothing (the `$` ends
// the replacement), a second `$`, a name, a sign alone
var promNumRefClasses = []string{"-1", "0", "1", "2", "99", "99999999999999999999", "1.5", "{x}", "{1}", "{-1}", "{", "", "$", "name", "-", "+1"}
var promNumTmpls = []string{
	"quantile_over_time(%v, %m[%d])", "quantile_over_time(%v, %m[5m])", "quantile_over_time(%v, %m[2m])", "quantile_over_time(%v, %m[10m:%d])", "quantile_over_time(%v, rate(%m[1m])[5m:30s])",
	"quantile(%v, %m)", "quantile by (host) (%v, %m)", "quantile without (host) (%v, %m)", "quantile(%v, rate(%m[5m]))",
	"topk(%v, %m)", "bottomk(%v, %m)", "topk by (job) (%v, %m)", "bottomk(%v, rate(%m[5m]))", "limitk(%v, %m)", "limit_ratio(%v, %m)",
	"holt_winters(%m[5m], %v, %v)", "holt_winters(%m[%d], %v, 0.5)", "double_exponential_smoothing(%m[5m], %v, %v)", "predict_linear(%m[5m], %v)", "predict_linear(%m[%d], 60)",
	"clamp(%m, %v, %v)", "clamp_min(%m, %v)", "clamp_max(%m, %v)", "round(%m, %v)", "round(%m / 3, %v)",
	"histogram_quantile(%v, %m)", "histogram_quantile(%v, sum(rate(%m[5m])) by (le))", "histogram_quantile(%v, sum by (host, le) (%m))", "histogram_fraction(%v, %v, %m)",
	"label_replace(%m, \"dst\", \"$%i\", \"host\", \"(.*)\")", "label_replace(%m, \"dst\", \"${%i}x$%i\", \"host\", \"(h)(.*)\")", "label_replace(%m, \"dst\", \"$%i\", \"nolabel\", \"\")",
	"rate(%m[%d])", "increase(%m[%d])", "irate(%m[%d])", "delta(%m[%d])", "idelta(%m[%d])", "deriv(%m[%d])", "changes(%m[%d])", "resets(%m[%d])", "avg_over_time(%m[%d])", "stddev_over_time(%m[%d])", "last_over_time(%m[%d])", "absent_over_time(%m[%d])",
	"max_over_time(%m[%d:%d])", "min_over_time(%m[%d:])", "sum_over_time(rate(%m[%d])[%d:%d])", "count_over_time(%m[%d:%d] offset %d)",
	"%m offset %d", "sum(%m offset %d) by (host)", "rate(%m[5m] offset %d)", "%m @ %v", "rate(%m[5m] @ %v)", "%m @ start()", "%m @ end() offset %d",
	"%m * %v", "%m / %v", "%m % %v", "%m ^ %v", "%v ^ %m", "%v % %m", "%m > %v", "%m == bool %v", "%m atan2 %v", "vector(%v)", "vector(%v) + %m", "scalar(%m) * %v", "%v", "%v + %v", "%v / %v", "%v % %v", "-%v ^ %v",
	"quantile_over_time(scalar(%m), %m[5m])", "topk(scalar(%m), %m)", "clamp(%m, scalar(%m), %v)", "round(%m, scalar(%m) - %v)", "quantile(time() - %v, %m)",
	"sum(%m) by (host) > %v", "count_values(\"v\", round(%m, %v))", "sort_desc(topk(%v, %m))", "abs(%m - %v)", "exp(%m * %v)", "ln(%m - %v)", "sqrt(%m - %v)", "log2(%m * %v)", "ceil(%m / %v)", "sgn(%m - %v)",
	"hour(vector(%v))", "day_of_month(vector(%v))", "days_in_month(vector(%v))", "month(vector(%v))", "year(vector(%v))", "minute(%m * %v)", "timestamp(%m) - %v",
}

// the values outside the domain of most parameters: half of all picks
var promNumOut = []string{"-1", "-0.5", "-0.0001", "-2", "-1e9", "-1e308", "NaN", "-NaN", "Inf", "-Inf", "1e18", "1e308", "9223372036854775808", "1.5", "2"}

// one value per class of the domain question: negative fraction / integer / huge, zero, one, above one, a fraction where an
// integer is expected, huge, beyond int64, NaN, +Inf, -Inf
var promNumClasses = []string{"-0.5", "-1", "-1e308", "0", "1", "2", "1.5", "1e18", "9223372036854775808", "NaN", "Inf", "-Inf"}

// the functions whose numeric PARAMETER is taken from the query text (the others compute with the number)
var promNumPrimary = map[string]bool{"quantile_over_time": true, "quantile": true, "topk": true, "bottomk": true, "limitk": true, "limit_ratio": true, "holt_winters": true, "double_exponential_smoothing": true,
	"predict_linear": true, "label_replace": true, "clamp": true, "clamp_min": true, "clamp_max": true, "round": true, "histogram_quantile": true, "histogram_fraction": true, "vector": true, "at": true}

// promNumPlan: the first template of every function × promNumClasses, generated SYSTEMATICALLY before anything random:
// first the functions with a numeric parameter over each of the given selectors (a dense series, a metric with several
// series), then the remaining functions over the first selector.  Entries: template, value, selector.
func promNumPlan(r *rand.Rand, sels []string) [][3]string {
	seen := map[string]bool{}
	var prim, rest []string
	for _, t := range promNumTmpls {
		fn := promNumFn(t)
		if seen[fn] || !(strings.Contains(t, "%v") || strings.Contains(t, "%i")) || fn == "arith" {
			continue
		}
		seen[fn] = true
		if promNumPrimary[fn] {
			prim = append(prim, t)
		} else {
			rest = append(rest, t)
		}
	}
	var plan [][3]string
	add := func(ts []string, sel string) {
		var part [][3]string
		for _, t := range ts {
			classes := promNumClasses
			if !strings.Contains(t, "%v") { // a capture-group reference instead of a number
				classes = promNumRefClasses
			}
			for _, c := range classes {
				part = append(part, [3]string{t, c, sel})
			}
		}
		r.Shuffle(len(part), func(i, j int) { part[i], part[j] = part[j], part[i] })
		plan = append(plan, part...)
	}
	for _, sel := range sels {
		add(prim, sel)
	}
	if len(sels) > 0 {
		add(rest, sels[0])
	}
	return plan
}

// promNumFillClass: the first %v (else the first %i) of the template is the given value, the rest as in promNumFill
func promNumFillClass(r *rand.Rand, t, val string, sels []string) string {
	if !strings.Contains(t, "%v") {
		return promNumFill(r, strings.Replace(t, "%i", val, 1), sels)
	}
	return promNumFill(r, strings.Replace(t, "%v", val, 1), sels)
}

// promNumText: one template with its parameters filled (sels = the vector selectors to use)
func promNumText(r *rand.Rand, sels []string) string {
	return promNumFill(r, promNumTmpls[r.Intn(len(promNumTmpls))], sels)
}

// promNumFn: the function (or operator form) a template exercises — a distribution tag
func promNumFn(t string) string {
	for i := 0; i < len(t); i++ {
		c := t[i]
		if !(c == '_' || (c >= 'a' && c <= 'z') || (c >= '0' && c <= '9' && i > 0)) {
			if i > 0 && c == '(' {
				return t[:i]
			}
			break
		}
	}
	switch {
	case strings.Contains(t, " offset "):
		return "offset"
	case strings.Contains(t, " @ "):
		return "at"
	}
	return "arith"
}

func promNumFill(r *rand.Rand, t string, sels []string) string {
	var b strings.Builder
	for i := 0; i < len(t); i++ {
		if t[i] != '%' || i+1 == len(t) {
			b.WriteByte(t[i])
			continue
		}
		i++
		switch t[i] {
		case 'v':
			if r.Intn(2) == 0 {
				b.WriteString(promNumOut[r.Intn(len(promNumOut))])
			} else {
				b.WriteString(promNumVals[r.Intn(len(promNumVals))])
			}
		case 'd':
			b.WriteString(promNumDurs[r.Intn(len(promNumDurs))])
		case 'i':
			b.WriteString(promNumInts[r.Intn(len(promNumInts))])
		case 'm':
			b.WriteString(sels[r.Intn(len(sels))])
		default:
			b.WriteByte('%')
			b.WriteByte(t[i])
		}
	}
	return b.String()
}

func mutate(r *rand.Rand, s string) string {
	b := []byte(s)
	switch r.Intn(10) {
	case 0:
		if len(b) > 0 {
			b = b[:r.Intn(len(b))]
		}
	case 1:
		if len(b) > 0 {
			i := r.Intn(len(b))
			b = append(b[:i], append([]byte{"\"'()[]{}|\\=<>!*,;:%$#@&^~`?"[r.Intn(27)]}, b[i:]...)...)
		}
	case 2:
		if len(b) > 0 {
			i, j := r.Intn(len(b)), r.Intn(len(b))
			if i > j {
				i, j = j, i
			}
			b = append(b[:j], append(append([]byte{}, b[i:j]...), b[j:]...)...)
		}
	case 3:
		b = append(b, []byte(strings.Repeat("(", 1+r.Intn(40)))...)
	case 4:
		b = []byte(strings.Replace(s, "1", "99999999999999999999999999999999", 1))
	case 5:
		if len(b) > 0 {
			b[r.Intn(len(b))] = byte(r.Intn(256))
		}
	case 6:
		b = []byte(strings.Replace(s, "a", "日本語\u0000é", 1))
	}
	return string(b)
}

func genParsers(r *rand.Rand, n int, tier string) []string {
	var out []string
	for i := 0; i < n; i++ {
		var lang, text string
		switch r.Intn(6) {
		case 0:
			lang, text = "sql", sqlFrags[r.Intn(len(sqlFrags))]
		case 1:
			lang, text = "promql", promFrags[r.Intn(len(promFrags))]
			if r.Intn(2) == 0 {
				text = promNumText(r, []string{"m", "m{a=\"b\"}", "up"})
			} else if r.Intn(3) == 0 {
				text = text + []string{" + ", " / ", " and ", " or ", " unless "}[r.Intn(5)] + promFrags[r.Intn(len(promFrags))]
			}
		default:
			lang = "spl"
			k := 1 + r.Intn(5)
			parts := []string{splFrags[r.Intn(12)]}
			for j := 1; j < k; j++ {
				parts = append(parts, splFrags[12+r.Intn(len(splFrags)-12)])
			}
			text = strings.Join(parts, " ")
		}
		if r.Intn(3) == 0 {
			text = mutate(r, text)
		}
		if r.Intn(40) == 0 {
			b := make([]byte, r.Intn(60))
			r.Read(b)
			text = string(b)
		}
		out = append(out, "parse "+lang+" "+hex.EncodeToString([]byte(text)))
	}
	return out
}

// wall-clock dependent fields ("now"-relative time ranges) are not part of the plan's identity
var nowFields = regexp.MustCompile(`"(StartEpochMs|EndEpochMs|StartEpochSec|EndEpochSec|startEpoch|endEpoch|EpochMs|Epoch|Timestamp)":\d+`)

var epochLike = regexp.MustCompile(`:1[5-9]\d{8}(\d{3})?\b`)

func parseOnce(lang, text string) (plan string, perr bool, panicked string) {
	defer func() {
		plan = nowFields.ReplaceAllString(plan, `"$1":0`)
		plan = epochLike.ReplaceAllString(plan, `:0`)
	}()
	defer func() {
		if rec := recover(); rec != nil {
			panicked = fmt.Sprint(rec)
		}
	}()
	switch lang {
	case "spl":
		node, aggs, idx, err := pipesearch.ParseRequest(text, 1, 1000, 1, "Splunk QL", "*")
		if err != nil {
			return "", true, ""
		}
		a, e1 := json.Marshal(node)
		b, e2 := json.Marshal(aggs)
		if e1 != nil || e2 != nil {
			return "unmarshalable", false, ""
		}
		return string(a) + string(b) + strings.Join(idx, ","), false, ""
	case "sql":
		node, aggs, idx, err := pipesearch.ParseRequest(text, 1, 1000, 1, "SQL", "*")
		if err != nil {
			return "", true, ""
		}
		a, e1 := json.Marshal(node)
		b, e2 := json.Marshal(aggs)
		if e1 != nil || e2 != nil {
			return "unmarshalable", false, ""
		}
		return string(a) + string(b) + strings.Join(idx, ","), false, ""
	case "promql":
		reqs, _, arith, err := promql.ConvertPromQLToMetricsQuery(text, 1700000000, 1700003600, 0)
		if err != nil {
			return "", true, ""
		}
		a, e1 := json.Marshal(reqs)
		b, e2 := json.Marshal(arith)
		if e1 != nil || e2 != nil {
			return "unmarshalable", false, ""
		}
		return string(a) + string(b), false, ""
	}
	return "", true, ""
}

func execParsers(line string) Result {
	f := strings.Fields(line)
	if len(f) == 2 && f[0] == "parse" {
		f = append(f, "")
	}
	if len(f) != 3 || f[0] != "parse" {
		return Result{Out: "bad-op"}
	}
	tb, err := hex.DecodeString(f[2])
	if err != nil {
		return Result{Out: "bad-op"}
	}
	text := string(tb)
	type outT struct {
		plan     string
		perr     bool
		panicked string
	}
	run := func() (outT, bool) {
		ch := make(chan outT, 1)
		go func() {
			p, e, pn := parseOnce(f[1], text)
			ch <- outT{p, e, pn}
		}()
		select {
		case o := <-ch:
			return o, true
		case <-time.After(10 * time.Second):
			return outT{}, false
		}
	}
	res := Result{Out: "ok", Nontrivial: len(text) >= 8}
	o1, ok1 := run()
	if !ok1 {
		res.Fails = append(res.Fails, PropFail{Sig: "parser/" + f[1] + "/no-answer-in-10s", Msg: "parser did not answer within 10 s for " + trunc(text, 120)})
		res.Tags = []string{"lang:" + f[1], "timeout"}
		return res
	}
	if o1.panicked != "" {
		res.Fails = append(res.Fails, PropFail{Sig: "parser/" + f[1] + "/panic", Msg: "parser panicked (" + trunc(o1.panicked, 120) + ") for " + trunc(text, 120)})
		res.Tags = []string{"lang:" + f[1], "panic"}
		return res
	}
	o2, ok2 := run()
	if ok2 && relTimeRe.MatchString(text) {
		// a time modifier relative to "now" (earliest=-1h, latest=now, @d snaps) is resolved against the clock while
		// parsing: the two parses happen at different instants, so the resolved epochs are not part of "the same plan"
		o1.plan = epochRe.ReplaceAllString(o1.plan, "<epoch>")
		o2.plan = epochRe.ReplaceAllString(o2.plan, "<epoch>")
	}
	if ok2 && o2.panicked == "" && (o1.perr != o2.perr || (o1.plan != o2.plan && o1.plan != "unmarshalable")) {
		res.Fails = append(res.Fails, PropFail{Sig: "parser/" + f[1] + "/plan-not-deterministic", Msg: "same text gave two different plans: " + trunc(text, 120)})
	}
	tag := "accepted"
	if o1.perr {
		tag = "rejected"
	}
	res.Tags = []string{"lang:" + f[1], tag}
	return res
}
