package main

// C08, series identity: the input of the TSID hash (pkg/segment/writer/metrics/tagsholder.go GetTSID).
//
//	tsid <series> <series>      series = <hexname>{<hexkey>=<hexvalue>,…}   (tags in insertion order, distinct keys)
//	→ pre1=<hex of the hashed bytes> pre2=<hex> same=<0|1>
//
// Model: Spec/Metrics.lean tsidPreimage (theorem Props.C08.tsid_preimage_injective).  Property checked on the real
// code, independent of the model: two series that differ in the metric name or in the tag set must not hash the same
// bytes (tsid-preimage/collision), and one series must hash the same bytes whatever the order in which its tags were
// inserted (tsid-preimage/order-dependent).

import (
	"bytes"
	"encoding/hex"
	"fmt"
	"math/rand"
	"sort"
	"strings"

	"github.com/siglens/siglens/pkg/segment/writer/metrics"
)

func init() {
	register(&Suite{Name: "tsidpre", Gen: genTsidPre, Exec: execTsidPre,
		Rule: "pairs of series built from a small alphabet that contains the separator (`_`, `__`, letters, digits, empty strings, unicode): equal series in another tag order, pairs whose old-style concatenations coincide (value/next-key, name/key and key/value boundary shifts), one field changed, prefixes; names, keys and values up to 70 bytes plus a share of 300..70000-byte values; non-trivial = the two series differ"})
}

var tsidAtoms = []string{"_", "__", "a", "b", "ab", "x", "xa", "1", "", "z", "m", "ü", "___", "a__b", "__a", "b__"}

func tsidWord(r *rand.Rand) string {
	n := r.Intn(4)
	var sb strings.Builder
	for i := 0; i < n; i++ {
		sb.WriteString(tsidAtoms[r.Intn(len(tsidAtoms))])
	}
	if r.Intn(40) == 0 {
		sb.WriteString(strings.Repeat("w", 300+r.Intn(70000)))
	}
	return sb.String()
}

func tsidSeries(r *rand.Rand) mser {
	s := mser{name: tsidWord(r)}
	seen := map[string]bool{}
	for i := r.Intn(4); i > 0; i-- {
		k := tsidWord(r)
		if !seen[k] {
			seen[k] = true
			s.labels = append(s.labels, mkv{k: k, v: tsidWord(r)})
		}
	}
	return s
}

func tsidTok(s mser) string {
	var p []string
	for _, kv := range s.labels {
		p = append(p, hexs(kv.k)+"="+hexs(kv.v))
	}
	return hexs(s.name) + "{" + strings.Join(p, ",") + "}"
}

func genTsidPre(r *rand.Rand, n int, tier string) []string {
	var out []string
	for c := 0; c < n; c++ {
		a := tsidSeries(r)
		b := mser{name: a.name, labels: append([]mkv(nil), a.labels...)}
		switch r.Intn(8) {
		case 0: // same series, other insertion order
			r.Shuffle(len(b.labels), func(i, j int) { b.labels[i], b.labels[j] = b.labels[j], b.labels[i] })
		case 1: // value / next-key boundary shifted (the old collision): …v + k'… = …v' + k''…
			if len(b.labels) >= 2 {
				sort.Slice(b.labels, func(i, j int) bool { return b.labels[i].k > b.labels[j].k })
				i := r.Intn(len(b.labels) - 1)
				k := b.labels[i+1].k
				if len(k) > 1 {
					b.labels[i].v += k[:1]
					b.labels[i+1].k = k[1:]
				}
			}
		case 2: // name / first key boundary shifted through the separator: a{b__c} vs a__b{c}
			if len(b.labels) >= 1 {
				sort.Slice(b.labels, func(i, j int) bool { return b.labels[i].k > b.labels[j].k })
				b.name = b.name + "__" + "b"
				b.labels[0].k = strings.TrimPrefix(b.labels[0].k, "b__")
				a.labels = append([]mkv(nil), a.labels...)
			}
		case 3: // a tag folded into the previous value: {z=x,ab=1} vs {z=x__ab__1}
			if len(b.labels) >= 2 {
				sort.Slice(b.labels, func(i, j int) bool { return b.labels[i].k > b.labels[j].k })
				i := r.Intn(len(b.labels) - 1)
				b.labels[i].v += "__" + b.labels[i+1].k + "__" + b.labels[i+1].v
				b.labels = append(b.labels[:i+1], b.labels[i+2:]...)
			}
		case 4: // one field changed
			if len(b.labels) > 0 && r.Intn(2) == 0 {
				b.labels[r.Intn(len(b.labels))].v = tsidWord(r)
			} else {
				b.name = tsidWord(r)
			}
		case 5: // key / value boundary: {ab=c} vs {a=bc}
			if len(b.labels) > 0 {
				i := r.Intn(len(b.labels))
				if len(b.labels[i].k) > 1 {
					k := b.labels[i].k
					b.labels[i].k, b.labels[i].v = k[:len(k)-1], k[len(k)-1:]+b.labels[i].v
				}
			}
		case 6: // a tag dropped
			if len(b.labels) > 0 {
				i := r.Intn(len(b.labels))
				b.labels = append(b.labels[:i], b.labels[i+1:]...)
			}
		default:
			b = tsidSeries(r)
		}
		// distinct keys within b
		seen := map[string]bool{}
		var l []mkv
		for _, kv := range b.labels {
			if !seen[kv.k] {
				seen[kv.k] = true
				l = append(l, kv)
			}
		}
		b.labels = l
		out = append(out, "tsid "+tsidTok(a)+" "+tsidTok(b))
	}
	return out
}

func parseTsidSeries(tok string) (s mser, ok bool) {
	i := strings.Index(tok, "{")
	if i < 0 || !strings.HasSuffix(tok, "}") {
		return
	}
	nb, err := hex.DecodeString(tok[:i])
	if err != nil {
		return
	}
	s.name = string(nb)
	seen := map[string]bool{}
	if ls := tok[i+1 : len(tok)-1]; ls != "" {
		for _, kv := range strings.Split(ls, ",") {
			p := strings.Split(kv, "=")
			if len(p) != 2 {
				return
			}
			kb, e1 := hex.DecodeString(p[0])
			vb, e2 := hex.DecodeString(p[1])
			if e1 != nil || e2 != nil || seen[string(kb)] {
				return
			}
			seen[string(kb)] = true
			s.labels = append(s.labels, mkv{k: string(kb), v: string(vb)})
		}
	}
	return s, true
}

func tsidPre(s mser) (uint64, []byte, error) {
	var ks []string
	var vs [][]byte
	for _, kv := range s.labels {
		ks = append(ks, kv.k)
		vs = append(vs, []byte(kv.v))
	}
	return metrics.VerifTSIDPreimage([]byte(s.name), ks, vs)
}

func execTsidPre(line string) Result {
	f := strings.Fields(line)
	if len(f) != 3 || f[0] != "tsid" {
		return Result{Out: "bad-op"}
	}
	a, ok1 := parseTsidSeries(f[1])
	b, ok2 := parseTsidSeries(f[2])
	if !ok1 || !ok2 {
		return Result{Out: "bad-op"}
	}
	ta, pa, e1 := tsidPre(a)
	tb, pb, e2 := tsidPre(b)
	if e1 != nil || e2 != nil {
		return Result{Out: "err"}
	}
	same := a.name == b.name && canonLabels(a.labels) == canonLabels(b.labels)
	var fails []PropFail
	if !same && (bytes.Equal(pa, pb) || ta == tb) {
		fails = append(fails, PropFail{Sig: "tsid-preimage/collision", Msg: fmt.Sprintf("two different series get the TSID input %q (TSID %d and %d)", trunc(string(pa), 200), ta, tb)})
	}
	// the same series with its tags inserted in reverse order
	rev := mser{name: a.name}
	for i := len(a.labels) - 1; i >= 0; i-- {
		rev.labels = append(rev.labels, a.labels[i])
	}
	if tr, pr, e := tsidPre(rev); e != nil || tr != ta || !bytes.Equal(pr, pa) {
		fails = append(fails, PropFail{Sig: "tsid-preimage/order-dependent", Msg: "the TSID of a series depends on the order in which its tags were inserted"})
	}
	if same && ta != tb {
		fails = append(fails, PropFail{Sig: "tsid-preimage/order-dependent", Msg: "the same series in another tag order gets another TSID"})
	}
	s := "0"
	if same {
		s = "1"
	}
	return Result{Out: fmt.Sprintf("pre1=%s pre2=%s same=%s", hex.EncodeToString(pa), hex.EncodeToString(pb), s), Fails: fails, Nontrivial: !same,
		Tags: []string{fmt.Sprintf("tags=%d", len(a.labels)), "same=" + s}}
}
