package main

import (
	"encoding/hex"
	"fmt"
	"math"
	"math/big"
	"math/rand"
	"sort"
	"strconv"
	"strings"

	"github.com/siglens/siglens/pkg/segment/results/mresults"
	tsidtracker "github.com/siglens/siglens/pkg/segment/results/mresults/tsid"
	"github.com/siglens/siglens/pkg/segment/structs"
	sutils "github.com/siglens/siglens/pkg/segment/utils"
)

// suite "promql" (C09, results layer of metric queries):
//   gkey by|without <fields> <hex seriesId>
//   agg <fn> by|without <fields> step=<s> M=<hex name> S=<series>|<series>…
//   agg2 <fn1> by|without <fields1> <fn2> by|without <fields2> step=<s> M=<hex name> S=…   (second stage: ApplyAggregationToResults)
//   fields ::= - | <hex>,<hex>,…   series ::= <labels>@<pts>   labels ::= - | <hexk>=<hexv>,…   pts ::= - | <ts>:<int>,…
// Exec builds the series ids with the real tsidtracker, feeds the real mresults.Series / MetricsResult,
// runs DownsampleResults + AggregateResults (+ ApplyAggregationToResults) and prints Results canonically.

func init() {
	register(&Suite{Name: "promql", Gen: genC09, Exec: execC09,
		Rule: "1–6 series × 0–5 labels (label names suffix/prefix-related, values with , : { } = and embedded name: text), by/without/all/no labels, steps 1..300 with timestamps on and off the grid incl. several samples per bucket, integer values; sum/min/max/avg/count through tsidtracker.BulkAdd → Series.AddEntry → DownsampleResults → AggregateResults (→ ApplyAggregationToResults for nested aggregations); plus getAggSeriesId on arbitrary id strings; non-trivial = ≥ 2 series and ≥ 1 result point (agg) or a key different from the id (gkey)"})
}

type c09Series struct {
	labels [][2]string
	pts    [][2]int64
}

type c09Op struct {
	fn      string
	without bool
	fields  []string
	step    uint32
	name    string
	series  []c09Series
}

var c09Fns = map[string]sutils.AggregateFunctions{"sum": sutils.Sum, "min": sutils.Min, "max": sutils.Max, "avg": sutils.Avg, "count": sutils.Count}

const c09ValLimit = int64(1) << 40

func c09ParseFields(s string) ([]string, bool) {
	if s == "-" {
		return nil, true
	}
	var out []string
	for _, h := range strings.Split(s, ",") {
		b, err := c09Hex(h)
		if err != nil {
			return nil, false
		}
		out = append(out, b)
	}
	return out, true
}

// hex decoding that accepts what the Oracle accepts (even length, both cases)
func c09Hex(h string) (string, error) {
	b, err := hex.DecodeString(h)
	return string(b), err
}

func c09ParseUint(s string) (uint64, bool) {
	if s == "" {
		return 0, false
	}
	for _, c := range s {
		if c < '0' || c > '9' {
			return 0, false
		}
	}
	v, err := strconv.ParseUint(s, 10, 64)
	if err != nil {
		// more than 64 bits: certainly out of every accepted range
		return math.MaxUint64, true
	}
	return v, true
}

func c09ParseInt(s string) (int64, bool) {
	neg := strings.HasPrefix(s, "-")
	if neg {
		s = s[1:]
	}
	u, ok := c09ParseUint(s)
	if !ok {
		return 0, false
	}
	if u >= uint64(c09ValLimit) {
		return c09ValLimit, true // out of range marker
	}
	if neg {
		return -int64(u), true
	}
	return int64(u), true
}

func c09KV(key, s string) (string, bool) {
	i := strings.Index(s, "=")
	if i < 0 || s[:i] != key {
		return "", false
	}
	return s[i+1:], true
}

func c09ParseSeries(s string) (c09Series, bool) {
	var out c09Series
	parts := strings.Split(s, "@")
	if len(parts) != 2 {
		return out, false
	}
	if parts[0] != "-" {
		for _, kv := range strings.Split(parts[0], ",") {
			p := strings.Split(kv, "=")
			if len(p) != 2 {
				return out, false
			}
			k, e1 := c09Hex(p[0])
			v, e2 := c09Hex(p[1])
			if e1 != nil || e2 != nil {
				return out, false
			}
			out.labels = append(out.labels, [2]string{k, v})
		}
	}
	if parts[1] != "-" {
		for _, tv := range strings.Split(parts[1], ",") {
			p := strings.Split(tv, ":")
			if len(p) != 2 {
				return out, false
			}
			t, ok1 := c09ParseUint(p[0])
			v, ok2 := c09ParseInt(p[1])
			if !ok1 || !ok2 || t >= 1<<32 || v >= c09ValLimit || v <= -c09ValLimit {
				return out, false
			}
			out.pts = append(out.pts, [2]int64{int64(t), v})
		}
	}
	return out, true
}

func c09ParseAgg(f []string) (*c09Op, bool) {
	if len(f) != 7 {
		return nil, false
	}
	op := &c09Op{fn: f[1]}
	if _, ok := c09Fns[op.fn]; !ok {
		return nil, false
	}
	switch f[2] {
	case "by":
	case "without":
		op.without = true
	default:
		return nil, false
	}
	var ok bool
	if op.fields, ok = c09ParseFields(f[3]); !ok {
		return nil, false
	}
	st, ok := c09KV("step", f[4])
	if !ok {
		return nil, false
	}
	stv, ok := c09ParseUint(st)
	if !ok || stv == 0 || stv >= 1<<32 {
		return nil, false
	}
	op.step = uint32(stv)
	nm, ok := c09KV("M", f[5])
	if !ok {
		return nil, false
	}
	name, err := c09Hex(nm)
	if err != nil {
		return nil, false
	}
	op.name = name
	ss, ok := c09KV("S", f[6])
	if !ok {
		return nil, false
	}
	if ss != "-" {
		for _, s := range strings.Split(ss, "|") {
			ser, ok := c09ParseSeries(s)
			if !ok {
				return nil, false
			}
			op.series = append(op.series, ser)
		}
	}
	return op, true
}

// runs the real results layer; fn may differ from op.fn (the avg = sum/count clause re-runs the same data)
func c09Run(op *c09Op, fn string, parallelism int) (map[string]map[uint32]float64, error) {
	return c09Run2(op, fn, parallelism, nil)
}

// … and, when agg2 is given, ApplyAggregationToResults with it on the aggregated results
func c09Run2(op *c09Op, fn string, parallelism int, agg2 *structs.Aggregation) (map[string]map[uint32]float64, error) {
	agg := structs.Aggregation{AggregatorFunction: c09Fns[fn], GroupByFields: op.fields, Without: op.without}
	mq := &structs.MetricsQuery{
		MetricName:      op.name,
		FirstAggregator: agg,
		// parser.handleVectorSelector: the downsampler's aggregator is the innermost aggregation function
		Downsampler: structs.Downsampler{Interval: int(op.step), Unit: "s", Aggregator: structs.Aggregation{AggregatorFunction: c09Fns[fn], GroupByFields: op.fields}},
	}
	mres := mresults.InitMetricResults(mq, 0)
	for i, s := range op.series {
		tsid := uint64(i + 1)
		tr, err := tsidtracker.InitTSIDTracker(len(s.labels))
		if err != nil {
			return nil, err
		}
		if len(s.labels) == 0 {
			if err := tr.AddTSID(tsid, op.name, "", false); err != nil {
				return nil, err
			}
		}
		for j, kv := range s.labels {
			if err := tr.BulkAdd(map[string]map[uint64]struct{}{kv[1]: {tsid: {}}}, op.name, kv[0]); err != nil {
				return nil, err
			}
			if j == 0 {
				_ = tr.FinishBlock()
			}
		}
		buf := tr.GetAllTSIDs()[tsid]
		if buf == nil {
			return nil, fmt.Errorf("tsid lost")
		}
		ser := mresults.InitSeriesHolder(mq, buf)
		for _, p := range s.pts {
			ser.AddEntry(uint32(p[0]), float64(p[1]))
		}
		mres.AddSeries(ser, tsid, buf)
	}
	if errs := mres.DownsampleResults(mq.Downsampler, parallelism); len(errs) > 0 {
		return nil, errs[0]
	}
	mres.MetricName = op.name
	if errs := mres.AggregateResults(parallelism, agg); len(errs) > 0 {
		return nil, errs[0]
	}
	if agg2 != nil {
		if errs := mres.ApplyAggregationToResults(parallelism, *agg2); len(errs) > 0 {
			return nil, errs[0]
		}
	}
	return mres.Results, nil
}

func c09Rat(v float64) string {
	r := new(big.Rat).SetFloat64(v)
	if r == nil {
		return "nan"
	}
	return r.Num().String() + "/" + r.Denom().String()
}

// ---- the property, computed from the label SETS (no series-id strings involved)

func c09SpecKey(op *c09Op, s c09Series) string {
	var parts []string
	if op.without {
		drop := map[string]bool{}
		for _, f := range op.fields {
			drop[f] = true
		}
		for _, kv := range s.labels {
			if !drop[kv[0]] {
				parts = append(parts, strconv.Quote(kv[0])+"="+strconv.Quote(kv[1]))
			}
		}
		sort.Strings(parts)
	} else {
		seen := map[string]bool{}
		for _, f := range op.fields {
			if seen[f] {
				continue
			}
			seen[f] = true
			for _, kv := range s.labels {
				if kv[0] == f {
					parts = append(parts, strconv.Quote(kv[0])+"="+strconv.Quote(kv[1]))
				}
			}
		}
		sort.Strings(parts)
	}
	return strings.Join(parts, ",")
}

type c09Bucket struct {
	vals    []float64 // every sample of every member in the bucket
	members int       // member series with at least one sample in the bucket
	multi   bool      // some member has several samples in the bucket
}

func c09Expected(op *c09Op) map[string]map[uint32]*c09Bucket {
	exp := map[string]map[uint32]*c09Bucket{}
	for _, s := range op.series {
		k := c09SpecKey(op, s)
		per := map[uint32]int{}
		for _, p := range s.pts {
			t := uint32(p[0]) - uint32(p[0])%op.step
			if exp[k] == nil {
				exp[k] = map[uint32]*c09Bucket{}
			}
			b := exp[k][t]
			if b == nil {
				b = &c09Bucket{}
				exp[k][t] = b
			}
			b.vals = append(b.vals, float64(p[1]))
			per[t]++
			if per[t] == 1 {
				b.members++
			} else {
				b.multi = true
			}
		}
	}
	return exp
}

// value PromQL semantics demand for the bucket; ok=false where the statement leaves latitude
// (avg over buckets in which one series contributes several samples)
func c09Want(fn string, b *c09Bucket) (float64, bool) {
	switch fn {
	case "sum":
		s := 0.0
		for _, v := range b.vals {
			s += v
		}
		return s, true
	case "min":
		m := b.vals[0]
		for _, v := range b.vals {
			m = math.Min(m, v)
		}
		return m, true
	case "max":
		m := b.vals[0]
		for _, v := range b.vals {
			m = math.Max(m, v)
		}
		return m, true
	case "count":
		return float64(b.members), true
	case "avg":
		if b.multi {
			return 0, false
		}
		s := 0.0
		for _, v := range b.vals {
			s += v
		}
		return s / float64(len(b.vals)), true
	}
	return 0, false
}

func c09Close(a, b float64) bool {
	return math.Abs(a-b) <= 1e-9*math.Max(1, math.Max(math.Abs(a), math.Abs(b)))
}

func c09SeriesSig(ts map[uint32]string) string {
	keys := make([]int, 0, len(ts))
	for t := range ts {
		keys = append(keys, int(t))
	}
	sort.Ints(keys)
	var sb strings.Builder
	for _, t := range keys {
		fmt.Fprintf(&sb, "%d=%s;", t, ts[uint32(t)])
	}
	return sb.String()
}

// input-shape class used as the witness class of a deviation: exactly the complement of the model's
// LabelSafe guard (',' or '{' in the metric name, ',' in a label value, ',' ':' '{' in a label name; a '{' in a label
// value is inside the guard since the repair c09-14 of ExtractMetricNameFromGroupID)
func c09Shape(op *c09Op) string {
	for _, s := range op.series {
		for _, kv := range s.labels {
			if strings.ContainsAny(kv[1], ",") || strings.ContainsAny(kv[0], ",:{") {
				return "promql-group/value-contains-separator"
			}
		}
	}
	if strings.ContainsAny(op.name, ",{") {
		return "promql-group/value-contains-separator"
	}
	return ""
}

// distribution counters for the input shapes of the repaired defects (no longer witness classes)
func c09RepairedShapes(op *c09Op) []string {
	var tags []string
	if !op.without {
	outer:
		for _, s := range op.series {
			for _, kv := range s.labels {
				for _, f := range op.fields {
					if f != kv[0] && strings.HasSuffix(kv[0], f) {
						tags = append(tags, "shape-label-name-is-suffix-of-another")
						break outer
					}
				}
			}
		}
		if strings.Contains(op.name, ":") && len(op.fields) > 0 {
			tags = append(tags, "shape-metric-name-contains-colon")
		}
	}
	for _, s := range op.series {
		for _, kv := range s.labels {
			if strings.Contains(kv[1], "{") {
				tags = append(tags, "shape-brace-in-label-value")
				return tags
			}
		}
	}
	return tags
}

func c09HasDupLabelSets(op *c09Op) bool {
	seen := map[string]bool{}
	for _, s := range op.series {
		var parts []string
		for _, kv := range s.labels {
			parts = append(parts, strconv.Quote(kv[0])+"="+strconv.Quote(kv[1]))
		}
		sort.Strings(parts)
		k := strings.Join(parts, ",")
		if seen[k] {
			return true
		}
		seen[k] = true
	}
	return false
}

func execC09(line string) Result {
	f := strings.Fields(line)
	if len(f) == 0 {
		return Result{Out: "bad-op"}
	}
	switch f[0] {
	case "gkey":
		return execC09Gkey(f)
	case "agg":
		return execC09Agg(f)
	case "agg2":
		return execC09Agg2(f)
	}
	return Result{Out: "bad-op"}
}

func execC09Gkey(f []string) Result {
	if len(f) != 4 {
		return Result{Out: "bad-op"}
	}
	without := false
	switch f[1] {
	case "by":
	case "without":
		without = true
	default:
		return Result{Out: "bad-op"}
	}
	fields, ok := c09ParseFields(f[2])
	if !ok {
		return Result{Out: "bad-op"}
	}
	sid, err := c09Hex(f[3])
	if err != nil {
		return Result{Out: "bad-op"}
	}
	key := mresults.VerifGetAggSeriesId(sid, &structs.Aggregation{GroupByFields: fields, Without: without})
	tag := "gkey-by"
	if without {
		tag = "gkey-without"
	}
	return Result{Out: "k=" + hex.EncodeToString([]byte(key)), Nontrivial: key != sid, Tags: []string{tag}}
}

// agg2 <fn1> by|without <fields1> <fn2> by|without <fields2> step=<s> M=<hex> S=…   (model correspondence only)
func execC09Agg2(f []string) Result {
	if len(f) != 10 {
		return Result{Out: "bad-op", Tags: []string{"bad-op"}}
	}
	op, ok := c09ParseAgg(append([]string{"agg", f[1], f[2], f[3]}, f[7:]...))
	if !ok || op.fn == "avg" {
		return Result{Out: "bad-op", Tags: []string{"bad-op"}}
	}
	fn2, okf := c09Fns[f[4]]
	if !okf {
		return Result{Out: "bad-op", Tags: []string{"bad-op"}}
	}
	agg2 := &structs.Aggregation{AggregatorFunction: fn2}
	switch f[5] {
	case "by":
	case "without":
		agg2.Without = true
	default:
		return Result{Out: "bad-op", Tags: []string{"bad-op"}}
	}
	if agg2.GroupByFields, ok = c09ParseFields(f[6]); !ok {
		return Result{Out: "bad-op", Tags: []string{"bad-op"}}
	}
	got, err := c09Run2(op, op.fn, 1+len(op.series)%4, agg2)
	if err != nil {
		return Result{Out: "err", Tags: []string{"err"}, Fails: []PropFail{{Sig: "promql-agg/error", Msg: err.Error()}}}
	}
	var toks []string
	for g, ts := range got {
		for t, v := range ts {
			toks = append(toks, fmt.Sprintf("%s@%d=%s", hex.EncodeToString([]byte(g)), t, c09Rat(v)))
		}
	}
	sort.Strings(toks)
	return Result{Out: strings.Join(append([]string{"ok"}, toks...), " "), Nontrivial: len(op.series) >= 2 && len(toks) > 0,
		Tags: []string{"agg2", "agg2-" + op.fn + "-" + f[4]}}
}

func execC09Agg(f []string) Result {
	op, ok := c09ParseAgg(f)
	if !ok {
		return Result{Out: "bad-op", Tags: []string{"bad-op"}}
	}
	res := Result{}
	par := 1 + (len(op.series)+int(op.step))%4
	got, err := c09Run(op, op.fn, par)
	if err != nil {
		return Result{Out: "err", Tags: []string{"err"}, Fails: []PropFail{{Sig: "promql-agg/error", Msg: err.Error()}}}
	}
	var toks []string
	for g, ts := range got {
		for t, v := range ts {
			toks = append(toks, fmt.Sprintf("%s@%d=%s", hex.EncodeToString([]byte(g)), t, c09Rat(v)))
		}
	}
	sort.Strings(toks)
	res.Out = strings.Join(append([]string{"ok"}, toks...), " ")
	res.Nontrivial = len(op.series) >= 2 && len(toks) > 0

	mode := "by"
	if op.without {
		mode = "without"
	}
	res.Tags = append(res.Tags, "fn-"+op.fn, "mode-"+mode)
	shape := c09Shape(op)
	if shape == "" {
		res.Tags = append(res.Tags, "shape-safe")
	} else {
		res.Tags = append(res.Tags, "shape-"+strings.TrimPrefix(shape, "promql-group/"))
	}
	res.Tags = append(res.Tags, c09RepairedShapes(op)...)

	// ---------------- the property itself
	emptyVal := false
	for _, s := range op.series {
		for _, kv := range s.labels {
			if kv[1] == "" {
				emptyVal = true // PromQL: empty value = label absent; siglens cannot ingest this distinction — not judged
			}
		}
	}
	dup := c09HasDupLabelSets(op)
	if dup {
		res.Tags = append(res.Tags, "duplicate-label-sets")
	}
	if emptyVal {
		res.Tags = append(res.Tags, "empty-label-value")
		return res
	}
	if op.fn == "count" && len(op.fields) == 0 && !op.without && dup {
		// several series under one id (the ids carry only the labels of the query's filters; "*" for a regex on the metric
		// name): judged since patch c09-26 (they used to be counted once)
		res.Tags = append(res.Tags, "count-nofields-duplicates")
	}
	exp := c09Expected(op)
	multi := false
	// (a) every output series must be the aggregate of one PromQL group: compare the multisets of series
	wantSigs := map[string]int{}
	for _, buckets := range exp {
		m := map[uint32]string{}
		for t, b := range buckets {
			if b.multi {
				multi = true
			}
			if w, ok := c09Want(op.fn, b); ok {
				m[t] = strconv.FormatFloat(w, 'g', 12, 64)
			} else {
				m[t] = "*"
			}
		}
		wantSigs[c09SeriesSig(m)]++
	}
	if multi {
		res.Tags = append(res.Tags, "multi-sample-bucket")
	} else {
		res.Tags = append(res.Tags, "single-sample-buckets")
	}
	gotSigs := map[string]int{}
	for _, ts := range got {
		if len(ts) == 0 {
			continue
		}
		m := map[uint32]string{}
		for t, v := range ts {
			m[t] = strconv.FormatFloat(v, 'g', 12, 64)
		}
		gotSigs[c09SeriesSig(m)]++
	}
	if op.fn == "avg" && multi {
		// latitude: only the shape (which timestamps each group has) is compared
		strip := func(in map[string]int) map[string]int {
			out := map[string]int{}
			for k, n := range in {
				var sb strings.Builder
				for _, p := range strings.Split(k, ";") {
					if i := strings.Index(p, "="); i >= 0 {
						sb.WriteString(p[:i] + ";")
					}
				}
				out[sb.String()] += n
			}
			return out
		}
		wantSigs, gotSigs = strip(wantSigs), strip(gotSigs)
	}
	same := len(wantSigs) == len(gotSigs)
	if same {
		for k, n := range wantSigs {
			if gotSigs[k] != n {
				same = false
			}
		}
	}
	if !same {
		sig := shape
		if op.fn == "count" && op.without && len(op.fields) == 0 {
			sig = "promql-agg/count-without-empty-list"
		} else if sig == "" {
			sig = "promql-agg/" + op.fn
		}
		res.Fails = append(res.Fails, PropFail{Sig: sig, Msg: fmt.Sprintf("%s %s(%d fields): result series %v are not the per-group aggregates %v of the label sets (%d PromQL groups, %d output groups)", op.fn, mode, len(op.fields), c09Keys(gotSigs), c09Keys(wantSigs), c09Total(wantSigs), c09Total(gotSigs))})
		return res
	}
	// (b) avg = sum / count and min ≤ avg ≤ max, on the same data through the same code
	if op.fn == "avg" {
		sumR, e1 := c09Run(op, "sum", par)
		cntR, e2 := c09Run(op, "count", par)
		minR, e3 := c09Run(op, "min", par)
		maxR, e4 := c09Run(op, "max", par)
		if e1 != nil || e2 != nil || e3 != nil || e4 != nil {
			res.Fails = append(res.Fails, PropFail{Sig: "promql-agg/error", Msg: "sum/count/min/max failed where avg succeeded"})
			return res
		}
		for g, ts := range got {
			for t, a := range ts {
				mn, okMin := minR[g][t]
				mx, okMax := maxR[g][t]
				if !okMin || !okMax || a < mn-1e-9*math.Max(1, math.Abs(mn)) || a > mx+1e-9*math.Max(1, math.Abs(mx)) {
					sig := shape
					if sig == "" {
						sig = "promql-agg/min-avg-max"
					}
					res.Fails = append(res.Fails, PropFail{Sig: sig, Msg: fmt.Sprintf("group %q ts %d: avg %v outside [min %v, max %v]", g, t, a, mn, mx)})
					return res
				}
				s, okS := sumR[g][t]
				c, okC := cntR[g][t]
				if okS && okC && c09Close(a*c, s) {
					continue
				}
				// the grouping was right (check (a)); what is left is the value path
				var sig string
				switch {
				case op.without && len(op.fields) == 0:
					// count without () is one series name{ with the total (distinct ids), avg/sum without () are per series
					sig = "promql-agg/count-without-empty-list"
				case (!okS || !okC) && shape != "":
					// sum/count filed their value under another key string (e.g. a '{' inside the metric name)
					sig = shape
				case multi:
					sig = "promql-agg/avg-ne-sum-div-count/several-samples-per-bucket"
				default:
					sig = "promql-agg/avg"
				}
				res.Fails = append(res.Fails, PropFail{Sig: sig, Msg: fmt.Sprintf("group %q ts %d: avg=%v but sum=%v (present %v) count=%v (present %v)", g, t, a, s, okS, c, okC)})
				return res
			}
		}
	}
	return res
}

func c09Total(m map[string]int) int {
	n := 0
	for _, c := range m {
		n += c
	}
	return n
}

func c09Keys(m map[string]int) []string {
	var out []string
	for k, n := range m {
		out = append(out, fmt.Sprintf("%s×%d", k, n))
	}
	sort.Strings(out)
	if len(out) > 6 {
		out = out[:6]
	}
	return out
}

// ---------------------------------------------------------------- generator

var c09SafeNames = []string{"job", "instance", "le", "zone", "pod", "env"}
var c09TrickyNames = []string{"a", "ba", "job", "myjob", "b", "ab", "cba", "x_a", "instance"}
var c09SafeVals = []string{"1", "2", "x", "y", "api", "10", "eu-west", "h1", "p=q", "}", "é"}
var c09TrickyVals = []string{"1", "a:1", "1,b:2", "v{w", "p=q", "}", "b:", "job:x", ",", "x,a:9,", "h:9090", "2", ":"}
var c09Metrics = []string{"m", "cpu_usage", "a", "http_requests_total"}
var c09TrickyMetrics = []string{"job:req:rate5m", "a:b", "m{x", "m,n"}

func c09HexFields(fs []string) string {
	if len(fs) == 0 {
		return "-"
	}
	var out []string
	for _, f := range fs {
		out = append(out, hex.EncodeToString([]byte(f)))
	}
	return strings.Join(out, ",")
}

func c09Pick(r *rand.Rand, pool []string) string { return pool[r.Intn(len(pool))] }

func genC09(r *rand.Rand, n int, tier string) []string {
	var out []string
	fns := []string{"sum", "min", "max", "avg", "count"}
	for i := 0; i < n; i++ {
		if r.Intn(40) == 0 { // malformed share
			bad := []string{
				"agg sum by - step=0 M=6d S=-",
				"agg sum by - step=10 M=6d",
				"agg med by - step=10 M=6d S=-",
				"agg sum along - step=10 M=6d S=-",
				"agg sum by zz step=10 M=6d S=-",
				"agg sum by - step=10 M=6d S=61=31@4294967296:1",
				"agg sum by - step=10 M=6d S=61=31@5:1099511627776",
				"agg sum by - step=10 M=6d S=61@5:1",
				"agg sum by - step=x M=6d S=-",
				"agg sum by - step=4294967296 M=6d S=-",
				"gkey by -",
				"gkey with - 6d7b",
				"gkey by 6 6d7b",
				"agg",
				"agg2 avg by - sum by - step=10 M=6d S=-@5:1",
				"agg2 sum by - med by - step=10 M=6d S=-@5:1",
				"agg2 sum by - sum by - step=10 M=6d",
				"promql",
			}
			out = append(out, bad[r.Intn(len(bad))])
			continue
		}
		names, vals, metrics := c09SafeNames, c09SafeVals, c09Metrics
		colonClass := false
		switch c := r.Intn(100); {
		case c < 60: // nothing a string-based group key could trip over
		case c < 72: // label names that are suffixes/prefixes of each other
			names = c09TrickyNames
		case c < 84: // separators inside values
			vals = c09TrickyVals
		case c < 90: // recording-rule style metric names
			metrics = c09TrickyMetrics[:2]
			colonClass = true
		default:
			names, vals = c09TrickyNames, c09TrickyVals
			if r.Intn(3) == 0 {
				metrics = c09TrickyMetrics
			}
		}
		// the label-name order of the query (series ids are built in tag-filter order)
		nk := r.Intn(6)
		perm := r.Perm(len(names))
		var keys []string
		for j := 0; j < nk && j < len(perm); j++ {
			keys = append(keys, names[perm[j]])
		}
		name := c09Pick(r, metrics)
		without := r.Intn(2) == 0
		if colonClass && r.Intn(2) == 0 { // `by (job)` on job:req:rate5m{…,job:…}
			name, without = c09TrickyMetrics[0], false
			hasJob := false
			for _, k := range keys {
				hasJob = hasJob || k == "job"
			}
			if !hasJob {
				keys = append(keys, "job")
			}
		}
		var fields []string
		switch r.Intn(6) {
		case 0: // no labels
		case 1: // all labels
			fields = append(fields, keys...)
		case 2: // all labels, other order
			for _, j := range r.Perm(len(keys)) {
				fields = append(fields, keys[j])
			}
		default:
			for _, k := range keys {
				if r.Intn(2) == 0 {
					fields = append(fields, k)
				}
			}
			if r.Intn(5) == 0 {
				fields = append(fields, c09Pick(r, names)) // possibly absent everywhere, possibly a duplicate
			}
		}
		if r.Intn(3) == 0 { // gkey on its own
			var sid string
			switch r.Intn(4) {
			case 0: // arbitrary bytes over the separator alphabet
				alpha := "ab:,{j"
				l := 1 + r.Intn(12)
				b := make([]byte, l)
				for j := range b {
					b[j] = alpha[r.Intn(len(alpha))]
				}
				sid = string(b)
			case 1: // shape of a first-stage `by` key (no trailing comma)
				var parts []string
				for _, k := range keys {
					parts = append(parts, k+":"+c09Pick(r, vals))
				}
				sid = name + "{" + strings.Join(parts, ",")
			default:
				sid = name + "{"
				for _, k := range keys {
					if r.Intn(7) != 0 {
						sid += k + ":" + c09Pick(r, vals) + ","
					}
				}
			}
			mode := "by"
			if without {
				mode = "without"
			}
			out = append(out, fmt.Sprintf("gkey %s %s %s", mode, c09HexFields(fields), hex.EncodeToString([]byte(sid))))
			continue
		}
		fn := fns[r.Intn(len(fns))]
		steps := []uint32{1, 5, 10, 60, 300}
		step := steps[r.Intn(len(steps))]
		var base uint32
		switch r.Intn(8) {
		case 0:
			base = 0
		case 1:
			base = (math.MaxUint32/step - 8) * step
		default:
			base = uint32(r.Intn(1<<30)) / step * step
		}
		multi := r.Intn(100) < 30
		ns := 1 + r.Intn(6)
		if r.Intn(50) == 0 {
			ns = 0
		}
		var series []string
		var prevLabels []string
		for s := 0; s < ns; s++ {
			var lab []string
			for _, k := range keys {
				if r.Intn(7) != 0 {
					v := c09Pick(r, vals)
					if r.Intn(3) != 0 {
						v = vals[r.Intn(3)] // few distinct values → groups with several members
					}
					lab = append(lab, hex.EncodeToString([]byte(k))+"="+hex.EncodeToString([]byte(v)))
				}
			}
			ls := strings.Join(lab, ",")
			if len(lab) == 0 {
				ls = "-"
			}
			if len(prevLabels) > 0 && r.Intn(10) == 0 {
				ls = prevLabels[r.Intn(len(prevLabels))] // same label set again (second tsid under the same id)
			}
			prevLabels = append(prevLabels, ls)
			np := 1 + r.Intn(5)
			if r.Intn(25) == 0 {
				np = 0
			}
			var pts []string
			used := map[uint32]bool{}
			for p := 0; p < np; p++ {
				slot := uint32(r.Intn(4))
				if !multi {
					for used[slot] {
						slot = (slot + 1) % 8
					}
					used[slot] = true
				}
				off := uint32(0)
				if step > 1 && r.Intn(2) == 0 {
					off = uint32(r.Intn(int(step)))
					if r.Intn(4) == 0 {
						off = step - 1
					}
				}
				ts := uint64(base) + uint64(slot)*uint64(step) + uint64(off)
				if ts > math.MaxUint32 {
					ts = math.MaxUint32
				}
				var v int64
				switch r.Intn(10) {
				case 0:
					v = int64(r.Intn(1<<38)) * int64(1-2*r.Intn(2))
				case 1:
					v = 0
				default:
					v = int64(r.Intn(41) - 20)
				}
				pts = append(pts, fmt.Sprintf("%d:%d", ts, v))
			}
			ps := strings.Join(pts, ",")
			if len(pts) == 0 {
				ps = "-"
			}
			series = append(series, ls+"@"+ps)
		}
		ss := strings.Join(series, "|")
		if len(series) == 0 {
			ss = "-"
		}
		mode := "by"
		if without {
			mode = "without"
		}
		if fn != "avg" && r.Intn(6) == 0 { // nested aggregation: fn2 by|without (subset) (fn by|without (fields) (…))
			var f2 []string
			for _, k := range keys {
				if r.Intn(3) == 0 {
					f2 = append(f2, k)
				}
			}
			mode2 := "by"
			if r.Intn(3) == 0 {
				mode2 = "without"
			}
			out = append(out, fmt.Sprintf("agg2 %s %s %s %s %s %s step=%d M=%s S=%s", fn, mode, c09HexFields(fields), fns[r.Intn(len(fns))], mode2, c09HexFields(f2), step, hex.EncodeToString([]byte(name)), ss))
			continue
		}
		out = append(out, fmt.Sprintf("agg %s %s %s step=%d M=%s S=%s", fn, mode, c09HexFields(fields), step, hex.EncodeToString([]byte(name)), ss))
	}
	return out
}
