package main

// suite "cmpk" (C02 kernel): the typed comparison of a stored column value with a query literal.
// Op lines (answer formats: lean/Oracle/C02K.lean):
//
//	cmp  <ci> <rec> <op> <lit>            real writer.ApplySearchToExpressionFilterSimpleCsg on the record bytes the real
//	                                      writer produces for the value and the enclosure the real CreateDtypeEnclosure builds
//	wcmp <rec> <op> <text>                real `where c<op><text>` (SPL parser → BoolExpr.Evaluate) on writer.GetCvalFromRec(record)
//	rcmp <s|u|f> <min> <max> <op> <text>  real metautils.CheckRangeIndex on that range entry
//	lit  <text>                           real CreateDtypeEnclosure(json.Number(text)): dtype, SignedVal, UnsignedVal, FloatVal
//
// Independent of the model, every `cmp` line with a numeric literal also checks the PROPERTY on the real code:
// (1) the search-clause answer equals the comparison BY VALUE (exact big.Rat arithmetic: an integer literal
// denotes its integer, any other literal the float64 it parses to; integers and float64 records denote their exact
// values, a stored string in number syntax the float64 it reads as; a record that is not a number satisfies only !=);
// (2) the block range index the real writer built for
// the value does not skip the block when the value satisfies the comparison; (3) the where stage gives the same
// answer as the search clause on numeric fields.

import (
	"encoding/hex"
	"encoding/json"
	"fmt"
	"math"
	"math/big"
	"math/rand"
	"regexp"
	"strconv"
	"strings"

	"github.com/siglens/siglens/pkg/ast/pipesearch"
	"github.com/siglens/siglens/pkg/segment/query/metadata/metautils"
	"github.com/siglens/siglens/pkg/segment/structs"
	sutils "github.com/siglens/siglens/pkg/segment/utils"
	"github.com/siglens/siglens/pkg/segment/writer"
)

func init() {
	register(&Suite{Name: "cmpk", Gen: genCmpk, Exec: execCmpk,
		Rule: "every (stored type int64/uint64/float64/numeric string/text/bool/null × literal spelling 2 / -3 / zero forms / 2.0 / 2.50 / 1e3 / +2 / around 2^53 / around 2^63 and 2^64 × operator) cell at least 20 times (cell histogram in the tags): stored values equal to, next to, within and just outside the 1e-4 tolerance of the literal, at the int64/uint64/2^53 boundaries; string and bool literals with case variants; raw records of the narrow kinds and truncated records; range entries of all three types around the literal; where-stage comparisons for every spelling the SPL grammar accepts; malformed lines; non-trivial = numeric literal against a numeric or numeric-looking stored value"})
}

var cmpkOps = []string{"=", "!=", "<", "<=", ">", ">="}

func cmpkFop(op string) (sutils.FilterOperator, bool) {
	switch op {
	case "=":
		return sutils.Equals, true
	case "!=":
		return sutils.NotEquals, true
	case "<":
		return sutils.LessThan, true
	case "<=":
		return sutils.LessThanOrEqualTo, true
	case ">":
		return sutils.GreaterThan, true
	case ">=":
		return sutils.GreaterThanOrEqualTo, true
	}
	return 0, false
}

var cmpkTextRe = regexp.MustCompile(`^[+-]?([0-9]+(\.[0-9]*)?|\.[0-9]+)([eE][+-]?[0-9]{1,3})?$`)
var cmpkSplRe = regexp.MustCompile(`^[+-]?([0-9]+|[0-9]*\.[0-9]+)$`) // spl.peg: FloatAsString / IntegerAsString

// a string in number syntax (what utils.FastParseFloat accepts)
var cmpkNumStrRe = regexp.MustCompile(`^[+-]?([0-9]+(\.[0-9]*)?|\.[0-9]+)([eE][+-]?[0-9]+)?$`)
var cmpkIntTextRe = regexp.MustCompile(`^[+-]?[0-9]+$`)

// the number texts both sides accept (same limits as Oracle.C02K.parseText)
func cmpkTextOK(t string) bool {
	if !cmpkTextRe.MatchString(t) {
		return false
	}
	mant := t
	exp := 0
	if i := strings.IndexAny(t, "eE"); i >= 0 {
		mant = t[:i]
		e, err := strconv.Atoi(strings.TrimPrefix(t[i+1:], "+"))
		if err != nil {
			return false
		}
		exp = e
	}
	digits := 0
	for _, c := range mant {
		if c >= '0' && c <= '9' {
			digits++
		}
	}
	return digits <= 40 && exp <= 40 && exp >= -40
}

type cmpkRec struct {
	tok    string
	kind   byte // i u f s b n x
	i      int64
	u      uint64
	f      float64
	s      []byte
	b      bool
	bytes  []byte
	ranges map[string]*structs.Numbers
}

var cmpkRecCache = map[string]*cmpkRec{}

func cmpkIsPlainNat(s string) bool {
	if s == "" {
		return false
	}
	for _, c := range s {
		if c < '0' || c > '9' {
			return false
		}
	}
	return true
}

// stored-value token → record bytes produced by the REAL writer path (parseSingle* → AddEntry → doLogEventFilling)
func cmpkParseRec(tok string) (*cmpkRec, bool) {
	if r, ok := cmpkRecCache[tok]; ok {
		return r, true
	}
	r := &cmpkRec{tok: tok}
	var vv writer.VerifVal
	switch {
	case tok == "n":
		r.kind = 'n'
		vv = writer.VerifVal{Kind: 'z'}
	case len(tok) < 2 || tok[1] != ':':
		return nil, false
	default:
		body := tok[2:]
		switch tok[0] {
		case 'i':
			neg := strings.HasPrefix(body, "-")
			if !cmpkIsPlainNat(strings.TrimPrefix(body, "-")) {
				return nil, false
			}
			i, err := strconv.ParseInt(body, 10, 64)
			if err != nil {
				return nil, false
			}
			_ = neg
			r.kind, r.i = 'i', i
			vv = writer.VerifVal{Kind: 'i', I: i}
		case 'u':
			if !cmpkIsPlainNat(body) {
				return nil, false
			}
			u, err := strconv.ParseUint(body, 10, 64)
			if err != nil {
				return nil, false
			}
			r.kind, r.u = 'u', u
			vv = writer.VerifVal{Kind: 'u', U: u}
		case 'f':
			if len(body) != 16 {
				return nil, false
			}
			u, err := strconv.ParseUint(body, 16, 64)
			if err != nil {
				return nil, false
			}
			f := math.Float64frombits(u)
			if math.IsNaN(f) || math.IsInf(f, 0) {
				return nil, false
			}
			r.kind, r.f = 'f', f
			vv = writer.VerifVal{Kind: 'f', F: f}
		case 's':
			b, err := hex.DecodeString(body)
			if err != nil || len(b) >= 65536 {
				return nil, false
			}
			if cmpkNumStrRe.Match(b) && !cmpkTextOK(string(b)) {
				return nil, false // number syntax beyond the modelled limits (same as for literal texts)
			}
			r.kind, r.s = 's', b
			vv = writer.VerifVal{Kind: 's', Str: b}
		case 'b':
			if body != "0" && body != "1" {
				return nil, false
			}
			r.kind, r.b = 'b', body == "1"
			vv = writer.VerifVal{Kind: 'b', Bool: r.b}
		case 'x':
			b, err := hex.DecodeString(body)
			if err != nil {
				return nil, false
			}
			r.kind = 'x'
			r.bytes = exactCap(b)
			cmpkRecCache[tok] = r
			return r, true
		default:
			return nil, false
		}
	}
	tlvInit()
	ss, err := writer.VerifFillColumn("cmpk-seg", []writer.VerifVal{vv}, []uint64{1700000000000}, "timestamp")
	if err != nil {
		panic(err)
	}
	col, ok := ss.VerifColBytes(writer.VerifColName)
	if !ok {
		panic("cmpk: the writer produced no column")
	}
	r.bytes = exactCap(col)
	r.ranges = ss.VerifRangeIndex(writer.VerifColName)
	if len(cmpkRecCache) < 200000 {
		cmpkRecCache[tok] = r
	}
	return r, true
}

type cmpkLit struct {
	kind byte // n s b z
	text string
	dte  *sutils.DtypeEnclosure
}

func cmpkParseLit(tok string) (*cmpkLit, bool) {
	l := &cmpkLit{}
	var err error
	switch {
	case tok == "nil":
		l.kind = 'z'
		l.dte, err = sutils.CreateDtypeEnclosure(nil, 0)
	case strings.HasPrefix(tok, "n:"):
		l.kind, l.text = 'n', tok[2:]
		if !cmpkTextOK(l.text) {
			return nil, false
		}
		l.dte, err = sutils.CreateDtypeEnclosure(json.Number(l.text), 0)
	case strings.HasPrefix(tok, "s:"):
		b, e := hex.DecodeString(tok[2:])
		if e != nil || strings.Contains(string(b), "*") {
			return nil, false
		}
		l.kind, l.text = 's', string(b)
		l.dte, err = sutils.CreateDtypeEnclosure(string(b), 0)
		if err == nil {
			l.dte.AddStringAsByteSlice()
		}
	case tok == "b:0" || tok == "b:1":
		l.kind = 'b'
		l.dte, err = sutils.CreateDtypeEnclosure(tok == "b:1", 0)
	default:
		return nil, false
	}
	if err != nil || l.dte == nil {
		panic(fmt.Sprintf("cmpk: CreateDtypeEnclosure(%q): %v", tok, err))
	}
	return l, true
}

func cmpkErrName(err error) string {
	m := err.Error()
	switch {
	case strings.Contains(m, "invalid rec type"):
		return "invalid-rec-type"
	case strings.Contains(m, "invalid rec"):
		return "invalid-rec"
	case strings.Contains(m, "operator"):
		return "invalid-operator"
	case strings.Contains(m, "expected bool"):
		return "expected-bool"
	case strings.Contains(m, "could not complete"):
		return "could-not-complete-op"
	}
	return "other:" + trunc(m, 60)
}

// the real search-clause comparison
func cmpkSearch(l *cmpkLit, fop sutils.FilterOperator, rec []byte, ci bool, catch bool) (out string, res bool, ok bool) {
	if catch {
		defer func() {
			if r := recover(); r != nil {
				out, res, ok = "panic", false, false
			}
		}()
	}
	var holder sutils.DtypeEnclosure
	b, err := writer.ApplySearchToExpressionFilterSimpleCsg(l.dte, fop, rec, false, &holder, ci)
	if err != nil {
		return "err " + cmpkErrName(err), false, false
	}
	return fmt.Sprintf("ok %v", b), b, true
}

type cmpkWhereEntry struct {
	w   *structs.BoolExpr
	err error
}

var cmpkWhereCache = map[string]cmpkWhereEntry{}

// the real where-stage comparison: SPL parser → BoolExpr, the record through GetCvalFromRec
func cmpkWhere(r *cmpkRec, op, text string) (out string, res bool, ok bool) {
	key := op + " " + text
	e, have := cmpkWhereCache[key]
	if !have {
		_, aggs, _, err := pipesearch.ParseRequest("* | where "+writer.VerifColName+op+text, 1, 1000, 1, "Splunk QL", "*")
		if err == nil && (aggs == nil || aggs.WhereExpr == nil) {
			err = fmt.Errorf("no where expression")
		}
		if err == nil {
			e = cmpkWhereEntry{w: aggs.WhereExpr}
		} else {
			e = cmpkWhereEntry{err: err}
		}
		if len(cmpkWhereCache) < 200000 {
			cmpkWhereCache[key] = e
		}
	}
	if e.err != nil {
		return "parse-error", false, false
	}
	var cv sutils.CValueEnclosure
	if _, err := writer.GetCvalFromRec(r.bytes, 0, &cv); err != nil {
		return "err", false, false
	}
	b, err := e.w.Evaluate(map[string]sutils.CValueEnclosure{writer.VerifColName: cv})
	if err != nil {
		return "err", false, false
	}
	return fmt.Sprintf("ok %v", b), b, true
}

// ---- values (exact)

var cmpkTwo53 = new(big.Rat).SetInt(new(big.Int).Lsh(big.NewInt(1), 53))
var cmpkTwo63 = new(big.Rat).SetInt(new(big.Int).Lsh(big.NewInt(1), 63))
var cmpkTwo64 = new(big.Rat).SetInt(new(big.Int).Lsh(big.NewInt(1), 64))

func cmpkAbs(x *big.Rat) *big.Rat { return new(big.Rat).Abs(x) }

// the number a stored value denotes; kind name for the cell histogram
func cmpkStoredVal(r *cmpkRec) (*big.Rat, string) {
	switch r.kind {
	case 'i':
		return new(big.Rat).SetInt64(r.i), "int"
	case 'u':
		return new(big.Rat).SetInt(new(big.Int).SetUint64(r.u)), "uint"
	case 'f':
		return new(big.Rat).SetFloat64(r.f), "float"
	case 's':
		// a string in number syntax denotes the float64 it reads as (what `| where` and the statistics read)
		if cmpkNumStrRe.Match(r.s) {
			if f, err := strconv.ParseFloat(string(r.s), 64); err == nil && !math.IsInf(f, 0) && !math.IsNaN(f) {
				return new(big.Rat).SetFloat64(f), "numstr"
			}
		}
		return nil, "str"
	case 'b':
		return nil, "bool"
	case 'n':
		return nil, "null"
	}
	return nil, "raw"
}

// the number a literal denotes: an integer numeral in the 64-bit range its integer, anything else its float64
func cmpkLitVal(text string) (v *big.Rat, f float64, isInt bool) {
	f, _ = strconv.ParseFloat(text, 64)
	if cmpkIntTextRe.MatchString(text) {
		n, _ := new(big.Int).SetString(strings.TrimPrefix(text, "+"), 10)
		q := new(big.Rat).SetInt(n)
		if q.Cmp(new(big.Rat).Neg(cmpkTwo63)) >= 0 && q.Cmp(cmpkTwo64) < 0 {
			return q, f, true
		}
	}
	return new(big.Rat).SetFloat64(f), f, false
}

func cmpkByValue(op string, a, b *big.Rat) bool {
	c := a.Cmp(b)
	switch op {
	case "=":
		return c == 0
	case "!=":
		return c != 0
	case "<":
		return c < 0
	case "<=":
		return c <= 0
	case ">":
		return c > 0
	default:
		return c >= 0
	}
}

// how the engine types the literal: "int" when GetNumberTypeAndVal takes an integer branch (or the value is 0)
func cmpkLitTyped(text string, f float64) string {
	if strings.HasPrefix(text, "-") {
		if _, err := strconv.ParseInt(text, 10, 64); err == nil {
			return "int"
		}
	} else if _, err := strconv.ParseUint(text, 10, 64); err == nil {
		return "int"
	}
	if f == 0 {
		return "int"
	}
	return "flt"
}

// literal spelling class for the cell histogram (the generator's forms)
func cmpkLitForm(text string) string {
	_, f, _ := cmpkLitVal(text)
	hasDot := strings.Contains(text, ".")
	hasExp := strings.ContainsAny(text, "eE")
	switch {
	case f == 0:
		return "zero"
	case hasExp:
		return "exp"
	case strings.HasPrefix(text, "+"):
		return "plus"
	case math.Abs(f) >= 9.2e18:
		return "huge"
	case math.Abs(f) >= 9.0e15:
		return "big53"
	case hasDot && f == math.Trunc(f):
		return "dec0"
	case hasDot:
		return "frac"
	case strings.HasPrefix(text, "-"):
		return "negint"
	}
	return "int"
}

var cmpkTol = new(big.Rat).SetFrac64(10001, 100000000) // a hair above 1e-4

// witness class of a search-clause deviation (input shape only)
func cmpkClass(kind string, sv *big.Rat, text string, op string) string {
	lv, lf, _ := cmpkLitVal(text)
	typed := cmpkLitTyped(text, lf)
	floatDomain := kind == "float" || kind == "numstr" || typed == "flt"
	lfr := new(big.Rat).SetFloat64(lf)
	switch {
	case kind == "numstr" && typed == "int" && cmpkAbs(lv).Cmp(cmpkTwo53) > 0:
		return "float-vs-int-literal-beyond-2^53" // the record is the float64 the text reads as
	case kind == "numstr":
		return "numeric-string-not-compared-by-value"
	case kind == "uint" && typed == "int" && lv.Sign() < 0:
		return "uint64-vs-negative-literal"
	case kind == "int" && typed == "int" && lv.Cmp(cmpkTwo63) >= 0:
		return "int64-vs-literal-beyond-int64"
	case floatDomain && (kind == "int" || kind == "uint") && cmpkAbs(sv).Cmp(cmpkTwo53) > 0:
		return "int-beyond-2^53-vs-decimal"
	case floatDomain && kind == "float" && typed == "int" && cmpkAbs(lv).Cmp(cmpkTwo53) > 0:
		return "float-vs-int-literal-beyond-2^53"
	case floatDomain && (op == "=" || op == "!=") && sv.Cmp(lfr) != 0 && cmpkAbs(new(big.Rat).Sub(sv, lfr)).Cmp(cmpkTol) < 0:
		return "float-equality-within-tolerance"
	}
	return "other"
}

// witness class of a search-clause / where-stage disagreement
// (searchRight: the search clause gave the by-value answer, so the deviation is the where stage's)
func cmpkWhereClass(r *cmpkRec, kind string, sv *big.Rat, text string, op string, searchRight bool) string {
	lv, lf, _ := cmpkLitVal(text)
	typed := cmpkLitTyped(text, lf)
	floatDomain := kind == "float" || typed == "flt"
	lfr := new(big.Rat).SetFloat64(lf)
	switch {
	case kind == "float" && lf == 0 && (op == "=" || op == "!=") && (r.f != math.Trunc(r.f) || math.Abs(r.f) >= 9.2e18):
		return "where-eq-zero-nonintegral-float"
	case !searchRight && kind == "uint" && typed == "int" && lv.Sign() < 0:
		return "uint64-vs-negative-literal"
	case !searchRight && kind == "int" && typed == "int" && lv.Cmp(cmpkTwo63) >= 0:
		return "int64-vs-literal-beyond-int64"
	case !searchRight && floatDomain && (op == "=" || op == "!=") && sv.Cmp(lfr) != 0 && cmpkAbs(new(big.Rat).Sub(sv, lfr)).Cmp(cmpkTol) < 0 &&
		cmpkAbs(sv).Cmp(cmpkTwo53) <= 0:
		return "float-equality-within-tolerance"
	case cmpkAbs(sv).Cmp(cmpkTwo53) > 0 || cmpkAbs(lv).Cmp(cmpkTwo53) > 0:
		return "int-beyond-2^53"
	}
	return "other"
}

// witness class of an unsound range-index skip
func cmpkRangeClass(kind string, sv *big.Rat, text string) string {
	lv, lf, isInt := cmpkLitVal(text)
	_ = lf
	switch kind {
	case "int":
		if _, err := strconv.ParseInt(text, 10, 64); err != nil && cmpkAbs(sv).Cmp(cmpkTwo53) > 0 {
			return "int-range-beyond-2^53-float-fallback"
		}
	case "uint":
		if _, err := strconv.ParseUint(text, 10, 64); err != nil && cmpkAbs(sv).Cmp(cmpkTwo53) > 0 {
			return "int-range-beyond-2^53-float-fallback"
		}
	case "float":
		if isInt && cmpkAbs(lv).Cmp(cmpkTwo53) > 0 {
			return "float-range-vs-int-literal-beyond-2^53"
		}
	}
	return "other"
}

// short exact rendering of a value for messages
func cmpkShow(v *big.Rat) string {
	if v == nil {
		return "-"
	}
	s := v.RatString()
	if len(s) > 48 {
		f, _ := v.Float64()
		return strconv.FormatFloat(f, 'g', -1, 64) + " (float64)"
	}
	return s
}

func cmpkAsciiFold(a, b []byte) bool {
	if len(a) != len(b) {
		return false
	}
	lo := func(c byte) byte {
		if c >= 'A' && c <= 'Z' {
			return c + 32
		}
		return c
	}
	for i := range a {
		if lo(a[i]) != lo(b[i]) {
			return false
		}
	}
	return true
}

func execCmpk(line string) Result {
	f := strings.Fields(line)
	if len(f) == 0 {
		return Result{Out: "bad-op"}
	}
	switch f[0] {
	case "cmp":
		return execCmpkCmp(f[1:])
	case "wcmp":
		return execCmpkWhere(f[1:])
	case "rcmp":
		return execCmpkRange(f[1:])
	case "lit":
		return execCmpkLit(f[1:])
	}
	return Result{Out: "bad-op", Tags: []string{"malformed"}}
}

func execCmpkCmp(a []string) Result {
	bad := Result{Out: "bad-op", Tags: []string{"malformed"}}
	if len(a) != 4 || (a[0] != "0" && a[0] != "1") {
		return bad
	}
	ci := a[0] == "1"
	r, ok1 := cmpkParseRec(a[1])
	fop, ok2 := cmpkFop(a[2])
	if !ok1 || !ok2 {
		return bad
	}
	l, ok3 := cmpkParseLit(a[3])
	if !ok3 {
		return bad
	}
	op := a[2]
	out, got, okRes := cmpkSearch(l, fop, r.bytes, ci, r.kind == 'x')
	res := Result{Out: out}
	sv, kind := cmpkStoredVal(r)
	switch l.kind {
	case 'n':
		res.Tags = []string{"cell:" + kind + "|" + cmpkLitForm(l.text) + "|" + op}
	case 's':
		res.Tags = []string{fmt.Sprintf("cell:%s|strlit-ci%s|%s", kind, a[0], op)}
	case 'b':
		res.Tags = []string{"cell:" + kind + "|boollit|" + op}
	default:
		res.Tags = []string{"cell:" + kind + "|nil|" + op}
	}
	if r.kind == 'x' {
		return res
	}
	// ---- the property, on the real code
	switch l.kind {
	case 's':
		if r.kind == 's' && (op == "=" || op == "!=") && okRes {
			eq := string(r.s) == l.text
			if ci {
				eq = cmpkAsciiFold(r.s, []byte(l.text))
			}
			want := eq == (op == "=")
			if got != want {
				res.Fails = append(res.Fails, PropFail{Sig: "cmp/string-equality", Msg: fmt.Sprintf("stored %q %s %q (case-insensitive=%v): engine %v, text comparison %v", r.s, op, l.text, ci, got, want)})
			}
		}
		// a stored number or boolean is not equal to a string that is not a number: `=` no, `!=` yes (the same value stored
		// as text — what a block column holding numbers and text is stored as — answers like that, so anything else makes
		// the answer depend on the layout); a literal in number syntax reaches the kernel as a number (ast.ProcessSingleFilter)
		if (r.kind == 'i' || r.kind == 'u' || r.kind == 'f' || r.kind == 'b') && (op == "=" || op == "!=") && okRes && !cmpkNumStrRe.MatchString(l.text) &&
			!(r.kind == 'b' && (strings.EqualFold(l.text, "true") || strings.EqualFold(l.text, "false"))) {
			if want := op == "!="; got != want {
				res.Fails = append(res.Fails, PropFail{Sig: "cmp/string-literal-vs-non-string", Msg: fmt.Sprintf("stored %s %s %q: engine %v, but a value that is not a string is not equal to the string", a[1], op, l.text, got)})
			}
		}
		return res
	case 'b':
		if r.kind == 'b' && (op == "=" || op == "!=") && okRes {
			want := (r.b == (a[3] == "b:1")) == (op == "=")
			if got != want {
				res.Fails = append(res.Fails, PropFail{Sig: "cmp/bool-equality", Msg: fmt.Sprintf("stored %v %s %s: engine %v", r.b, op, a[3], got)})
			}
		}
		return res
	case 'z':
		return res
	}
	lv, _, _ := cmpkLitVal(l.text)
	want := op == "!="
	if sv != nil {
		want = cmpkByValue(op, sv, lv)
		res.Nontrivial = true
	}
	svs := cmpkShow(sv)
	if !okRes {
		res.Fails = append(res.Fails, PropFail{Sig: "cmp/error-on-wellformed-input", Msg: fmt.Sprintf("stored %s %s %s: %s", a[1], op, l.text, out)})
		return res
	}
	if got != want {
		cls := "other"
		if sv != nil {
			cls = cmpkClass(kind, sv, l.text, op)
		}
		res.Fails = append(res.Fails, PropFail{Sig: "cmp/" + cls,
			Msg: fmt.Sprintf("search clause: stored %s (%s, value %s) %s literal %s (value %s): engine says %v, comparison by value says %v [cell %s-%s]", a[1], kind, svs, op, l.text, cmpkShow(lv), got, want, kind, cmpkLitForm(l.text))})
	}
	// (2) range index of the block holding just this value
	if len(r.ranges) > 0 && sv != nil {
		pass := metautils.CheckRangeIndex(map[string]string{writer.VerifColName: l.dte.StringVal}, r.ranges, fop, 0)
		if pass {
			res.Tags = append(res.Tags, "range:pass")
		} else {
			res.Tags = append(res.Tags, "range:skip")
		}
		if !pass && want {
			res.Fails = append(res.Fails, PropFail{Sig: "range-skip-unsound/" + cmpkRangeClass(kind, sv, l.text),
				Msg: fmt.Sprintf("block range index built by the writer for the single value %s (%s) says SKIP for %s %s although the value satisfies the comparison (value %s vs %s)", a[1], kind, op, l.text, svs, cmpkShow(lv))})
		}
	}
	// (3) where stage on the same pair (numeric fields, spellings the SPL grammar accepts)
	if (r.kind == 'i' || r.kind == 'u' || r.kind == 'f') && cmpkSplRe.MatchString(l.text) {
		wout, wgot, wok := cmpkWhere(r, op, l.text)
		if !wok {
			res.Fails = append(res.Fails, PropFail{Sig: "cmp/search-vs-where/where-" + wout, Msg: fmt.Sprintf("where %s%s%s on %s: %s", writer.VerifColName, op, l.text, a[1], wout)})
		} else if wgot != got {
			res.Fails = append(res.Fails, PropFail{Sig: "cmp/search-vs-where/" + cmpkWhereClass(r, kind, sv, l.text, op, got == want),
				Msg: fmt.Sprintf("stored %s (%s): search clause %s%s says %v, `where` stage says %v (by value: %v)", a[1], kind, op, l.text, got, wgot, want)})
		}
		res.Tags = append(res.Tags, "where:checked")
	}
	return res
}

func execCmpkWhere(a []string) Result {
	bad := Result{Out: "bad-op", Tags: []string{"malformed"}}
	if len(a) != 3 {
		return bad
	}
	r, ok1 := cmpkParseRec(a[0])
	_, ok2 := cmpkFop(a[1])
	if !ok1 || !ok2 || r.kind == 'x' || !cmpkTextOK(a[2]) {
		return bad
	}
	_, kind := cmpkStoredVal(r)
	tags := []string{"wcell:" + kind + "|" + cmpkLitForm(a[2]) + "|" + a[1]}
	if r.kind != 'i' && r.kind != 'u' && r.kind != 'f' {
		return Result{Out: "na", Tags: tags}
	}
	out, _, _ := cmpkWhere(r, a[1], a[2])
	return Result{Out: out, Tags: tags, Nontrivial: true}
}

func execCmpkRange(a []string) Result {
	bad := Result{Out: "bad-op", Tags: []string{"malformed"}}
	if len(a) != 5 {
		return bad
	}
	fop, ok := cmpkFop(a[3])
	if !ok || !cmpkTextOK(a[4]) {
		return bad
	}
	var n structs.Numbers
	switch a[0] {
	case "s":
		if !cmpkIsPlainNat(strings.TrimPrefix(a[1], "-")) || !cmpkIsPlainNat(strings.TrimPrefix(a[2], "-")) {
			return bad
		}
		mn, e1 := strconv.ParseInt(a[1], 10, 64)
		mx, e2 := strconv.ParseInt(a[2], 10, 64)
		if e1 != nil || e2 != nil {
			return bad
		}
		n = structs.Numbers{Min_int64: mn, Max_int64: mx, NumType: sutils.RNT_SIGNED_INT}
	case "u":
		if !cmpkIsPlainNat(a[1]) || !cmpkIsPlainNat(a[2]) {
			return bad
		}
		mn, e1 := strconv.ParseUint(a[1], 10, 64)
		mx, e2 := strconv.ParseUint(a[2], 10, 64)
		if e1 != nil || e2 != nil {
			return bad
		}
		n = structs.Numbers{Min_uint64: mn, Max_uint64: mx, NumType: sutils.RNT_UNSIGNED_INT}
	case "f":
		if len(a[1]) != 16 || len(a[2]) != 16 {
			return bad
		}
		mn, e1 := strconv.ParseUint(a[1], 16, 64)
		mx, e2 := strconv.ParseUint(a[2], 16, 64)
		if e1 != nil || e2 != nil {
			return bad
		}
		fmn, fmx := math.Float64frombits(mn), math.Float64frombits(mx)
		if math.IsNaN(fmn) || math.IsInf(fmn, 0) || math.IsNaN(fmx) || math.IsInf(fmx, 0) {
			return bad
		}
		n = structs.Numbers{Min_float64: fmn, Max_float64: fmx, NumType: sutils.RNT_FLOAT64}
	default:
		return bad
	}
	pass := metautils.CheckRangeIndex(map[string]string{"c": a[4]}, map[string]*structs.Numbers{"c": &n}, fop, 0)
	out := "skip"
	if pass {
		out = "pass"
	}
	return Result{Out: out, Nontrivial: true, Tags: []string{"rcell:" + a[0] + "|" + cmpkLitForm(a[4]) + "|" + a[3], "r:" + out}}
}

func execCmpkLit(a []string) Result {
	if len(a) != 1 || !cmpkTextOK(a[0]) {
		return Result{Out: "bad-op", Tags: []string{"malformed"}}
	}
	dte, err := sutils.CreateDtypeEnclosure(json.Number(a[0]), 0)
	if err != nil {
		return Result{Out: "err"}
	}
	fb := fmt.Sprintf("%016x", math.Float64bits(dte.FloatVal))
	tags := []string{"lit:" + cmpkLitForm(a[0])}
	switch dte.Dtype {
	case sutils.SS_DT_SIGNED_NUM:
		return Result{Out: fmt.Sprintf("d=s s=%d u=%d f=%s", dte.SignedVal, dte.UnsignedVal, fb), Tags: tags, Nontrivial: true}
	case sutils.SS_DT_UNSIGNED_NUM:
		return Result{Out: fmt.Sprintf("d=u s=%d u=%d f=%s", dte.SignedVal, dte.UnsignedVal, fb), Tags: tags, Nontrivial: true}
	case sutils.SS_DT_FLOAT:
		z := math.Trunc(dte.FloatVal)
		ss, us := "?", "?"
		if z > -9223372036854775808.0 && z < 9223372036854775808.0 {
			ss = strconv.FormatInt(dte.SignedVal, 10)
		}
		if z >= 0 && z < 9223372036854775808.0 {
			us = strconv.FormatUint(dte.UnsignedVal, 10)
		}
		return Result{Out: fmt.Sprintf("d=f s=%s u=%s f=%s", ss, us, fb), Tags: tags, Nontrivial: true}
	}
	return Result{Out: fmt.Sprintf("d=?%d", dte.Dtype), Tags: tags}
}

// ---------------------------------------------------------------- generators

var cmpkForms = []string{"int", "negint", "zero", "dec0", "frac", "exp", "plus", "big53", "huge"}
var cmpkSplForms = []string{"int", "negint", "zero", "dec0", "frac", "plus", "big53", "huge"}
var cmpkStored = []string{"int", "uint", "float", "numstr", "str", "bool", "null"}

func cmpkPick(r *rand.Rand, xs []string) string { return xs[r.Intn(len(xs))] }

// a literal text of the given spelling class (cmpkLitForm of the result is `form`)
func cmpkGenText(r *rand.Rand, form string, spl bool) string {
	small := func() int64 {
		switch r.Intn(5) {
		case 0:
			return int64(1 + r.Intn(3))
		case 1:
			return int64(1 + r.Intn(300))
		case 2:
			return int64(1) << uint(10+r.Intn(40))
		case 3:
			return 1000
		}
		return int64(1 + r.Intn(1000000))
	}
	switch form {
	case "int":
		n := small()
		if r.Intn(8) == 0 {
			return "00" + strconv.FormatInt(n, 10)
		}
		return strconv.FormatInt(n, 10)
	case "negint":
		return "-" + strconv.FormatInt(small(), 10)
	case "zero":
		zs := []string{"0", "-0", "0.0", "-0.0", "+0", "00", ".0", "0.000"}
		if !spl {
			zs = append(zs, "0e0", "0e5", "-0e0", "0.")
		}
		return cmpkPick(r, zs)
	case "dec0":
		s := strconv.FormatInt(small(), 10)
		if r.Intn(3) == 0 {
			s = "-" + s
		}
		return s + cmpkPick(r, []string{".0", ".00", ".000000"})
	case "frac":
		switch r.Intn(6) {
		case 0:
			return cmpkPick(r, []string{"2.50", "2.5", "0.1", "0.3", "0.30000000000000004", "-2.5", ".5", "-.5", "2.00001", "1.99995", "0.7", "1.1", "100.25"})
		case 1:
			return fmt.Sprintf("%d.%0*d5", small()%1000, 1+r.Intn(6), 0)
		case 2:
			return strconv.FormatFloat(r.Float64()*10, 'f', -1, 64)
		case 3:
			return "-" + strconv.FormatFloat(r.Float64()*1000, 'f', 1+r.Intn(4), 64) + "1"
		case 4:
			return fmt.Sprintf("%d.%d", small()%100000, 1+r.Intn(999))
		}
		return fmt.Sprintf("%d.5", small()%1000)
	case "exp":
		return cmpkPick(r, []string{"1e3", "2.5e0", "1E2", "25e-1", "-1e3", "1e0", "5e-1", "1.5e3", "2e+2", "3E-2", "1e15", "12e1", "-2.5e1", "1e-7", "9.007199254740993e15", "1e19"})
	case "plus":
		if r.Intn(3) == 0 {
			return "+" + cmpkPick(r, []string{"2.5", "0.1", ".5", "2.0", "7.25"})
		}
		return "+" + strconv.FormatInt(small(), 10)
	case "big53":
		base := int64(1) << 53
		n := base + int64(r.Intn(7)) - 3
		if r.Intn(6) == 0 {
			n = base*2 + int64(r.Intn(9)) - 4
		}
		s := strconv.FormatInt(n, 10)
		if r.Intn(3) == 0 {
			s = "-" + s
		}
		if r.Intn(3) == 0 {
			s += ".0"
		}
		return s
	case "huge":
		return cmpkPick(r, []string{"9223372036854775807", "9223372036854775808", "9223372036854775809", "18446744073709551615", "18446744073709551616", "-9223372036854775808", "-9223372036854775809", "9223372036854775808.0", "18446744073709551614", "-9223372036854775807", "10000000000000000000", "9223372036854775806", "12345678901234567890"})
	}
	return "1"
}

func cmpkFloatTok(f float64) string { return fmt.Sprintf("f:%016x", math.Float64bits(f)) }

// a stored value of the given type near the literal
func cmpkGenStored(r *rand.Rand, st string, text string) string {
	_, lf, _ := cmpkLitVal(text)
	lv, _, _ := cmpkLitVal(text)
	fl := new(big.Int).Quo(lv.Num(), lv.Denom()) // truncation toward zero for positives; good enough as a neighbour
	clampI := func(n *big.Int) int64 {
		if n.IsInt64() {
			return n.Int64()
		}
		if n.Sign() < 0 {
			return math.MinInt64
		}
		return math.MaxInt64
	}
	clampU := func(n *big.Int) uint64 {
		if n.Sign() < 0 {
			return 0
		}
		if n.IsUint64() {
			return n.Uint64()
		}
		return math.MaxUint64
	}
	near := func() *big.Int {
		d := int64(r.Intn(5) - 2)
		if r.Intn(8) == 0 {
			d = int64(r.Intn(2001) - 1000)
		}
		return new(big.Int).Add(fl, big.NewInt(d))
	}
	switch st {
	case "int":
		switch r.Intn(10) {
		case 0:
			return "i:" + cmpkPick(r, []string{"0", "1", "-1", "2", "9007199254740991", "9007199254740992", "9007199254740993", "-9007199254740993", "9223372036854775807", "-9223372036854775808", "9007199254740994"})
		case 1:
			return "i:" + strconv.FormatInt(r.Int63n(2000)-1000, 10)
		}
		return "i:" + strconv.FormatInt(clampI(near()), 10)
	case "uint":
		switch r.Intn(10) {
		case 0:
			return "u:" + cmpkPick(r, []string{"0", "1", "2", "9007199254740992", "9007199254740993", "9223372036854775807", "9223372036854775808", "9223372036854775809", "18446744073709551615", "18446744073709551614"})
		case 1:
			return "u:" + strconv.FormatInt(r.Int63n(2000), 10)
		}
		return "u:" + strconv.FormatUint(clampU(near()), 10)
	case "float":
		switch r.Intn(12) {
		case 0:
			return cmpkFloatTok(lf)
		case 1:
			return cmpkFloatTok(math.Nextafter(lf, math.Inf(1)))
		case 2:
			return cmpkFloatTok(math.Nextafter(lf, math.Inf(-1)))
		case 3:
			return cmpkFloatTok(lf + cmpkPickF(r, []float64{0.00005, -0.00005, 0.00009, -0.00009, 0.0000999, -0.0000999}))
		case 4:
			return cmpkFloatTok(lf + cmpkPickF(r, []float64{0.00011, -0.00011, 0.0002, -0.0002, 0.001, -0.001}))
		case 5:
			return cmpkFloatTok(lf + cmpkPickF(r, []float64{0.5, -0.5, 1, -1, 0.25}))
		case 6:
			return cmpkFloatTok(cmpkPickF(r, []float64{0.5, 2.5, 0.1, 0.3, 0.30000000000000004, 2.00001, 1.99995, 2.0001, 1000, 9007199254740992, 9007199254740994, -9007199254740994, -2.5, 1e-7, 2, -0.0, 0, 1e19, 9223372036854775808, 18446744073709551616, 1.5e300}))
		case 7:
			return cmpkFloatTok(math.Trunc(lf))
		case 8:
			return cmpkFloatTok(math.Trunc(lf) + cmpkPickF(r, []float64{1, -1, 2, -2}))
		case 9:
			return cmpkFloatTok((r.Float64() - 0.5) * 100)
		}
		return cmpkFloatTok(lf + (r.Float64()-0.5)*0.0004)
	case "numstr":
		switch r.Intn(5) {
		case 0:
			if cmpkNumStrRe.MatchString(text) {
				return "s:" + hex.EncodeToString([]byte(text))
			}
		case 1:
			return "s:" + hex.EncodeToString([]byte(near().String()+".5"))
		case 2:
			return "s:" + hex.EncodeToString([]byte(strconv.FormatFloat(lf, 'f', -1, 64)))
		}
		return "s:" + hex.EncodeToString([]byte(near().String()))
	case "str":
		return "s:" + hex.EncodeToString([]byte(cmpkPick(r, []string{"abc", "ABC", "", "1e3", "+5", "0x10", "12abc", " 5", "5 ", "2.", ".5", "--1", "1.2.3", "true", "null", "NaN", "Inf", "1,000", "x", "hello world", "٣"})))
	case "bool":
		return "b:" + strconv.Itoa(r.Intn(2))
	}
	return "n"
}

func cmpkPickF(r *rand.Rand, xs []float64) float64 { return xs[r.Intn(len(xs))] }

func cmpkGenStringLine(r *rand.Rand) string {
	words := []string{"abc", "ABC", "aBc", "abd", "", "abcd", "hello world", "Hello World", "é", "É", "a[c", "a{c", "@bc", "`bc", "2", "2.0", "true", "TRUE", "zz", "ZZ", "k\xc3\xa4se", "K\xc3\x84SE"}
	op := cmpkPick(r, []string{"=", "!=", "=", "!=", "<", ">="})
	ci := r.Intn(2)
	switch r.Intn(10) {
	case 0, 1, 2, 3, 4: // string stored, string literal
		a := cmpkPick(r, words)
		b := a
		switch r.Intn(4) {
		case 0:
			b = strings.ToUpper(a)
		case 1:
			b = strings.ToLower(a)
		case 2:
			b = cmpkPick(r, words)
		}
		return fmt.Sprintf("cmp %d s:%s %s s:%s", ci, hex.EncodeToString([]byte(a)), op, hex.EncodeToString([]byte(b)))
	case 5: // other stored types against a string literal
		st := cmpkPick(r, []string{"i:2", "u:2", cmpkFloatTok(2), "b:1", "b:0", "n", "i:-7"})
		return fmt.Sprintf("cmp %d %s %s s:%s", ci, st, op, hex.EncodeToString([]byte(cmpkPick(r, words))))
	case 6, 7: // bool literal
		st := cmpkPick(r, []string{"b:1", "b:0", "b:1", "b:0", "n", "i:1", "i:0", "s:74727565", cmpkFloatTok(1)})
		return fmt.Sprintf("cmp %d %s %s b:%d", ci, st, op, r.Intn(2))
	case 8: // nil literal
		st := cmpkPick(r, []string{"b:1", "n", "i:1", "s:78", cmpkFloatTok(1)})
		return fmt.Sprintf("cmp %d %s %s nil", ci, st, cmpkPick(r, cmpkOps))
	}
	// raw records: narrow kinds, truncated, unknown tags (model correspondence only)
	raws := []string{"07ff", "0780", "0701", "0800ff", "08ff7f", "09ffffffff", "0900000080", "03ff", "0400ff", "05ffffffff", "06ffffffffffffffff",
		"10", "1001", "11000000", "07", "08ff", "01", "0101", "0100", "02", "0201", "020100", "02010061", "0203006162", "13", "14", "15", "63", "00", "",
		"10ffffffffffffffff", "100000000000000080", "110000000000000440", "1400", "150000"}
	lit := cmpkPick(r, []string{"n:2", "n:-1", "n:2.5", "n:255", "n:128", "n:65535", "n:4294967295", "n:0", "s:61", "s:6162", "b:1", "b:0", "nil", "n:-9223372036854775808", "n:18446744073709551615"})
	return fmt.Sprintf("cmp %d x:%s %s %s", ci, cmpkPick(r, raws), cmpkPick(r, cmpkOps), lit)
}

func cmpkGenRangeLine(r *rand.Rand, k int) string {
	types := []string{"s", "u", "f"}
	t := types[k%3]
	form := cmpkForms[(k/3)%len(cmpkForms)]
	op := cmpkOps[(k/(3*len(cmpkForms)))%6]
	text := cmpkGenText(r, form, false)
	lv, lf, _ := cmpkLitVal(text)
	fl := new(big.Int).Quo(lv.Num(), lv.Denom())
	pickI := func() *big.Int {
		d := int64(r.Intn(7) - 3)
		if r.Intn(6) == 0 {
			d = int64(r.Intn(201) - 100)
		}
		return new(big.Int).Add(fl, big.NewInt(d))
	}
	switch t {
	case "s":
		a, b := pickI(), pickI()
		if a.Cmp(b) > 0 {
			a, b = b, a
		}
		cl := func(n *big.Int) int64 {
			if n.IsInt64() {
				return n.Int64()
			}
			if n.Sign() < 0 {
				return math.MinInt64
			}
			return math.MaxInt64
		}
		return fmt.Sprintf("rcmp s %d %d %s %s", cl(a), cl(b), op, text)
	case "u":
		a, b := pickI(), pickI()
		if a.Cmp(b) > 0 {
			a, b = b, a
		}
		cl := func(n *big.Int) uint64 {
			if n.Sign() < 0 {
				return 0
			}
			if n.IsUint64() {
				return n.Uint64()
			}
			return math.MaxUint64
		}
		return fmt.Sprintf("rcmp u %d %d %s %s", cl(a), cl(b), op, text)
	}
	pf := func() float64 {
		switch r.Intn(6) {
		case 0:
			return lf
		case 1:
			return math.Nextafter(lf, math.Inf(1))
		case 2:
			return math.Nextafter(lf, math.Inf(-1))
		case 3:
			return lf + cmpkPickF(r, []float64{0.00005, -0.00005, 0.5, -0.5, 1, -1})
		case 4:
			return math.Trunc(lf) + float64(r.Intn(5)-2)
		}
		return lf + (r.Float64()-0.5)*4
	}
	a, b := pf(), pf()
	if a > b {
		a, b = b, a
	}
	return fmt.Sprintf("rcmp f %016x %016x %s %s", math.Float64bits(a), math.Float64bits(b), op, text)
}

func genCmpk(r *rand.Rand, n int, tier string) []string {
	var out []string
	kc, kr, kw := 0, 0, 0
	ncell := len(cmpkStored) * len(cmpkForms) * 6
	for i := 0; i < n; i++ {
		m := i % 100
		switch {
		case m < 60: // numeric literal against every stored type: cells visited cyclically
			k := kc % ncell
			kc++
			st := cmpkStored[k%len(cmpkStored)]
			form := cmpkForms[(k/len(cmpkStored))%len(cmpkForms)]
			op := cmpkOps[k/(len(cmpkStored)*len(cmpkForms))]
			text := cmpkGenText(r, form, false)
			out = append(out, fmt.Sprintf("cmp %d %s %s n:%s", r.Intn(2), cmpkGenStored(r, st, text), op, text))
		case m < 68:
			out = append(out, cmpkGenStringLine(r))
		case m < 82:
			out = append(out, cmpkGenRangeLine(r, kr))
			kr++
		case m < 94: // where stage: numeric stored types × SPL spellings × operators, cyclically
			k := kw % (3 * len(cmpkSplForms) * 6)
			kw++
			st := cmpkStored[k%3]
			form := cmpkSplForms[(k/3)%len(cmpkSplForms)]
			op := cmpkOps[k/(3*len(cmpkSplForms))]
			text := cmpkGenText(r, form, true)
			for !cmpkSplRe.MatchString(text) {
				text = cmpkGenText(r, form, true)
			}
			out = append(out, fmt.Sprintf("wcmp %s %s %s", cmpkGenStored(r, st, text), op, text))
		case m < 99:
			out = append(out, "lit "+cmpkGenText(r, cmpkPick(r, cmpkForms), false))
		default: // malformed
			out = append(out, cmpkPick(r, []string{
				"cmp 0 i:2 << n:2", "cmp 2 i:2 < n:2", "cmp 0 i:+2 < n:2", "cmp 0 i:2 < n:2x", "cmp 0 i:2 < n:", "cmp 0 q:2 < n:2", "cmp 0 i:2 <", "cmp",
				"cmp 0 f:7ff0000000000000 < n:2", "cmp 0 f:7ff8000000000001 = n:2", "cmp 0 i:9223372036854775808 < n:2", "cmp 0 u:-1 < n:2", "cmp 0 s:zz = s:61", "cmp 0 s:61 = s:612a",
				"cmp 0 i:2 < n:1e999", "cmp 0 i:2 < n:inf", "cmp 0 i:2 < n:0x10", "cmp 0 i:2 < n:1_0", "cmp 0 i:2 < n:--1", "cmp 0 i:2 < n:1e", "cmp 0 i:2 < n:.", "cmp 0 i:2 < n:1.2.3",
				"lit", "lit abc", "lit 1e41", "lit 12345678901234567890123456789012345678901", "rcmp s 1 2 < x", "rcmp q 1 2 < 2", "rcmp f 1 2 < 2", "rcmp u -1 2 < 2", "rcmp s 1 2 <", "wcmp i:2 < x", "wcmp x:1000 < 2", "wcmp", "zzz 1 2"}))
		}
	}
	return out
}
