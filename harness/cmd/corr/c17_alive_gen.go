// C17 suite "alive": request generator — valid request of a route (c17aRoutes) + structural mutations + query texts.
package main

import (
	"bytes"
	"compress/gzip"
	"encoding/hex"
	"encoding/json"
	"fmt"
	"math/rand"
	"net/url"
	"sort"
	"strconv"
	"strings"
)

// one route of pkg/server/{query,ingest}/server.go with a VALID request (as deep into the handler as a client gets)
type c17aRoute struct {
	srv    string                    // "q" query server | "i" ingest server
	method string                    //
	path   string                    // as registered, {name} = route parameter
	pv     map[string]string         // a valid value per route parameter (tokens of c17aTokens allowed)
	query  string                    // valid query string, escaped ("" = none)
	ctype  string                    // content type of the body
	body   string                    // valid body: JSON text or urlencoded form ("" = none)
	bin    func() []byte             // valid binary body (protobuf, snappy, multipart) instead of body
	binv   func(r *rand.Rand) []byte // a structural variant of it: fields absent, empty, of another kind
	hdr    [][2]string               // further headers of the valid request
	text   string                    // where a query text goes + its language: "json:searchText:logs" | "form:query:promql" | "query:m:otsdb" | "json:queries.0.query:promql" | "body::es"
	ws     bool                      // websocket route: the body is the JSON text frame
	weight int                       // relative share (0 = 1)
}

func (rt *c17aRoute) id() string {
	return rt.method + strings.NewReplacer(" ", "_").Replace(rt.path)
}

// ---------------------------------------------------------------- value pools

var c17aLong = strings.Repeat("A", 70000)

var c17aStrPool = []string{"", " ", "x", "0", "-1", "1e999", "NaN", "null", "true", "*", "**", "?", ".", "..", "/", "\\", "\"", "'", "`", "{", "}", "[", "]", "(", ")", "{}", "[]",
	"a=b", "a:b", "a|b", "a,b", "a b", ":", "::", "=", "==", "|", ",", ",,", "-", "--", "+", "%", "%%", "%zz", "%00", "\x00", "\n", "\r\n", "\t", "日本語", "é́", "\xff\xfe", "‮", "😀",
	"now", "now-", "now-5x", "now-99999999999999999999d", "-ago", "1-ago", "1x-ago", "9999999999999999999h-ago", "2006/01/02-15:04", "2006-01-02 15:04:05",
	"9223372036854775807", "9223372036854775808", "18446744073709551615", "18446744073709551616", "-9223372036854775808", "4294967295", "4294967296", "2147483648", "-2147483649", "0x10", "1.5", ".5", "5.", "1e3", "1e-3", "00", "+1",
	"Splunk QL", "SQL", "Pipe QL", "Log QL", "promql", "PromQL", "Logs", "Metrics", "Traces", "query", "cancel", "QUERY", "asc", "desc", "root-folder", "_all", "ind-0", "c17boot", "ind-*", "*,ind-0", "ind-0,ind-0", ".kibana", "traces", "otel-collector", "red-traces", "service-dependency",
	"timestamp", "_index", "_id", "_type", "__name__", "le", "host", "c17m", "cpu", "c17svc",
	"@LONG@"}

var c17aNumPool = []string{"0", "-0", "1", "-1", "2", "10", "100", "1000", "10000", "10001", "65535", "65536", "1000000", "2147483647", "2147483648", "-2147483648", "-2147483649", "4294967295", "4294967296",
	"9007199254740993", "9223372036854775807", "9223372036854775808", "-9223372036854775808", "-9223372036854775809", "18446744073709551615", "18446744073709551616", "1e19", "1e308", "1e309", "-1e309", "1e-400", "0.5", "-0.5", "1.0", "1E2", "1699999400", "1700000600", "1700000600000", "1700000600000000", "1700000600000000000", "99999999999999999999999999999999"}

// JSON values of another shape than whatever they replace
var c17aJSONPool = []string{"null", "true", "false", "0", "-1", "1.5", "1e400", "\"\"", "\"x\"", "\"0\"", "[]", "[[]]", "[null]", "[\"x\"]", "[1]", "[{}]", "[[1],[2]]", "{}", "{\"\":null}", "{\"a\":{}}", "{\"a\":[]}", "{\"x\":1}", "[1,\"a\",null,{}]"}

func c17aPoolStr(r *rand.Rand) string {
	s := c17aStrPool[r.Intn(len(c17aStrPool))]
	if s == "@LONG@" {
		return c17aLong[:[]int{300, 5000, 70000}[r.Intn(3)]]
	}
	return s
}

// ---------------------------------------------------------------- query texts

// Pipe QL (pkg/ast/pipesearch: the pipe grammar), Log QL (Loki), the OpenTSDB metric expression, Elasticsearch query DSL
var c17aPipeFrags = []string{"*", "a=1", "a!=2", "a>1 AND b=x*", "b=\"x y\"", "foo", "NOT a=1", "(a=1 OR b=2)", "a=1 | columns a, b", "* | columns -a", "* | avg(a)", "* | min(a), max(a) groupby b", "* | count(a) groupby b, c",
	"* | sum(a) groupby b | columns b", "* | cardinality(b)", "a=1 | columns a as x", "* | let x=a+1", "* | where a>1", "a IN (1,2)", "* | count(*)", "b=*x", "* | sort by a", "* | limit 3"}
var c17aLogQLFrags = []string{`{host="h1"}`, `{host="h1",b="x"}`, `{host=~"h.*"}`, `{host!="h1"}`, `{host="h1"} |= "foo"`, `{host="h1"} != "foo"`, `{host="h1"} | json`, `{host="h1"} | logfmt`, `{host="h1"} | json a="a"`, `{host="h1"} | a>1`,
	`count_over_time({host="h1"}[5m])`, `rate({host="h1"}[5m])`, `sum(count_over_time({host="h1"}[5m])) by (b)`, `sum by (b) (rate({host="h1"}[1m]))`, `{host="h1"} | json | line_format "{{.a}}"`, `{}`, `{host="h1"} |~ "f.*"`}
var c17aOtsdbFrags = []string{"avg:c17m", "avg:c17m{host=h1}", "sum:c17m{host=h1,job=c17}", "sum:1m-avg:c17m{host=*}", "max:10s-max:cpu{host=h1|h2}", "min:1h-sum-none:cpu{}", "count:cpu{host=\"h1\"}", "avg:rate:c17m{host=h1}",
	"avg:1mc-avg:c17m{job='c17'}", "quantile:c17m{host=h1}", "cardinality:2d-count:c17m{ host = h1 }", "avg:c17m{host=h1}{job=c17}", "zimsum:c17m{host=h1}", "avg:1m-avg:rate{counter,,1}:c17m{host=literal_or(h1)}"}

// PromQL over the metrics of the bootstrap: scalars, subqueries with and without a step, range functions, functions with parameters
var c17aPromFrags = []string{"1+1", "5", "2*3 > bool 1", "cpu", "cpu{host=\"h1\"}", "cpu[5m]", "cpu[200y]", "rate(c17m[5m])", "rate(c17m[5m:1m])", "max_over_time(cpu[10m:30s])", "avg_over_time(cpu[5m:500ms])",
	"quantile_over_time(0.9, cpu[5m])", "quantile_over_time(2, cpu[5m])", "histogram_quantile(0.9, sum(rate(c17m[5m])) by (le))", "histogram_quantile(0.9, cpu)", "quantile(0.9, cpu)", "topk(0, cpu)", "topk(-1, cpu)", "bottomk(2, cpu)",
	"label_replace(cpu, \"dst\", \"$1\", \"host\", \"(.*)\")", "label_replace(cpu, \"dst\", \"$9\", \"host\", \"(\")", "clamp(cpu, 5, 1)", "round(cpu, 0)", "cpu % 0", "cpu / 0", "(1+1)+cpu", "cpu+(2*3)", "cpu offset 5m", "cpu offset -1y",
	"cpu @ 1700000000", "sum by (host) (cpu) / on(host) sum by (host) (c17m)", "cpu and on(host) c17m", "cpu or c17m", "cpu unless c17m", "cpu * on(job) group_left(host) c17m", "count by (job) (cpu)", "stddev(cpu)", "group(cpu)",
	"{__name__=~\"c.*\"}", "{__name__=~\"(\"}", "{host=\"h1\"}", "deriv(cpu[5m])", "predict_linear(cpu[5m], 60)", "changes(cpu[5m])", "resets(cpu[5m])", "irate(cpu[1s])", "timestamp(cpu)", "hour(cpu)", "sgn(cpu)", "ln(cpu)", "-cpu", "cpu ^ 2 ^ 3",
	"absent(cpu)", "vector(1)", "time()", "scalar(cpu)", "sort(cpu)", "label_join(cpu, \"a\", \",\", \"host\")", "count_values(\"v\", cpu)", "sum(rate(c17m[5m])) by (host) > 0", "avg without (host) (cpu)"}

// series of the bootstrap: c17d has a sample every 10 s (several samples in the first window of every range function)
var c17aPromSelectors = []string{"c17d", "c17d", "cpu", "c17m", "c17d{host=\"h1\"}", "cpu{host=~\"h.*\"}"}

func c17aESQuery(r *rand.Rand, depth int) interface{} {
	leafs := []func() interface{}{
		func() interface{} { return map[string]interface{}{"match_all": map[string]interface{}{}} },
		func() interface{} { return map[string]interface{}{"match": map[string]interface{}{"b": "x"}} },
		func() interface{} {
			return map[string]interface{}{"match": map[string]interface{}{"b": map[string]interface{}{"query": "x y", "operator": "and"}}}
		},
		func() interface{} { return map[string]interface{}{"match_phrase": map[string]interface{}{"b": "x y"}} },
		func() interface{} { return map[string]interface{}{"term": map[string]interface{}{"a": 1}} },
		func() interface{} {
			return map[string]interface{}{"term": map[string]interface{}{"b": map[string]interface{}{"value": "x"}}}
		},
		func() interface{} {
			return map[string]interface{}{"terms": map[string]interface{}{"b": []interface{}{"x", "y"}}}
		},
		func() interface{} {
			return map[string]interface{}{"range": map[string]interface{}{"a": map[string]interface{}{"gte": 1, "lt": 9}}}
		},
		func() interface{} {
			return map[string]interface{}{"range": map[string]interface{}{"timestamp": map[string]interface{}{"gte": "now-1h", "lte": "now", "format": "epoch_millis"}}}
		},
		func() interface{} { return map[string]interface{}{"prefix": map[string]interface{}{"b": "x"}} },
		func() interface{} { return map[string]interface{}{"wildcard": map[string]interface{}{"b": "x*"}} },
		func() interface{} {
			return map[string]interface{}{"regexp": map[string]interface{}{"b": map[string]interface{}{"value": "x.*"}}}
		},
		func() interface{} { return map[string]interface{}{"exists": map[string]interface{}{"field": "a"}} },
		func() interface{} {
			return map[string]interface{}{"query_string": map[string]interface{}{"query": "a:1 AND b:x*", "analyze_wildcard": true, "default_field": "*"}}
		},
		func() interface{} { return map[string]interface{}{"match_none": map[string]interface{}{}} },
		func() interface{} {
			return map[string]interface{}{"multi_match": map[string]interface{}{"query": "x", "fields": []interface{}{"b", "c"}, "type": "phrase"}}
		},
		func() interface{} {
			return map[string]interface{}{"ids": map[string]interface{}{"values": []interface{}{"1"}}}
		},
	}
	if depth <= 0 || r.Intn(3) > 0 {
		return leafs[r.Intn(len(leafs))]()
	}
	b := map[string]interface{}{}
	for _, k := range []string{"must", "filter", "should", "must_not"} {
		if r.Intn(2) == 0 {
			if r.Intn(3) == 0 {
				b[k] = c17aESQuery(r, depth-1) // a single clause instead of a list
			} else {
				var l []interface{}
				for i := r.Intn(3); i >= 0; i-- {
					l = append(l, c17aESQuery(r, depth-1))
				}
				b[k] = l
			}
		}
	}
	if r.Intn(4) == 0 {
		b["minimum_should_match"] = 1
	}
	return map[string]interface{}{"bool": b}
}

func c17aESAggs(r *rand.Rand) interface{} {
	kinds := []interface{}{
		map[string]interface{}{"terms": map[string]interface{}{"field": "b", "size": 5}},
		map[string]interface{}{"date_histogram": map[string]interface{}{"field": "timestamp", "fixed_interval": "1m", "min_doc_count": 1}},
		map[string]interface{}{"date_histogram": map[string]interface{}{"field": "timestamp", "interval": "30s", "time_zone": "UTC", "extended_bounds": map[string]interface{}{"min": 1, "max": 2}}},
		map[string]interface{}{"avg": map[string]interface{}{"field": "a"}},
		map[string]interface{}{"sum": map[string]interface{}{"field": "a"}},
		map[string]interface{}{"max": map[string]interface{}{"field": "a"}},
		map[string]interface{}{"min": map[string]interface{}{"field": "a"}},
		map[string]interface{}{"cardinality": map[string]interface{}{"field": "b"}},
		map[string]interface{}{"histogram": map[string]interface{}{"field": "a", "interval": 2}},
		map[string]interface{}{"filters": map[string]interface{}{"filters": map[string]interface{}{"x": map[string]interface{}{"match_all": map[string]interface{}{}}}}},
	}
	a := kinds[r.Intn(len(kinds))].(map[string]interface{})
	out := map[string]interface{}{}
	for k, v := range a {
		out[k] = v
	}
	if r.Intn(3) == 0 {
		out["aggs"] = map[string]interface{}{"n": kinds[3+r.Intn(4)]}
	}
	return map[string]interface{}{[]string{"g", "2", "by_b"}[r.Intn(3)]: out}
}

func c17aESBody(r *rand.Rand) string {
	m := map[string]interface{}{"query": c17aESQuery(r, 3)}
	if r.Intn(2) == 0 {
		m["size"] = []interface{}{0, 1, 10, 10000}[r.Intn(4)]
	}
	if r.Intn(4) == 0 {
		m["from"] = r.Intn(3)
	}
	if r.Intn(3) == 0 {
		m["sort"] = []interface{}{map[string]interface{}{"timestamp": map[string]interface{}{"order": "desc", "unmapped_type": "boolean"}}}
	}
	if r.Intn(3) == 0 {
		m["aggs"] = c17aESAggs(r)
	}
	if r.Intn(5) == 0 {
		m["_source"] = []interface{}{"a", "b"}
	}
	if r.Intn(6) == 0 {
		m["track_total_hits"] = true
	}
	b, _ := json.Marshal(m)
	return string(b)
}

// c17aText: a query text of the language: the generator of suite "parsers" (fragments + byte-level mutate) for
// Splunk QL / SQL / PromQL, fragment lists of this file for the others
func c17aText(r *rand.Rand, lang string) string {
	if c17aForcedText != "" {
		return c17aForcedText
	}
	var text string
	switch lang {
	case "spl":
		k := 1 + r.Intn(5)
		parts := []string{splFrags[r.Intn(12)]}
		for j := 1; j < k; j++ {
			parts = append(parts, splFrags[12+r.Intn(len(splFrags)-12)])
		}
		text = strings.Join(parts, " ")
	case "sql":
		text = sqlFrags[r.Intn(len(sqlFrags))]
	case "promql":
		if r.Intn(3) == 0 { // every numeric parameter of the language with values inside and outside its domain, over series with samples
			return promNumText(r, c17aPromSelectors)
		}
		if r.Intn(2) == 0 {
			text = c17aPromFrags[r.Intn(len(c17aPromFrags))]
			break
		}
		text = strings.NewReplacer("m{", "c17m{", "(m)", "(c17m)", "m[", "c17m[").Replace(promFrags[r.Intn(len(promFrags))])
		if r.Intn(3) == 0 {
			text = text + []string{" + ", " / ", " and ", " or ", " unless ", " > ", " % ", " ^ "}[r.Intn(8)] + promFrags[r.Intn(len(promFrags))]
		}
	case "pipe":
		text = c17aPipeFrags[r.Intn(len(c17aPipeFrags))]
	case "logql":
		text = c17aLogQLFrags[r.Intn(len(c17aLogQLFrags))]
	case "otsdb":
		text = c17aOtsdbFrags[r.Intn(len(c17aOtsdbFrags))]
		if r.Intn(3) == 0 { // the small grammar's own separators, misplaced
			b := []byte(text)
			i := r.Intn(len(b) + 1)
			ins := []string{":", "{", "}", "=", ",", "|", "-", "}{", "{:", ":}", "=|", ",,", "{}", "\"", "'", " "}[r.Intn(16)]
			text = string(b[:i]) + ins + string(b[i:])
		}
	case "es":
		return c17aESBody(r) // mutated as JSON by the caller
	}
	if r.Intn(3) == 0 {
		text = mutate(r, text)
	}
	if r.Intn(40) == 0 {
		b := make([]byte, r.Intn(60))
		r.Read(b)
		text = string(b)
	}
	return text
}

// c17aGenPromNum: a PromQL text with a numeric parameter (promNumTmpls: every function of the language that takes one, values
// inside and outside its domain) over a series WITH samples, unmutated, through one of the routes that evaluate PromQL: the
// instant and range query routes, the UI query route and the metrics-explorer route with its formula
var c17aForcedText string
var c17aPromPlan [][3]string

func c17aGenPromNum(r *rand.Rand, rts []c17aRoute) string {
	var cands []*c17aRoute
	for i := range rts {
		p := rts[i].path
		if strings.HasSuffix(rts[i].text, ":promql") && (strings.HasSuffix(p, "/api/v1/query") || strings.HasSuffix(p, "/api/v1/query_range") || strings.HasSuffix(p, "/api/ui/query") || strings.HasSuffix(p, "/api/v1/timeseries")) {
			cands = append(cands, &rts[i])
		}
	}
	if len(cands) == 0 {
		return c17aGenModelLine(r)
	}
	tmpl := promNumTmpls[r.Intn(len(promNumTmpls))]
	if len(c17aPromPlan) > 0 { // every function × every value class once, then at random
		pc := c17aPromPlan[0]
		c17aPromPlan = c17aPromPlan[1:]
		tmpl = pc[0]
		c17aForcedText = promNumFillClass(r, tmpl, pc[1], []string{pc[2]})
	} else {
		c17aForcedText = promNumFill(r, tmpl, c17aPromSelectors)
	}
	defer func() { c17aForcedText = "" }()
	line := c17aGenLine(rand.New(c17aZeroSrc{}), cands[r.Intn(len(cands))]) // the zero source: the text goes in, nothing is mutated
	return strings.Replace(line, " #text:promql", " #text:promql+promnum:"+promNumFn(tmpl), 1)
}

// the search routes take one of these languages
var c17aLogLangs = []struct{ name, lang string }{{"Splunk QL", "spl"}, {"Splunk QL", "spl"}, {"Splunk QL", "spl"}, {"SQL", "sql"}, {"Pipe QL", "pipe"}, {"Log QL", "logql"}}

// ---------------------------------------------------------------- JSON mutation

type c17aPath []interface{} // string = object key, int = array index

func c17aWalk(v interface{}, p c17aPath, out *[]c17aPath) {
	*out = append(*out, append(c17aPath{}, p...))
	switch x := v.(type) {
	case map[string]interface{}:
		keys := make([]string, 0, len(x))
		for k := range x {
			keys = append(keys, k)
		}
		sort.Strings(keys)
		for _, k := range keys {
			c17aWalk(x[k], append(p, k), out)
		}
	case []interface{}:
		for i := range x {
			c17aWalk(x[i], append(p, i), out)
		}
	}
}

func c17aGet(v interface{}, p c17aPath) interface{} {
	for _, e := range p {
		switch k := e.(type) {
		case string:
			m, ok := v.(map[string]interface{})
			if !ok {
				return nil
			}
			v = m[k]
		case int:
			a, ok := v.([]interface{})
			if !ok || k >= len(a) {
				return nil
			}
			v = a[k]
		}
	}
	return v
}

// c17aSet replaces (del = false) or removes (del = true) the node at p; returns the new root
func c17aSet(root interface{}, p c17aPath, nv interface{}, del bool) interface{} {
	if len(p) == 0 {
		return nv
	}
	parent := c17aGet(root, p[:len(p)-1])
	switch k := p[len(p)-1].(type) {
	case string:
		if m, ok := parent.(map[string]interface{}); ok {
			if del {
				delete(m, k)
			} else {
				m[k] = nv
			}
		}
	case int:
		if a, ok := parent.([]interface{}); ok && k < len(a) {
			if del {
				na := append(append([]interface{}{}, a[:k]...), a[k+1:]...)
				return c17aSet(root, p[:len(p)-1], na, false)
			}
			a[k] = nv
		}
	}
	return root
}

type c17aRawJSON string

func (x c17aRawJSON) MarshalJSON() ([]byte, error) { return []byte(x), nil }

// c17aMutJSON: one structural mutation of a JSON text; the second result names the mutation class
func c17aMutJSON(r *rand.Rand, text string) (string, string) {
	var root interface{}
	dec := json.NewDecoder(strings.NewReader(text))
	dec.UseNumber()
	if err := dec.Decode(&root); err != nil {
		return c17aMutBytes(r, text)
	}
	var paths []c17aPath
	c17aWalk(root, nil, &paths)
	p := paths[r.Intn(len(paths))]
	if len(paths) > 1 && r.Intn(8) > 0 {
		p = paths[1+r.Intn(len(paths)-1)] // mostly below the root
	}
	cur := c17aGet(root, p)
	enc := func(v interface{}) string {
		b, err := json.Marshal(v)
		if err != nil {
			return text
		}
		return string(b)
	}
	switch k := r.Intn(13); k {
	case 0: // another JSON type / shape
		return enc(c17aSet(root, p, c17aRawJSON(c17aJSONPool[r.Intn(len(c17aJSONPool))]), false)), "json-type"
	case 1: // the field is missing
		if len(p) > 0 {
			return enc(c17aSet(root, p, nil, true)), "json-missing"
		}
		return "{}", "json-missing"
	case 2: // number boundaries (as a number, and the same digits as a string)
		n := c17aNumPool[r.Intn(len(c17aNumPool))]
		if r.Intn(4) == 0 {
			return enc(c17aSet(root, p, n, false)), "json-numstr"
		}
		return enc(c17aSet(root, p, c17aRawJSON(n), false)), "json-number"
	case 3: // strings: empty, unknown enum value, unicode, separators of the small grammars, very long
		return enc(c17aSet(root, p, c17aPoolStr(r), false)), "json-string"
	case 4: // a string becomes a string with something appended / prepended
		if s, ok := cur.(string); ok {
			x := c17aPoolStr(r)
			if r.Intn(2) == 0 {
				return enc(c17aSet(root, p, s+x, false)), "json-str-append"
			}
			return enc(c17aSet(root, p, x+s, false)), "json-str-prepend"
		}
		return enc(c17aSet(root, p, c17aPoolStr(r), false)), "json-string"
	case 5: // arrays: empty, one null, an element many times, elements of mixed types
		if a, ok := cur.([]interface{}); ok {
			switch r.Intn(4) {
			case 0:
				return enc(c17aSet(root, p, []interface{}{}, false)), "json-array-empty"
			case 1:
				return enc(c17aSet(root, p, append(append([]interface{}{}, a...), nil), false)), "json-array-null-elem"
			case 2:
				if len(a) > 0 {
					var big []interface{}
					for i := 0; i < 300; i++ {
						big = append(big, a[0])
					}
					return enc(c17aSet(root, p, big, false)), "json-array-many"
				}
			}
			return enc(c17aSet(root, p, append(append([]interface{}{}, a...), c17aRawJSON(c17aJSONPool[r.Intn(len(c17aJSONPool))])), false)), "json-array-mixed"
		}
		return enc(c17aSet(root, p, []interface{}{cur}, false)), "json-wrap-array"
	case 6: // an unknown key beside the known ones
		if m, ok := cur.(map[string]interface{}); ok {
			m[c17aPoolStr(r)] = c17aRawJSON(c17aJSONPool[r.Intn(len(c17aJSONPool))])
			return enc(root), "json-extra-key"
		}
		return enc(c17aSet(root, p, map[string]interface{}{"value": cur}, false)), "json-wrap-object"
	case 7: // a key twice (the last one wins in most decoders, the first in some)
		if m, ok := root.(map[string]interface{}); ok && len(m) > 0 {
			keys := make([]string, 0, len(m))
			for k := range m {
				keys = append(keys, k)
			}
			sort.Strings(keys)
			kk := keys[r.Intn(len(keys))]
			kb, _ := json.Marshal(kk)
			t := enc(root)
			return t[:len(t)-1] + "," + string(kb) + ":" + c17aJSONPool[r.Intn(len(c17aJSONPool))] + "}", "json-dup-key"
		}
		return enc([]interface{}{root, root}), "json-dup-root"
	case 8: // deep nesting
		d := []int{50, 1000, 20000}[r.Intn(3)]
		open, cl := "[", "]"
		if r.Intn(2) == 0 {
			open, cl = `{"a":`, "}"
		}
		return enc(c17aSet(root, p, c17aRawJSON(strings.Repeat(open, d)+"1"+strings.Repeat(cl, d)), false)), "json-deep"
	case 9: // key names: the same value under a mutated key
		if len(p) > 0 {
			if ks, ok := p[len(p)-1].(string); ok {
				nk := []string{strings.ToUpper(ks), ks + " ", "", ks + "\x00", strings.ToLower(ks)}[r.Intn(5)]
				root = c17aSet(root, p, nil, true)
				return enc(c17aSet(root, append(append(c17aPath{}, p[:len(p)-1]...), nk), cur, false)), "json-key-renamed"
			}
		}
		return enc(c17aSet(root, p, nil, false)), "json-null"
	case 10:
		return enc(c17aSet(root, p, nil, false)), "json-null"
	default: // the text level: truncated, unbalanced, garbage
		return c17aMutBytes(r, text)
	}
}

// c17aMutBytes: text-level damage (for JSON that must stay unparsable, for forms, for binary bodies)
func c17aMutBytes(r *rand.Rand, s string) (string, string) {
	b := []byte(s)
	switch r.Intn(9) {
	case 0:
		return "", "body-empty"
	case 1:
		if len(b) > 1 {
			return string(b[:1+r.Intn(len(b)-1)]), "body-truncated"
		}
		return "", "body-empty"
	case 2:
		if len(b) > 0 {
			i := r.Intn(len(b))
			return string(b[:i]) + string("{}[]\",:\\\x00"[r.Intn(9)]) + string(b[i:]), "body-insert"
		}
	case 3:
		if len(b) > 0 {
			i := r.Intn(len(b))
			return string(b[:i]) + string(b[i+1:]), "body-delete-byte"
		}
	case 4:
		if len(b) > 0 {
			b[r.Intn(len(b))] = byte(r.Intn(256))
			return string(b), "body-flip"
		}
	case 5:
		return []string{"null", "[]", "{}", "0", "\"\"", "true", "[{}]", "[[]]", "{\"\":{}}", "\xef\xbb\xbf{}", " ", "\n", "{", "[", "\"", "{\"a\":", "nul", "-", "1e", "{\"a\":1}}", "[1,]", "{,}"}[r.Intn(22)], "body-other-json"
	case 6:
		g := make([]byte, 1+r.Intn(200))
		r.Read(g)
		return string(g), "body-garbage"
	case 7:
		return s + s, "body-twice"
	}
	return s + "\n" + c17aJSONPool[r.Intn(len(c17aJSONPool))], "body-trailing"
}

// ---------------------------------------------------------------- one line

type c17aParam struct {
	k, v  string
	noEq  bool // key without '='
	rawKV bool // k and v go out as they are (already escaped / deliberately malformed)
}

func c17aParseQS(q string) []c17aParam {
	var ps []c17aParam
	if q == "" {
		return ps
	}
	for _, kv := range strings.Split(q, "&") {
		k, v, _ := strings.Cut(kv, "=")
		ku, _ := url.QueryUnescape(k)
		vu, _ := url.QueryUnescape(v)
		ps = append(ps, c17aParam{k: ku, v: vu})
	}
	return ps
}

func c17aEncQS(ps []c17aParam) string {
	var parts []string
	for _, p := range ps {
		switch {
		case p.rawKV:
			parts = append(parts, p.k+"="+p.v)
		case p.noEq:
			parts = append(parts, url.QueryEscape(p.k))
		default:
			parts = append(parts, url.QueryEscape(p.k)+"="+url.QueryEscape(p.v))
		}
	}
	return strings.Join(parts, "&")
}

// c17aMutQS: one structural mutation of a parameter list (query string or urlencoded form)
func c17aMutQS(r *rand.Rand, ps []c17aParam) ([]c17aParam, string) {
	ps = append([]c17aParam{}, ps...)
	if len(ps) == 0 {
		return append(ps, c17aParam{k: c17aPoolStr(r), v: c17aPoolStr(r)}), "qs-extra"
	}
	i := r.Intn(len(ps))
	switch r.Intn(10) {
	case 0:
		return append(ps[:i], ps[i+1:]...), "qs-missing"
	case 1:
		return append(ps, c17aParam{k: ps[i].k, v: c17aPoolStr(r)}), "qs-duplicate"
	case 2:
		ps[i].v = ""
		return ps, "qs-empty-value"
	case 3:
		ps[i].v = c17aNumPool[r.Intn(len(c17aNumPool))]
		return ps, "qs-number"
	case 4:
		ps[i].v = c17aPoolStr(r)
		return ps, "qs-string"
	case 5:
		ps[i].v += c17aPoolStr(r)
		return ps, "qs-append"
	case 6:
		ps[i].noEq = true
		return ps, "qs-no-equals"
	case 7:
		ps[i] = c17aParam{k: url.QueryEscape(ps[i].k), v: []string{"%", "%zz", "%0", "%u0041", "%C0%80", "+%2B+", "%00"}[r.Intn(7)], rawKV: true}
		return ps, "qs-bad-escape"
	case 8:
		return append(ps, c17aParam{k: c17aPoolStr(r), v: c17aPoolStr(r)}), "qs-extra"
	}
	ps[i].v = mutate(r, ps[i].v)
	return ps, "qs-bytes"
}

var c17aPathVals = []string{"x", "0", "-1", "%00", "%2F", "%2f..%2f", "..", ".", "*", "_all", ".kibana", "ind-0", "c17boot", "ind-*", "ind-0,c17boot", "%20", "a%20b", "%E6%97%A5", "%ff", "%", "%zz", "{", "}", "{x}", "+", "null", "true",
	"00000000-0000-0000-0000-000000000000", "root-folder", "18446744073709551616", "-9223372036854775809", "1e9", "_search", "_doc", "_bulk", "_alias", "_mapping", "@LONG@"}

func c17aSetJSONPath(text string, path string, val string) string {
	var root interface{}
	dec := json.NewDecoder(strings.NewReader(text))
	dec.UseNumber()
	if dec.Decode(&root) != nil {
		return text
	}
	var p c17aPath
	for _, e := range strings.Split(path, ".") {
		if n := strings.TrimLeft(e, "0123456789"); n == "" && e != "" {
			i := 0
			fmt.Sscan(e, &i)
			p = append(p, i)
		} else {
			p = append(p, e)
		}
	}
	b, err := json.Marshal(c17aSet(root, p, val, false))
	if err != nil {
		return text
	}
	return string(b)
}

// c17aGenLine: one op line for the route
func c17aGenLine(r *rand.Rand, rt *c17aRoute) string {
	method, ctype := rt.method, rt.ctype
	body := rt.body
	var bin []byte
	if rt.bin != nil {
		bin = rt.bin()
	}
	var class []string
	if rt.binv != nil && r.Intn(2) == 1 {
		bin = rt.binv(r)
		class = append(class, "proto-variant")
	}
	qs := c17aParseQS(rt.query)
	pv := map[string]string{}
	for k, v := range rt.pv {
		pv[k] = v
	}
	hdr := append([][2]string{}, rt.hdr...)
	lenMismatch := 0

	// a query text of the route's language
	where, field, lang := "", "", ""
	if rt.text != "" {
		f := strings.SplitN(rt.text, ":", 3)
		where, field, lang = f[0], f[1], f[2]
	}
	if where != "" && r.Intn(10) < 6 {
		langName := ""
		if lang == "logs" {
			l := c17aLogLangs[r.Intn(len(c17aLogLangs))]
			lang, langName = l.lang, l.name
		}
		text := c17aText(r, lang)
		class = append(class, "text:"+lang)
		switch where {
		case "json":
			body = c17aSetJSONPath(body, field, text)
			if langName != "" {
				body = c17aSetJSONPath(body, "queryLanguage", langName)
			}
		case "form":
			ps := c17aParseQS(body)
			for i := range ps {
				if ps[i].k == field {
					ps[i].v = text
				}
			}
			body = c17aEncQS(ps)
		case "query":
			for i := range qs {
				if qs[i].k == field {
					qs[i].v = text
				}
			}
		case "body":
			body = text
		}
	}

	// structural mutations: none (valid request / text only), one, or two
	nmut := []int{0, 1, 1, 1, 1, 2}[r.Intn(6)]
	if where == "" && nmut == 0 && r.Intn(4) > 0 {
		nmut = 1
	}
	for m := 0; m < nmut; m++ {
		var opts []string
		if body != "" {
			opts = append(opts, "body", "body", "body", "body")
		}
		if bin != nil {
			opts = append(opts, "bin", "bin", "bin")
		}
		if len(qs) > 0 {
			opts = append(opts, "qs", "qs", "qs")
		} else {
			opts = append(opts, "qs")
		}
		if len(pv) > 0 {
			opts = append(opts, "path", "path")
		}
		opts = append(opts, "hdr")
		switch opts[r.Intn(len(opts))] {
		case "body":
			var c string
			if strings.Contains(ctype, "json") || strings.HasPrefix(strings.TrimSpace(body), "{") || strings.HasPrefix(strings.TrimSpace(body), "[") {
				if rt.ctype == "application/x-ndjson" { // bulk bodies: one of the lines
					ls := strings.Split(strings.TrimRight(body, "\n"), "\n")
					i := r.Intn(len(ls))
					ls[i], c = c17aMutJSON(r, ls[i])
					body = strings.Join(ls, "\n") + "\n"
					if r.Intn(6) == 0 {
						body = strings.TrimRight(body, "\n")
						c += "+no-final-newline"
					}
				} else {
					body, c = c17aMutJSON(r, body)
				}
			} else if strings.Contains(ctype, "x-www-form-urlencoded") {
				var ps []c17aParam
				ps, c = c17aMutQS(r, c17aParseQS(body))
				body = c17aEncQS(ps)
			} else {
				body, c = c17aMutBytes(r, body)
			}
			class = append(class, c)
		case "bin":
			s, c := c17aMutBytes(r, string(bin))
			bin = []byte(s)
			class = append(class, "bin-"+c)
		case "qs":
			var c string
			qs, c = c17aMutQS(r, qs)
			class = append(class, c)
		case "path":
			keys := make([]string, 0, len(pv))
			for k := range pv {
				keys = append(keys, k)
			}
			sort.Strings(keys)
			k := keys[r.Intn(len(keys))]
			v := c17aPathVals[r.Intn(len(c17aPathVals))]
			if v == "@LONG@" {
				v = c17aLong[:3000]
			}
			if r.Intn(3) == 0 {
				v = url.PathEscape(c17aPoolStr(r))
				if v == "" {
					v = "%20"
				}
				if len(v) > 6000 {
					v = v[:6000]
				}
			}
			pv[k] = v
			class = append(class, "path-param")
		case "hdr":
			switch r.Intn(8) {
			case 0:
				ctype = []string{"", "text/plain", "application/json", "application/x-www-form-urlencoded", "application/x-protobuf", "multipart/form-data", "multipart/form-data; boundary=x", "application/json; charset=utf-16", "application/x-ndjson"}[r.Intn(9)]
				class = append(class, "hdr-content-type")
			case 1:
				hdr = append(hdr, [2]string{"Content-Encoding", []string{"gzip", "snappy", "deflate", "zstd", "identity", "x"}[r.Intn(6)]})
				class = append(class, "hdr-content-encoding")
			case 2: // really gzipped
				var z bytes.Buffer
				zw := gzip.NewWriter(&z)
				if bin != nil {
					zw.Write(bin)
				} else {
					zw.Write([]byte(body))
				}
				zw.Close()
				bin, body = z.Bytes(), ""
				if r.Intn(3) == 0 && len(bin) > 4 {
					bin = bin[:len(bin)-1-r.Intn(4)]
				}
				hdr = append(hdr, [2]string{"Content-Encoding", "gzip"})
				class = append(class, "hdr-gzip-body")
			case 3:
				lenMismatch = []int{1, 7, 100000, -1}[r.Intn(4)]
				class = append(class, "hdr-content-length")
			case 4:
				if rt.method == "GET" || rt.method == "HEAD" {
					method = []string{"HEAD", "GET"}[r.Intn(2)]
				}
				hdr = append(hdr, [2]string{"Accept-Encoding", "gzip, br"})
				class = append(class, "hdr-accept")
			case 5:
				hdr = append(hdr, [2]string{[]string{"Authorization", "X-Scope-OrgID", "Cookie", "Origin", "X-Prometheus-Remote-Write-Version", "Expect", "Range", "If-Modified-Since"}[r.Intn(8)], c17aPoolStrHdr(r)})
				class = append(class, "hdr-extra")
			case 6: // the form of the other kind: a JSON route gets its fields as a form and the other way round
				if strings.Contains(ctype, "json") && body != "" {
					var m map[string]interface{}
					if json.Unmarshal([]byte(body), &m) == nil {
						var ps []c17aParam
						keys := make([]string, 0, len(m))
						for k := range m {
							keys = append(keys, k)
						}
						sort.Strings(keys)
						for _, k := range keys {
							ps = append(ps, c17aParam{k: k, v: fmt.Sprint(m[k])})
						}
						body, ctype = c17aEncQS(ps), "application/x-www-form-urlencoded"
					}
				} else if strings.Contains(ctype, "x-www-form-urlencoded") {
					m := map[string]string{}
					for _, p := range c17aParseQS(body) {
						m[p.k] = p.v
					}
					body, ctype = string(c17aJSON(m)), "application/json"
				}
				class = append(class, "hdr-other-encoding")
			default: // the parameters of the query string in the body and the other way round
				if body != "" && strings.Contains(ctype, "x-www-form-urlencoded") && len(qs) == 0 {
					qs, body = c17aParseQS(body), ""
				} else if body == "" && len(qs) > 0 && (method == "POST" || method == "PUT") {
					body, qs, ctype = c17aEncQS(qs), nil, "application/x-www-form-urlencoded"
				}
				class = append(class, "hdr-params-moved")
			}
		}
	}

	// the request bytes
	path := rt.path
	for k, v := range pv {
		path = strings.ReplaceAll(path, "{"+k+"}", v)
		path = strings.ReplaceAll(path, "{"+k+"?}", v)
	}
	if len(qs) > 0 {
		path += "?" + c17aEncQS(qs)
	}
	if len(path) > 7000 { // the servers read request heads of 4 KiB … 8 KiB; longer ones are refused by fasthttp itself
		path = path[:7000]
	}
	var payload []byte
	if bin != nil {
		payload = bin
	} else if body != "" {
		payload = []byte(body)
	}
	if rt.ws { // (the path of a websocket line is the route's own: parameters travel in the text frame)
		if payload == nil {
			payload = []byte("{}")
		}
		return "ws " + rt.id() + " " + hex.EncodeToString(payload) + c17aClassComment(class)
	}
	var b bytes.Buffer
	b.WriteString(method + " " + path + " HTTP/1.1\r\nHost: localhost\r\nConnection: close\r\n")
	if ctype != "" && (payload != nil || method == "POST" || method == "PUT") {
		b.WriteString("Content-Type: " + ctype + "\r\n")
	}
	for _, kv := range hdr {
		b.WriteString(kv[0] + ": " + kv[1] + "\r\n")
	}
	if payload != nil || method == "POST" || method == "PUT" {
		n := len(payload) + lenMismatch
		if lenMismatch == -1 {
			n = len(payload) / 2
		}
		fmt.Fprintf(&b, "Content-Length: %d\r\n", n)
	}
	b.WriteString("\r\n")
	b.Write(payload)
	return "rq " + rt.srv + " " + rt.id() + " " + hex.EncodeToString(b.Bytes()) + c17aClassComment(class)
}

func c17aPoolStrHdr(r *rand.Rand) string {
	s := c17aPoolStr(r)
	s = strings.Map(func(c rune) rune {
		if c == '\r' || c == '\n' || c == 0 {
			return ' '
		}
		return c
	}, s)
	if len(s) > 3000 {
		s = s[:3000]
	}
	return s
}

// the mutation classes of a line travel in its last token (`#a+b`): they end up in the distribution tags
func c17aClassComment(class []string) string {
	if len(class) == 0 {
		return " #valid"
	}
	return " #" + strings.Join(class, "+")
}

// ---------------------------------------------------------------- stored data that a later read meets

// c17aGenSeq: a document of the shape an index normally holds, mutated, is ingested into that index; then one of the
// read routes over that index is asked (its valid request).  One line, one server: `sq … <prepare>`.
func c17aGenSeq(r *rand.Rand, rts []c17aRoute) string {
	type target struct {
		index string
		doc   string
		reads []string // route ids
	}
	nowNano := int64(1700000000) * 1e9
	targets := []target{
		{"traces", c17aSpanDoc(nowNano, "c3c3c3c3c3c3c3c3c3c3c3c3c3c3c3c3", "b1b1b1b1b1b1b1b1", "", "c17svc", "c17op"),
			[]string{"POST/api/traces/search", "POST/api/traces/ganttChart", "GET/jaeger/api/traces", "POST/api/traces/span/ganttChart", "POST/api/traces/count", "GET/jaeger/api/services", "POST/api/traces/generate-dep-graph"}},
		{"service-dependency", c17aDepDoc, []string{"POST/api/traces/dependencies", "GET/jaeger/api/dependencies"}},
		{"ind-0", `{"a":1,"b":"x","c":"p","d":0.5,"host":"h1","msg":"foo bar","nested":{"k":"v"},"arr":[1,2]}`,
			[]string{"POST/api/search", "POST/elastic/{indexName}/_search", "POST/api/listColumnNames", "GET/api/search/ws"}},
	}
	t := targets[r.Intn(len(targets))]
	doc := t.doc
	if t.index == "traces" && r.Intn(2) == 0 { // the span the read routes ask for: the trace of the bootstrap
		doc = c17aSpanDoc(c17aNowNanoToken, "c2c2c2c2c2c2c2c2c2c2c2c2c2c2c2c2", "a3a3a3a3a3a3a3a3", "a1a1a1a1a1a1a1a1", "c17svc", "c17child")
	}
	class := []string{"stored:" + t.index}
	for n := 1 + r.Intn(2); n > 0; n-- {
		var c string
		doc, c = c17aMutJSON(r, doc)
		class = append(class, c)
	}
	if !strings.HasPrefix(strings.TrimSpace(doc), "{") || strings.ContainsAny(doc, "\n") { // a bulk line holds one object
		doc = t.doc
	}
	prep := c17aReqBytes("POST", "/elastic/_bulk", [][2]string{{"Content-Type", "application/json"}}, c17aBulkOf(t.index, doc))
	want := t.reads[r.Intn(len(t.reads))]
	for i := range rts {
		if rts[i].id() == want && !rts[i].ws {
			line := c17aGenValid(&rts[i])
			f := strings.Fields(line)
			if len(f) >= 4 && f[0] == "rq" {
				return "sq " + f[1] + " " + f[2] + " " + f[3] + " i:" + hex.EncodeToString(prep) + c17aClassComment(class)
			}
		}
	}
	return c17aGenModelLine(r)
}

func c17aGen(r *rand.Rand, n int, tier string) []string {
	rts := c17aRoutes()
	var pick []*c17aRoute
	for i := range rts {
		w := rts[i].weight
		if w == 0 {
			w = 1
		}
		for j := 0; j < w; j++ {
			pick = append(pick, &rts[i])
		}
	}
	var out []string
	// every route once with its valid request, then weighted at random; a share of lines for the model-tied parsers
	for i := range rts {
		if len(out) < n/3 {
			out = append(out, c17aGenValid(&rts[i]))
		}
	}
	c17aPromPlan = nil
	if n >= 1000 {
		c17aPromPlan = promNumPlan(r, []string{"c17d", "cpu"}) // c17d: several samples per window and per bucket; cpu: two series
	}
	// the goroutines of a query after each terminal state (`gl`): early, while the servers are fresh, every state on every server
	ngl := 12
	if tier != "quick" {
		ngl = 48
	}
	if n < 200 {
		ngl = 4
	}
	for i := 0; i < ngl && len(out) < n; i++ {
		// (rotated, so that the states of a server differ; `cancelled` more rarely: on a tree whose cancelled queries keep their
		// timer goroutine — known finding — each such line waits for the whole deadline)
		st := []string{"timeout", "complete", "error", "timeout", "cancelled", "complete", "error", "timeout", "complete", "error", "timeout", "complete"}[i%12]
		out = append(out, c17gGenLine(r, st))
	}
	for len(out) < n {
		if r.Intn(12) == 0 {
			out = append(out, c17aGenModelLine(r))
			continue
		}
		if r.Intn(14) == 0 {
			out = append(out, c17aGenSeq(r, rts))
			continue
		}
		if r.Intn(5) == 0 {
			out = append(out, c17aGenPromNum(r, rts))
			continue
		}
		out = append(out, c17aGenLine(r, pick[r.Intn(len(pick))]))
	}
	// tickets: the j-th line that goes to a server (see c17aAcquire)
	j := 0
	for i, l := range out {
		if strings.HasPrefix(l, "rq ") || strings.HasPrefix(l, "ws ") || strings.HasPrefix(l, "sq ") || strings.HasPrefix(l, "gl ") {
			out[i] = l + "@" + strconv.Itoa(j)
			j++
		}
	}
	return out
}

// the valid request of the route, unchanged
func c17aGenValid(rt *c17aRoute) string {
	zero := rand.New(c17aZeroSrc{})
	save := rt.text
	rt.text = ""
	defer func() { rt.text = save }()
	// nmut is drawn from a source that always answers 0: no text, no mutation
	return c17aGenLine(zero, rt)
}

type c17aZeroSrc struct{}

func (c17aZeroSrc) Int63() int64 { return 0 }
func (c17aZeroSrc) Seed(int64)   {}
