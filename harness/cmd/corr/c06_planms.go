package main

import (
	"encoding/hex"
	"fmt"
	"io"
	"math/rand"
	"sort"
	"strings"
	"time"

	"github.com/siglens/siglens/pkg/ast/pipesearch"
	"github.com/siglens/siglens/pkg/config"
	"github.com/siglens/siglens/pkg/segment/query"
	"github.com/siglens/siglens/pkg/segment/query/iqr"
	"github.com/siglens/siglens/pkg/segment/query/processor"
	sutils "github.com/siglens/siglens/pkg/segment/utils"
)

// suite "pipeplan", op form `planms` (C06: a DataProcessor with SEVERAL input streams — DataProcessor.getStreamInput):
//
//	planms M=<ts|sort:<L>:<±f,…>> C=<cmd>|<cmd>… A=<digit per row> S=<n.n.…>/<n.n.…>/… R=<row>;<row>…
//
//	C: 1..4 commands of the executed kinds of `plan` (same grammar).  The FIRST DataProcessor of the chain (real parser +
//	   AggsToDataProcessors + setMergeSettings) is given k = 1..4 input streams with SetStreams([]*CachedStream over replaying
//	   sources) and its merge settings with SetMergeSettingsBasedOnStream: M=ts → (nil): timestamp, most recent first, no limit;
//	   M=sort:… → (the DataProcessor of that sort): its comparator and its limit (L=0: the grammar's default 10000).  The other
//	   DataProcessors read their predecessor; the last one is fetched until EOF.  A chain that starts with stats is parsed behind a
//	   `where` that is dropped again (a leading stats would be handed to the searcher).
//	R: the rows of ALL streams in merge order (strictly: the comparator tells every two rows apart; M=ts: every row has an int
//	   `timestamp` ≥ 0); A: row i belongs to stream A[i] (so every stream is sorted in merge order); S: one entry per stream
//	   (k = their number): its rows are delivered in batches of these sizes, what is left over as one more batch; never an empty batch.
//	bad-op also: a first command that takes the fast path (ignoresInputOrder && bottleneck: sort, stats), or a single stream, together
//	   with a merge limit below the number of rows (neither applies the limit: not judged).
//
// Out: "ms dp=<name[flags] of the first DataProcessor> fast=<ignoresInputOrder && bottleneck> k=<k> | ok cmp=<seq|set> n=<rows> <row>;…"
// (or " | skip=not-judged" / " | err" / " | panic" / " | hang").
//
// PropFail (the statement itself, independent of the model):
//   - plan-ms/<first command>/order-depends-on-split: the answer with the k streams ≠ the answer with the same rows (the first
//     `limit` of them) as ONE stream in merge order, one batch
//   - plan-ms/<first command>/order-depends-on-batching: the answer with the k streams delivered one row per batch resp. each as
//     one batch ≠ that one-stream answer
//   - plan-ms/<first command>/semantics: the one-stream answer ≠ the documented meaning (reference evaluator of c06_plan.go)

type c06pmOp struct {
	mts    bool
	msort  c06pCmd
	cmds   []c06pCmd
	asg    []int
	sizes  [][]int
	rows   []c06Row
	cmp    string
	limit  int // -1: none
	nfirst string
	cols   []string // the columns every batch carries: all columns of the table
}

func c06pmKeys(op *c06pmOp) []c06pKey {
	if op.mts {
		return []c06pKey{{"timestamp", false}}
	}
	return op.msort.keys
}

func c06pmRowsOK(rows []c06Row) bool {
	ids := map[int64]bool{}
	for _, r := range rows {
		got := map[string]bool{}
		for _, cell := range r {
			switch cell.v.kind {
			case 'i':
				if cell.v.i < -1000000 || cell.v.i > 1000000 {
					return false
				}
				got[cell.k] = true
			case 's':
				b, _ := hex.DecodeString(cell.v.s)
				if !c06pLowerRe.Match(b) {
					return false
				}
			}
			if cell.k == "id" {
				if cell.v.kind != 'i' || ids[cell.v.i] {
					return false
				}
				ids[cell.v.i] = true
			}
		}
		if !got["id"] || !got["x"] || !got["w"] {
			return false
		}
	}
	return true
}

func c06pmFast(c c06pCmd) bool { return c.kind == "sort" || c.kind == "stats" }

func c06pmParse(line string) (c06pmOp, bool) {
	var op c06pmOp
	f := strings.Fields(line)
	if len(f) != 6 || f[0] != "planms" || !strings.HasPrefix(f[1], "M=") || !strings.HasPrefix(f[2], "C=") || !strings.HasPrefix(f[3], "A=") ||
		!strings.HasPrefix(f[4], "S=") || !strings.HasPrefix(f[5], "R=") {
		return op, false
	}
	op.limit = -1
	if m := f[1][2:]; m == "ts" {
		op.mts = true
	} else {
		c, ok := c06pParseCmd(m)
		if !ok || c.kind != "sort" {
			return op, false
		}
		op.msort = c
		op.limit = c06pLimit(c)
	}
	for _, cs := range strings.Split(f[2][2:], "|") {
		c, ok := c06pParseCmd(cs)
		if !ok || !c.exec {
			return op, false
		}
		op.cmds = append(op.cmds, c)
	}
	if len(op.cmds) > 4 {
		return op, false
	}
	for _, ch := range f[3][2:] {
		if ch < '0' || ch > '9' {
			return op, false
		}
		op.asg = append(op.asg, int(ch-'0'))
	}
	for _, ss := range strings.Split(f[4][2:], "/") {
		sz := []int{}
		if ss != "" {
			for _, x := range strings.Split(ss, ".") {
				v, ok := c06Nat(x, 1000)
				if !ok || v < 1 {
					return op, false
				}
				sz = append(sz, int(v))
			}
		}
		op.sizes = append(op.sizes, sz)
	}
	k := len(op.sizes)
	if k < 1 || k > 4 {
		return op, false
	}
	var ok bool
	if op.rows, ok = c06ParseRows(f[5][2:]); !ok || !c06pmRowsOK(op.rows) || len(op.asg) != len(op.rows) {
		return op, false
	}
	for _, a := range op.asg {
		if a >= k {
			return op, false
		}
	}
	all := c06Keys(op.rows)
	op.cols = all
	has := map[string]bool{}
	for _, c := range all {
		has[c] = true
	}
	if op.mts {
		for _, r := range op.rows {
			good := false
			for _, cell := range r {
				if cell.k == "timestamp" && cell.v.kind == 'i' && cell.v.i >= 0 {
					good = true
				}
			}
			if !good {
				return op, false
			}
		}
	} else {
		for _, key := range op.msort.keys {
			if !has[key.f] {
				return op, false
			}
		}
	}
	ref := c06pRefTable(op.rows)
	keys := c06pmKeys(&op)
	for i := 0; i+1 < len(ref); i++ {
		if !c06pLess(keys, ref[i], ref[i+1]) {
			return op, false
		}
	}
	if op.cmp, ok = c06pWFx(op.cmds, all, true); !ok {
		return op, false
	}
	if (c06pmFast(op.cmds[0]) || k == 1) && op.limit >= 0 && op.limit < len(op.rows) { // neither the fast path nor a single stream applies the limit
		return op, false
	}
	op.nfirst = op.cmds[0].kind
	if op.cmds[0].twoPass() {
		op.nfirst += "-2pass"
	}
	return op, true
}

// the batches of every stream
func c06pmStreams(op *c06pmOp, sizes [][]int) [][][]c06Row {
	k := len(sizes)
	per := make([][]c06Row, k)
	for i, r := range op.rows {
		per[op.asg[i]] = append(per[op.asg[i]], r)
	}
	out := make([][][]c06Row, k)
	for j := 0; j < k; j++ {
		rows := per[j]
		for _, n := range sizes[j] {
			if len(rows) == 0 {
				break
			}
			if n > len(rows) {
				n = len(rows)
			}
			out[j] = append(out[j], rows[:n])
			rows = rows[n:]
		}
		if len(rows) > 0 {
			out[j] = append(out[j], rows)
		}
	}
	return out
}

// c06pmChain: the DataProcessors of the chain (real parser, AggsToDataProcessors, setMergeSettings), wired one behind the other
func c06pmChain(cmds []c06pCmd) ([]*processor.DataProcessor, string) {
	c06ConfigOnce.Do(func() { config.SetTimeStampKey("timestamp") })
	c06pOnce.Do(func() { config.SetNewQueryPipelineEnabled(true) })
	var parts []string
	for _, c := range cmds {
		parts = append(parts, c.spl())
	}
	drop := cmds[0].kind == "stats"
	spl := "* | " + strings.Join(parts, " | ")
	if drop {
		spl = "* | where id>-10000000 | " + strings.Join(parts, " | ")
	}
	_, aggs, _, err := pipesearch.ParseQuery(spl, c06Qid, "Splunk QL")
	if err != nil || aggs == nil {
		return nil, "parse"
	}
	if drop {
		aggs = aggs.Next
		if aggs == nil {
			return nil, "parse"
		}
	}
	ch := processor.AggsToDataProcessors(aggs, &query.QueryInformation{})
	if len(ch) == 0 {
		return nil, "parse"
	}
	processor.VerifC06PSetMergeSettings(ch)
	for m := 1; m < len(ch); m++ {
		ch[m].SetStreams([]*processor.CachedStream{processor.NewCachedStream(ch[m-1])})
	}
	return ch, ""
}

func c06pmDrain(top *processor.DataProcessor) c06Out {
	out := c06Out{status: "ok"}
	var err error
	for i := 0; err != io.EOF; i++ {
		if i > 100000 {
			return c06Out{status: "hang"}
		}
		var q *iqr.IQR
		q, err = top.Fetch()
		if err != nil && err != io.EOF {
			return c06Out{status: "err", msg: err.Error()}
		}
		if q == nil {
			continue
		}
		colset, e := q.GetColumns()
		if e != nil {
			return c06Out{status: "err", msg: e.Error()}
		}
		names := make([]string, 0, len(colset))
		for c := range colset {
			names = append(names, c)
		}
		sort.Strings(names)
		n := q.NumberOfRecords()
		vals := map[string][]sutils.CValueEnclosure{}
		for _, c := range names {
			v, e := q.ReadColumn(c)
			if e != nil || len(v) != n {
				return c06Out{status: "err", msg: fmt.Sprintf("column %s: %v len=%d n=%d", c, e, len(v), n)}
			}
			vals[c] = v
		}
		for r := 0; r < n; r++ {
			var cells []string
			for _, c := range names {
				if s, ok := c06pShow(vals[c][r]); ok {
					cells = append(cells, c+"~"+s)
				}
			}
			if len(cells) == 0 {
				out.rows = append(out.rows, "-")
			} else {
				out.rows = append(out.rows, strings.Join(cells, ","))
			}
		}
	}
	return out
}

// c06pmRun: the chain over the given streams (batches per stream); returns the flags of the first DataProcessor too
func c06pmRun(op *c06pmOp, streams [][][]c06Row) (flags string, fast bool, out c06Out) {
	defer func() {
		if r := recover(); r != nil {
			out = c06Out{status: "panic", msg: fmt.Sprint(r) + c06pStack()}
		}
	}()
	ch, e := c06pmChain(op.cmds)
	if e != "" {
		return "", false, c06Out{status: "err", msg: e}
	}
	first := ch[0]
	flags, fast = c06pFlags(first), first.IgnoresInputOrder() && first.IsBottleneckCmd()
	all := op.cols
	var cached []*processor.CachedStream
	for _, bs := range streams {
		cols := make([][]string, len(bs))
		for j := range cols {
			cols[j] = all
		}
		cached = append(cached, processor.NewCachedStream(&c06Stream{batches: bs, cols: cols}))
	}
	first.SetStreams(cached)
	if op.mts {
		first.SetMergeSettingsBasedOnStream(nil)
	} else {
		sch, e := c06pmChain([]c06pCmd{op.msort})
		if e != "" || len(sch) != 1 {
			return flags, fast, c06Out{status: "err", msg: "merge-sort " + e}
		}
		first.SetMergeSettingsBasedOnStream(sch[0])
	}
	return flags, fast, c06pmDrain(ch[len(ch)-1])
}

func c06pmRunTimed(op *c06pmOp, streams [][][]c06Row) (string, bool, c06Out) {
	type res struct {
		fl string
		fa bool
		o  c06Out
	}
	ch := make(chan res, 1)
	go func() {
		fl, fa, o := c06pmRun(op, streams)
		ch <- res{fl, fa, o}
	}()
	select {
	case r := <-ch:
		return r.fl, r.fa, r.o
	case <-time.After(10 * time.Second):
		return "", false, c06Out{status: "hang", msg: "no answer within 10 s"}
	}
}

func c06pmExec(line string) Result {
	op, ok := c06pmParse(line)
	if !ok {
		return Result{Out: "bad-op", Tags: []string{"bad-op"}}
	}
	k := len(op.sizes)
	streams := c06pmStreams(&op, op.sizes)
	merged := op.rows
	if op.limit >= 0 && op.limit < len(merged) {
		merged = merged[:op.limit]
	}
	ref, rok := c06pRefRun(op.cmds, c06pRefTable(op.rows)[:len(merged)])
	flags, fast, got := c06pmRunTimed(&op, streams)
	res := Result{}
	b01 := func(x bool) int {
		if x {
			return 1
		}
		return 0
	}
	head := fmt.Sprintf("ms dp=%s fast=%d k=%d | ", flags, b01(fast), k)
	if !rok {
		res.Out = head + "skip=not-judged"
	} else {
		res.Out = head + c06pCanon(got, op.cmp)
	}
	// --- distribution tags
	nb, maxB, minB, withData := 0, 0, 1000, 0
	straddle := false
	pos := make([][]int, k) // positions (in merge order) of the rows of every stream
	for i, a := range op.asg {
		pos[a] = append(pos[a], i)
	}
	for j, bs := range streams {
		if len(bs) > 0 {
			withData++
		}
		at := 0
		for _, b := range bs {
			nb++
			if len(b) > maxB {
				maxB = len(b)
			}
			if len(b) < minB {
				minB = len(b)
			}
			if len(b) >= 2 && pos[j][at+len(b)-1]-pos[j][at] != len(b)-1 { // a row of another stream belongs between two rows of this batch
				straddle = true
			}
			at += len(b)
		}
	}
	inter := false
	for j := range pos {
		if n := len(pos[j]); n >= 2 && pos[j][n-1]-pos[j][0] != n-1 {
			inter = true
		}
	}
	bt := "none"
	switch {
	case nb == 0:
	case maxB == 1:
		bt = "1"
	case minB == maxB:
		bt = fmt.Sprintf("all-%d", maxB)
	default:
		bt = "mixed"
	}
	yn := func(x bool) string {
		if x {
			return "yes"
		}
		return "no"
	}
	mt := "ts"
	if !op.mts {
		mt = "sort"
		if op.limit < len(op.rows) {
			mt = "sort-limit-cuts"
		}
	}
	res.Tags = []string{"ms", "ms-kind=" + op.nfirst, fmt.Sprintf("ms-k=%d", k), fmt.Sprintf("ms-streams-with-data=%d", withData), "ms-batches=" + bt,
		"ms-interleaved=" + yn(inter), "ms-batch-straddles=" + yn(straddle), "ms-two-pass=" + yn(op.cmds[0].twoPass()), "ms-merge=" + mt,
		fmt.Sprintf("ms-fast=%d", b01(fast)), fmt.Sprintf("ms-cmds=%d", len(op.cmds))}
	if withData < k {
		res.Tags = append(res.Tags, "ms-empty-stream")
	}
	res.Nontrivial = len(op.rows) >= 3 && withData >= 2
	if !rok {
		res.Tags = append(res.Tags, "skip=not-judged")
		return res
	}
	if got.status != "ok" {
		res.Tags = append(res.Tags, "status="+got.status)
	}
	// --- the statement itself: one stream in merge order
	one := op
	one.asg = make([]int, len(merged))
	one.rows = merged
	var oneStream [][][]c06Row
	if len(merged) > 0 {
		oneStream = [][][]c06Row{{merged}}
	} else {
		oneStream = [][][]c06Row{{}}
	}
	_, _, base := c06pmRunTimed(&one, oneStream)
	want := c06pCanon(base, op.cmp)
	where := fmt.Sprintf("%d streams, rows of the streams (positions in merge order) %v, batch sizes %v", k, pos, op.sizes)
	if a := c06pCanon(got, op.cmp); a != want {
		sig := "plan-ms/" + op.nfirst + "/order-depends-on-split"
		if got.status == "hang" {
			sig = "plan-ms/" + op.nfirst + "/hang"
		}
		res.Fails = append(res.Fails, PropFail{Sig: sig, Msg: fmt.Sprintf("%s: [%s] %s  but the same rows as ONE stream in merge order: [%s] %s", where, a, got.msg, want, base.msg)})
	}
	for _, alt := range []int{1, 1000} { // a second and a third batching of the same streams: one row per batch, one batch per stream
		sz := make([][]int, k)
		for j := range sz {
			n := len(pos[j])/alt + 1
			if alt == 1000 {
				n = 1
			}
			for i := 0; i < n; i++ {
				sz[j] = append(sz[j], alt)
			}
		}
		_, _, o2 := c06pmRunTimed(&op, c06pmStreams(&op, sz))
		if a := c06pCanon(o2, op.cmp); a != want {
			res.Fails = append(res.Fails, PropFail{Sig: "plan-ms/" + op.nfirst + "/order-depends-on-batching", Msg: fmt.Sprintf("%d streams, rows of the streams %v, batches of %d: [%s] %s  but the same rows as ONE stream in merge order: [%s] %s", k, pos, alt, a, o2.msg, want, base.msg)})
			break
		}
	}
	if wantRef := c06pRefCanon(ref, op.cmp); want != wantRef {
		res.Fails = append(res.Fails, PropFail{Sig: "plan-ms/" + op.nfirst + "/semantics", Msg: fmt.Sprintf("one stream, one batch: [%s] %s  documented meaning: [%s]", want, base.msg, wantRef)})
	}
	return res
}

// ---------------------------------------------------------------- generator

var c06pmCorpus = []string{
	// the two-pass bottlenecks over two interleaving streams, batches of 2 (seed C06-5: read unmerged they come out batch-wise)
	"planms M=ts C=fillnull:46: A=01010101 S=2.2/2.2 R=id~i1,x~i1,w~i0,timestamp~i10,a~i1;id~i2,x~i2,w~i0,timestamp~i9;id~i3,x~i3,w~i0,timestamp~i8,a~i2;id~i4,x~i4,w~i0,timestamp~i7,a~i1;id~i5,x~i5,w~i0,timestamp~i6;id~i6,x~i6,w~i0,timestamp~i5,a~i3;id~i7,x~i7,w~i0,timestamp~i4,a~i1;id~i8,x~i8,w~i0,timestamp~i3",
	"planms M=ts C=bin:x:0:2|head:3 A=012012 S=2/1.1/2 R=id~i1,x~i0,w~i0,timestamp~i60;id~i2,x~i30,w~i0,timestamp~i50;id~i3,x~i35,w~i0,timestamp~i40;id~i4,x~i60,w~i0,timestamp~i30;id~i5,x~i70,w~i0,timestamp~i20;id~i6,x~i100,w~i0,timestamp~i10",
	// merge settings of an upstream sort with a limit the merge reaches in its second round
	"planms M=sort:3:-x,+id C=fillnull:46: A=0101 S=1.1/2 R=id~i1,x~i9,w~i0,timestamp~i1;id~i2,x~i7,w~i0,timestamp~i2;id~i3,x~i5,w~i0,timestamp~i3;id~i4,x~i3,w~i0,timestamp~i4",
	"planms M=sort:0:+x,+id C=tail:2 A=0120 S=1/1/1 R=id~i1,x~i1,w~i0,timestamp~i1;id~i2,x~i2,w~i0,timestamp~i2;id~i3,x~i3,w~i0,timestamp~i3;id~i4,x~i4,w~i0,timestamp~i4",
	// the fast path: commands that ignore their input order
	"planms M=ts C=stats:count.c+sum.x.e:w A=0101 S=2/2 R=id~i1,x~i1,w~i0,timestamp~i4;id~i2,x~i2,w~i1,timestamp~i3;id~i3,x~i3,w~i0,timestamp~i2;id~i4,x~i4,w~i1,timestamp~i1",
	"planms M=ts C=sort:2:-x,+id A=0011 S=1.1/2 R=id~i1,x~i1,w~i0,timestamp~i4;id~i2,x~i2,w~i1,timestamp~i3;id~i3,x~i3,w~i0,timestamp~i2;id~i4,x~i4,w~i1,timestamp~i1",
	// malformed: rows not in merge order, a stream index ≥ k, fast path under a cutting limit, no timestamp
	"planms M=ts C=head:1 A=01 S=1/1 R=id~i1,x~i1,w~i0,timestamp~i1;id~i2,x~i2,w~i0,timestamp~i2",
	"planms M=ts C=head:1 A=02 S=1/1 R=id~i1,x~i1,w~i0,timestamp~i2;id~i2,x~i2,w~i0,timestamp~i1",
	"planms M=sort:1:+id C=stats:count.c:- A=01 S=1/1 R=id~i1,x~i1,w~i0;id~i2,x~i2,w~i0",
	"planms M=ts C=head:1 A=01 S=1/1 R=id~i1,x~i1,w~i0;id~i2,x~i2,w~i0",
}

func c06pmGen(r *rand.Rand) string {
	nrows := 4 + r.Intn(9)
	if r.Intn(12) == 0 {
		nrows = r.Intn(4)
	}
	rows := c06pGenRows(r, nrows, r.Intn(3) == 0, false)
	// distinct timestamps
	ts := r.Perm(nrows + 5)
	for i := range rows {
		rows[i] += fmt.Sprintf(",timestamp~i%d", 100+ts[i]*(1+r.Intn(2)))
	}
	// distinctness after the random factor: fall back to the permutation itself when two collide
	seen := map[string]bool{}
	for i, row := range rows {
		t := row[strings.LastIndex(row, "timestamp~"):]
		if seen[t] {
			for j := range rows {
				rows[j] = rows[j][:strings.LastIndex(rows[j], ",timestamp~")] + fmt.Sprintf(",timestamp~i%d", 100+ts[j])
			}
			break
		}
		seen[t] = true
		_ = i
	}
	parsed, _ := c06ParseRows(strings.Join(rows, ";"))
	tableCols := c06Keys(parsed)
	// first command: every executed kind, the two-pass bottlenecks often
	var chain []string
	ok := true
	ext := func(kinds []string, must func(c06pCmd) bool) {
		if !ok {
			return
		}
		for try := 0; try < 60; try++ {
			cs := c06pGenCmd(r, nrows+1, kinds)
			pc, good := c06pParseCmd(cs)
			if !good || (must != nil && !must(pc)) {
				continue
			}
			var ps []c06pCmd
			for _, x := range append(append([]string{}, chain...), cs) {
				p, _ := c06pParseCmd(x)
				ps = append(ps, p)
			}
			if _, good := c06pWFx(ps, tableCols, true); good {
				chain = append(chain, cs)
				return
			}
		}
		ok = false
	}
	switch q := r.Intn(100); {
	case q < 40:
		ext([]string{"fillnull", "bin"}, func(c c06pCmd) bool { return c.twoPass() })
	case q < 50:
		ext([]string{"fillnull", "bin"}, func(c c06pCmd) bool { return !c.twoPass() })
	default:
		ext([]string{"head", "tail", "dedup", "sort", "stats", "where", "eval", "rename", "fields", "head", "tail", "dedup"}, nil)
	}
	for i := []int{0, 0, 1, 1, 2}[r.Intn(5)]; i > 0; i-- {
		ext(c06pAllKinds, nil)
	}
	if !ok {
		return ""
	}
	first, _ := c06pParseCmd(chain[0])
	k := []int{2, 2, 2, 3, 3, 4, 2, 3, 1}[r.Intn(9)]
	// merge settings
	m := "ts"
	keys := []c06pKey{{"timestamp", false}}
	if r.Intn(5) < 2 {
		var ks []string
		for i := r.Intn(3); i > 0; i-- {
			f := []string{"x", "w", "a", "s"}[r.Intn(4)]
			has := false
			for _, c := range tableCols {
				has = has || c == f
			}
			if has {
				ks = append(ks, []string{"+", "-"}[r.Intn(2)]+f)
			}
		}
		ks = append(ks, []string{"+", "-"}[r.Intn(2)]+"id")
		l := 0
		if !c06pmFast(first) && k > 1 && r.Intn(2) == 0 && nrows > 0 {
			l = []int{1, 2, nrows / 2, nrows - 1, nrows, nrows + 1}[r.Intn(6)]
			if l < 1 {
				l = 1
			}
		}
		m = fmt.Sprintf("sort:%d:%s", l, strings.Join(ks, ","))
		mc, _ := c06pParseCmd(m)
		keys = mc.keys
	}
	ref := c06pRefTable(parsed)
	idx := make([]int, nrows)
	for i := range idx {
		idx[i] = i
	}
	sort.SliceStable(idx, func(a, b int) bool { return c06pLess(keys, ref[idx[a]], ref[idx[b]]) })
	sorted := make([]string, nrows)
	for i, j := range idx {
		sorted[i] = rows[j]
	}
	// streams
	asg := make([]byte, nrows)
	perm := r.Perm(k)
	switch q := r.Intn(100); {
	case q < 65: // interleaving by construction: 10,8,6,4 / 9,7,5,3
		for i := range asg {
			asg[i] = byte('0' + perm[i%k])
		}
	case q < 85: // random
		for i := range asg {
			asg[i] = byte('0' + r.Intn(k))
		}
	default: // contiguous runs: the streams do not interleave
		for i := range asg {
			j := 0
			if nrows > 0 {
				j = i * k / nrows
			}
			asg[i] = byte('0' + perm[j])
		}
	}
	if k >= 3 && r.Intn(6) == 0 { // an empty stream
		for i := range asg {
			if asg[i] == byte('0'+perm[0]) {
				asg[i] = byte('0' + perm[1])
			}
		}
	}
	var ss []string
	mode := r.Intn(5)
	for j := 0; j < k; j++ {
		var sz []string
		for i := 0; i < 8; i++ {
			n := 1 + r.Intn(4)
			switch mode {
			case 0:
				n = 1
			case 1:
				n = 2
			}
			sz = append(sz, fmt.Sprint(n))
		}
		if mode == 4 && r.Intn(2) == 0 { // the whole stream as one batch
			sz = nil
		}
		ss = append(ss, strings.Join(sz, "."))
	}
	return fmt.Sprintf("planms M=%s C=%s A=%s S=%s R=%s", m, strings.Join(chain, "|"), string(asg), strings.Join(ss, "/"), strings.Join(sorted, ";"))
}
