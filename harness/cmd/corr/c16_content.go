package main

// suite "protocontent" (C16, protocol level, CONTENT): one logical event = a generated JSON tree T
// (+ a message text M) is delivered through every log protocol's real processing function into the
// in-process engine (one worker process per case: `corr c16cworker x`), each protocol into its own
// index, flushed, searched with `*`, and the stored field set of the one record per protocol is
// printed canonically.
//
//	pc <opts> <msghex|-> <tree tokens…>
//	  → es=<fields> | esdoc=<fields> | hec=<fields> | loki=<fields> | otlp=<fields>
//	    <fields> = <hexname>:<val>,… sorted by name bytes | - (no field) | rejected | panic | notfound(<n>)
//	    <val>    = n<int> | n<num>/<den> (exact value of the stored number) | s<hex> | b0 | b1
//	    a name that two leaves of what the handler hands to the flattener share is printed as <hexname>:* (which of the
//	    two is read back is engine-internal: column consolidation, dictionary encoding — not modelled); the set of
//	    such names is a function of the op line alone (c16cMask), never of the code under test;
//	    a field with the EMPTY name is not printed (not returned by the engine; not decided);
//	    nulls and empty strings are not printed (known C01 class: the empty string is returned as absent;
//	    null = absent); the result columns `timestamp` (event time, decided by suite timeproto) and `_index`
//	    are not printed.
//	<opts> = <b>,<i>,<e>  b = bs|bk (OTLP body is the string M | the tree as kvlist)
//	                      i = i0|i1 (OTLP trace_id/span_id absent | present)
//	                      e = e0|e1|e2 (how the harness escapes strings in the JSON bodies it builds:
//	                          minimal | every non-ASCII rune as \uXXXX (surrogate pairs) | encoding/json style)
//	tree tokens (prefix form): O<n> then n×(k<hexkey> value) | A<n> then n values | s<hex> | n<tok>~<jtok> | t | f | z
//	  <tok> is the JSON number token that is sent; <jtok> is the ABSTRACTION of encoding/json's float64
//	  rendering of that token (what OTLP hands to the flattener for a double: DoubleValue → json.Marshal; Splunk HEC and
//	  Loki did the same to EVERY number before they were repaired to decode with UseNumber), computed by the generator
//	  with strconv and re-checked by Exec ("abstraction-drift").
//
// Where the tree goes (the projection to what each protocol can express):
//	es      the document IS the tree (member order as generated) — eswriter.HandleBulkBody
//	esdoc   the same document through the single-document API — eswriter.ProcessPutPostSingleDocRequest (sets `_id` itself;
//	        before the repair it panicked after ingesting when the root `_type`/`_index` was not a string: detector
//	        content/esdoc-panic stays)
//	hec     {"time":1700000000.123,"host":…,"source":…,"sourcetype":…,"index":…,"event":T,"fields":P} with P = the root
//	        members of T whose value is a string — splunk.ProcessSplunkHecIngestRequest
//	loki    stream labels = P (labels are string→string), line = M, third element of the value (structured
//	        metadata) = the other root members of T (omitted when there are none) — loki.ProcessLokiLogsIngestRequest
//	otlp    protobuf; resource attributes = T + siglensIndexName, scope attributes = T, record attributes = T, body = M or T;
//	        object → kvlist, array → array, integer token inside int64 → int, other numbers → double, null → EMPTY AnyValue
//	        (the empty value is a legal OTLP value: it is stored as null = no field; before the repair c12-10 of
//	        extractAnyValue the whole record was refused — "rejected", detector content/otlp-empty-value-rejected)
//
// The oracle's answer is the Lean SPEC lean/SigModel/Spec/Flatten.lean (flatten = ParseRawJsonObject's rules,
// plus one envelope function per protocol).
//
// PropFail (independent of the Lean model and of any flattening code here): every scalar leaf of T that is
// not null / "" must be found in the stored event of every protocol that accepted it, under ITS OWN path joined with
// "." behind the protocol's documented prefix (es: none, hec: `event.`, loki: none, otlp: `attributes.`,
// `resource.attributes.`, `scope.attributes.`, and `body.` with bk), with its value (strings byte for byte,
// booleans, numbers by exact value).  Latitude: names that two sent leaves (or a leaf and an envelope field) share are
// not checked (the statement does not say which one wins); the root `timestamp`/`_index` of es/loki are not checked
// (event time / result column); a number that the PROTOCOL ITSELF cannot carry exactly is compared after the
// protocol's own projection (OTLP: integers outside int64 travel as double).

import (
	"bufio"
	"bytes"
	"encoding/hex"
	"encoding/json"
	"fmt"
	"math"
	"math/big"
	"math/rand"
	"os"
	"os/exec"
	"sort"
	"strconv"
	"strings"
	"time"
	"unicode/utf8"

	collogpb "go.opentelemetry.io/proto/otlp/collector/logs/v1"
	commonpb "go.opentelemetry.io/proto/otlp/common/v1"
	logpb "go.opentelemetry.io/proto/otlp/logs/v1"
	resourcepb "go.opentelemetry.io/proto/otlp/resource/v1"
	"google.golang.org/protobuf/proto"

	"github.com/siglens/siglens/pkg/ast/pipesearch"
	eswriter "github.com/siglens/siglens/pkg/es/writer"
	"github.com/siglens/siglens/pkg/integrations/loki"
	"github.com/siglens/siglens/pkg/integrations/splunk"
	"github.com/siglens/siglens/pkg/otlp"
	"github.com/siglens/siglens/pkg/segment/writer"
)

func init() {
	register(&Suite{Name: "protocontent", Gen: c16cGen, Exec: c16cExec, Parallel: 6,
		Rule: "one generated JSON tree per case (depth 0..4, arrays of scalars/objects/empty, special names — timestamp, _index, _type, _id, time, event, index, source, host, fields, line, body, attributes, severity, resource, scope — at every depth, dotted keys colliding after flattening, empty keys, unicode, escapes, big integers around 2^53/2^63/2^64, negative, exact floats, bools, nulls, numeric strings, long strings) delivered through ES bulk, Splunk HEC, Loki JSON push and OTLP logs (protobuf) into a fresh engine process; flush; search *; stored field set per protocol vs the Lean flattening SPEC; every sent leaf must be found under its own joined path with its value"})
}

// ---------------------------------------------------------------- the tree

type c16cNode struct {
	kind byte // 'O' 'A' 's' 'n' 't' 'f' 'z'
	keys []string
	kids []*c16cNode
	str  string
	tok  string
	jtok string
}

func (n *c16cNode) c16cTokens(out *[]string) {
	switch n.kind {
	case 'O':
		*out = append(*out, fmt.Sprintf("O%d", len(n.kids)))
		for i, k := range n.kids {
			*out = append(*out, "k"+hex.EncodeToString([]byte(n.keys[i])))
			k.c16cTokens(out)
		}
	case 'A':
		*out = append(*out, fmt.Sprintf("A%d", len(n.kids)))
		for _, k := range n.kids {
			k.c16cTokens(out)
		}
	case 's':
		if unit, cnt, ok := c16cRepUnit(n.str); ok {
			*out = append(*out, fmt.Sprintf("r%d.%s", cnt, hex.EncodeToString([]byte(unit))))
		} else {
			*out = append(*out, "s"+hex.EncodeToString([]byte(n.str)))
		}
	case 'n':
		*out = append(*out, "n"+n.tok+"~"+n.jtok)
	default:
		*out = append(*out, string(n.kind))
	}
}

// a long string that is one unit of 1 or 2 bytes repeated is written r<count>.<hexunit> (the values around the
// 65535-byte limit of a stored string would make lines of 130 kB otherwise)
func c16cRepUnit(s string) (string, int, bool) {
	if len(s) < 4096 {
		return "", 0, false
	}
	for _, u := range []int{1, 2} {
		if len(s)%u == 0 && strings.Repeat(s[:u], len(s)/u) == s {
			return s[:u], len(s) / u, true
		}
	}
	return "", 0, false
}

// the length of a stored string value is written in two bytes and the end index of its record (3 + length) is kept in a
// uint16 by the readers: GetNewPLE refuses a document with a longer one
const c16cMaxStringBytes = 65532

// a string leaf of this size makes the ES bulk line reach the handler's record size limit (MAX_RECORD_SIZE = 63000 bytes
// of JSON text, which is not modelled): es= is then printed as "*" on both sides
const c16cEsMaskBytes = 60000

func c16cLongestString(n *c16cNode) int {
	m := 0
	if n.kind == 's' {
		m = len(n.str)
	}
	for _, k := range n.kids {
		if l := c16cLongestString(k); l > m {
			m = l
		}
	}
	return m
}

// JSON number grammar: -? (0 | [1-9][0-9]*) (. [0-9]+)? ([eE] [+-]? [0-9]+)?
func c16cNumSyntax(s string) bool {
	i := 0
	if i < len(s) && s[i] == '-' {
		i++
	}
	if i >= len(s) {
		return false
	}
	if s[i] == '0' {
		i++
	} else if s[i] >= '1' && s[i] <= '9' {
		for i < len(s) && s[i] >= '0' && s[i] <= '9' {
			i++
		}
	} else {
		return false
	}
	if i < len(s) && s[i] == '.' {
		i++
		j := i
		for i < len(s) && s[i] >= '0' && s[i] <= '9' {
			i++
		}
		if i == j {
			return false
		}
	}
	if i < len(s) && (s[i] == 'e' || s[i] == 'E') {
		i++
		if i < len(s) && (s[i] == '+' || s[i] == '-') {
			i++
		}
		j := i
		for i < len(s) && s[i] >= '0' && s[i] <= '9' {
			i++
		}
		if i == j {
			return false
		}
	}
	return i == len(s)
}

func c16cCount(s string) (int, bool) {
	if s == "" || len(s) > 4 {
		return 0, false
	}
	for _, c := range s {
		if c < '0' || c > '9' {
			return 0, false
		}
	}
	n, _ := strconv.Atoi(s)
	return n, true
}

func c16cParse(toks []string) (*c16cNode, []string, bool) {
	if len(toks) == 0 || toks[0] == "" {
		return nil, nil, false
	}
	t := toks[0]
	rest := toks[1:]
	switch t[0] {
	case 'O':
		n, ok := c16cCount(t[1:])
		if !ok {
			return nil, nil, false
		}
		nd := &c16cNode{kind: 'O'}
		seen := map[string]bool{}
		for i := 0; i < n; i++ {
			if len(rest) == 0 || len(rest[0]) == 0 || rest[0][0] != 'k' {
				return nil, nil, false
			}
			kb, err := hex.DecodeString(rest[0][1:])
			if err != nil || seen[string(kb)] {
				return nil, nil, false
			}
			seen[string(kb)] = true
			var kid *c16cNode
			kid, rest, ok = c16cParse(rest[1:])
			if !ok {
				return nil, nil, false
			}
			nd.keys = append(nd.keys, string(kb))
			nd.kids = append(nd.kids, kid)
		}
		return nd, rest, true
	case 'A':
		n, ok := c16cCount(t[1:])
		if !ok {
			return nil, nil, false
		}
		nd := &c16cNode{kind: 'A'}
		for i := 0; i < n; i++ {
			var kid *c16cNode
			kid, rest, ok = c16cParse(rest)
			if !ok {
				return nil, nil, false
			}
			nd.kids = append(nd.kids, kid)
		}
		return nd, rest, true
	case 's':
		b, err := hex.DecodeString(t[1:])
		if err != nil {
			return nil, nil, false
		}
		return &c16cNode{kind: 's', str: string(b)}, rest, true
	case 'r':
		p := strings.Split(t[1:], ".")
		if len(p) != 2 || len(p[0]) == 0 || len(p[0]) > 6 || strings.Trim(p[0], "0123456789") != "" {
			return nil, nil, false
		}
		cnt, _ := strconv.Atoi(p[0])
		b, err := hex.DecodeString(p[1])
		if err != nil || len(b) == 0 || len(b) > 2 {
			return nil, nil, false
		}
		return &c16cNode{kind: 's', str: strings.Repeat(string(b), cnt)}, rest, true
	case 'n':
		p := strings.Split(t[1:], "~")
		if len(p) != 2 || !c16cNumSyntax(p[0]) || !c16cNumSyntax(p[1]) {
			return nil, nil, false
		}
		return &c16cNode{kind: 'n', tok: p[0], jtok: p[1]}, rest, true
	case 't', 'f', 'z':
		if len(t) != 1 {
			return nil, nil, false
		}
		return &c16cNode{kind: t[0]}, rest, true
	}
	return nil, nil, false
}

type c16cCase struct {
	body  string // bs | bk
	ids   bool
	esc   int
	msg   string
	tree  *c16cNode
	valid bool
}

func c16cParseLine(line string) (c c16cCase) {
	f := strings.Fields(line)
	if len(f) < 4 || f[0] != "pc" {
		return
	}
	o := strings.Split(f[1], ",")
	if len(o) != 3 || (o[0] != "bs" && o[0] != "bk") || (o[1] != "i0" && o[1] != "i1") || (o[2] != "e0" && o[2] != "e1" && o[2] != "e2") {
		return
	}
	c.body, c.ids, c.esc = o[0], o[1] == "i1", int(o[2][1]-'0')
	if f[2] != "-" {
		b, err := hex.DecodeString(f[2])
		if err != nil || len(b) == 0 {
			return
		}
		c.msg = string(b)
	}
	t, rest, ok := c16cParse(f[3:])
	if !ok || len(rest) != 0 || t.kind != 'O' {
		return
	}
	c.tree = t
	c.valid = true
	return
}

// encoding/json's rendering of a float64 (encoding/json/encode.go floatEncoder, 64 bit)
func c16cJSONFloat(f float64) string {
	abs := math.Abs(f)
	fm := byte('f')
	if abs != 0 && (abs < 1e-6 || abs >= 1e21) {
		fm = 'e'
	}
	b := strconv.AppendFloat(nil, f, fm, -1, 64)
	if fm == 'e' {
		n := len(b)
		if n >= 4 && b[n-4] == 'e' && b[n-3] == '-' && b[n-2] == '0' {
			b[n-2] = b[n-1]
			b = b[:n-1]
		}
	}
	return string(b)
}

func c16cJTok(tok string) string {
	f, err := strconv.ParseFloat(tok, 64)
	if err != nil {
		return "0"
	}
	return c16cJSONFloat(f)
}

// ---------------------------------------------------------------- JSON text the harness sends (its own encoder)

func c16cQuote(s string, esc int) string {
	var b strings.Builder
	b.WriteByte('"')
	for _, r := range s {
		switch {
		case r == '"':
			b.WriteString(`\"`)
		case r == '\\':
			b.WriteString(`\\`)
		case r == '\n':
			b.WriteString(`\n`)
		case r == '\t':
			b.WriteString(`\t`)
		case r == '\r':
			b.WriteString(`\r`)
		case r < 0x20:
			fmt.Fprintf(&b, `\u%04x`, r)
		case esc == 1 && r >= 0x80:
			if r >= 0x10000 {
				r1 := (r-0x10000)>>10 + 0xd800
				r2 := (r-0x10000)&0x3ff + 0xdc00
				fmt.Fprintf(&b, `\u%04x\u%04x`, r1, r2)
			} else {
				fmt.Fprintf(&b, `\u%04x`, r)
			}
		case esc == 2 && (r == '<' || r == '>' || r == '&' || r == 0x2028 || r == 0x2029):
			fmt.Fprintf(&b, `\u%04x`, r)
		case esc == 2 && r == '/':
			b.WriteString(`\/`)
		default:
			b.WriteRune(r)
		}
	}
	b.WriteByte('"')
	return b.String()
}

func (n *c16cNode) c16cJSON(b *strings.Builder, esc int) {
	switch n.kind {
	case 'O':
		b.WriteByte('{')
		for i, k := range n.kids {
			if i > 0 {
				b.WriteByte(',')
			}
			b.WriteString(c16cQuote(n.keys[i], esc))
			b.WriteByte(':')
			k.c16cJSON(b, esc)
		}
		b.WriteByte('}')
	case 'A':
		b.WriteByte('[')
		for i, k := range n.kids {
			if i > 0 {
				b.WriteByte(',')
			}
			k.c16cJSON(b, esc)
		}
		b.WriteByte(']')
	case 's':
		b.WriteString(c16cQuote(n.str, esc))
	case 'n':
		b.WriteString(n.tok)
	case 't':
		b.WriteString("true")
	case 'f':
		b.WriteString("false")
	case 'z':
		b.WriteString("null")
	}
}

func c16cJSONOf(n *c16cNode, esc int) string {
	var b strings.Builder
	n.c16cJSON(&b, esc)
	return b.String()
}

// root members whose value is a string (labels / HEC fields), and the others
func c16cSplitRoot(t *c16cNode) (strs, others *c16cNode) {
	strs, others = &c16cNode{kind: 'O'}, &c16cNode{kind: 'O'}
	for i, k := range t.kids {
		if k.kind == 's' {
			strs.keys, strs.kids = append(strs.keys, t.keys[i]), append(strs.kids, k)
		} else {
			others.keys, others.kids = append(others.keys, t.keys[i]), append(others.kids, k)
		}
	}
	return
}

const (
	c16cIdxES   = "c16c-es"
	c16cIdxDoc  = "c16c-doc"
	c16cIdxHEC  = "c16c-hec"
	c16cIdxLoki = "loki-index"
	c16cIdxOTLP = "c16c-otlp"
	c16cHost    = "c16c-host"
	c16cSource  = "c16c-src"
	c16cSType   = "c16c-st"
	c16cScope   = "c16c-scope"
	c16cScopeV  = "1.2"
	c16cTimeNs  = uint64(1700000000123000000)
)

// result columns that are not event fields: the event time and the ES meta fields (the record reader hides `_type`/`_id`
// from non-ES queries, `_index` is overwritten with the index name)
var c16cReserved = map[string]bool{"timestamp": true, "_index": true, "_type": true, "_id": true}

var c16cTraceID = []byte{0x01, 0x02, 0x03, 0x04, 0x05, 0x06, 0x07, 0x08, 0x09, 0x0a, 0x0b, 0x0c, 0x0d, 0x0e, 0x0f, 0x10}
var c16cSpanID = []byte{0xa1, 0xa2, 0xa3, 0xa4, 0xa5, 0xa6, 0xa7, 0xa8}

func c16cAny(n *c16cNode) *commonpb.AnyValue {
	switch n.kind {
	case 'O':
		kv := &commonpb.KeyValueList{}
		for i, k := range n.kids {
			kv.Values = append(kv.Values, &commonpb.KeyValue{Key: n.keys[i], Value: c16cAny(k)})
		}
		return &commonpb.AnyValue{Value: &commonpb.AnyValue_KvlistValue{KvlistValue: kv}}
	case 'A':
		av := &commonpb.ArrayValue{}
		for _, k := range n.kids {
			av.Values = append(av.Values, c16cAny(k))
		}
		return &commonpb.AnyValue{Value: &commonpb.AnyValue_ArrayValue{ArrayValue: av}}
	case 's':
		return &commonpb.AnyValue{Value: &commonpb.AnyValue_StringValue{StringValue: n.str}}
	case 'n':
		if iv, err := strconv.ParseInt(n.tok, 10, 64); err == nil {
			return &commonpb.AnyValue{Value: &commonpb.AnyValue_IntValue{IntValue: iv}}
		}
		fv, _ := strconv.ParseFloat(n.tok, 64)
		return &commonpb.AnyValue{Value: &commonpb.AnyValue_DoubleValue{DoubleValue: fv}}
	case 't':
		return &commonpb.AnyValue{Value: &commonpb.AnyValue_BoolValue{BoolValue: true}}
	case 'f':
		return &commonpb.AnyValue{Value: &commonpb.AnyValue_BoolValue{BoolValue: false}}
	}
	return &commonpb.AnyValue{} // null: the empty value
}

func c16cKVs(t *c16cNode) []*commonpb.KeyValue {
	var out []*commonpb.KeyValue
	for i, k := range t.kids {
		out = append(out, &commonpb.KeyValue{Key: t.keys[i], Value: c16cAny(k)})
	}
	return out
}

// ---------------------------------------------------------------- worker side: one case, one engine

func c16cCanonVal(v interface{}) string {
	rat := func(f float64) string {
		if math.IsNaN(f) || math.IsInf(f, 0) {
			return "?" + strconv.FormatFloat(f, 'g', -1, 64)
		}
		r := new(big.Rat).SetFloat64(f)
		if r.IsInt() {
			return "n" + r.Num().String()
		}
		return "n" + r.Num().String() + "/" + r.Denom().String()
	}
	switch x := v.(type) {
	case nil:
		return ""
	case string:
		if x == "" {
			return ""
		}
		return "s" + hex.EncodeToString([]byte(x))
	case bool:
		if x {
			return "b1"
		}
		return "b0"
	case int64:
		return "n" + strconv.FormatInt(x, 10)
	case uint64:
		return "n" + strconv.FormatUint(x, 10)
	case int:
		return "n" + strconv.Itoa(x)
	case float64:
		return rat(x)
	case json.Number:
		s := x.String()
		if !strings.ContainsAny(s, ".eE") {
			return "n" + s
		}
		f, err := strconv.ParseFloat(s, 64)
		if err != nil {
			return "?" + s
		}
		return rat(f)
	default:
		b, _ := json.Marshal(x)
		return "?" + fmt.Sprintf("%T", v) + hex.EncodeToString(b)
	}
}

// names that more than one leaf of the envelope tree flattens to (root scalar `timestamp` is the event time)
func c16cMask(env *c16cNode) map[string]bool {
	cnt := map[string]int{}
	var walk func(n *c16cNode, cur string)
	join := func(cur, k string) string {
		if cur == "" {
			return k
		}
		return cur + "." + k
	}
	walk = func(n *c16cNode, cur string) {
		switch n.kind {
		case 'O':
			for i, k := range n.kids {
				walk(k, join(cur, n.keys[i]))
			}
		case 'A':
			for i, k := range n.kids {
				walk(k, join(cur, strconv.Itoa(i)))
			}
		default:
			if cur != "timestamp" {
				cnt[cur]++
			}
		}
	}
	walk(env, "")
	m := map[string]bool{}
	for k, c := range cnt {
		if c > 1 {
			m[k] = true
		}
	}
	return m
}

func c16cObj(kv ...interface{}) *c16cNode {
	n := &c16cNode{kind: 'O'}
	for i := 0; i+1 < len(kv); i += 2 {
		n.keys, n.kids = append(n.keys, kv[i].(string)), append(n.kids, kv[i+1].(*c16cNode))
	}
	return n
}

// Go map assignment on a member list
func (n *c16cNode) c16cSet(k string, v *c16cNode) {
	for i := range n.keys {
		if n.keys[i] == k {
			n.kids[i] = v
			return
		}
	}
	n.keys, n.kids = append(n.keys, k), append(n.kids, v)
}

// what each handler hands to the flattener, as a tree (member order is irrelevant for the mask)
func c16cEnvelope(p string, c c16cCase) *c16cNode {
	str := func(x string) *c16cNode { return &c16cNode{kind: 's', str: x} }
	num := func(x string) *c16cNode { return &c16cNode{kind: 'n', tok: x, jtok: x} }
	strs, others := c16cSplitRoot(c.tree)
	switch p {
	case "es":
		return c.tree
	case "esdoc":
		e := &c16cNode{kind: 'O', keys: append([]string{}, c.tree.keys...), kids: append([]*c16cNode{}, c.tree.kids...)}
		e.c16cSet("_id", str("id"))
		return e
	case "hec":
		return c16cObj("time", num("1700000000.123"), "host", str(c16cHost), "source", str(c16cSource), "sourcetype", str(c16cSType),
			"index", str(c16cIdxHEC), "event", c.tree, "fields", strs)
	case "loki":
		e := &c16cNode{kind: 'O', keys: append([]string{}, strs.keys...), kids: append([]*c16cNode{}, strs.kids...)}
		e.c16cSet("timestamp", str("ns"))
		e.c16cSet("line", str(c.msg))
		for i, k := range others.keys {
			e.c16cSet(k, others.kids[i])
		}
		return e
	case "otlp":
		body := str(c.msg)
		if c.body == "bk" {
			body = c.tree
		}
		rattrs := &c16cNode{kind: 'O', keys: append([]string{"siglensIndexName"}, c.tree.keys...), kids: append([]*c16cNode{str(c16cIdxOTLP)}, c.tree.kids...)}
		return c16cObj("resource", c16cObj("attributes", rattrs, "dropped_attributes_count", num("0"), "schema_url", str("")),
			"scope", c16cObj("name", str(c16cScope), "version", str(c16cScopeV), "attributes", c.tree, "dropped_attributes_count", num("0"), "schema_url", str("")),
			"time_unix_nano", num("1"), "observed_time_unix_nano", num("0"), "severity_number", num("9"), "severity_text", str("INFO"), "body", body,
			"attributes", c.tree, "dropped_attributes_count", num("0"), "flags", num("0"), "trace_id", str("t"), "span_id", str("s"))
	}
	return nil
}

func c16cReadBack(index string, qid uint64, mask map[string]bool) string {
	body := map[string]interface{}{
		"searchText": "*", "startEpoch": float64(1), "endEpoch": float64(99999999999999),
		"indexName": index, "queryLanguage": "Splunk QL", "size": float64(10), "from": float64(0),
	}
	resp, _, _, err := pipesearch.ParseAndExecutePipeRequest(body, qid, 0, time.Now(), "", nil)
	if err != nil || resp == nil {
		return "queryerr"
	}
	recs := resp.Hits.Hits
	if len(recs) != 1 {
		return fmt.Sprintf("notfound(%d)", len(recs))
	}
	var ents []string
	names := make([]string, 0, len(recs[0]))
	for k := range recs[0] {
		if !mask[k] {
			names = append(names, k)
		}
	}
	for k := range mask {
		names = append(names, k)
	}
	sort.Strings(names)
	for _, k := range names {
		if c16cReserved[k] || k == "" {
			continue
		}
		if mask[k] {
			ents = append(ents, hex.EncodeToString([]byte(k))+":*")
			continue
		}
		cv := c16cCanonVal(recs[0][k])
		if cv == "" {
			continue
		}
		ents = append(ents, hex.EncodeToString([]byte(k))+":"+cv)
	}
	if len(ents) == 0 {
		return "-"
	}
	return strings.Join(ents, ",")
}

func c16cWorkerMain() {
	in := bufio.NewScanner(os.Stdin)
	in.Buffer(make([]byte, 1<<20), 1<<26)
	if !in.Scan() {
		os.Exit(4)
	}
	c := c16cParseLine(in.Text())
	if !c.valid {
		os.Exit(4)
	}
	dir := bootEngine()
	defer os.RemoveAll(dir)
	accepted := map[string]bool{}
	panicked := map[string]bool{}

	// ---- ES bulk
	{
		body := fmt.Sprintf("{\"index\":{\"_index\":\"%s\"}}\n%s\n", c16cIdxES, c16cJSONOf(c.tree, c.esc))
		_, resp, _ := eswriter.HandleBulkBody([]byte(body), nil, 0, 0, false)
		e, _ := resp["errors"].(bool)
		accepted["es"] = !e
	}
	// ---- ES single-document API
	func() {
		defer func() {
			if r := recover(); r != nil {
				panicked["esdoc"] = true
			}
		}()
		ctx := c16Ctx([]byte(c16cJSONOf(c.tree, c.esc)), "application/json")
		ctx.SetUserValue("indexName", c16cIdxDoc)
		eswriter.ProcessPutPostSingleDocRequest(ctx, false, 0)
		accepted["esdoc"] = ctx.Response.StatusCode() < 300
	}()
	// ---- Splunk HEC
	{
		strs, _ := c16cSplitRoot(c.tree)
		body := fmt.Sprintf(`{"time":1700000000.123,"host":"%s","source":"%s","sourcetype":"%s","index":"%s","event":%s,"fields":%s}`,
			c16cHost, c16cSource, c16cSType, c16cIdxHEC, c16cJSONOf(c.tree, c.esc), c16cJSONOf(strs, c.esc))
		ctx := c16Ctx([]byte(body), "application/json")
		splunk.ProcessSplunkHecIngestRequest(ctx, 0)
		accepted["hec"] = ctx.Response.StatusCode() < 300
	}
	// ---- Loki JSON push
	{
		strs, others := c16cSplitRoot(c.tree)
		val := fmt.Sprintf(`["%d",%s`, c16cTimeNs, c16cQuote(c.msg, c.esc))
		if len(others.kids) > 0 {
			val += "," + c16cJSONOf(others, c.esc)
		}
		val += "]"
		body := fmt.Sprintf(`{"streams":[{"stream":%s,"values":[%s]}]}`, c16cJSONOf(strs, c.esc), val)
		ctx := c16Ctx([]byte(body), "application/json")
		loki.ProcessLokiLogsIngestRequest(ctx, 0)
		accepted["loki"] = ctx.Response.StatusCode() < 300
	}
	// ---- OTLP logs (protobuf)
	{
		rattrs := append([]*commonpb.KeyValue{{Key: "siglensIndexName", Value: &commonpb.AnyValue{Value: &commonpb.AnyValue_StringValue{StringValue: c16cIdxOTLP}}}}, c16cKVs(c.tree)...)
		rec := &logpb.LogRecord{TimeUnixNano: c16cTimeNs, SeverityNumber: 9, SeverityText: "INFO", Attributes: c16cKVs(c.tree)}
		if c.body == "bk" {
			rec.Body = c16cAny(c.tree)
		} else {
			rec.Body = &commonpb.AnyValue{Value: &commonpb.AnyValue_StringValue{StringValue: c.msg}}
		}
		if c.ids {
			rec.TraceId, rec.SpanId = c16cTraceID, c16cSpanID
		}
		req := &collogpb.ExportLogsServiceRequest{ResourceLogs: []*logpb.ResourceLogs{{
			Resource: &resourcepb.Resource{Attributes: rattrs},
			ScopeLogs: []*logpb.ScopeLogs{{
				Scope:      &commonpb.InstrumentationScope{Name: c16cScope, Version: c16cScopeV, Attributes: c16cKVs(c.tree)},
				LogRecords: []*logpb.LogRecord{rec},
			}},
		}}}
		data, err := proto.Marshal(req)
		if err != nil {
			fmt.Fprintln(os.Stderr, "marshal:", err)
			os.Exit(5)
		}
		ctx := c16Ctx(data, "application/x-protobuf")
		otlp.ProcessLogIngest(ctx, 0)
		accepted["otlp"] = ctx.Response.StatusCode() < 300
	}
	z := time.Duration(0)
	writer.FlushWipBufferToFile(&z, &z)
	for i, p := range [][2]string{{"es", c16cIdxES}, {"esdoc", c16cIdxDoc}, {"hec", c16cIdxHEC}, {"loki", c16cIdxLoki}, {"otlp", c16cIdxOTLP}} {
		if panicked[p[0]] {
			fmt.Printf("RESULT %s panic\n", p[0])
			continue
		}
		if !accepted[p[0]] {
			fmt.Printf("RESULT %s rejected\n", p[0])
			continue
		}
		fmt.Printf("RESULT %s %s\n", p[0], c16cReadBack(p[1], uint64(10+i), c16cMask(c16cEnvelope(p[0], c))))
	}
}

// ---------------------------------------------------------------- parent side

var c16cProtos = []string{"es", "esdoc", "hec", "loki", "otlp"}

func c16cRunWorker(line string) (map[string]string, string) {
	exe, _ := os.Executable()
	cmd := exec.Command(exe, "c16cworker", "x")
	cmd.Stdin = strings.NewReader(line + "\n")
	var stderr bytes.Buffer
	cmd.Stderr = &stderr
	outb, err := cmd.Output()
	got := map[string]string{}
	for _, l := range strings.Split(string(outb), "\n") {
		f := strings.Fields(l)
		if len(f) == 3 && f[0] == "RESULT" {
			got[f[1]] = f[2]
		}
	}
	if err != nil || len(got) != len(c16cProtos) {
		return nil, trunc(fmt.Sprintf("%v %s", err, stderr.String()), 600)
	}
	return got, ""
}

// exact value of a JSON number token
func c16cRatOfTok(tok string) string {
	r, ok := new(big.Rat).SetString(tok)
	if !ok {
		return "?" + tok
	}
	if r.IsInt() {
		return "n" + r.Num().String()
	}
	return "n" + r.Num().String() + "/" + r.Denom().String()
}

type c16cLeaf struct {
	path  []string // own path: member keys and array indices
	node  *c16cNode
	depth int
}

func c16cLeaves(n *c16cNode, path []string, out *[]c16cLeaf) {
	switch n.kind {
	case 'O':
		for i, k := range n.kids {
			c16cLeaves(k, append(append([]string{}, path...), n.keys[i]), out)
		}
	case 'A':
		for i, k := range n.kids {
			c16cLeaves(k, append(append([]string{}, path...), strconv.Itoa(i)), out)
		}
	default:
		*out = append(*out, c16cLeaf{path: path, node: n, depth: len(path)})
	}
}

func c16cValueClass(n *c16cNode) string {
	switch n.kind {
	case 's':
		return "string"
	case 't', 'f':
		return "bool"
	case 'n':
		if strings.ContainsAny(n.tok, ".eE") {
			return "float"
		}
		r, _ := new(big.Int).SetString(n.tok, 10)
		a := new(big.Int).Abs(r)
		switch {
		case !r.IsInt64():
			return "int-beyond-int64"
		case a.Cmp(big.NewInt(1<<53)) > 0:
			return "int-beyond-2^53"
		}
		return "int"
	}
	return "null"
}

// what the stored value of a sent leaf must be (canonical form), "" = no demand
func c16cWant(n *c16cNode, proto string) string {
	switch n.kind {
	case 's':
		if n.str == "" {
			return ""
		}
		return "s" + hex.EncodeToString([]byte(n.str))
	case 't':
		return "b1"
	case 'f':
		return "b0"
	case 'n':
		if proto == "otlp" {
			// the protocol's own projection: integers outside int64 travel as double
			if _, err := strconv.ParseInt(n.tok, 10, 64); err != nil {
				f, _ := strconv.ParseFloat(n.tok, 64)
				return c16cCanonVal(f)
			}
		}
		if strings.ContainsAny(n.tok, ".eE") {
			// a decimal that binary64 cannot carry exactly: JSON numbers are doubles
			f, _ := strconv.ParseFloat(n.tok, 64)
			return c16cCanonVal(f)
		}
		return c16cRatOfTok(n.tok)
	}
	return ""
}

func c16cParseFields(s string) (map[string]string, bool) {
	m := map[string]string{}
	if s == "-" {
		return m, true
	}
	for _, e := range strings.Split(s, ",") {
		p := strings.SplitN(e, ":", 2)
		if len(p) != 2 {
			return nil, false
		}
		kb, err := hex.DecodeString(p[0])
		if err != nil {
			return nil, false
		}
		m[string(kb)] = p[1]
	}
	return m, true
}

func c16cHasNull(n *c16cNode) bool {
	if n.kind == 'z' {
		return true
	}
	for _, k := range n.kids {
		if c16cHasNull(k) {
			return true
		}
	}
	return false
}

func c16cExec(line string) Result {
	c := c16cParseLine(line)
	if !c.valid {
		return Result{Out: "bad-op"}
	}
	res := Result{Nontrivial: true}
	var leaves []c16cLeaf
	c16cLeaves(c.tree, nil, &leaves)
	// abstraction drift: the jtok of every number leaf must be what strconv says today
	for _, l := range leaves {
		if l.node.kind == 'n' && c16cJTok(l.node.tok) != l.node.jtok {
			res.Out = "bad-op"
			res.Fails = append(res.Fails, PropFail{Sig: "content/abstraction-drift", Msg: "jtok of " + l.node.tok + " is " + c16cJTok(l.node.tok) + ", op line says " + l.node.jtok})
			return res
		}
	}
	got, werr := c16cRunWorker(line)
	if got == nil {
		// a worker killed by the machine (load, memory) says nothing about the property: one more try
		got, werr = c16cRunWorker(line)
	}
	if got == nil {
		res.Out = "worker-failed"
		res.Fails = append(res.Fails, PropFail{Sig: "content/worker-failed", Msg: werr})
		return res
	}
	longest := c16cLongestString(c.tree)
	if longest >= c16cEsMaskBytes {
		got["es"] = "*"
		res.Tags = append(res.Tags, "es-masked-record-size")
	}
	if longest > c16cMaxStringBytes {
		res.Tags = append(res.Tags, "string-over-65532")
	} else if longest > c16cMaxStringBytes-4 {
		res.Tags = append(res.Tags, "string-65529..65532")
	}
	var parts []string
	for _, p := range c16cProtos {
		parts = append(parts, p+"="+got[p])
	}
	res.Out = strings.Join(parts, " | ")

	// ---- tags
	maxDepth, special, dotted, emptyKey, nestedTs := 0, false, false, false, false
	for _, l := range leaves {
		if l.depth > maxDepth {
			maxDepth = l.depth
		}
		res.Tags = append(res.Tags, "leaf="+c16cValueClass(l.node))
		for i, seg := range l.path {
			if strings.Contains(seg, ".") {
				dotted = true
			}
			if seg == "" {
				emptyKey = true
			}
			if c16cIsSpecial(seg) {
				special = true
			}
			if seg == "timestamp" && i > 0 {
				nestedTs = true
			}
		}
	}
	res.Tags = append(res.Tags, fmt.Sprintf("depth=%d", maxDepth), "body="+c.body, fmt.Sprintf("esc=%d", c.esc))
	for _, t := range []struct {
		b bool
		n string
	}{{special, "special-name"}, {dotted, "dotted-key"}, {emptyKey, "empty-key"}, {nestedTs, "nested-ts-key"}, {c16cHasNull(c.tree), "has-null"}, {c.ids, "ids"}} {
		if t.b {
			res.Tags = append(res.Tags, t.n)
		}
	}

	// ---- the property statement on the real code
	// names that more than one sent leaf can claim (plain join with ".", and the flattener's habit of treating an empty
	// prefix as "no prefix") are outside the statement: it does not say which of the two is kept
	claims := map[string]int{}
	variants := func(path []string) []string {
		plain := strings.Join(path, ".")
		cur := ""
		for _, seg := range path {
			if cur == "" {
				cur = seg
			} else {
				cur = cur + "." + seg
			}
		}
		if cur == plain {
			return []string{plain}
		}
		return []string{plain, cur}
	}
	for _, l := range leaves {
		for _, v := range variants(l.path) {
			claims[v]++
		}
	}
	for _, p := range c16cProtos {
		switch {
		case got[p] == "panic":
			res.Tags = append(res.Tags, "panic="+p)
			res.Fails = append(res.Fails, PropFail{Sig: "content/" + p + "-panic", Msg: "the handler panicked on a well-formed event"})
			continue
		case got[p] == "*":
			continue
		case got[p] == "rejected" && longest > c16cMaxStringBytes:
			// the event cannot be stored as it is (a string value of more than 65532 bytes): refused, the sender is told
			res.Tags = append(res.Tags, "rejected-long-string="+p)
			continue
		case got[p] == "rejected":
			res.Tags = append(res.Tags, "rejected="+p)
			if p == "otlp" && c16cHasNull(c.tree) {
				res.Fails = append(res.Fails, PropFail{Sig: "content/otlp-empty-value-rejected", Msg: "the event carries a null, sent as an AnyValue with no value set (the legal OTLP \"empty\" value): the whole log record was refused"})
			} else {
				res.Fails = append(res.Fails, PropFail{Sig: "content/" + p + "-valid-event-rejected", Msg: "a well-formed event was refused"})
			}
			continue
		}
		stored, ok := c16cParseFields(got[p])
		if !ok {
			res.Fails = append(res.Fails, PropFail{Sig: "content/" + p + "-event-not-stored", Msg: "accepted event is not returned by the match-all search: " + got[p]})
			continue
		}
		reported := map[string]bool{}
		check := func(l c16cLeaf, pre string) {
			own := strings.Join(l.path, ".")
			want := c16cWant(l.node, p)
			if want == "" {
				return
			}
			name := pre + own
			have, present := stored[name]
			if (present && have == want) || have == "*" {
				return
			}
			cls := c16cValueClass(l.node)
			sig := fmt.Sprintf("content/%s-%s-altered", p, cls)
			if !present {
				where := "root"
				if l.depth > 1 {
					where = "nested"
				}
				if pre == "fields." {
					where = "hecfields"
				}
				sig = fmt.Sprintf("content/%s-%s-%s-lost", p, where, cls)
			}
			if reported[sig] {
				return
			}
			reported[sig] = true
			res.Fails = append(res.Fails, PropFail{Sig: sig,
				Msg: trunc(fmt.Sprintf("leaf %q (%s) sent through %s must be stored as field %q = %s; stored: %s", own, cls, p, name, want, map[bool]string{true: have, false: "(no such field)"}[present]), 500)})
		}
		for _, l := range leaves {
			own := strings.Join(l.path, ".")
			hasEmpty := false
			for _, seg := range l.path {
				if seg == "" {
					hasEmpty = true
				}
			}
			if hasEmpty || claims[own] > 1 {
				continue
			}
			switch p {
			case "es", "esdoc":
				// the document's root: `timestamp` is the event time, `_index`/`_type`/`_id` are ES meta fields
				if l.depth == 1 && c16cReserved[own] {
					continue
				}
				if p == "esdoc" && l.path[0] == "_id" {
					continue // the single-document API sets `_id` itself
				}
				check(l, "")
			case "hec":
				check(l, "event.")
				if l.depth == 1 && l.node.kind == 's' {
					check(l, "fields.")
				}
			case "loki":
				// what the protocol itself can express: labels (root members with a string value); `line` and
				// `timestamp` are the protocol's own fields
				if l.depth == 1 && l.node.kind == 's' && !c16cReserved[own] && own != "line" {
					check(l, "")
				}
			case "otlp":
				check(l, "attributes.")
				check(l, "resource.attributes.")
				check(l, "scope.attributes.")
				if c.body == "bk" {
					check(l, "body.")
				}
			}
		}
		// the protocol's own fields
		env := map[string]string{}
		switch p {
		case "hec":
			env["host"], env["source"], env["sourcetype"] = c16cHost, c16cSource, c16cSType
		case "loki":
			if _, over := func() (int, bool) {
				for i, k := range c.tree.keys {
					if k == "line" && c.tree.kids[i].kind != 's' {
						return i, true
					}
				}
				return 0, false
			}(); !over {
				env["line"] = c.msg
			}
		case "otlp":
			env["severity_text"], env["scope.name"], env["scope.version"] = "INFO", c16cScope, c16cScopeV
			if c.ids {
				env["trace_id"], env["span_id"] = hex.EncodeToString(c16cTraceID), hex.EncodeToString(c16cSpanID)
			}
			if c.body == "bs" {
				env["body"] = c.msg
			}
		}
		for k, v := range env {
			if v == "" {
				continue
			}
			if have, present := stored[k]; !present || have != "s"+hex.EncodeToString([]byte(v)) {
				res.Fails = append(res.Fails, PropFail{Sig: "content/" + p + "-protocol-field-" + k + "-not-intact",
					Msg: trunc(fmt.Sprintf("%s field %q = %q; stored: %q (present=%v)", p, k, v, have, present), 400)})
			}
		}
	}
	return res
}

// ---------------------------------------------------------------- generator

var c16cSpecial = []string{"timestamp", "_index", "_type", "_id", "time", "event", "index", "source", "host", "fields", "line", "body",
	"attributes", "severity", "resource", "scope", "sourcetype", "severity_text", "flags", "name", "stream", "values", "message", "0", "1"}

func c16cIsSpecial(s string) bool {
	for _, x := range c16cSpecial {
		if x == s {
			return true
		}
	}
	return false
}

var c16cPlain = []string{"a", "b", "c", "user", "id", "msg", "level", "dev", "k", "x", "y", "tags", "http", "status", "dur"}
var c16cUni = []string{"ключ", "名前", "clé", "😀", "a b", "k\"q", "tab\tkey", "back\\slash", "sl/ash", "<x>&"}

func c16cKey(r *rand.Rand, parent []string, depth int) string {
	p := r.Intn(100)
	switch {
	case p < 34:
		if r.Intn(3) == 0 {
			return "timestamp"
		}
		return c16cSpecial[r.Intn(len(c16cSpecial))]
	case p < 74:
		return c16cPlain[r.Intn(len(c16cPlain))]
	case p < 84:
		return c16cUni[r.Intn(len(c16cUni))]
	case p < 93:
		// dotted key: collides with a nested path when a sibling object exists
		a := c16cPlain[r.Intn(5)]
		b := c16cPlain[r.Intn(5)]
		if r.Intn(4) == 0 {
			b = "timestamp"
		}
		if r.Intn(5) == 0 {
			return a + "." + strconv.Itoa(r.Intn(2))
		}
		return a + "." + b
	case p < 96:
		return ""
	default:
		return "k" + strconv.Itoa(r.Intn(1000))
	}
}

var c16cBigInts = []string{"9007199254740991", "9007199254740992", "9007199254740993", "-9007199254740993", "9223372036854775806", "9223372036854775807",
	"9223372036854775808", "-9223372036854775808", "-9223372036854775809", "18446744073709551615", "18446744073709551616", "4611686018427387905",
	"1152921504606846977", "123456789012345678", "36028797018963969", "1000000000000000000000", "99999999999999999999"}
var c16cFloats = []string{"0.5", "-0.5", "1.25", "-2.75", "3.0", "0.0", "1e3", "1.5e3", "2.5e-1", "1e21", "1E2", "123456.015625", "-0.0", "2251799813685248.5", "1e-7", "0.1", "3.14159", "-273.15", "6.103515625e-05", "1700000000.5"}
var c16cNumStrs = []string{"12", "-7", "3.5", "1e5", "007", "0x10", " 42", "1700000000123", "NaN", "true", "null"}
var c16cUniVals = []string{"héllo wörld", "日本語のテキスト", "😀 emoji 🚀", "quote\"inside", "back\\slash", "tab\there", "line\nbreak", "<script>&amp;</script>", "a/b/c", " sep", "mixed ключ=значение"}

func c16cScalar(r *rand.Rand) *c16cNode {
	p := r.Intn(100)
	switch {
	case p < 30:
		w := []string{"alpha", "beta", "gamma", "GET /index.html", "error", "ok", "us-east-1", "dev-9", "v1.2.3", "client-clock-09:15:02"}
		return &c16cNode{kind: 's', str: w[r.Intn(len(w))]}
	case p < 38:
		return &c16cNode{kind: 's', str: c16cUniVals[r.Intn(len(c16cUniVals))]}
	case p < 44:
		return &c16cNode{kind: 's', str: c16cNumStrs[r.Intn(len(c16cNumStrs))]}
	case p < 47:
		return &c16cNode{kind: 's', str: ""}
	case p < 50:
		n := 200 + r.Intn(3000)
		var b strings.Builder
		for b.Len() < n {
			b.WriteString([]string{"lorem ", "ipsum ", "dolor ", "sit ", "amet ", "ж", "é "}[r.Intn(7)])
		}
		return &c16cNode{kind: 's', str: b.String()}
	case p < 66:
		var v int64
		switch r.Intn(4) {
		case 0:
			v = int64(r.Intn(10))
		case 1:
			v = int64(r.Intn(100000))
		case 2:
			v = -int64(r.Intn(100000))
		default:
			v = r.Int63n(1<<53) - 1<<52
		}
		t := strconv.FormatInt(v, 10)
		return &c16cNode{kind: 'n', tok: t, jtok: c16cJTok(t)}
	case p < 74:
		t := c16cBigInts[r.Intn(len(c16cBigInts))]
		return &c16cNode{kind: 'n', tok: t, jtok: c16cJTok(t)}
	case p < 84:
		t := c16cFloats[r.Intn(len(c16cFloats))]
		if r.Intn(3) == 0 {
			// k / 2^m, exactly representable, printed exactly
			k := r.Int63n(1<<30) - 1<<29
			m := r.Intn(12)
			t = new(big.Rat).SetFrac(big.NewInt(k), new(big.Int).Lsh(big.NewInt(1), uint(m))).FloatString(m)
			if m == 0 {
				t += ".0"
			}
		}
		return &c16cNode{kind: 'n', tok: t, jtok: c16cJTok(t)}
	case p < 98:
		if r.Intn(2) == 0 {
			return &c16cNode{kind: 't'}
		}
		return &c16cNode{kind: 'f'}
	default:
		return &c16cNode{kind: 'z'}
	}
}

func c16cGenValue(r *rand.Rand, depth, maxDepth int) *c16cNode {
	if depth >= maxDepth {
		return c16cScalar(r)
	}
	p := r.Intn(100)
	switch {
	case p < 45:
		return c16cScalar(r)
	case p < 75:
		return c16cGenObj(r, depth+1, maxDepth, false)
	case p < 80:
		return &c16cNode{kind: 'A'}
	case p < 83:
		return &c16cNode{kind: 'O'}
	case p < 92:
		n := &c16cNode{kind: 'A'}
		for i, m := 0, 1+r.Intn(4); i < m; i++ {
			n.kids = append(n.kids, c16cScalar(r))
		}
		return n
	default:
		n := &c16cNode{kind: 'A'}
		for i, m := 0, 1+r.Intn(3); i < m; i++ {
			if r.Intn(4) == 0 {
				n.kids = append(n.kids, c16cScalar(r))
			} else {
				n.kids = append(n.kids, c16cGenValue(r, depth+1, maxDepth))
			}
		}
		return n
	}
}

func c16cGenObj(r *rand.Rand, depth, maxDepth int, root bool) *c16cNode {
	n := &c16cNode{kind: 'O'}
	cnt := 1 + r.Intn(5)
	if root {
		cnt = 2 + r.Intn(6)
	}
	seen := map[string]bool{}
	add := func(k string, v *c16cNode) {
		if seen[k] || k == "k8s" || k == "siglensIndexName" || k == "trace_id" || k == "span_id" {
			return
		}
		seen[k] = true
		n.keys, n.kids = append(n.keys, k), append(n.kids, v)
	}
	for i := 0; i < cnt; i++ {
		k := c16cKey(r, n.keys, depth)
		var v *c16cNode
		if root && k == "timestamp" {
			// the root timestamp key of a document is its event time: keep it a plausible time (or not a time at all)
			switch r.Intn(4) {
			case 0:
				t := strconv.FormatInt(1000000000000+r.Int63n(3000000000000), 10)
				v = &c16cNode{kind: 'n', tok: t, jtok: c16cJTok(t)}
			case 1:
				v = &c16cNode{kind: 's', str: "client-clock-09:15:02"}
			case 2:
				v = c16cGenObj(r, depth+1, maxDepth, false)
			default:
				v = &c16cNode{kind: 't'}
			}
		} else {
			v = c16cGenValue(r, depth, maxDepth)
		}
		add(k, v)
		// a dotted key's nested twin, so that both flatten to the same name
		if i := strings.IndexByte(k, '.'); i > 0 && r.Intn(2) == 0 && depth < maxDepth {
			twin := &c16cNode{kind: 'O', keys: []string{k[i+1:]}, kids: []*c16cNode{c16cScalar(r)}}
			if _, err := strconv.Atoi(k[i+1:]); err == nil && r.Intn(2) == 0 {
				twin = &c16cNode{kind: 'A', kids: []*c16cNode{c16cScalar(r), c16cScalar(r)}}
			}
			add(k[:i], twin)
		}
	}
	return n
}

func c16cLine(r *rand.Rand, t *c16cNode) string {
	body := []string{"bs", "bk"}[r.Intn(2)]
	ids := []string{"i0", "i1"}[r.Intn(2)]
	esc := fmt.Sprintf("e%d", r.Intn(3))
	msgs := []string{"user login ok", "GET /index.html 200", "ошибка сети", "payment accepted", "a \"quoted\" line\twith tab", "-"}
	msg := msgs[r.Intn(len(msgs))]
	mh := "-"
	if msg != "-" {
		mh = hex.EncodeToString([]byte(msg))
	}
	toks := []string{"pc", body + "," + ids + "," + esc, mh}
	t.c16cTokens(&toks)
	return strings.Join(toks, " ")
}

func c16cFixed() []*c16cNode {
	s := func(x string) *c16cNode { return &c16cNode{kind: 's', str: x} }
	nu := func(x string) *c16cNode { return &c16cNode{kind: 'n', tok: x, jtok: c16cJTok(x)} }
	o := func(kv ...interface{}) *c16cNode {
		n := &c16cNode{kind: 'O'}
		for i := 0; i+1 < len(kv); i += 2 {
			n.keys, n.kids = append(n.keys, kv[i].(string)), append(n.kids, kv[i+1].(*c16cNode))
		}
		return n
	}
	a := func(v ...*c16cNode) *c16cNode { return &c16cNode{kind: 'A', kids: v} }
	return []*c16cNode{
		o("msg", s("door opened"), "device", o("id", s("dev-9"), "timestamp", s("dev-uptime-000123"))),
		o("timestamp", nu("1700000000456"), "order_id", s("order-4711"), "attributes", o("timestamp", s("client-clock-09:15:02"), "n", nu("7"))),
		o("a", o("b", o("c", o("d", o("timestamp", nu("5"), "e", s("deep"))))), "arr", a(nu("1"), s("two"), &c16cNode{kind: 't'}, o("timestamp", s("in-array"), "k", nu("2")))),
		o("a.b", nu("1"), "a", o("b", nu("2")), "x", s("y")),
		o("", o("a", nu("1")), "a", nu("2")),
		o("big", nu("9007199254740993"), "u64", nu("18446744073709551615"), "neg", nu("-9223372036854775808"), "f", nu("0.5"), "e", a(), "eo", o()),
		o("time", s("t"), "event", s("e"), "index", s("i"), "host", s("h"), "source", s("s"), "fields", o("k", s("v")), "line", s("l"), "body", s("b"), "_type", s("ty"), "_id", s("id7"), "_index", s("ix")),
		// 65532 bytes is the longest string value that can be stored and read back, anything longer must be refused
		// (65533..65535 used to be lost or to crash the reader, longer values came back cut to their length mod 65536)
		o("long", s(strings.Repeat("L", 65532)), "a", s("b")),
		o("long", s(strings.Repeat("L", 65533)), "a", s("b")),
		o("arr", a(s(strings.Repeat("L", 65534)), s("x")), "a", s("b")),
		o("long", s(strings.Repeat("L", 65536)), "a", s("b")),
		o("deep", o("long", s(strings.Repeat("ж", 35000))), "a", s("b")),
	}
}

func c16cGen(r *rand.Rand, n int, tier string) []string {
	var out []string
	for _, t := range c16cFixed() {
		if len(out) < n {
			out = append(out, c16cLine(r, t))
		}
	}
	for len(out) < n {
		if r.Intn(25) == 0 {
			// malformed share
			bad := []string{"pc bs,i0,e0 - O1 k61", "pc bs,i0 - O0", "pc bs,i0,e0 - O1 k6 s61", "pc bs,i0,e0 - A0", "pc bs,i0,e0 - O1 k61 n1x~1x", "pc bs,i0,e0 - O0 t",
				"pc bs,i0,e0 - O2 k61 t k61 f", "pc bx,i0,e0 - O0", "pc bs,i0,e0 zz O0", "pc bs,i0,e0 - O1 k61 q"}
			out = append(out, bad[r.Intn(len(bad))])
			continue
		}
		maxDepth := r.Intn(5)
		t := c16cGenObj(r, 0, maxDepth, true)
		// keep documents well inside the record size limit and valid UTF-8
		if js := c16cJSONOf(t, 1); len(js) > 20000 || !utf8.ValidString(js) {
			continue
		}
		if r.Intn(120) == 0 {
			// one string value around the longest a stored string can be (see c16cFixed)
			var long string
			if r.Intn(4) == 0 {
				long = strings.Repeat("ж", []int{65530, 65532, 65534, 65536, 70000}[r.Intn(5)]/2)
			} else {
				long = strings.Repeat("L", []int{65531, 65532, 65533, 65534, 65535, 65536, 65537, 70000, 131072}[r.Intn(9)])
			}
			leaf := &c16cNode{kind: 's', str: long}
			switch r.Intn(3) {
			case 0:
				t.keys, t.kids = append(t.keys, "zlong"), append(t.kids, leaf)
			case 1:
				t.keys, t.kids = append(t.keys, "zdeep"), append(t.kids, &c16cNode{kind: 'O', keys: []string{"long"}, kids: []*c16cNode{leaf}})
			default:
				t.keys, t.kids = append(t.keys, "zarr"), append(t.kids, &c16cNode{kind: 'A', kids: []*c16cNode{{kind: 's', str: "x"}, leaf}})
			}
		}
		out = append(out, c16cLine(r, t))
	}
	return out
}

func init() { registerWorker("c16cworker", c16cWorkerMain) }
