package main

import (
	"fmt"

	"github.com/siglens/siglens/pkg/ast"
	"github.com/siglens/siglens/pkg/ast/pipesearch"
	"github.com/siglens/siglens/pkg/segment/structs"
	sutils "github.com/siglens/siglens/pkg/segment/utils"
	"github.com/siglens/siglens/pkg/segment/writer"
)

func main() {
	crit, err := ast.ProcessSingleFilter("b", true, nil, "=", false, false, false, false, 0)
	fmt.Println(err, len(crit))
	sq := structs.GetSearchQueryFromFilterCriteria(crit[0], 0)
	sq.GetQueryInfo()
	fmt.Printf("type=%v qval=%+v\n", sq.SearchType, sq.QueryInfo.QValDte)
	k, o, w, op := sq.GetAllBlockBloomKeysToSearch()
	fmt.Println(k, o, w, op)
	rf, rop, isR := sq.ExtractRangeFilterFromQuery(0)
	fmt.Println(rf, rop, isR)
	h := &sutils.DtypeEnclosure{}
	m, e := writer.ApplySearchToExpressionFilterSimpleCsg(sq.QueryInfo.QValDte, sq.ExpressionFilter.FilterOp, []byte{sutils.VALTYPE_ENC_BOOL[0], 1}, false, h, false)
	fmt.Println("rec true:", m, e)
	node, aggs, _, err := pipesearch.ParseQuery("b=true", 0, "Splunk QL")
	fmt.Printf("%v %+v\n", err, aggs)
	if node != nil && node.AndFilterCondition != nil {
		for _, c := range node.AndFilterCondition.FilterCriteria {
			fmt.Printf("crit: mf=%+v ef=%+v\n", c.MatchFilter, c.ExpressionFilter)
			if c.ExpressionFilter != nil {
				fmt.Printf("  left=%+v right=%+v val=%+v\n", c.ExpressionFilter.LeftInput.Expression.LeftInput, c.ExpressionFilter.RightInput.Expression.LeftInput, c.ExpressionFilter.RightInput.Expression.LeftInput.ColumnValue)
			}
		}
	}
}
