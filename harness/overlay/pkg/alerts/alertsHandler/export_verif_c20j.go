//go:build verif

package alertsHandler

import (
	"fmt"
	"reflect"
	"unsafe"

	"github.com/siglens/siglens/pkg/alerts/alertutils"
)

// Hooks for the /verif suite "alertjob" (alert evaluation across job lifetimes).  Build tag verif, injected
// with -overlay; only ADDS wrappers.  The suite drives the real request handlers (create / update / silence /
// delete), the real start-up routine InitAlertingService and the real handleAlertCondition, and evaluates
// with THE OBJECT THE CRON JOB HOLDS (the argument AddCronJob handed to gocron), not with a fresh read.

// VerifJobPrepare makes every job created from now on wait for its first interval (≥ 60 s) instead of running
// at once; a case lasts milliseconds and removes its jobs at the end, so no cron job ever fires during a case.
// The scheduler is left RUNNING (AddCronJob starts it on every call): stopping and re-starting it would run every
// job that has been scheduled once immediately (gocron flips startsImmediately after the first scheduling).
func VerifJobPrepare() { s.WaitForScheduleAll() }

// VerifJobQuiesce: nothing to do (kept as the one place where the suite hands control back after a request that
// may have started the scheduler).
func VerifJobQuiesce() {}

// VerifJobAlert returns the *AlertDetails captured by the cron job tagged with the alert id: gocron keeps the
// arguments of DoWithJobDetails in the unexported field Job.jobFunction.parameters.
func VerifJobAlert(id string) (*alertutils.AlertDetails, error) {
	jobs, err := s.FindJobsByTag(id)
	if err != nil {
		return nil, err
	}
	if len(jobs) != 1 {
		return nil, fmt.Errorf("%d cron jobs for alert %s", len(jobs), id)
	}
	v := reflect.ValueOf(jobs[0]).Elem().FieldByName("parameters")
	if !v.IsValid() || v.Kind() != reflect.Slice || !v.CanAddr() {
		return nil, fmt.Errorf("gocron.Job has no parameters field")
	}
	params, ok := reflect.NewAt(v.Type(), unsafe.Pointer(v.UnsafeAddr())).Elem().Interface().([]interface{})
	if !ok || len(params) < 1 {
		return nil, fmt.Errorf("gocron.Job parameters have an unexpected shape")
	}
	a, ok := params[0].(*alertutils.AlertDetails)
	if !ok || a == nil {
		return nil, fmt.Errorf("first job parameter is %T", params[0])
	}
	return a, nil
}

// VerifJobCount: number of cron jobs carrying the tag.
func VerifJobCount(id string) int {
	jobs, err := s.FindJobsByTag(id)
	if err != nil {
		return 0
	}
	return len(jobs)
}

// VerifJobRestart emulates a new process for the alerts of one org: the scheduler of a new process is empty and
// the database is opened again; then the real start-up routine re-creates the jobs from the database.
func VerifJobRestart(org int64) error {
	s.Clear()
	VerifJobQuiesce()
	Disconnect()
	if err := ConnectSiglensDB(); err != nil {
		return err
	}
	if err := VerifTuneDB(); err != nil {
		return err
	}
	InitAlertingService(func() []int64 { return []int64{org} })
	VerifJobQuiesce()
	return nil
}

// VerifLegacyRow rewrites columns of an all_alerts row directly (a row as an older version of the product may have
// left it in the database: eval_interval 0, alert_type 0, …); no code under test is involved.
func VerifLegacyRow(id string, cols map[string]interface{}) error {
	p, err := verifDB()
	if err != nil {
		return err
	}
	return p.VerifDB().Model(&alertutils.AlertDetails{}).Where("alert_id = ?", id).Updates(cols).Error
}

// VerifJobRemove removes whatever jobs carry the tag (end-of-case cleanup).
func VerifJobRemove(id string) { _ = s.RemoveByTag(id) }

// VerifJobSchedule returns what gocron holds for the one job tagged with the alert id: the interval in seconds
// (AddCronJob schedules with Every(n).Second()) and the name of the job's function.
func VerifJobSchedule(id string) (int64, string, error) {
	jobs, err := s.FindJobsByTag(id)
	if err != nil {
		return 0, "", err
	}
	if len(jobs) != 1 {
		return 0, "", fmt.Errorf("%d cron jobs for alert %s", len(jobs), id)
	}
	v := reflect.ValueOf(jobs[0]).Elem()
	iv, fn := v.FieldByName("interval"), v.FieldByName("funcName")
	if !iv.IsValid() || iv.Kind() != reflect.Int || !fn.IsValid() || fn.Kind() != reflect.String {
		return 0, "", fmt.Errorf("gocron.Job has no interval / funcName field")
	}
	return iv.Int(), fn.String(), nil
}
