//go:build verif

package alertsHandler

import "github.com/siglens/siglens/pkg/alerts/alertutils"

// Hooks for the /verif correspondence harness (C20 keyed stores; build tag verif, injected with -overlay;
// not part of the repo): the contact-point and alert CRUD methods of the package's database object, which
// the HTTP handlers call with the request body unmarshalled into the same structs.

func VerifUpdateContact(c *alertutils.Contact) error { return databaseObj.UpdateContactPoint(c) }

func VerifDeleteContact(id string) error { return databaseObj.DeleteContactPoint(id) }

func VerifGetAllContacts(org int64) ([]alertutils.Contact, error) {
	return databaseObj.GetAllContactPoints(org)
}

func VerifUpdateAlert(a *alertutils.AlertDetails) error { return databaseObj.UpdateAlert(a) }

func VerifDeleteAlert(id string) error { return databaseObj.DeleteAlert(id) }

func VerifGetAllAlerts(org int64) ([]*alertutils.AlertDetails, error) {
	return databaseObj.GetAllAlerts(org)
}
