//go:build verif

package alertsHandler

import (
	"fmt"
	"time"

	"github.com/siglens/siglens/pkg/alerts/alertsqlite"
	"github.com/siglens/siglens/pkg/alerts/alertutils"
)

// Hooks for the /verif correspondence harness (build tag verif, injected with -overlay; not part of the repo).
// They only ADD exported wrappers around unexported entry points and around the package's database object.

// VerifHandleAlertCondition is the real evaluation transition (what evaluateLogAlert / evaluateMetricsAlert
// call once the query result has been compared with the threshold).
func VerifHandleAlertCondition(a *alertutils.AlertDetails, matched bool, msg string) error {
	return handleAlertCondition(a, matched, msg)
}

func VerifCreateContact(c *alertutils.Contact) error { return databaseObj.CreateContact(c) }

func VerifCreateAlert(a *alertutils.AlertDetails) (alertutils.AlertDetails, error) {
	return databaseObj.CreateAlert(a)
}

func VerifGetAlert(id string) (*alertutils.AlertDetails, error) { return databaseObj.GetAlert(id) }

func VerifGetNotification(id string) (*alertutils.Notification, error) {
	return databaseObj.GetAlertNotification(id)
}

// VerifHistoryStates returns the alert_state column of the alert's history rows, newest first.
func VerifHistoryStates(id string, limit uint64) ([]alertutils.AlertState, error) {
	rows, err := databaseObj.GetAlertHistoryByAlertID(&alertutils.AlertHistoryQueryParams{AlertId: id, Limit: limit, SortOrder: alertutils.DESC})
	if err != nil {
		return nil, err
	}
	res := make([]alertutils.AlertState, 0, len(rows))
	for _, r := range rows {
		res = append(res, r.AlertState)
	}
	return res, nil
}

// VerifConfigChangeRow writes exactly the history row ProcessUpdateAlertRequest writes after a
// successful UpdateAlert (alertsHandler.go, `alertEvent := alertutils.AlertHistoryDetails{...ConfigChange...}`).
func VerifConfigChangeRow(id string) error {
	alertEvent := alertutils.AlertHistoryDetails{
		AlertId:          id,
		EventDescription: alertutils.ConfigChange,
		UserName:         alertutils.UserModified,
		EventTriggeredAt: time.Now().UTC(),
	}
	_, err := databaseObj.CreateAlertHistory(&alertEvent)
	return err
}

func verifDB() (*alertsqlite.Sqlite, error) {
	p, ok := databaseObj.(*alertsqlite.Sqlite)
	if !ok || p == nil {
		return nil, fmt.Errorf("databaseObj is not the sqlite store")
	}
	return p, nil
}

// VerifSetCooldown sets notification_details.cooldown_period (minutes) of the alert.
func VerifSetCooldown(id string, minutes uint64) error {
	p, err := verifDB()
	if err != nil {
		return err
	}
	return p.VerifDB().Model(&alertutils.Notification{}).Where("alert_id = ?", id).Update("cooldown_period", minutes).Error
}

// VerifShiftLastSent simulates `minutes` minutes passing: the stored last_sent_time (if any) is moved back.
func VerifShiftLastSent(id string, minutes uint64) error {
	p, err := verifDB()
	if err != nil {
		return err
	}
	n, err := databaseObj.GetAlertNotification(id)
	if err != nil {
		return err
	}
	if n.LastSentTime.IsZero() {
		return nil
	}
	return p.VerifDB().Model(&alertutils.Notification{}).Where("alert_id = ?", id).
		Update("last_sent_time", n.LastSentTime.Add(-time.Duration(minutes)*time.Minute)).Error
}

// VerifTuneDB relaxes sqlite durability for the harness run (speed only; no semantic effect).
func VerifTuneDB() error {
	p, err := verifDB()
	if err != nil {
		return err
	}
	return p.VerifDB().Exec("PRAGMA synchronous=OFF;").Error
}

// VerifSchedulerIdle reports that the cron scheduler has no jobs and is not running.
func VerifSchedulerIdle() bool { return len(s.Jobs()) == 0 && !s.IsRunning() }
