//go:build verif

package alertsqlite

import "gorm.io/gorm"

// Hook for the /verif correspondence harness (build tag verif, injected with -overlay; not part of the repo).

// VerifDB hands out the gorm handle so that the harness can simulate the passing of time by
// moving notification_details.last_sent_time back, and can set the cool-down period (which no
// product API sets) — both with plain UPDATEs, without touching the code under test.
func (p *Sqlite) VerifDB() *gorm.DB { return p.db }
