//go:build verif

package metadata

import "sort"

// Hooks for the /verif correspondence harness (C11). Read-only accessor, no logic of its own.

// VerifC11Rotated lists the rotated segments that a query's time filtering walks
// (globalMetadata.tableSortedMetadata): segkey → NumBlocks of its segmeta, sorted by key.
// A key listed twice in a table's slice is reported twice.
func VerifC11Rotated() (keys []string, blocks []int) {
	globalMetadata.updateLock.RLock()
	nb := map[string]int{}
	for _, l := range globalMetadata.tableSortedMetadata {
		for _, smi := range l {
			keys = append(keys, smi.SegmentKey)
			nb[smi.SegmentKey] = int(smi.NumBlocks)
		}
	}
	globalMetadata.updateLock.RUnlock()
	sort.Strings(keys)
	for _, k := range keys {
		blocks = append(blocks, nb[k])
	}
	return
}
