//go:build verif

package metadata

import (
	"sync"

	"github.com/siglens/siglens/pkg/segment/structs"
)

// Hook for the /verif C03 kernel slice "bloom": a segment micro-index holding the given block CMIs
// (what readCmis builds from the .cmi files). No logic of its own.
func VerifC03bSmi(cmis map[uint16]map[string]*structs.CmiContainer, nBlocks int) *SegmentMicroIndex {
	smi := &SegmentMicroIndex{smiLock: &sync.RWMutex{}}
	smi.blockCmis = cmis
	smi.BlockSummaries = make([]*structs.BlockSummary, nBlocks)
	for i := range smi.BlockSummaries {
		smi.BlockSummaries[i] = &structs.BlockSummary{LowTs: 5, HighTs: 5, RecCount: 1}
	}
	return smi
}
