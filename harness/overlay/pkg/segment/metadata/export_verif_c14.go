//go:build verif

package metadata

import "sort"

// Hooks for the /verif correspondence harness (C14). Read-only accessors, no logic of their own.

// VerifMetricsSegmentDirs lists the metrics segments present in the in-memory metrics metadata.
func VerifMetricsSegmentDirs() []string {
	globalMetricsMetadata.updateLock.RLock()
	defer globalMetricsMetadata.updateLock.RUnlock()
	res := make([]string, 0, len(globalMetricsMetadata.metricsSegmentMetaMap))
	for k := range globalMetricsMetadata.metricsSegmentMetaMap {
		res = append(res, k)
	}
	sort.Strings(res)
	return res
}
