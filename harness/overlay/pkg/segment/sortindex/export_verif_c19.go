//go:build verif

package sortindex

// Hook for the /verif correspondence harness (C19; build tag verif, injected with -overlay; not part of the repo).

// verifAdaptName takes whatever getFilename returns — (string) before the repair of the column-name path escape,
// (string, error) after it — so that the harness builds against both.
func verifAdaptName(vals ...interface{}) (string, error) {
	name, _ := vals[0].(string)
	if len(vals) > 1 {
		if err, ok := vals[1].(error); ok && err != nil {
			return "", err
		}
	}
	return name, nil
}

// VerifSortIndexFilename exposes the file name builder of a column's sort index.
func VerifSortIndexFilename(segkey string, cname string, mode SortMode) (string, error) {
	return verifAdaptName(getFilename(segkey, cname, mode))
}
