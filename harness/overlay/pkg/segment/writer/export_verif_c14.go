//go:build verif

package writer

import (
	"bytes"
	"runtime"
)

// Hooks for the /verif correspondence harness (build tag verif, injected with -overlay; not part of the repo).

var verifPqsListenerSeen = false

// verifPqsListenerRuns: is the goroutine listenBackFillAndEmptyPQSRequests alive in this process?  (It is started by
// initSmr; it never returns, so one positive answer is final.)
func verifPqsListenerRuns() bool {
	if verifPqsListenerSeen {
		return true
	}
	buf := make([]byte, 1<<20)
	for {
		n := runtime.Stack(buf, true)
		if n < len(buf) {
			buf = buf[:n]
			break
		}
		buf = make([]byte, 2*len(buf))
	}
	verifPqsListenerSeen = bytes.Contains(buf, []byte("writer.listenBackFillAndEmptyPQSRequests"))
	return verifPqsListenerSeen
}

// VerifDrainPqsRequests returns when every request that was queued in pqsChan before the call has been processed
// by the real processBackFillAndEmptyPQSRequests.
//
// With the listener goroutine running (listenBackFillAndEmptyPQSRequests, the only receiver of pqsChan: it copies
// every request into a private buffer and processes the buffer when it holds PQS_FLUSH_SIZE requests, or every
// PQS_TICKER seconds) the hook waits for an EVENT, it neither sleeps nor polls: it sends PQS_FLUSH_SIZE + cap(pqsChan)
// requests that ask for nothing (no flag set: processBackFillAndEmptyPQSRequests skips them).  Let S be the number
// of requests sent on the channel before the call and C its capacity.
//   - The last real request is request S; wherever it lands in the listener's buffer, the buffer is full — and is
//     processed, synchronously, in the listener goroutine — at the latest when request S+PQS_FLUSH_SIZE-1 has been
//     received, i.e. BEFORE the listener receives request S+PQS_FLUSH_SIZE.
//   - A send on a full buffered channel completes only when a receive has made room: the completion of send number
//     k+C is synchronized after receive number k (Go memory model).  The hook's last send is number
//     S+PQS_FLUSH_SIZE+C, so when it returns the listener has received request S+PQS_FLUSH_SIZE.
// Hence every request queued before the call has been processed when the hook returns.  All writes stay in the
// listener goroutine, as in production; the requests left in the channel ask for nothing.
// Without a listener (a process that never ran initSmr) the hook takes the requests off the channel and hands them
// to processBackFillAndEmptyPQSRequests itself.  Returns the number of requests it processed itself.
func VerifDrainPqsRequests() int {
	if verifPqsListenerRuns() {
		for i := 0; i < PQS_FLUSH_SIZE+cap(pqsChan); i++ {
			pqsChan <- PQSChanMeta{}
		}
		return 0
	}
	var reqs []PQSChanMeta
	for {
		select {
		case r := <-pqsChan:
			reqs = append(reqs, r)
			continue
		default:
		}
		break
	}
	processBackFillAndEmptyPQSRequests(reqs)
	return len(reqs)
}

// VerifRemoveSegmetas calls the real removeSegmetas (reached in production through RemoveSegMetas with a
// non-nil map and no index name, and through DeleteSegmentsForIndex with a nil map and an index name).
func VerifRemoveSegmetas(segkeysToRemove map[string]struct{}, indexName string) map[string]struct{} {
	return removeSegmetas(segkeysToRemove, indexName)
}
