//go:build verif

package writer

// Hooks for the /verif correspondence harness (build tag verif, injected with -overlay; not part of the repo).

// VerifDrainPqsRequests takes every request that is queued in pqsChan and hands them to
// processBackFillAndEmptyPQSRequests, the function the listener goroutine
// (listenBackFillAndEmptyPQSRequests) calls every PQS_TICKER seconds or PQS_FLUSH_SIZE requests.
// In a process that started on a fresh data directory that goroutine does not run at all (initSmr
// returns before `go listenBackFillAndEmptyPQSRequests()` when it had to create segmeta.json), so
// nothing else reads the channel.  Returns the number of requests processed.
func VerifDrainPqsRequests() int {
	var reqs []PQSChanMeta
	for {
		select {
		case r := <-pqsChan:
			reqs = append(reqs, r)
			continue
		default:
		}
		break
	}
	processBackFillAndEmptyPQSRequests(reqs)
	return len(reqs)
}

// VerifRemoveSegmetas calls the real removeSegmetas (reached in production through RemoveSegMetas with a
// non-nil map and no index name, and through DeleteSegmentsForIndex with a nil map and an index name).
func VerifRemoveSegmetas(segkeysToRemove map[string]struct{}, indexName string) map[string]struct{} {
	return removeSegmetas(segkeysToRemove, indexName)
}
