//go:build verif

package writer

import "time"

// Hooks for the /verif correspondence harness (build tag verif, injected with -overlay; not part of the repo).

// VerifDrainPqsRequests makes the listener goroutine (listenBackFillAndEmptyPQSRequests) process every
// request queued before the call: it sends 2*PQS_FLUSH_SIZE requests that ask for nothing (all flags
// false) and waits until the channel is empty.  The listener flushes inline whenever it holds
// PQS_FLUSH_SIZE requests, so the flush that contains the last earlier request has completed before
// the listener takes the last of these.  Returns false if the channel was not emptied within 5 s.
func VerifDrainPqsRequests() bool {
	for i := 0; i < 2*PQS_FLUSH_SIZE; i++ {
		pqsChan <- PQSChanMeta{}
	}
	deadline := time.Now().Add(5 * time.Second)
	for len(pqsChan) > 0 {
		if time.Now().After(deadline) {
			return false
		}
		time.Sleep(200 * time.Microsecond)
	}
	return true
}
