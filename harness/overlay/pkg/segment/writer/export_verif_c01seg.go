//go:build verif

package writer

// Hooks for the /verif C01 multi-block suite `tlvseg` (build tag verif, injected with -overlay; not part of the
// repo).  Only exported wrappers around unexported functions / fields; no logic of their own beyond what the
// production callers (createSegStore, GetNewPLE/ParseRawJsonObject) do around them.

// VerifC01SegStore is createSegStore (segwriter.go) without the registration in allSegStores: a real SegStore
// with a real segment directory and suffix, invisible to the timer-driven flush / rotate loops so that the block
// boundaries are exactly the ones the suite asks for.
func VerifC01SegStore(streamid string, table string, orgId int64) (*SegStore, error) {
	ss := NewSegStore(orgId)
	ss.initWipBlock()
	if err := ss.resetSegStore(streamid, table); err != nil {
		return nil, err
	}
	return ss, nil
}

// VerifC01SegPLE builds one event with the named columns through the real parseSingle* functions
// (the per-value work of ParseRawJsonObject); Kind '-' = the event lacks the column.
func VerifC01SegPLE(ts uint64, names []string, vals []VerifVal, tsKey *string) *ParsedLogEvent {
	ple := NewPLE()
	ple.SetTimestamp(ts)
	for i, v := range vals {
		switch v.Kind {
		case 's':
			parseSingleString(names[i], tsKey, v.Str, ple)
		case 'b':
			parseSingleBool(names[i], v.Bool, tsKey, ple)
		case 'z':
			parseSingleNull(names[i], tsKey, ple)
		case 'i':
			parseSingleNumber(names[i], v.I, tsKey, nil, ple)
		case 'f':
			parseSingleNumber(names[i], v.F, tsKey, nil, ple)
		case '-':
		}
	}
	return ple
}

// VerifC01SegMixed: the test of AppendWipToSegfile / consolidateColumnTypes for "this column is rewritten at the
// flush of the open block": in columnsInBlock, has a bloom, has a range index.
func (ss *SegStore) VerifC01SegMixed(cname string) bool {
	_, in := ss.wipBlock.columnsInBlock[cname]
	_, b := ss.wipBlock.columnBlooms[cname]
	_, r := ss.wipBlock.columnRangeIndexes[cname]
	return in && b && r
}

func (ss *SegStore) VerifC01SegBlockRecs() uint16 { return ss.wipBlock.blockSummary.RecCount }

func (ss *SegStore) VerifC01SegNumBlocks() uint16 { return ss.numBlocks }
