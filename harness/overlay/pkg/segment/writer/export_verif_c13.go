//go:build verif

package writer

import (
	dtu "github.com/siglens/siglens/pkg/common/dtypeutils"
)

// Hooks for the /verif correspondence harness (build tag verif, injected with -overlay; not part of the repo).

// VerifResetUnrotated empties the table of unrotated segments.
func VerifResetUnrotated() {
	UnrotatedInfoLock.Lock()
	AllUnrotatedSegmentInfo = map[string]*UnrotatedSegmentInfo{}
	UnrotatedInfoLock.Unlock()
}

// VerifAddUnrotated registers an unrotated segment with the fields the query-time selection reads.
func VerifAddUnrotated(segKey string, table string, orgid int64, lo uint64, hi uint64) {
	UnrotatedInfoLock.Lock()
	AllUnrotatedSegmentInfo[segKey] = &UnrotatedSegmentInfo{
		TableName:  table,
		orgid:      orgid,
		tsRange:    &dtu.TimeRange{StartEpochMs: lo, EndEpochMs: hi},
		allColumns: map[string]bool{},
	}
	UnrotatedInfoLock.Unlock()
}
