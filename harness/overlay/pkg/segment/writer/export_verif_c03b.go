//go:build verif

package writer

import (
	"github.com/bits-and-blooms/bloom/v3"
	dtu "github.com/siglens/siglens/pkg/common/dtypeutils"
	"github.com/siglens/siglens/pkg/segment/structs"
	sutils "github.com/siglens/siglens/pkg/segment/utils"
)

// Hooks for the /verif C03 kernel slice "bloom" (build tag verif, injected with -overlay; not part of the repo).
// Only exported wrappers around the real, unexported functions.

// VerifC03bAddWithBuf is the flush path's key insertion (work buffer of its own).
func VerifC03bAddWithBuf(bf *bloom.BloomFilter, word []byte, buf []byte) (uint32, error) {
	return addToBlockBloomBothCasesWithBuf(bf, word, buf)
}

// VerifC03bAddInPlace is the variant whose work buffer is the word itself (array-dict keys, converted numbers).
func VerifC03bAddInPlace(bf *bloom.BloomFilter, word []byte) uint32 {
	return addToBlockBloomBothCases(bf, word)
}

// VerifC03bRawBloom runs ColWip.writeToBloom (plain block) of column cname into the given filter.
func (ss *SegStore) VerifC03bRawBloom(cname string, bf *bloom.BloomFilter) error {
	cw, ok := ss.wipBlock.colWips[cname]
	if !ok {
		return nil
	}
	bi := &BloomIndex{Bf: bf}
	buf := make([]byte, 1<<16)
	return cw.writeToBloom(buf, bi, ss.wipBlock.blockSummary.RecCount, cname)
}

// VerifC03bDeBloom runs ColWip.writeDeBloom (dictionary block) of column cname. The function sizes its own filter
// from deCount; the hook raises deCount for the call so that the filter is large (no false positives in the
// harness' membership tests) and restores it afterwards.
func (ss *SegStore) VerifC03bDeBloom(cname string) (*bloom.BloomFilter, error) {
	cw, ok := ss.wipBlock.colWips[cname]
	if !ok {
		return nil, nil
	}
	saved := cw.deData.deCount
	cw.deData.deCount = 60000
	defer func() { cw.deData.deCount = saved }()
	bi := &BloomIndex{}
	buf := make([]byte, 1<<16)
	err := cw.writeDeBloom(buf, bi)
	return bi.Bf, err
}

// VerifC03bUnrotatedCheck runs the open-segment micro-index check (DoCMICheckForUnrotated) on ONE block whose
// column micro-indexes are given; returns whether the block is kept.
func VerifC03bUnrotatedCheck(cmis map[string]*structs.CmiContainer, q *structs.SearchQuery,
	keys map[string]bool, orig map[string]string, op sutils.LogicalOperator,
	rangeFilter map[string]string, rangeOp sutils.FilterOperator, isRange bool, wildcardValue bool) (bool, error) {
	cols := map[string]bool{}
	for c := range cmis {
		cols[c] = true
	}
	usi := &UnrotatedSegmentInfo{
		blockSummaries:     []*structs.BlockSummary{{LowTs: 5, HighTs: 5, RecCount: 1}},
		unrotatedBlockCmis: []map[string]*structs.CmiContainer{cmis},
		allColumns:         cols,
		isCmiLoaded:        true,
	}
	res, _, _, err := usi.DoCMICheckForUnrotated(q, &dtu.TimeRange{StartEpochMs: 1, EndEpochMs: 10},
		structs.InitEntireFileBlockTracker(), keys, orig, op, rangeFilter, rangeOp, isRange, wildcardValue, 0)
	_, kept := res[0]
	return kept, err
}
