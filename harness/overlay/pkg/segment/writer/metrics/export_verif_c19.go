//go:build verif

package metrics

// Hooks for the /verif correspondence harness (C19; build tag verif, injected with -overlay; not part of the repo).

// VerifTagsTreeFileName exposes the file name builder of one tags tree (base dir + tag key).
func VerifTagsTreeFileName(key string, ttBase string) string { return getTagsTreeFileName(key, ttBase) }

// VerifTagKeyAccepted runs the real tag-key check that EncodeDatapoint applies to a datapoint's tags.
func VerifTagKeyAccepted(key string) bool {
	th := GetTagsHolder()
	th.Insert(key, []byte("v"), 0)
	return th.checkTagKeys() == nil
}
