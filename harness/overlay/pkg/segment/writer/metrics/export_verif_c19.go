//go:build verif

package metrics

// Hooks for the /verif correspondence harness (C19; build tag verif, injected with -overlay; not part of the repo).

// VerifTagsTreeFileName exposes the file name builder of one tags tree (base dir + tag key).
func VerifTagsTreeFileName(key string, ttBase string) string { return getTagsTreeFileName(key, ttBase) }
