//go:build verif

package metrics

// Hooks for the /verif correspondence harness (C08, suite tagstree; build tag verif, injected with -overlay; not part
// of the repo): a tags tree holder on a directory of the caller's choice, filled through the real TagTree.AddTagValue.

import (
	"sync"
	"time"

	jp "github.com/buger/jsonparser"
)

// VerifNewTTH = the literal of InitTagsTreeHolder without the suffix file (the base directory is given).
func VerifNewTTH(base string) *TagsTreeHolder {
	return &TagsTreeHolder{
		tagstreeBase: base,
		mid:          "0",
		allTrees:     make(map[string]*TagTree),
		rwLock:       &sync.RWMutex{},
		createdTime:  time.Now(),
		tsidLookup:   make(map[uint64]struct{}),
	}
}

// VerifAddTagValue: the loop body of TagsTreeHolder.AddTagsForTSID for one tag.
func (tth *TagsTreeHolder) VerifAddTagValue(tagKey string, mName, val []byte, vt jp.ValueType, tsid uint64) error {
	tth.rwLock.Lock()
	defer tth.rwLock.Unlock()
	currTree, ok := tth.allTrees[tagKey]
	if !ok {
		currTree = InitTagsTree(tagKey)
		tth.allTrees[tagKey] = currTree
	}
	return currTree.AddTagValue(mName, val, vt, tsid)
}
