//go:build verif

package metrics

// Hooks for the /verif C10 recovery slice (suite walrecover; build tag verif, injected with -overlay; not
// part of the repo).  They only READ unexported state or call unexported functions of this package in the
// way the repo's own callers do.  The bodies of the timer loops are NOT copied here: they are generated
// textually from the current source by harness/cmd/overlaygen (c10r.go) into export_c10rgen_verif.go.

import (
	"fmt"
	"sort"

	"github.com/siglens/siglens/pkg/segment/memory"
	sutils "github.com/siglens/siglens/pkg/segment/utils"
)

// VerifC10RShard is a snapshot of the unexported state of one metrics segment (shard).
type VerifC10RShard struct {
	Mid          string
	Suffix       uint64 // ms.Suffix
	CurrBlockNum uint16 // ms.currBlockNum
	Blknum       uint16 // ms.mBlock.mBlockSummary.Blknum
	WalSegID     uint64 // ms.mBlock.dpWalState.segID
	WalIndex     uint64 // ms.mBlock.dpWalState.currentWALIndex
	DpIdx        uint64 // ms.mBlock.dpWalState.dpIdx
	NumWals      int    // len(ms.mBlock.dpWalState.allWALs)
	BlkEncSize   uint64
	SegEncSize   uint64
	DpCount      uint64
	PendNames    int // len(ms.mNameWalState.metricsNames)
	KeyBase      string
}

// VerifC10RShards returns the shards of org 0 sorted by shard id.
func VerifC10RShards() []VerifC10RShard {
	var out []VerifC10RShard
	for _, ms := range GetAllMetricsSegments() {
		out = append(out, VerifC10RShard{
			Mid: ms.Mid, Suffix: ms.Suffix, CurrBlockNum: ms.currBlockNum, Blknum: ms.mBlock.mBlockSummary.Blknum,
			WalSegID: ms.mBlock.dpWalState.segID, WalIndex: ms.mBlock.dpWalState.currentWALIndex, DpIdx: ms.mBlock.dpWalState.dpIdx,
			NumWals: len(ms.mBlock.dpWalState.allWALs), BlkEncSize: ms.mBlock.blkEncodedSize, SegEncSize: ms.mSegEncodedSize,
			DpCount: ms.datapointCount, PendNames: len(ms.mNameWalState.metricsNames), KeyBase: ms.metricsKeyBase,
		})
	}
	sort.Slice(out, func(i, j int) bool { return out[i].Mid < out[j].Mid })
	return out
}

// VerifC10RInit creates the metrics segments of org 0 the way the first datapoint of an org does
// (initOrgMetrics), with exactly nShards shards: the shard count is  available memory / MAX_BYTES_METRICS_BLOCK
// (capped by the configured parallelism), so MAX_BYTES_METRICS_BLOCK is lowered for the duration of this call.
func VerifC10RInit(nShards int) (int, error) {
	if nShards < 1 {
		return 0, fmt.Errorf("nShards")
	}
	mem := memory.GetAvailableMetricsIngestMemory()
	old := sutils.MAX_BYTES_METRICS_BLOCK
	if mem/uint64(nShards) > 0 {
		sutils.MAX_BYTES_METRICS_BLOCK = mem / uint64(nShards)
	}
	err := initOrgMetrics(0)
	sutils.MAX_BYTES_METRICS_BLOCK = old
	if err != nil {
		return 0, err
	}
	return len(GetAllMetricsSegments()), nil
}

// VerifC10RSegRotate: the size-triggered segment rotation of timeBasedRotate for ONE shard — the segment size
// limit is lowered to 0 for the duration of the call, so that CheckAndRotate(false) takes its rotation branch
// whenever the segment holds data.
func VerifC10RSegRotate(mid string) error {
	for _, ms := range GetAllMetricsSegments() {
		if ms.Mid != mid {
			continue
		}
		old := sutils.MAX_BYTES_METRICS_SEGMENT
		sutils.MAX_BYTES_METRICS_SEGMENT = 0
		ms.rwLock.Lock()
		err := ms.CheckAndRotate(false)
		ms.rwLock.Unlock()
		sutils.MAX_BYTES_METRICS_SEGMENT = old
		return err
	}
	return fmt.Errorf("no shard %q", mid)
}

type VerifC10RGroup struct {
	Key     string
	MId     string
	SegID   uint64
	BlockNo uint64
	Files   []string
}

// VerifC10RExtractWALFileInfo = extractWALFileInfo, groups sorted by key.
func VerifC10RExtractWALFileInfo(baseDir string) ([]VerifC10RGroup, error) {
	m, err := extractWALFileInfo(baseDir)
	if err != nil {
		return nil, err
	}
	var out []VerifC10RGroup
	for k, v := range m {
		out = append(out, VerifC10RGroup{Key: k, MId: v.mId, SegID: v.segID, BlockNo: v.blockNo, Files: append([]string{}, v.walFiles...)})
	}
	sort.Slice(out, func(i, j int) bool { return out[i].Key < out[j].Key })
	return out, nil
}

func VerifC10RWalBaseDir() string { return getWALBaseDir() }
