//go:build verif

package metrics

import jp "github.com/buger/jsonparser"

// Hook for the /verif correspondence harness (C08, suite tsidpre; build tag verif, injected with -overlay; not part
// of the repo).

// VerifTSIDPreimage runs the real TagsHolder.GetTSID for a metric name and string tags (inserted in the given order)
// and returns the TSID together with the bytes that were hashed (the holder's buffer after the call).
func VerifTSIDPreimage(mName []byte, keys []string, vals [][]byte) (uint64, []byte, error) {
	th := GetTagsHolder()
	for i := range keys {
		th.Insert(keys[i], vals[i], jp.String)
	}
	tsid, err := th.GetTSID(mName)
	if err != nil {
		return 0, nil, err
	}
	pre := make([]byte, th.buf.Len())
	copy(pre, th.buf.Bytes())
	return tsid, pre, nil
}
