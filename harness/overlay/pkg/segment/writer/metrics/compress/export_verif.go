//go:build verif

package compress

// VerifRawErr exposes the iterator's raw terminal error (Err() hides every error that wraps io.EOF).
func (di *DecompressIterator) VerifRawErr() error { return di.err }
