//go:build verif

package metrics

// Hooks for the /verif metrics end-to-end differential (suite e2e_metrics; build tag verif, injected with
// -overlay; not part of the repo).  They only run, on demand, the bodies of the repo's own timer loops.

// VerifRotateBlocks performs one iteration of timeBasedMetricsFlush (metricssegment.go): every metrics
// segment whose open block holds data rotates that block (TSO/TSG files written, block number advanced)
// while the segment itself stays open.  Returns the number of blocks rotated.
func VerifRotateBlocks() (int, error) {
	n := 0
	for _, ms := range GetAllMetricsSegments() {
		if ms.mBlock.blkEncodedSize > 0 {
			ms.rwLock.Lock()
			err := ms.mBlock.rotateBlock(ms.metricsKeyBase, ms.Suffix, ms.currBlockNum)
			if err != nil {
				ms.rwLock.Unlock()
				return n, err
			}
			ms.currBlockNum++
			n++
			ms.rwLock.Unlock()
		}
	}
	return n, nil
}

// VerifFlushTagsTrees performs one iteration of timeBasedTagsTreeFlush: every dirty tags tree is written
// to its file.
func VerifFlushTagsTrees() error {
	for _, tth := range GetAllTagsTreeHolders() {
		for tagKey, tt := range tth.allTrees {
			if tt.dirty {
				if err := tt.flushSingleTagsTree(tagKey, tth.tagstreeBase); err != nil {
					return err
				}
			}
		}
	}
	return nil
}
