//go:build verif

package writer

import (
	"fmt"

	. "github.com/siglens/siglens/pkg/segment/utils"
)

// Hooks for the /verif C01 kernel suite (build tag verif, injected with -overlay; not part of the repo).
// Only exported wrappers around the real, unexported encoder functions; no logic of their own beyond
// what the production callers (GetNewPLE/ParseRawJsonObject, AppendWipToSegfile) do around them.

// VerifVal is one typed value of column "c" of one event.
// Kind: 's' string, 'b' bool, 'i' int64, 'u' uint64, 'f' float64, 'z' explicit null, '-' column absent.
type VerifVal struct {
	Kind byte
	Str  []byte
	Bool bool
	I    int64
	U    uint64
	F    float64
}

const VerifColName = "c"

func verifPLE(ts uint64, v VerifVal, tsKey *string) *ParsedLogEvent {
	ple := NewPLE()
	ple.SetTimestamp(ts)
	switch v.Kind {
	case 's':
		parseSingleString(VerifColName, tsKey, v.Str, ple)
	case 'b':
		parseSingleBool(VerifColName, v.Bool, tsKey, ple)
	case 'z':
		parseSingleNull(VerifColName, tsKey, ple)
	case 'i':
		parseSingleNumber(VerifColName, v.I, tsKey, nil, ple)
	case 'f':
		parseSingleNumber(VerifColName, v.F, tsKey, nil, ple)
	case 'u':
		// parseSingleNumber has no uint64 arm (JSON numbers arrive as int64/float64); the encoder has one
		ple.MakeSpaceForNewColumn()
		parsedEncJsonNumber(VerifColName, SS_UINT64, FPARM_INT64, v.U, FPARM_FLOAT64, ple, 0)
		ple.allCnames[ple.numCols] = VerifColName
		ple.numCols++
	case '-':
	}
	return ple
}

// VerifFillColumn runs one event per value through the production filling path
// (parseSingle* → ParsedLogEvent → SegStore.AddEntry → doLogEventFilling) on a fresh SegStore, without flushing.
func VerifFillColumn(segKey string, vals []VerifVal, tss []uint64, tsKey string) (*SegStore, error) {
	ss := NewSegStore(0)
	ss.initWipBlock()
	ss.SegmentKey = segKey
	ples := make([]*ParsedLogEvent, 0, len(vals))
	for i, v := range vals {
		ples = append(ples, verifPLE(tss[i], v, &tsKey))
	}
	err := ss.AddEntry("verif-stream", "verif-index", false, SIGNAL_EVENTS, 0, 0, nil, nil, ples)
	return ss, err
}

// VerifColBytes returns a copy of the column's WIP bytes (cbuf[:cbufidx]); ok=false when the column does not exist.
func (ss *SegStore) VerifColBytes(cname string) ([]byte, bool) {
	cw, ok := ss.wipBlock.colWips[cname]
	if !ok {
		return nil, false
	}
	b := cw.cbuf.Slice(0, int(cw.cbufidx))
	return append([]byte{}, b...), true
}

func (ss *SegStore) VerifSeenSize(cname string) (uint32, bool) {
	v, ok := ss.AllSeenColumnSizes[cname]
	return v, ok
}

func (ss *SegStore) VerifDeCount(cname string) (uint16, int) {
	cw, ok := ss.wipBlock.colWips[cname]
	if !ok {
		return 0, 0
	}
	return cw.deData.deCount, len(cw.deData.deMap)
}

func (ss *SegStore) VerifRecCount() uint16 { return ss.wipBlock.blockSummary.RecCount }

func (ss *SegStore) VerifLowHigh() (uint64, uint64) {
	return ss.wipBlock.blockSummary.LowTs, ss.wipBlock.blockSummary.HighTs
}

// VerifWouldDictEncode is the block-encoding choice of AppendWipToSegfile for a non-timestamp column.
func (ss *SegStore) VerifWouldDictEncode(cname string) bool {
	cw, ok := ss.wipBlock.colWips[cname]
	return ok && cw.deData.deCount > 0 && cw.deData.deCount < wipCardLimit
}

// VerifWriteBlock writes the column's WIP as one block into file fname with the real writeWip
// (encoding byte + zstd / PackDictEnc / raw timestamp bytes, checksummed chunk). For the timestamp
// column the real encodeTimestamps runs first, as in AppendWipToSegfile.
func (ss *SegStore) VerifWriteBlock(cname string, fname string, encType []byte, isTs bool) (uint32, int64, error) {
	cw, ok := ss.wipBlock.colWips[cname]
	if !ok {
		return 0, 0, fmt.Errorf("no such column")
	}
	if isTs {
		var err error
		encType, err = ss.wipBlock.encodeTimestamps()
		if err != nil {
			return 0, 0, err
		}
	}
	cw.csgFname = fname
	compBuf := make([]byte, 0, 1024)
	return writeWip(cw, encType, compBuf, ss.wipBlock.blockSummary.RecCount)
}

// VerifWriteRawBlock writes arbitrary bytes as the WIP of a column through the real writeWip (columnar = zstd).
func VerifWriteRawBlock(fname string, raw []byte, encType []byte, recCount uint16) (uint32, int64, error) {
	cw := InitColWip("verif", VerifColName)
	cw.csgFname = fname
	cw.CopyWipForTestOnly(raw, uint32(len(raw)))
	compBuf := make([]byte, 0, 1024)
	return writeWip(cw, encType, compBuf, recCount)
}

func VerifCardLimit() uint16 { return wipCardLimit }

// VerifHasBloomAndRange: the column has both a bloom and a range index in the open block, i.e. it is one that
// consolidateColumnTypes will rewrite at flush.
func (ss *SegStore) VerifHasBloomAndRange(cname string) bool {
	_, b := ss.wipBlock.columnBlooms[cname]
	_, r := ss.wipBlock.columnRangeIndexes[cname]
	return b && r
}
