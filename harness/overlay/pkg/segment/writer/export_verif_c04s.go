//go:build verif

package writer

import (
	"github.com/siglens/siglens/pkg/segment/structs"
	. "github.com/siglens/siglens/pkg/segment/utils"
)

// Hooks for the /verif C04 statistics kernel suite "stats" (build tag verif, injected with -overlay;
// not part of the repo). Only exported wrappers around the real, unexported ingest-time statistics
// adders of packer.go and the .sst record encoder of segstore.go; no logic of their own.

// VerifC04AddNumIngest = addSegStatsNums as doLogEventFilling / encSingleNumber call it
// (SS_INT64 or SS_FLOAT64, valBytes = the 8 value bytes).
func VerifC04AddNumIngest(m map[string]*structs.SegStats, cname string, isFloat bool, i int64, f float64, valBytes []byte) {
	if isFloat {
		addSegStatsNums(m, cname, SS_FLOAT64, 0, 0, f, valBytes)
	} else {
		addSegStatsNums(m, cname, SS_INT64, i, 0, 0, valBytes)
	}
}

// VerifC04AddStrIngest = addSegStatsStrIngestion.
func VerifC04AddStrIngest(m map[string]*structs.SegStats, cname string, valBytes []byte) {
	addSegStatsStrIngestion(m, cname, valBytes)
}

// VerifC04WriteSst = writeSstToBuf (one column's record of the .sst file).
func VerifC04WriteSst(sst *structs.SegStats, buf []byte) (uint32, error) {
	return writeSstToBuf(sst, buf)
}
