//go:build verif

package writer

import (
	dtu "github.com/siglens/siglens/pkg/common/dtypeutils"
)

// Hook for the /verif correspondence harness (suite segsel).  Makes AllUnrotatedSegmentInfo hold exactly the given open
// segments (key, index, time range of the flushed blocks, org): the fields updateUnrotatedBlockInfo keeps per segment and
// FilterUnrotatedSegmentsInQuery reads.  No logic of its own.
func VerifSegSelSetUnrotated(keys, tables []string, lo, hi []uint64, orgs []int64) {
	UnrotatedInfoLock.Lock()
	defer UnrotatedInfoLock.Unlock()
	AllUnrotatedSegmentInfo = map[string]*UnrotatedSegmentInfo{}
	for i, k := range keys {
		AllUnrotatedSegmentInfo[k] = &UnrotatedSegmentInfo{
			TableName:   tables[i],
			tsRange:     &dtu.TimeRange{StartEpochMs: lo[i], EndEpochMs: hi[i]},
			orgid:       orgs[i],
			RecordCount: 1,
			allColumns:  map[string]bool{},
		}
	}
}
