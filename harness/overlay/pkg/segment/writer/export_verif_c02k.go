//go:build verif

package writer

import (
	"github.com/siglens/siglens/pkg/segment/structs"
)

// Hook for the /verif C02 kernel suite "cmpk" (build tag verif, injected with -overlay; not part of the repo).

// VerifRangeIndex returns a copy of the block range index the real filling path (doLogEventFilling →
// updateRangeIndex) has built so far for the WIP block: column name → min/max entry.
func (ss *SegStore) VerifRangeIndex(cname string) map[string]*structs.Numbers {
	out := map[string]*structs.Numbers{}
	ri, ok := ss.wipBlock.columnRangeIndexes[cname]
	if !ok || ri == nil {
		return out
	}
	for k, v := range ri.Ranges {
		c := *v
		out[k] = &c
	}
	return out
}
