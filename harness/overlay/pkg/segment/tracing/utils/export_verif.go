//go:build verif

package utils

import "math/rand"

// Hook for the /verif correspondence harness (build tag verif, injected with -overlay; not part of the repo).

// VerifQuickSelect calls the unexported quickSelect exactly as FindPercentileData does.
func VerifQuickSelect[T Number](arr []T, k int) T {
	return quickSelect(arr, k, &rand.Rand{})
}
