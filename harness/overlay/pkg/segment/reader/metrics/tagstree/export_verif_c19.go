//go:build verif

package tagstree

// VerifC19Probe asks the two functions that turn the tag key of a tag filter of a metrics QUERY into a file name
// (tagTreeFileExists: os.Stat, initTagsTreeReader: os.OpenFile + flock + ReadAt) about one key, on a reader of the
// tags tree directory baseDir.  The caller watches the file system.
func VerifC19Probe(baseDir, tagKey string) (exists bool, opened bool) {
	attr := &AllTagTreeReaders{baseDir: baseDir, tagTrees: make(map[string]*TagTreeReader)}
	exists = attr.tagTreeFileExists(tagKey)
	ttr, err := attr.initTagsTreeReader(tagKey)
	if err == nil && ttr != nil {
		opened = true
		_ = ttr.Close()
	}
	return exists, opened
}
