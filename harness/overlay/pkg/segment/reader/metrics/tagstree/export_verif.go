//go:build verif

package tagstree

// Hooks for the /verif correspondence harness (C08, suite tagstree; build tag verif, injected with -overlay; not part
// of the repo).  They only call the unexported readers of a rotated tags tree the way runTSIDSearch does.

import (
	sutils "github.com/siglens/siglens/pkg/segment/utils"
)

// VerifExact = AllTagTreeReaders.getOrInsertMatchingTSIDs (exact-match reader of the rotated tags tree file of tagKey).
func VerifExact(attr *AllTagTreeReaders, mName uint64, tagKey string, tagValueHash uint64, op sutils.TagOperator) (bool, bool, map[string]map[uint64]struct{}, error) {
	return attr.getOrInsertMatchingTSIDs(mName, tagKey, tagValueHash, op, nil)
}

type VerifIterItem struct {
	Hash  uint64
	Value []byte
	Type  byte
	Tsids []uint64
}

// VerifIterate = getValueIteratorForMetric + TagValueIterator.next until exhaustion.
func VerifIterate(attr *AllTagTreeReaders, mName uint64, tagKey string) ([]VerifIterItem, bool, error) {
	itr, found, err := attr.getValueIteratorForMetric(mName, tagKey)
	if err != nil || !found {
		return nil, found, err
	}
	var out []VerifIterItem
	for {
		h, v, tsids, ty, more := itr.next()
		if !more {
			break
		}
		it := VerifIterItem{Hash: h, Value: append([]byte(nil), v...), Tsids: append([]uint64(nil), tsids...)}
		if len(ty) > 0 {
			it.Type = ty[0]
		}
		out = append(out, it)
	}
	return out, true, nil
}
