//go:build verif

package segread

// Hook for the /verif C01 kernel suite (build tag verif, injected with -overlay; not part of the repo).

// VerifConvertRawRecordsToTimestamps exposes the timestamp block decoder (fresh output buffer).
func VerifConvertRawRecordsToTimestamps(rawRec []byte, numRecs uint16) ([]uint64, error) {
	return convertRawRecordsToTimestamps(rawRec, numRecs, nil)
}
