//go:build verif

package segreader

// Hook for the /verif C01 multi-block suite `tlvseg` (build tag verif, injected with -overlay; not part of the repo).

// VerifC01SegRawBlock returns a copy of the uncompressed block buffer of the block loaded last (columnar blocks:
// the column bytes as the writer handed them to the compressor).
func (sfr *SegmentFileReader) VerifC01SegRawBlock() []byte {
	return append([]byte{}, sfr.currRawBlockBuffer...)
}
