//go:build verif

package segreader

// Hooks for the /verif C01 kernel suite (build tag verif, injected with -overlay; not part of the repo).

// VerifClipRawBlock re-slices the uncompressed block buffer to cap == len. The production buffer comes from a
// pool and is longer than the block, so a record length that runs past the end of the block yields stale pool
// bytes instead of a panic; clipping makes that case deterministic (it becomes a slice-bounds panic).
func (sfr *SegmentFileReader) VerifClipRawBlock() {
	n := len(sfr.currRawBlockBuffer)
	sfr.currRawBlockBuffer = sfr.currRawBlockBuffer[:n:n]
}

// VerifSetEncType sets the block encoding type that loadBlockUsingBuffer takes from the first block byte.
func (sfr *SegmentFileReader) VerifSetEncType(t uint8) { sfr.encType = t }

func (sfr *SegmentFileReader) VerifEncType() uint8 { return sfr.encType }

func (sfr *SegmentFileReader) VerifRawBlockLen() int { return len(sfr.currRawBlockBuffer) }
