//go:build verif

package segread

import (
	"github.com/siglens/siglens/pkg/segment/reader/segread/segreader"
)

// Hook for the /verif C18 kernel suite "segreader": a MultiColSegmentReader over column readers that the harness
// opened itself (initNewMultiColumnReader looks the block metadata up in the global segment metadata, which a
// hand-built column file does not have).  Only assembles the struct; every method called on it is the repo's.
func VerifC18NewMultiColReader(names []string, readers []*segreader.SegmentFileReader, tr *TimeRangeReader) *MultiColSegmentReader {
	m := &MultiColSegmentReader{
		allFileReaders:         readers,
		allColsReverseIndex:    map[string]int{},
		allColInfoReverseIndex: map[string]*ColumnInfo{},
		timeStampKey:           "timestamp",
		timeReader:             tr,
		maxColIdx:              len(readers),
	}
	for i, n := range names {
		m.allColsReverseIndex[n] = i
		ci := &ColumnInfo{ColumnName: n}
		m.AllColums = append(m.AllColums, ci)
		m.allColInfoReverseIndex[n] = ci
	}
	return m
}

// VerifC18ReturnBuffers gives the buffers of all column readers and of the time reader back to the pools (what
// SharedMultiColReaders.Close does for each of its readers).
func (mcsr *MultiColSegmentReader) VerifC18ReturnBuffers() { mcsr.returnBuffers() }
