//go:build verif

package segread

import "github.com/siglens/siglens/pkg/segment/structs"

// Hook for the /verif C04 statistics kernel suite: the decoder of one column's .sst record.
func VerifC04ReadSingleSst(fdata []byte) (*structs.SegStats, error) {
	return readSingleSst(fdata, 0)
}
