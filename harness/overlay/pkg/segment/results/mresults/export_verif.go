//go:build verif

package mresults

import "github.com/siglens/siglens/pkg/segment/structs"

// Hooks for the /verif correspondence harness (build tag verif, injected with -overlay; not part of the repo).

// VerifGetAggSeriesId exposes getAggSeriesId (group key of a series id under an aggregation).
func VerifGetAggSeriesId(seriesId string, agg *structs.Aggregation) string {
	return getAggSeriesId(seriesId, agg)
}
