//go:build verif

package query

// Hooks for the /verif correspondence harness (build tag verif, injected with -overlay; not part of the repo).

// VerifResetTables empties the running and waiting tables (between harness cases).
func VerifResetTables() {
	arqMapLock.Lock()
	allRunningQueries = map[uint64]*RunningQueryState{}
	arqMapLock.Unlock()
	waitingQueriesLock.Lock()
	waitingQueries = []*WaitStateData{}
	waitingQueriesLock.Unlock()
}

// VerifPullOnce performs one iteration of the PullQueriesToRun loop body, without the sleeps.
func VerifPullOnce() {
	if canRunQuery() {
		wsData := getNextWaitStateData()
		if wsData == nil {
			return
		}
		initiateRunQuery(wsData, nil, nil)
	}
}

func VerifRunningObj(qid uint64) *RunningQueryState {
	arqMapLock.RLock()
	defer arqMapLock.RUnlock()
	return allRunningQueries[qid]
}

func (rQuery *RunningQueryState) VerifIsCancelled() bool {
	rQuery.rqsLock.Lock()
	defer rQuery.rqsLock.Unlock()
	return rQuery.isCancelled
}

func VerifWaitingLen() int { return getWaitingQueryCount() }

func VerifChanCap() int { return queryStateChanSize }

func VerifIsWaiting(qid uint64) bool {
	waitingQueriesLock.Lock()
	defer waitingQueriesLock.Unlock()
	for _, w := range waitingQueries {
		if w.qid == qid {
			return true
		}
	}
	return false
}
