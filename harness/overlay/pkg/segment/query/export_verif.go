//go:build verif

package query

// Hooks for the /verif correspondence harness (build tag verif, injected with -overlay; not part of the repo).

// VerifResetTables empties the running and waiting tables (between harness cases).
func VerifResetTables() {
	arqMapLock.Lock()
	allRunningQueries = map[uint64]*RunningQueryState{}
	arqMapLock.Unlock()
	waitingQueriesLock.Lock()
	waitingQueries = []*WaitStateData{}
	waitingQueriesLock.Unlock()
}

// VerifPullOnce performs one iteration of the PullQueriesToRun loop body, without the sleeps.
func VerifPullOnce() {
	if canRunQuery() {
		wsData := getNextWaitStateData()
		if wsData == nil {
			return
		}
		initiateRunQuery(wsData, nil, nil)
	}
}

func VerifRunningObj(qid uint64) *RunningQueryState {
	arqMapLock.RLock()
	defer arqMapLock.RUnlock()
	return allRunningQueries[qid]
}

func (rQuery *RunningQueryState) VerifIsCancelled() bool {
	rQuery.rqsLock.Lock()
	defer rQuery.rqsLock.Unlock()
	return rQuery.isCancelled
}

func VerifWaitingLen() int { return getWaitingQueryCount() }

func VerifChanCap() int { return queryStateChanSize }

func VerifIsWaiting(qid uint64) bool {
	waitingQueriesLock.Lock()
	defer waitingQueriesLock.Unlock()
	for _, w := range waitingQueries {
		if w.qid == qid {
			return true
		}
	}
	return false
}

// ---- C17 lifecycle suite (qlife)

// VerifWaitingObj returns the first queued object of qid, or nil.
func VerifWaitingObj(qid uint64) *RunningQueryState {
	waitingQueriesLock.Lock()
	defer waitingQueriesLock.Unlock()
	for _, w := range waitingQueries {
		if w.qid == qid {
			return w.rQuery
		}
	}
	return nil
}

// VerifWaitingHead returns the object at the head of the queue, or nil.
func VerifWaitingHead() *RunningQueryState {
	waitingQueriesLock.Lock()
	defer waitingQueriesLock.Unlock()
	if len(waitingQueries) == 0 {
		return nil
	}
	return waitingQueries[0].rQuery
}

// VerifWaitingQids lists the queue in order.
func VerifWaitingQids() []uint64 {
	waitingQueriesLock.Lock()
	defer waitingQueriesLock.Unlock()
	res := make([]uint64, 0, len(waitingQueries))
	for _, w := range waitingQueries {
		res = append(res, w.qid)
	}
	return res
}

// VerifRunningQids lists the keys of the running table (unordered).
func VerifRunningQids() []uint64 {
	arqMapLock.RLock()
	defer arqMapLock.RUnlock()
	res := make([]uint64, 0, len(allRunningQueries))
	for q := range allRunningQueries {
		res = append(res, q)
	}
	return res
}

// VerifTimeoutArmed reports whether the object's timeoutCancelFunc is set.
func (rQuery *RunningQueryState) VerifTimeoutArmed() bool {
	rQuery.rqsLock.Lock()
	defer rQuery.rqsLock.Unlock()
	return rQuery.timeoutCancelFunc != nil
}

// VerifCanRunQuery is the admission test of the PullQueriesToRun loop.
func VerifCanRunQuery() bool { return canRunQuery() }
