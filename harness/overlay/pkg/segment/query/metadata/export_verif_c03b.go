//go:build verif

package metadata

import (
	"github.com/siglens/siglens/pkg/segment/metadata"
	"github.com/siglens/siglens/pkg/segment/structs"
	sutils "github.com/siglens/siglens/pkg/segment/utils"
)

// Hook for the /verif C03 kernel slice "bloom": the rotated-segment micro-index check of RunCmiCheck.
func VerifC03bDoCmiChecks(smi *metadata.SegmentMicroIndex, timeFilteredBlocks map[uint16]map[string]bool,
	rangeFilter map[string]string, rangeOp sutils.FilterOperator, colsToCheck map[string]bool,
	currQuery *structs.SearchQuery, isRange bool, wildcardCol bool, wildCardValue bool,
	bloomKeys map[string]bool, originalBloomKeys map[string]string, bloomOp sutils.LogicalOperator) {
	doCmiChecks(smi, timeFilteredBlocks, 0, rangeFilter, rangeOp, colsToCheck, currQuery, isRange, wildcardCol,
		wildCardValue, bloomKeys, originalBloomKeys, bloomOp)
}
