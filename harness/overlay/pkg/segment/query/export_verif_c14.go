//go:build verif

package query

import (
	"math"

	"github.com/siglens/siglens/pkg/segment/writer"
	mmeta "github.com/siglens/siglens/pkg/segment/writer/metrics/meta"
)

// VerifFreezeMetaRefresh (C14 harness) makes the two background loops refreshLocalMetadataLoop /
// refreshMetricsMetadataLoop skip their work from now on, by recording "already refreshed at the end of
// time" for the two local meta files.  The loops re-read segmeta.json / metricmeta.json every 5 s and
// re-add what they read to the in-memory metadata; running concurrently with a retention pass they can
// re-add a segment the pass has just removed, which would make the harness's observation of the
// in-memory metadata depend on scheduling.
func VerifFreezeMetaRefresh() {
	updateLastModifiedTimeForMetaFile(writer.GetLocalSegmetaFName(), math.MaxUint64)
	updateLastModifiedTimeForMetaFile(mmeta.GetLocalMetricsMetaFName(), math.MaxUint64)
}
