//go:build verif

package query

import (
	"sync"

	"github.com/siglens/siglens/pkg/segment/structs"
)

// Hooks for the /verif correspondence harness (C05; build tag verif, injected with -overlay; not part of the repo).

// VerifC05RegisterQuery puts a bare running-query entry (with a Progress object) into the running table, so that
// the progress bookkeeping called by fetchRRCs / scrollProcessor (SetRawSearchFinished, IncProgressForRRCCmd,
// IncRecordsSent) finds its qid.
func VerifC05RegisterQuery(qid uint64) {
	arqMapLock.Lock()
	defer arqMapLock.Unlock()
	allRunningQueries[qid] = &RunningQueryState{
		qid:       qid,
		rqsLock:   &sync.RWMutex{},
		Progress:  &structs.Progress{},
		StateChan: make(chan *QueryStateChanData, 16),
	}
}

func VerifC05UnregisterQuery(qid uint64) {
	arqMapLock.Lock()
	defer arqMapLock.Unlock()
	delete(allRunningQueries, qid)
}

// VerifC05QueryInfo: a QueryInformation that only knows its qid and that it is a record (RRC) query.
func VerifC05QueryInfo(qid uint64) *QueryInformation {
	return &QueryInformation{qid: qid, qType: structs.RRCCmd}
}
