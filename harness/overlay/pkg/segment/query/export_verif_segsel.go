//go:build verif

package query

import (
	"time"

	dtu "github.com/siglens/siglens/pkg/common/dtypeutils"
	"github.com/siglens/siglens/pkg/segment/structs"
)

// Hooks for the /verif correspondence harness (suite segsel: segment selection by time).  No logic of its own: the
// query-segment requests a record query (getAllSegmentsInQuery) or a segment-statistics query (getAllSegmentsInAggs)
// collects for a time range over the given indexes, from whatever the in-memory rotated / unrotated metadata hold.

// VerifSegSelCollect returns, per collected request, its segment key and whether it is a request on the unrotated path.
func VerifSegSelCollect(indexes string, start, end uint64, orgid int64, aggsPath bool, qid uint64) (keys []string, unrotated []bool, err error) {
	tr := &dtu.TimeRange{StartEpochMs: start, EndEpochMs: end}
	ti := structs.InitTableInfo(indexes, orgid, false, nil)
	qi := &QueryInformation{queryRange: tr, indexInfo: ti, orgId: orgid, dqs: &DistributedQueryService{}, qid: qid, pqid: "verif-segsel"}
	var qsrs []*QuerySegmentRequest
	if aggsPath {
		qi.aggs = &structs.QueryAggregators{}
		qsrs, _, _, err = getAllSegmentsInAggs(qi, nil, qi.aggs, tr, ti.GetQueryTables(), qid, time.Now(), orgid)
	} else {
		qsrs, _, _, _, err = getAllSegmentsInQuery(qi, time.Now())
	}
	for _, q := range qsrs {
		keys = append(keys, q.segKey)
		unrotated = append(unrotated, q.sType == structs.UNROTATED_RAW_SEARCH || q.sType == structs.UNROTATED_PQS || q.sType == structs.UNROTATED_SEGMENT_STATS_SEARCH)
	}
	return
}
