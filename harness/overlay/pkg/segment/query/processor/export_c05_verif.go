//go:build verif

package processor

import (
	"fmt"
	"io"
	"runtime"
	"sync"
	"time"

	dtu "github.com/siglens/siglens/pkg/common/dtypeutils"
	"github.com/siglens/siglens/pkg/segment/query"
	"github.com/siglens/siglens/pkg/segment/query/iqr"
	"github.com/siglens/siglens/pkg/segment/query/summary"
	"github.com/siglens/siglens/pkg/segment/structs"
	sutils "github.com/siglens/siglens/pkg/segment/utils"
	"github.com/siglens/siglens/pkg/utils"
)

// Hooks for the /verif correspondence harness (C05; build tag verif, injected with -overlay; not part of the
// repo).  Together with the GENERATED file export_c05gen_verif.go (harness/cmd/overlaygen/c05.go: textual copies
// of Searcher.Fetch, Searcher.fetchRRCs and Searcher.initializeQSRs, in which ONLY the calls that touch segment files are redirected to the stubs below) this drives
// the real block scheduler on synthetic blocks:
//
//	real:    sortBlocks, getNextBlocks, getValidRRCs, getSortingFunc, sortRRCs, utils.MergeSortedSlices,
//	         utils.BatchProcess, getQSRSToProcess, shouldProcessQSR, willProcessQSRCompletely, getFilteredBlocks,
//	         shouldProcessBlock, initUnprocessedQSRs, the whole bookkeeping of fetchRRCs and of Fetch's refill
//	stubbed: getBlocks' metadata look-ups (which blocks a segment request has) and readSortedRRCs' file reads
//	         (which records of a block match)

const verifC05Qid = uint64(905005)

type VerifC05Block struct {
	Low, High uint64
	Ts        []uint64
}

type VerifC05Seg struct {
	Start, End uint64
	Blocks     []VerifC05Block
}

type VerifC05Rec struct {
	Id int
	Ts uint64
}

// synthetic world of the current VerifC05Sched call
var verifC05SegBlocks map[string][]*block
var verifC05BlockRecs map[string]map[uint16][]*sutils.RecordResultContainer
var verifC05PendingQSRs []*query.QuerySegmentRequest

// stands in for query.GetSortedQSRs inside the copy of initializeQSRs: the synthetic segment requests, in the
// order of the op line.
func verifC05GetSortedQSRs(qi *query.QueryInformation, startTime time.Time, qs *summary.QuerySummary) ([]*query.QuerySegmentRequest, error) {
	return verifC05PendingQSRs, nil
}

func verifC05Mode(mode int) (sortMode, error) {
	switch mode {
	case 1:
		return recentFirst, nil
	case 2:
		return recentLast, nil
	}
	return 0, fmt.Errorf("mode")
}

// stands in for Searcher.getBlocks: same skeleton (getQSRSToProcess → all blocks of those requests →
// getFilteredBlocks), the blocks come from the synthetic world instead of the segment metadata.
func (s *Searcher) verifC05GetBlocks() ([]*block, error) {
	allBlocksInBatch := make([]*block, 0)

	qsrs, err := s.getQSRSToProcess()
	if err != nil {
		return nil, err
	}

	for _, qsr := range qsrs {
		allBlocksInBatch = append(allBlocksInBatch, verifC05SegBlocks[qsr.GetSegKey()]...)
	}

	return s.getFilteredBlocks(allBlocksInBatch), nil
}

// stands in for Searcher.readSortedRRCs: the matching records of the blocks come from the synthetic world; the
// segment-key encoding and the final sortRRCs are done as there.
func (s *Searcher) verifC05ReadSortedRRCs(blocks []*block, segkey string) ([]*sutils.RecordResultContainer, map[uint32]string, error) {
	if len(blocks) == 0 {
		return nil, nil, nil
	}

	encoding, ok := s.segEncToKey.GetReverse(segkey)
	if !ok {
		encoding = s.getNextSegEncTokey()
		s.segEncToKey.Set(encoding, segkey)
	}

	rrcs := make([]*sutils.RecordResultContainer, 0)
	for _, b := range blocks {
		if b.parentQSR.GetSegKey() != segkey {
			return nil, nil, fmt.Errorf("verif: block of another segment in the batch")
		}
		for _, r := range verifC05BlockRecs[segkey][b.BlkNum] {
			c := *r
			c.SegKeyInfo.SegKeyEnc = encoding
			rrcs = append(rrcs, &c)
		}
	}

	err := sortRRCs(rrcs, s.sortMode)
	if err != nil {
		return nil, nil, err
	}

	return rrcs, map[uint32]string{encoding: segkey}, nil
}

// VerifC05Sched builds a Searcher over the synthetic segment requests and calls Fetch (generated copy) until
// io.EOF or maxFetches calls.  GOMAXPROCS is set to maxBlocks for the duration (fetchRRCs reads it).
func VerifC05Sched(mode int, maxBlocks int, segs []VerifC05Seg, maxFetches int) (batches [][]VerifC05Rec, eof bool, err error) {
	return VerifC05SchedArrival(mode, maxBlocks, segs, maxFetches, nil)
}

// VerifC05SchedArrival: as VerifC05Sched, but the segment requests reach initializeQSRs in the order given by
// arrival (a permutation of the indices of segs; nil = as listed).  Segment keys, block and record numbers stay
// those of the listed order, so two calls with different arrival orders describe the SAME data.
func VerifC05SchedArrival(mode int, maxBlocks int, segs []VerifC05Seg, maxFetches int, arrival []int) (batches [][]VerifC05Rec, eof bool, err error) {
	sm, err := verifC05Mode(mode)
	if err != nil {
		return nil, false, err
	}
	if maxBlocks < 1 {
		return nil, false, fmt.Errorf("maxBlocks")
	}
	old := runtime.GOMAXPROCS(maxBlocks)
	defer runtime.GOMAXPROCS(old)

	query.VerifC05RegisterQuery(verifC05Qid)
	defer query.VerifC05UnregisterQuery(verifC05Qid)

	verifC05SegBlocks = map[string][]*block{}
	verifC05BlockRecs = map[string]map[uint16][]*sutils.RecordResultContainer{}
	qsrs := make([]*query.QuerySegmentRequest, 0, len(segs))
	blockId, recId := 0, 0
	for i, sg := range segs {
		segkey := fmt.Sprintf("verifseg-%d", i)
		qsr := &query.QuerySegmentRequest{}
		qsr.SetSegKey(segkey)
		qsr.SetTimeRange(&dtu.TimeRange{StartEpochMs: sg.Start, EndEpochMs: sg.End})
		qsrs = append(qsrs, qsr)
		verifC05SegBlocks[segkey] = []*block{}
		verifC05BlockRecs[segkey] = map[uint16][]*sutils.RecordResultContainer{}
		for _, b := range sg.Blocks {
			if blockId > 65535 || recId+len(b.Ts) > 65535 {
				return nil, false, fmt.Errorf("too many blocks/records")
			}
			blk := &block{
				BlockSummary: &structs.BlockSummary{HighTs: b.High, LowTs: b.Low, RecCount: uint16(len(b.Ts))},
				parentQSR:    qsr,
				BlkNum:       uint16(blockId),
			}
			verifC05SegBlocks[segkey] = append(verifC05SegBlocks[segkey], blk)
			for _, ts := range b.Ts {
				verifC05BlockRecs[segkey][blk.BlkNum] = append(verifC05BlockRecs[segkey][blk.BlkNum],
					&sutils.RecordResultContainer{BlockNum: blk.BlkNum, RecordNum: uint16(recId), TimeStamp: ts})
				recId++
			}
			blockId++
		}
	}

	s := &Searcher{
		qid:                   verifC05Qid,
		queryInfo:             query.VerifC05QueryInfo(verifC05Qid),
		sortMode:              sm,
		getBlocksLock:         &sync.Mutex{},
		remainingBlocksSorted: make([]*block, 0),
		unsentRRCs:            make([]*sutils.RecordResultContainer, 0),
		segEncToKey:           utils.NewTwoWayMap[uint32, string](),
	}
	if arrival != nil {
		if len(arrival) != len(qsrs) {
			return nil, false, fmt.Errorf("arrival")
		}
		perm := make([]*query.QuerySegmentRequest, 0, len(qsrs))
		for _, i := range arrival {
			if i < 0 || i >= len(qsrs) {
				return nil, false, fmt.Errorf("arrival")
			}
			perm = append(perm, qsrs[i])
		}
		qsrs = perm
	}
	verifC05PendingQSRs = qsrs // handed to initializeQSRs (copy) on the first Fetch

	for i := 0; i < maxFetches; i++ {
		res, err := s.verifC05Fetch()
		if err == io.EOF {
			return batches, true, nil
		}
		if err != nil {
			return batches, false, err
		}
		batch := make([]VerifC05Rec, 0)
		for _, r := range res.GetRRCs() {
			batch = append(batch, VerifC05Rec{Id: int(r.RecordNum), Ts: r.TimeStamp})
		}
		batches = append(batches, batch)
	}
	return batches, false, nil
}

// VerifC05NextBlocks: real sortBlocks, then real getNextBlocks.
func VerifC05NextBlocks(mode int, maxBlocks int, lows, highs []uint64) (int, uint64, error) {
	sm, err := verifC05Mode(mode)
	if err != nil {
		return 0, 0, err
	}
	blocks := make([]*block, len(lows))
	for i := range lows {
		blocks[i] = &block{BlockSummary: &structs.BlockSummary{HighTs: highs[i], LowTs: lows[i]}, BlkNum: uint16(i)}
	}
	if err := sortBlocks(blocks, sm); err != nil {
		return 0, 0, err
	}
	next, endTime, err := getNextBlocks(blocks, maxBlocks, sm)
	return len(next), endTime, err
}

// VerifC05ValidRRCs: real sortRRCs, then real getValidRRCs.
func VerifC05ValidRRCs(mode int, last uint64, tss []uint64) (int, error) {
	sm, err := verifC05Mode(mode)
	if err != nil {
		return 0, err
	}
	rrcs := make([]*sutils.RecordResultContainer, len(tss))
	for i, ts := range tss {
		rrcs[i] = &sutils.RecordResultContainer{RecordNum: uint16(i), TimeStamp: ts}
	}
	if err := sortRRCs(rrcs, sm); err != nil {
		return 0, err
	}
	valid, err := getValidRRCs(rrcs, last, sm)
	return len(valid), err
}

// VerifC05CompareValues: 0 = EQUAL, -1 = LESS, 1 = GREATER (anything else: unknown result code)
func VerifC05CompareValues(a, b *sutils.CValueEnclosure, asc bool, op string) int {
	switch compareValues(a, b, asc, op) {
	case EQUAL:
		return 0
	case LESS:
		return -1
	case GREATER:
		return 1
	}
	return 99
}

type VerifC05Key struct {
	Asc bool
	Op  string
}

func verifC05SortExpr(keys []VerifC05Key, limit uint64) *structs.SortExpr {
	eles := make([]*structs.SortElement, len(keys))
	for i, k := range keys {
		eles[i] = &structs.SortElement{SortByAsc: k.Asc, Op: k.Op, Field: fmt.Sprintf("k%d", i)}
	}
	return &structs.SortExpr{SortEles: eles, Limit: limit}
}

// VerifC05Less: the real sortProcessor.less on two records given by their sort-key values.
func VerifC05Less(keys []VerifC05Key, a, b []sutils.CValueEnclosure) bool {
	p := &sortProcessor{options: verifC05SortExpr(keys, 1<<62)}
	sv := make([][]sutils.CValueEnclosure, len(keys))
	for i := range keys {
		sv[i] = []sutils.CValueEnclosure{a[i], b[i]}
	}
	return p.less(&iqr.Record{Index: 0, SortValues: sv}, &iqr.Record{Index: 1, SortValues: sv})
}

// VerifC05Sort feeds the batches (records = sort-key values; record ids are consecutive over the batches) to a real
// sortProcessor and returns the ids of the records of the final result, in order.
func VerifC05Sort(keys []VerifC05Key, limit uint64, batches [][][]sutils.CValueEnclosure) ([]int, error) {
	p := &sortProcessor{options: verifC05SortExpr(keys, limit)}
	next := uint64(0)
	for _, batch := range batches {
		in := iqr.NewIQR(verifC05Qid)
		cols := map[string][]sutils.CValueEnclosure{}
		ids := make([]sutils.CValueEnclosure, len(batch))
		for r := range batch {
			ids[r] = sutils.CValueEnclosure{Dtype: sutils.SS_DT_UNSIGNED_NUM, CVal: next}
			next++
		}
		cols["verifid"] = ids
		for k := range keys {
			col := make([]sutils.CValueEnclosure, len(batch))
			for r := range batch {
				col[r] = batch[r][k]
			}
			cols[fmt.Sprintf("k%d", k)] = col
		}
		if err := in.AppendKnownValues(cols); err != nil {
			return nil, err
		}
		if _, err := p.Process(in); err != nil {
			return nil, err
		}
	}
	res, err := p.Process(nil)
	if err != io.EOF {
		return nil, fmt.Errorf("verif: sortProcessor.Process(nil) returned err=%v", err)
	}
	if res == nil {
		return []int{}, nil
	}
	vals, err := res.ReadColumn("verifid")
	if err != nil {
		if res.NumberOfRecords() == 0 {
			return []int{}, nil
		}
		return nil, err
	}
	out := make([]int, len(vals))
	for i, v := range vals {
		u, ok := v.CVal.(uint64)
		if !ok || v.Dtype != sutils.SS_DT_UNSIGNED_NUM {
			out[i] = -1 // a row that is not one of the input records
			continue
		}
		out[i] = int(u)
	}
	return out, nil
}

func verifC05IdBatches(sizes []int) []*iqr.IQR {
	out := make([]*iqr.IQR, len(sizes))
	next := uint64(0)
	for i, n := range sizes {
		in := iqr.NewIQR(verifC05Qid)
		ids := make([]sutils.CValueEnclosure, n)
		for r := 0; r < n; r++ {
			ids[r] = sutils.CValueEnclosure{Dtype: sutils.SS_DT_UNSIGNED_NUM, CVal: next}
			next++
		}
		_ = in.AppendKnownValues(map[string][]sutils.CValueEnclosure{"verifid": ids})
		out[i] = in
	}
	return out
}

func verifC05ReadIds(res *iqr.IQR) ([]int, error) {
	if res == nil || res.NumberOfRecords() == 0 {
		return []int{}, nil
	}
	vals, err := res.ReadColumn("verifid")
	if err != nil {
		return nil, err
	}
	out := make([]int, len(vals))
	for i, v := range vals {
		u, ok := v.CVal.(uint64)
		if !ok {
			out[i] = -1
			continue
		}
		out[i] = int(u)
	}
	return out, nil
}

// VerifC05Scroll: records 0.. cut into batches of the given sizes, through a real scrollProcessor.
func VerifC05Scroll(from uint64, sizes []int) ([][]int, error) {
	query.VerifC05RegisterQuery(verifC05Qid)
	defer query.VerifC05UnregisterQuery(verifC05Qid)
	p := &scrollProcessor{scrollFrom: from, qid: verifC05Qid}
	out := make([][]int, 0, len(sizes))
	for _, in := range verifC05IdBatches(sizes) {
		res, err := p.Process(in)
		if err != nil {
			return nil, err
		}
		ids, err := verifC05ReadIds(res)
		if err != nil {
			return nil, err
		}
		out = append(out, ids)
	}
	return out, nil
}

// VerifC05Head: … through a real headProcessor without a condition; stops at io.EOF like DataProcessor does.
func VerifC05Head(limit uint64, sizes []int) ([][]int, error) {
	p := &headProcessor{options: &structs.HeadExpr{MaxRows: limit}}
	out := make([][]int, 0, len(sizes))
	for _, in := range verifC05IdBatches(sizes) {
		res, err := p.Process(in)
		if err != nil && err != io.EOF {
			return nil, err
		}
		ids, rerr := verifC05ReadIds(res)
		if rerr != nil {
			return nil, rerr
		}
		out = append(out, ids)
		if err == io.EOF {
			break
		}
	}
	return out, nil
}
