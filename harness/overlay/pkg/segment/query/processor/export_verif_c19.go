//go:build verif

package processor

import (
	"fmt"

	"github.com/siglens/siglens/pkg/segment/structs"
)

// Hooks for the /verif correspondence harness (C19; build tag verif, injected with -overlay; not part of the repo).

// VerifInputLookup runs the real `inputlookup` processor on one file name and returns the values of column
// `cname` of the records it read.
func VerifInputLookup(filename string, cname string) ([]string, error) {
	p := &inputlookupProcessor{options: &structs.InputLookup{Filename: filename, Max: 1000}}
	res, err := p.Process(nil)
	if err != nil {
		return nil, err
	}
	vals, err := res.ReadColumn(cname)
	if err != nil {
		return nil, err
	}
	out := make([]string, 0, len(vals))
	for _, v := range vals {
		out = append(out, fmt.Sprint(v.CVal))
	}
	return out, nil
}
