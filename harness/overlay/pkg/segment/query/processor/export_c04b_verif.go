//go:build verif

package processor

// Hooks for the /verif correspondence harness (C04, suite binalign; build tag verif, injected with -overlay; not part of the repo).

import (
	"time"

	"github.com/siglens/siglens/pkg/segment/structs"
	sutils "github.com/siglens/siglens/pkg/segment/utils"
)

// VerifC04BKernel: getTimeBucketWithAlign on a millisecond instant
func VerifC04BKernel(tsMs int64, scale time.Duration, num float64, align *uint64) int {
	return getTimeBucketWithAlign(time.UnixMilli(tsMs), scale, num, align)
}

// VerifC04BBinTime: performBinWithSpanTime (the time-scale switch in front of the kernel) of a bin processor with the given span
func VerifC04BBinTime(value float64, scale sutils.TimeUnit, num float64, align *uint64) (uint64, error) {
	p := &binProcessor{options: &structs.BinCmdOptions{BinSpanOptions: &structs.BinSpanOptions{
		BinSpanLength: &structs.BinSpanLength{Num: num, TimeScale: scale}}}}
	return p.performBinWithSpanTime(value, align)
}

// VerifC04BName: the debugging name of a DataProcessor ("bin", …)
func VerifC04BName(dp *DataProcessor) string { return dp.name }
