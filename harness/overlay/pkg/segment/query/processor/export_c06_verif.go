//go:build verif

package processor

import (
	"fmt"
	"sort"
	"strings"
)

// Hooks for the /verif correspondence harness (C06; build tag verif, injected with -overlay; not part of the repo).

// VerifC06State renders what the DataProcessor's processor remembers between batches, canonically:
//
//	head: sent=<numRecordsSent>            tail: fin=<records in finalIqr | ->,eof=<0|1>
//	scroll: rem=<scrollFrom>               dedup: keys=<len(combinationHashes)>,sum=<Σ counts>
//	fillnull without field list: known=<sorted columns>,second=<0|1>      everything else: -
func VerifC06State(dp *DataProcessor) string {
	b := func(x bool) int {
		if x {
			return 1
		}
		return 0
	}
	switch p := dp.processor.(type) {
	case *headProcessor:
		return fmt.Sprintf("sent=%d", p.numRecordsSent)
	case *tailProcessor:
		fin := "-"
		if p.finalIqr != nil {
			fin = fmt.Sprint(p.finalIqr.NumberOfRecords())
		}
		return fmt.Sprintf("fin=%s,eof=%d", fin, b(p.eof))
	case *scrollProcessor:
		return fmt.Sprintf("rem=%d", p.scrollFrom)
	case *dedupProcessor:
		sum := 0
		for _, c := range p.combinationHashes {
			sum += c
		}
		return fmt.Sprintf("keys=%d,sum=%d", len(p.combinationHashes), sum)
	case *fillnullProcessor:
		if len(p.options.FieldList) > 0 {
			return "-"
		}
		cols := make([]string, 0, len(p.knownColumns))
		for c := range p.knownColumns {
			cols = append(cols, c)
		}
		sort.Strings(cols)
		return fmt.Sprintf("known=%s,second=%d", strings.Join(cols, "+"), b(p.secondPass))
	}
	return "-"
}
