//go:build verif

package processor

// Hooks for the /verif correspondence harness (C06, suite pipeplan; build tag verif, injected with -overlay; not part of the repo).

// VerifC06PSetMergeSettings: NewQueryProcessor's chainFactory calls setMergeSettings on every chain it builds
func VerifC06PSetMergeSettings(chain []*DataProcessor) { _ = setMergeSettings(chain) }

// VerifC06PName: the debugging name of the DataProcessor ("sort", "merger", …)
func VerifC06PName(dp *DataProcessor) string { return dp.name }

// VerifC06PMergeLimit: the limit a DataProcessor applies when it merges several input streams
func VerifC06PMergeLimit(dp *DataProcessor) (uint64, bool) { return dp.mergeSettings.limit.Get() }

// VerifC06PNumStreams: number of input streams wired so far
func VerifC06PNumStreams(dp *DataProcessor) int { return len(dp.streams) }

// VerifC06PConnect wires the chains as ConnectEachDpChain does, with ONE difference: chain i reads from
// sources[i] instead of the shared searcher stream (so that the harness decides which rows each chain sees).
func VerifC06PConnect(dataProcessorChains [][]*DataProcessor, sources []Streamer) {
	for i, dataProcessors := range dataProcessorChains {
		if len(dataProcessors) == 0 {
			continue
		}

		if !dataProcessors[0].IsDataGenerator() {
			dataProcessors[0].streams = append(dataProcessors[0].streams, NewCachedStream(sources[i]))
		}

		for m := 1; m < len(dataProcessors); m++ {
			var stream Streamer = dataProcessors[m-1]
			if canParallelize := len(dataProcessorChains) > 1; canParallelize && m == len(dataProcessors)-1 {
				stream = NewSingleThreadedStream(stream)
			}

			dataProcessors[m].streams = append(dataProcessors[m].streams, NewCachedStream(stream))
		}
	}
}
