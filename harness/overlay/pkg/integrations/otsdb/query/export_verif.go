//go:build verif

package otsdbquery

import (
	"github.com/siglens/siglens/pkg/segment/structs"
	sutils "github.com/siglens/siglens/pkg/segment/utils"
)

// Hooks for the /verif correspondence harness (build tag verif, injected with -overlay; not part of the repo).

// VerifParseMetricTag is parseMetricTag: the metric name and the tag filters of an OpenTSDB `m=` expression.
func VerifParseMetricTag(m string) (string, uint64, []*structs.TagsFilter, error) {
	return parseMetricTag(m)
}

// VerifParseAggregatorDownsampler is parseAggregatorDownsampler: the aggregator and the downsampler of an `m=` expression.
func VerifParseAggregatorDownsampler(m string) (sutils.AggregateFunctions, structs.Downsampler, error) {
	return parseAggregatorDownsampler(m)
}

// VerifParseTime is parseTime: the `start` / `end` parameters.
func VerifParseTime(s string) (uint32, error) {
	return parseTime(s)
}
