//go:build verif

package writer

// Hook for the /verif correspondence harness (build tag verif, injected with -overlay; not part of the repo).

// VerifParseTimestamp exposes the remote-write timestamp normalisation (int64 → uint32 seconds).
func VerifParseTimestamp(t int64) uint32 { return parseTimestamp(t) }
