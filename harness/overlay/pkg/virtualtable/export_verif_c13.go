//go:build verif

package virtualtable

import (
	"os"
	"strconv"
)

// Hooks for the /verif correspondence harness (build tag verif, injected with -overlay; not part of the repo).

// VerifResetTables forgets every virtual table and alias of the given orgs (in memory and on disk) and
// makes sure the per-org alias directories exist. Used between harness cases.
func VerifResetTables(orgs []int64) {
	vTableRawFileAccessLock.Lock()
	globalTableAccessLock.Lock()
	allVirtualTables = make(map[int64]map[string]bool)
	aliasToIndexNames = make(map[int64]map[string]map[string]bool)
	for _, o := range orgs {
		_ = os.Remove(getVirtualTableFileName(o))
	}
	_ = os.RemoveAll(VTableAliasesDir)
	_ = os.MkdirAll(VTableAliasesDir, 0764)
	for _, o := range orgs {
		if o != 0 {
			_ = os.MkdirAll(VTableAliasesDir+strconv.FormatInt(o, 10)+"/", 0764)
		}
	}
	globalTableAccessLock.Unlock()
	vTableRawFileAccessLock.Unlock()
}
