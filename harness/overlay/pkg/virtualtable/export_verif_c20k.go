//go:build verif

package virtualtable

// Hooks for the /verif correspondence harness (C20 keyed stores; build tag verif, injected with -overlay;
// not part of the repo).

// VerifResetAliasMemory forgets the in-memory alias → index map, so that a following InitVTable behaves
// like the start of a NEW process on the same data directory.
func VerifResetAliasMemory() {
	aliasToIndexNames = make(map[int64]map[string]map[string]bool)
}
