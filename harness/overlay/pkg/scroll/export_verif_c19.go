//go:build verif

package scroll

// Hooks for the /verif correspondence harness (C19; build tag verif, injected with -overlay; not part of the repo).

// VerifScrollResultsFilename exposes the scroll result file name builder (base dir + id + ".csv").
func VerifScrollResultsFilename(scrollId string) string {
	return getScrollResultsFilename(getBaseScrollDir(), scrollId)
}
