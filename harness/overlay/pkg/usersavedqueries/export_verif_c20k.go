//go:build verif

package usersavedqueries

// Hooks for the /verif correspondence harness (C20 keyed stores; build tag verif, injected with -overlay;
// not part of the repo).

// VerifResetUsqMemory forgets everything the process holds in memory about saved queries, so that a
// following InitUsq behaves like the start of a NEW process on the same data directory (the package-level
// maps are only ever initialised by the variable declarations).
func VerifResetUsqMemory() {
	localUSQInfoLock.Lock()
	localUSQInfo = make(map[int64]map[string]map[string]interface{})
	localUSQInfoLock.Unlock()
	externalUSQInfoLock.Lock()
	externalUSQInfo = make(map[int64]map[string]map[string]interface{})
	externalUSQInfoLock.Unlock()
}
