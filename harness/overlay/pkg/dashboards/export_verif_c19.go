//go:build verif

package dashboards

// Hooks for the /verif correspondence harness (C19; build tag verif, injected with -overlay; not part of the repo).

// VerifDashboardDetailsPath exposes the path builder used by get / favorite / update of a dashboard.
func VerifDashboardDetailsPath(id string) string { return getDashboardDetailsPath(id) }
