//go:build verif

package dashboards

// Hooks for the /verif correspondence harness (C20 keyed stores; build tag verif, injected with -overlay;
// not part of the repo). Exported wrappers around the functions underneath the HTTP handlers, so that the
// harness sees the error each of them returns (the handlers fold most of them into one 400 answer).

const VerifRootFolderID = "root-folder"

func VerifCreateDashboard(name, description, parentID string, myid int64) (map[string]string, error) {
	return createDashboard(&CreateDashboardRequest{Name: name, Description: description, ParentID: parentID}, myid)
}

func VerifCreateFolder(name, parentID string, myid int64) (string, error) {
	return createFolder(&CreateFolderRequest{Name: name, ParentID: parentID}, myid)
}

func VerifUpdateDashboard(id, name string, details map[string]interface{}, myid int64) error {
	return updateDashboard(id, name, details, myid)
}

func VerifUpdateFolder(id, name, parentID string, myid int64) error {
	return updateFolder(id, &UpdateFolderRequest{Name: name, ParentID: parentID}, myid)
}

func VerifDeleteDashboard(id string, myid int64) error { return deleteDashboard(id, myid) }

func VerifDeleteFolder(id string, myid int64) error { return deleteFolder(id, myid) }

func VerifGetDashboard(id string, myid int64) (map[string]interface{}, error) {
	return getDashboard(id, myid)
}

func VerifGetFolderContents(id string, myid int64) (*FolderContentResponse, error) {
	return getFolderContents(id, false, myid)
}

func VerifListItems(myid int64) (*ListItemsResponse, error) {
	return listItems(&ListItemsRequest{FolderID: rootFolderID}, myid)
}

func VerifToggleFavorite(id string, myid int64) (bool, error) { return toggleFavorite(id, myid) }
