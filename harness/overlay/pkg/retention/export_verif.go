//go:build verif

package retention

import "github.com/siglens/siglens/pkg/segment/structs"

// Hooks for the /verif correspondence harness (build tag verif, injected with -overlay; not part of the repo).
// Only exported wrappers around unexported functions of this package; no logic of their own.

// VerifDoVolumeBasedDeletion runs the real volume-based pass.
func VerifDoVolumeBasedDeletion(ingestNodeDir string, allowedVolumeGB uint64, deletionWarningCounter int) {
	doVolumeBasedDeletion(ingestNodeDir, allowedVolumeGB, deletionWarningCounter)
}

// VerifGetSystemVolumeBytes exposes the volume the pass compares with the limit.
func VerifGetSystemVolumeBytes() (uint64, error) { return getSystemVolumeBytes() }

// VerifDeleteSegmentsFromEmptyPqMetaFiles is step 4 of DeleteSegmentData.
func VerifDeleteSegmentsFromEmptyPqMetaFiles(segmentsToDelete map[string]*structs.SegMeta) {
	deleteSegmentsFromEmptyPqMetaFiles(segmentsToDelete)
}

const VerifMaximumWarningsCount = MAXIMUM_WARNINGS_COUNT
