import SigModel.Model.Bits
import SigModel.Model.Gorilla
