/-
SPECIFICATION of how one logical log event (a JSON tree) becomes a stored field set (C16, content
clause), mirroring — quirks included —

  pkg/segment/writer/logpacker.go
      ParseRawJsonObject          members of an object: name = `currKey == "" ? key : currKey + "." + key`;
                                  object → recursion with that name; array → parseNonJaegerRawJsonArray;
                                  scalar → parseSingleString/Number/Bool/Null
      parseNonJaegerRawJsonArray  elements: name = `currKey == "" ? i : currKey + "." + i` (i = 0,1,2… in decimal),
                                  same dispatch
      parseSingle*                `if key == *tsKey { return }` — the FLATTENED name is compared with the
                                  timestamp key, so only a scalar whose whole name equals it (the root-level
                                  timestamp member) is consumed; every other leaf becomes one column
  pkg/segment/writer/segwriter.go doLogEventFilling: columns are filled in emission order; two leaves with the
                                  same flattened name write the same column twice and the record is read back
                                  with the LATER one (observed end to end; `lastWins`)
  the protocol handlers (what they hand to GetNewPLE):
      pkg/es/writer/esBulkHandler.go HandleBulkBody               the document line as sent
      pkg/es/writer/esDocIndexingHandler.go ProcessPutPostSingleDocRequest
                                  jsoniter decode with UseNumber into a map, `_id` := the id, marshal again
                                  (members sorted by key at every level, number tokens kept); afterwards
                                  SendIndexSuccess echoes `_type` / `_index` when they are strings (checked assertions
                                  since the repair; `esDocPanicsOld` is the class that used to panic)
      pkg/integrations/splunk/splunk.go getPLE                   the WHOLE envelope {time, host, source, sourcetype,
                                  index, event, fields} decoded by encoding/json into a map and marshalled again
                                  (sorted); as repaired with UseNumber: number tokens are kept (before: float64,
                                  re-rendered — `hecNumModeOld`)
      pkg/integrations/loki/loki.go processJsonLogs              map: stream labels, then `timestamp`, `line`, then the
                                  members of the optional third element of the value override; marshalled (sorted);
                                  decoded with UseNumber since the repair
      pkg/otlp/logs.go extractLogRecord / ingestLogs, pkg/otlp/utils.go extractAnyValue
                                  struct recordInfo {resource{attributes,dropped_attributes_count,schema_url},
                                  scope{name,version,attributes,dropped_attributes_count,schema_url}, time_unix_nano,
                                  observed_time_unix_nano, severity_number, severity_text, body, attributes,
                                  dropped_attributes_count, flags, trace_id, span_id}; kvlist → map (sorted), array →
                                  slice, int → int64, double → float64; the EMPTY value → nil (JSON null, i.e. no
                                  field) since the repair c12-10 — before it, it was refused like bytes were (the
                                  whole record was rejected: `answerOld`); bytes → base64 text (not generated)

What is abstracted: JSON text (tokenisation, escapes, UTF-8) — names and strings are byte lists, a number is its
token; encoding/json's float64 reading + re-rendering of a number token is an input (`jtok`, computed by the
harness with strconv); jsonparser.ParseInt / ParseFloat on a token are SigModel.TimeUnit.jpParseInt / jpParseFloat
(binary64 as exact dyadic rationals).  Core Lean only.
-/
import SigModel.Model.TimeUnit

namespace SigModel.Spec.Flatten
open SigModel.TimeUnit

abbrev Bytes := List Nat

/-- a scalar leaf of the tree -/
inductive Atom where
  | null
  | bool (b : Bool)
  | num (tok : List Char) (jtok : List Char)
  | str (s : Bytes)
deriving Repr, DecidableEq, Inhabited

mutual
  inductive Json where
    | leaf (v : Atom)
    | arr (xs : Elems)
    | obj (ms : Members)
  inductive Elems where
    | nil
    | cons (x : Json) (xs : Elems)
  inductive Members where
    | nil
    | cons (k : Bytes) (v : Json) (ms : Members)
end

instance : Inhabited Json := ⟨.leaf .null⟩

/-- the byte `.` -/
def dot : Nat := 46

/-- `currKey == "" ? key : currKey + "." + key` -/
def joinKey (cur k : Bytes) : Bytes := if cur = [] then k else cur ++ dot :: k

/-- decimal digits of `n` (fmt `%d`), most significant first; `fuel` bounds the loop -/
def decAux : Nat → Nat → Bytes → Bytes
  | 0, _, acc => acc
  | fuel + 1, n, acc =>
    if n / 10 = 0 then (48 + n % 10) :: acc else decAux fuel (n / 10) ((48 + n % 10) :: acc)

def decBytes (n : Nat) : Bytes := decAux (n + 1) n []

/-- parseSingle*: a scalar whose flattened name equals the timestamp key is consumed, any other becomes a column -/
def emit (ts key : Bytes) (v : Atom) : List (Bytes × Atom) :=
  if key = ts then [] else [(key, v)]

mutual
  /-- the value found under the flattened name `key` -/
  def flatVal (ts key : Bytes) : Json → List (Bytes × Atom)
    | .leaf v => emit ts key v
    | .arr xs => flatElems ts key 0 xs
    | .obj ms => flatMembers ts key ms
  /-- parseNonJaegerRawJsonArray from element number `i` on -/
  def flatElems (ts cur : Bytes) (i : Nat) : Elems → List (Bytes × Atom)
    | .nil => []
    | .cons x xs => flatVal ts (joinKey cur (decBytes i)) x ++ flatElems ts cur (i + 1) xs
  /-- ParseRawJsonObject -/
  def flatMembers (ts cur : Bytes) : Members → List (Bytes × Atom)
    | .nil => []
    | .cons k v ms => flatVal ts (joinKey cur k) v ++ flatMembers ts cur ms
end

/-- GetNewPLE on a document: the columns in emission order -/
def flatten (ts : Bytes) (doc : Members) : List (Bytes × Atom) := flatMembers ts [] doc

/-! ### the longest string value

A string value is written as VALTYPE_ENC_SMALL_STRING, `uint16(len)`, bytes (parseSingleString), and the readers
keep the END INDEX of such a record (3 + len) in a uint16 (GetCvalFromRec): 65532 bytes is the longest value that
can be stored and read back.  As repaired (patch c16-4, `maxStringValueLen`) ParseRawJsonObject /
parseNonJaegerRawJsonArray refuse a document with a longer string value (every string leaf is looked at, the one
under the timestamp key too), the handler tells the sender; before, a value of 65533..65535 bytes was lost or killed
the process at search time (ReadDictEnc, patch c16-5) and a longer one was stored with its length mod 65536
(`storedLenOld`). -/

def maxStringBytes : Nat := 65532

def Atom.tooLong : Atom → Bool
  | .str s => s.length > maxStringBytes
  | _ => false

mutual
  def longJson : Json → Bool
    | .leaf v => v.tooLong
    | .arr xs => longElems xs
    | .obj ms => longMembers ms
  def longElems : Elems → Bool
    | .nil => false
    | .cons x xs => longJson x || longElems xs
  /-- GetNewPLE refuses the document: some string leaf is longer than 65532 bytes -/
  def longMembers : Members → Bool
    | .nil => false
    | .cons _ v ms => longJson v || longMembers ms
end

/-- BEFORE the repair: the number of bytes that came back for a string value of `n` bytes -/
def storedLenOld (n : Nat) : Nat := n % 65536

/-- the record that is read back: of several columns with one name the LAST one emitted -/
def lookupLast (fs : List (Bytes × Atom)) (name : Bytes) : Option Atom :=
  (fs.reverse.find? (fun p => p.1 = name)).map (·.2)

/-- the keys of an object, in order -/
def membersKeys : Members → List Bytes
  | .nil => []
  | .cons k _ ms => k :: membersKeys ms

/-! ### the tree's own leaves and their paths (the statement's vocabulary, independent of the flattener) -/

mutual
  /-- every scalar leaf with its path: member keys and array positions (in decimal) from the value down -/
  def leaves : Json → List (List Bytes × Atom)
    | .leaf v => [([], v)]
    | .arr xs => leavesElems 0 xs
    | .obj ms => leavesMembers ms
  def leavesElems (i : Nat) : Elems → List (List Bytes × Atom)
    | .nil => []
    | .cons x xs => (leaves x).map (fun p => (decBytes i :: p.1, p.2)) ++ leavesElems (i + 1) xs
  def leavesMembers : Members → List (List Bytes × Atom)
    | .nil => []
    | .cons k v ms => (leaves v).map (fun p => (k :: p.1, p.2)) ++ leavesMembers ms
end

/-- the name the flattener gives to a path below the name `cur` -/
def joinPath (cur : Bytes) : List Bytes → Bytes
  | [] => cur
  | s :: r => joinPath (joinKey cur s) r

/-- the documented convention: the segments joined with "." -/
def dotted : List Bytes → Bytes
  | [] => []
  | s :: r => s ++ r.flatMap (fun t => dot :: t)

/-! ### guards of the theorems (decidable) -/

mutual
  /-- every object of the value has pairwise distinct keys and no key contains a dot -/
  def wellKeyed : Json → Bool
    | .leaf _ => true
    | .arr xs => wellKeyedElems xs
    | .obj ms => wellKeyedMembers ms
  def wellKeyedElems : Elems → Bool
    | .nil => true
    | .cons x xs => wellKeyed x && wellKeyedElems xs
  def wellKeyedMembers : Members → Bool
    | .nil => true
    | .cons k v ms => !k.contains dot && !(membersKeys ms).contains k && wellKeyed v && wellKeyedMembers ms
end

/-- no ROOT member has the empty key -/
def rootKeysNonEmpty (ms : Members) : Bool := !(membersKeys ms).contains []

/-! ### Members as lists, ordering -/

def Members.toList : Members → List (Bytes × Json)
  | .nil => []
  | .cons k v ms => (k, v) :: ms.toList

def Members.ofList : List (Bytes × Json) → Members
  | [] => .nil
  | (k, v) :: r => .cons k v (Members.ofList r)

def Members.keys (ms : Members) : List Bytes := ms.toList.map (·.1)

def Members.get? (ms : Members) (k : Bytes) : Option Json := (ms.toList.find? (fun p => p.1 = k)).map (·.2)

def Members.erase (ms : Members) (k : Bytes) : Members := Members.ofList (ms.toList.filter (fun p => p.1 ≠ k))

def Members.append (a b : Members) : Members := Members.ofList (a.toList ++ b.toList)

/-- Go string order: bytewise lexicographic, a proper prefix first -/
def bytesLt : Bytes → Bytes → Bool
  | [], [] => false
  | [], _ :: _ => true
  | _ :: _, [] => false
  | a :: as, b :: bs => if a < b then true else if b < a then false else bytesLt as bs

def insertMember (k : Bytes) (v : Json) : Members → Members
  | .nil => .cons k v .nil
  | .cons k' v' ms => if bytesLt k k' then .cons k v (.cons k' v' ms) else .cons k' v' (insertMember k v ms)

mutual
  /-- what `json.Marshal` of the decoded value prints: members of every object sorted by key -/
  def sortJson : Json → Json
    | .leaf v => .leaf v
    | .arr xs => .arr (sortElems xs)
    | .obj ms => .obj (sortMembers ms)
  def sortElems : Elems → Elems
    | .nil => .nil
    | .cons x xs => .cons (sortJson x) (sortElems xs)
  def sortMembers : Members → Members
    | .nil => .nil
    | .cons k v ms => insertMember k (sortJson v) (sortMembers ms)
end

mutual
  def hasNull : Json → Bool
    | .leaf v => v = .null
    | .arr xs => hasNullElems xs
    | .obj ms => hasNullMembers ms
  def hasNullElems : Elems → Bool
    | .nil => false
    | .cons x xs => hasNull x || hasNullElems xs
  def hasNullMembers : Members → Bool
    | .nil => false
    | .cons _ v ms => hasNull v || hasNullMembers ms
end

def bytesOf (s : String) : Bytes := s.toUTF8.toList.map (·.toNat)

def jstr (s : String) : Json := .leaf (.str (bytesOf s))
def jint (n : Nat) : Json := .leaf (.num (toString n).toList (toString n).toList)

/-! ### field names as byte lists (explicit, so that proofs can compute with them; checked against the text by `#guard`) -/

def N.timestamp : Bytes := [116, 105, 109, 101, 115, 116, 97, 109, 112]
def N.u_index : Bytes := [95, 105, 110, 100, 101, 120]
def N.u_type : Bytes := [95, 116, 121, 112, 101]
def N.u_id : Bytes := [95, 105, 100]
def N.time : Bytes := [116, 105, 109, 101]
def N.host : Bytes := [104, 111, 115, 116]
def N.source : Bytes := [115, 111, 117, 114, 99, 101]
def N.sourcetype : Bytes := [115, 111, 117, 114, 99, 101, 116, 121, 112, 101]
def N.index : Bytes := [105, 110, 100, 101, 120]
def N.event : Bytes := [101, 118, 101, 110, 116]
def N.fields : Bytes := [102, 105, 101, 108, 100, 115]
def N.line : Bytes := [108, 105, 110, 101]
def N.resource : Bytes := [114, 101, 115, 111, 117, 114, 99, 101]
def N.attributes : Bytes := [97, 116, 116, 114, 105, 98, 117, 116, 101, 115]
def N.dropped_attributes_count : Bytes := [100, 114, 111, 112, 112, 101, 100, 95, 97, 116, 116, 114, 105, 98, 117, 116, 101, 115, 95, 99, 111, 117, 110, 116]
def N.schema_url : Bytes := [115, 99, 104, 101, 109, 97, 95, 117, 114, 108]
def N.scope : Bytes := [115, 99, 111, 112, 101]
def N.name : Bytes := [110, 97, 109, 101]
def N.version : Bytes := [118, 101, 114, 115, 105, 111, 110]
def N.time_unix_nano : Bytes := [116, 105, 109, 101, 95, 117, 110, 105, 120, 95, 110, 97, 110, 111]
def N.observed_time_unix_nano : Bytes := [111, 98, 115, 101, 114, 118, 101, 100, 95, 116, 105, 109, 101, 95, 117, 110, 105, 120, 95, 110, 97, 110, 111]
def N.severity_number : Bytes := [115, 101, 118, 101, 114, 105, 116, 121, 95, 110, 117, 109, 98, 101, 114]
def N.severity_text : Bytes := [115, 101, 118, 101, 114, 105, 116, 121, 95, 116, 101, 120, 116]
def N.body : Bytes := [98, 111, 100, 121]
def N.flags : Bytes := [102, 108, 97, 103, 115]
def N.trace_id : Bytes := [116, 114, 97, 99, 101, 95, 105, 100]
def N.span_id : Bytes := [115, 112, 97, 110, 95, 105, 100]
def N.siglensIndexName : Bytes := [115, 105, 103, 108, 101, 110, 115, 73, 110, 100, 101, 120, 78, 97, 109, 101]

#guard N.timestamp == bytesOf "timestamp"
#guard N.u_index == bytesOf "_index"
#guard N.u_type == bytesOf "_type"
#guard N.u_id == bytesOf "_id"
#guard N.time == bytesOf "time"
#guard N.host == bytesOf "host"
#guard N.source == bytesOf "source"
#guard N.sourcetype == bytesOf "sourcetype"
#guard N.index == bytesOf "index"
#guard N.event == bytesOf "event"
#guard N.fields == bytesOf "fields"
#guard N.line == bytesOf "line"
#guard N.resource == bytesOf "resource"
#guard N.attributes == bytesOf "attributes"
#guard N.dropped_attributes_count == bytesOf "dropped_attributes_count"
#guard N.schema_url == bytesOf "schema_url"
#guard N.scope == bytesOf "scope"
#guard N.name == bytesOf "name"
#guard N.version == bytesOf "version"
#guard N.time_unix_nano == bytesOf "time_unix_nano"
#guard N.observed_time_unix_nano == bytesOf "observed_time_unix_nano"
#guard N.severity_number == bytesOf "severity_number"
#guard N.severity_text == bytesOf "severity_text"
#guard N.body == bytesOf "body"
#guard N.flags == bytesOf "flags"
#guard N.trace_id == bytesOf "trace_id"
#guard N.span_id == bytesOf "span_id"
#guard N.siglensIndexName == bytesOf "siglensIndexName"

/-! ### what each protocol hands to the flattener -/

/-- the configured timestamp key -/
def tsKey : Bytes := N.timestamp

/-- the root members whose value is a string (what stream labels / HEC `fields` can carry), and the others -/
def stringMembers (ms : Members) : Members :=
  Members.ofList (ms.toList.filter (fun p => match p.2 with | .leaf (.str _) => true | _ => false))
def otherMembers (ms : Members) : Members :=
  Members.ofList (ms.toList.filter (fun p => match p.2 with | .leaf (.str _) => false | _ => true))

structure Consts where
  host : String := "c16c-host"
  source : String := "c16c-src"
  sourcetype : String := "c16c-st"
  hecIndex : String := "c16c-hec"
  hecTime : String := "1700000000.123"
  otlpIndex : String := "c16c-otlp"
  scopeName : String := "c16c-scope"
  scopeVersion : String := "1.2"
  timeNs : Nat := 1700000000123000000
  traceId : String := "0102030405060708090a0b0c0d0e0f10"
  spanId : String := "a1a2a3a4a5a6a7a8"

/-- how a number token reaches the flattener -/
inductive NumMode where
  | direct     -- the token as sent (ES bulk; ES doc API, and since the repair HEC and Loki: UseNumber, json.Number marshals as its literal)
  | viaF64     -- decoded into float64 and rendered again: `jtok` (OTLP doubles; HEC and Loki BEFORE the repair)
  | otlp       -- int64 when the token is an integer inside int64, else double (then as viaF64)
deriving DecidableEq, Repr

/-- ES bulk: the document itself -/
def envEs (t : Members) : Members := t

/-- ES single-document API: `_id` is replaced by the handler, the map is marshalled sorted -/
def envEsDoc (t : Members) : Members :=
  sortMembers (.cons (N.u_id) (jstr "id") (t.erase (N.u_id)))

/-- BEFORE the repair: after ingesting, SendIndexSuccess did `request["_type"].(string)` and
`request["_index"].(string)` — a panic in the request handler for any other JSON type.  As repaired the assertions are
checked (a non-string member is left out of the response), the handler answers for every document. -/
def esDocPanicsOld (t : Members) : Bool :=
  let nonString (k : Bytes) : Bool := match t.get? k with
    | none => false
    | some (.leaf (.str _)) => false
    | some _ => true
  nonString N.u_type || nonString N.u_index

/-- Splunk HEC: the whole envelope -/
def envHec (c : Consts) (t : Members) : Members :=
  sortMembers (Members.ofList [
    (N.time, .leaf (.num c.hecTime.toList c.hecTime.toList)),
    (N.host, jstr c.host), (N.source, jstr c.source), (N.sourcetype, jstr c.sourcetype),
    (N.index, jstr c.hecIndex), (N.event, .obj t), (N.fields, .obj (stringMembers t))])

/-- Go map assignment `m[k] = v` on an association list -/
def setMember (ms : Members) (k : Bytes) (v : Json) : Members := Members.append (ms.erase k) (.cons k v .nil)

/-- Loki JSON push: labels, then `timestamp` and `line`, then the structured metadata override -/
def envLoki (c : Consts) (msg : Bytes) (t : Members) : Members :=
  let m0 := stringMembers t
  let m1 := setMember m0 (N.timestamp) (jstr (toString c.timeNs))
  let m2 := setMember m1 (N.line) (.leaf (.str msg))
  let m3 := (otherMembers t).toList.foldl (fun m p => setMember m p.1 p.2) m2
  sortMembers m3

/-- OTLP logs: the recordInfo struct in field order; maps sorted -/
def envOtlp (c : Consts) (bodyTree ids : Bool) (msg : Bytes) (t : Members) : Members :=
  let attrs : Json := sortJson (.obj t)
  let rattrs : Json := sortJson (.obj (.cons (N.siglensIndexName) (jstr c.otlpIndex) t))
  Members.ofList [
    (N.resource, .obj (Members.ofList [(N.attributes, rattrs), (N.dropped_attributes_count, jint 0), (N.schema_url, jstr "")])),
    (N.scope, .obj (Members.ofList [(N.name, jstr c.scopeName), (N.version, jstr c.scopeVersion), (N.attributes, attrs),
        (N.dropped_attributes_count, jint 0), (N.schema_url, jstr "")])),
    (N.time_unix_nano, jint c.timeNs), (N.observed_time_unix_nano, jint 0),
    (N.severity_number, jint 9), (N.severity_text, jstr "INFO"),
    (N.body, if bodyTree then attrs else .leaf (.str msg)),
    (N.attributes, attrs), (N.dropped_attributes_count, jint 0), (N.flags, jint 0),
    (N.trace_id, jstr (if ids then c.traceId else "")), (N.span_id, jstr (if ids then c.spanId else ""))]

/-! ### canonical printing of the stored record -/

def hexDigitChar (n : Nat) : Char := if n < 10 then Char.ofNat (48 + n) else Char.ofNat (87 + n)
def hexOf (bs : Bytes) : String := String.ofList (bs.flatMap (fun b => [hexDigitChar (b / 16 % 16), hexDigitChar (b % 16)]))

/-- number of trailing zero bits of a positive number, at most `k` -/
def trailingZeros : Nat → Nat → Nat
  | 0, _ => 0
  | k + 1, q => if q % 2 = 0 && q ≠ 0 then 1 + trailingZeros k (q / 2) else 0

/-- exact value of a binary64 as `n<int>` or `n<num>/<den>` in lowest terms -/
def showF64 (f : F64) : String :=
  if f.q = 0 then "n0"
  else
    let sign := if f.neg then "-" else ""
    if f.x ≥ 0 then s!"n{sign}{f.q * 2 ^ f.x.toNat}"
    else
      let e := (-f.x).toNat
      let g := trailingZeros e f.q
      let num := f.q / 2 ^ g
      let d := e - g
      if d = 0 then s!"n{sign}{num}" else s!"n{sign}{num}/{2 ^ d}"

/-- what a stored number column holds -/
inductive NumVal where
  | int (i : Int)      -- VALTYPE_ENC_INT64
  | flt (f : F64)      -- VALTYPE_ENC_FLOAT64
deriving DecidableEq, Repr

/-- parseSingleNumber's reading of a token: int64 when jsonparser.ParseInt accepts it, else float64 (also for an
integer OUTSIDE int64 — known finding content/es-int-beyond-int64-altered); `none`: neither parser accepts it (the
document is refused) -/
def readTok (t : List Char) : Option NumVal :=
  match jpParseInt t with
  | some i => some (.int i)
  | none => (jpParseFloat t).map .flt

/-- the column value of a number leaf that reaches the flattener in mode `m` -/
def storedNum (m : NumMode) (tok jtok : List Char) : Option NumVal :=
  match m with
  | .direct => readTok tok
  | .viaF64 => readTok jtok
  | .otlp => match jpParseInt tok with
    | some i => some (.int i)
    | none => readTok jtok

def showNumVal : Option NumVal → String
  | some (.int i) => s!"n{i}"
  | some (.flt f) => showF64 f
  | none => "?"

def showTok (t : List Char) : String := showNumVal (readTok t)

def showNum (m : NumMode) (tok jtok : List Char) : String := showNumVal (storedNum m tok jtok)

/-- canonical value; `none` = not printed (null = absent; the empty string is returned as absent: known C01 class) -/
def showScalar (m : NumMode) : Atom → Option String
  | .null => none
  | .bool b => some (if b then "b1" else "b0")
  | .num t j => some (showNum m t j)
  | .str s => if s = [] then none else some ("s" ++ hexOf s)

/-- result columns that are not event fields -/
def reserved : List Bytes := [N.timestamp, N.u_index, N.u_type, N.u_id]

def insertSorted (p : Bytes × String) : List (Bytes × String) → List (Bytes × String)
  | [] => [p]
  | q :: r => if bytesLt p.1 q.1 then p :: q :: r else q :: insertSorted p r

/-- distinct names in order of first emission -/
def distinctNames : List Bytes → List Bytes → List Bytes
  | [], acc => acc.reverse
  | n :: r, acc => if acc.contains n then distinctNames r acc else distinctNames r (n :: acc)

/-- the stored record, canonically: reserved result columns and the field with the empty name are not printed; a name
emitted more than once is printed as `*` (which of the columns is read back is not modelled — `lookupLast` is what a
block of one record with columns of one type shows, mixed types show the first) -/
def canonical (m : NumMode) (fs : List (Bytes × Atom)) : String :=
  let names := (distinctNames (fs.map (·.1)) []).filter (fun n => !reserved.contains n && n ≠ [])
  let ents : List (Bytes × String) := names.filterMap (fun n =>
    if (fs.filter (fun p => p.1 = n)).length > 1 then some (n, "*") else
    match lookupLast fs n with
    | some v => (showScalar m v).map (fun s => (n, s))
    | none => none)
  let sorted := ents.foldl (fun acc p => insertSorted p acc) []
  if sorted.isEmpty then "-" else String.intercalate "," (sorted.map (fun p => hexOf p.1 ++ ":" ++ p.2))

structure Case where
  bodyTree : Bool
  ids : Bool
  msg : Bytes
  tree : Members

/-- how numbers reach the flattener through Splunk HEC and Loki JSON push: as repaired the handlers decode with
UseNumber, the literal token survives the re-marshalling -/
def hecNumMode : NumMode := .direct
/-- before the repair: float64 and back -/
def hecNumModeOld : NumMode := .viaF64

/-- what a protocol answers for the document it hands to GetNewPLE: refused, or the stored record -/
def stored (m : NumMode) (doc : Members) : String :=
  if longMembers doc then "rejected" else canonical m (flatten tsKey doc)

/-- a string leaf of 60000 bytes or more: the ES bulk line reaches the handler's record size limit (63000 bytes of JSON
text; the text is not modelled), `es=` is printed as `*` by both sides -/
def esMaskBytes : Nat := 60000

def Atom.huge : Atom → Bool
  | .str s => s.length ≥ esMaskBytes
  | _ => false

mutual
  def hugeJson : Json → Bool
    | .leaf v => v.huge
    | .arr xs => hugeElems xs
    | .obj ms => hugeMembers ms
  def hugeElems : Elems → Bool
    | .nil => false
    | .cons x xs => hugeJson x || hugeElems xs
  def hugeMembers : Members → Bool
    | .nil => false
    | .cons _ v ms => hugeJson v || hugeMembers ms
end

def answer (c : Consts) (k : Case) : String :=
  let es := if hugeMembers k.tree then "*" else stored .direct (envEs k.tree)
  let doc := stored .direct (envEsDoc k.tree)
  let hec := stored hecNumMode (envHec c k.tree)
  let loki := stored hecNumMode (envLoki c k.msg k.tree)
  let otlp := stored .otlp (envOtlp c k.bodyTree k.ids k.msg k.tree)
  s!"es={es} | esdoc={doc} | hec={hec} | loki={loki} | otlp={otlp}"

/-- BEFORE the repair c12-10 of `extractAnyValue` an event with a null anywhere (sent as the EMPTY AnyValue) was
refused by the OTLP handler -/
def otlpRejectedOld (k : Case) : Bool := hasNullMembers k.tree

end SigModel.Spec.Flatten
