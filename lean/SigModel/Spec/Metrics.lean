/-
SPECIFICATION of metric storage and metric queries (what C08 and the selector/aggregation part of C09
mean), used by the end-to-end differential `e2e_metrics`: the Oracle evaluates this spec on the same
series, ingest history and queries that the real engine runs.  "Simplest possible spec": the data set
is a list of series (name, label set, points); a query is evaluated directly over it — no TSIDs, no
blocks, no segments, no tags trees, no Gorilla encoding.  Core Lean only.

  * C08: a selector returns, for every series it selects, every ingested point of the query range with
    the SAME timestamp and the SAME 64 value bits, under the SAME label set; distinct (name, label set)
    pairs are distinct series.  The ingest history (order, block/segment rotations) does not occur in
    the spec at all: the answer must not depend on it.
  * C09: PromQL matcher semantics (`=`, `!=`, `=~`, `!~`, fully anchored, an absent label reads as the
    empty string, `__name__` is the metric name); `fn by (…)` / `fn without (…)` / `fn (…)` for
    sum/min/max/avg/count evaluate, per output group and per timestamp at which a member series has a
    point, the aggregate of the members' values (exact rationals).

Empty label values and a tag named `__name__` (identity corner cases):
  * C08 (identity): a tag ingested with the EMPTY STRING as value is part of the series' label set as ingested.
    The unchanged engine stores `m{host="a",zone=""}` and `m{host="a"}` as two series and reports `zone=""`
    for the first one, so the spec keeps them apart as well: `labels` are compared literally, empty values
    included (merging them — PromQL would allow it — is NOT what the engine does, hence not granted).
  * C09 matching: PromQL does not distinguish an empty label value from an absent label: `Series.label`
    returns "" for both.  C09 grouping: the unchanged engine keeps an empty value as a value of its own
    (`by (zone)` puts m{zone=""} into the group {zone=""}, not into {}), consistently with its identity
    rule above; the statements leave this corner open and the spec states the engine's choice (`groupKey`
    keeps empty-valued labels) so that any change of it is noticed.
  * a tag literally named `__name__` is accepted by the ingest path and is just one more label of the
    series' identity; matchers on `__name__` always address the metric name.

Which datapoints are ACCEPTED (the statements speak about accepted datapoints only; `accepted`):
  * a datapoint without any tag is rejected at ingest (a series is found through the tags trees of its tag keys
    only; before the repair it was accepted and never returned — class `no-tags`);
  * a datapoint with a tag value longer than 65535 bytes is rejected at ingest (the tags tree file frames a value
    with a 16-bit length; before the repair it was accepted and lost with the rotation — class `tag-value-over-64k`).
  The differential checks both directions: a datapoint of an accepted series must not be rejected, a datapoint of a
  series that cannot be served must not be accepted.

Protocols: a datapoint may arrive as OpenTSDB JSON (tag values JSON strings, or JSON numbers = their text) or through
Prometheus remote write (label values raw strings: a backslash is a backslash).  The series identity is the metric
name and the label set of VALUES — the protocol, the JSON spelling of a value and the number of series that share a
value (more than 65535: the tags tree file stores the TSID count of a value in 16 bits, command `mc` of the Oracle) do
not occur in the spec.

Engine conventions the spec has to know in order to state the guard under which "same timestamp" is
meaningful: the engine reports every point at the start of its downsample bucket, bucket width =
`calcInterval (end - start)` (pkg/segment/results/mresults/metricresults.go `steps`/`CalculateInterval`,
seriesresult.go `AddEntry`).  A query is `aligned` when every selected point sits on a bucket start; only
then are timestamps and value bits compared (otherwise the engine legitimately merges/shifts points —
declared latitude `unaligned`).
-/
namespace SigModel.Spec.Metrics

structure Series where
  name : String
  labels : List (String × String)     -- distinct keys
  points : List (Nat × Nat)           -- (timestamp seconds, float64 bit pattern), the INGESTED points
  /-- keys whose value was sent as a bare JSON NUMBER (`"k":5`) by some OTSDB datapoint: the label value is the number's
      text as sent (tag values are strings in every query language; `"k":5` and `"k":"5"` are the same tag) -/
  numKeys : List String := []
  /-- some point of the series arrived through Prometheus remote write (label values are raw strings there) -/
  viaRW : Bool := false
deriving Repr, Inhabited

inductive MOp where | eq | ne | re | nre
deriving Repr, BEq, DecidableEq

structure Matcher where
  label : String
  op : MOp
  value : String
deriving Repr

inductive AggFn where | sum | min | max | avg | count
deriving Repr, BEq, DecidableEq

inductive AggMode where | none | by | without
deriving Repr, BEq, DecidableEq

structure Agg where
  fn : AggFn
  mode : AggMode
  labels : List String
deriving Repr

structure Query where
  start : Nat
  end_ : Nat
  matchers : List Matcher
  agg : Option Agg
deriving Repr

/-! ### generic helpers -/

def insertBy {α} (le : α → α → Bool) (x : α) : List α → List α
  | [] => [x]
  | y :: ys => if le x y then x :: y :: ys else y :: insertBy le x ys
def sortBy {α} (le : α → α → Bool) (xs : List α) : List α := xs.foldr (insertBy le) []

def sortLabels (l : List (String × String)) : List (String × String) :=
  sortBy (fun a b => a.1 < b.1 || (a.1 == b.1 && a.2 ≤ b.2)) l

def sameLabels (a b : List (String × String)) : Bool := sortLabels a == sortLabels b

/-! ### the regular-expression fragment of the generator: literals, `.*`, top-level alternation -/

inductive RItem where
  | lit (c : Char)
  | any                       -- `.*`
deriving Repr

/-- `none` = outside the fragment -/
def parseAlt : List Char → Option (List RItem)
  | [] => some []
  | '.' :: '*' :: r => (parseAlt r).map (RItem.any :: ·)
  | c :: r => if c.isAlphanum || c == '_' || c == '-' then (parseAlt r).map (RItem.lit c :: ·) else none

def matchItems : List RItem → List Char → Bool
  | [], s => s.isEmpty
  | .lit c :: r, x :: s => c == x && matchItems r s
  | .lit _ :: _, [] => false
  | .any :: r, [] => matchItems r []
  | .any :: r, x :: s => matchItems r (x :: s) || matchItems (.any :: r) s
termination_by p s => (p.length, s.length)

/-- fully anchored match of `s` against `alt1|alt2|…` ; `none` = pattern outside the fragment -/
def regexMatch? (pat s : String) : Option Bool :=
  ((pat.splitOn "|").mapM (fun a => parseAlt a.toList)).map (fun alts => alts.any (fun a => matchItems a s.toList))

def regexInFragment (pat : String) : Bool := (regexMatch? pat "").isSome

/-! ### selectors -/

def Series.keys (s : Series) : List String := s.labels.map (·.1)

/-- PromQL: `__name__` is the metric name, an absent label reads as "" -/
def Series.label (s : Series) (k : String) : String :=
  if k == "__name__" then s.name else ((s.labels.find? (·.1 == k)).map (·.2)).getD ""

def Matcher.ok (m : Matcher) (s : Series) : Bool :=
  let v := s.label m.label
  match m.op with
  | .eq => v == m.value
  | .ne => v != m.value
  | .re => (regexMatch? m.value v).getD false
  | .nre => !((regexMatch? m.value v).getD true)

def selects (ms : List Matcher) (s : Series) : Bool := ms.all (·.ok s)

def inRange (q : Query) (p : Nat × Nat) : Bool := q.start ≤ p.1 && p.1 ≤ q.end_

/-- the longest tag value the tags tree file can frame (16-bit length field) -/
def maxTagValueBytes : Nat := 65535

/-- ingest accepts the datapoints of a series iff it has at least one tag and no tag value above 65535 bytes -/
def accepted (s : Series) : Bool :=
  !s.labels.isEmpty && s.labels.all (fun kv => kv.2.utf8ByteSize ≤ maxTagValueBytes)

/-- the selected series that have at least one point in the range, each with its in-range points by time
    (series whose datapoints the ingest path rejects hold nothing) -/
def selected (ds : List Series) (q : Query) : List (Series × List (Nat × Nat)) :=
  ((ds.filter accepted).filter (selects q.matchers)).filterMap (fun s =>
    let ps := sortBy (fun a b => a.1 ≤ b.1) (s.points.filter (inRange q))
    if ps.isEmpty then none else some (s, ps))

/-! ### the engine's bucket convention (guard only) -/

def steps : List Nat := [1, 5, 10, 20, 60, 120, 300, 600, 1200, 3600, 7200, 14400, 28800, 57600, 115200, 230400, 460800, 921600]

def calcInterval (width : Nat) : Option Nat :=
  if width > 315360000 then none else steps.find? (fun st => width / st ≤ 360)

def hasDup : List Nat → Bool
  | [] => false
  | x :: r => r.contains x || hasDup r

/-- every selected point sits on the start of its own bucket -/
def aligned (iv : Nat) (sel : List (Series × List (Nat × Nat))) : Bool :=
  iv > 0 && sel.all (fun (_, ps) => ps.all (fun p => p.1 % iv == 0) && !hasDup (ps.map (·.1)))

/-! ### float64 bit pattern → exact rational (finite values) -/

def pow2 (n : Nat) : Nat := 2 ^ n

def bitsToRat? (b : Nat) : Option Rat :=
  let sign := b / pow2 63 % 2
  let e := b / pow2 52 % 2048
  let m := b % pow2 52
  if e == 2047 then none else
  let mag : Rat :=
    if e == 0 then (m : Rat) / (pow2 1074 : Nat)
    else if e ≥ 1075 then (((pow2 52 + m) * pow2 (e - 1075) : Nat) : Rat)
    else ((pow2 52 + m : Nat) : Rat) / (pow2 (1075 - e) : Nat)
  some (if sign == 1 then -mag else mag)

/-! ### aggregation -/

def groupKey (a : Agg) (s : Series) : List (String × String) :=
  let picked : List (String × String) := match a.mode with
    | .none => []
    | .by => s.labels.filter (fun kv => a.labels.contains kv.1)
    | .without => s.labels.filter (fun kv => !a.labels.contains kv.1)
  -- an empty label value is a value of its own (see the header: what the unchanged engine does)
  sortLabels picked

def dedup {α} [BEq α] (l : List α) : List α :=
  l.foldl (fun acc x => if acc.contains x then acc else acc ++ [x]) []

def ratMin (a b : Rat) : Rat := if a ≤ b then a else b
def ratMax (a b : Rat) : Rat := if a ≤ b then b else a

def aggregate (fn : AggFn) (vs : List Rat) : Option Rat :=
  match vs with
  | [] => none
  | v :: r =>
    some (match fn with
      | .sum => (v :: r).foldl (· + ·) 0
      | .min => r.foldl ratMin v
      | .max => r.foldl ratMax v
      | .avg => (v :: r).foldl (· + ·) 0 / ((v :: r).length : Nat)
      | .count => (((v :: r).length : Nat) : Rat))

/-- groups (sorted label set) → timestamp → aggregate ; `none` if some member value is not finite -/
def aggregated (a : Agg) (sel : List (Series × List (Nat × Nat))) : Option (List (List (String × String) × List (Nat × Rat))) :=
  let keys := dedup (sel.map (fun (s, _) => groupKey a s))
  keys.mapM (fun k =>
    let members := sel.filter (fun (s, _) => groupKey a s == k)
    let tss := sortBy (fun x y => x ≤ y) (dedup (members.flatMap (fun (_, ps) => ps.map (·.1))))
    (tss.mapM (fun t =>
      ((members.flatMap (fun (_, ps) => (ps.filter (·.1 == t)).map (·.2))).mapM bitsToRat?).bind (fun vs =>
        (aggregate a.fn vs).map (fun v => (t, v))))).map (fun pts => (k, pts)))

/-! ### input classes in which the engine deviates or deviated (see known_findings.txt), and latitude

Classes of RECORDED deviations (`known:` lines): `absent-label-matcher` (matchers that an absent label satisfies),
`value-has-comma`, `empty-group-key`, `name-regex-same-tagset` (aggregations only).
Repaired as well (pending c09-14 / c09-15), still computed: `agg-value-has-brace`, `binop-label-order`, `binop-trailing-comma`.
Classes of REPAIRED deviations (`fixed:` lines) are still computed, so that a disagreement in such a class is
reported under its old name should the defect return: `tsid-preimage-collision`, `no-tags`,
`json-escaped-tag-value`, `same-label-twice`, `regex-on-empty-value`, `tag-value-over-64k`, `matcher-on-missing-key`,
`numeric-tag-value`, `remote-write-escape`, `tsids-per-value-over-64k` (command `mc`)
(the repaired part of the former `absent-label-matcher`) (and `negative-zero`,
which the comparison derives from the values; the repaired selector part of `name-regex-same-tagset` is detected
by the comparison as e2em/name-regex-selector-reports-star).  The comparison
(lib/e2ecmp.py) never lets a repaired class excuse anything. -/

/-- the string the engine USED TO hash into the series id (tagsholder.go GetTSID before the repair): name, then per
    tag in DESCENDING key order `__key__value` — without a separator between a value and the next key.  The repaired
    code writes the length of the name, of every key and of every value in front of it (`tsidPreimage`). -/
def tsidPreimageOld (s : Series) : String :=
  let tags := sortBy (fun a b => a.1 ≥ b.1) s.labels
  s.name ++ "__" ++ String.join (tags.map (fun (k, v) => k ++ "__" ++ v))

/-- 4 bytes little endian (`utils.Uint32ToBytesLittleEndianInplace` of `uint32(len)`) -/
def le32 (n : Nat) : List Nat := [n % 256, n / 256 % 256, n / 65536 % 256, n / 16777216 % 256]

def strBytes (s : String) : List Nat := s.toUTF8.toList.map (·.toNat)

/-- one length-prefixed field of the TSID input (`writeFieldLen(len(x))` then `x`) -/
def fieldB (b : List Nat) : List Nat := le32 b.length ++ b

/-- `tags_separator` = "__" (still written after the metric name and after every key) -/
def sepB : List Nat := [95, 95]

/-- the bytes the repaired GetTSID hashes, over byte strings: len name `__`, then per tag len key `__` len value -/
def encTag (kv : List Nat × List Nat) : List Nat := fieldB kv.1 ++ sepB ++ fieldB kv.2

def preimageB (name : List Nat) (tags : List (List Nat × List Nat)) : List Nat :=
  fieldB name ++ sepB ++ (tags.map encTag).flatten

/-- … for a series: tags in DESCENDING key order (`TagsHolder.finish`) -/
def tsidPreimage (s : Series) : List Nat :=
  preimageB (strBytes s.name) ((sortBy (fun a b => a.1 ≥ b.1) s.labels).map (fun kv => (strBytes kv.1, strBytes kv.2)))

def sameSeries (a b : Series) : Bool := a.name == b.name && sameLabels a.labels b.labels

/-- two different series whose OLD pre-images coincide (input class of the repaired TSID collision) -/
def hasPreimageCollision (ds : List Series) : Bool :=
  ds.any (fun a => ds.any (fun b => !sameSeries a b && tsidPreimageOld a == tsidPreimageOld b))

def hasDup' : List String → Bool
  | [] => false
  | x :: r => r.contains x || hasDup' r

/-- does a series WITHOUT the matcher's label satisfy the matcher (the label then reads as "")? -/
def Matcher.acceptsEmpty (m : Matcher) : Bool :=
  match m.op with
  | .eq => m.value == ""
  | .ne => m.value != ""
  | .re => (regexMatch? m.value "").getD false
  | .nre => !((regexMatch? m.value "").getD true)

/-- classes of inputs for which deviations of the engine are or were recorded -/
def classes (ds : List Series) (q : Query) (sel : List (Series × List (Nat × Nat))) : List String :=
  let ingested := ds.filter (fun s => !s.points.isEmpty)
  let c1 := if hasPreimageCollision (ingested.filter accepted) then ["tsid-preimage-collision"] else []
  -- a series that satisfies the name matchers, has points in range and no label at all (repaired: rejected at ingest)
  let nameMs := q.matchers.filter (·.label == "__name__")
  let c2 := if ingested.any (fun s => s.labels.isEmpty && selects nameMs s && s.points.any (inRange q)) then ["no-tags"] else []
  -- a label matcher that an ABSENT label satisfies (k="", k!="v", k!~"v", k=~".*"), whose label is missing from a series
  -- that the name matchers select (with points in range).  Matchers that an absent label cannot satisfy are repaired.
  let c3 := if (ingested.filter accepted).any (fun s => selects nameMs s && s.points.any (inRange q) &&
                 q.matchers.any (fun m => m.label != "__name__" && !s.keys.contains m.label && m.acceptsEmpty)) then ["absent-label-matcher"] else []
  -- two selected series with different metric names and equal tag sets, under an AGGREGATION (the engine then keys both by
  -- "*{tags": count() sees one series).  For plain selectors the merge is repaired (every series keeps its metric name).
  -- (repaired) a matcher that an absent label CANNOT satisfy, on a label missing from such a series: it used to be skipped
  -- in segments whose tags tree holder has no tree for the key
  let c3b := if (ingested.filter accepted).any (fun s => selects nameMs s && s.points.any (inRange q) &&
                 q.matchers.any (fun m => m.label != "__name__" && !s.keys.contains m.label && !m.acceptsEmpty)) then ["matcher-on-missing-key"] else []
  let c4 := if q.agg.isSome && sel.any (fun (s, _) => sel.any (fun (t, _) => s.name != t.name && sameLabels s.labels t.labels)) then ["name-regex-same-tagset"] else []
  let c5 := if sel.any (fun (s, _) => s.labels.any (fun kv => kv.2.contains ',')) then ["value-has-comma"] else []
  let c6 := if sel.any (fun (s, _) => s.labels.any (fun kv => kv.2.contains '"' || kv.2.contains '\\')) then ["json-escaped-tag-value"] else []
  let c6b := if hasDup' (q.matchers.map (·.label)) then ["same-label-twice"] else []
  -- a regex matcher that REJECTS the empty string, on a label that a candidate series carries with the empty value
  let c6c := if ingested.any (fun s => selects nameMs s && s.points.any (inRange q) &&
                 q.matchers.any (fun m => m.label != "__name__" && (m.op == .re || m.op == .nre) &&
                   s.labels.any (fun kv => kv.1 == m.label && kv.2.isEmpty) && !m.ok s)) then ["regex-on-empty-value"] else []
  -- some ingested series has a tag value longer than 65535 bytes (repaired: rejected at ingest)
  let c6d := if ingested.any (fun s => s.labels.any (fun kv => kv.2.utf8ByteSize > maxTagValueBytes)) then ["tag-value-over-64k"] else []
  -- (repaired) some ingested series had a tag value sent as a JSON number (stored under a hash no query computes, typed
  -- entries that the open-segment iterator and the rotated exact-match reader could not handle)
  let c6e := if ingested.any (fun s => !s.numKeys.isEmpty) then ["numeric-tag-value"] else []
  -- (repaired) a label value with a backslash or a quote that arrived through remote write (it was JSON-unescaped)
  let c6f := if ingested.any (fun s => s.viaRW && s.labels.any (fun kv => kv.2.contains '"' || kv.2.contains '\\')) then ["remote-write-escape"] else []
  let c7 := match q.agg with
    | none => []
    | some a =>
      (if a.mode != .none && sel.any (fun (s, _) => (groupKey a s).isEmpty) then ["empty-group-key"] else [])
  -- an AGGREGATION over a series with a label value that contains '{': the results layer takes everything up to the LAST
  -- single '{' … i.e. splits the id on every '{' (ExtractMetricNameFromGroupID) and, with more than one, takes the whole id
  -- for the metric name: the group ids are garbled (kernel finding promql-group/value-contains-separator, end to end)
  let c8 := if q.agg.isSome && sel.any (fun (s, _) => s.labels.any (fun kv => kv.2.contains '{')) then ["agg-value-has-brace"] else []
  c1 ++ c2 ++ c3 ++ c3b ++ c4 ++ c5 ++ c6 ++ c6b ++ c6c ++ c6d ++ c6e ++ c6f ++ c7 ++ c8

def isSmallInt (q : Rat) : Bool := q.den == 1 && q.num.natAbs < pow2 40

/-- latitude the statements grant -/
def latitude (q : Query) (sel : List (Series × List (Nat × Nat))) : List String :=
  let iv := (calcInterval (q.end_ - q.start)).getD 0
  let l1 := if aligned iv sel then [] else ["unaligned"]
  let l2 := match q.agg with
    | some a => if (a.fn == .sum || a.fn == .avg) &&
                   sel.any (fun (_, ps) => ps.any (fun p => match bitsToRat? p.2 with | some v => !isSmallInt v | none => true))
                then ["inexact-sum"] else []
    | none => []
  l1 ++ l2

/-! ### binary operators between two instant vectors (C09 "arithmetic between vectors matches label sets")

PromQL, default matching (no on()/ignoring()): an element of the left vector and an element of the right vector match
iff their label sets are EQUAL once the metric name is dropped (one-to-one); evaluated per timestamp.  An operand is a
selector or one aggregation over a selector (a regex on `__name__` is outside: two elements of one operand could then
share a label set).  Label sets are compared literally, empty values included (the identity convention of the header).

What is JUDGED (everything else is declared latitude, `BinPt.open`):
  * arithmetic (+ - * / % ^), comparisons (filter or `bool`) and `and`: a result element exists only for a label set
    that occurs on BOTH sides; at a timestamp at which both matched elements have a sample the value is x ∘ y
    (comparison filter: x if the comparison holds, nothing otherwise; bool: 1 / 0; and: x);
  * `unless`: the left elements whose label set does not occur on the right, with all their samples;
  * `or`: all left elements with all their samples, plus the right elements whose label set does not occur on the left.
  Not judged: a timestamp at which only ONE of two matched elements has a sample (the engine has no staleness /
  lookback: it reads the missing right sample as 0, and decides and / or / unless per series, not per timestamp);
  division and modulo by zero, `^` outside exponents 0..4 / |base| ≤ 8192, non-integer or large operands (float64
  rounding is not modelled).  The metric name of a result element is never compared. -/

inductive BinOp where
  | add | sub | mul | div | mod | pow | eq | ne | gt | lt | ge | le | and | or | unless
deriving Repr, DecidableEq

structure Operand where
  matchers : List Matcher
  agg : Option Agg
deriving Repr

structure BinQuery where
  start : Nat
  end_ : Nat
  op : BinOp
  retBool : Bool
  lhs : Operand
  rhs : Operand
deriving Repr

/-- an instant-vector element: label set without the metric name (sorted), samples by time -/
abbrev Elem := List (String × String) × List (Nat × Rat)

def Operand.query (o : Operand) (q : BinQuery) : Query := { start := q.start, end_ := q.end_, matchers := o.matchers, agg := o.agg }

def Operand.nameRegex (o : Operand) : Bool := o.matchers.any (fun m => m.label == "__name__" && (m.op == .re || m.op == .nre))

/-- the vector an operand denotes; `none` = undefined (non-finite value, regex on the name) -/
def evalOperand (ds : List Series) (q : BinQuery) (o : Operand) : Option (List Elem) :=
  if o.nameRegex then none else
  let sel := selected ds (o.query q)
  match o.agg with
  | some a => aggregated a sel
  | none => sel.mapM (fun (s, ps) => (ps.mapM (fun p => (bitsToRat? p.2).map (fun v => (p.1, v)))).map (fun ps => (sortLabels s.labels, ps)))

inductive BinPt where
  | val (v : Rat)
  | open           -- declared latitude: not judged
deriving Repr

def ratIsInt (q : Rat) : Bool := q.den == 1 && q.num.natAbs < pow2 20

/-- x ∘ y at a timestamp where both elements have a sample: `none` = no result sample there -/
def applyOp (op : BinOp) (retBool : Bool) (x y : Rat) : Option BinPt :=
  let cmp (b : Bool) : Option BinPt := if retBool then some (.val (if b then 1 else 0)) else (if b then some (.val x) else none)
  if !(ratIsInt x && ratIsInt y) then some .open else
  match op with
  | .add => some (.val (x + y))
  | .sub => some (.val (x - y))
  | .mul => some (.val (x * y))
  | .div => if y == 0 then some .open else some (.val (x / y))
  | .mod => if y == 0 then some .open else some (.val ((Int.tmod x.num y.num : Int) : Rat))
  | .pow => if 0 ≤ y.num && y.num ≤ 4 && x.num.natAbs ≤ 8192 then some (.val ((x.num ^ y.num.toNat : Int) : Rat)) else some .open
  | .eq => cmp (x == y)
  | .ne => cmp (x != y)
  | .gt => cmp (x > y)
  | .lt => cmp (x < y)
  | .ge => cmp (x ≥ y)
  | .le => cmp (x ≤ y)
  | .and | .or | .unless => some (.val x)

def findElem (v : List Elem) (ls : List (String × String)) : Option Elem := v.find? (·.1 == ls)

/-- samples of a left element `x` that has the partner `y` -/
def matchedPts (op : BinOp) (retBool : Bool) (x y : Elem) : List (Nat × BinPt) :=
  match op with
  | .unless => x.2.filterMap (fun (t, _) => if (y.2.any (·.1 == t)) then none else some (t, BinPt.open))
  | .or => x.2.map (fun (t, vx) => (t, BinPt.val vx)) ++
           (y.2.filter (fun (t, _) => !(x.2.any (·.1 == t)))).map (fun (t, _) => (t, BinPt.open))
  | _ => x.2.filterMap (fun (t, vx) => match y.2.find? (·.1 == t) with
      | some (_, vy) => (applyOp op retBool vx vy).map (fun p => (t, p))
      | none => some (t, .open))

def allVals (x : Elem) : List (Nat × BinPt) := x.2.map (fun (t, v) => (t, BinPt.val v))

/-- what a left element contributes: with a partner its matched samples; without one it is kept by or / unless only -/
def leftEntry (op : BinOp) (retBool : Bool) (r : List Elem) (x : Elem) : Option (List (String × String) × List (Nat × BinPt)) :=
  match findElem r x.1 with
  | some y => some (x.1, matchedPts op retBool x y)
  | none => if op == .unless || op == .or then some (x.1, allVals x) else none

/-- the result vector: label set → (timestamp → judged value | open) -/
def evalBin (op : BinOp) (retBool : Bool) (l r : List Elem) : List (List (String × String) × List (Nat × BinPt)) :=
  l.filterMap (leftEntry op retBool r) ++
  (if op == .or then (r.filter (fun y => (findElem l y.1).isNone)).map (fun y => (y.1, allVals y)) else [])

/-- the order in which the engine writes the label keys of a series into its id: the keys with a (non-name) value
    matcher first, then the others, each part sorted (structs.ReorderTagFilters: value filters before the key=* filters);
    an aggregation rebuilds the id from the sorted grouping fields -/
def Operand.idKeyOrder (o : Operand) (ls : List (String × String)) : List String :=
  let ks := (sortLabels ls).map (·.1)
  match o.agg with
  | some _ => ks
  | none =>
    let mk := (o.matchers.filter (·.label != "__name__")).map (·.label)
    ks.filter (mk.contains ·) ++ ks.filter (!mk.contains ·)

/-- class `binop-label-order`: some element's label keys are written in different orders by the two operands (the
    engine compares the id STRINGS, so such an element never finds its partner) -/
def binopLabelOrder (q : BinQuery) (l r : List Elem) : Bool :=
  (l ++ r).any (fun e => q.lhs.idKeyOrder e.1 != q.rhs.idKeyOrder e.1)

/-- an aggregation `by (…)` (or without clause) rebuilds the id WITHOUT a comma after the last label (getAggSeriesId),
    every other id ends with one -/
def Operand.idEndsWithComma (o : Operand) : Bool :=
  match o.agg with
  | some a => a.mode == .without
  | none => true

/-- class `binop-trailing-comma`: one operand writes its ids with a comma after the last label and the other one does
    not (`sum by (k) (a) / b`): an element with a non-empty label set never finds its partner -/
def binopTrailingComma (q : BinQuery) (l r : List Elem) : Bool :=
  q.lhs.idEndsWithComma != q.rhs.idEndsWithComma && (l ++ r).any (fun e => !e.1.isEmpty)

def hasDupLabels : List (List (String × String)) → Bool
  | [] => false
  | x :: r => r.contains x || hasDupLabels r

end SigModel.Spec.Metrics
