/-
SPECIFICATION of metric storage and metric queries (what C08 and the selector/aggregation part of C09
mean), used by the end-to-end differential `e2e_metrics`: the Oracle evaluates this spec on the same
series, ingest history and queries that the real engine runs.  "Simplest possible spec": the data set
is a list of series (name, label set, points); a query is evaluated directly over it — no TSIDs, no
blocks, no segments, no tags trees, no Gorilla encoding.  Core Lean only.

  * C08: a selector returns, for every series it selects, every ingested point of the query range with
    the SAME timestamp and the SAME 64 value bits, under the SAME label set; distinct (name, label set)
    pairs are distinct series.  The ingest history (order, block/segment rotations) does not occur in
    the spec at all: the answer must not depend on it.
  * C09: PromQL matcher semantics (`=`, `!=`, `=~`, `!~`, fully anchored, an absent label reads as the
    empty string, `__name__` is the metric name); `fn by (…)` / `fn without (…)` / `fn (…)` for
    sum/min/max/avg/count evaluate, per output group and per timestamp at which a member series has a
    point, the aggregate of the members' values (exact rationals).

Empty label values and a tag named `__name__` (identity corner cases):
  * C08 (identity): a tag ingested with the EMPTY STRING as value is part of the series' label set as ingested.
    The unchanged engine stores `m{host="a",zone=""}` and `m{host="a"}` as two series and reports `zone=""`
    for the first one, so the spec keeps them apart as well: `labels` are compared literally, empty values
    included (merging them — PromQL would allow it — is NOT what the engine does, hence not granted).
  * C09 matching: PromQL does not distinguish an empty label value from an absent label: `Series.label`
    returns "" for both.  C09 grouping: the unchanged engine keeps an empty value as a value of its own
    (`by (zone)` puts m{zone=""} into the group {zone=""}, not into {}), consistently with its identity
    rule above; the statements leave this corner open and the spec states the engine's choice (`groupKey`
    keeps empty-valued labels) so that any change of it is noticed.
  * a tag literally named `__name__` is accepted by the ingest path and is just one more label of the
    series' identity; matchers on `__name__` always address the metric name.

Which datapoints are ACCEPTED (the statements speak about accepted datapoints only; `accepted`):
  * a datapoint without any tag is rejected at ingest (a series is found through the tags trees of its tag keys
    only; before the repair it was accepted and never returned — class `no-tags`);
  * a datapoint with a tag value longer than 65535 bytes is rejected at ingest (the tags tree file frames a value
    with a 16-bit length; before the repair it was accepted and lost with the rotation — class `tag-value-over-64k`).
  The differential checks both directions: a datapoint of an accepted series must not be rejected, a datapoint of a
  series that cannot be served must not be accepted.

Protocols: a datapoint may arrive as OpenTSDB JSON (tag values JSON strings, or JSON numbers = their text) or through
Prometheus remote write (label values raw strings: a backslash is a backslash).  The series identity is the metric
name and the label set of VALUES — the protocol, the JSON spelling of a value and the number of series that share a
value (more than 65535: the tags tree file stores the TSID count of a value in 16 bits, command `mc` of the Oracle) do
not occur in the spec.

Engine conventions the spec has to know in order to state the guard under which "same timestamp" is
meaningful: the engine reports every point at the start of its downsample bucket, bucket width =
`calcInterval (end - start)` (pkg/segment/results/mresults/metricresults.go `steps`/`CalculateInterval`,
seriesresult.go `AddEntry`).  A query is `aligned` when every selected point sits on a bucket start; only
then are timestamps and value bits compared (otherwise the engine legitimately merges/shifts points —
declared latitude `unaligned`).
-/
namespace SigModel.Spec.Metrics

structure Series where
  name : String
  labels : List (String × String)     -- distinct keys
  points : List (Nat × Nat)           -- (timestamp seconds, float64 bit pattern), the INGESTED points
  /-- keys whose value was sent as a bare JSON NUMBER (`"k":5`) by some OTSDB datapoint: the label value is the number's
      text as sent (tag values are strings in every query language; `"k":5` and `"k":"5"` are the same tag) -/
  numKeys : List String := []
  /-- some point of the series arrived through Prometheus remote write (label values are raw strings there) -/
  viaRW : Bool := false
  /-- keys whose value is sent as JSON `true`, `null`, or as a string with an invalid escape sequence: not a tag value -/
  badKeys : List String := []
  /-- some OTSDB datapoint of the series spelled the metric name with a JSON escape (`\u0063pu` for `cpu`): the same name -/
  nameEscaped : Bool := false
  /-- keys whose VALUE some OTSDB datapoint of the series spelled with a JSON escape (`\u0058` for `X`): the same value -/
  escKeys : List String := []
deriving Repr, Inhabited

inductive MOp where | eq | ne | re | nre
deriving Repr, BEq, DecidableEq

structure Matcher where
  label : String
  op : MOp
  value : String
deriving Repr

inductive AggFn where | sum | min | max | avg | count
deriving Repr, BEq, DecidableEq

inductive AggMode where | none | by | without
deriving Repr, BEq, DecidableEq

structure Agg where
  fn : AggFn
  mode : AggMode
  labels : List String
deriving Repr

structure Query where
  start : Nat
  end_ : Nat
  matchers : List Matcher
  agg : Option Agg
deriving Repr

/-! ### generic helpers -/

def insertBy {α} (le : α → α → Bool) (x : α) : List α → List α
  | [] => [x]
  | y :: ys => if le x y then x :: y :: ys else y :: insertBy le x ys
def sortBy {α} (le : α → α → Bool) (xs : List α) : List α := xs.foldr (insertBy le) []

def sortLabels (l : List (String × String)) : List (String × String) :=
  sortBy (fun a b => a.1 < b.1 || (a.1 == b.1 && a.2 ≤ b.2)) l

def sameLabels (a b : List (String × String)) : Bool := sortLabels a == sortLabels b

/-! ### the regular-expression fragment of the generator: literals, `.*`, top-level alternation -/

inductive RItem where
  | lit (c : Char)
  | any                       -- `.*`
deriving Repr

/-- `none` = outside the fragment -/
def parseAlt : List Char → Option (List RItem)
  | [] => some []
  | '.' :: '*' :: r => (parseAlt r).map (RItem.any :: ·)
  | c :: r => if c.isAlphanum || c == '_' || c == '-' then (parseAlt r).map (RItem.lit c :: ·) else none

def matchItems : List RItem → List Char → Bool
  | [], s => s.isEmpty
  | .lit c :: r, x :: s => c == x && matchItems r s
  | .lit _ :: _, [] => false
  | .any :: r, [] => matchItems r []
  | .any :: r, x :: s => matchItems r (x :: s) || matchItems (.any :: r) s
termination_by p s => (p.length, s.length)

/-- fully anchored match of `s` against `alt1|alt2|…` ; `none` = pattern outside the fragment -/
def regexMatch? (pat s : String) : Option Bool :=
  ((pat.splitOn "|").mapM (fun a => parseAlt a.toList)).map (fun alts => alts.any (fun a => matchItems a s.toList))

def regexInFragment (pat : String) : Bool := (regexMatch? pat "").isSome

/-! ### selectors -/

def Series.keys (s : Series) : List String := s.labels.map (·.1)

/-- PromQL: `__name__` is the metric name, an absent label reads as "" -/
def Series.label (s : Series) (k : String) : String :=
  if k == "__name__" then s.name else ((s.labels.find? (·.1 == k)).map (·.2)).getD ""

def Matcher.ok (m : Matcher) (s : Series) : Bool :=
  let v := s.label m.label
  match m.op with
  | .eq => v == m.value
  | .ne => v != m.value
  | .re => (regexMatch? m.value v).getD false
  | .nre => !((regexMatch? m.value v).getD true)

def selects (ms : List Matcher) (s : Series) : Bool := ms.all (·.ok s)

def inRange (q : Query) (p : Nat × Nat) : Bool := q.start ≤ p.1 && p.1 ≤ q.end_

/-- the longest tag value the tags tree file can frame (16-bit length field) -/
def maxTagValueBytes : Nat := 65535

/-- ingest accepts the datapoints of a series iff it has at least one tag, no tag value above 65535 bytes, and every
    tag value is a string or a number (a datapoint one of whose tags cannot be stored must leave nothing behind) -/
def accepted (s : Series) : Bool :=
  !s.labels.isEmpty && s.labels.all (fun kv => kv.2.utf8ByteSize ≤ maxTagValueBytes) && s.badKeys.isEmpty

/-- the selected series that have at least one point in the range, each with its in-range points by time
    (series whose datapoints the ingest path rejects hold nothing) -/
def selected (ds : List Series) (q : Query) : List (Series × List (Nat × Nat)) :=
  ((ds.filter accepted).filter (selects q.matchers)).filterMap (fun s =>
    let ps := sortBy (fun a b => a.1 ≤ b.1) (s.points.filter (inRange q))
    if ps.isEmpty then none else some (s, ps))

/-! ### the engine's bucket convention (guard only) -/

def steps : List Nat := [1, 5, 10, 20, 60, 120, 300, 600, 1200, 3600, 7200, 14400, 28800, 57600, 115200, 230400, 460800, 921600]

def calcInterval (width : Nat) : Option Nat :=
  if width > 315360000 then none else steps.find? (fun st => width / st ≤ 360)

def hasDup : List Nat → Bool
  | [] => false
  | x :: r => r.contains x || hasDup r

/-- every selected point sits on the start of its own bucket -/
def aligned (iv : Nat) (sel : List (Series × List (Nat × Nat))) : Bool :=
  iv > 0 && sel.all (fun (_, ps) => ps.all (fun p => p.1 % iv == 0) && !hasDup (ps.map (·.1)))

/-! ### float64 bit pattern → exact rational (finite values) -/

def pow2 (n : Nat) : Nat := 2 ^ n

def bitsToRat? (b : Nat) : Option Rat :=
  let sign := b / pow2 63 % 2
  let e := b / pow2 52 % 2048
  let m := b % pow2 52
  if e == 2047 then none else
  let mag : Rat :=
    if e == 0 then (m : Rat) / (pow2 1074 : Nat)
    else if e ≥ 1075 then (((pow2 52 + m) * pow2 (e - 1075) : Nat) : Rat)
    else ((pow2 52 + m : Nat) : Rat) / (pow2 (1075 - e) : Nat)
  some (if sign == 1 then -mag else mag)

/-! ### aggregation -/

def groupKey (a : Agg) (s : Series) : List (String × String) :=
  let picked : List (String × String) := match a.mode with
    | .none => []
    | .by => s.labels.filter (fun kv => a.labels.contains kv.1)
    | .without => s.labels.filter (fun kv => !a.labels.contains kv.1)
  -- an empty label value is a value of its own (see the header: what the unchanged engine does)
  sortLabels picked

def dedup {α} [BEq α] (l : List α) : List α :=
  l.foldl (fun acc x => if acc.contains x then acc else acc ++ [x]) []

def ratMin (a b : Rat) : Rat := if a ≤ b then a else b
def ratMax (a b : Rat) : Rat := if a ≤ b then b else a

def aggregate (fn : AggFn) (vs : List Rat) : Option Rat :=
  match vs with
  | [] => none
  | v :: r =>
    some (match fn with
      | .sum => (v :: r).foldl (· + ·) 0
      | .min => r.foldl ratMin v
      | .max => r.foldl ratMax v
      | .avg => (v :: r).foldl (· + ·) 0 / ((v :: r).length : Nat)
      | .count => (((v :: r).length : Nat) : Rat))

/-- groups (sorted label set) → timestamp → aggregate ; `none` if some member value is not finite -/
def aggregated (a : Agg) (sel : List (Series × List (Nat × Nat))) : Option (List (List (String × String) × List (Nat × Rat))) :=
  let keys := dedup (sel.map (fun (s, _) => groupKey a s))
  keys.mapM (fun k =>
    let members := sel.filter (fun (s, _) => groupKey a s == k)
    let tss := sortBy (fun x y => x ≤ y) (dedup (members.flatMap (fun (_, ps) => ps.map (·.1))))
    (tss.mapM (fun t =>
      ((members.flatMap (fun (_, ps) => (ps.filter (·.1 == t)).map (·.2))).mapM bitsToRat?).bind (fun vs =>
        (aggregate a.fn vs).map (fun v => (t, v))))).map (fun pts => (k, pts)))

/-! ### input classes in which the engine deviates or deviated (see known_findings.txt), and latitude

Classes of RECORDED deviations (`known:` lines): `absent-label-matcher` (matchers that an absent label satisfies),
`value-has-comma`, `crash-before-tags-flush` (computed
by the Oracle from the history tokens tf / cr: a series first seen after the last tags-tree flush before a crash).
Repaired as well (c09-14 / c09-15), still computed: `agg-value-has-brace`, `binop-label-order`, `binop-trailing-comma`.
Repaired in the second metrics round (pending c08-1, c08-2, c09-16 … c09-25), computed here, in `exprClasses` and in
Oracle/E2EM.lean: `tag-value-not-a-string`, `escaped-metric-name`, `star-literal-matcher`, `label-values-of-all-keys`,
`label-values-first-metric-only`, `vector-matching-label-chars`, `binop-one-sided-timestamp`, `set-operator-with-on`,
`binop-division-by-zero`, `unary-minus`, `comparison-scalar-on-the-left`, `empty-intermediate-vector`,
`mixed-name-vector-operand`; c08-3: `escaped-tag-value-tsid`.  Repaired by c09-26 (count over series that share one group id), still computed:
`name-regex-same-tagset` (aggregations only).  Repaired by c09-27, still computed: `empty-group-key`.
Classes of REPAIRED deviations (`fixed:` lines) are still computed, so that a disagreement in such a class is
reported under its old name should the defect return: `tsid-preimage-collision`, `no-tags`,
`json-escaped-tag-value`, `same-label-twice`, `regex-on-empty-value`, `tag-value-over-64k`, `matcher-on-missing-key`,
`numeric-tag-value`, `remote-write-escape`, `tsids-per-value-over-64k` (command `mc`)
(the repaired part of the former `absent-label-matcher`) (and `negative-zero`,
which the comparison derives from the values; the repaired selector part of `name-regex-same-tagset` is detected
by the comparison as e2em/name-regex-selector-reports-star).  The comparison
(lib/e2ecmp.py) never lets a repaired class excuse anything. -/

/-- the string the engine USED TO hash into the series id (tagsholder.go GetTSID before the repair): name, then per
    tag in DESCENDING key order `__key__value` — without a separator between a value and the next key.  The repaired
    code writes the length of the name, of every key and of every value in front of it (`tsidPreimage`). -/
def tsidPreimageOld (s : Series) : String :=
  let tags := sortBy (fun a b => a.1 ≥ b.1) s.labels
  s.name ++ "__" ++ String.join (tags.map (fun (k, v) => k ++ "__" ++ v))

/-- 4 bytes little endian (`utils.Uint32ToBytesLittleEndianInplace` of `uint32(len)`) -/
def le32 (n : Nat) : List Nat := [n % 256, n / 256 % 256, n / 65536 % 256, n / 16777216 % 256]

def strBytes (s : String) : List Nat := s.toUTF8.toList.map (·.toNat)

/-- one length-prefixed field of the TSID input (`writeFieldLen(len(x))` then `x`) -/
def fieldB (b : List Nat) : List Nat := le32 b.length ++ b

/-- `tags_separator` = "__" (still written after the metric name and after every key) -/
def sepB : List Nat := [95, 95]

/-- the bytes the repaired GetTSID hashes, over byte strings: len name `__`, then per tag len key `__` len value -/
def encTag (kv : List Nat × List Nat) : List Nat := fieldB kv.1 ++ sepB ++ fieldB kv.2

def preimageB (name : List Nat) (tags : List (List Nat × List Nat)) : List Nat :=
  fieldB name ++ sepB ++ (tags.map encTag).flatten

/-- … for a series: tags in DESCENDING key order (`TagsHolder.finish`) -/
def tsidPreimage (s : Series) : List Nat :=
  preimageB (strBytes s.name) ((sortBy (fun a b => a.1 ≥ b.1) s.labels).map (fun kv => (strBytes kv.1, strBytes kv.2)))

def sameSeries (a b : Series) : Bool := a.name == b.name && sameLabels a.labels b.labels

/-- two different series whose OLD pre-images coincide (input class of the repaired TSID collision) -/
def hasPreimageCollision (ds : List Series) : Bool :=
  ds.any (fun a => ds.any (fun b => !sameSeries a b && tsidPreimageOld a == tsidPreimageOld b))

def hasDup' : List String → Bool
  | [] => false
  | x :: r => r.contains x || hasDup' r

/-- does a series WITHOUT the matcher's label satisfy the matcher (the label then reads as "")? -/
def Matcher.acceptsEmpty (m : Matcher) : Bool :=
  match m.op with
  | .eq => m.value == ""
  | .ne => m.value != ""
  | .re => (regexMatch? m.value "").getD false
  | .nre => !((regexMatch? m.value "").getD true)

/-- classes of inputs for which deviations of the engine are or were recorded -/
def classes (ds : List Series) (q : Query) (sel : List (Series × List (Nat × Nat))) : List String :=
  let ingested := ds.filter (fun s => !s.points.isEmpty)
  let c1 := if hasPreimageCollision (ingested.filter accepted) then ["tsid-preimage-collision"] else []
  -- a series that satisfies the name matchers, has points in range and no label at all (repaired: rejected at ingest)
  let nameMs := q.matchers.filter (·.label == "__name__")
  let c2 := if ingested.any (fun s => s.labels.isEmpty && selects nameMs s && s.points.any (inRange q)) then ["no-tags"] else []
  -- a label matcher that an ABSENT label satisfies (k="", k!="v", k!~"v", k=~".*"), whose label is missing from a series
  -- that the name matchers select (with points in range).  Matchers that an absent label cannot satisfy are repaired.
  let c3 := if (ingested.filter accepted).any (fun s => selects nameMs s && s.points.any (inRange q) &&
                 q.matchers.any (fun m => m.label != "__name__" && !s.keys.contains m.label && m.acceptsEmpty)) then ["absent-label-matcher"] else []
  -- (repaired, c09-26) two selected series with different metric names and equal tag sets, under an AGGREGATION (the engine
  -- keys both by "*{tags": count() used to see one series).  For plain selectors the merge is repaired as well (c09-7).
  -- (repaired) a matcher that an absent label CANNOT satisfy, on a label missing from such a series: it used to be skipped
  -- in segments whose tags tree holder has no tree for the key
  let c3b := if (ingested.filter accepted).any (fun s => selects nameMs s && s.points.any (inRange q) &&
                 q.matchers.any (fun m => m.label != "__name__" && !s.keys.contains m.label && !m.acceptsEmpty)) then ["matcher-on-missing-key"] else []
  let c4 := if q.agg.isSome && sel.any (fun (s, _) => sel.any (fun (t, _) => s.name != t.name && sameLabels s.labels t.labels)) then ["name-regex-same-tagset"] else []
  let c5 := if sel.any (fun (s, _) => s.labels.any (fun kv => kv.2.contains ',')) then ["value-has-comma"] else []
  let c6 := if sel.any (fun (s, _) => s.labels.any (fun kv => kv.2.contains '"' || kv.2.contains '\\')) then ["json-escaped-tag-value"] else []
  let c6b := if hasDup' (q.matchers.map (·.label)) then ["same-label-twice"] else []
  -- a regex matcher that REJECTS the empty string, on a label that a candidate series carries with the empty value
  let c6c := if ingested.any (fun s => selects nameMs s && s.points.any (inRange q) &&
                 q.matchers.any (fun m => m.label != "__name__" && (m.op == .re || m.op == .nre) &&
                   s.labels.any (fun kv => kv.1 == m.label && kv.2.isEmpty) && !m.ok s)) then ["regex-on-empty-value"] else []
  -- some ingested series has a tag value longer than 65535 bytes (repaired: rejected at ingest)
  let c6d := if ingested.any (fun s => s.labels.any (fun kv => kv.2.utf8ByteSize > maxTagValueBytes)) then ["tag-value-over-64k"] else []
  -- (repaired) some ingested series had a tag value sent as a JSON number (stored under a hash no query computes, typed
  -- entries that the open-segment iterator and the rotated exact-match reader could not handle)
  let c6e := if ingested.any (fun s => !s.numKeys.isEmpty) then ["numeric-tag-value"] else []
  -- (repaired) a label value with a backslash or a quote that arrived through remote write (it was JSON-unescaped)
  let c6f := if ingested.any (fun s => s.viaRW && s.labels.any (fun kv => kv.2.contains '"' || kv.2.contains '\\')) then ["remote-write-escape"] else []
  let c7 := match q.agg with
    | none => []
    | some a =>
      (if a.mode != .none && sel.any (fun (s, _) => (groupKey a s).isEmpty) then ["empty-group-key"] else [])
  -- an AGGREGATION over a series with a label value that contains '{': the results layer takes everything up to the LAST
  -- single '{' … i.e. splits the id on every '{' (ExtractMetricNameFromGroupID) and, with more than one, takes the whole id
  -- for the metric name: the group ids are garbled (kernel finding promql-group/value-contains-separator, end to end)
  let c8 := if q.agg.isSome && sel.any (fun (s, _) => s.labels.any (fun kv => kv.2.contains '{')) then ["agg-value-has-brace"] else []
  -- (repaired, c09-16) a matcher k="*" / k!="*": the tags search reads the value * as "any value"
  let c9 := if q.matchers.any (fun m => m.label != "__name__" && (m.op == .eq || m.op == .ne) && m.value == "*") then ["star-literal-matcher"] else []
  -- (repaired, c08-1) some ingested series has a tag whose value is not a string or a number: its first datapoint used to
  -- be rejected AFTER the series had been created (served although rejected; later datapoints accepted without their tags)
  let c10 := if ingested.any (fun s => !s.badKeys.isEmpty) then ["tag-value-not-a-string"] else []
  -- (repaired, c08-2) the metric name of some ingested series was spelled with a JSON escape by some datapoint: it used to be
  -- stored with the escape sequence as its name
  let c11 := if ingested.any (·.nameEscaped) then ["escaped-metric-name"] else []
  -- (repaired, c08-3) a tag value of some ingested series was spelled with a JSON escape by some datapoints and without by
  -- others: the TSID used to be hashed over the spelling, one series had two TSIDs — re-merged by the queries (results are
  -- keyed by the rendered id) unless a crash came in between: the tags-tree entry of the second TSID was not flushed with the first
  let c12 := if ingested.any (fun s => !s.escKeys.isEmpty) then ["escaped-tag-value-tsid"] else []
  c1 ++ c2 ++ c3 ++ c3b ++ c4 ++ c5 ++ c6 ++ c6b ++ c6c ++ c6d ++ c6e ++ c6f ++ c7 ++ c8 ++ c9 ++ c10 ++ c11 ++ c12

def isSmallInt (q : Rat) : Bool := q.den == 1 && q.num.natAbs < pow2 40

/-- latitude the statements grant -/
def latitude (q : Query) (sel : List (Series × List (Nat × Nat))) : List String :=
  let iv := (calcInterval (q.end_ - q.start)).getD 0
  let l1 := if aligned iv sel then [] else ["unaligned"]
  let l2 := match q.agg with
    | some a => if (a.fn == .sum || a.fn == .avg) &&
                   sel.any (fun (_, ps) => ps.any (fun p => match bitsToRat? p.2 with | some v => !isSmallInt v | none => true))
                then ["inexact-sum"] else []
    | none => []
  l1 ++ l2

/-! ### binary operators between two instant vectors (C09 "arithmetic between vectors matches label sets")

PromQL, default matching (no on()/ignoring()): an element of the left vector and an element of the right vector match
iff their label sets are EQUAL once the metric name is dropped (one-to-one); evaluated per timestamp.  An operand is a
selector or one aggregation over a selector (a regex on `__name__` is outside: two elements of one operand could then
share a label set).  Label sets are compared literally, empty values included (the identity convention of the header).

What is JUDGED (everything else is declared latitude, `BinPt.open`), PER TIMESTAMP — the engine knows no staleness
and no lookback: an element is in a vector at exactly the timestamps at which it has a sample (this is also how the
aggregations above are specified), so the operators are evaluated over the samples of one timestamp:
  * arithmetic (+ - * / % ^), comparisons (filter or `bool`) and `and`: a result sample exists only for a label set
    that occurs on BOTH sides and at a timestamp at which BOTH matched elements have a sample; its value is x ∘ y
    (comparison filter: x if the comparison holds, nothing otherwise; bool: 1 / 0; and: x).  A missing right sample is
    NOT 0: `a + b` has no sample there (PromQL drops it as well);
  * x / 0 is +Inf, -Inf or NaN (0 / 0), x % 0 is NaN — IEEE 754, as PromQL;
  * `unless`: the left samples at the timestamps at which no matching right element has a sample;
  * `or`: all left samples, plus the right samples at the timestamps at which no matching left element has one.
  Not judged: `^` outside exponents 0..4 / |base| ≤ 8192, non-integer or large operands (float64 rounding is not
  modelled), arithmetic on ±Inf / NaN.  The metric name of a result element is never compared. -/

inductive BinOp where
  | add | sub | mul | div | mod | pow | eq | ne | gt | lt | ge | le | and | or | unless
deriving Repr, DecidableEq

structure Operand where
  matchers : List Matcher
  agg : Option Agg
deriving Repr

structure BinQuery where
  start : Nat
  end_ : Nat
  op : BinOp
  retBool : Bool
  lhs : Operand
  rhs : Operand
deriving Repr

/-- an instant-vector element: label set without the metric name (sorted), samples by time -/
abbrev Elem := List (String × String) × List (Nat × Rat)

def Operand.query (o : Operand) (q : BinQuery) : Query := { start := q.start, end_ := q.end_, matchers := o.matchers, agg := o.agg }

def Operand.nameRegex (o : Operand) : Bool := o.matchers.any (fun m => m.label == "__name__" && (m.op == .re || m.op == .nre))

/-- the vector an operand denotes; `none` = undefined (non-finite value, regex on the name) -/
def evalOperand (ds : List Series) (q : BinQuery) (o : Operand) : Option (List Elem) :=
  if o.nameRegex then none else
  let sel := selected ds (o.query q)
  match o.agg with
  | some a => aggregated a sel
  | none => sel.mapM (fun (s, ps) => (ps.mapM (fun p => (bitsToRat? p.2).map (fun v => (p.1, v)))).map (fun ps => (sortLabels s.labels, ps)))

inductive BinPt where
  | val (v : Rat)
  | inf (neg : Bool)   -- x / 0 with x ≠ 0 (PromQL: ±Inf)
  | nan                -- 0 / 0, x % 0 (PromQL: NaN)
  | open               -- declared latitude: not judged (the sample may also be absent)
deriving Repr, DecidableEq

def ratIsInt (q : Rat) : Bool := q.den == 1 && q.num.natAbs < pow2 20

/-- x ∘ y at a timestamp where both elements have a sample: `none` = no result sample there.  `keep` is the value a
    comparison FILTER keeps when it holds: the sample of the vector operand (the left one between two vectors). -/
def applyOpK (op : BinOp) (retBool : Bool) (x y keep : Rat) : Option BinPt :=
  let cmp (b : Bool) : Option BinPt := if retBool then some (.val (if b then 1 else 0)) else (if b then some (.val keep) else none)
  if !(ratIsInt x && ratIsInt y) then some .open else
  match op with
  | .add => some (.val (x + y))
  | .sub => some (.val (x - y))
  -- a zero that float64 arithmetic may give the sign "-" (0 * -5, 0 / -5, -4 % 2, -(0)) is not judged: as a divisor
  -- further up it decides between +Inf and -Inf
  | .mul => if x * y == 0 && (x < 0 || y < 0) then some .open else some (.val (x * y))
  | .div => if y == 0 then some (if x == 0 then .nan else .inf (x < 0))
            else if x == 0 && y < 0 then some .open else some (.val (x / y))
  | .mod => if y == 0 then some .nan else if Int.tmod x.num y.num == 0 && x < 0 then some .open
            else some (.val ((Int.tmod x.num y.num : Int) : Rat))
  | .pow => if 0 ≤ y.num && y.num ≤ 4 && x.num.natAbs ≤ 8192 then some (.val ((x.num ^ y.num.toNat : Int) : Rat)) else some .open
  | .eq => cmp (x == y)
  | .ne => cmp (x != y)
  | .gt => cmp (x > y)
  | .lt => cmp (x < y)
  | .ge => cmp (x ≥ y)
  | .le => cmp (x ≤ y)
  | .and | .or | .unless => some (.val x)

def applyOp (op : BinOp) (retBool : Bool) (x y : Rat) : Option BinPt := applyOpK op retBool x y x

def BinOp.isSet : BinOp → Bool
  | .and | .or | .unless => true
  | _ => false

def BinOp.isCmp : BinOp → Bool
  | .eq | .ne | .gt | .lt | .ge | .le => true
  | _ => false

/-! #### vector matching: `on (l…)` / `ignoring (l…)` / default (all labels), one-to-one

PromQL: two elements match iff they agree on the matching labels — the listed ones (`on`), all but the listed ones
(`ignoring`), all of them (default); the metric name never takes part.  A label that an element does not carry is
simply not in its key (literal identity, as everywhere in this specification: an empty value is a value of its own).
One-to-one matching needs the keys to be pairwise different within each operand; otherwise the expression is an error
in PromQL for arithmetic and comparisons (and the engine refuses it for the set operators as well): undefined here.
Engine convention granted: a result element is reported under the label set of its LEFT element (PromQL would cut it
down to the `on` labels resp. drop the `ignoring` ones); right elements taken over by `or` keep their own labels. -/

inductive VMatch where
  | default
  | on (ls : List String)
  | ignoring (ls : List String)
deriving Repr

def VMatch.isDefault : VMatch → Bool
  | .default => true
  | _ => false

def VMatch.key (m : VMatch) (ls : List (String × String)) : List (String × String) :=
  match m with
  | .default => ls
  | .on ks => ls.filter (fun kv => ks.contains kv.1)
  | .ignoring ks => ls.filter (fun kv => !ks.contains kv.1)

/-- an element of an intermediate or final result vector: label set (sorted, no metric name), samples by time -/
abbrev XElem := List (String × String) × List (Nat × BinPt)

def liftElem (e : Elem) : XElem := (e.1, e.2.map (fun (t, v) => (t, BinPt.val v)))

def ptAt (e : XElem) (t : Nat) : Option BinPt := (e.2.find? (·.1 == t)).map (·.2)

def findPartner (m : VMatch) (v : List XElem) (x : XElem) : Option XElem := v.find? (fun y => m.key y.1 == m.key x.1)

def applyOpPt (op : BinOp) (retBool : Bool) : BinPt → BinPt → Option BinPt
  | .val x, .val y => applyOp op retBool x y
  | _, _ => some .open

/-- samples of a left element `x` with partner `y`, PER TIMESTAMP (the engine knows no staleness: an element is in the
    vector at the timestamps at which it has a sample, and nowhere else):
    arithmetic / comparison / `and` need a sample on both sides; `unless` keeps the left samples where the right element
    has none; `or` keeps all left samples. -/
def matchedPts (op : BinOp) (retBool : Bool) (x y : XElem) : List (Nat × BinPt) :=
  match op with
  | .or => x.2
  | .unless => x.2.filterMap (fun (t, px) => match ptAt y t with
      | none => some (t, px)
      | some .open => some (t, BinPt.open)
      | some _ => none)
  | .and => x.2.filterMap (fun (t, px) => match ptAt y t with
      | none => none
      | some .open => some (t, BinPt.open)
      | some _ => some (t, px))
  | _ => x.2.filterMap (fun (t, px) => match ptAt y t with
      | none => none
      | some py => (applyOpPt op retBool px py).map (fun p => (t, p)))

/-- what a left element contributes: with a partner its matched samples; without one it is kept by or / unless only -/
def leftEntry (m : VMatch) (op : BinOp) (retBool : Bool) (r : List XElem) (x : XElem) : Option XElem :=
  match findPartner m r x with
  | some y => some (x.1, matchedPts op retBool x y)
  | none => if op == .unless || op == .or then some x else none

/-- `or`: what a right element contributes: its samples at the timestamps at which its left partner has none -/
def orExtra (m : VMatch) (l : List XElem) (y : XElem) : XElem :=
  match findPartner m l y with
  | none => y
  | some x => (y.1, y.2.filterMap (fun (t, py) => match ptAt x t with
      | none => some (t, py)
      | some .open => some (t, BinPt.open)
      | some _ => none))

/-- the result vector of `l op r` under the matching `m` -/
def evalVV (m : VMatch) (op : BinOp) (retBool : Bool) (l r : List XElem) : List XElem :=
  l.filterMap (leftEntry m op retBool r) ++
  (if op == .or then (r.map (orExtra m l)).filter (fun e => !e.2.isEmpty) else [])

def hasDupLabels : List (List (String × String)) → Bool
  | [] => false
  | x :: r => r.contains x || hasDupLabels r

def keysUnique (m : VMatch) (v : List XElem) : Bool := !hasDupLabels (v.map (fun e => m.key e.1))

/-- default matching between two operand vectors (the `bin!` queries) -/
def evalBin (op : BinOp) (retBool : Bool) (l r : List Elem) : List XElem :=
  evalVV .default op retBool (l.map liftElem) (r.map liftElem)

/-! #### expressions: scalar operands, unary minus, nesting -/

inductive Expr where
  | vec (o : Operand)
  | num (q : Rat)
  | neg (e : Expr)
  | bin (op : BinOp) (retBool : Bool) (m : VMatch) (l r : Expr)
deriving Repr

inductive XVal where
  | scalar (q : Rat)
  | vector (es : List XElem)
deriving Repr

def negPt : BinPt → BinPt
  | .val v => if v == 0 then .open else .val (-v)
  | .inf n => .inf (!n)
  | p => p

/-- scalar ∘ scalar: only + - * and / by a non-zero number are defined here -/
def scalarOp (op : BinOp) (x y : Rat) : Option Rat :=
  match op with
  | .add => some (x + y)
  | .sub => some (x - y)
  | .mul => some (x * y)
  | .div => if y == 0 then none else some (x / y)
  | _ => none

/-- vector sample ∘ scalar (`swapped`: the scalar is the LEFT operand); a comparison filter keeps the vector's sample -/
def vsPt (op : BinOp) (retBool : Bool) (swapped : Bool) (p : BinPt) (s : Rat) : Option BinPt :=
  match p with
  | .val x => if swapped then applyOpK op retBool s x x else applyOpK op retBool x s x
  | _ => some .open

def mapPts (f : BinPt → Option BinPt) (es : List XElem) : List XElem :=
  es.map (fun e => (e.1, e.2.filterMap (fun (t, p) => (f p).map (fun q => (t, q)))))

def evalOperandAt (ds : List Series) (start end_ : Nat) (o : Operand) : Option (List Elem) :=
  evalOperand ds { start := start, end_ := end_, op := .add, retBool := false, lhs := o, rhs := o } o

/-- `none` = undefined: ill-typed (set operator or vector matching with a scalar, `bool` without comparison,
    comparison between two scalars), non-finite input value, regex on the metric name, matching keys not unique -/
def evalExpr (ds : List Series) (start end_ : Nat) : Expr → Option XVal
  | .vec o => (evalOperandAt ds start end_ o).bind (fun es =>
      if hasDupLabels (es.map (·.1)) then none else some (.vector (es.map liftElem)))
  | .num q => some (.scalar q)
  | .neg e => match evalExpr ds start end_ e with
    | some (.scalar q) => some (.scalar (-q))
    | some (.vector es) => some (.vector (mapPts (fun p => some (negPt p)) es))
    | none => none
  | .bin op b m l r =>
    if b && !op.isCmp then none else
    match evalExpr ds start end_ l, evalExpr ds start end_ r with
    | some (.scalar x), some (.scalar y) =>
      if b || !m.isDefault then none else (scalarOp op x y).map XVal.scalar
    | some (.vector es), some (.scalar y) =>
      if op.isSet || !m.isDefault then none else some (.vector (mapPts (fun p => vsPt op b false p y) es))
    | some (.scalar x), some (.vector es) =>
      if op.isSet || !m.isDefault then none else some (.vector (mapPts (fun p => vsPt op b true p x) es))
    | some (.vector le), some (.vector re) =>
      if !keysUnique m le || !keysUnique m re then none else some (.vector (evalVV m op b le re))
    | _, _ => none

/-- the vector operands of an expression -/
def Expr.operands : Expr → List Operand
  | .vec o => [o]
  | .num _ => []
  | .neg e => e.operands
  | .bin _ _ _ l r => l.operands ++ r.operands

/-! #### the FORMULA route (query token `fx!`): metrics explorer time series API and metric alerts

A formula over named queries (`a * a`, `a / b`, `a + a - b`, `a * 2`) MEANS the PromQL expression in which every name
is replaced by its query: the value of `a * a` with a := sel is the value of `sel * sel` — `evalExpr`, nothing else.
In particular an expression whose two operands are the same query pairs every label set with itself.

The engine runs this route (promql.ProcessMetricsQueryRequest → ExecuteMultipleMetricsQuery) with a convention of its
own: as long as AT MOST ONE vector operand of the whole expression (counted with repetition: a query used twice counts
twice) has more than one series, the operators without on()/ignoring() do not match label sets — a vector is combined
with a single-series vector whatever the labels (`a / total`).  That convention is not part of this specification.
So a formula is JUDGED where the two readings cannot differ:
  * `formulaStrict`: at least two vector operands (with repetition) have more than one element — label matching is
    in force for the whole expression, the route must answer exactly as the PromQL route;
  * `looseAgrees`: every vector–vector operator without matching clause has operands of at most one element each,
    with equal label sets when both have one and the operator is not and/or/unless (and it is not or/unless when one
    of them is empty).
Everything else on this route is not judged (answer kind mbin-undefined, lat=formula-loose-matching). -/

def operandMulti (ds : List Series) (start end_ : Nat) (o : Operand) : Bool :=
  match evalOperandAt ds start end_ o with
  | some es => es.length > 1
  | none => false

/-- number of vector operands (with repetition) whose vector has more than one element -/
def Expr.multiOperands (ds : List Series) (start end_ : Nat) (e : Expr) : Nat :=
  (e.operands.filter (operandMulti ds start end_)).length

def formulaStrict (ds : List Series) (start end_ : Nat) (e : Expr) : Bool :=
  e.multiOperands ds start end_ ≥ 2

def looseAgrees (ds : List Series) (start end_ : Nat) : Expr → Bool
  | .vec _ => true
  | .num _ => true
  | .neg e => looseAgrees ds start end_ e
  | .bin op _ m l r =>
    looseAgrees ds start end_ l && looseAgrees ds start end_ r &&
    (match evalExpr ds start end_ l, evalExpr ds start end_ r with
     | some (.vector le), some (.vector re) =>
       !m.isDefault ||
       ((le ++ re).all (fun e => !e.2.isEmpty) &&
        (match le, re with
         | [], [] => true
         -- (the set operators are not judged here: under the label-free convention `a or b` takes over every sample
         -- of b, also at the timestamps at which the equally labelled element of a has one)
         | [x], [y] => x.1 == y.1 && !op.isSet
         | [_], [] => !(op == .or || op == .unless)
         | [], [_] => !(op == .or || op == .unless)
         | _, _ => false))
     | _, _ => true)

def formulaJudged (ds : List Series) (start end_ : Nat) (e : Expr) : Bool :=
  formulaStrict ds start end_ e || looseAgrees ds start end_ e

def sameTimestamps (x y : XElem) : Bool :=
  x.2.all (fun p => (ptAt y p.1).isSome) && y.2.all (fun p => (ptAt x p.1).isSome)

/-- input classes of the binary-operator repairs c09-18 … c09-21 (old behaviour: see known_findings.txt `fixed:` lines):
    `binop-one-sided-timestamp` two matched elements of a vector–vector node do not have the same timestamps (a missing
       right sample used to be read as 0; and / or / unless used to be decided per series);
    `binop-division-by-zero`    a division whose right operand sample is 0 (the sample used to be dropped);
    `vector-matching-label-chars` on()/ignoring() over elements one of whose label values has a character that is not a
       letter, digit, underscore or white space (the values used to be cut by a regular expression);
    `set-operator-with-on`      and / or / unless with on()/ignoring() (the matching clause used to be ignored);
    `unary-minus`               -x (used to be evaluated as x);
    `comparison-scalar-on-the-left` a comparison filter whose LEFT operand is a computed scalar, or `<number> != v` (the
       scalar used to be kept instead of the sample of the vector);
    `empty-intermediate-vector` an operand that is itself an expression and evaluates to the empty vector (the query
       used to fail) -/
def wordChar (c : Char) : Bool := c.isAlphanum || c == '_' || c == ' ' || c == '\t' || c == '\n'

def vvClasses (m : VMatch) (op : BinOp) (l r : List XElem) : List String :=
  (if l.any (fun x => match findPartner m r x with | some y => !sameTimestamps x y | none => false) then ["binop-one-sided-timestamp"] else []) ++
  (if op == .div && l.any (fun x => match findPartner m r x with
        | some y => x.2.any (fun p => match ptAt y p.1 with | some (.val v) => v == 0 | _ => false)
        | none => false) then ["binop-division-by-zero"] else []) ++
  (if !m.isDefault && (l ++ r).any (fun e => e.1.any (fun kv => !(kv.1.toList.all wordChar && kv.2.toList.all wordChar) || kv.2.isEmpty))
     then ["vector-matching-label-chars"] else []) ++
  (if !m.isDefault && op.isSet then ["set-operator-with-on"] else []) ++
  -- RECORDED (residue of the repair c09-18): a series id that does not end with "," (the ids of `by` aggregations) and whose
  -- braces balance is taken to be written with a closing brace — the form the repo's own test uses — so a label value
  -- that ENDS with "}" loses it there and the element misses its partner
  (if !m.isDefault && (l ++ r).any (fun e => e.1.any (fun kv => kv.2.endsWith "}")) then ["vector-matching-value-ends-with-brace"] else [])

def Expr.isLeaf : Expr → Bool
  | .vec _ => true
  | .num _ => true
  | _ => false

def emptyInner (ds : List Series) (start end_ : Nat) (e : Expr) : Bool :=
  !e.isLeaf && (match evalExpr ds start end_ e with
    | some (.vector es) => es.all (·.2.isEmpty)
    | _ => false)

/-- the metric names under which the engine files the elements of the value of an expression: a result element keeps the
    id of its left element, `or` adds the ids of right elements -/
def Expr.idNames : Expr → List String
  | .vec o => (o.matchers.filter (fun m => m.label == "__name__" && m.op == .eq)).map (·.value)
  | .num _ => []
  | .neg e => e.idNames
  | .bin op _ _ l r => if op == .or then l.idNames ++ r.idNames else (if l.idNames.isEmpty then r.idNames else l.idNames)

def distinctNames (l : List String) : Nat := (dedup l).length

def exprClasses (ds : List Series) (start end_ : Nat) : Expr → List String
  | .vec _ => []
  | .num _ => []
  | .neg e => "unary-minus" :: exprClasses ds start end_ e
  | .bin op b m l r =>
    exprClasses ds start end_ l ++ exprClasses ds start end_ r ++
    -- (repaired, c09-23) an operand that is itself an expression and has no element made the whole query fail
    (if emptyInner ds start end_ l || emptyInner ds start end_ r then ["empty-intermediate-vector"] else []) ++
    -- an operand vector whose ids start with DIFFERENT metric names (it comes from `or`): the engine cuts the label part out
    -- of every id at the length of ONE of these names, picked by map iteration order (class mixed-name-vector-operand)
    (match evalExpr ds start end_ l, evalExpr ds start end_ r with
     | some (.vector le), some (.vector re) => vvClasses m op le re ++
        (if distinctNames l.idNames > 1 || distinctNames r.idNames > 1 then ["mixed-name-vector-operand"] else [])
     | some (.vector _), some (.scalar y) => if op == .div && y == 0 && b == false then ["binop-division-by-zero"] else []
     -- (repaired, c09-22) a comparison filter with a COMPUTED scalar on the left, and `<number> != v`, kept the scalar instead
     -- of the sample of the vector
     | some (.scalar _), some (.vector re) =>
        (if op.isCmp && !b && (!l.isLeaf || op == .ne) then ["comparison-scalar-on-the-left"] else []) ++
        (if op == .div && re.any (fun e => e.2.any (fun p => match p.2 with | .val v => v == 0 | _ => false)) then ["binop-division-by-zero"] else [])
     | _, _ => [])

/-- the order in which the engine writes the label keys of a series into its id: the keys with a (non-name) value
    matcher first, then the others, each part sorted (structs.ReorderTagFilters: value filters before the key=* filters);
    an aggregation rebuilds the id from the sorted grouping fields -/
def Operand.idKeyOrder (o : Operand) (ls : List (String × String)) : List String :=
  let ks := (sortLabels ls).map (·.1)
  match o.agg with
  | some _ => ks
  | none =>
    let mk := (o.matchers.filter (·.label != "__name__")).map (·.label)
    ks.filter (mk.contains ·) ++ ks.filter (!mk.contains ·)

/-- class `binop-label-order`: some element's label keys are written in different orders by the two operands (the
    engine compares the id STRINGS, so such an element never finds its partner) -/
def binopLabelOrder (q : BinQuery) (l r : List Elem) : Bool :=
  (l ++ r).any (fun e => q.lhs.idKeyOrder e.1 != q.rhs.idKeyOrder e.1)

/-- an aggregation `by (…)` (or without clause) rebuilds the id WITHOUT a comma after the last label (getAggSeriesId),
    every other id ends with one -/
def Operand.idEndsWithComma (o : Operand) : Bool :=
  match o.agg with
  | some a => a.mode == .without
  | none => true

/-- class `binop-trailing-comma`: one operand writes its ids with a comma after the last label and the other one does
    not (`sum by (k) (a) / b`): an element with a non-empty label set never finds its partner -/
def binopTrailingComma (q : BinQuery) (l r : List Elem) : Bool :=
  q.lhs.idEndsWithComma != q.rhs.idEndsWithComma && (l ++ r).any (fun e => !e.1.isEmpty)

end SigModel.Spec.Metrics
