/-
SPECIFICATION of log search over a set of ingested events (what C01–C06 mean), used by the
end-to-end differential: the Oracle evaluates this spec on the same history and queries that the
real engine runs.  This is the "simplest possible spec": events are a list, a query is evaluated
directly over it — no blocks, no segments, no indexes.  Core Lean only.
-/
namespace SigModel.Spec

inductive Val where
  | int (i : Int)
  | dec (q : Rat) (text : String)     -- a non-integral decimal, with the text that was sent
  | str (s : String)
  | bool (b : Bool)
deriving Repr, BEq, Inhabited

structure Event where
  vid : Nat
  ts : Nat
  fields : List (String × Val)        -- flattened; explicit nulls are dropped (null = absent)
deriving Repr, Inhabited

def Event.get (e : Event) (k : String) : Option Val := (e.fields.find? (·.1 == k)).map (·.2)

/-! ### decimal text → Rat -/

def pow10 (n : Nat) : Nat := 10 ^ n

/-- parse `[-]digits[.digits][e[+-]digits]` -/
def parseDec (s : String) : Option Rat :=
  let (neg, body) := if s.startsWith "-" then (true, (s.drop 1).toString) else (false, s)
  let (mant, exp) : String × Int :=
    match body.splitOn "e" with
    | [m, e] =>
      let e' := if e.startsWith "+" then (e.drop 1).toString else e
      let ev : Option Int := if e'.startsWith "-" then (e'.drop 1).toString.toNat?.map (fun n => - (n : Int)) else e'.toNat?.map (fun n => (n : Int))
      (m, ev.getD 0)
    | _ => (body, 0)
  let parts := mant.splitOn "."
  let r : Option Rat :=
    match parts with
    | [a] => a.toNat?.map (fun n => (n : Rat))
    | [a, b] =>
      match (if a.isEmpty then some 0 else a.toNat?), (if b.isEmpty then some 0 else b.toNat?) with
      | some x, some y => some ((x : Rat) + (y : Rat) / ((pow10 b.length : Nat) : Rat))
      | _, _ => none
    | _ => none
  r.map (fun (q : Rat) =>
    let q1 : Rat := if exp ≥ 0 then q * ((pow10 exp.toNat : Nat) : Rat) else q / ((pow10 (-exp).toNat : Nat) : Rat)
    if neg then -q1 else q1)

/-- numeric value of a stored value, if it is a number -/
def Val.num? : Val → Option Rat
  | .int i => some (i : Rat)
  | .dec q _ => some q
  | _ => none

/-- leading decimal digits of a character list, and the rest -/
def takeDigits : List Char → List Char × List Char
  | [] => ([], [])
  | c :: r => if c.isDigit then let (d, rest) := takeDigits r; (c :: d, rest) else ([], c :: r)

def digitsVal (ds : List Char) : Nat := ds.foldl (fun a c => 10 * a + (c.toNat - '0'.toNat)) 0

/-- is the text a number the engine reads as one (numeric strings), and which: the grammar of the engine's
`utils.FastParseFloat`, `[+-]digits[.digits][(e|E)[+-]digits]` with at least one mantissa digit — the one rule that the
column statistics, the type consolidation of a block column and the search comparisons share -/
def numericText? (s : String) : Option Rat :=
  let cs := s.toList
  let (neg, cs) : Bool × List Char := match cs with | '-' :: r => (true, r) | '+' :: r => (false, r) | _ => (false, cs)
  let (ip, cs) := takeDigits cs
  let (fp, cs) : List Char × List Char := match cs with | '.' :: r => takeDigits r | _ => ([], cs)
  if ip.isEmpty && fp.isEmpty then none else
  let mant : Rat := (digitsVal ip : Rat) + (digitsVal fp : Rat) / ((pow10 fp.length : Nat) : Rat)
  let fin (q : Rat) : Option Rat := some (if neg then -q else q)
  match cs with
  | [] => fin mant
  | e :: r =>
    if e == 'e' || e == 'E' then
      let (eneg, r) : Bool × List Char := match r with | '-' :: r' => (true, r') | '+' :: r' => (false, r') | _ => (false, r)
      let (ed, rest) := takeDigits r
      if ed.isEmpty || !rest.isEmpty then none
      else fin (if eneg then mant / ((pow10 (digitsVal ed) : Nat) : Rat) else mant * ((pow10 (digitsVal ed) : Nat) : Rat))
    else none

/-- the number a stored value denotes for comparisons and aggregates: a number, or text that reads as one -/
def Val.numberOrNumericText? : Val → Option Rat
  | .int i => some (i : Rat)
  | .dec q _ => some q
  | .str s => numericText? s
  | .bool _ => none

/-! ### filters -/

inductive Op where | eq | ne | lt | le | gt | ge
deriving Repr, BEq, DecidableEq

inductive Lit where
  | int (i : Int)
  | dec (q : Rat) (text : String)
  | str (s : String)           -- may contain `*` wildcards
deriving Repr, BEq

inductive Filter where
  | all
  | cmp (f : String) (op : Op) (l : Lit)
  | term (w : String)          -- free text: some field holds `w` as a whole space-delimited token (`*` wildcards allowed)
  | phrase (cs : Bool) (p : String)   -- free text, one or several words: some field holds the phrase between token boundaries;
                                      -- `cs` = exact case (SPL `CASE(…)`), else case-insensitive (`"…"`)
  | and (a b : Filter)
  | or (a b : Filter)
  | not (a : Filter)
deriving Repr

/-- three-valued: the statement decides yes/no; `either` where the statement leaves it to the engine -/
inductive Tri where | yes | no | either
deriving Repr, BEq, DecidableEq

def Tri.and : Tri → Tri → Tri
  | .no, _ => .no | _, .no => .no | .yes, .yes => .yes | _, _ => .either
def Tri.or : Tri → Tri → Tri
  | .yes, _ => .yes | _, .yes => .yes | .no, .no => .no | _, _ => .either
def Tri.not : Tri → Tri
  | .yes => .no | .no => .yes | .either => .either
def Tri.ofBool (b : Bool) : Tri := if b then .yes else .no

def cmpRat (op : Op) (a b : Rat) : Bool :=
  match op with
  | .eq => a == b | .ne => a != b | .lt => a < b | .le => a ≤ b | .gt => a > b | .ge => a ≥ b

def lower (s : String) : String := s.map Char.toLower

/-- glob match with `*`, case-insensitive -/
partial def globChars : List Char → List Char → Bool
  | [], [] => true
  | '*' :: p, s => globChars p s || (match s with | [] => false | _ :: s' => globChars ('*' :: p) s')
  | c :: p, d :: s => c == d && globChars p s
  | _, _ => false
def glob (pat s : String) : Bool := globChars (lower pat).toList (lower s).toList

/-- classes of comparisons on which the engine is known/suspected to deviate; reported with a mismatch -/
abbrev Classes := List String

/-- the number a literal denotes: a numeric literal, or a QUOTED literal without wildcard that reads as a number (the
statement: "numeric comparison by value independent of how the number or literal was written"; engine: repair c02-6, and
the where stage has always read a quoted number that way) -/
def Lit.num? : Lit → Option Rat
  | .int i => some (i : Rat)
  | .dec q _ => some q
  | .str p => if p.contains '*' then none else numericText? p

def evalCmp (v : Option Val) (op : Op) (l : Lit) : Tri × Classes :=
  match l.num? with
  | some lq =>
    match v with
    | none => (if op == .ne then .either else .no, [])
    | some (.int i) => (Tri.ofBool (cmpRat op (i : Rat) lq), [])
    | some (.dec q _) => (Tri.ofBool (cmpRat op q lq), [])
    | some (.str s) =>
      match numericText? s with
      | some q => (Tri.ofBool (cmpRat op q lq), [])   -- numeric text is compared by value (engine: repair c02-4)
      | none => (if op == .ne then .either else .no, [])
    | some (.bool _) => (if op == .ne then .either else .no, [])
  | none =>
    let p : String := match l with | .str p => p | _ => ""
    match v with
    | none => (if op == .ne then .either else .no, [])
    | some (.str s) =>
      -- a wildcard against a value that holds a LINE FEED: the engine turns the pattern into a regular expression whose
      -- `.` does not cross a line break; whether `*` does is not stated — left to the engine
      if p.contains '*' && s.contains '\n' && glob p s && (op == .eq || op == .ne) then (.either, []) else
      match op with
      | .eq => (Tri.ofBool (glob p s), [])
      | .ne => (Tri.ofBool (!glob p s), [])
      | _ => (.either, ["string-order-comparison"])
    | some (.bool b) =>
      -- a boolean next to text in its block is stored as the text "true" / "false" (C01 latitude): a pattern that
      -- matches that text is left to the engine; any other string is not equal to the boolean
      if glob p (if b then "true" else "false") then (.either, ["non-string-value-string-literal"])
      else (match op with | .eq => (.no, []) | .ne => (.yes, []) | _ => (.either, ["string-order-comparison"]))
    | some _ =>
      -- a number against text that is not a number: with a wildcard the engine matches the pattern against ITS
      -- rendering of the number (left to the engine); without, the string is not equal to any number, whatever the
      -- number is stored as (engine: repair c02-5 — before it `!=` did not hold either)
      if p.contains '*' then (.either, ["non-string-value-string-literal"])
      else (match op with | .eq => (.no, []) | .ne => (.yes, []) | _ => (.either, ["string-order-comparison"]))

/-- text of a value as free-text search sees it -/
def Val.text : Val → String
  | .int i => toString i
  | .dec _ t => t
  | .str s => s
  | .bool b => if b then "true" else "false"

/-- `p` occurs in `v` between token boundaries: it starts at the beginning of `v` or after a space and ends at the end of
`v` or before a space — i.e. `" " ++ p ++ " "` is a substring of `" " ++ v ++ " "` (for one word: `p` is one of the
space-delimited tokens of `v`) -/
def infixL (p : List Char) : List Char → Bool
  | [] => p.isEmpty
  | c :: r => p.isPrefixOf (c :: r) || infixL p r
def boundedIn (p v : String) : Bool := infixL ((" " ++ p ++ " ").toList) ((" " ++ v ++ " ").toList)

def phraseMatches (cs : Bool) (p : String) (e : Event) : Bool :=
  e.fields.any (fun (_, v) => if cs then boundedIn p v.text else boundedIn (lower p) (lower v.text))

def termMatches (w : String) (e : Event) : Bool :=
  e.fields.any (fun (_, v) => let t := v.text; glob w t || (t.splitOn " ").any (fun tok => glob w tok))

/-- `neg` = the comparison sits under an odd number of NOTs.  The statement fixes NOT as complement
for events that HAVE the compared field; for an event lacking the field the engine evaluates the
negated operator on "absent" (only `!=` holds), Splunk would include the event: left to the engine. -/
def evalFilterAux (e : Event) (neg : Bool) : Filter → Tri × Classes
  | .all => (.yes, [])
  | .term w =>
    match (if w.contains '*' then none else numericText? w) with
    | some q =>
      -- a free-text term that is a NUMBER: the engine reads it as "some field equals this number" (spl.peg
      -- UnnamedFieldWithNumberValue: comparison `* = n`), by value, over every column but the timestamp — the harness
      -- column _vid included.  A value that merely CONTAINS the digits as a word ("has 7 inside") matches the
      -- text reading of a term and not the engine's: left to the engine.  Under a NOT the complement is meant (repaired,
      -- patch c02-7: the engine evaluated `* != n` as "some column differs from n", i.e. every event; the class label
      -- negated-numeric-term is no longer emitted, a recurrence is reported without a class)
      let byValue := (q == (e.vid : Rat)) || e.fields.any (fun (_, v) => match v with
        | .int i => (i : Rat) == q | .dec d _ => d == q | .str s => numericText? s == some q | .bool _ => false)
      let t := if byValue then Tri.yes else if termMatches w e then Tri.either else Tri.no
      (t, [])
    | none =>
    -- a wildcard term that matches only an inner token of a value (`ba*` vs "foo bar"): the statement does
    -- not say whether wildcards are anchored at the token or at the value; left to the engine
    let whole := e.fields.any (fun (_, v) => glob w v.text)
    -- … and a wildcard term that matches only through a value holding a LINE FEED (`re*` vs "reached\ntimeout"): the
    -- engine's regular expression does not let `*` cross a line break; left to the engine.  (Words themselves are delimited
    -- by the BLANK only — a tab, a line feed or a carriage return is part of the word, for the record-level matcher and
    -- the block bloom alike: `termMatches` splits at " ".)
    let noLf : Event := { e with fields := e.fields.filter (fun (_, v) => !v.text.contains '\n') }
    -- (so a wildcard term is decided only when it matches a WHOLE value that holds no line feed)
    let wholeNoLf := noLf.fields.any (fun (_, v) => glob w v.text)
    let t := if termMatches w e then
        (if w.contains '*' && !(whole && wholeNoLf) then Tri.either else Tri.yes) else Tri.no
    (t, [])
  | .phrase cs p =>
    -- (wildcards inside CASE(…) / a phrase are matched by the engine against whole values: not generated, left open)
    (if p.contains '*' then Tri.either else Tri.ofBool (phraseMatches cs p e), [])
  | .cmp f op l =>
    match e.get f with
    | none => if neg then (.either, []) else evalCmp none op l
    | some v =>
      -- the same for a value that cannot be compared with a number (text, boolean): the engine answers "no" to `x>=10`
      -- and, pushing the NOT into the operator, also to `NOT x>=10` (= `x<10`); the statement does not decide
      if neg && l.num?.isSome && v.numberOrNumericText?.isNone then (.either, (evalCmp (some v) op l).2) else evalCmp (some v) op l
  | .and a b => let (x, c1) := evalFilterAux e neg a; let (y, c2) := evalFilterAux e neg b; (x.and y, c1 ++ c2)
  | .or a b => let (x, c1) := evalFilterAux e neg a; let (y, c2) := evalFilterAux e neg b; (x.or y, c1 ++ c2)
  | .not a => let (x, c) := evalFilterAux e (!neg) a; (x.not, c)

def evalFilter (e : Event) (f : Filter) : Tri × Classes := evalFilterAux e false f

/-- the fields a filter mentions -/
def Filter.fields : Filter → List String
  | .all => []
  | .term _ => []
  | .phrase _ _ => []
  | .cmp f _ _ => [f]
  | .and a b => a.fields ++ b.fields
  | .or a b => a.fields ++ b.fields
  | .not a => a.fields

end SigModel.Spec

namespace SigModel.Spec

/-! ### result order, limits, paging (C05) -/

/-- insertion sort by a `le` relation (stable) -/
def insertBy {α} (le : α → α → Bool) (x : α) : List α → List α
  | [] => [x]
  | y :: ys => if le x y then x :: y :: ys else y :: insertBy le x ys
def sortBy {α} (le : α → α → Bool) (xs : List α) : List α := xs.foldr (insertBy le) []

/-- newest first; ties in canonical (vid) order -/
def newestFirst (evs : List Event) : List Event :=
  sortBy (fun a b => a.ts > b.ts || (a.ts == b.ts && a.vid ≤ b.vid)) evs

def inRange (start end_ : Nat) (e : Event) : Bool := start ≤ e.ts && e.ts ≤ end_

/-! ### aggregation (C04) -/

inductive Agg where
  | count
  | sum (f : String) | min (f : String) | max (f : String) | avg (f : String)
  | dc (f : String)
  | cnt (f : String)     -- count(f): the matched events that HAVE the field
deriving Repr, BEq

/-- numeric reading of a value for aggregation: numbers, and numeric strings -/
def Val.aggNum? : Val → Option Rat
  | .int i => some (i : Rat)
  | .dec q _ => some q
  | .str s => numericText? s
  | .bool _ => none

def ratMin (a b : Rat) : Rat := if a ≤ b then a else b
def ratMax (a b : Rat) : Rat := if a ≤ b then b else a

/-- canonical text of a value when used as a group key -/
def Val.keyText : Val → String
  | .int i => toString i
  | .dec _ t => t
  | .str s => s
  | .bool b => if b then "true" else "false"

inductive AggVal where
  | num (q : Rat)
  | none            -- no numeric input
deriving Repr, BEq

def evalAgg (evs : List Event) : Agg → AggVal
  | .count => .num (evs.length : Nat)
  | .sum f => let xs := evs.filterMap (fun e => (e.get f).bind Val.aggNum?); if xs.isEmpty then .none else .num (xs.foldl (· + ·) 0)
  | .min f => match evs.filterMap (fun e => (e.get f).bind Val.aggNum?) with | [] => .none | x :: xs => .num (xs.foldl ratMin x)
  | .max f => match evs.filterMap (fun e => (e.get f).bind Val.aggNum?) with | [] => .none | x :: xs => .num (xs.foldl ratMax x)
  | .avg f => let xs := evs.filterMap (fun e => (e.get f).bind Val.aggNum?); if xs.isEmpty then .none else .num (xs.foldl (· + ·) 0 / (xs.length : Nat))
  | .dc f => .num ((evs.filterMap (fun e => (e.get f).map Val.keyText)).eraseDups.length : Nat)
  | .cnt f => .num ((evs.filter (fun e => (e.get f).isSome)).length : Nat)

/-- group-by: events lacking any by-field are not grouped (Splunk semantics); each occurring key once -/
def groupBy (evs : List Event) (bys : List String) : List (List String × List Event) :=
  let keyed := evs.filterMap (fun e => (bys.mapM (fun b => (e.get b).map Val.keyText)).map (fun k => (k, e)))
  let keys := (keyed.map (·.1)).eraseDups
  keys.map (fun k => (k, (keyed.filter (·.1 == k)).map (·.2)))

/-! ### timechart (C04): `timechart span=<span> <aggs> [by f]` as the first stage, over the query range [start, end]

The range is closed at both ends (the search stage matches `start ≤ ts ≤ end`).  Cells lie on the grid
`start + k·span`; every matched event is counted in exactly the one cell whose span contains its timestamp. -/

/-- the grid cell `[b, b + span)` that contains `ts` (for `start ≤ ts`, `0 < span`) -/
def bucketOf (start span ts : Nat) : Nat := start + (ts - start) / span * span

/-- closed range: a timestamp exactly ON the end bound of the range belongs to the LAST cell of the grid, the one that holds
`end − 1` (timestamps are whole milliseconds).  When the end bound lies on the grid that is `[end − span, end]` — the end
point does not open a cell of its own; otherwise it is the grid cell that contains the end bound anyway.  (The other
reading of an end bound on the grid — it opens the cell `[end, end + span)` — is `bucketOf` itself; the differential accepts
both, see Oracle/E2E.lean.) -/
def tcBucket (start end_ span ts : Nat) : Nat :=
  if ts == end_ && start < end_ then bucketOf start span (end_ - 1) else bucketOf start span ts

/-- cells of a timechart: (cell start, series) ↦ the matched events counted there.  Series: `some key` = the key text of
the by-field's value (`some ""` when there is no by-field), `none` = the NULL series of the events lacking the by-field. -/
def timechart (bucket : Nat → Nat) (evs : List Event) (by_ : Option String) : List ((Nat × Option String) × List Event) :=
  let keyed := evs.map (fun e => ((bucket e.ts, match by_ with | none => some "" | some b => (e.get b).map Val.keyText), e))
  let keys := (keyed.map (·.1)).eraseDups
  keys.map (fun k => (k, (keyed.filter (·.1 == k)).map (·.2)))

end SigModel.Spec
