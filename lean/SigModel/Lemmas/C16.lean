/-
Helper lemmas for C16 (time-unit logic): decimal renderings (`Nat.toDigits 10`, i.e. `toString`)
through the modelled Go parsers (jsonparser.parseInt's wrap-checking loop, strconv.ParseUint /
ParseInt, strconv.ParseFloat's syntax), and the binary64 rounding argument for `<s>.<fff>`.
Core Lean only.
-/
import SigModel.Model.TimeUnit

namespace SigModel.Lemmas.C16
open SigModel SigModel.TimeUnit SigModel.MachInt

/-- decimal rendering of a natural number -/
def dec (n : Nat) : List Char := Nat.toDigits 10 n

/-- `dec n` is exactly the characters of `toString n` -/
theorem dec_eq_toString (n : Nat) : dec n = (toString n).toList := by
  simp [dec]

theorem isDig_digitChar {d : Nat} (h : d < 10) : isDig (Nat.digitChar d) = true := by
  match d, h with
  | 0, _ | 1, _ | 2, _ | 3, _ | 4, _ | 5, _ | 6, _ | 7, _ | 8, _ | 9, _ => decide
theorem digVal_digitChar {d : Nat} (h : d < 10) : digVal (Nat.digitChar d) = (d : Int) := by
  match d, h with
  | 0, _ | 1, _ | 2, _ | 3, _ | 4, _ | 5, _ | 6, _ | 7, _ | 8, _ | 9, _ => decide
theorem dec_lt (n : Nat) (h : n < 10) : dec n = [Nat.digitChar n] := Nat.toDigits_of_lt_base h
theorem dec_ge (n : Nat) (h : 10 ≤ n) : dec n = dec (n / 10) ++ [Nat.digitChar (n % 10)] :=
  Nat.toDigits_of_base_le (by decide) h

theorem isDig_of_mem_dec {n : Nat} {c : Char} (h : c ∈ dec n) : isDig c = true :=
  Nat.isDigit_of_mem_toDigits (by decide) (by decide) h

theorem dec_ne_nil (n : Nat) : dec n ≠ [] := Nat.toDigits_ne_nil

theorem allDigits_dec (n : Nat) : allDigits (dec n) = true := by
  simp only [allDigits, List.all_eq_true]
  intro c hc; exact isDig_of_mem_dec hc

theorem ofDigitChars_dec (n : Nat) : Nat.ofDigitChars 10 (dec n) 0 = n := Nat.ofDigitChars_ten_toDigits

/-- the head of a rendering is a digit -/
theorem dec_head (n : Nat) : ∃ c r, dec n = c :: r ∧ isDig c = true := by
  cases h : dec n with
  | nil => exact absurd h (dec_ne_nil n)
  | cons c r => exact ⟨c, r, rfl, isDig_of_mem_dec (by rw [h]; exact List.mem_cons_self)⟩

theorem piStep_digit (v : Int) (d : Nat) (hd : d < 10) (hv : 0 ≤ v) (hb : 10 * v + d < 9223372036854775808) :
    piStep (.run v) (Nat.digitChar d) = .run (10 * v + d) := by
  have e : wrapS64 (10 * v + (d : Int)) = 10 * v + d := by unfold wrapS64; omega
  have nl : ¬ (10 * v + (d : Int) < v) := by omega
  simp only [piStep, isDig_digitChar hd, digVal_digitChar hd, if_true, e, nl, if_false]

theorem foldl_piStep_dec (n : Nat) (h : n < 9223372036854775808) :
    (dec n).foldl piStep (.run 0) = .run (n : Int) := by
  induction n using Nat.strongRecOn with
  | _ n ih =>
    by_cases hn : n < 10
    · rw [dec_lt n hn, List.foldl_cons, List.foldl_nil, piStep_digit 0 n hn (by omega) (by omega)]
      congr 1; omega
    · have hn' : 10 ≤ n := by omega
      have hd : n % 10 < 10 := Nat.mod_lt _ (by decide)
      rw [dec_ge n hn', List.foldl_append, ih (n / 10) (by omega) (by omega), List.foldl_cons, List.foldl_nil,
        piStep_digit _ _ hd (by omega) (by omega)]
      congr 1; omega

theorem ne_minus_of_isDig {c : Char} (h : isDig c = true) : (c == '-') = false := by
  cases hc : (c == '-') with
  | false => rfl
  | true =>
    have : c = '-' := by simpa using hc
    subst this
    exact absurd h (by decide)

theorem ne_plus_of_isDig {c : Char} (h : isDig c = true) : (c == '+') = false := by
  cases hc : (c == '+') with
  | false => rfl
  | true =>
    have : c = '+' := by simpa using hc
    subst this
    exact absurd h (by decide)

theorem jpParseInt_dec (n : Nat) (h : n < 9223372036854775808) : jpParseInt (dec n) = some (n : Int) := by
  obtain ⟨c, r, hcr, hc⟩ := dec_head n
  have hf := foldl_piStep_dec n h
  unfold jpParseInt
  rw [hcr] at hf ⊢
  simp only [List.isEmpty_cons, List.head?_cons, Bool.false_eq_true, if_false]
  have : (some c == some '-') = false := by
    simpa using ne_minus_of_isDig hc
  simp only [this, Bool.false_eq_true, if_false, hf]

theorem stripSign_dec (n : Nat) : stripSign (dec n) = (false, dec n) := by
  obtain ⟨c, r, hcr, hc⟩ := dec_head n
  unfold stripSign
  rw [hcr]
  have h1 : (some c == some '-') = false := by simpa using ne_minus_of_isDig hc
  have h2 : (some c == some '+') = false := by simpa using ne_plus_of_isDig hc
  simp only [List.head?_cons, h1, h2, Bool.false_eq_true, if_false]

theorem takeDigits_append (l r : List Char) (hl : ∀ c ∈ l, isDig c = true) (hr : takeDigits r = ([], r)) :
    takeDigits (l ++ r) = (l, r) := by
  induction l with
  | nil => simpa using hr
  | cons c l ih =>
    have hc := hl c List.mem_cons_self
    have := ih (fun c h => hl c (List.mem_cons_of_mem _ h))
    simp only [List.cons_append, takeDigits, hc, if_true, this]

theorem takeDigits_nondigit (c : Char) (r : List Char) (h : isDig c = false) : takeDigits (c :: r) = ([], c :: r) := by
  simp [takeDigits, h]

/-- the exponent of the last mantissa bit is ≤ −10 for numerators below 2^44 over a denominator ≥ 2 -/
theorem ulpExp_le (num den : Nat) (hn : num ≠ 0) (hn2 : num < 2 ^ 44) (hd : 2 ≤ den) :
    ulpExp num den ≤ -10 := by
  have h1 : Nat.log2 num < 44 := (Nat.log2_lt hn).2 hn2
  have h2 : 1 ≤ Nat.log2 den := (Nat.le_log2 (by omega)).2 (by simpa using hd)
  unfold ulpExp
  simp only []
  split <;> split <;> omega

/-- arithmetic core: with more than 1000 units per integer step, ⌊(1000 s + f)·P / 1000⌋ and its
successor both lie in [s·P, (s+1)·P) -/
theorem frac_div (s f P : Nat) (hf : f < 1000) (hP : 1000 < P) :
    let q0 := (1000 * s + f) * P / 1000
    (q0 / P = s) ∧ ((q0 + 1) / P = s) := by
  intro q0
  have hq : q0 = (1000 * s + f) * P / 1000 := rfl
  have e1 : (1000 * s + f) * P = 1000 * (s * P) + f * P := by
    rw [Nat.add_mul, Nat.mul_assoc]
  have hfP : f * P ≤ 999 * P := Nat.mul_le_mul_right P (by omega)
  have lo : s * P ≤ q0 := by
    rw [hq, e1]; omega
  have hi : q0 + 1 < (s + 1) * P := by
    have : (s + 1) * P = s * P + P := by rw [Nat.add_mul, Nat.one_mul]
    rw [this, hq, e1]; omega
  have hPpos : 0 < P := by omega
  constructor
  · apply Nat.div_eq_of_lt_le
    · rw [Nat.mul_comm] at lo; simpa [Nat.mul_comm] using lo
    · have : q0 < (s + 1) * P := by omega
      simpa [Nat.mul_comm] using this
  · apply Nat.div_eq_of_lt_le
    · have : s * P ≤ q0 + 1 := by omega
      simpa [Nat.mul_comm] using this
    · simpa [Nat.mul_comm] using hi

theorem truncMag_round_frac (s f : Nat) (hs : 1 ≤ s) (hs2 : s < 10000000000) (hf : f < 1000) :
    F64.truncMag ⟨false, (roundPos (1000 * s + f) 1000).1, (roundPos (1000 * s + f) 1000).2⟩ = s := by
  have hx : ulpExp (1000 * s + f) 1000 ≤ -10 :=
    ulpExp_le _ _ (by omega) (by
      have : (2:Nat) ^ 44 = 17592186044416 := by decide
      omega) (by omega)
  generalize hxe : ulpExp (1000 * s + f) 1000 = x at hx
  have hneg : ¬ (x ≥ 0) := by omega
  have hP : 1000 < 2 ^ (-x).toNat := by
    have h10 : 10 ≤ (-x).toNat := by omega
    have : 2 ^ 10 ≤ 2 ^ (-x).toNat := Nat.pow_le_pow_right (by decide) h10
    have e : (2:Nat) ^ 10 = 1024 := by decide
    omega
  simp only [roundPos, hxe, F64.truncMag, roundAt, hneg, if_false]
  generalize 2 ^ (-x).toNat = P at hP
  have key := frac_div s f P hf hP
  simp only [] at key
  split
  · exact key.2
  · exact key.1

theorem stripSign_digit_head (c : Char) (r : List Char) (hc : isDig c = true) : stripSign (c :: r) = (false, c :: r) := by
  unfold stripSign
  have h1 : (some c == some '-') = false := by simpa using ne_minus_of_isDig hc
  have h2 : (some c == some '+') = false := by simpa using ne_plus_of_isDig hc
  simp only [List.head?_cons, h1, h2, Bool.false_eq_true, if_false]

/-- three fraction digits of a millisecond count f < 1000 -/
def frac3 (f : Nat) : List Char := [Nat.digitChar (f / 100), Nat.digitChar (f / 10 % 10), Nat.digitChar (f % 10)]

/-- the JSON number token `<s>.<fff>` -/
def fracText (s f : Nat) : List Char := dec s ++ '.' :: frac3 f

theorem frac3_digits (f : Nat) (hf : f < 1000) : ∀ c ∈ frac3 f, isDig c = true := by
  intro c hc
  simp only [frac3, List.mem_cons, List.mem_nil_iff, or_false] at hc
  rcases hc with h | h | h <;> subst h <;> apply isDig_digitChar <;> omega

theorem ofDigitChars_frac3 (f : Nat) (hf : f < 1000) (init : Nat) :
    Nat.ofDigitChars 10 (frac3 f) init = 1000 * init + f := by
  have a : f / 100 < 10 := by omega
  have b : f / 10 % 10 < 10 := by omega
  have c : f % 10 < 10 := by omega
  simp only [frac3, Nat.ofDigitChars_cons_digitChar_of_lt_ten a, Nat.ofDigitChars_cons_digitChar_of_lt_ten b,
    Nat.ofDigitChars_cons_digitChar_of_lt_ten c, Nat.ofDigitChars_nil]
  omega

theorem parseDec_fracText (s f : Nat) (hf : f < 1000) :
    parseDec (fracText s f) = some (false, 1000 * s + f, 3, 0) := by
  obtain ⟨c, r, hcr, hc⟩ := dec_head s
  have hss : stripSign (fracText s f) = (false, fracText s f) := by
    unfold fracText; rw [hcr]; exact stripSign_digit_head c _ hc
  have htd : takeDigits (fracText s f) = (dec s, '.' :: frac3 f) :=
    takeDigits_append _ _ (fun c h => isDig_of_mem_dec h) (takeDigits_nondigit '.' _ (by decide))
  have htf : takeDigits (frac3 f) = (frac3 f, []) := by
    have := takeDigits_append (frac3 f) [] (frac3_digits f hf) rfl
    simpa using this
  have hm : Nat.ofDigitChars 10 (dec s ++ frac3 f) 0 = 1000 * s + f := by
    rw [Nat.ofDigitChars_append, ofDigitChars_dec, ofDigitChars_frac3 f hf]
  have hne : (dec s ++ frac3 f).isEmpty = false := by
    rw [hcr]; rfl
  unfold parseDec
  simp only [hss, htd, List.head?_cons, List.tail_cons, beq_self_eq_true, if_true, htf, hne, hm,
    Bool.false_eq_true, if_false]
  simp [frac3]

theorem isMilli_iff (v : Int) : Gen.IsTimeInMilli v = true ↔ 99999999999 ≤ v := by
  simp [Gen.IsTimeInMilli]

theorem isNano_iff (v : Int) : Gen.IsTimeInNano v = true ↔ 1000000000000000000 ≤ v := by
  simp [Gen.IsTimeInNano]

theorem jpParseFloat_fracText (s f : Nat) (hs : 1 ≤ s) (hs2 : s < 10000000000) (hf : f < 1000) :
    ∃ q x, jpParseFloat (fracText s f) = some ⟨false, q, x⟩ ∧ F64.truncMag ⟨false, q, x⟩ = s := by
  refine ⟨(roundPos (1000 * s + f) 1000).1, (roundPos (1000 * s + f) 1000).2, ?_, truncMag_round_frac s f hs hs2 hf⟩
  have hm0 : ¬ (1000 * s + f = 0) := by omega
  have hlen1 : 0 < (Nat.toDigits 10 (1000 * s + f)).length := Nat.length_toDigits_pos
  have hlen2 : (Nat.toDigits 10 (1000 * s + f)).length ≤ 13 :=
    (Nat.length_toDigits_le_iff (by decide) (by decide)).2 (by
      have : (10:Nat) ^ 13 = 10000000000000 := by decide
      omega)
  have hx : ulpExp (1000 * s + f) 1000 ≤ -10 :=
    ulpExp_le _ _ (by omega) (by
      have : (2:Nat) ^ 44 = 17592186044416 := by decide
      omega) (by omega)
  have hov : overflows (roundPos (1000 * s + f) 1000).1 (roundPos (1000 * s + f) 1000).2 = false := by
    have : ¬ ((roundPos (1000 * s + f) 1000).2 ≥ 0) := by simp only [roundPos]; omega
    simp only [overflows, this, if_false]
  unfold jpParseFloat
  rw [parseDec_fracText s f hf]
  simp only [hm0, if_false]
  have e1 : ¬ (((Nat.toDigits 10 (1000 * s + f)).length : Int) + ((0:Int) - ((3:Nat):Int)) > 310) := by omega
  have e2 : ¬ (((Nat.toDigits 10 (1000 * s + f)).length : Int) + ((0:Int) - ((3:Nat):Int)) < -330) := by omega
  have e3 : ¬ ((0:Int) - ((3:Nat):Int) ≥ 0) := by omega
  have e4 : (10:Nat) ^ (-((0:Int) - ((3:Nat):Int))).toNat = 1000 := by decide
  simp only [e1, e2, e3, e4, if_false, hov, Bool.false_eq_true]

theorem foldl_piStep_bad (l : List Char) : l.foldl piStep .bad = .bad := by
  induction l with
  | nil => rfl
  | cons c l ih => simpa [List.foldl_cons, piStep] using ih

theorem jpParseInt_fracText (s f : Nat) (hs : s < 9223372036854775808) : jpParseInt (fracText s f) = none := by
  obtain ⟨c, r, hcr, hc⟩ := dec_head s
  have hfold : (fracText s f).foldl piStep (.run 0) = .bad := by
    unfold fracText
    rw [List.foldl_append, foldl_piStep_dec s hs, List.foldl_cons]
    have : piStep (.run (s : Int)) '.' = .bad := by
      simp only [piStep]
      have : isDig '.' = false := by decide
      simp only [this, Bool.false_eq_true, if_false]
    rw [this, foldl_piStep_bad]
  have hh : (fracText s f).head? = some c := by unfold fracText; rw [hcr]; rfl
  have hne : (fracText s f).isEmpty = false := by unfold fracText; rw [hcr]; rfl
  have hm : (some c == some '-') = false := by simpa using ne_minus_of_isDig hc
  unfold jpParseInt
  simp only [hne, Bool.false_eq_true, if_false, hh, hm, hfold]

theorem extractNum_fracText (s f : Nat) (hs : 100000000 ≤ s) (hs2 : s < 10000000000) (hf : f < 1000) :
    extractNum (fracText s f) = (s : Int) * 1000 := by
  obtain ⟨q, x, hpf, htm⟩ := jpParseFloat_fracText s f (by omega) hs2 hf
  have hpi : jpParseInt (fracText s f) = none := jpParseInt_fracText s f (by omega)
  unfold extractNum
  simp only [hpi, hpf]
  have hu : f64ToU64 ⟨false, q, x⟩ = (s : Int) := by
    simp only [f64ToU64, htm, Bool.false_eq_true, if_false]
    have : ((s : Nat) : Int) < 18446744073709551616 := by omega
    simp only [this, if_true]
  have hmil : Gen.IsTimeInMilli (s : Int) = false := by
    cases h : Gen.IsTimeInMilli (s : Int) with
    | false => rfl
    | true => have := (isMilli_iff _).1 h; omega
  simp only [hu, hmil, Bool.not_false, if_true]
  unfold wrapU64; omega

theorem goParseUint_dec (n : Nat) (h : n < 18446744073709551616) : goParseUint (dec n) = some (n : Int) := by
  obtain ⟨c, r, hcr, _⟩ := dec_head n
  have hne : (dec n).isEmpty = false := by rw [hcr]; rfl
  unfold goParseUint
  simp only [hne, allDigits_dec, Bool.not_true, Bool.or_self, Bool.false_eq_true, if_false, ofDigitChars_dec, h, if_true]

theorem goParseInt_dec (n : Nat) (h : n < 9223372036854775808) : goParseInt (dec n) = some (n : Int) := by
  obtain ⟨c, r, hcr, hc⟩ := dec_head n
  have hne : (dec n).isEmpty = false := by rw [hcr]; rfl
  have hss : stripSign (dec n) = (false, dec n) := by rw [hcr]; exact stripSign_digit_head c r hc
  unfold goParseInt
  simp only [hss, hne, allDigits_dec, Bool.not_true, Bool.or_self, Bool.false_eq_true, if_false, ofDigitChars_dec, h, if_true]

theorem isMilli_false {v : Int} (h : v < 99999999999) : Gen.IsTimeInMilli v = false := by
  cases e : Gen.IsTimeInMilli v with
  | false => rfl
  | true => have := (isMilli_iff _).1 e; omega

theorem isMilli_true {v : Int} (h : 99999999999 ≤ v) : Gen.IsTimeInMilli v = true := (isMilli_iff _).2 h

theorem isNano_false {v : Int} (h : v < 1000000000000000000) : Gen.IsTimeInNano v = false := by
  cases e : Gen.IsTimeInNano v with
  | false => rfl
  | true => have := (isNano_iff _).1 e; omega

theorem isNano_true {v : Int} (h : 1000000000000000000 ≤ v) : Gen.IsTimeInNano v = true := (isNano_iff _).2 h

/-- the jp.Number branch on an integer rendering below 2^63 -/
theorem extractNum_dec (n : Nat) (h : n < 9223372036854775808) :
    extractNum (dec n) = if Gen.IsTimeInMilli (n : Int) then (n : Int) else (n : Int) * 1000 % 18446744073709551616 := by
  have hw : wrapU64 (n : Int) = (n : Int) := by unfold wrapU64; omega
  unfold extractNum
  simp only [jpParseInt_dec n h, hw]
  cases Gen.IsTimeInMilli (n : Int) <;> simp [wrapU64]

/-- the seconds → milliseconds scaling never turns a non-zero uint64 reading into 0 (the threshold
keeps the product far below 2^64) -/
theorem scale_eq_zero_iff (w : Int) (h0 : 0 ≤ w) (h1 : w < 18446744073709551616) :
    (if (!Gen.IsTimeInMilli w) = true then wrapU64 (w * 1000) else w) = 0 ↔ w = 0 := by
  cases hm : Gen.IsTimeInMilli w with
  | true =>
    have := (isMilli_iff w).1 hm
    simp only [Bool.not_true, Bool.false_eq_true, if_false]
  | false =>
    have : w < 99999999999 := by
      cases Decidable.em (w < 99999999999) with
      | inl h => exact h
      | inr h => have := isMilli_true (v := w) (by omega); rw [this] at hm; cases hm
    simp only [Bool.not_false, if_true]
    unfold wrapU64; omega

theorem f64ToU64_range (f : F64) : 0 ≤ f64ToU64 f ∧ f64ToU64 f < 18446744073709551616 := by
  unfold f64ToU64 f64ToS64 wrapU64
  simp only []
  split
  · omega
  · split <;> omega

theorem goParseUint_range {s : List Char} {v : Int} (h : goParseUint s = some v) :
    0 ≤ v ∧ v < 18446744073709551616 := by
  unfold goParseUint at h
  simp only [] at h
  split at h
  · cases h
  · split at h
    · cases h; omega
    · cases h

/-- ConvertTimestampToMillis on a ParseUint-able string: the result is 0 only for the value 0 -/
theorem convert_uint_eq_zero_iff (v : Int) (h0 : 0 ≤ v) (h1 : v < 18446744073709551616) :
    (if (!Gen.IsTimeInMilli (if Gen.IsTimeInNano v = true then wrapU64 (Int.tdiv v 1000000) else v)) = true
      then wrapU64 ((if Gen.IsTimeInNano v = true then wrapU64 (Int.tdiv v 1000000) else v) * 1000)
      else (if Gen.IsTimeInNano v = true then wrapU64 (Int.tdiv v 1000000) else v)) = 0 ↔ v = 0 := by
  cases hn : Gen.IsTimeInNano v with
  | true =>
    have hn' := (isNano_iff v).1 hn
    have hd : Int.tdiv v 1000000 = v / 1000000 := Int.tdiv_eq_ediv_of_nonneg (by omega)
    have hw : wrapU64 (Int.tdiv v 1000000) = v / 1000000 := by rw [hd]; unfold wrapU64; omega
    simp only [if_true, hw]
    rw [scale_eq_zero_iff (v / 1000000) (by omega) (by omega)]
    omega
  | false =>
    simp only [Bool.false_eq_true, if_false]
    exact scale_eq_zero_iff v h0 h1

end SigModel.Lemmas.C16
