/-
Helper lemmas for C16 (time-unit logic): decimal renderings (`Nat.toDigits 10`) through the modelled
Go parsers, and the rounding argument for fractional seconds.  Core Lean only.
-/
import SigModel.Model.TimeUnit

namespace SigModel.Lemmas.C16
open SigModel.TimeUnit SigModel.MachInt

/-- decimal rendering of a natural number; `(toString n).toList = dec n` by `Nat.toList_repr` -/
def dec (n : Nat) : List Char := Nat.toDigits 10 n

theorem dec_eq_toString (n : Nat) : dec n = (toString n).toList := by
  simp [dec]

theorem isDig_digitChar {d : Nat} (h : d < 10) : isDig (Nat.digitChar d) = true := by
  match d, h with
  | 0, _ | 1, _ | 2, _ | 3, _ | 4, _ | 5, _ | 6, _ | 7, _ | 8, _ | 9, _ => decide

theorem digVal_digitChar {d : Nat} (h : d < 10) : digVal (Nat.digitChar d) = (d : Int) := by
  match d, h with
  | 0, _ | 1, _ | 2, _ | 3, _ | 4, _ | 5, _ | 6, _ | 7, _ | 8, _ | 9, _ => decide

theorem dec_lt (n : Nat) (h : n < 10) : dec n = [Nat.digitChar n] := Nat.toDigits_of_lt_base h

theorem dec_ge (n : Nat) (h : 10 ≤ n) : dec n = dec (n / 10) ++ [Nat.digitChar (n % 10)] :=
  Nat.toDigits_of_base_le (by decide) h

theorem isDig_of_mem_dec {n : Nat} {c : Char} (h : c ∈ dec n) : isDig c = true :=
  Nat.isDigit_of_mem_toDigits (by decide) (by decide) h

theorem dec_ne_nil (n : Nat) : dec n ≠ [] := Nat.toDigits_ne_nil

theorem allDigits_dec (n : Nat) : allDigits (dec n) = true := by
  simp only [allDigits, List.all_eq_true]
  intro c hc; exact isDig_of_mem_dec hc

theorem ofDigitChars_dec (n : Nat) : Nat.ofDigitChars 10 (dec n) 0 = n := Nat.ofDigitChars_ten_toDigits

/-- the head of a rendering is a digit -/
theorem dec_head (n : Nat) : ∃ c r, dec n = c :: r ∧ isDig c = true := by
  cases h : dec n with
  | nil => exact absurd h (dec_ne_nil n)
  | cons c r => exact ⟨c, r, rfl, isDig_of_mem_dec (by rw [h]; exact List.mem_cons_self)⟩

/-- the digit loop of jsonparser.parseInt reads back every rendering below 2^63 without tripping its
overflow test -/
theorem foldl_piStep_dec (n : Nat) (h : n < 9223372036854775808) :
    (dec n).foldl piStep (.run 0) = .run (n : Int) := by
  induction n using Nat.strongRecOn with
  | _ n ih =>
    by_cases hn : n < 10
    · rw [dec_lt n hn]
      simp only [List.foldl_cons, List.foldl_nil, piStep, isDig_digitChar hn, digVal_digitChar hn, if_true]
      have : wrapS64 (10 * 0 + (n : Int)) = (n : Int) := by unfold wrapS64; omega
      rw [this]
      have : ¬ ((n : Int) < 0) := by omega
      simp [this]
    · have hn' : 10 ≤ n := by omega
      rw [dec_ge n hn', List.foldl_append, ih (n / 10) (by omega) (by omega)]
      have hd : n % 10 < 10 := Nat.mod_lt _ (by decide)
      simp only [List.foldl_cons, List.foldl_nil, piStep, isDig_digitChar hd, digVal_digitChar hd, if_true]
      have : wrapS64 (10 * ((n / 10 : Nat) : Int) + ((n % 10 : Nat) : Int)) = (n : Int) := by
        unfold wrapS64; omega
      rw [this]
      have : ¬ ((n : Int) < ((n / 10 : Nat) : Int)) := by omega
      simp [this]

end SigModel.Lemmas.C16
