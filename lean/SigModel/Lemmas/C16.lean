/-
Helper lemmas for C16 (time-unit logic): decimal renderings (`Nat.toDigits 10`, i.e. `toString`)
through the modelled Go parsers (jsonparser.parseInt's wrap-checking loop, strconv.ParseUint /
ParseInt, strconv.ParseFloat's syntax), and the binary64 rounding argument for `<s>.<fff>`.
Core Lean only.
-/
import SigModel.Model.TimeUnit

namespace SigModel.Lemmas.C16
open SigModel SigModel.TimeUnit SigModel.MachInt

/-- decimal rendering of a natural number -/
def dec (n : Nat) : List Char := Nat.toDigits 10 n

/-- `dec n` is exactly the characters of `toString n` -/
theorem dec_eq_toString (n : Nat) : dec n = (toString n).toList := by
  simp [dec]

theorem isDig_digitChar {d : Nat} (h : d < 10) : isDig (Nat.digitChar d) = true := by
  match d, h with
  | 0, _ | 1, _ | 2, _ | 3, _ | 4, _ | 5, _ | 6, _ | 7, _ | 8, _ | 9, _ => decide
theorem digVal_digitChar {d : Nat} (h : d < 10) : digVal (Nat.digitChar d) = (d : Int) := by
  match d, h with
  | 0, _ | 1, _ | 2, _ | 3, _ | 4, _ | 5, _ | 6, _ | 7, _ | 8, _ | 9, _ => decide
theorem dec_lt (n : Nat) (h : n < 10) : dec n = [Nat.digitChar n] := Nat.toDigits_of_lt_base h
theorem dec_ge (n : Nat) (h : 10 ≤ n) : dec n = dec (n / 10) ++ [Nat.digitChar (n % 10)] :=
  Nat.toDigits_of_base_le (by decide) h

theorem isDig_of_mem_dec {n : Nat} {c : Char} (h : c ∈ dec n) : isDig c = true :=
  Nat.isDigit_of_mem_toDigits (by decide) (by decide) h

theorem dec_ne_nil (n : Nat) : dec n ≠ [] := Nat.toDigits_ne_nil

theorem allDigits_dec (n : Nat) : allDigits (dec n) = true := by
  simp only [allDigits, List.all_eq_true]
  intro c hc; exact isDig_of_mem_dec hc

theorem ofDigitChars_dec (n : Nat) : Nat.ofDigitChars 10 (dec n) 0 = n := Nat.ofDigitChars_ten_toDigits

/-- the head of a rendering is a digit -/
theorem dec_head (n : Nat) : ∃ c r, dec n = c :: r ∧ isDig c = true := by
  cases h : dec n with
  | nil => exact absurd h (dec_ne_nil n)
  | cons c r => exact ⟨c, r, rfl, isDig_of_mem_dec (by rw [h]; exact List.mem_cons_self)⟩

theorem piStep_digit (v : Int) (d : Nat) (hd : d < 10) (hv : 0 ≤ v) (hb : 10 * v + d < 9223372036854775808) :
    piStep (.run v) (Nat.digitChar d) = .run (10 * v + d) := by
  have e : wrapS64 (10 * v + (d : Int)) = 10 * v + d := by unfold wrapS64; omega
  have nl : ¬ (10 * v + (d : Int) < v) := by omega
  simp only [piStep, isDig_digitChar hd, digVal_digitChar hd, if_true, e, nl, if_false]

theorem foldl_piStep_dec (n : Nat) (h : n < 9223372036854775808) :
    (dec n).foldl piStep (.run 0) = .run (n : Int) := by
  induction n using Nat.strongRecOn with
  | _ n ih =>
    by_cases hn : n < 10
    · rw [dec_lt n hn, List.foldl_cons, List.foldl_nil, piStep_digit 0 n hn (by omega) (by omega)]
      congr 1; omega
    · have hn' : 10 ≤ n := by omega
      have hd : n % 10 < 10 := Nat.mod_lt _ (by decide)
      rw [dec_ge n hn', List.foldl_append, ih (n / 10) (by omega) (by omega), List.foldl_cons, List.foldl_nil,
        piStep_digit _ _ hd (by omega) (by omega)]
      congr 1; omega

theorem ne_minus_of_isDig {c : Char} (h : isDig c = true) : (c == '-') = false := by
  cases hc : (c == '-') with
  | false => rfl
  | true =>
    have : c = '-' := by simpa using hc
    subst this
    exact absurd h (by decide)

theorem ne_plus_of_isDig {c : Char} (h : isDig c = true) : (c == '+') = false := by
  cases hc : (c == '+') with
  | false => rfl
  | true =>
    have : c = '+' := by simpa using hc
    subst this
    exact absurd h (by decide)

theorem jpParseInt_dec (n : Nat) (h : n < 9223372036854775808) : jpParseInt (dec n) = some (n : Int) := by
  obtain ⟨c, r, hcr, hc⟩ := dec_head n
  have hf := foldl_piStep_dec n h
  unfold jpParseInt
  rw [hcr] at hf ⊢
  simp only [List.isEmpty_cons, List.head?_cons, Bool.false_eq_true, if_false]
  have : (some c == some '-') = false := by
    simpa using ne_minus_of_isDig hc
  simp only [this, Bool.false_eq_true, if_false, hf]

theorem stripSign_dec (n : Nat) : stripSign (dec n) = (false, dec n) := by
  obtain ⟨c, r, hcr, hc⟩ := dec_head n
  unfold stripSign
  rw [hcr]
  have h1 : (some c == some '-') = false := by simpa using ne_minus_of_isDig hc
  have h2 : (some c == some '+') = false := by simpa using ne_plus_of_isDig hc
  simp only [List.head?_cons, h1, h2, Bool.false_eq_true, if_false]

theorem takeDigits_append (l r : List Char) (hl : ∀ c ∈ l, isDig c = true) (hr : takeDigits r = ([], r)) :
    takeDigits (l ++ r) = (l, r) := by
  induction l with
  | nil => simpa using hr
  | cons c l ih =>
    have hc := hl c List.mem_cons_self
    have := ih (fun c h => hl c (List.mem_cons_of_mem _ h))
    simp only [List.cons_append, takeDigits, hc, if_true, this]

theorem takeDigits_nondigit (c : Char) (r : List Char) (h : isDig c = false) : takeDigits (c :: r) = ([], c :: r) := by
  simp [takeDigits, h]

/-- the exponent of the last mantissa bit is ≤ −10 for numerators below 2^44 over a denominator ≥ 2 -/
theorem ulpExp_le (num den : Nat) (hn : num ≠ 0) (hn2 : num < 2 ^ 44) (hd : 2 ≤ den) :
    ulpExp num den ≤ -10 := by
  have h1 : Nat.log2 num < 44 := (Nat.log2_lt hn).2 hn2
  have h2 : 1 ≤ Nat.log2 den := (Nat.le_log2 (by omega)).2 (by simpa using hd)
  unfold ulpExp
  simp only []
  split <;> split <;> omega

/-- arithmetic core: with more than 1000 units per integer step, ⌊(1000 s + f)·P / 1000⌋ and its
successor both lie in [s·P, (s+1)·P) -/
theorem frac_div (s f P : Nat) (hf : f < 1000) (hP : 1000 < P) :
    let q0 := (1000 * s + f) * P / 1000
    (q0 / P = s) ∧ ((q0 + 1) / P = s) := by
  intro q0
  have hq : q0 = (1000 * s + f) * P / 1000 := rfl
  have e1 : (1000 * s + f) * P = 1000 * (s * P) + f * P := by
    rw [Nat.add_mul, Nat.mul_assoc]
  have hfP : f * P ≤ 999 * P := Nat.mul_le_mul_right P (by omega)
  have lo : s * P ≤ q0 := by
    rw [hq, e1]; omega
  have hi : q0 + 1 < (s + 1) * P := by
    have : (s + 1) * P = s * P + P := by rw [Nat.add_mul, Nat.one_mul]
    rw [this, hq, e1]; omega
  have hPpos : 0 < P := by omega
  constructor
  · apply Nat.div_eq_of_lt_le
    · rw [Nat.mul_comm] at lo; simpa [Nat.mul_comm] using lo
    · have : q0 < (s + 1) * P := by omega
      simpa [Nat.mul_comm] using this
  · apply Nat.div_eq_of_lt_le
    · have : s * P ≤ q0 + 1 := by omega
      simpa [Nat.mul_comm] using this
    · simpa [Nat.mul_comm] using hi

theorem truncMag_round_frac (s f : Nat) (hs : 1 ≤ s) (hs2 : s < 10000000000) (hf : f < 1000) :
    F64.truncMag ⟨false, (roundPos (1000 * s + f) 1000).1, (roundPos (1000 * s + f) 1000).2⟩ = s := by
  have hx : ulpExp (1000 * s + f) 1000 ≤ -10 :=
    ulpExp_le _ _ (by omega) (by
      have : (2:Nat) ^ 44 = 17592186044416 := by decide
      omega) (by omega)
  generalize hxe : ulpExp (1000 * s + f) 1000 = x at hx
  have hneg : ¬ (x ≥ 0) := by omega
  have hP : 1000 < 2 ^ (-x).toNat := by
    have h10 : 10 ≤ (-x).toNat := by omega
    have : 2 ^ 10 ≤ 2 ^ (-x).toNat := Nat.pow_le_pow_right (by decide) h10
    have e : (2:Nat) ^ 10 = 1024 := by decide
    omega
  simp only [roundPos, hxe, F64.truncMag, roundAt, hneg, if_false]
  generalize 2 ^ (-x).toNat = P at hP
  have key := frac_div s f P hf hP
  simp only [] at key
  split
  · exact key.2
  · exact key.1

theorem stripSign_digit_head (c : Char) (r : List Char) (hc : isDig c = true) : stripSign (c :: r) = (false, c :: r) := by
  unfold stripSign
  have h1 : (some c == some '-') = false := by simpa using ne_minus_of_isDig hc
  have h2 : (some c == some '+') = false := by simpa using ne_plus_of_isDig hc
  simp only [List.head?_cons, h1, h2, Bool.false_eq_true, if_false]

/-- three fraction digits of a millisecond count f < 1000 -/
def frac3 (f : Nat) : List Char := [Nat.digitChar (f / 100), Nat.digitChar (f / 10 % 10), Nat.digitChar (f % 10)]

/-- the JSON number token `<s>.<fff>` -/
def fracText (s f : Nat) : List Char := dec s ++ '.' :: frac3 f

theorem frac3_digits (f : Nat) (hf : f < 1000) : ∀ c ∈ frac3 f, isDig c = true := by
  intro c hc
  simp only [frac3, List.mem_cons, List.mem_nil_iff, or_false] at hc
  rcases hc with h | h | h <;> subst h <;> apply isDig_digitChar <;> omega

theorem ofDigitChars_frac3 (f : Nat) (hf : f < 1000) (init : Nat) :
    Nat.ofDigitChars 10 (frac3 f) init = 1000 * init + f := by
  have a : f / 100 < 10 := by omega
  have b : f / 10 % 10 < 10 := by omega
  have c : f % 10 < 10 := by omega
  simp only [frac3, Nat.ofDigitChars_cons_digitChar_of_lt_ten a, Nat.ofDigitChars_cons_digitChar_of_lt_ten b,
    Nat.ofDigitChars_cons_digitChar_of_lt_ten c, Nat.ofDigitChars_nil]
  omega

theorem parseDec_fracText (s f : Nat) (hf : f < 1000) :
    parseDec (fracText s f) = some (false, 1000 * s + f, 3, 0) := by
  obtain ⟨c, r, hcr, hc⟩ := dec_head s
  have hss : stripSign (fracText s f) = (false, fracText s f) := by
    unfold fracText; rw [hcr]; exact stripSign_digit_head c _ hc
  have htd : takeDigits (fracText s f) = (dec s, '.' :: frac3 f) :=
    takeDigits_append _ _ (fun c h => isDig_of_mem_dec h) (takeDigits_nondigit '.' _ (by decide))
  have htf : takeDigits (frac3 f) = (frac3 f, []) := by
    have := takeDigits_append (frac3 f) [] (frac3_digits f hf) rfl
    simpa using this
  have hm : Nat.ofDigitChars 10 (dec s ++ frac3 f) 0 = 1000 * s + f := by
    rw [Nat.ofDigitChars_append, ofDigitChars_dec, ofDigitChars_frac3 f hf]
  have hne : (dec s ++ frac3 f).isEmpty = false := by
    rw [hcr]; rfl
  unfold parseDec
  simp only [hss, htd, List.head?_cons, List.tail_cons, beq_self_eq_true, if_true, htf, hne, hm,
    Bool.false_eq_true, if_false]
  simp [frac3]

theorem isMilli_iff (v : Int) : Gen.IsTimeInMilli v = true ↔ 99999999999 ≤ v := by
  simp [Gen.IsTimeInMilli]

theorem isNano_iff (v : Int) : Gen.IsTimeInNano v = true ↔ 1000000000000000000 ≤ v := by
  simp [Gen.IsTimeInNano]

theorem jpParseFloat_fracText (s f : Nat) (hs : 1 ≤ s) (hs2 : s < 10000000000) (hf : f < 1000) :
    jpParseFloat (fracText s f) = some ⟨false, (roundPos (1000 * s + f) 1000).1, (roundPos (1000 * s + f) 1000).2⟩ := by
  have hm0 : ¬ (1000 * s + f = 0) := by omega
  have hlen1 : 0 < (Nat.toDigits 10 (1000 * s + f)).length := Nat.length_toDigits_pos
  have hlen2 : (Nat.toDigits 10 (1000 * s + f)).length ≤ 13 :=
    (Nat.length_toDigits_le_iff (by decide) (by decide)).2 (by
      have : (10:Nat) ^ 13 = 10000000000000 := by decide
      omega)
  have hx : ulpExp (1000 * s + f) 1000 ≤ -10 :=
    ulpExp_le _ _ (by omega) (by
      have : (2:Nat) ^ 44 = 17592186044416 := by decide
      omega) (by omega)
  have hov : overflows (roundPos (1000 * s + f) 1000).1 (roundPos (1000 * s + f) 1000).2 = false := by
    have : ¬ ((roundPos (1000 * s + f) 1000).2 ≥ 0) := by simp only [roundPos]; omega
    simp only [overflows, this, if_false]
  unfold jpParseFloat
  rw [parseDec_fracText s f hf]
  simp only [hm0, if_false]
  have e1 : ¬ (((Nat.toDigits 10 (1000 * s + f)).length : Int) + ((0:Int) - ((3:Nat):Int)) > 310) := by omega
  have e2 : ¬ (((Nat.toDigits 10 (1000 * s + f)).length : Int) + ((0:Int) - ((3:Nat):Int)) < -330) := by omega
  have e3 : ¬ ((0:Int) - ((3:Nat):Int) ≥ 0) := by omega
  have e4 : (10:Nat) ^ (-((0:Int) - ((3:Nat):Int))).toNat = 1000 := by decide
  simp only [e1, e2, e3, e4, if_false, hov, Bool.false_eq_true]

theorem foldl_piStep_bad (l : List Char) : l.foldl piStep .bad = .bad := by
  induction l with
  | nil => rfl
  | cons c l ih => simpa [List.foldl_cons, piStep] using ih

theorem jpParseInt_fracText (s f : Nat) (hs : s < 9223372036854775808) : jpParseInt (fracText s f) = none := by
  obtain ⟨c, r, hcr, hc⟩ := dec_head s
  have hfold : (fracText s f).foldl piStep (.run 0) = .bad := by
    unfold fracText
    rw [List.foldl_append, foldl_piStep_dec s hs, List.foldl_cons]
    have : piStep (.run (s : Int)) '.' = .bad := by
      simp only [piStep]
      have : isDig '.' = false := by decide
      simp only [this, Bool.false_eq_true, if_false]
    rw [this, foldl_piStep_bad]
  have hh : (fracText s f).head? = some c := by unfold fracText; rw [hcr]; rfl
  have hne : (fracText s f).isEmpty = false := by unfold fracText; rw [hcr]; rfl
  have hm : (some c == some '-') = false := by simpa using ne_minus_of_isDig hc
  unfold jpParseInt
  simp only [hne, Bool.false_eq_true, if_false, hh, hm, hfold]

theorem goParseUint_dec (n : Nat) (h : n < 18446744073709551616) : goParseUint (dec n) = some (n : Int) := by
  obtain ⟨c, r, hcr, _⟩ := dec_head n
  have hne : (dec n).isEmpty = false := by rw [hcr]; rfl
  unfold goParseUint
  simp only [hne, allDigits_dec, Bool.not_true, Bool.or_self, Bool.false_eq_true, if_false, ofDigitChars_dec, h, if_true]

theorem goParseInt_dec (n : Nat) (h : n < 9223372036854775808) : goParseInt (dec n) = some (n : Int) := by
  obtain ⟨c, r, hcr, hc⟩ := dec_head n
  have hne : (dec n).isEmpty = false := by rw [hcr]; rfl
  have hss : stripSign (dec n) = (false, dec n) := by rw [hcr]; exact stripSign_digit_head c r hc
  unfold goParseInt
  simp only [hss, hne, allDigits_dec, Bool.not_true, Bool.or_self, Bool.false_eq_true, if_false, ofDigitChars_dec, h, if_true]

theorem isMilli_false {v : Int} (h : v < 99999999999) : Gen.IsTimeInMilli v = false := by
  cases e : Gen.IsTimeInMilli v with
  | false => rfl
  | true => have := (isMilli_iff _).1 e; omega

theorem isMilli_true {v : Int} (h : 99999999999 ≤ v) : Gen.IsTimeInMilli v = true := (isMilli_iff _).2 h

theorem isNano_false {v : Int} (h : v < 1000000000000000000) : Gen.IsTimeInNano v = false := by
  cases e : Gen.IsTimeInNano v with
  | false => rfl
  | true => have := (isNano_iff _).1 e; omega

theorem isNano_true {v : Int} (h : 1000000000000000000 ≤ v) : Gen.IsTimeInNano v = true := (isNano_iff _).2 h


/-! the unit cascade on the three magnitude classes -/

theorem scaleUnits_sec (v : Int) (h0 : 0 ≤ v) (h1 : v < 99999999999) : scaleUnits v = v * 1000 := by
  simp only [scaleUnits, isNano_false (v := v) (by omega), isMilli_false h1, Bool.false_eq_true, if_false,
    Bool.not_false, if_true]
  unfold wrapU64; omega

theorem scaleUnits_milli (v : Int) (h0 : 99999999999 ≤ v) (h1 : v < 1000000000000000000) : scaleUnits v = v := by
  simp only [scaleUnits, isNano_false h1, isMilli_true h0, Bool.false_eq_true, if_false, Bool.not_true]

theorem scaleUnits_nano (v : Int) (h0 : 1000000000000000000 ≤ v) (h1 : v < 18446744073709551616) :
    scaleUnits v = v / 1000000 := by
  have hd : Int.tdiv v 1000000 = v / 1000000 := Int.tdiv_eq_ediv_of_nonneg (by omega)
  have hw : wrapU64 (Int.tdiv v 1000000) = v / 1000000 := by rw [hd]; unfold wrapU64; omega
  simp only [scaleUnits, isNano_true h0, if_true, hw, isMilli_true (v := v / 1000000) (by omega), Bool.not_true,
    Bool.false_eq_true, if_false]

/-- the cascade never turns a non-zero uint64 reading into 0 (the thresholds keep the ×1000 product
far below 2^64, and a nanosecond reading stays ≥ 10^12 after the division) -/
theorem scaleUnits_eq_zero_iff (v : Int) (h0 : 0 ≤ v) (h1 : v < 18446744073709551616) :
    scaleUnits v = 0 ↔ v = 0 := by
  cases Decidable.em (v < 99999999999) with
  | inl h => rw [scaleUnits_sec v h0 h]; omega
  | inr h =>
    cases Decidable.em (v < 1000000000000000000) with
    | inl h' => rw [scaleUnits_milli v (by omega) h']
    | inr h' => rw [scaleUnits_nano v (by omega) h1]; omega

/-- the jp.Number branch on an integer rendering below 2^63 -/
theorem extractNum_dec (n : Nat) (h : n < 9223372036854775808) : extractNum (dec n) = scaleUnits (n : Int) := by
  have hw : wrapU64 (n : Int) = (n : Int) := by unfold wrapU64; omega
  unfold extractNum
  simp only [jpParseInt_dec n h, hw]

theorem f64ToU64_range (f : F64) : 0 ≤ f64ToU64 f ∧ f64ToU64 f < 18446744073709551616 := by
  unfold f64ToU64 f64ToS64 wrapU64
  simp only []
  split
  · omega
  · split <;> omega

theorem goParseUint_range {s : List Char} {v : Int} (h : goParseUint s = some v) :
    0 ≤ v ∧ v < 18446744073709551616 := by
  unfold goParseUint at h
  simp only [] at h
  split at h
  · cases h
  · split at h
    · cases h; omega
    · cases h


/-! the fixed fractional-seconds path: binary64 of `<s>.<fff>`, times 1000, math.Round -/

/-- pure arithmetic core of "parse `<s>.<fff>` to binary64, multiply by 1000, math.Round":
`q1/P1` is within 1000/P1 of T/1000·…, the product grid has step 1/(4·P2'), the result rounds to T -/
theorem round_core (T q1 P1 P2' q2 : Nat) (hP1 : 4000 < P1) (hP2 : 0 < P2')
    (hlo : T * P1 ≤ 1000 * q1 + 1000) (hhi : 1000 * q1 ≤ T * P1 + 1000)
    (hq2 : q2 = 1000 * q1 * (4 * P2') / P1 ∨ q2 = 1000 * q1 * (4 * P2') / P1 + 1) :
    (2 * q2 + 4 * P2') / (2 * (4 * P2')) = T := by
  have hP1pos : 0 < P1 := by omega
  generalize hq0 : 1000 * q1 * (4 * P2') / P1 = q0 at hq2
  -- lower bound: 4·T·P2' ≤ q0 + P2'
  have hL : 4 * (T * P2') ≤ q0 + P2' := by
    have h1 : 4 * (T * P1) ≤ 4000 * q1 + P1 := by omega
    have h2 : P2' * (4 * (T * P1)) ≤ P2' * (4000 * q1 + P1) := Nat.mul_le_mul_left _ h1
    -- (4·T·P2' − P2')·P1 ≤ 1000 q1 (4 P2')
    have h3 : (4 * (T * P2') - P2') * P1 ≤ 1000 * q1 * (4 * P2') := by
      have e1 : (4 * (T * P2') - P2') * P1 = P2' * (4 * (T * P1)) - P2' * P1 := by
        rw [Nat.sub_mul]
        congr 1
        ac_rfl
      have e2 : P2' * (4000 * q1 + P1) = 1000 * q1 * (4 * P2') + P2' * P1 := by
        rw [Nat.mul_add]
        congr 1
        have : (4000:Nat) = 1000 * 4 := rfl
        rw [this]; ac_rfl
      rw [e1]; rw [e2] at h2; omega
    have h4 : 4 * (T * P2') - P2' ≤ q0 := by
      rw [← hq0]; exact (Nat.le_div_iff_mul_le hP1pos).2 h3
    omega
  -- upper bound: q0 + 1 ≤ 4·T·P2' + P2'
  have hR : q0 + 1 ≤ 4 * (T * P2') + P2' := by
    have h1 : 4000 * q1 < 4 * (T * P1) + P1 := by omega
    have h2 : P2' * (4000 * q1) < P2' * (4 * (T * P1) + P1) := Nat.mul_lt_mul_of_pos_left h1 hP2
    have h3 : 1000 * q1 * (4 * P2') < (4 * (T * P2') + P2') * P1 := by
      have e1 : 1000 * q1 * (4 * P2') = P2' * (4000 * q1) := by
        have : (4000:Nat) = 1000 * 4 := rfl
        rw [this]; ac_rfl
      have e2 : (4 * (T * P2') + P2') * P1 = P2' * (4 * (T * P1) + P1) := by
        rw [Nat.add_mul, Nat.mul_add]
        congr 1 <;> ac_rfl
      rw [e1, e2]; exact h2
    have h4 : q0 < 4 * (T * P2') + P2' := by
      rw [← hq0]; exact (Nat.div_lt_iff_lt_mul hP1pos).2 h3
    omega
  apply Nat.div_eq_of_lt_le
  · have : T * (2 * (4 * P2')) = 8 * (T * P2') := by
      have : (8:Nat) = 2 * 4 := rfl
      rw [this]; ac_rfl
    rw [this]; rcases hq2 with h | h <;> omega
  · have : (T + 1) * (2 * (4 * P2')) = 8 * (T * P2') + 8 * P2' := by
      rw [Nat.add_mul]
      have : T * (2 * (4 * P2')) = 8 * (T * P2') := by
        have : (8:Nat) = 2 * 4 := rfl
        rw [this]; ac_rfl
      rw [this]; omega
    rw [this]; rcases hq2 with h | h <;> omega

theorem ulpExp_le_gen (num den a b : Nat) (hn : num ≠ 0) (hd : den ≠ 0) (h1 : num < 2 ^ (a + 1)) (h2 : 2 ^ b ≤ den)
    (hc : (-1074 : Int) ≤ (a : Int) - b - 52) : ulpExp num den ≤ (a : Int) - b - 52 := by
  have l1 : Nat.log2 num < a + 1 := (Nat.log2_lt hn).2 h1
  have l2 : b ≤ Nat.log2 den := (Nat.le_log2 hd).2 h2
  unfold ulpExp
  simp only []
  split <;> split <;> omega

/-- facts about the binary64 nearest to T/1000 for T < 10^13 -/
theorem round1_facts (T : Nat) (hT1 : 1000 ≤ T) (hT2 : T < 10000000000000) :
    ∃ j1 : Nat, 18 ≤ j1 ∧ (roundPos T 1000).2 = -(j1 : Int) ∧
      T * 2 ^ j1 ≤ 1000 * (roundPos T 1000).1 + 1000 ∧ 1000 * (roundPos T 1000).1 ≤ T * 2 ^ j1 + 1000 := by
  have hx : ulpExp T 1000 ≤ ((43 : Nat) : Int) - ((9 : Nat) : Int) - 52 :=
    ulpExp_le_gen T 1000 43 9 (by omega) (by omega) (by
      have : (2:Nat) ^ (43 + 1) = 17592186044416 := by decide
      omega) (by decide) (by omega)
  generalize hxe : ulpExp T 1000 = x at hx
  refine ⟨(-x).toNat, by omega, ?_, ?_⟩
  · simp only [roundPos, hxe]; omega
  · have hneg : ¬ (x ≥ 0) := by omega
    simp only [roundPos, hxe, roundAt, hneg, if_false]
    generalize 2 ^ (-x).toNat = P
    generalize hA : T * P = A
    have := Nat.div_add_mod A 1000
    have := Nat.mod_lt A (by decide : 1000 > 0)
    split <;> omega

theorem mulRound_fact (T q1 j1 : Nat) (hT2 : T < 10000000000000) (hj : 18 ≤ j1) (hq : q1 ≠ 0)
    (hlo : T * 2 ^ j1 ≤ 1000 * q1 + 1000) (hhi : 1000 * q1 ≤ T * 2 ^ j1 + 1000) :
    f64ToU64 (F64.mulNat ⟨false, q1, -(j1 : Int)⟩ 1000).round = (T : Int) := by
  have hP1 : 4000 < 2 ^ j1 := by
    have : 2 ^ 18 ≤ 2 ^ j1 := Nat.pow_le_pow_right (by decide) hj
    have e : (2:Nat) ^ 18 = 262144 := by decide
    omega
  have hxneg : ¬ (-(j1 : Int) ≥ 0) := by omega
  have htn : (- -(j1 : Int)).toNat = j1 := by omega
  generalize hP1e : 2 ^ j1 = P1 at hP1 hlo hhi
  have hnum : q1 * 1000 < 2 ^ (44 + j1 + 1) := by
    have e : 2 ^ (44 + j1 + 1) = 35184372088832 * P1 := by
      rw [show 44 + j1 + 1 = 45 + j1 by omega, Nat.pow_add, hP1e]
    have h1 : T * P1 ≤ 10000000000000 * P1 := Nat.mul_le_mul_right _ (by omega)
    rw [e]; omega
  have hx2 : ulpExp (q1 * 1000) P1 ≤ ((44 + j1 : Nat) : Int) - (j1 : Int) - 52 :=
    ulpExp_le_gen (q1 * 1000) P1 (44 + j1) j1 (by omega) (by omega) hnum (by rw [hP1e]; exact Nat.le_refl _) (by omega)
  generalize hx2e : ulpExp (q1 * 1000) P1 = x2 at hx2
  have hx2neg : ¬ (x2 ≥ 0) := by omega
  obtain ⟨j2', hj2⟩ : ∃ j2', (-x2).toNat = j2' + 2 := ⟨(-x2).toNat - 2, by omega⟩
  have hP2 : 2 ^ (-x2).toNat = 4 * 2 ^ j2' := by
    rw [hj2, Nat.pow_add]; have : (2:Nat) ^ 2 = 4 := by decide
    rw [this, Nat.mul_comm]
  have hP2pos : 0 < 2 ^ j2' := Nat.pow_pos (by decide)
  simp only [F64.mulNat, hq, if_false, hxneg, htn, hP1e, roundPos, hx2e, F64.round, hx2neg, roundAt, hP2]
  generalize 2 ^ j2' = P2' at hP2pos
  have hcomm : q1 * 1000 = 1000 * q1 := Nat.mul_comm _ _
  rw [hcomm]
  have key : ∀ q2, (q2 = 1000 * q1 * (4 * P2') / P1 ∨ q2 = 1000 * q1 * (4 * P2') / P1 + 1) →
      (2 * q2 + 4 * P2') / (2 * (4 * P2')) = T :=
    fun q2 h => round_core T q1 P1 P2' q2 hP1 hP2pos hlo hhi h
  have fin : ∀ n : Nat, n = T → f64ToU64 ⟨false, n, 0⟩ = (T : Int) := by
    intro n hn; subst hn
    simp only [f64ToU64, F64.truncMag, Bool.false_eq_true, if_false]
    have : ((n * 2 ^ (0:Int).toNat : Nat) : Int) = (n : Int) := by simp
    simp only [ge_iff_le, Int.le_refl, if_true, this]
    have : (n : Int) < 18446744073709551616 := by omega
    simp only [this, if_true]
  split
  · exact fin _ (key _ (Or.inr rfl))
  · exact fin _ (key _ (Or.inl rfl))

/-- fractional seconds `<s>.<fff>` as a JSON number are read as the instant 1000·s + f ms -/
theorem extractNum_fracText (s f : Nat) (hs : 100000000 ≤ s) (hs2 : s < 10000000000) (hf : f < 1000) :
    extractNum (fracText s f) = ((1000 * s + f : Nat) : Int) := by
  have hpi : jpParseInt (fracText s f) = none := jpParseInt_fracText s f (by omega)
  have hpf := jpParseFloat_fracText s f (by omega) hs2 hf
  have htm := truncMag_round_frac s f (by omega) hs2 hf
  obtain ⟨j1, hj, hx, hlo, hhi⟩ := round1_facts (1000 * s + f) (by omega) (by omega)
  generalize hq1 : (roundPos (1000 * s + f) 1000).1 = q1 at hpf htm hlo hhi
  rw [hx] at hpf htm
  have hq : q1 ≠ 0 := by
    intro h0; subst h0
    have : 1 ≤ 2 ^ j1 := Nat.pow_pos (by decide)
    have : 1000 * s + f ≤ (1000 * s + f) * 2 ^ j1 := Nat.le_mul_of_pos_right _ this
    omega
  have hu : f64ToU64 ⟨false, q1, -(j1 : Int)⟩ = (s : Int) := by
    simp only [f64ToU64, htm, Bool.false_eq_true, if_false]
    have : ((s : Nat) : Int) < 18446744073709551616 := by omega
    simp only [this, if_true]
  unfold extractNum
  simp only [hpi, hpf, hu, isMilli_false (v := (s : Int)) (by omega), Bool.not_false, Bool.true_or, Bool.and_self, if_true]
  exact mulRound_fact (1000 * s + f) q1 j1 (by omega) hj hq hlo hhi

/-! Splunk HEC: the envelope's `time` is a positive binary64 for every instant of the seconds window -/

/-- `<s>.<fff>` reads as a positive binary64 -/
theorem jpParseFloat_fracText_pos (s f : Nat) (hs : 1 ≤ s) (hs2 : s < 10000000000) (hf : f < 1000) :
    ∃ q x, jpParseFloat (fracText s f) = some ⟨false, q, x⟩ ∧ q ≠ 0 := by
  refine ⟨_, _, jpParseFloat_fracText s f hs hs2 hf, ?_⟩
  obtain ⟨j1, hj, _, hlo, _⟩ := round1_facts (1000 * s + f) (by omega) (by omega)
  intro h0
  rw [h0] at hlo
  have h18 : 2 ^ 18 ≤ 2 ^ j1 := Nat.pow_le_pow_right (by decide) hj
  have : (1000 * s + f) * 2 ^ 18 ≤ (1000 * s + f) * 2 ^ j1 := Nat.mul_le_mul_left _ h18
  have : (2:Nat) ^ 18 = 262144 := by decide
  omega

theorem parseDec_dec (n : Nat) : parseDec (dec n) = some (false, n, 0, 0) := by
  obtain ⟨c, r, hcr, hc⟩ := dec_head n
  have hss : stripSign (dec n) = (false, dec n) := stripSign_dec n
  have htd : takeDigits (dec n) = (dec n, []) := by
    have := takeDigits_append (dec n) [] (fun c h => isDig_of_mem_dec h) rfl
    simpa using this
  have hne : (dec n).isEmpty = false := by rw [hcr]; rfl
  unfold parseDec
  simp only [hss, htd, List.head?_nil, reduceCtorEq, beq_iff_eq, if_false, List.append_nil, hne,
    Bool.false_eq_true, ofDigitChars_dec, List.length_nil]

/-- a whole number of seconds `<s>` reads as a positive binary64 -/
theorem jpParseFloat_dec_pos (s : Nat) (hs : 1 ≤ s) (hs2 : s < 10000000000) :
    ∃ q x, jpParseFloat (dec s) = some ⟨false, q, x⟩ ∧ q ≠ 0 := by
  have hm0 : ¬ (s = 0) := by omega
  have hlen2 : (Nat.toDigits 10 s).length ≤ 10 :=
    (Nat.length_toDigits_le_iff (by decide) (by decide)).2 (by
      have : (10:Nat) ^ 10 = 10000000000 := by decide
      omega)
  have hx : ulpExp (s * 10 ^ 0) 1 ≤ ((33 : Nat) : Int) - ((0 : Nat) : Int) - 52 :=
    ulpExp_le_gen (s * 10 ^ 0) 1 33 0 (by omega) (by omega) (by
      have : (2:Nat) ^ (33 + 1) = 17179869184 := by decide
      omega) (by decide) (by omega)
  generalize hxe : ulpExp (s * 10 ^ 0) 1 = x at hx
  have hneg : ¬ (x ≥ 0) := by omega
  refine ⟨roundAt (s * 10 ^ 0) 1 x, x, ?_, ?_⟩
  · unfold jpParseFloat
    rw [parseDec_dec s]
    have e1 : ¬ (((Nat.toDigits 10 s).length : Int) + ((0:Int) - ((0:Nat):Int)) > 310) := by omega
    have e2 : ¬ (((Nat.toDigits 10 s).length : Int) + ((0:Int) - ((0:Nat):Int)) < -330) := by omega
    have e3 : ((0:Int) - ((0:Nat):Int) ≥ 0) := by omega
    have e4 : ((0:Int) - ((0:Nat):Int)).toNat = 0 := by decide
    have hov : overflows (roundAt (s * 10 ^ 0) 1 x) x = false := by
      simp only [overflows, hneg, if_false]
    simp only [hm0, if_false, e1, e2, e3, e4, if_true, roundPos, hxe, hov, Bool.false_eq_true]
  · simp only [roundAt, hneg, if_false, Nat.mod_one, Nat.div_one]
    have : 1 ≤ 2 ^ (-x).toNat := Nat.pow_pos (by decide)
    have : s * 10 ^ 0 ≤ s * 10 ^ 0 * 2 ^ (-x).toNat := Nat.le_mul_of_pos_right _ this
    split <;> omega

end SigModel.Lemmas.C16
