/-
C04 statistics slice, lemmas part e: the vocabulary of the property theorems (numeric values of a list as exact
rationals, their total, the guards) and the bridge from the closed forms of parts b–d to it; commutation of the
closed form; merges of several parts.  Core Lean only.
-/
import SigModel.Lemmas.C04Sd

namespace SigModel.Stats
open SigModel.MachInt

/-! ### vocabulary -/

/-- the numeric reading of one event's value (both paths, fixed code): numbers, and strings that are decimal numerals
(`parseFast exact` = the exact value of `[+-]digits[.digits][e[+-]digits]` with at least one mantissa digit) -/
def Val.number? : Val → Option Rat
  | .absent => none
  | .int i => some (i : Rat)
  | .flt q => some q
  | .str s => parseFast exact s

/-- the numeric values of the events, in order -/
def numbers (vs : List Val) : List Rat := vs.filterMap Val.number?

/-- mathematical sum -/
def total : List Rat → Rat
  | [] => 0
  | x :: r => x + total r

/-- the int64 running sum cannot wrap, whatever the order and the split: Σ |i| over the integer values < 2^63 -/
def NoInt64Overflow (vs : List Val) : Prop := absIntSum (nums (parseFast exact) vs) < 9223372036854775808

instance (vs : List Val) : Decidable (NoInt64Overflow vs) := by unfold NoInt64Overflow; infer_instance

/-- every string of the list is a numeral proper or no FastParseFloat form at all (no "-", "+", ".", "e5", …): the class on
which the paths agreed BEFORE the fixes -/
def NoDigitlessForm (vs : List Val) : Prop := ∀ s, Val.str s ∈ vs → HasMantissaDigit s

/-! ### bridge -/

theorem number_eq (v : Val) : v.number? = (numOf (parseFast exact) v).map Num.toRat := by
  cases v with
  | absent => rfl
  | int i => rfl
  | flt q => rfl
  | str s => cases h : parseFast exact s <;> simp [Val.number?, numOf, h, Num.toRat]

theorem numbers_eq (vs : List Val) : numbers vs = ratVals (nums (parseFast exact) vs) := by
  unfold numbers ratVals nums
  induction vs with
  | nil => rfl
  | cons v r ih =>
    simp only [List.filterMap_cons, number_eq]
    cases h : numOf (parseFast exact) v <;> simp [ih]

theorem total_ratVals (ns : List Num) : total (ratVals ns) = ratSum ns := by
  induction ns with
  | nil => rfl
  | cons x r ih => simp [ratVals, total, ratSum] at *; rw [ih]

theorem numbers_length (vs : List Val) : (numbers vs).length = (nums (parseFast exact) vs).length := by
  rw [numbers_eq]; simp [ratVals]

theorem numbers_nil_iff (vs : List Val) : numbers vs = [] ↔ nums (parseFast exact) vs = [] := by
  rw [numbers_eq]; simp [ratVals]

theorem NoInt64Overflow.left {xs ys : List Val} (h : NoInt64Overflow (xs ++ ys)) : NoInt64Overflow xs := by
  unfold NoInt64Overflow at *; rw [nums_append, absIntSum_append] at h; omega
theorem NoInt64Overflow.right {xs ys : List Val} (h : NoInt64Overflow (xs ++ ys)) : NoInt64Overflow ys := by
  unfold NoInt64Overflow at *; rw [nums_append, absIntSum_append] at h; omega
theorem NoInt64Overflow.swap {xs ys : List Val} (h : NoInt64Overflow (xs ++ ys)) : NoInt64Overflow (ys ++ xs) := by
  unfold NoInt64Overflow at *; rw [nums_append, absIntSum_append] at *; omega

/-! ### the closed form commutes -/

theorem sumSpec_comm (xs ys : List Num) : sumSpec (xs ++ ys) = sumSpec (ys ++ xs) := by
  unfold sumSpec
  rw [anyFlt_append, anyFlt_append, ratSum_append, ratSum_append, intSum_append, intSum_append, Bool.or_comm,
    Rat.add_comm, Int.add_comm]

theorem build_comm (parse : Str → Option Rat) (xs ys : List Val)
    (hov : absIntSum (nums parse (xs ++ ys)) < 9223372036854775808) : build parse (xs ++ ys) = build parse (ys ++ xs) := by
  have hov' : absIntSum (nums parse (ys ++ xs)) < 9223372036854775808 := by
    rw [nums_append, absIntSum_append] at *; omega
  have hs : sumCell (nums parse (xs ++ ys)) = sumCell (nums parse (ys ++ xs)) := by
    rw [sumCell_eq_spec _ hov, sumCell_eq_spec _ hov', nums_append, nums_append]; exact sumSpec_comm _ _
  have hl : (nums parse (xs ++ ys)).length = (nums parse (ys ++ xs)).length := by
    simp [nums_append, Nat.add_comm]
  have he : (nums parse (xs ++ ys)).isEmpty = (nums parse (ys ++ xs)).isEmpty := by
    rw [nums_append, nums_append]
    cases nums parse xs <;> cases nums parse ys <;> rfl
  have hp : present (xs ++ ys) = present (ys ++ xs) := by rw [present_append, present_append, Nat.add_comm]
  have hmn : minCell parse (xs ++ ys) = minCell parse (ys ++ xs) := by
    rw [minCell_append, minCell_append]
    exact cvMin_comm _ _ (minCell_notBackfill parse xs) (minCell_notBackfill parse ys)
  have hmx : maxCell parse (xs ++ ys) = maxCell parse (ys ++ xs) := by
    rw [maxCell_append, maxCell_append]
    exact cvMax_comm _ _ (maxCell_notBackfill parse xs) (maxCell_notBackfill parse ys)
  unfold build
  rw [hp, he, hl, hs, hmn, hmx]

/-- … read as numbers it commutes without any guard -/
theorem build_comm_view (parse : Str → Option Rat) (xs ys : List Val) :
    oview (build parse (xs ++ ys)) = oview (build parse (ys ++ xs)) := by
  have hs : (sumCell (nums parse (xs ++ ys))).toRat = (sumCell (nums parse (ys ++ xs))).toRat := by
    rw [sumCell_toRat, sumCell_toRat, nums_append, nums_append, ratSum_append, ratSum_append, Rat.add_comm]
  have hl : (nums parse (xs ++ ys)).length = (nums parse (ys ++ xs)).length := by
    simp [nums_append, Nat.add_comm]
  have he : (nums parse (xs ++ ys)).isEmpty = (nums parse (ys ++ xs)).isEmpty := by
    rw [nums_append, nums_append]
    cases nums parse xs <;> cases nums parse ys <;> rfl
  have hp : present (xs ++ ys) = present (ys ++ xs) := by rw [present_append, present_append, Nat.add_comm]
  have hmn : minCell parse (xs ++ ys) = minCell parse (ys ++ xs) := by
    rw [minCell_append, minCell_append]
    exact cvMin_comm _ _ (minCell_notBackfill parse xs) (minCell_notBackfill parse ys)
  have hmx : maxCell parse (xs ++ ys) = maxCell parse (ys ++ xs) := by
    rw [maxCell_append, maxCell_append]
    exact cvMax_comm _ _ (maxCell_notBackfill parse xs) (maxCell_notBackfill parse ys)
  unfold build oview
  rw [hp, he, hmn, hmx]
  by_cases h0 : present (ys ++ xs) = 0
  · simp [h0]
  · by_cases hem : (nums parse (ys ++ xs)).isEmpty <;> simp [h0, hem, SegStats.view, NumStats.view, hl, hs]

/-! ### several parts -/

/-- left-to-right merge of the statistics of the parts (what StatsResults.MergeSegStats does batch after batch) -/
def mergeAll (ps : List (List Val)) : Option SegStats := ps.foldl (fun acc p => mergeO exact acc (foldQ exact p)) none

theorem mergeAll_snoc (ps : List (List Val)) (p : List Val) :
    mergeAll (ps ++ [p]) = mergeO exact (mergeAll ps) (foldQ exact p) := by
  simp [mergeAll, List.foldl_append]

end SigModel.Stats
