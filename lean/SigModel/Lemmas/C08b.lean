/-
Helper lemmas for C08, part 2: delta-of-delta timestamp step.
NOTE: never use `unfold`/default-transparency `rfl` on goals that contain `if … < 2147483648`:
whnf then unfolds `Nat.ble` on the literal in unary.  Use `rw`/`simp only`.
-/
import SigModel.Lemmas.C08

namespace SigModel.Lemmas.C08
open SigModel SigModel.Gorilla

theorem ite_fst {α β : Type} (p : Prop) [Decidable p] (a : α) (x y : α × β)
    (hx : x.1 = a) (hy : y.1 = a) : (if p then x else y).1 = a := by
  split <;> assumption

/-- the bits `compressTimestamp` emits, as a function of the delta-of-delta. -/
def tsBits (dod : Int) : Bits :=
  if dod = 0 then [false]
  else if -63 ≤ dod ∧ dod ≤ 64 then true :: false :: writeBits (int64Bits dod 7) 7
  else if -255 ≤ dod ∧ dod ≤ 256 then true :: true :: false :: writeBits (int64Bits dod 9) 9
  else if -2047 ≤ dod ∧ dod ≤ 2048 then true :: true :: true :: false :: writeBits (int64Bits dod 12) 12
  else true :: true :: true :: true :: writeBits (int64Bits dod 32) 32

theorem wb2 : writeBits 0x02 2 = [true, false] := by decide
theorem wb6 : writeBits 0x06 3 = [true, true, false] := by decide
theorem wbE : writeBits 0x0E 4 = [true, true, true, false] := by decide
theorem wbF : writeBits 0x0F 4 = [true, true, true, true] := by decide

theorem compressTimestamp_snd (c : Enc) (t : Nat) :
    (compressTimestamp c t).2 = tsBits (dodOf c t) := by
  rw [compressTimestamp, tsBits, dodOf]
  simp only [wb2, wb6, wbE, wbF, apply_ite Prod.snd, List.cons_append, List.nil_append]

theorem compressTimestamp_fst (c : Enc) (t : Nat) :
    (compressTimestamp c t).1 = { c with t := t % P32, tDelta := (t % P32 + P32 - c.t) % P32 } := by
  rw [compressTimestamp]
  exact ite_fst _ _ _ _ rfl (ite_fst _ _ _ _ rfl (ite_fst _ _ _ _ rfl (ite_fst _ _ _ _ rfl rfl)))

/-- decoder step on `dod = 0`. -/
theorem decompressTimestamp_zero (d : Dec) (r : Bits) :
    decompressTimestamp d (false :: r) = .ok ({ d with t := (d.t + d.delta) % P32 }, r) := by
  simp only [decompressTimestamp, dodBitN]

end SigModel.Lemmas.C08
