/-
Helper lemmas for C08, part 2: delta-of-delta timestamp step.
-/
import SigModel.Lemmas.C08

namespace SigModel.Lemmas.C08
open SigModel SigModel.Gorilla

/-- the bits `compressTimestamp` emits, as a function of the delta-of-delta. -/
def tsBits (dod : Int) : Bits :=
  if dod = 0 then [false]
  else if -63 ≤ dod ∧ dod ≤ 64 then true :: false :: writeBits (int64Bits dod 7) 7
  else if -255 ≤ dod ∧ dod ≤ 256 then true :: true :: false :: writeBits (int64Bits dod 9) 9
  else if -2047 ≤ dod ∧ dod ≤ 2048 then true :: true :: true :: false :: writeBits (int64Bits dod 12) 12
  else true :: true :: true :: true :: writeBits (int64Bits dod 32) 32

theorem wb2 : writeBits 0x02 2 = [true, false] := by decide
theorem wb6 : writeBits 0x06 3 = [true, true, false] := by decide
theorem wbE : writeBits 0x0E 4 = [true, true, true, false] := by decide
theorem wbF : writeBits 0x0F 4 = [true, true, true, true] := by decide

theorem compressTimestamp_snd (c : Enc) (t : Nat) :
    (compressTimestamp c t).2 = tsBits (dodOf c t) := by
  unfold compressTimestamp tsBits dodOf
  simp only [wb2, wb6, wbE, wbF]
  split
  · rfl
  · split
    · rfl
    · split
      · rfl
      · split <;> rfl

theorem compressTimestamp_fst (c : Enc) (t : Nat) :
    (compressTimestamp c t).1 = { c with t := t % P32, tDelta := (t % P32 + P32 - c.t) % P32 } := by
  unfold compressTimestamp
  simp only
  split
  · rfl
  · split
    · rfl
    · split
      · rfl
      · split <;> rfl

/-- decoder step on `dod = 0`. -/
theorem decompressTimestamp_zero (d : Dec) (r : Bits) :
    decompressTimestamp d (false :: r) = .ok ({ d with t := (d.t + d.delta) % P32 }, r) := by
  simp [decompressTimestamp, dodBitN]

theorem decompressTimestamp_7 (d : Dec) (x : Nat) (r : Bits) :
    decompressTimestamp d (true :: false :: (writeBits x 7 ++ r)) =
      (let bits := x % 2 ^ 7
       let dod : Int := if 2 ^ 6 < bits then (bits : Int) - 2 ^ 7 else bits
       let delta := (((d.delta : Int) + dod) % (P32 : Int)).toNat
       .ok ({ d with delta := delta, t := (d.t + delta) % P32 }, r)) := by
  simp [decompressTimestamp, dodBitN, readBits_writeBits]

end SigModel.Lemmas.C08
