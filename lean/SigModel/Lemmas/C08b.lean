/-
Helper lemmas for C08, part 2: delta-of-delta timestamp step.
NOTE: never use `unfold`/default-transparency `rfl` on goals that contain `if … < 2147483648`:
whnf then unfolds `Nat.ble` on the literal in unary.  Use `rw`/`simp only`.
-/
import SigModel.Lemmas.C08

namespace SigModel.Lemmas.C08
open SigModel SigModel.Gorilla

theorem ite_fst {α β : Type} (p : Prop) [Decidable p] (a : α) (x y : α × β)
    (hx : x.1 = a) (hy : y.1 = a) : (if p then x else y).1 = a := by
  split <;> assumption

/-- the bits `compressTimestamp` emits, as a function of the delta-of-delta. -/
def tsBits (dod : Int) : Bits :=
  if dod = 0 then [false]
  else if -63 ≤ dod ∧ dod ≤ 64 then true :: false :: writeBits (int64Bits dod 7) 7
  else if -255 ≤ dod ∧ dod ≤ 256 then true :: true :: false :: writeBits (int64Bits dod 9) 9
  else if -2047 ≤ dod ∧ dod ≤ 2048 then true :: true :: true :: false :: writeBits (int64Bits dod 12) 12
  else true :: true :: true :: true :: writeBits (int64Bits dod 32) 32

theorem wb2 : writeBits 0x02 2 = [true, false] := by decide
theorem wb6 : writeBits 0x06 3 = [true, true, false] := by decide
theorem wbE : writeBits 0x0E 4 = [true, true, true, false] := by decide
theorem wbF : writeBits 0x0F 4 = [true, true, true, true] := by decide

theorem compressTimestamp_snd (c : Enc) (t : Nat) :
    (compressTimestamp c t).2 = tsBits (dodOf c t) := by
  rw [compressTimestamp, tsBits, dodOf]
  simp only [wb2, wb6, wbE, wbF, apply_ite Prod.snd, List.cons_append, List.nil_append]

theorem compressTimestamp_fst (c : Enc) (t : Nat) :
    (compressTimestamp c t).1 = { c with t := t % P32, tDelta := (t % P32 + P32 - c.t) % P32 } := by
  rw [compressTimestamp]
  exact ite_fst _ _ _ _ rfl (ite_fst _ _ _ _ rfl (ite_fst _ _ _ _ rfl (ite_fst _ _ _ _ rfl rfl)))

/-- decoder step on `dod = 0`. -/
theorem decompressTimestamp_zero (d : Dec) (r : Bits) :
    decompressTimestamp d (false :: r) = .ok ({ d with t := (d.t + d.delta) % P32 }, r) := by
  simp only [decompressTimestamp, dodBitN]

theorem decompressTimestamp_of (d : Dec) (bs r' r2 : Bits) (n bits : Nat)
    (h : dodBitN bs = some (n, r')) (hn : n ≠ 0) (hr : readBits n r' = some (bits, r2)) :
    decompressTimestamp d bs =
      if n = 32 ∧ bits = 0xFFFFFFFF then .eof
      else
        .ok ({ d with
          delta := (((d.delta : Int) + (if n ≠ 32 ∧ 2 ^ (n - 1) < bits then (bits : Int) - 2 ^ n else bits)) % (P32 : Int)).toNat,
          t := (d.t + (((d.delta : Int) + (if n ≠ 32 ∧ 2 ^ (n - 1) < bits then (bits : Int) - 2 ^ n else bits)) % (P32 : Int)).toNat) % P32 }, r2) := by
  rw [decompressTimestamp, h]
  split
  · rename_i heq; cases heq
  · rename_i heq; cases heq; exact absurd rfl hn
  · rename_i heq
    cases heq
    simp only [hr]

theorem dec7 (dod : Int) (h1 : -63 ≤ dod) (h2 : dod ≤ 64) :
    (if 7 ≠ 32 ∧ 2 ^ (7 - 1) < int64Bits dod 7 % 2 ^ 7 then ((int64Bits dod 7 % 2 ^ 7 : Nat) : Int) - 2 ^ 7
      else ((int64Bits dod 7 % 2 ^ 7 : Nat) : Int)) = dod := by
  simp only [int64Bits, P64]
  split <;> split <;> omega

theorem dec9 (dod : Int) (h1 : -255 ≤ dod) (h2 : dod ≤ 256) :
    (if 9 ≠ 32 ∧ 2 ^ (9 - 1) < int64Bits dod 9 % 2 ^ 9 then ((int64Bits dod 9 % 2 ^ 9 : Nat) : Int) - 2 ^ 9
      else ((int64Bits dod 9 % 2 ^ 9 : Nat) : Int)) = dod := by
  simp only [int64Bits, P64]
  split <;> split <;> omega

theorem dec12 (dod : Int) (h1 : -2047 ≤ dod) (h2 : dod ≤ 2048) :
    (if 12 ≠ 32 ∧ 2 ^ (12 - 1) < int64Bits dod 12 % 2 ^ 12 then ((int64Bits dod 12 % 2 ^ 12 : Nat) : Int) - 2 ^ 12
      else ((int64Bits dod 12 % 2 ^ 12 : Nat) : Int)) = dod := by
  simp only [int64Bits, P64]
  split <;> split <;> omega

theorem dec32 (dod : Int) (h1 : -4294967296 < dod) (h2 : dod < 4294967296) :
    ((int64Bits dod 32 % 2 ^ 32 : Nat) : Int) = dod % 4294967296 := by
  simp only [int64Bits, P64]
  split <;> omega

/-- the decoder state after a timestamp with delta-of-delta `dod`. -/
def tsDec (d : Dec) (dod : Int) : Dec :=
  { d with delta := (((d.delta : Int) + dod) % (P32 : Int)).toNat,
           t := (d.t + (((d.delta : Int) + dod) % (P32 : Int)).toNat) % P32 }

theorem ts_step (d : Dec) (dod : Int) (r : Bits) (hd : d.delta < P32)
    (hr1 : -(P32 : Int) < dod) (hr2 : dod < (P32 : Int))
    (hg : (-2047 ≤ dod ∧ dod ≤ 2048) ∨ dod % (P32 : Int) ≠ (P32 : Int) - 1) :
    decompressTimestamp d (tsBits dod ++ r) = .ok (tsDec d dod, r) := by
  rw [tsBits]
  split
  · rename_i h0
    subst h0
    rw [List.cons_append, List.nil_append, decompressTimestamp_zero, tsDec]
    have : (((d.delta : Int) + 0) % (P32 : Int)).toNat = d.delta := by
      simp only [P32] at hd ⊢; omega
    rw [this]
  · split
    · rename_i h0 h1
      rw [decompressTimestamp_of d _ _ r 7 _ (by simp only [List.cons_append, dodBitN]; rfl) (by omega)
        (readBits_writeBits _ _ _), dec7 dod h1.1 h1.2, if_neg (by omega), tsDec]
    · split
      · rename_i h0 _ h1
        rw [decompressTimestamp_of d _ _ r 9 _ (by simp only [List.cons_append, dodBitN]; rfl) (by omega)
          (readBits_writeBits _ _ _), dec9 dod h1.1 h1.2, if_neg (by omega), tsDec]
      · split
        · rename_i h0 _ _ h1
          rw [decompressTimestamp_of d _ _ r 12 _ (by simp only [List.cons_append, dodBitN]; rfl) (by omega)
            (readBits_writeBits _ _ _), dec12 dod h1.1 h1.2, if_neg (by omega), tsDec]
        · rename_i h0 _ _ h1
          have hb := dec32 dod (by simp only [P32] at hr1; omega) (by simp only [P32] at hr2; omega)
          have hne : ¬ (32 = 32 ∧ int64Bits dod 32 % 2 ^ 32 = 0xFFFFFFFF) := by
            simp only [P32] at hg; omega
          rw [decompressTimestamp_of d _ _ r 32 _ (by simp only [List.cons_append, dodBitN]; rfl) (by omega)
            (readBits_writeBits _ _ _), if_neg hne, if_neg (by omega), tsDec]
          have : ((d.delta : Int) + ((int64Bits dod 32 % 2 ^ 32 : Nat) : Int)) % (P32 : Int)
              = ((d.delta : Int) + dod) % (P32 : Int) := by
            simp only [P32]; omega
          rw [this]

theorem toS32_cases (x : Nat) :
    (x < 2147483648 ∧ toS32 x = (x : Int)) ∨ (2147483648 ≤ x ∧ toS32 x = (x : Int) - 4294967296) := by
  rw [toS32]
  by_cases h : x < 2147483648
  · left; exact ⟨h, if_pos h⟩
  · right; exact ⟨by omega, if_neg h⟩

theorem dodOf_range (c : Enc) (t : Nat) (hd : c.tDelta < P32) :
    -(P32 : Int) < dodOf c t ∧ dodOf c t < (P32 : Int) := by
  simp only [dodOf, P32] at hd ⊢
  rcases toS32_cases ((t % 4294967296 + 4294967296 - c.t) % 4294967296) with ⟨_, e1⟩ | ⟨_, e1⟩ <;>
    rcases toS32_cases c.tDelta with ⟨_, e2⟩ | ⟨_, e2⟩ <;> rw [e1, e2] <;> clear e1 e2 <;> omega

/-- the decoder's reconstruction of delta and t agrees with the encoder's wrapped arithmetic. -/
theorem tsDec_dodOf (c : Enc) (d : Dec) (t : Nat) (ht : t < P32) (hct : c.t < P32)
    (h1 : d.t = c.t) (h2 : d.delta = c.tDelta) :
    tsDec d (dodOf c t) = { d with delta := (t % P32 + P32 - c.t) % P32, t := t % P32 } := by
  have hdelta : (((d.delta : Int) + dodOf c t) % (P32 : Int)).toNat = (t % P32 + P32 - c.t) % P32 := by
    rw [h2]
    simp only [dodOf, P32] at ht hct ⊢
    rcases toS32_cases ((t % 4294967296 + 4294967296 - c.t) % 4294967296) with ⟨_, e1⟩ | ⟨_, e1⟩ <;>
      rcases toS32_cases c.tDelta with ⟨_, e2⟩ | ⟨_, e2⟩ <;> rw [e1, e2] <;> clear e1 e2 <;> omega
  rw [tsDec, hdelta, h1]
  have : (c.t + (t % P32 + P32 - c.t) % P32) % P32 = t % P32 := by
    simp only [P32] at ht hct ⊢; omega
  rw [this]

end SigModel.Lemmas.C08
