import SigModel.Model.Bulk
import SigModel.Lemmas.C15
/-
Helper lemmas for C15, part 2 (after the loop): the grouping of the accepted events into one batch per index
name, `ProcessIndexRequestPle` on such a batch, what reaches the store, which response items the repaired code
overwrites when the store refuses a batch, and the specification vocabulary for the final response
(`created`, `docsOf`, `refusedIdx`, `finalStatus`, `finalItems`, `finalDocsOf`).
-/
namespace SigModel.Lemmas.C15
open SigModel.Bulk

theorem mem_keysOf (l : List Nat) (x : Nat) : x ∈ keysOf l ↔ x ∈ l := by
  induction l with
  | nil => simp [keysOf]
  | cons k r ih =>
    by_cases h : x = k
    · simp [keysOf, h]
    · simp [keysOf, ih, h]

theorem keysOf_nodup (l : List Nat) : (keysOf l).Nodup := by
  induction l with
  | nil => simp [keysOf]
  | cons k r ih =>
    simp only [keysOf, List.nodup_cons]
    refine ⟨?_, ih.filter _⟩
    simp

theorem filter_beq_nodup (l : List Nat) (h : l.Nodup) (x : Nat) :
    l.filter (· == x) = if x ∈ l then [x] else [] := by
  induction l with
  | nil => simp
  | cons k r ih =>
    obtain ⟨hk, hr⟩ := List.nodup_cons.1 h
    by_cases e : k = x
    · subst e
      have : k ∉ r := hk
      simp [ih hr, this]
    · have e' : ¬ x = k := fun h => e h.symm
      simp [ih hr, e, e']

theorem handleReq_calls (env : Env) (body : List Line) :
    (handleReq env body).calls = callsOf env (handle Version.fixed env body).ples := rfl

theorem handleReq_st (env : Env) (body : List Line) : (handleReq env body).st = handle Version.fixed env body := rfl

/-- there is at most one call per index name, and it carries exactly the events of that name, in slice order -/
theorem callsOf_filter (env : Env) (ples : List Ple) (x : Nat) :
    (callsOf env ples).filter (·.idx == x) =
      if x ∈ ples.map (·.1) then
        [{ idx := x, docs := ples.filter (·.1 == x), res := processPle env x (ples.filter (·.1 == x)) }]
      else [] := by
  unfold callsOf batches
  rw [List.map_map, List.filter_map]
  have hf : ((fun c : Call => c.idx == x) ∘
      ((fun kb : Nat × List Ple => ({ idx := kb.1, docs := kb.2, res := processPle env kb.1 kb.2 } : Call)) ∘
        fun k => (k, List.filter (fun p => p.1 == k) ples))) = (fun k => k == x) := by
    funext k; rfl
  rw [hf, filter_beq_nodup _ (keysOf_nodup _)]
  by_cases h : x ∈ ples.map (·.1)
  · have h' : x ∈ keysOf (ples.map (·.1)) := (mem_keysOf _ _).2 h
    rw [if_pos h', if_pos h]
    simp only [List.map_cons, List.map_nil, Function.comp]
  · have h' : x ∉ keysOf (ples.map (·.1)) := fun hh => h ((mem_keysOf _ _).1 hh)
    rw [if_neg h', if_neg h]
    simp only [List.map_nil]

/-- a batch built by the grouping passes the index-name consistency check of `ProcessIndexRequestPle` -/
theorem processPle_own (env : Env) (ples : List Ple) (x : Nat) (hv : env.valid x = true) :
    processPle env x (ples.filter (·.1 == x)) =
      if env.store (env.resolve x) ((ples.filter (·.1 == x)).map (·.2.1)) then .stored (env.resolve x)
      else .refused (env.resolve x) := by
  have h : (ples.filter (·.1 == x)).any (·.1 != x) = false := by
    rw [List.any_eq_false]
    intro p hp
    have := (List.mem_filter.1 hp).2
    simp at this
    simp [this]
  simp [processPle, h, hv]

theorem filter_nil_of_not_mem (ples : List Ple) (x : Nat) (h : x ∉ ples.map (·.1)) :
    ples.filter (·.1 == x) = [] := by
  rw [List.filter_eq_nil_iff]
  intro p hp he
  apply h
  simp at he
  exact List.mem_map.2 ⟨p, hp, he⟩

/-- everything handed over under index name `x` = the events that carry `x`, in slice order -/
theorem handedUnder_callsOf (env : Env) (r : Resp) (ples : List Ple) (hr : r.calls = callsOf env ples) (x : Nat) :
    r.handedUnder x = ples.filter (·.1 == x) := by
  unfold Resp.handedUnder
  rw [hr]
  simp only [callsOf_filter]
  by_cases h : x ∈ ples.map (·.1)
  · simp [h]
  · rw [filter_nil_of_not_mem ples x h]; simp [h]

/-- what the store took under index name `x`: the documents of `x` if it accepted their batch, nothing otherwise -/
theorem storedUnder_callsOf (env : Env) (r : Resp) (ples : List Ple) (hr : r.calls = callsOf env ples) (x : Nat)
    (hv : ∀ p ∈ ples, env.valid p.1 = true) :
    r.storedUnder x =
      if env.store (env.resolve x) ((ples.filter (·.1 == x)).map (·.2.1)) then (ples.filter (·.1 == x)).map (·.2.1)
      else [] := by
  unfold Resp.storedUnder
  rw [hr]
  have hsplit : (callsOf env ples).filter (fun c => c.idx == x && c.accepted) =
      ((callsOf env ples).filter (·.idx == x)).filter (·.accepted) := by
    rw [List.filter_filter]; congr 1; funext c; exact Bool.and_comm _ _
  rw [hsplit, callsOf_filter]
  by_cases h : x ∈ ples.map (·.1)
  · obtain ⟨p, hp, hpx⟩ := List.mem_map.1 h
    have hvx : env.valid x = true := hpx ▸ hv p hp
    rw [if_pos h, processPle_own env ples x hvx]
    cases hs : env.store (env.resolve x) ((ples.filter (·.1 == x)).map (·.2.1)) <;>
      simp [Call.accepted]
  · rw [filter_nil_of_not_mem ples x h]; simp [h]

/-- every call the grouping produces reaches the store, under the real index of its own name -/
theorem callsOf_res (env : Env) (ples : List Ple) (hv : ∀ p ∈ ples, env.valid p.1 = true)
    (c : Call) (hc : c ∈ callsOf env ples) :
    (c.res = .stored (env.resolve c.idx) ∨ c.res = .refused (env.resolve c.idx)) ∧
    (∀ p ∈ c.docs, p.1 = c.idx) ∧ c.docs = ples.filter (·.1 == c.idx) ∧ c.docs ≠ [] := by
  have hmem : c ∈ (callsOf env ples).filter (·.idx == c.idx) := by
    rw [List.mem_filter]; exact ⟨hc, by simp⟩
  rw [callsOf_filter] at hmem
  by_cases h : c.idx ∈ ples.map (·.1)
  · rw [if_pos h] at hmem
    have hc' := List.mem_singleton.1 hmem
    obtain ⟨p, hp, hpx⟩ := List.mem_map.1 h
    have hvx : env.valid c.idx = true := hpx ▸ hv p hp
    have hdocs : c.docs = ples.filter (·.1 == c.idx) := by
      have := congrArg Call.docs hc'; simpa using this
    have hres : c.res = processPle env c.idx (ples.filter (·.1 == c.idx)) := by
      have := congrArg Call.res hc'; simpa using this
    refine ⟨?_, ?_, hdocs, ?_⟩
    · rw [hres, processPle_own env ples c.idx hvx]
      cases env.store (env.resolve c.idx) ((ples.filter (·.1 == c.idx)).map (·.2.1)) <;> simp
    · intro q hq
      rw [hdocs] at hq
      have := (List.mem_filter.1 hq).2
      simpa using this
    · rw [hdocs]
      intro hnil
      have : p ∈ ples.filter (·.1 == c.idx) := List.mem_filter.2 ⟨hp, by simp [hpx]⟩
      rw [hnil] at this
      cases this
  · rw [if_neg h] at hmem; cases hmem

/-- at most one call per index name -/
theorem callsOf_count (env : Env) (ples : List Ple) (x : Nat) :
    ((callsOf env ples).filter (·.idx == x)).length ≤ 1 := by
  rw [callsOf_filter]
  split <;> simp

/-! ### the items after the store calls (repair c15-3) -/

theorem getElem?_set_eq (l : List Status) (i k : Nat) (u : Status) :
    (l.set i u)[k]? = if i = k then (l[k]?).map (fun _ => u) else l[k]? := by
  by_cases h : i = k
  · subst h
    by_cases hl : i < l.length
    · simp [hl]
    · simp [hl]
  · simp [h, List.getElem?_set_ne]

theorem getElem?_markUnavailable (items : List Status) (batch : List Ple) (k : Nat) :
    (markUnavailable items batch)[k]? =
      if batch.any (·.2.2 == k) then (items[k]?).map (fun _ => Status.unavailable) else items[k]? := by
  unfold markUnavailable
  induction batch generalizing items with
  | nil => simp
  | cons p r ih =>
    rw [List.foldl_cons, ih, getElem?_set_eq]
    by_cases h1 : p.2.2 = k <;> by_cases h2 : r.any (·.2.2 == k) = true
    all_goals simp [h1, h2]
    all_goals cases items[k]? <;> simp

theorem getElem?_markCalls (items : List Status) (cs : List Call) (k : Nat) :
    (cs.foldl (fun its c => markUnavailable its c.docs) items)[k]? =
      if cs.any (fun c => c.docs.any (·.2.2 == k)) then (items[k]?).map (fun _ => Status.unavailable) else items[k]? := by
  induction cs generalizing items with
  | nil => simp
  | cons c r ih =>
    rw [List.foldl_cons, ih, getElem?_markUnavailable]
    by_cases h1 : c.docs.any (·.2.2 == k) = true <;> by_cases h2 : r.any (fun c => c.docs.any (·.2.2 == k)) = true
    all_goals simp [h1, h2]
    all_goals cases items[k]? <;> simp


/-- what a member of `callsOf` is -/
theorem callsOf_mem (env : Env) (ples : List Ple) (c : Call) (hc : c ∈ callsOf env ples) :
    c.idx ∈ ples.map (·.1) ∧ c.docs = ples.filter (·.1 == c.idx) ∧ c.res = processPle env c.idx c.docs := by
  have hmem : c ∈ (callsOf env ples).filter (·.idx == c.idx) := by
    rw [List.mem_filter]; exact ⟨hc, by simp⟩
  rw [callsOf_filter] at hmem
  by_cases h : c.idx ∈ ples.map (·.1)
  · rw [if_pos h] at hmem
    have hc' := List.mem_singleton.1 hmem
    have hdocs : c.docs = ples.filter (·.1 == c.idx) := by
      have := congrArg Call.docs hc'; simpa using this
    have hres : c.res = processPle env c.idx (ples.filter (·.1 == c.idx)) := by
      have := congrArg Call.res hc'; simpa using this
    exact ⟨h, hdocs, by rw [hres, hdocs]⟩
  · rw [if_neg h] at hmem; cases hmem

theorem mem_callsOf_of_mem (env : Env) (ples : List Ple) (p : Ple) (hp : p ∈ ples) :
    ({ idx := p.1, docs := ples.filter (·.1 == p.1), res := processPle env p.1 (ples.filter (·.1 == p.1)) } : Call)
      ∈ callsOf env ples := by
  have h : p.1 ∈ ples.map (·.1) := List.mem_map.2 ⟨p, hp, rfl⟩
  have := callsOf_filter env ples p.1
  rw [if_pos h] at this
  have hm : ({ idx := p.1, docs := ples.filter (·.1 == p.1), res := processPle env p.1 (ples.filter (·.1 == p.1)) } : Call)
      ∈ (callsOf env ples).filter (·.idx == p.1) := by rw [this]; simp
  exact (List.mem_filter.1 hm).1

/-- the item positions the repaired code overwrites: those of the events whose index's batch the store refused -/
theorem marked_iff (env : Env) (ples : List Ple) (hv : ∀ p ∈ ples, env.valid p.1 = true) (k : Nat) :
    ((callsOf env ples).filter (fun c => !c.accepted)).any (fun c => c.docs.any (·.2.2 == k)) = true ↔
    ∃ p ∈ ples, p.2.2 = k ∧ env.store (env.resolve p.1) ((ples.filter (·.1 == p.1)).map (·.2.1)) = false := by
  constructor
  · intro h
    obtain ⟨c, hc, hk⟩ := List.any_eq_true.1 h
    obtain ⟨hc1, hacc⟩ := List.mem_filter.1 hc
    obtain ⟨p, hp, hpk⟩ := List.any_eq_true.1 hk
    obtain ⟨hidx, hdocs, hres⟩ := callsOf_mem env ples c hc1
    rw [hdocs] at hp
    obtain ⟨hp1, hp2⟩ := List.mem_filter.1 hp
    have hpi : p.1 = c.idx := by simpa using hp2
    refine ⟨p, hp1, by simpa using hpk, ?_⟩
    have hvx : env.valid c.idx = true := hpi ▸ hv p hp1
    rw [hdocs, processPle_own env ples c.idx hvx] at hres
    rw [hpi]
    cases hs : env.store (env.resolve c.idx) ((ples.filter (·.1 == c.idx)).map (·.2.1))
    · rfl
    · rw [hs] at hres
      simp [Call.accepted, hres] at hacc
  · rintro ⟨p, hp, hpk, hs⟩
    rw [List.any_eq_true]
    refine ⟨_, List.mem_filter.2 ⟨mem_callsOf_of_mem env ples p hp, ?_⟩, ?_⟩
    · simp [Call.accepted, processPle_own env ples p.1 (hv p hp), hs]
    · rw [List.any_eq_true]
      exact ⟨p, List.mem_filter.2 ⟨hp, by simp⟩, by simp [hpk]⟩

/-! ### the specification the final response is compared with -/

/-- the (index name, document) pairs of the actions the loop answers `created`, in request order -/
def created (env : Env) (acts : List Act) : List (Nat × Nat) := acts.flatMap (Act.storedOf env)

/-- the documents the loop accepted for index name `x`, in request order: the batch handed to the store -/
def docsOf (env : Env) (acts : List Act) (x : Nat) : List Nat :=
  ((created env acts).filter (·.1 == x)).map (·.2)

/-- the store refuses the batch of index name `x` -/
def refusedIdx (env : Env) (acts : List Act) (x : Nat) : Bool := !env.store (env.resolve x) (docsOf env acts x)

/-- the status an action is finally answered with: that of the loop, unless the store refused the batch of its index -/
def finalStatus (env : Env) (acts : List Act) (a : Act) : Status :=
  if a.status env = Status.created ∧ refusedIdx env acts a.idxOf = true then Status.unavailable else a.status env

theorem plesFrom_proj (env : Env) (acts : List Act) (off : Nat) :
    (plesFrom env acts off).map (fun p => (p.1, p.2.1)) = created env acts := by
  induction acts generalizing off with
  | nil => rfl
  | cons a r ih =>
    simp only [plesFrom, List.map_append, ih, created, List.flatMap_cons, Act.pleOf, List.map_map]
    congr 1
    exact List.map_id' _

theorem mem_plesFrom (env : Env) (acts : List Act) (off : Nat) (p : Ple) :
    p ∈ plesFrom env acts off ↔ ∃ j a, acts[j]? = some a ∧ (p.1, p.2.1) ∈ a.storedOf env ∧ p.2.2 = off + j := by
  induction acts generalizing off with
  | nil => simp [plesFrom]
  | cons a r ih =>
    simp only [plesFrom, List.mem_append, ih]
    constructor
    · rintro (h | ⟨j, b, hj, hb, hp⟩)
      · obtain ⟨q, hq, rfl⟩ := List.mem_map.1 h
        exact ⟨0, a, by simp, by simpa using hq, by simp⟩
      · exact ⟨j + 1, b, by simpa using hj, hb, by omega⟩
    · rintro ⟨j, b, hj, hb, hp⟩
      cases j with
      | zero =>
        left
        simp at hj; subst hj
        refine List.mem_map.2 ⟨(p.1, p.2.1), hb, ?_⟩
        have hp' : p.2.2 = off := by simpa using hp
        obtain ⟨p1, p2, p3⟩ := p
        simp at hp'
        simp [hp']
      | succ j => right; exact ⟨j, b, by simpa using hj, hb, by omega⟩

theorem docs_plesFrom (env : Env) (acts : List Act) (off x : Nat) :
    ((plesFrom env acts off).filter (·.1 == x)).map (·.2.1) = docsOf env acts x := by
  unfold docsOf
  rw [← plesFrom_proj env acts off, List.filter_map, List.map_map]
  rfl

theorem plesFrom_valid (env : Env) (acts : List Act) (off : Nat) : ∀ p ∈ plesFrom env acts off, env.valid p.1 = true := by
  intro p hp
  obtain ⟨j, a, _, hb, _⟩ := (mem_plesFrom env acts off p).1 hp
  cases a with
  | single l => simp [Act.storedOf] at hb
  | withDoc x d =>
    by_cases h : x.kind ≠ Kind.update ∧ env.valid x.idx = true ∧ d.len < maxRecordSize ∧ env.kibana x.idx = false ∧ d.docOk
    · simp only [Act.storedOf, if_pos h, List.mem_singleton] at hb
      have : p.1 = x.idx := congrArg Prod.fst hb
      rw [this]; exact h.2.1
    · simp only [Act.storedOf, if_neg h] at hb
      cases hb


theorem handleReq_items (env : Env) (body : List Line) :
    (handleReq env body).items =
      ((callsOf env (handle Version.fixed env body).ples).filter (fun c => !c.accepted)).foldl
        (fun its c => markUnavailable its c.docs) (handle Version.fixed env body).items := rfl

theorem handleReq_errors (env : Env) (body : List Line) :
    (handleReq env body).errors =
      ((handle Version.fixed env body).overallError ||
        !((callsOf env (handle Version.fixed env body).ples).filter (fun c => !c.accepted)).isEmpty) := rfl

/-- position `k` is overwritten iff action `k` was answered created by the loop and the store refused its index -/
theorem marked_action (env : Env) (acts : List Act) (k : Nat) (a : Act) (ha : acts[k]? = some a) :
    ((callsOf env (plesFrom env acts 0)).filter (fun c => !c.accepted)).any (fun c => c.docs.any (·.2.2 == k)) = true ↔
    (a.status env = Status.created ∧ refusedIdx env acts a.idxOf = true) := by
  rw [marked_iff env _ (plesFrom_valid env acts 0) k]
  constructor
  · rintro ⟨p, hp, hpk, hs⟩
    obtain ⟨j, b, hj, hb, hpj⟩ := (mem_plesFrom env acts 0 p).1 hp
    have hjk : j = k := by omega
    subst hjk
    have hba : b = a := by rw [hj] at ha; exact Option.some.inj ha
    subst hba
    have hne : b.storedOf env ≠ [] := by intro h; rw [h] at hb; cases hb
    have hcr := (storedOf_ne_nil_iff env b).1 hne
    rw [storedOf_of_created env b hcr, List.mem_singleton] at hb
    have hp1 : p.1 = b.idxOf := congrArg Prod.fst hb
    refine ⟨hcr, ?_⟩
    rw [docs_plesFrom, hp1] at hs
    simp [refusedIdx, hs]
  · rintro ⟨hcr, href⟩
    refine ⟨(a.idxOf, a.docId, k), ?_, rfl, ?_⟩
    · rw [mem_plesFrom]
      exact ⟨k, a, ha, by rw [storedOf_of_created env a hcr]; simp, by simp⟩
    · rw [docs_plesFrom]
      simpa [refusedIdx] using href

theorem not_marked_beyond (env : Env) (acts : List Act) (k : Nat) (hk : acts.length ≤ k) :
    ((callsOf env (plesFrom env acts 0)).filter (fun c => !c.accepted)).any (fun c => c.docs.any (·.2.2 == k)) = false := by
  rw [Bool.eq_false_iff]
  intro h
  obtain ⟨p, hp, hpk, _⟩ := (marked_iff env _ (plesFrom_valid env acts 0) k).1 h
  obtain ⟨j, b, hj, _, hpj⟩ := (mem_plesFrom env acts 0 p).1 hp
  have : j < acts.length := by
    rcases Nat.lt_or_ge j acts.length with h | h
    · exact h
    · rw [List.getElem?_eq_none h] at hj; cases hj
  omega

/-- the items of the response of the repaired code: the per-action specification, with `unavailable` for the
created items of an index whose batch the store refused -/
theorem final_items (env : Env) (acts : List Act) (dangling : Option Line) (nl : Bool)
    (hwf : ∀ a ∈ acts, a.wf) (hd : ∀ l, dangling = some l → l.kind ≠ Kind.other ∧ 0 < l.len) :
    (handleReq env (bodyOf acts dangling nl)).items = acts.map (finalStatus env acts) ++ tailItems dangling := by
  obtain ⟨h1, h2, _⟩ := handle_spec env acts dangling nl hwf hd
  rw [handleReq_items, h1, h2]
  apply List.ext_getElem?
  intro k
  rw [getElem?_markCalls]
  rcases Nat.lt_or_ge k acts.length with hk | hk
  · have ha : acts[k]? = some acts[k] := List.getElem?_eq_getElem hk
    have hl : (loopItems env acts dangling)[k]? = some (acts[k].status env) := by
      simp [loopItems, List.getElem?_append_left, hk]
    have hr : (acts.map (finalStatus env acts) ++ tailItems dangling)[k]? = some (finalStatus env acts acts[k]) := by
      simp [List.getElem?_append_left, hk]
    rw [hl, hr]
    by_cases hm : (acts[k].status env = Status.created ∧ refusedIdx env acts acts[k].idxOf = true)
    · rw [if_pos ((marked_action env acts k _ ha).2 hm)]
      simp [finalStatus, hm]
    · have : ¬ (((callsOf env (plesFrom env acts 0)).filter (fun c => !c.accepted)).any
          (fun c => c.docs.any (·.2.2 == k)) = true) := fun h => hm ((marked_action env acts k _ ha).1 h)
      rw [if_neg this]
      simp [finalStatus, hm]
  · rw [not_marked_beyond env acts k hk]
    simp [loopItems, List.getElem?_append_right, hk]


/-- the items the repaired code answers -/
def finalItems (env : Env) (acts : List Act) (dangling : Option Line) : List Status :=
  acts.map (finalStatus env acts) ++ tailItems dangling

theorem finalStatus_ne_created_of (env : Env) (acts : List Act) (a : Act) (h : a.status env ≠ Status.created) :
    finalStatus env acts a = a.status env := by
  simp [finalStatus, h]

/-- `errors` of the repaired code: true iff some item of the response is not `created` -/
theorem final_errors (env : Env) (acts : List Act) (dangling : Option Line) (nl : Bool)
    (hwf : ∀ a ∈ acts, a.wf) (hd : ∀ l, dangling = some l → l.kind ≠ Kind.other ∧ 0 < l.len) :
    (handleReq env (bodyOf acts dangling nl)).errors = (finalItems env acts dangling).any (· ≠ Status.created) := by
  obtain ⟨_, h2, h3⟩ := handle_spec env acts dangling nl hwf hd
  rw [handleReq_errors, h2, h3, Bool.eq_iff_iff]
  simp only [Bool.or_eq_true, List.any_eq_true, decide_eq_true_eq, Bool.not_eq_true', List.isEmpty_eq_false_iff]
  constructor
  · rintro (⟨s, hs, hne⟩ | hB)
    · -- an item the loop already failed
      simp only [loopItems, List.mem_append, List.mem_map] at hs
      rcases hs with ⟨a, ha, rfl⟩ | ht
      · refine ⟨finalStatus env acts a, ?_, ?_⟩
        · simp only [finalItems, List.mem_append, List.mem_map]; exact Or.inl ⟨a, ha, rfl⟩
        · rw [finalStatus_ne_created_of env acts a hne]; exact hne
      · exact ⟨s, by simp only [finalItems, List.mem_append]; exact Or.inr ht, hne⟩
    · -- a refused batch: one of its events marks an item
      obtain ⟨c, hc⟩ := List.exists_mem_of_ne_nil _ hB
      obtain ⟨hc1, _⟩ := List.mem_filter.1 hc
      obtain ⟨_, _, _, hne⟩ := callsOf_res env _ (plesFrom_valid env acts 0) c hc1
      obtain ⟨p, hp⟩ := List.exists_mem_of_ne_nil _ hne
      have hm : ((callsOf env (plesFrom env acts 0)).filter (fun c => !c.accepted)).any
          (fun c => c.docs.any (·.2.2 == p.2.2)) = true := by
        rw [List.any_eq_true]; exact ⟨c, hc, by rw [List.any_eq_true]; exact ⟨p, hp, by simp⟩⟩
      rcases Nat.lt_or_ge p.2.2 acts.length with hk | hk
      · have ha : acts[p.2.2]? = some acts[p.2.2] := List.getElem?_eq_getElem hk
        have hcond := (marked_action env acts p.2.2 _ ha).1 hm
        refine ⟨finalStatus env acts acts[p.2.2], ?_, ?_⟩
        · simp only [finalItems, List.mem_append, List.mem_map]
          exact Or.inl ⟨acts[p.2.2], List.getElem_mem hk, rfl⟩
        · simp [finalStatus, hcond]
      · rw [not_marked_beyond env acts p.2.2 hk] at hm; cases hm
  · rintro ⟨s, hs, hne⟩
    simp only [finalItems, List.mem_append, List.mem_map] at hs
    rcases hs with ⟨a, ha, rfl⟩ | ht
    · by_cases hcond : (a.status env = Status.created ∧ refusedIdx env acts a.idxOf = true)
      · right
        obtain ⟨k, hk⟩ := List.mem_iff_getElem?.1 ha
        have hm := (marked_action env acts k a hk).2 hcond
        intro hnil
        rw [hnil] at hm
        simp at hm
      · left
        have hst : finalStatus env acts a = a.status env := by simp [finalStatus, hcond]
        refine ⟨a.status env, ?_, by rw [← hst]; exact hne⟩
        simp only [loopItems, List.mem_append, List.mem_map]; exact Or.inl ⟨a, ha, rfl⟩
    · left
      exact ⟨s, by simp only [loopItems, List.mem_append]; exact Or.inr ht, hne⟩

/-- the documents of the actions finally answered `created` that address index name `x`, in request order -/
def finalDocsOf (env : Env) (acts : List Act) (x : Nat) : List Nat :=
  (acts.filter (fun a => finalStatus env acts a == Status.created && a.idxOf == x)).map Act.docId

theorem docsOf_eq_filter (env : Env) (acts : List Act) (x : Nat) :
    docsOf env acts x = (acts.filter (fun a => a.status env == Status.created && a.idxOf == x)).map Act.docId := by
  unfold docsOf created
  induction acts with
  | nil => rfl
  | cons a r ih =>
    rw [List.flatMap_cons, List.filter_append, List.map_append, ih, List.filter_cons]
    by_cases hc : a.status env = Status.created
    · rw [storedOf_of_created env a hc]
      by_cases hx : a.idxOf = x
      · simp [hc, hx]
      · simp [hc, hx]
    · rw [storedOf_of_not_created env a hc]
      simp [hc]

/-- the repaired code at the store: for every index name, what the store took is exactly the documents of the
items finally answered created, in request order -/
theorem stored_eq_finalDocs (env : Env) (acts : List Act) (dangling : Option Line) (nl : Bool)
    (hwf : ∀ a ∈ acts, a.wf) (hd : ∀ l, dangling = some l → l.kind ≠ Kind.other ∧ 0 < l.len) (x : Nat) :
    (handleReq env (bodyOf acts dangling nl)).storedUnder x = finalDocsOf env acts x := by
  obtain ⟨_, h2, _⟩ := handle_spec env acts dangling nl hwf hd
  rw [storedUnder_callsOf env _ (plesFrom env acts 0) (by rw [handleReq_calls, h2]) x (plesFrom_valid env acts 0),
    docs_plesFrom]
  unfold finalDocsOf
  cases hs : env.store (env.resolve x) (docsOf env acts x)
  · -- refused: no action addressed to x is finally created
    have : acts.filter (fun a => finalStatus env acts a == Status.created && a.idxOf == x) = [] := by
      rw [List.filter_eq_nil_iff]
      intro a _ h
      simp only [Bool.and_eq_true, beq_iff_eq] at h
      obtain ⟨hf, hx⟩ := h
      have href : refusedIdx env acts a.idxOf = true := by simp [refusedIdx, hx, hs]
      by_cases hc : a.status env = Status.created
      · simp [finalStatus, hc, href] at hf
      · rw [finalStatus_ne_created_of env acts a hc] at hf; exact hc hf
    simp [this]
  · rw [if_pos rfl, docsOf_eq_filter]
    congr 1
    apply List.filter_congr
    intro a _
    by_cases hx : a.idxOf = x
    · have href : refusedIdx env acts a.idxOf = false := by simp [refusedIdx, hx, hs]
      simp [finalStatus, href]
    · have hb : (a.idxOf == x) = false := by simpa using hx
      rw [hb, Bool.and_false, Bool.and_false]

end SigModel.Lemmas.C15
