import SigModel.Model.Bulk
/-
Helper lemmas for C15, part 2 (after the loop): the grouping of the accepted documents into one batch per index
name, `ProcessIndexRequestPle` on such a batch, and what reaches the store.  Everything here is about an
arbitrary list `ples` of (index name, document) pairs; `Props/C15.lean` instantiates it with the loop's result.
-/
namespace SigModel.Lemmas.C15
open SigModel.Bulk

theorem mem_keysOf (l : List Nat) (x : Nat) : x ∈ keysOf l ↔ x ∈ l := by
  induction l with
  | nil => simp [keysOf]
  | cons k r ih =>
    by_cases h : x = k
    · simp [keysOf, h]
    · simp [keysOf, ih, h]

theorem keysOf_nodup (l : List Nat) : (keysOf l).Nodup := by
  induction l with
  | nil => simp [keysOf]
  | cons k r ih =>
    simp only [keysOf, List.nodup_cons]
    refine ⟨?_, ih.filter _⟩
    simp

theorem filter_beq_nodup (l : List Nat) (h : l.Nodup) (x : Nat) :
    l.filter (· == x) = if x ∈ l then [x] else [] := by
  induction l with
  | nil => simp
  | cons k r ih =>
    obtain ⟨hk, hr⟩ := List.nodup_cons.1 h
    by_cases e : k = x
    · subst e
      have : k ∉ r := hk
      simp [ih hr, this]
    · have e' : ¬ x = k := fun h => e h.symm
      simp [ih hr, e, e']

/-- the calls `HandleBulkBody` makes after its loop, as a function of `allPLEs` -/
def callsOf (env : Env) (ples : List (Nat × Nat)) : List Call :=
  (batches ples).map (fun kb => { idx := kb.1, docs := kb.2, res := processPle env kb.1 kb.2 })

theorem handleReq_calls (env : Env) (body : List Line) :
    (handleReq env body).calls = callsOf env (handle env body).ples := rfl

theorem handleReq_st (env : Env) (body : List Line) : (handleReq env body).st = handle env body := rfl

/-- there is at most one call per index name, and it carries exactly the events of that name, in slice order -/
theorem callsOf_filter (env : Env) (ples : List (Nat × Nat)) (x : Nat) :
    (callsOf env ples).filter (·.idx == x) =
      if x ∈ ples.map (·.1) then
        [{ idx := x, docs := ples.filter (·.1 == x), res := processPle env x (ples.filter (·.1 == x)) }]
      else [] := by
  unfold callsOf batches
  rw [List.map_map, List.filter_map]
  have hf : ((fun c : Call => c.idx == x) ∘
      ((fun kb : Nat × List (Nat × Nat) => ({ idx := kb.1, docs := kb.2, res := processPle env kb.1 kb.2 } : Call)) ∘
        fun k => (k, List.filter (fun p => p.1 == k) ples))) = (fun k => k == x) := by
    funext k; rfl
  rw [hf, filter_beq_nodup _ (keysOf_nodup _)]
  by_cases h : x ∈ ples.map (·.1)
  · have h' : x ∈ keysOf (ples.map (·.1)) := (mem_keysOf _ _).2 h
    rw [if_pos h', if_pos h]
    simp only [List.map_cons, List.map_nil, Function.comp]
  · have h' : x ∉ keysOf (ples.map (·.1)) := fun hh => h ((mem_keysOf _ _).1 hh)
    rw [if_neg h', if_neg h]
    simp only [List.map_nil]

/-- a batch built by the grouping passes the index-name consistency check of `ProcessIndexRequestPle` -/
theorem processPle_own (env : Env) (ples : List (Nat × Nat)) (x : Nat) (hv : env.valid x = true) :
    processPle env x (ples.filter (·.1 == x)) =
      if env.store (env.resolve x) ((ples.filter (·.1 == x)).map (·.2)) then .stored (env.resolve x)
      else .refused (env.resolve x) := by
  have h : (ples.filter (·.1 == x)).any (·.1 != x) = false := by
    rw [List.any_eq_false]
    intro p hp
    have := (List.mem_filter.1 hp).2
    simp at this
    simp [this]
  simp [processPle, h, hv]

theorem filter_nil_of_not_mem (ples : List (Nat × Nat)) (x : Nat) (h : x ∉ ples.map (·.1)) :
    ples.filter (·.1 == x) = [] := by
  rw [List.filter_eq_nil_iff]
  intro p hp he
  apply h
  simp at he
  exact List.mem_map.2 ⟨p, hp, he⟩

/-- everything handed over under index name `x` = the events that carry `x`, in slice order -/
theorem handedUnder_callsOf (env : Env) (st : St) (ples : List (Nat × Nat)) (x : Nat) :
    ({ st := st, calls := callsOf env ples } : Resp).handedUnder x = ples.filter (·.1 == x) := by
  unfold Resp.handedUnder
  simp only [callsOf_filter]
  by_cases h : x ∈ ples.map (·.1)
  · simp [h]
  · rw [filter_nil_of_not_mem ples x h]; simp [h]

/-- what the store took under index name `x`: the documents of `x` if it accepted their batch, nothing otherwise -/
theorem storedUnder_callsOf (env : Env) (st : St) (ples : List (Nat × Nat)) (x : Nat)
    (hv : ∀ p ∈ ples, env.valid p.1 = true) :
    ({ st := st, calls := callsOf env ples } : Resp).storedUnder x =
      if env.store (env.resolve x) ((ples.filter (·.1 == x)).map (·.2)) then (ples.filter (·.1 == x)).map (·.2)
      else [] := by
  unfold Resp.storedUnder
  have hsplit : (callsOf env ples).filter (fun c => c.idx == x && c.accepted) =
      ((callsOf env ples).filter (·.idx == x)).filter (·.accepted) := by
    rw [List.filter_filter]; congr 1; funext c; exact Bool.and_comm _ _
  rw [hsplit, callsOf_filter]
  by_cases h : x ∈ ples.map (·.1)
  · obtain ⟨p, hp, hpx⟩ := List.mem_map.1 h
    have hvx : env.valid x = true := hpx ▸ hv p hp
    rw [if_pos h, processPle_own env ples x hvx]
    cases hs : env.store (env.resolve x) ((ples.filter (·.1 == x)).map (·.2)) <;>
      simp [Call.accepted]
  · rw [filter_nil_of_not_mem ples x h]; simp [h]

/-- every call the grouping produces reaches the store, under the real index of its own name -/
theorem callsOf_res (env : Env) (ples : List (Nat × Nat)) (hv : ∀ p ∈ ples, env.valid p.1 = true)
    (c : Call) (hc : c ∈ callsOf env ples) :
    (c.res = .stored (env.resolve c.idx) ∨ c.res = .refused (env.resolve c.idx)) ∧
    (∀ p ∈ c.docs, p.1 = c.idx) ∧ c.docs = ples.filter (·.1 == c.idx) ∧ c.docs ≠ [] := by
  have hmem : c ∈ (callsOf env ples).filter (·.idx == c.idx) := by
    rw [List.mem_filter]; exact ⟨hc, by simp⟩
  rw [callsOf_filter] at hmem
  by_cases h : c.idx ∈ ples.map (·.1)
  · rw [if_pos h] at hmem
    have hc' := List.mem_singleton.1 hmem
    obtain ⟨p, hp, hpx⟩ := List.mem_map.1 h
    have hvx : env.valid c.idx = true := hpx ▸ hv p hp
    have hdocs : c.docs = ples.filter (·.1 == c.idx) := by
      have := congrArg Call.docs hc'; simpa using this
    have hres : c.res = processPle env c.idx (ples.filter (·.1 == c.idx)) := by
      have := congrArg Call.res hc'; simpa using this
    refine ⟨?_, ?_, hdocs, ?_⟩
    · rw [hres, processPle_own env ples c.idx hvx]
      cases env.store (env.resolve c.idx) ((ples.filter (·.1 == c.idx)).map (·.2)) <;> simp
    · intro q hq
      rw [hdocs] at hq
      have := (List.mem_filter.1 hq).2
      simpa using this
    · rw [hdocs]
      intro hnil
      have : p ∈ ples.filter (·.1 == c.idx) := List.mem_filter.2 ⟨hp, by simp [hpx]⟩
      rw [hnil] at this
      cases this
  · rw [if_neg h] at hmem; cases hmem

/-- at most one call per index name -/
theorem callsOf_count (env : Env) (ples : List (Nat × Nat)) (x : Nat) :
    ((callsOf env ples).filter (·.idx == x)).length ≤ 1 := by
  rw [callsOf_filter]
  split <;> simp

end SigModel.Lemmas.C15
