/-
C01 lemmas, part a: little-endian integers, one TLV record (encode / frame / decode / GetCvalFromRec).
Core Lean only.
-/
import SigModel.Model.Tlv

namespace SigModel.Lemmas.C01
open SigModel.Tlv

/-! ### tags as numerals -/
theorem tBool_eq : tBool = 1 := rfl
theorem tStr_eq : tStr = 2 := rfl
theorem tU8_eq : tU8 = 3 := rfl
theorem tU16_eq : tU16 = 4 := rfl
theorem tU32_eq : tU32 = 5 := rfl
theorem tU64_eq : tU64 = 6 := rfl
theorem tI8_eq : tI8 = 7 := rfl
theorem tI16_eq : tI16 = 8 := rfl
theorem tI32_eq : tI32 = 9 := rfl
theorem tI64_eq : tI64 = 16 := rfl
theorem tF64_eq : tF64 = 17 := rfl
theorem tBackfill_eq : tBackfill = 19 := rfl
theorem tDictArr_eq : tDictArr = 20 := rfl
theorem tRawJson_eq : tRawJson = 21 := rfl
theorem encTsTopdiff_eq : encTsTopdiff = 2 := rfl
theorem maxRecordSize_eq : maxRecordSize = 63000 := rfl
theorem maxRecsPerWip_eq : maxRecsPerWip = 65534 := rfl
theorem cardLimit_eq : cardLimit = 501 := rfl

/-- all tag facts for `simp` -/
theorem tags : tBool = 1 ∧ tStr = 2 ∧ tU8 = 3 ∧ tU16 = 4 ∧ tU32 = 5 ∧ tU64 = 6 ∧ tI8 = 7 ∧ tI16 = 8 ∧ tI32 = 9 ∧
    tI64 = 16 ∧ tF64 = 17 ∧ tBackfill = 19 ∧ tDictArr = 20 ∧ tRawJson = 21 := by
  refine ⟨rfl, rfl, rfl, rfl, rfl, rfl, rfl, rfl, rfl, rfl, rfl, rfl, rfl, rfl⟩

/-! ### little endian -/

theorem leN_length (w n : Nat) : (leN w n).length = w := by
  induction w generalizing n with
  | zero => rfl
  | succ w ih => simp [leN, ih]

theorem rdN_leN (w n : Nat) (r : Bytes) (h : n < 256 ^ w) : rdN w (leN w n ++ r) = some (n, r) := by
  induction w generalizing n with
  | zero =>
    have : n = 0 := by simpa using h
    subst this; rfl
  | succ w ih =>
    have h' : n / 256 < 256 ^ w := by
      apply Nat.div_lt_of_lt_mul
      rw [Nat.pow_succ] at h; omega
    simp only [leN, List.cons_append, rdN, ih (n / 256) h']
    have := Nat.mod_add_div n 256
    simp; omega

theorem rdN_none_of_short (w : Nat) (bs : Bytes) (h : bs.length < w) : rdN w bs = none := by
  induction w generalizing bs with
  | zero => omega
  | succ w ih =>
    cases bs with
    | nil => rfl
    | cons b r =>
      have : r.length < w := by simp at h; omega
      simp [rdN, ih r this]

theorem rdN_some_of_long (w : Nat) (bs : Bytes) (h : w ≤ bs.length) : ∃ v, rdN w bs = some (v, bs.drop w) := by
  induction w generalizing bs with
  | zero => exact ⟨0, rfl⟩
  | succ w ih =>
    cases bs with
    | nil => simp at h
    | cons b r =>
      have : w ≤ r.length := by simp at h; omega
      obtain ⟨v, hv⟩ := ih r this
      exact ⟨b + 256 * v, by simp [rdN, hv]⟩

/-! ### one record -/

theorem kindOfTag_tag (k : NumKind) : kindOfTag k.tag = some k := by
  cases k <;> decide

theorem tag_ne (k : NumKind) : k.tag ≠ tStr ∧ k.tag ≠ tBool ∧ k.tag ≠ tBackfill ∧ k.tag ≠ tDictArr ∧ k.tag ≠ tRawJson := by
  cases k <;> decide

theorem fixedLen_tag (k : NumKind) : fixedLen k.tag = some (1 + k.width) := by
  cases k <;> decide

theorem encTLV_length_pos (v : Val) : 1 ≤ (encTLV v).length := by
  cases v <;> simp [encTLV]

theorem encTLV_str_wf (s : Bytes) (h : s.length < 65536) : encTLV (.str s) = tStr :: (leN 2 s.length ++ s) := by
  simp [encTLV, Nat.mod_eq_of_lt h]

/-- framing: the length computed by `getCurrentRecordLength` is the length the writer produced -/
theorem recLen_encTLV (v : Val) (r : Bytes) (h : wf v) : recLen (encTLV v ++ r) = .ok (encTLV v).length := by
  cases v with
  | str s =>
    have h' : s.length < 65536 := h
    rw [encTLV_str_wf s h']
    have hr : rdN 2 (leN 2 s.length ++ (s ++ r)) = some (s.length, s ++ r) := rdN_leN 2 _ _ (by simpa using h')
    simp [recLen, hr, leN_length]
    omega
  | bool b => simp [recLen, encTLV, fixedLen, tags]
  | num k bits =>
    obtain ⟨h1, _, _, h4, h5⟩ := tag_ne k
    simp [recLen, encTLV, h1, h4, h5, fixedLen_tag, leN_length]
    omega
  | backfill => simp [recLen, encTLV, fixedLen, tags]

/-- the same for EVERY value, well-formed or not (an over-long string is cut by the writer to the length it announces) -/
theorem recLen_encTLV_any (v : Val) (r : Bytes) : recLen (encTLV v ++ r) = .ok (encTLV v).length := by
  cases v with
  | str s =>
    have hlt : s.length % 65536 < 65536 := Nat.mod_lt _ (by decide)
    have hle : s.length % 65536 ≤ s.length := Nat.mod_le _ _
    have hr : rdN 2 (leN 2 (s.length % 65536) ++ (s.take (s.length % 65536) ++ r))
        = some (s.length % 65536, s.take (s.length % 65536) ++ r) := rdN_leN 2 _ _ (by simpa using hlt)
    simp [recLen, encTLV, hr, leN_length, List.length_take, Nat.min_eq_left hle]
    omega
  | bool b => simp [recLen, encTLV, fixedLen, tags]
  | num k bits =>
    obtain ⟨h1, _, _, h4, h5⟩ := tag_ne k
    simp [recLen, encTLV, h1, h4, h5, fixedLen_tag, leN_length]
    omega
  | backfill => simp [recLen, encTLV, fixedLen, tags]

/-- C01.1 core: decoding what the writer wrote gives the value back, whatever follows -/
theorem decTLV_encTLV (v : Val) (r : Bytes) (h : wf v) : decTLV (encTLV v ++ r) = some (v, r) := by
  cases v with
  | str s =>
    have h' : s.length < 65536 := h
    rw [encTLV_str_wf s h']
    have hr : rdN 2 (leN 2 s.length ++ (s ++ r)) = some (s.length, s ++ r) := rdN_leN 2 _ _ (by simpa using h')
    simp [decTLV, hr]
  | bool b => cases b <;> simp [decTLV, encTLV, tags]
  | num k bits =>
    obtain ⟨h1, h2, h3, _, _⟩ := tag_ne k
    have h' : bits < 256 ^ k.width := h
    simp [decTLV, encTLV, h1, h2, h3, kindOfTag_tag, rdN_leN _ _ _ h']
  | backfill => simp [decTLV, encTLV, tags]

/-! ### GetCvalFromRec -/

/-- what `GetCvalFromRec` can address: its end index is a uint16 -/
def wfDec : Val → Prop
  | .str s => s.length + 3 < 65536
  | .num k bits => bits < 256 ^ k.width
  | _ => True

theorem wf_of_wfDec (v : Val) (h : wfDec v) : wf v := by
  cases v <;> simp_all [wf, wfDec]
  omega

theorem getCval_encTLV (v : Val) (r : Bytes) (h : wfDec v) :
    getCval (encTLV v ++ r) = .ok (cvalOf v, (encTLV v).length) := by
  cases v with
  | str s =>
    have h' : s.length + 3 < 65536 := h
    have h2 : s.length < 65536 := by omega
    rw [encTLV_str_wf s h2]
    have hr : rdN 2 (leN 2 s.length ++ (s ++ r)) = some (s.length, s ++ r) := rdN_leN 2 _ _ (by simpa using h2)
    simp [getCval, hr, Nat.mod_eq_of_lt h', leN_length, cvalOf]
    rw [if_neg (by omega), if_pos (by omega)]
    congr 2
    omega
  | bool b => cases b <;> simp [getCval, encTLV, tags, cvalOf]
  | num k bits =>
    obtain ⟨h1, h2, h3, h4, h5⟩ := tag_ne k
    have h' : bits < 256 ^ k.width := h
    simp [getCval, encTLV, h1, h2, h3, h4, h5, kindOfTag_tag, rdN_leN _ _ _ h', cvalOf, leN_length]
    omega
  | backfill => simp [getCval, encTLV, tags, cvalOf]

/-- two's-complement reading is injective on `w`-byte patterns -/
theorem sext_inj (w a b : Nat) (ha : a < 256 ^ w) (hb : b < 256 ^ w) (hw : 0 < w) (h : sext w a = sext w b) : a = b := by
  unfold sext at h
  have hp : 2 * (256 ^ w / 2) = 256 ^ w := by
    cases w with
    | zero => omega
    | succ w => rw [Nat.pow_succ]; omega
  split at h <;> split at h <;> omega

/-- the enclosure loses nothing: two well-formed values of the same kind with the same enclosure are equal -/
theorem cvalOf_inj (v w : Val) (hv : wf v) (hw : wf w)
    (hk : ∀ k bits k' bits', v = .num k bits → w = .num k' bits' → k = k') (h : cvalOf v = cvalOf w) : v = w := by
  cases v with
  | str s => cases w <;> simp_all [cvalOf] <;> (rename_i k b; cases k <;> simp [cvalOfNum] at h)
  | bool b => cases w <;> simp_all [cvalOf] <;> (rename_i k b; cases k <;> simp [cvalOfNum] at h)
  | backfill => cases w <;> simp_all [cvalOf] <;> (rename_i k b; cases k <;> simp [cvalOfNum] at h)
  | num k bits =>
    cases w with
    | num k' bits' =>
      have := hk k bits k' bits' rfl rfl
      subst this
      have h1 : bits < 256 ^ k.width := hv
      have h2 : bits' < 256 ^ k.width := hw
      cases k <;> simp [cvalOf, cvalOfNum] at h <;> simp [NumKind.width] at h1 h2
      all_goals first
        | (subst h; rfl)
        | (have := sext_inj _ _ _ (by simpa using h1) (by simpa using h2) (by decide) h; subst this; rfl)
    | str s => cases k <;> simp [cvalOf, cvalOfNum] at h
    | bool b => cases k <;> simp [cvalOf, cvalOfNum] at h
    | backfill => cases k <;> simp [cvalOf, cvalOfNum] at h

end SigModel.Lemmas.C01
