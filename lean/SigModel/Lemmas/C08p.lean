/-
Helper lemmas for C08 (TSID pre-image, Spec/Metrics.lean `preimageB`): a length-prefixed concatenation
determines its fields.
-/
import SigModel.Spec.Metrics

namespace SigModel.Lemmas.C08p
open SigModel.Spec.Metrics

theorem le32_length (n : Nat) : (le32 n).length = 4 := rfl

theorem le32_inj {n m : Nat} (hn : n < 2 ^ 32) (hm : m < 2 ^ 32) (h : le32 n = le32 m) : n = m := by
  simp only [le32, List.cons.injEq, and_true] at h
  omega

/-- a length-prefixed field followed by anything determines the field and the rest -/
theorem fieldB_append_inj {a b x y : List Nat} (ha : a.length < 2 ^ 32) (hb : b.length < 2 ^ 32)
    (h : fieldB a ++ x = fieldB b ++ y) : a = b ∧ x = y := by
  simp only [fieldB, List.append_assoc] at h
  have h1 := List.append_inj h (by simp [le32_length])
  have hl : a.length = b.length := le32_inj ha hb h1.1
  have h2 := List.append_inj h1.2 hl
  exact ⟨h2.1, h2.2⟩

def fitsTag (kv : List Nat × List Nat) : Prop := kv.1.length < 2 ^ 32 ∧ kv.2.length < 2 ^ 32

theorem encTag_ne_nil (kv : List Nat × List Nat) (r : List Nat) : encTag kv ++ r ≠ [] := by
  simp [encTag, fieldB, le32]

theorem tags_inj : ∀ (t1 t2 : List (List Nat × List Nat)),
    (∀ kv ∈ t1, fitsTag kv) → (∀ kv ∈ t2, fitsTag kv) →
    (t1.map encTag).flatten = (t2.map encTag).flatten → t1 = t2
  | [], [], _, _, _ => rfl
  | [], kv :: r, _, _, h => by
    simp only [List.map_nil, List.flatten_nil, List.map_cons, List.flatten_cons] at h
    exact absurd h.symm (encTag_ne_nil kv _)
  | kv :: r, [], _, _, h => by
    simp only [List.map_nil, List.flatten_nil, List.map_cons, List.flatten_cons] at h
    exact absurd h (encTag_ne_nil kv _)
  | (k1, v1) :: r1, (k2, v2) :: r2, f1, f2, h => by
    simp only [List.map_cons, List.flatten_cons, encTag, List.append_assoc] at h
    have g1 := f1 (k1, v1) (by simp)
    have g2 := f2 (k2, v2) (by simp)
    obtain ⟨hk, h'⟩ := fieldB_append_inj g1.1 g2.1 h
    have h'' := List.append_cancel_left h'
    obtain ⟨hv, hr⟩ := fieldB_append_inj g1.2 g2.2 h''
    have ih := tags_inj r1 r2 (fun kv hkv => f1 kv (by simp [hkv])) (fun kv hkv => f2 kv (by simp [hkv])) hr
    have hk' : k1 = k2 := hk
    have hv' : v1 = v2 := hv
    rw [hk', hv', ih]

theorem preimageB_inj (n1 n2 : List Nat) (t1 t2 : List (List Nat × List Nat))
    (hn1 : n1.length < 2 ^ 32) (hn2 : n2.length < 2 ^ 32)
    (f1 : ∀ kv ∈ t1, fitsTag kv) (f2 : ∀ kv ∈ t2, fitsTag kv)
    (h : preimageB n1 t1 = preimageB n2 t2) : n1 = n2 ∧ t1 = t2 := by
  simp only [preimageB, List.append_assoc] at h
  obtain ⟨hn, h'⟩ := fieldB_append_inj hn1 hn2 h
  have h'' := List.append_cancel_left h'
  exact ⟨hn, tags_inj t1 t2 f1 f2 h''⟩

end SigModel.Lemmas.C08p
