/-
Helper lemmas for C11 (part 6): the get-or-create machine of the segstore table (`Model/ConcCreate.lean`) with the
program order of createSegStore extracted from the source (`Cfg.real`): the state invariant, its preservation by
every step (under the eviction guard when `g = true`; the lock / suffix part also without it, `g = false`), and
the invariant of eviction-free runs "every store ever built is registered or about to be".
-/
import SigModel.Model.ConcCreate
set_option linter.unusedSimpArgs false
set_option linter.unusedVariables false
namespace SigModel.Lemmas.C11f
open SigModel.ConcCreate

abbrev P0 : List CStep := [.lock, .recheck, .sufRead, .sufWrite, .insert, .unlock]
abbrev P1 : List CStep := [.recheck, .sufRead, .sufWrite, .insert, .unlock]
abbrev P2 : List CStep := [.sufRead, .sufWrite, .insert, .unlock]
abbrev P3 : List CStep := [.sufWrite, .insert, .unlock]
abbrev P4 : List CStep := [.insert, .unlock]
abbrev P5 : List CStep := [.unlock]

/-- the store a call is about to append to exists, belongs to the call's stream and (guarded runs) is registered -/
def RetOk (g : Bool) (s : St) (th : Thread) : Prop :=
  ∃ r, th.ret = some r ∧ r < s.nstores ∧ (s.store r).stream = th.stream ∧ (g = true → s.table th.stream = some r)

/-- what is known about call `t`, by program counter -/
def ThreadOk (g : Bool) (s : St) (t : Nat) : Prop :=
  match (s.thread t).pc with
  | .idle => s.lock ≠ some t
  | .create todo =>
      t ∈ s.started ∧
      ((todo = P0 ∧ s.lock ≠ some t) ∨
       (todo = P1 ∧ s.lock = some t) ∨
       (todo = P2 ∧ s.lock = some t ∧ s.table (s.thread t).stream = none) ∨
       (todo = P3 ∧ s.lock = some t ∧ s.table (s.thread t).stream = none ∧
          (s.thread t).suf = s.sufFile (s.thread t).stream) ∨
       (todo = P4 ∧ s.lock = some t ∧ s.table (s.thread t).stream = none ∧
          ∃ m, (s.thread t).mine = some m ∧ m < s.nstores ∧ (s.store m).stream = (s.thread t).stream) ∨
       (todo = P5 ∧ s.lock = some t ∧ RetOk g s (s.thread t)))
  | .append => t ∈ s.started ∧ s.lock ≠ some t ∧ RetOk g s (s.thread t)
  | .done => t ∈ s.started ∧ s.lock ≠ some t ∧ ∃ r, (t, r) ∈ s.acked

structure Inv (g : Bool) (s : St) : Prop where
  th : ∀ t, ThreadOk g s t
  tab : ∀ i r, s.table i = some r → r < s.nstores ∧ (s.store r).stream = i
  ack : g = true → ∀ e r, (e, r) ∈ s.acked →
        r < s.nstores ∧ (e ∈ s.persisted ∨ (e ∈ (s.store r).events ∧ s.table (s.store r).stream = some r))
  sufH : ∀ i k, (i, k) ∈ s.handed → k < s.sufFile i
  nodup : s.handed.Nodup

/-- the eviction guard of one step -/
def stepOk (s : St) : Label → Prop
  | .evict i => ∀ t, t ∈ s.started → holdsRegistered s i t = false
  | _ => True

theorem inv_init (g : Bool) : Inv g init := by
  constructor <;> simp [init, ThreadOk]

/-- what a step by somebody else must leave alone for `ThreadOk g · u` to survive -/
theorem threadOk_frame {g : Bool} {s s' : St} {u : Nat}
    (hth : s'.thread u = s.thread u)
    (hst : ∀ x, x ∈ s.started → x ∈ s'.started)
    (hlk : s'.lock = some u ↔ s.lock = some u)
    (htab : (s.lock = some u ∨ ((s.thread u).pc = .append ∧ g = true)) →
        s'.table (s.thread u).stream = s.table (s.thread u).stream)
    (hsuf : s.lock = some u → s'.sufFile (s.thread u).stream = s.sufFile (s.thread u).stream)
    (hn : s.nstores ≤ s'.nstores)
    (hstr : ∀ m, m < s.nstores → (s'.store m).stream = (s.store m).stream)
    (hack : ∀ p, p ∈ s.acked → p ∈ s'.acked)
    (h : ThreadOk g s u) : ThreadOk g s' u := by
  have hret : (s.lock = some u ∨ (s.thread u).pc = .append) → RetOk g s (s.thread u) → RetOk g s' (s.thread u) := by
    intro hc ⟨r, h1, h2, h3, h4⟩
    exact ⟨r, h1, by omega, by rw [hstr r h2]; exact h3,
      fun hg => by rw [htab (hc.elim Or.inl (fun hp => Or.inr ⟨hp, hg⟩))]; exact h4 hg⟩
  unfold ThreadOk at h ⊢
  rw [hth]
  cases hpc : (s.thread u).pc with
  | idle => simp only [hpc] at h ⊢; rw [Ne, hlk]; exact h
  | create todo =>
    simp only [hpc] at h ⊢
    obtain ⟨h0, h⟩ := h
    refine ⟨hst _ h0, ?_⟩
    rcases h with ⟨h1, h2⟩ | ⟨h1, h2⟩ | ⟨h1, h2, h3⟩ | ⟨h1, h2, h3, h4⟩ | ⟨h1, h2, h3, m, h4, h5, h6⟩ | ⟨h1, h2, h3⟩
    · exact Or.inl ⟨h1, by rw [Ne, hlk]; exact h2⟩
    · exact Or.inr (Or.inl ⟨h1, hlk.2 h2⟩)
    · exact Or.inr (Or.inr (Or.inl ⟨h1, hlk.2 h2, by rw [htab (Or.inl h2)]; exact h3⟩))
    · exact Or.inr (Or.inr (Or.inr (Or.inl ⟨h1, hlk.2 h2, by rw [htab (Or.inl h2)]; exact h3,
        by rw [hsuf h2]; exact h4⟩)))
    · exact Or.inr (Or.inr (Or.inr (Or.inr (Or.inl ⟨h1, hlk.2 h2, by rw [htab (Or.inl h2)]; exact h3,
        m, h4, by omega, by rw [hstr m h5]; exact h6⟩))))
    · exact Or.inr (Or.inr (Or.inr (Or.inr (Or.inr ⟨h1, hlk.2 h2, hret (Or.inl h2) h3⟩))))
  | append =>
    simp only [hpc] at h ⊢
    exact ⟨hst _ h.1, by rw [Ne, hlk]; exact h.2.1, hret (Or.inr hpc) h.2.2⟩
  | done =>
    simp only [hpc] at h ⊢
    obtain ⟨h0, h1, r, h2⟩ := h
    exact ⟨hst _ h0, by rw [Ne, hlk]; exact h1, r, hack _ h2⟩

/-- a call that holds the lock is inside createSegStore, past its `lock` statement -/
theorem holder_pc {g : Bool} {s : St} {t : Nat} (h : ThreadOk g s t) (hl : s.lock = some t) :
    ∃ todo, (s.thread t).pc = .create todo ∧
      (todo = P1 ∨ todo = P2 ∨ todo = P3 ∨ todo = P4 ∨ todo = P5) := by
  unfold ThreadOk at h
  cases hpc : (s.thread t).pc with
  | idle => simp [hpc, hl] at h
  | append => simp [hpc, hl] at h
  | done => simp [hpc, hl] at h
  | create todo =>
    simp only [hpc] at h
    refine ⟨todo, rfl, ?_⟩
    rcases h.2 with ⟨_, h2⟩ | ⟨h1, _⟩ | ⟨h1, _⟩ | ⟨h1, _⟩ | ⟨h1, _⟩ | ⟨h1, _⟩
    · exact absurd hl h2
    all_goals simp [h1]

/-- first step of a call: getSegStore -/
theorem inv_get {g : Bool} {s : St} {t i : Nat} (h : Inv g s) (hpc : (s.thread t).pc = .idle) :
    Inv g (callStep Cfg.real s t i) := by
  unfold callStep
  simp only [hpc]
  cases hl : s.lock with
  | some x => simpa using h
  | none =>
    cases htb : s.table i with
    | some r =>
      simp only []
      have ht := h.tab i r htb
      constructor
      · intro u
        by_cases hu : u = t
        · subst hu
          simp [ThreadOk, upd, RetOk, hl, htb, ht.1, ht.2]
        · apply threadOk_frame (s := s) _ _ _ _ _ _ _ _ (h.th u) <;> simp [upd, hu, hl]
          intro x hx; exact Or.inl hx
      · exact h.tab
      · exact h.ack
      · exact h.sufH
      · exact h.nodup
    | none =>
      simp only []
      constructor
      · intro u
        by_cases hu : u = t
        · subst hu
          simp [ThreadOk, upd, afterCreate, Cfg.real, hl]
        · apply threadOk_frame (s := s) _ _ _ _ _ _ _ _ (h.th u) <;> simp [upd, hu, hl]
          intro x hx; exact Or.inl hx
      · exact h.tab
      · exact h.ack
      · exact h.sufH
      · exact h.nodup


theorem nodup_snoc {α : Type} {l : List α} {a : α} (h : l.Nodup) (ha : a ∉ l) : (l ++ [a]).Nodup := by
  rw [List.nodup_append]
  refine ⟨h, by simp, ?_⟩
  intro x hx y hy
  simp at hy; subst hy
  intro hxy; subst hxy
  exact ha hx

/-- a call that does not hold the lock is not past `lock` inside createSegStore -/
theorem other_not_holder {g : Bool} {s : St} {t u : Nat} (hl : s.lock = some t) (hu : u ≠ t) :
    s.lock ≠ some u := by
  rw [hl]; intro h; exact hu (Option.some.inj h).symm

/-- the statements of createSegStore -/
theorem inv_create {g : Bool} {s : St} {t i : Nat} {a : CStep} {rest : List CStep} (h : Inv g s)
    (hpc : (s.thread t).pc = .create (a :: rest)) : Inv g (callStep Cfg.real s t i) := by
  have ht := h.th t
  unfold ThreadOk at ht
  simp only [hpc] at ht
  obtain ⟨hst, ht⟩ := ht
  unfold callStep
  simp only [hpc]
  rcases ht with ⟨h1, h2⟩ | ⟨h1, h2⟩ | ⟨h1, h2, h3⟩ | ⟨h1, h2, h3, h4⟩ | ⟨h1, h2, h3, m, h4, h5, h6⟩ | ⟨h1, h2, r, h3, h4, h5, h6⟩
  · -- lock
    injection h1 with ha hr; subst ha; subst hr
    unfold createStep
    cases hl : s.lock with
    | some x => simpa using h
    | none =>
      simp only []
      constructor
      · intro u
        by_cases hu : u = t
        · subst hu; simp [ThreadOk, upd, afterCreate, hst]
        · apply threadOk_frame (s := s) _ _ _ _ _ _ _ _ (h.th u) <;> simp [upd, hu, hl]
          intro hc; exact hu hc.symm
      · exact h.tab
      · exact h.ack
      · exact h.sufH
      · exact h.nodup
  · -- recheck
    injection h1 with ha hr; subst ha; subst hr
    unfold createStep
    simp only []
    cases htb : s.table (s.thread t).stream with
    | some r =>
      simp only [if_pos h2]
      have htr := h.tab _ r htb
      constructor
      · intro u
        by_cases hu : u = t
        · subst hu; simp [ThreadOk, upd, afterCreate, hst, h2, RetOk, htb, htr.1, htr.2]
        · apply threadOk_frame (s := s) _ _ _ _ _ _ _ _ (h.th u) <;> simp [upd, hu]
      · exact h.tab
      · exact h.ack
      · exact h.sufH
      · exact h.nodup
    | none =>
      simp only []
      constructor
      · intro u
        by_cases hu : u = t
        · subst hu; simp [ThreadOk, upd, afterCreate, hst, h2, htb]
        · apply threadOk_frame (s := s) _ _ _ _ _ _ _ _ (h.th u) <;> simp [upd, hu]
      · exact h.tab
      · exact h.ack
      · exact h.sufH
      · exact h.nodup
  · -- sufRead
    injection h1 with ha hr; subst ha; subst hr
    unfold createStep
    simp only []
    constructor
    · intro u
      by_cases hu : u = t
      · subst hu; simp [ThreadOk, upd, afterCreate, hst, h2, h3]
      · apply threadOk_frame (s := s) _ _ _ _ _ _ _ _ (h.th u) <;> simp [upd, hu]
    · exact h.tab
    · exact h.ack
    · exact h.sufH
    · exact h.nodup
  · -- sufWrite
    injection h1 with ha hr; subst ha; subst hr
    unfold createStep
    simp only []
    constructor
    · intro u
      by_cases hu : u = t
      · subst hu; simp [ThreadOk, upd, afterCreate, hst, h2, h3]
      · have hnl := other_not_holder (g := g) h2 hu
        apply threadOk_frame (s := s) _ _ _ _ _ _ _ _ (h.th u) <;> simp [upd, hu, hnl]
        intro m hm
        have hne : m ≠ s.nstores := by omega
        simp [hne]
    · intro j r hjr
      have := h.tab j r hjr
      have hne : r ≠ s.nstores := by omega
      simp [upd, hne]
      exact ⟨by omega, this.2⟩
    · intro hg e r her
      have := h.ack hg e r her
      have hne : r ≠ s.nstores := by omega
      simp [upd, hne]
      exact ⟨by omega, this.2⟩
    · intro j k hjk
      simp at hjk
      rcases hjk with hjk | ⟨hj, hk⟩
      · have := h.sufH j k hjk
        by_cases hj : j = (s.thread t).stream
        · subst hj; simp [upd]; omega
        · simp [upd, hj]; exact this
      · subst hj; subst hk; simp [upd]
    · apply nodup_snoc h.nodup
      intro hmem
      have := h.sufH _ _ hmem
      omega
  · -- insert
    injection h1 with ha hr; subst ha; subst hr
    unfold createStep
    simp only [h4]
    constructor
    · intro u
      by_cases hu : u = t
      · subst hu; simp [ThreadOk, upd, afterCreate, hst, h2, RetOk, h5, h6]
      · have hnl := other_not_holder (g := g) h2 hu
        have hou := h.th u
        apply threadOk_frame (s := s) _ _ _ _ _ _ _ _ hou <;> simp [upd, hu, hnl]
        -- a call about to append on the same stream would see a registered store, but the table has none
        intro hap hg hsame
        unfold ThreadOk at hou
        simp only [hap] at hou
        obtain ⟨_, _, r, _, _, _, hreg⟩ := hou
        have := hreg hg
        rw [hsame, h3] at this
        exact absurd this (by simp)
    · intro j r hjr
      by_cases hj : j = (s.thread t).stream
      · subst hj
        simp [upd] at hjr
        subst hjr
        exact ⟨h5, h6⟩
      · simp [upd, hj] at hjr
        exact h.tab j r hjr
    · intro hg e r her
      have ha := h.ack hg e r her
      refine ⟨ha.1, ?_⟩
      rcases ha.2 with hp | ⟨he, hreg⟩
      · exact Or.inl hp
      · right
        refine ⟨he, ?_⟩
        have hne : (s.store r).stream ≠ (s.thread t).stream := by
          intro hc; rw [hc, h3] at hreg; exact absurd hreg (by simp)
        simp [upd, hne]
        exact hreg
    · exact h.sufH
    · exact h.nodup
  · -- unlock
    injection h1 with ha hr; subst ha; subst hr
    unfold createStep
    simp only [if_pos h2]
    constructor
    · intro u
      by_cases hu : u = t
      · subst hu; simp [ThreadOk, upd, afterCreate, hst, RetOk, h3, h4, h5]; exact h6
      · have hnl := other_not_holder (g := g) h2 hu
        apply threadOk_frame (s := s) _ _ _ _ _ _ _ _ (h.th u) <;> simp [upd, hu, hnl]
    · exact h.tab
    · exact h.ack
    · exact h.sufH
    · exact h.nodup

/-- AddEntry -/
theorem inv_append {g : Bool} {s : St} {t i : Nat} (h : Inv g s) (hpc : (s.thread t).pc = .append) :
    Inv g (callStep Cfg.real s t i) := by
  have ht := h.th t
  unfold ThreadOk at ht
  simp only [hpc] at ht
  obtain ⟨hst, hnl, r, h3, h4, h5, h6⟩ := ht
  unfold callStep
  simp only [hpc, h3]
  constructor
  · intro u
    by_cases hu : u = t
    · subst hu; simp [ThreadOk, upd, hst, hnl]
    · apply threadOk_frame (s := s) _ _ _ _ _ _ _ _ (h.th u) <;> simp [upd, hu]
      · intro m hm; by_cases hmr : m = r <;> simp [hmr]
      · intro a b hab; exact Or.inl hab
  · intro j r' hjr
    have := h.tab j r' hjr
    refine ⟨this.1, ?_⟩
    by_cases hmr : r' = r <;> simp [upd, hmr]
    · subst hmr; exact this.2
    · exact this.2
  · intro hg e r' her
    have hstr : ∀ m, ((upd s.store r { s.store r with events := (s.store r).events ++ [t] }) m).stream = (s.store m).stream := by
      intro m; by_cases hmr : m = r <;> simp [upd, hmr]
    simp at her
    rcases her with her | ⟨he, hr⟩
    · have ha := h.ack hg e r' her
      refine ⟨ha.1, ?_⟩
      rcases ha.2 with hp | ⟨hev, hreg⟩
      · exact Or.inl hp
      · right
        simp only [hstr]
        refine ⟨?_, hreg⟩
        by_cases hmr : r' = r <;> simp [upd, hmr]
        · subst hmr; exact Or.inl hev
        · exact hev
    · subst he; subst hr
      refine ⟨h4, Or.inr ⟨by simp [upd], ?_⟩⟩
      simp only [hstr]
      rw [h5]; exact h6 hg
  · exact h.sufH
  · exact h.nodup

/-- every step of a call -/
theorem inv_call {g : Bool} {s : St} {t i : Nat} (h : Inv g s) : Inv g (callStep Cfg.real s t i) := by
  cases hpc : (s.thread t).pc with
  | idle => exact inv_get h hpc
  | append => exact inv_append h hpc
  | done => unfold callStep; simp only [hpc]; exact h
  | create todo =>
    cases todo with
    | cons a rest => exact inv_create h hpc
    | nil =>
      have ht := h.th t
      unfold ThreadOk at ht
      simp [hpc] at ht

/-- nobody is inside the lock-protected part of createSegStore while the lock is free -/
theorem no_holder {g : Bool} {s : St} (hl : s.lock = none) (u : Nat) : s.lock ≠ some u := by
  rw [hl]; simp

/-- flush + rotation of the registered store -/
theorem inv_flush {g : Bool} {s : St} {i : Nat} (h : Inv g s) : Inv g (flushStep s i) := by
  unfold flushStep
  cases hl : s.lock with
  | some x => simpa using h
  | none =>
    cases htb : s.table i with
    | none => simpa using h
    | some r =>
      simp only []
      by_cases hev : (s.store r).events = []
      · simp only [hev, if_true]; exact h
      · simp only [hev, if_false]
        have htr := h.tab i r htb
        have hstr : ∀ m, ((upd s.store r { s.store r with events := [], suffix := s.sufFile i }) m).stream
            = (s.store m).stream := by
          intro m; by_cases hmr : m = r <;> simp [upd, hmr]
        constructor
        · intro u
          apply threadOk_frame (s := s) _ _ _ _ _ _ _ _ (h.th u) <;> simp [hl, hstr]
        · intro j r' hjr
          have := h.tab j r' hjr
          exact ⟨this.1, by simp only [hstr]; exact this.2⟩
        · intro hg e r' her
          have ha := h.ack hg e r' her
          refine ⟨ha.1, ?_⟩
          rcases ha.2 with hp | ⟨he, hreg⟩
          · left; simp; exact Or.inl hp
          · by_cases hmr : r' = r
            · subst hmr; left; simp; exact Or.inr he
            · right; simp only [hstr]; simp [upd, hmr]; exact ⟨he, hreg⟩
        · intro j k hjk
          simp at hjk
          rcases hjk with hjk | ⟨hj, hk⟩
          · have := h.sufH j k hjk
            by_cases hj : j = i
            · subst hj; simp [upd]; omega
            · simp [upd, hj]; exact this
          · subst hj; subst hk; simp [upd]
        · apply nodup_snoc h.nodup
          intro hmem
          have := h.sufH _ _ hmem
          omega

/-- removeStaleSegments, under the eviction guard when `g = true` -/
theorem inv_evict {g : Bool} {s : St} {i : Nat} (h : Inv g s) (hg : g = true → stepOk s (.evict i)) :
    Inv g (evictStep s i) := by
  unfold evictStep
  cases hl : s.lock with
  | some x => simpa using h
  | none =>
    cases htb : s.table i with
    | none => simpa using h
    | some r =>
      simp only []
      by_cases hev : (s.store r).events = []
      · simp only [hev, if_true]
        constructor
        · intro u
          have hou := h.th u
          apply threadOk_frame (s := s) _ _ _ _ _ _ _ _ hou <;> simp [hl]
          intro hap hgt
          -- guarded run: no call about to append holds the registered store of `i`
          by_cases hsame : (s.thread u).stream = i
          · exfalso
            unfold ThreadOk at hou
            simp only [hap] at hou
            obtain ⟨hstu, _, r', hr1, _, _, hreg⟩ := hou
            have hguard := hg hgt u hstu
            have hregi := hreg hgt
            rw [hsame] at hregi
            simp [holdsRegistered, hap, htb, hr1, hregi] at hguard
            rw [htb] at hregi
            exact hguard (Option.some.inj hregi).symm
          · simp [upd, hsame]
        · intro j r' hjr
          by_cases hj : j = i
          · subst hj; simp [upd] at hjr
          · simp [upd, hj] at hjr; exact h.tab j r' hjr
        · intro hgt e r' her
          have ha := h.ack hgt e r' her
          refine ⟨ha.1, ?_⟩
          rcases ha.2 with hp | ⟨he, hreg⟩
          · exact Or.inl hp
          · right
            refine ⟨he, ?_⟩
            have hne : (s.store r').stream ≠ i := by
              intro hc
              rw [hc, htb] at hreg
              have := Option.some.inj hreg
              subst this
              rw [hev] at he
              simp at he
            simp [upd, hne]; exact hreg
        · exact h.sufH
        · exact h.nodup
      · simp only [hev, if_false]; exact h

theorem inv_step {g : Bool} {s : St} {l : Label} (h : Inv g s) (hg : g = true → stepOk s l) :
    Inv g (step Cfg.real s l) := by
  cases l with
  | call t i => exact inv_call h
  | flush i => exact inv_flush h
  | evict i => exact inv_evict h hg

/-- the eviction guard along a schedule, as a proposition -/
def runOk (s : St) : List Label → Prop
  | [] => True
  | l :: ls => stepOk s l ∧ runOk (step Cfg.real s l) ls

theorem inv_run {g : Bool} (ls : List Label) (s : St) (h : Inv g s) (hg : g = true → runOk s ls) :
    Inv g (run Cfg.real s ls) := by
  induction ls generalizing s with
  | nil => exact h
  | cons l ls ih =>
    simp only [run, List.foldl_cons]
    exact ih _ (inv_step h (fun hgt => (hg hgt).1)) (fun hgt => (hg hgt).2)

theorem runOk_of_evictSafe (ls : List Label) (s : St) (h : evictSafe Cfg.real s ls = true) : runOk s ls := by
  induction ls generalizing s with
  | nil => trivial
  | cons l ls ih =>
    simp only [evictSafe, Bool.and_eq_true] at h
    refine ⟨?_, ih _ h.2⟩
    cases l with
    | call t i => trivial
    | flush i => trivial
    | evict i =>
      intro t ht
      have := h.1
      simp only [List.all_eq_true] at this
      have := this t ht
      simpa using this

theorem evictSafe_of_evictFree (ls : List Label) (s : St) (h : evictFree ls = true) :
    evictSafe Cfg.real s ls = true := by
  induction ls generalizing s with
  | nil => rfl
  | cons l ls ih =>
    cases l with
    | call t i => simp only [evictFree] at h; simp [evictSafe, ih _ h]
    | flush i => simp only [evictFree] at h; simp [evictSafe, ih _ h]
    | evict i => simp [evictFree] at h

/-! ### eviction-free runs: one store per stream -/

/-- every store ever built is the registered store of its stream, or the call that built it is about to insert it -/
def Built (s : St) : Prop :=
  ∀ m, m < s.nstores → s.table (s.store m).stream = some m ∨
      ∃ t, (s.thread t).pc = .create P4 ∧ (s.thread t).mine = some m

theorem built_init : Built init := by
  intro m hm; simp [init] at hm

theorem built_frame {s s' : St} (htab : s'.table = s.table) (hn : s'.nstores = s.nstores)
    (hstr : ∀ m, (s'.store m).stream = (s.store m).stream)
    (hth : ∀ u, (s.thread u).pc = .create P4 → s'.thread u = s.thread u) (hb : Built s) : Built s' := by
  intro m hm
  rw [hn] at hm
  rcases hb m hm with h1 | ⟨t, h1, h2⟩
  · left; rw [htab, hstr]; exact h1
  · right; exact ⟨t, by rw [hth t h1]; exact h1, by rw [hth t h1]; exact h2⟩

/-- a call whose next statement is the insert holds the lock -/
theorem p4_holds {g : Bool} {s : St} {u : Nat} (h : ThreadOk g s u) (hpc : (s.thread u).pc = .create P4) :
    s.lock = some u := by
  unfold ThreadOk at h
  simp only [hpc] at h
  rcases h.2 with ⟨h1, _⟩ | ⟨h1, _⟩ | ⟨h1, _⟩ | ⟨h1, _⟩ | ⟨_, h2, _⟩ | ⟨h1, _⟩
  all_goals first | exact h2 | (simp at h1)

theorem built_call {s : St} {t i : Nat} (h : Inv true s) (hb : Built s) : Built (callStep Cfg.real s t i) := by
  have ht := h.th t
  unfold ThreadOk at ht
  cases hpc : (s.thread t).pc with
  | idle =>
    unfold callStep
    simp only [hpc]
    cases hl : s.lock with
    | some x => simpa using hb
    | none =>
      cases htb : s.table i with
      | some r =>
        apply built_frame _ _ _ _ hb <;> simp [upd]
        intro u hu hut; subst hut; rw [hpc] at hu; simp at hu
      | none =>
        apply built_frame _ _ _ _ hb <;> simp [upd]
        intro u hu hut; subst hut; rw [hpc] at hu; simp at hu
  | done => unfold callStep; simp only [hpc]; exact hb
  | append =>
    simp only [hpc] at ht
    obtain ⟨_, _, r, h3, _⟩ := ht
    unfold callStep
    simp only [hpc, h3]
    apply built_frame _ _ _ _ hb <;> simp [upd]
    · intro m; by_cases hmr : m = r <;> simp [hmr]
    · intro u hu hut; subst hut; rw [hpc] at hu; simp at hu
  | create todo =>
    simp only [hpc] at ht
    obtain ⟨hst, ht⟩ := ht
    rcases ht with ⟨h1, h2⟩ | ⟨h1, h2⟩ | ⟨h1, h2, h3⟩ | ⟨h1, h2, h3, h4⟩ | ⟨h1, h2, h3, m0, h4, h5, h6⟩ | ⟨h1, h2, r, h3, h4, h5, h6⟩
    · subst h1
      unfold callStep; simp only [hpc]; unfold createStep; simp only []
      cases hl : s.lock with
      | some x => simpa using hb
      | none =>
        apply built_frame _ _ _ _ hb <;> simp [upd]
        intro u hu hut; subst hut; rw [hpc] at hu; simp at hu
    · subst h1
      unfold callStep; simp only [hpc]; unfold createStep; simp only []
      cases htb : s.table (s.thread t).stream with
      | some r =>
        apply built_frame _ _ _ _ hb <;> simp [upd]
        intro u hu hut; subst hut; rw [hpc] at hu; simp at hu
      | none =>
        apply built_frame _ _ _ _ hb <;> simp [upd]
        intro u hu hut; subst hut; rw [hpc] at hu; simp at hu
    · subst h1
      unfold callStep; simp only [hpc]; unfold createStep; simp only []
      apply built_frame _ _ _ _ hb <;> simp [upd]
      intro u hu hut; subst hut; rw [hpc] at hu; simp at hu
    · -- sufWrite: the new store is about to be inserted by `t`
      subst h1
      unfold callStep; simp only [hpc]; unfold createStep; simp only []
      intro m hm
      simp only [] at hm
      by_cases hmn : m = s.nstores
      · right; exact ⟨t, by simp [upd, afterCreate, hmn]⟩
      · have hm' : m < s.nstores := by omega
        rcases hb m hm' with hr | ⟨u, hu1, hu2⟩
        · left; simp [upd, hmn]; exact hr
        · exfalso
          have := p4_holds (h.th u) hu1
          rw [h2] at this
          have := Option.some.inj this
          subst this
          rw [hpc] at hu1; simp at hu1
    · -- insert: the store of `t` becomes the registered one
      subst h1
      unfold callStep; simp only [hpc]; unfold createStep; simp only [h4]
      intro m hm
      simp only [] at hm
      rcases hb m hm with hr | ⟨u, hu1, hu2⟩
      · left
        have hne : (s.store m).stream ≠ (s.thread t).stream := by
          intro hc; rw [hc, h3] at hr; exact absurd hr (by simp)
        simp [upd, hne]; exact hr
      · left
        have := p4_holds (h.th u) hu1
        rw [h2] at this
        have := Option.some.inj this
        subst this
        rw [h4] at hu2
        have := Option.some.inj hu2
        subst this
        simp [upd, h6]
    · subst h1
      unfold callStep; simp only [hpc]; unfold createStep; simp only []
      apply built_frame _ _ _ _ hb <;> simp [upd]
      intro u hu hut; subst hut; rw [hpc] at hu; simp at hu

theorem built_flush {s : St} {i : Nat} (hb : Built s) : Built (flushStep s i) := by
  unfold flushStep
  cases hl : s.lock with
  | some x => simpa using hb
  | none =>
    cases htb : s.table i with
    | none => simpa using hb
    | some r =>
      simp only []
      by_cases hev : (s.store r).events = []
      · simp only [hev, if_true]; exact hb
      · simp only [hev, if_false]
        apply built_frame _ _ _ _ hb <;> simp [upd]
        intro m; by_cases hmr : m = r <;> simp [hmr]

theorem built_run (ls : List Label) (s : St) (h : Inv true s) (hb : Built s) (hf : evictFree ls = true) :
    Built (run Cfg.real s ls) := by
  induction ls generalizing s with
  | nil => exact hb
  | cons l ls ih =>
    simp only [run, List.foldl_cons]
    cases l with
    | call t i =>
      simp only [evictFree] at hf
      exact ih _ (inv_step h (fun _ => trivial)) (built_call h hb) hf
    | flush i =>
      simp only [evictFree] at hf
      exact ih _ (inv_step h (fun _ => trivial)) (built_flush hb) hf
    | evict i => simp [evictFree] at hf

end SigModel.Lemmas.C11f
