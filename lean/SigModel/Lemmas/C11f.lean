/-
Helper lemmas for C11 (part 6): the get-or-create machine of the segstore table (`Model/ConcCreate.lean`) with the
program order of createSegStore extracted from the source and the mark-and-retry protocol of removeStaleSegments /
AddEntryToInMemBuf (`Cfg.real`): the state invariant, its preservation by every step of every schedule, and the
invariant of eviction-free runs "every store ever built is registered or about to be".
-/
import SigModel.Model.ConcCreate
set_option linter.unusedSimpArgs false
set_option linter.unusedVariables false
namespace SigModel.Lemmas.C11f
open SigModel.ConcCreate

abbrev P0 : List CStep := [.lock, .recheck, .sufRead, .sufWrite, .insert, .unlock]
abbrev P1 : List CStep := [.recheck, .sufRead, .sufWrite, .insert, .unlock]
abbrev P2 : List CStep := [.sufRead, .sufWrite, .insert, .unlock]
abbrev P3 : List CStep := [.sufWrite, .insert, .unlock]
abbrev P4 : List CStep := [.insert, .unlock]
abbrev P5 : List CStep := [.unlock]

/-- the store a call is about to append to exists, belongs to the call's stream and, unless removeStaleSegments has
marked it, is the registered store of the stream -/
def RetOk (s : St) (th : Thread) : Prop :=
  ∃ r, th.ret = some r ∧ r < s.nstores ∧ (s.store r).stream = th.stream ∧
    ((s.store r).removed = false → s.table th.stream = some r)

/-- what is known about call `t`, by program counter -/
def ThreadOk (s : St) (t : Nat) : Prop :=
  match (s.thread t).pc with
  | .idle => s.lock ≠ some t
  | .create todo =>
      t ∈ s.started ∧
      ((todo = P0 ∧ s.lock ≠ some t) ∨
       (todo = P1 ∧ s.lock = some t) ∨
       (todo = P2 ∧ s.lock = some t ∧ s.table (s.thread t).stream = none) ∨
       (todo = P3 ∧ s.lock = some t ∧ s.table (s.thread t).stream = none ∧
          (s.thread t).suf = s.sufFile (s.thread t).stream) ∨
       (todo = P4 ∧ s.lock = some t ∧ s.table (s.thread t).stream = none ∧
          ∃ m, (s.thread t).mine = some m ∧ m < s.nstores ∧ (s.store m).stream = (s.thread t).stream ∧
            (s.store m).removed = false) ∨
       (todo = P5 ∧ s.lock = some t ∧ RetOk s (s.thread t)))
  | .append => t ∈ s.started ∧ s.lock ≠ some t ∧ RetOk s (s.thread t)
  | .retry => t ∈ s.started ∧ s.lock ≠ some t
  | .done => t ∈ s.started ∧ s.lock ≠ some t ∧ ∃ r, (t, r) ∈ s.acked

structure Inv (s : St) : Prop where
  th : ∀ t, ThreadOk s t
  tab : ∀ i r, s.table i = some r → r < s.nstores ∧ (s.store r).stream = i ∧ (s.store r).removed = false
  ack : ∀ e r, (e, r) ∈ s.acked →
        r < s.nstores ∧ (e ∈ s.persisted ∨ (e ∈ (s.store r).events ∧ s.table (s.store r).stream = some r))
  sufH : ∀ i k, (i, k) ∈ s.handed → k < s.sufFile i
  nodup : s.handed.Nodup

theorem inv_init : Inv init := by
  constructor <;> simp [init, ThreadOk]

/-- what a step by somebody else must leave alone for `RetOk · (s.thread u)` to survive -/
theorem retOk_frame {s s' : St} {th : Thread}
    (htab : s'.table th.stream = s.table th.stream)
    (hn : s.nstores ≤ s'.nstores)
    (hstr : ∀ m, m < s.nstores → (s'.store m).stream = (s.store m).stream)
    (hrem : ∀ m, m < s.nstores → (s'.store m).removed = (s.store m).removed)
    (h : RetOk s th) : RetOk s' th := by
  obtain ⟨r, h1, h2, h3, h4⟩ := h
  exact ⟨r, h1, by omega, by rw [hstr r h2]; exact h3, fun hr => by rw [htab]; exact h4 (by rw [← hrem r h2]; exact hr)⟩

/-- what a step by somebody else must leave alone for `ThreadOk · u` to survive -/
theorem threadOk_frame {s s' : St} {u : Nat}
    (hth : s'.thread u = s.thread u)
    (hst : ∀ x, x ∈ s.started → x ∈ s'.started)
    (hlk : s'.lock = some u ↔ s.lock = some u)
    (htab : s.lock = some u → s'.table (s.thread u).stream = s.table (s.thread u).stream)
    (hsuf : s.lock = some u → s'.sufFile (s.thread u).stream = s.sufFile (s.thread u).stream)
    (hn : s.nstores ≤ s'.nstores)
    (hstr : ∀ m, m < s.nstores → (s'.store m).stream = (s.store m).stream)
    (hack : ∀ p, p ∈ s.acked → p ∈ s'.acked)
    (hremL : s.lock = some u → ∀ m, m < s.nstores → (s'.store m).removed = (s.store m).removed)
    (hret : (s.lock = some u ∨ (s.thread u).pc = .append) → RetOk s (s.thread u) → RetOk s' (s.thread u))
    (h : ThreadOk s u) : ThreadOk s' u := by
  unfold ThreadOk at h ⊢
  rw [hth]
  cases hpc : (s.thread u).pc with
  | idle => simp only [hpc] at h ⊢; rw [Ne, hlk]; exact h
  | create todo =>
    simp only [hpc] at h ⊢
    obtain ⟨h0, h⟩ := h
    refine ⟨hst _ h0, ?_⟩
    rcases h with ⟨h1, h2⟩ | ⟨h1, h2⟩ | ⟨h1, h2, h3⟩ | ⟨h1, h2, h3, h4⟩ | ⟨h1, h2, h3, m, h4, h5, h6, h7⟩ | ⟨h1, h2, h3⟩
    · exact Or.inl ⟨h1, by rw [Ne, hlk]; exact h2⟩
    · exact Or.inr (Or.inl ⟨h1, hlk.2 h2⟩)
    · exact Or.inr (Or.inr (Or.inl ⟨h1, hlk.2 h2, by rw [htab h2]; exact h3⟩))
    · exact Or.inr (Or.inr (Or.inr (Or.inl ⟨h1, hlk.2 h2, by rw [htab h2]; exact h3,
        by rw [hsuf h2]; exact h4⟩)))
    · exact Or.inr (Or.inr (Or.inr (Or.inr (Or.inl ⟨h1, hlk.2 h2, by rw [htab h2]; exact h3,
        m, h4, by omega, by rw [hstr m h5]; exact h6, by rw [hremL h2 m h5]; exact h7⟩))))
    · exact Or.inr (Or.inr (Or.inr (Or.inr (Or.inr ⟨h1, hlk.2 h2, hret (Or.inl h2) h3⟩))))
  | append =>
    simp only [hpc] at h ⊢
    exact ⟨hst _ h.1, by rw [Ne, hlk]; exact h.2.1, hret (Or.inr hpc) h.2.2⟩
  | retry =>
    simp only [hpc] at h ⊢
    exact ⟨hst _ h.1, by rw [Ne, hlk]; exact h.2⟩
  | done =>
    simp only [hpc] at h ⊢
    obtain ⟨h0, h1, r, h2⟩ := h
    exact ⟨hst _ h0, by rw [Ne, hlk]; exact h1, r, hack _ h2⟩

/-- a call that holds the lock is inside createSegStore, past its `lock` statement -/
theorem holder_pc {s : St} {t : Nat} (h : ThreadOk s t) (hl : s.lock = some t) :
    ∃ todo, (s.thread t).pc = .create todo ∧
      (todo = P1 ∨ todo = P2 ∨ todo = P3 ∨ todo = P4 ∨ todo = P5) := by
  unfold ThreadOk at h
  cases hpc : (s.thread t).pc with
  | idle => simp [hpc, hl] at h
  | append => simp [hpc, hl] at h
  | retry => simp [hpc, hl] at h
  | done => simp [hpc, hl] at h
  | create todo =>
    simp only [hpc] at h
    refine ⟨todo, rfl, ?_⟩
    rcases h.2 with ⟨_, h2⟩ | ⟨h1, _⟩ | ⟨h1, _⟩ | ⟨h1, _⟩ | ⟨h1, _⟩ | ⟨h1, _⟩
    · exact absurd hl h2
    all_goals simp [h1]

/-- getSegStore: first step of a call, and first step after errSegStoreRemoved -/
theorem inv_get {s : St} {t i : Nat} (h : Inv s)
    (hpc : (s.thread t).pc = .idle ∨ (s.thread t).pc = .retry) : Inv (getStep Cfg.real s t i) := by
  unfold getStep
  simp only []
  cases hl : s.lock with
  | some x => simpa using h
  | none =>
    have hothers : ∀ u, u ≠ t → ∀ s' : St, s'.thread = upd s.thread t (s'.thread t) → s'.lock = s.lock →
        s'.table = s.table → s'.sufFile = s.sufFile → s'.nstores = s.nstores → s'.store = s.store →
        s'.acked = s.acked → (∀ x, x ∈ s.started → x ∈ s'.started) → ThreadOk s' u := by
      intro u hu s' e1 e2 e3 e4 e5 e6 e7 e8
      apply threadOk_frame (s := s) _ e8 _ _ _ _ _ _ _ _ (h.th u)
      · rw [e1]; simp [upd, hu]
      · rw [e2]
      · intro _; rw [e3]
      · intro _; rw [e4]
      · omega
      · intro m _; rw [e6]
      · intro p hp; rw [e7]; exact hp
      · intro _ m _; rw [e6]
      · intro _ hr
        exact retOk_frame (by rw [e3]) (by omega) (fun m _ => by rw [e6]) (fun m _ => by rw [e6]) hr
    cases htb : s.table i with
    | some r =>
      simp only []
      have ht := h.tab i r htb
      constructor
      · intro u
        by_cases hu : u = t
        · subst hu
          simp [ThreadOk, upd, RetOk, hl, htb, ht.1, ht.2.1]
        · apply hothers u hu <;> simp [upd, hl]
          intro x hx; exact Or.inl hx
      · exact h.tab
      · exact h.ack
      · exact h.sufH
      · exact h.nodup
    | none =>
      simp only []
      constructor
      · intro u
        by_cases hu : u = t
        · subst hu
          simp [ThreadOk, upd, afterCreate, Cfg.real, hl]
        · apply hothers u hu <;> simp [upd, hl]
          intro x hx; exact Or.inl hx
      · exact h.tab
      · exact h.ack
      · exact h.sufH
      · exact h.nodup

/-- the common case of `threadOk_frame`: the step leaves the table entry of `u`'s stream and the marks alone -/
theorem threadOk_frame' {s s' : St} {u : Nat}
    (hth : s'.thread u = s.thread u)
    (hst : ∀ x, x ∈ s.started → x ∈ s'.started)
    (hlk : s'.lock = some u ↔ s.lock = some u)
    (htab : (s.lock = some u ∨ (s.thread u).pc = .append) →
        s'.table (s.thread u).stream = s.table (s.thread u).stream)
    (hsuf : s.lock = some u → s'.sufFile (s.thread u).stream = s.sufFile (s.thread u).stream)
    (hn : s.nstores ≤ s'.nstores)
    (hstr : ∀ m, m < s.nstores → (s'.store m).stream = (s.store m).stream)
    (hrem : ∀ m, m < s.nstores → (s'.store m).removed = (s.store m).removed)
    (hack : ∀ p, p ∈ s.acked → p ∈ s'.acked)
    (h : ThreadOk s u) : ThreadOk s' u :=
  threadOk_frame hth hst hlk (fun hl => htab (Or.inl hl)) hsuf hn hstr hack (fun _ => hrem)
    (fun hc hr => retOk_frame (htab hc) hn hstr hrem hr) h

theorem nodup_snoc {α : Type} {l : List α} {a : α} (h : l.Nodup) (ha : a ∉ l) : (l ++ [a]).Nodup := by
  rw [List.nodup_append]
  refine ⟨h, by simp, ?_⟩
  intro x hx y hy
  simp at hy; subst hy
  intro hxy; subst hxy
  exact ha hx

/-- a call that does not hold the lock is not past `lock` inside createSegStore -/
theorem other_not_holder {s : St} {t u : Nat} (hl : s.lock = some t) (hu : u ≠ t) :
    s.lock ≠ some u := by
  rw [hl]; intro h; exact hu (Option.some.inj h).symm

/-- the statements of createSegStore -/
theorem inv_create {s : St} {t i : Nat} {a : CStep} {rest : List CStep} (h : Inv s)
    (hpc : (s.thread t).pc = .create (a :: rest)) : Inv (callStep Cfg.real s t i) := by
  have ht := h.th t
  unfold ThreadOk at ht
  simp only [hpc] at ht
  obtain ⟨hst, ht⟩ := ht
  unfold callStep
  simp only [hpc]
  rcases ht with ⟨h1, h2⟩ | ⟨h1, h2⟩ | ⟨h1, h2, h3⟩ | ⟨h1, h2, h3, h4⟩ | ⟨h1, h2, h3, m, h4, h5, h6, h7⟩ | ⟨h1, h2, r, h3, h4, h5, h6⟩
  · -- lock
    injection h1 with ha hr; subst ha; subst hr
    unfold createStep
    cases hl : s.lock with
    | some x => simpa using h
    | none =>
      simp only []
      constructor
      · intro u
        by_cases hu : u = t
        · subst hu; simp [ThreadOk, upd, afterCreate, hst]
        · apply threadOk_frame' (s := s) _ _ _ _ _ _ _ _ _ (h.th u) <;> simp [upd, hu, hl]
          intro hc; exact hu hc.symm
      · exact h.tab
      · exact h.ack
      · exact h.sufH
      · exact h.nodup
  · -- recheck
    injection h1 with ha hr; subst ha; subst hr
    unfold createStep
    simp only []
    cases htb : s.table (s.thread t).stream with
    | some r =>
      simp only [if_pos h2]
      have htr := h.tab _ r htb
      constructor
      · intro u
        by_cases hu : u = t
        · subst hu; simp [ThreadOk, upd, afterCreate, hst, h2, RetOk, htb, htr.1, htr.2.1]
        · apply threadOk_frame' (s := s) _ _ _ _ _ _ _ _ _ (h.th u) <;> simp [upd, hu]
      · exact h.tab
      · exact h.ack
      · exact h.sufH
      · exact h.nodup
    | none =>
      simp only []
      constructor
      · intro u
        by_cases hu : u = t
        · subst hu; simp [ThreadOk, upd, afterCreate, hst, h2, htb]
        · apply threadOk_frame' (s := s) _ _ _ _ _ _ _ _ _ (h.th u) <;> simp [upd, hu]
      · exact h.tab
      · exact h.ack
      · exact h.sufH
      · exact h.nodup
  · -- sufRead
    injection h1 with ha hr; subst ha; subst hr
    unfold createStep
    simp only []
    constructor
    · intro u
      by_cases hu : u = t
      · subst hu; simp [ThreadOk, upd, afterCreate, hst, h2, h3]
      · apply threadOk_frame' (s := s) _ _ _ _ _ _ _ _ _ (h.th u) <;> simp [upd, hu]
    · exact h.tab
    · exact h.ack
    · exact h.sufH
    · exact h.nodup
  · -- sufWrite
    injection h1 with ha hr; subst ha; subst hr
    unfold createStep
    simp only []
    constructor
    · intro u
      by_cases hu : u = t
      · subst hu; simp [ThreadOk, upd, afterCreate, hst, h2, h3]
      · have hnl := other_not_holder h2 hu
        apply threadOk_frame' (s := s) _ _ _ _ _ _ _ _ _ (h.th u) <;> simp [upd, hu, hnl]
        all_goals
          intro m hm
          have hne : m ≠ s.nstores := by omega
          simp [hne]
    · intro j r hjr
      have := h.tab j r hjr
      have hne : r ≠ s.nstores := by omega
      simp [upd, hne]
      exact ⟨by omega, this.2⟩
    · intro e r her
      have := h.ack e r her
      have hne : r ≠ s.nstores := by omega
      simp [upd, hne]
      exact ⟨by omega, this.2⟩
    · intro j k hjk
      simp at hjk
      rcases hjk with hjk | ⟨hj, hk⟩
      · have := h.sufH j k hjk
        by_cases hj : j = (s.thread t).stream
        · subst hj; simp [upd]; omega
        · simp [upd, hj]; exact this
      · subst hj; subst hk; simp [upd]
    · apply nodup_snoc h.nodup
      intro hmem
      have := h.sufH _ _ hmem
      omega
  · -- insert
    injection h1 with ha hr; subst ha; subst hr
    unfold createStep
    simp only [h4]
    constructor
    · intro u
      by_cases hu : u = t
      · subst hu; simp [ThreadOk, upd, afterCreate, hst, h2, RetOk, h5, h6]
      · have hnl := other_not_holder h2 hu
        have hou := h.th u
        apply threadOk_frame (s := s) _ _ _ _ _ _ _ _ _ _ hou <;> simp [upd, hu, hnl]
        -- a call about to append on the same stream holds a store that was removed: the table has no entry
        intro hap ⟨r, hr1, hr2, hr3, hr4⟩
        refine ⟨r, hr1, hr2, hr3, ?_⟩
        intro hnr
        have := hr4 hnr
        by_cases hsame : (s.thread u).stream = (s.thread t).stream
        · rw [hsame, h3] at this; exact absurd this (by simp)
        · simp [upd, hsame]; exact this
    · intro j r hjr
      by_cases hj : j = (s.thread t).stream
      · subst hj
        simp [upd] at hjr
        subst hjr
        exact ⟨h5, h6, h7⟩
      · simp [upd, hj] at hjr
        exact h.tab j r hjr
    · intro e r her
      have ha := h.ack e r her
      refine ⟨ha.1, ?_⟩
      rcases ha.2 with hp | ⟨he, hreg⟩
      · exact Or.inl hp
      · right
        refine ⟨he, ?_⟩
        have hne : (s.store r).stream ≠ (s.thread t).stream := by
          intro hc; rw [hc, h3] at hreg; exact absurd hreg (by simp)
        simp [upd, hne]
        exact hreg
    · exact h.sufH
    · exact h.nodup
  · -- unlock
    injection h1 with ha hr; subst ha; subst hr
    unfold createStep
    simp only [if_pos h2]
    constructor
    · intro u
      by_cases hu : u = t
      · subst hu; simp [ThreadOk, upd, afterCreate, hst, RetOk, h3, h4, h5]; exact h6
      · have hnl := other_not_holder h2 hu
        apply threadOk_frame' (s := s) _ _ _ _ _ _ _ _ _ (h.th u) <;> simp [upd, hu, hnl]
    · exact h.tab
    · exact h.ack
    · exact h.sufH
    · exact h.nodup

/-- AddEntry: on a store that removeStaleSegments has marked, nothing is appended and the call starts over -/
theorem inv_append {s : St} {t i : Nat} (h : Inv s) (hpc : (s.thread t).pc = .append) :
    Inv (callStep Cfg.real s t i) := by
  have ht := h.th t
  unfold ThreadOk at ht
  simp only [hpc] at ht
  obtain ⟨hst, hnl, r, h3, h4, h5, h6⟩ := ht
  unfold callStep
  simp only [hpc, h3]
  by_cases hrm : (s.store r).removed = true
  · -- errSegStoreRemoved
    rw [if_pos (show Cfg.real.retry = true ∧ (s.store r).removed = true from ⟨rfl, hrm⟩)]
    constructor
    · intro u
      by_cases hu : u = t
      · subst hu; simp [ThreadOk, upd, hst, hnl]
      · apply threadOk_frame' (s := s) _ _ _ _ _ _ _ _ _ (h.th u) <;> simp [upd, hu]
    · exact h.tab
    · exact h.ack
    · exact h.sufH
    · exact h.nodup
  · have hrf : (s.store r).removed = false := by cases hc : (s.store r).removed <;> simp_all
    rw [if_neg (show ¬ (Cfg.real.retry = true ∧ (s.store r).removed = true) from fun hc => hrm hc.2)]
    have hreg := h6 hrf
    have hstr : ∀ m, ((upd s.store r { s.store r with events := (s.store r).events ++ [t] }) m).stream = (s.store m).stream := by
      intro m; by_cases hmr : m = r <;> simp [upd, hmr]
    have hrem : ∀ m, ((upd s.store r { s.store r with events := (s.store r).events ++ [t] }) m).removed = (s.store m).removed := by
      intro m; by_cases hmr : m = r <;> simp [upd, hmr]
    constructor
    · intro u
      by_cases hu : u = t
      · subst hu; simp [ThreadOk, upd, hst, hnl]
      · apply threadOk_frame' (s := s) _ _ _ _ _ _ _ _ _ (h.th u) <;> simp [upd, hu]
        · intro m hm; by_cases hmr : m = r <;> simp [hmr]
        · intro m hm; by_cases hmr : m = r <;> simp [hmr]
        · intro a b hab; exact Or.inl hab
    · intro j r' hjr
      have := h.tab j r' hjr
      refine ⟨this.1, ?_⟩
      simp only [hstr, hrem]
      exact this.2
    · intro e r' her
      simp at her
      rcases her with her | ⟨he, hr⟩
      · have ha := h.ack e r' her
        refine ⟨ha.1, ?_⟩
        rcases ha.2 with hp | ⟨hev, hreg'⟩
        · exact Or.inl hp
        · right
          simp only [hstr]
          refine ⟨?_, hreg'⟩
          by_cases hmr : r' = r <;> simp [upd, hmr]
          · subst hmr; exact Or.inl hev
          · exact hev
      · subst he; subst hr
        refine ⟨h4, Or.inr ⟨by simp [upd], ?_⟩⟩
        simp only [hstr]
        rw [h5]; exact hreg
    · exact h.sufH
    · exact h.nodup

/-- every step of a call -/
theorem inv_call {s : St} {t i : Nat} (h : Inv s) : Inv (callStep Cfg.real s t i) := by
  cases hpc : (s.thread t).pc with
  | idle => unfold callStep; simp only [hpc]; exact inv_get h (Or.inl hpc)
  | retry => unfold callStep; simp only [hpc]; exact inv_get h (Or.inr hpc)
  | append => exact inv_append h hpc
  | done => unfold callStep; simp only [hpc]; exact h
  | create todo =>
    cases todo with
    | cons a rest => exact inv_create h hpc
    | nil =>
      have ht := h.th t
      unfold ThreadOk at ht
      simp [hpc] at ht

/-- flush + rotation of the registered store -/
theorem inv_flush {s : St} {i : Nat} (h : Inv s) : Inv (flushStep s i) := by
  unfold flushStep
  cases hl : s.lock with
  | some x => simpa using h
  | none =>
    cases htb : s.table i with
    | none => simpa using h
    | some r =>
      simp only []
      by_cases hev : (s.store r).events = []
      · simp only [hev, if_true]; exact h
      · simp only [hev, if_false]
        have htr := h.tab i r htb
        have hstr : ∀ m, ((upd s.store r { s.store r with events := [], suffix := s.sufFile i }) m).stream
            = (s.store m).stream := by
          intro m; by_cases hmr : m = r <;> simp [upd, hmr]
        have hrem : ∀ m, ((upd s.store r { s.store r with events := [], suffix := s.sufFile i }) m).removed
            = (s.store m).removed := by
          intro m; by_cases hmr : m = r <;> simp [upd, hmr]
        constructor
        · intro u
          apply threadOk_frame' (s := s) _ _ _ _ _ _ _ _ _ (h.th u) <;> simp [hl, hstr, hrem]
        · intro j r' hjr
          have := h.tab j r' hjr
          exact ⟨this.1, by simp only [hstr, hrem]; exact this.2⟩
        · intro e r' her
          have ha := h.ack e r' her
          refine ⟨ha.1, ?_⟩
          rcases ha.2 with hp | ⟨he, hreg⟩
          · left; simp; exact Or.inl hp
          · by_cases hmr : r' = r
            · subst hmr; left; simp; exact Or.inr he
            · right; simp only [hstr]; simp [upd, hmr]; exact ⟨he, hreg⟩
        · intro j k hjk
          simp at hjk
          rcases hjk with hjk | ⟨hj, hk⟩
          · have := h.sufH j k hjk
            by_cases hj : j = i
            · subst hj; simp [upd]; omega
            · simp [upd, hj]; exact this
          · subst hj; subst hk; simp [upd]
        · apply nodup_snoc h.nodup
          intro hmem
          have := h.sufH _ _ hmem
          omega

/-- removeStaleSegments at ANY moment: the store is marked under its lock, a call that holds it will notice -/
theorem inv_evict {s : St} {i : Nat} (h : Inv s) : Inv (evictStep Cfg.real s i) := by
  unfold evictStep
  cases hl : s.lock with
  | some x => simpa using h
  | none =>
    cases htb : s.table i with
    | none => simpa using h
    | some r =>
      simp only []
      by_cases hev : (s.store r).events = []
      · rw [if_pos hev]
        have htr := h.tab i r htb
        have hstr : ∀ m, ((upd s.store r { s.store r with removed := Cfg.real.retry }) m).stream = (s.store m).stream := by
          intro m; by_cases hmr : m = r <;> simp [upd, hmr]
        constructor
        · intro u
          have hou := h.th u
          apply threadOk_frame (s := s) _ _ _ _ _ _ _ _ _ _ hou <;> simp [hl, hstr]
          -- a call about to append: its store is the evicted one (now marked) or was marked before
          intro hap ⟨r', hr1, hr2, hr3, hr4⟩
          refine ⟨r', hr1, hr2, by simp only [hstr]; exact hr3, ?_⟩
          by_cases hmr : r' = r
          · subst hmr; simp [upd, Cfg.real]
          · simp only [upd, hmr, if_false]
            intro hnr
            have hreg := hr4 hnr
            by_cases hsame : (s.thread u).stream = i
            · rw [hsame, htb] at hreg; exact absurd (Option.some.inj hreg).symm hmr
            · simp [hsame]; exact hreg
        · intro j r' hjr
          by_cases hj : j = i
          · subst hj; simp [upd] at hjr
          · simp [upd, hj] at hjr
            have := h.tab j r' hjr
            have hne : r' ≠ r := by
              intro hc; subst hc; rw [htr.2.1] at this; exact hj this.2.1.symm
            simp [upd, hne]; exact this
        · intro e r' her
          have ha := h.ack e r' her
          refine ⟨ha.1, ?_⟩
          rcases ha.2 with hp | ⟨he, hreg⟩
          · exact Or.inl hp
          · right
            have hne' : r' ≠ r := by
              intro hc; subst hc; rw [hev] at he; simp at he
            have hne : (s.store r').stream ≠ i := by
              intro hc
              rw [hc, htb] at hreg
              exact hne' (Option.some.inj hreg).symm
            simp [upd, hne, hne']; exact ⟨he, hreg⟩
        · exact h.sufH
        · exact h.nodup
      · rw [if_neg hev]; exact h

theorem inv_step {s : St} {l : Label} (h : Inv s) : Inv (step Cfg.real s l) := by
  cases l with
  | call t i => exact inv_call h
  | flush i => exact inv_flush h
  | evict i => exact inv_evict h

theorem inv_run (ls : List Label) (s : St) (h : Inv s) : Inv (run Cfg.real s ls) := by
  induction ls generalizing s with
  | nil => exact h
  | cons l ls ih =>
    simp only [run, List.foldl_cons]
    exact ih _ (inv_step h)

/-- the invariant holds in every state reachable from the empty engine -/
theorem inv_reach (sched : List Label) : Inv (run Cfg.real init sched) := inv_run sched init inv_init

/-! ### eviction-free runs: one store per stream -/

/-- every store ever built is the registered store of its stream, or the call that built it is about to insert it -/
def Built (s : St) : Prop :=
  ∀ m, m < s.nstores → s.table (s.store m).stream = some m ∨
      ∃ t, (s.thread t).pc = .create P4 ∧ (s.thread t).mine = some m

theorem built_init : Built init := by
  intro m hm; simp [init] at hm

theorem built_frame {s s' : St} (htab : s'.table = s.table) (hn : s'.nstores = s.nstores)
    (hstr : ∀ m, (s'.store m).stream = (s.store m).stream)
    (hth : ∀ u, (s.thread u).pc = .create P4 → s'.thread u = s.thread u) (hb : Built s) : Built s' := by
  intro m hm
  rw [hn] at hm
  rcases hb m hm with h1 | ⟨t, h1, h2⟩
  · left; rw [htab, hstr]; exact h1
  · right; exact ⟨t, by rw [hth t h1]; exact h1, by rw [hth t h1]; exact h2⟩

/-- a call whose next statement is the insert holds the lock -/
theorem p4_holds {s : St} {u : Nat} (h : ThreadOk s u) (hpc : (s.thread u).pc = .create P4) :
    s.lock = some u := by
  unfold ThreadOk at h
  simp only [hpc] at h
  rcases h.2 with ⟨h1, _⟩ | ⟨h1, _⟩ | ⟨h1, _⟩ | ⟨h1, _⟩ | ⟨_, h2, _⟩ | ⟨h1, _⟩
  all_goals first | exact h2 | (simp at h1)

theorem built_get {s : St} {t i : Nat} (hb : Built s)
    (hpc : (s.thread t).pc = .idle ∨ (s.thread t).pc = .retry) : Built (getStep Cfg.real s t i) := by
  unfold getStep
  simp only []
  have hne : ∀ u, (s.thread u).pc = .create P4 → u ≠ t := by
    intro u hu hut; subst hut; rcases hpc with h | h <;> rw [h] at hu <;> simp at hu
  cases hl : s.lock with
  | some x => simpa using hb
  | none =>
    cases htb : s.table i with
    | some r =>
      apply built_frame _ _ _ _ hb <;> simp [upd]
      intro u hu hut; exact absurd hut (hne u hu)
    | none =>
      apply built_frame _ _ _ _ hb <;> simp [upd]
      intro u hu hut; exact absurd hut (hne u hu)

theorem built_call {s : St} {t i : Nat} (h : Inv s) (hb : Built s) : Built (callStep Cfg.real s t i) := by
  have ht := h.th t
  unfold ThreadOk at ht
  cases hpc : (s.thread t).pc with
  | idle => unfold callStep; simp only [hpc]; exact built_get hb (Or.inl hpc)
  | retry => unfold callStep; simp only [hpc]; exact built_get hb (Or.inr hpc)
  | done => unfold callStep; simp only [hpc]; exact hb
  | append =>
    simp only [hpc] at ht
    obtain ⟨_, _, r, h3, _⟩ := ht
    unfold callStep
    simp only [hpc, h3]
    split
    · apply built_frame _ _ _ _ hb <;> simp [upd]
      intro u hu hut; subst hut; rw [hpc] at hu; simp at hu
    · apply built_frame _ _ _ _ hb <;> simp [upd]
      · intro m; by_cases hmr : m = r <;> simp [hmr]
      · intro u hu hut; subst hut; rw [hpc] at hu; simp at hu
  | create todo =>
    simp only [hpc] at ht
    obtain ⟨hst, ht⟩ := ht
    rcases ht with ⟨h1, h2⟩ | ⟨h1, h2⟩ | ⟨h1, h2, h3⟩ | ⟨h1, h2, h3, h4⟩ | ⟨h1, h2, h3, m0, h4, h5, h6, h7⟩ | ⟨h1, h2, r, h3, h4, h5, h6⟩
    · subst h1
      unfold callStep; simp only [hpc]; unfold createStep; simp only []
      cases hl : s.lock with
      | some x => simpa using hb
      | none =>
        apply built_frame _ _ _ _ hb <;> simp [upd]
        intro u hu hut; subst hut; rw [hpc] at hu; simp at hu
    · subst h1
      unfold callStep; simp only [hpc]; unfold createStep; simp only []
      cases htb : s.table (s.thread t).stream with
      | some r =>
        apply built_frame _ _ _ _ hb <;> simp [upd]
        intro u hu hut; subst hut; rw [hpc] at hu; simp at hu
      | none =>
        apply built_frame _ _ _ _ hb <;> simp [upd]
        intro u hu hut; subst hut; rw [hpc] at hu; simp at hu
    · subst h1
      unfold callStep; simp only [hpc]; unfold createStep; simp only []
      apply built_frame _ _ _ _ hb <;> simp [upd]
      intro u hu hut; subst hut; rw [hpc] at hu; simp at hu
    · -- sufWrite: the new store is about to be inserted by `t`
      subst h1
      unfold callStep; simp only [hpc]; unfold createStep; simp only []
      intro m hm
      simp only [] at hm
      by_cases hmn : m = s.nstores
      · right; exact ⟨t, by simp [upd, afterCreate, hmn]⟩
      · have hm' : m < s.nstores := by omega
        rcases hb m hm' with hr | ⟨u, hu1, hu2⟩
        · left; simp [upd, hmn]; exact hr
        · exfalso
          have := p4_holds (h.th u) hu1
          rw [h2] at this
          have := Option.some.inj this
          subst this
          rw [hpc] at hu1; simp at hu1
    · -- insert: the store of `t` becomes the registered one
      subst h1
      unfold callStep; simp only [hpc]; unfold createStep; simp only [h4]
      intro m hm
      simp only [] at hm
      rcases hb m hm with hr | ⟨u, hu1, hu2⟩
      · left
        have hne : (s.store m).stream ≠ (s.thread t).stream := by
          intro hc; rw [hc, h3] at hr; exact absurd hr (by simp)
        simp [upd, hne]; exact hr
      · left
        have := p4_holds (h.th u) hu1
        rw [h2] at this
        have := Option.some.inj this
        subst this
        rw [h4] at hu2
        have := Option.some.inj hu2
        subst this
        simp [upd, h6]
    · subst h1
      unfold callStep; simp only [hpc]; unfold createStep; simp only []
      apply built_frame _ _ _ _ hb <;> simp [upd]
      intro u hu hut; subst hut; rw [hpc] at hu; simp at hu

theorem built_flush {s : St} {i : Nat} (hb : Built s) : Built (flushStep s i) := by
  unfold flushStep
  cases hl : s.lock with
  | some x => simpa using hb
  | none =>
    cases htb : s.table i with
    | none => simpa using hb
    | some r =>
      simp only []
      by_cases hev : (s.store r).events = []
      · rw [if_pos hev]; exact hb
      · rw [if_neg hev]
        apply built_frame _ _ _ _ hb <;> simp [upd]
        intro m; by_cases hmr : m = r <;> simp [hmr]

theorem built_run (ls : List Label) (s : St) (h : Inv s) (hb : Built s) (hf : evictFree ls = true) :
    Built (run Cfg.real s ls) := by
  induction ls generalizing s with
  | nil => exact hb
  | cons l ls ih =>
    simp only [run, List.foldl_cons]
    cases l with
    | call t i =>
      simp only [evictFree] at hf
      exact ih _ (inv_step h) (built_call h hb) hf
    | flush i =>
      simp only [evictFree] at hf
      exact ih _ (inv_step h) (built_flush hb) hf
    | evict i => simp [evictFree] at hf

end SigModel.Lemmas.C11f
