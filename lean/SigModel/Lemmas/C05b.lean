/-
C05 helper lemmas, part b: getFilteredBlocks, getNextBlocks, well-formedness, the scheduler invariant that
gives sortedness of the released stream (both modes).  Core Lean only.
-/
import SigModel.Model.Sched
import SigModel.Lemmas.C05a
set_option linter.unusedSimpArgs false
set_option linter.unusedVariables false

namespace SigModel.Lemmas.C05
open SigModel.Sched

/-! ### well-formed inputs -/

/-- records lie inside their block's range -/
def BlockOK (b : Block) : Prop := b.low ≤ b.high ∧ ∀ r ∈ b.recs, b.low ≤ r.2 ∧ r.2 ≤ b.high

/-- blocks lie inside their segment's range -/
def SegOK (s : Seg) : Prop := ∀ b ∈ s.blocks, s.start ≤ b.low ∧ b.high ≤ s.stop ∧ BlockOK b

def WF (segs : List Seg) : Prop := ∀ s ∈ segs, SegOK s

theorem rec_nb_start (m : Mode) {b : Block} (hb : BlockOK b) {r : Rec} (hr : r ∈ b.recs) :
    m.before r.2 (startOf m b) = false := by
  have := hb.2 r hr
  cases m <;> simp [startOf] <;> omega

theorem end_nb_rec (m : Mode) {b : Block} (hb : BlockOK b) {r : Rec} (hr : r ∈ b.recs) :
    m.before (endOf m b) r.2 = false := by
  have := hb.2 r hr
  cases m <;> simp [endOf] <;> omega

theorem end_nb_start (m : Mode) {b : Block} (hb : BlockOK b) : m.before (endOf m b) (startOf m b) = false := by
  have := hb.1
  cases m <;> simp [endOf, startOf] <;> omega

theorem start_nb_segFirst (m : Mode) {s : Seg} (hs : SegOK s) {b : Block} (hb : b ∈ s.blocks) :
    m.before (startOf m b) (segFirst m s) = false := by
  have := hs b hb
  cases m <;> simp [startOf, segFirst] <;> omega

theorem segLast_nb_end (m : Mode) {s : Seg} (hs : SegOK s) {b : Block} (hb : b ∈ s.blocks) :
    m.before (segLast m s) (endOf m b) = false := by
  have := hs b hb
  cases m <;> simp [endOf, segLast] <;> omega

/-! ### getFilteredBlocks -/

theorem gf_mono (m : Mode) (c : Nat) : ∀ (bs : List Block) (p : List Nat) (x : Nat),
    x ∈ p → x ∈ (getFilteredBlocks m c bs p).2
  | [], p, x, h => by simpa [getFilteredBlocks] using h
  | b :: bs, p, x, h => by
    simp only [getFilteredBlocks]
    split
    · exact gf_mono m c bs p x h
    · split
      · exact gf_mono m c bs (b.id :: p) x (List.mem_cons_of_mem _ h)
      · exact gf_mono m c bs p x h

theorem gf_mem (m : Mode) (c : Nat) : ∀ (bs : List Block) (p : List Nat) (x : Block),
    x ∈ (getFilteredBlocks m c bs p).1 → x ∈ bs ∧ x.id ∉ p ∧ shouldProcessBlock m c x = true
  | [], p, x, h => by simp [getFilteredBlocks] at h
  | b :: bs, p, x, h => by
    simp only [getFilteredBlocks] at h
    split at h
    · have := gf_mem m c bs p x h
      exact ⟨List.mem_cons_of_mem _ this.1, this.2⟩
    · rename_i hc
      split at h
      · rename_i hs
        rcases List.mem_cons.mp h with rfl | h'
        · refine ⟨List.mem_cons_self, ?_, hs⟩
          simpa using hc
        · have := gf_mem m c bs (b.id :: p) x h'
          refine ⟨List.mem_cons_of_mem _ this.1, ?_, this.2.2⟩
          intro hx
          exact this.2.1 (List.mem_cons_of_mem _ hx)
      · have := gf_mem m c bs p x h
        exact ⟨List.mem_cons_of_mem _ this.1, this.2⟩

theorem gf_ids (m : Mode) (c : Nat) : ∀ (bs : List Block) (p : List Nat) (x : Block),
    x ∈ (getFilteredBlocks m c bs p).1 → x.id ∈ (getFilteredBlocks m c bs p).2
  | [], p, x, h => by simp [getFilteredBlocks] at h
  | b :: bs, p, x, h => by
    simp only [getFilteredBlocks] at h ⊢
    split
    · rename_i hc
      simp only [hc, if_true] at h
      exact gf_ids m c bs p x h
    · rename_i hc
      simp only [hc] at h
      split
      · rename_i hs
        simp only [hs, if_true] at h
        rcases List.mem_cons.mp h with rfl | h'
        · exact gf_mono m c bs (x.id :: p) x.id List.mem_cons_self
        · exact gf_ids m c bs (b.id :: p) x h'
      · rename_i hs
        simp only [hs] at h
        exact gf_ids m c bs p x h

theorem gf_proc (m : Mode) (c : Nat) : ∀ (bs : List Block) (p : List Nat) (x : Nat),
    x ∈ (getFilteredBlocks m c bs p).2 → x ∈ p ∨ ∃ b ∈ (getFilteredBlocks m c bs p).1, b.id = x
  | [], p, x, h => by left; simpa [getFilteredBlocks] using h
  | b :: bs, p, x, h => by
    simp only [getFilteredBlocks] at h ⊢
    split
    · rename_i hc
      simp only [hc, if_true] at h
      exact gf_proc m c bs p x h
    · rename_i hc
      simp only [hc] at h
      split
      · rename_i hs
        simp only [hs, if_true] at h
        rcases gf_proc m c bs (b.id :: p) x h with h1 | ⟨b', hb', rfl⟩
        · rcases List.mem_cons.mp h1 with rfl | h1
          · right; exact ⟨b, List.mem_cons_self, rfl⟩
          · left; exact h1
        · right; exact ⟨b', List.mem_cons_of_mem _ hb', rfl⟩
      · rename_i hs
        simp only [hs] at h
        exact gf_proc m c bs p x h

theorem gf_notproc (m : Mode) (c : Nat) : ∀ (bs : List Block) (p : List Nat) (x : Block),
    x ∈ bs → x.id ∉ (getFilteredBlocks m c bs p).2 → shouldProcessBlock m c x = false
  | [], p, x, h, _ => by simp at h
  | b :: bs, p, x, h, hn => by
    simp only [getFilteredBlocks] at hn
    rcases List.mem_cons.mp h with rfl | h'
    · split at hn
      · rename_i hc
        exfalso; apply hn
        exact gf_mono m c bs p x.id (by simpa using hc)
      · split at hn
        · exfalso; apply hn
          exact gf_mono m c bs (x.id :: p) x.id List.mem_cons_self
        · rename_i hs
          simpa using hs
    · split at hn
      · exact gf_notproc m c bs p x h' hn
      · split at hn
        · exact gf_notproc m c bs (b.id :: p) x h' hn
        · exact gf_notproc m c bs p x h' hn

theorem gf_sublist (m : Mode) (c : Nat) : ∀ (bs : List Block) (p : List Nat),
    (getFilteredBlocks m c bs p).1.Sublist bs
  | [], p => by simp [getFilteredBlocks]
  | b :: bs, p => by
    simp only [getFilteredBlocks]
    split
    · exact (gf_sublist m c bs p).cons b
    · split
      · exact (gf_sublist m c bs (b.id :: p)).cons_cons b
      · exact (gf_sublist m c bs p).cons b

/-! ### getNextBlocks -/

theorem extendLoop_ge (m : Mode) (l : List Block) (mb : Nat) : ∀ (fuel n : Nat), n ≤ extendLoop m l mb fuel n
  | 0, n => by simp [extendLoop]
  | fuel + 1, n => by
    have hnpn : ∀ npn, n + 1 ≤ npn →
        n ≤ (if npn > mb then n else if npn = l.length then npn else extendLoop m l mb fuel npn) := by
      intro npn hn
      split
      · exact Nat.le_refl _
      · split
        · omega
        · exact Nat.le_trans (by omega) (extendLoop_ge m l mb fuel npn)
    simp only [extendLoop]
    apply hnpn
    cases l.drop n <;> simp <;> omega

theorem tieCount_pos (m : Mode) (b : Block) (bs : List Block) : 1 ≤ tieCount m (startOf m b) (b :: bs) := by
  simp [tieCount]

/-- the blocks taken are a prefix of the list -/
theorem nb_take (m : Mode) (l : List Block) (mb : Nat) :
    (getNextBlocks m l mb).1 = l.take (getNextBlocks m l mb).1.length := by
  cases l with
  | nil => simp [getNextBlocks]
  | cons b0 bs =>
    simp only [getNextBlocks]
    split
    · simp
    · rename_i b rest hd
      have hlt : numNext m (b0 :: bs) mb b0 < (b0 :: bs).length := by
        apply Decidable.byContradiction
        intro hc
        have : (b0 :: bs).drop (numNext m (b0 :: bs) mb b0) = [] := List.drop_eq_nil_of_le (by omega)
        rw [this] at hd
        cases hd
      simp [List.length_take, Nat.min_eq_left (Nat.le_of_lt hlt)]

/-- at least one block is taken from a non-empty list -/
theorem nb_pos (m : Mode) (l : List Block) (mb : Nat) (h : l ≠ []) : 1 ≤ (getNextBlocks m l mb).1.length := by
  cases l with
  | nil => exact absurd rfl h
  | cons b0 bs =>
    simp only [getNextBlocks]
    split
    · simp
    · rename_i b rest hd
      have hlt : numNext m (b0 :: bs) mb b0 < (b0 :: bs).length := by
        apply Decidable.byContradiction
        intro hc
        have : (b0 :: bs).drop (numNext m (b0 :: bs) mb b0) = [] := List.drop_eq_nil_of_le (by omega)
        rw [this] at hd
        cases hd
      have hge : 1 ≤ numNext m (b0 :: bs) mb b0 :=
        Nat.le_trans (tieCount_pos m b0 bs) (extendLoop_ge m _ mb _ _)
      simp [List.length_take, Nat.min_eq_left (Nat.le_of_lt hlt)]
      omega

/-- on a sorted list, no block left behind starts before the end time -/
theorem nb_rest_bound (m : Mode) (l : List Block) (mb : Nat) (hs : SortedBy m (startOf m) l) :
    ∀ b ∈ l.drop (getNextBlocks m l mb).1.length, m.before (startOf m b) (getNextBlocks m l mb).2 = false := by
  cases l with
  | nil => simp [getNextBlocks]
  | cons b0 bs =>
    simp only [getNextBlocks]
    split
    · simp
    · rename_i b rest hd
      have hlt : numNext m (b0 :: bs) mb b0 < (b0 :: bs).length := by
        apply Decidable.byContradiction
        intro hc
        have : (b0 :: bs).drop (numNext m (b0 :: bs) mb b0) = [] := List.drop_eq_nil_of_le (by omega)
        rw [this] at hd
        cases hd
      have hlen : (List.take (numNext m (b0 :: bs) mb b0) (b0 :: bs)).length = numNext m (b0 :: bs) mb b0 := by
        rw [List.length_take]; exact Nat.min_eq_left (Nat.le_of_lt hlt)
      intro x hx
      simp only [hlen, hd] at hx
      have hsd : SortedBy m (startOf m) (b :: rest) := by
        have := List.Pairwise.sublist (List.drop_sublist (numNext m (b0 :: bs) mb b0) (b0 :: bs)) hs
        rwa [hd] at this
      rcases List.mem_cons.mp hx with rfl | hx
      · exact before_irrefl m _
      · exact (List.pairwise_cons.mp hsd).1 x hx

/-! ### clampEnd -/

theorem clamp_of_before_cutoff (m : Mode) {c x : Nat} (e : Nat) (h : m.before c x = true) :
    m.before x (clampEnd m e c) = false := by
  cases m <;> simp [clampEnd] at * <;> omega

theorem clamp_of_nb (m : Mode) {e x : Nat} (c : Nat) (h : m.before x e = false) :
    m.before x (clampEnd m e c) = false := by
  cases m <;> simp [clampEnd] at * <;> omega

end SigModel.Lemmas.C05
