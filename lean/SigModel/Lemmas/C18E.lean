/-
Helper lemmas for the reader-state part of Props/C18 (SigModel.SegReader).  Core Lean only.
-/
import SigModel.Model.SegReader
namespace SigModel.Lemmas.C18E
open SigModel.Wal (Bytes)
open SigModel.SegReader

/-- a reader that says "block `curr` is loaded" serves the verified contents of that block -/
def Inv (load : Nat → Load) (st : St) : Prop :=
  st.loaded = true → ∃ c, load st.curr = .ok c ∧ st.buf = c

/-- what the state machine needs from a `readBlock` variant -/
def RBGood (load : Nat → Load) (rb : St → Nat → St × RB) : Prop :=
  ∀ st b, Inv load st →
    match rb st b with
    | (s, .ok) => s.curr = b ∧ s.loaded = true ∧ ∃ c, load b = .ok c ∧ s.buf = c
    | (s, _) => Inv load s

theorem inv_init (load : Nat → Load) : Inv load St.init := by
  intro h; simp [St.init] at h

theorem validate_spec {load : Nat → Load} {rb : St → Nat → St × RB} (h : RBGood load rb)
    {st : St} (hi : Inv load st) (b : Nat) :
    Inv load (validate rb st b).1 ∧
      ((validate rb st b).2 = false →
        (validate rb st b).1.buf = [] ∨ ∃ c, load b = .ok c ∧ (validate rb st b).1.buf = c) := by
  unfold validate
  by_cases hskip : (!st.loaded || st.curr != b) = true
  · rw [if_pos hskip]
    have hg := h st b hi
    rcases hrb : rb st b with ⟨s, res⟩
    rw [hrb] at hg
    cases res with
    | invalid =>
      refine ⟨?_, fun _ => Or.inl rfl⟩
      intro hl; simp at hl
    | err =>
      refine ⟨hg, ?_⟩
      intro hf; simp at hf
    | ok =>
      obtain ⟨hc, hl, c, hload, hbuf⟩ := hg
      refine ⟨?_, fun _ => Or.inr ⟨c, hload, hbuf⟩⟩
      intro _
      exact ⟨c, by simpa [hc] using hload, hbuf⟩
  · rw [if_neg hskip]
    have hl : st.loaded = true := by
      cases hh : st.loaded <;> simp [hh] at hskip ⊢
    have hc : st.curr = b := by
      cases hh : st.loaded
      · simp [hh] at hl
      · simpa [hh] using hskip
    refine ⟨hi, fun _ => ?_⟩
    obtain ⟨c, hload, hbuf⟩ := hi hl
    exact Or.inr ⟨c, by simpa [hc] using hload, hbuf⟩

theorem probe_inv {load : Nat → Load} {rb : St → Nat → St × RB} (h : RBGood load rb)
    {st : St} (hi : Inv load st) (b : Nat) : Inv load (probe rb st b).1 := by
  unfold probe
  by_cases hskip : (!st.loaded || st.curr != b) = true
  · rw [if_pos hskip]
    have hg := h st b hi
    rcases hrb : rb st b with ⟨s, res⟩
    rw [hrb] at hg
    cases res with
    | invalid => exact hg
    | err => exact hg
    | ok =>
      obtain ⟨hc, hl, c, hload, hbuf⟩ := hg
      intro _
      exact ⟨c, by simpa [hc] using hload, hbuf⟩
  · rw [if_neg hskip]; exact hi

theorem step_spec {load : Nat → Load} {rb : St → Nat → St × RB} (h : RBGood load rb)
    {st : St} (hi : Inv load st) (o : Op) :
    Inv load (step rb st o).1 ∧
      (∀ b i r, o = .rd b i → (step rb st o).2 = .data r → Genuine load b i r) := by
  cases o with
  | ld b =>
    refine ⟨?_, fun _ _ _ hh => by cases hh⟩
    simp only [step]
    exact (validate_spec h hi b).1
  | pr b =>
    refine ⟨?_, fun _ _ _ hh => by cases hh⟩
    simp only [step]
    exact probe_inv h hi b
  | rd b i =>
    have hv := validate_spec h hi b
    simp only [step]
    rcases hval : validate rb st b with ⟨s, e⟩
    rw [hval] at hv
    cases e with
    | true =>
      refine ⟨hv.1, ?_⟩
      intro b' i' r _ hr
      simp at hr
    | false =>
      simp only [Bool.false_eq_true, if_false]
      cases hget : s.buf[i]? with
      | none =>
        refine ⟨hv.1, ?_⟩
        intro b' i' r _ hr
        simp at hr
      | some r0 =>
        refine ⟨hv.1, ?_⟩
        intro b' i' r hop hr
        cases hop
        simp at hr
        subst hr
        rcases hv.2 rfl with hnil | ⟨c, hload, hbuf⟩
        · rw [hnil] at hget; simp at hget
        · exact ⟨c, hload, by rw [← hbuf]; exact hget⟩

theorem run_spec {load : Nat → Load} {rb : St → Nat → St × RB} (h : RBGood load rb) :
    ∀ (ops : List Op) (st : St), Inv load st → ServesOnlyRequestedBlock rb load st ops := by
  intro ops
  induction ops with
  | nil =>
    intro st _ k b i r hop _
    simp at hop
  | cons o os ih =>
    intro st hi k b i r hop hres
    have hs := step_spec h hi o
    cases k with
    | zero =>
      simp only [List.getElem?_cons_zero, Option.some.injEq] at hop
      simp only [run, List.getElem?_cons_zero, Option.some.injEq] at hres
      exact hs.2 b i r hop hres
    | succ k =>
      simp only [List.getElem?_cons_succ] at hop
      simp only [run, List.getElem?_cons_succ] at hres
      exact ih (step rb st o).1 hs.1 k b i r hop hres

/-- the old code's order was good only when failed attempts did not disturb the buffers -/
theorem readBlockOld_good {load : Nat → Load} (hk : FailKeeps load) : RBGood load (readBlockOld load) := by
  intro st b hi
  unfold readBlockOld
  cases hl : load b with
  | absent => exact hi
  | fail cl =>
    intro hld
    obtain ⟨c, hc, hb⟩ := hi hld
    exact ⟨c, hc, by simp [hk b cl hl, hb]⟩
  | ok c => exact ⟨rfl, rfl, c, rfl, rfl⟩

/-- the code as it is (a failed load forgets the loaded block) is good for every load function -/
theorem readBlock_good (load : Nat → Load) : RBGood load (readBlock load) := by
  intro st b hi
  unfold readBlock
  cases hl : load b with
  | absent => exact hi
  | fail cl => intro hld; simp at hld
  | ok c => exact ⟨rfl, rfl, c, rfl, rfl⟩

/-! ### the guarded statement for the OLD readBlock (buffers may be clobbered, state not reset) -/

/-- invariant with the taint flag: an UNTAINTED loaded reader serves the block it records -/
def InvT (load : Nat → Load) (st : St) (t : Bool) : Prop :=
  st.loaded = true → t = false → ∃ c, load st.curr = .ok c ∧ st.buf = c

theorem guarded_run (load : Nat → Load) :
    ∀ (ops : List Op) (st : St) (t : Bool), InvT load st t → noStaleReturn load st t ops = true →
      ServesOnlyRequestedBlock (readBlockOld load) load st ops := by
  intro ops
  induction ops with
  | nil =>
    intro st t _ _ k b i r hop _
    simp at hop
  | cons o os ih =>
    intro st t hi hg k b i r hop hres
    unfold noStaleReturn at hg
    by_cases hskip : (st.loaded && st.curr == o.block) = true
    · -- the block recorded as loaded is asked for: the load is skipped, the guard says "not tainted"
      simp only [hskip, if_true] at hg
      have ht : t = false := by
        cases t with
        | false => rfl
        | true => simp at hg
      subst ht
      simp only [Bool.false_eq_true, if_false] at hg
      have hl : st.loaded = true := by
        cases hh : st.loaded <;> simp [hh] at hskip ⊢
      have hc : st.curr = o.block := by
        cases hh : st.loaded
        · simp [hh] at hl
        · simpa [hh] using hskip
      obtain ⟨c, hload, hbuf⟩ := hi hl rfl
      have hcond : (!st.loaded || st.curr != o.block) = false := by simp [hl, hc]
      -- the step leaves the state alone
      have hst : (step (readBlockOld load) st o).1 = st := by
        cases o with
        | ld b0 => simp only [Op.block] at hcond; simp [step, validate, hcond]
        | pr b0 => simp only [Op.block] at hcond; simp [step, probe, hcond]
        | rd b0 i0 =>
          simp only [Op.block] at hcond
          simp only [step, validate, hcond, Bool.false_eq_true, if_false]
          split <;> rfl
      cases k with
      | zero =>
        simp only [List.getElem?_cons_zero, Option.some.injEq] at hop
        subst hop
        simp only [run, List.getElem?_cons_zero, Option.some.injEq] at hres
        simp only [Op.block] at hcond hc
        simp only [step, validate, hcond, Bool.false_eq_true, if_false] at hres
        split at hres
        · rename_i r0 hget
          simp at hres
          subst hres
          exact ⟨c, by simpa [hc] using hload, by rw [← hbuf]; exact hget⟩
        · simp at hres
      | succ k =>
        simp only [List.getElem?_cons_succ] at hop
        simp only [run, List.getElem?_cons_succ] at hres
        refine ih (step (readBlockOld load) st o).1 false ?_ hg k b i r hop hres
        rw [hst]; exact hi
    · -- a load is attempted
      simp only [hskip, Bool.false_eq_true, if_false] at hg
      have hcond : (!st.loaded || st.curr != o.block) = true := by
        cases hh : st.loaded
        · simp
        · simp [hh] at hskip; simp [hskip]
      -- state and result of the attempt, by the outcome of the load
      cases hl : load o.block with
      | absent =>
        rw [hl] at hg
        have hrb : readBlockOld load st o.block = (st, .invalid) := by simp [readBlockOld, hl]
        cases k with
        | zero =>
          simp only [List.getElem?_cons_zero, Option.some.injEq] at hop
          subst hop
          simp only [run, List.getElem?_cons_zero, Option.some.injEq] at hres
          simp only [Op.block] at hcond hrb
          simp [step, validate, hcond, hrb] at hres
        | succ k =>
          simp only [List.getElem?_cons_succ] at hop
          simp only [run, List.getElem?_cons_succ] at hres
          refine ih _ t ?_ hg k b i r hop hres
          cases o with
          | ld b0 =>
            simp only [Op.block] at hcond hrb
            intro hld; simp [step, validate, hcond, hrb] at hld
          | pr b0 =>
            simp only [Op.block] at hcond hrb
            simpa [step, probe, hcond, hrb] using hi
          | rd b0 i0 =>
            simp only [Op.block] at hcond hrb
            intro hld; simp [step, validate, hcond, hrb] at hld
      | fail cl =>
        rw [hl] at hg
        have hrb : readBlockOld load st o.block = ({ st with buf := cl st.buf }, .err) := by simp [readBlockOld, hl]
        cases k with
        | zero =>
          simp only [List.getElem?_cons_zero, Option.some.injEq] at hop
          subst hop
          simp only [run, List.getElem?_cons_zero, Option.some.injEq] at hres
          simp only [Op.block] at hcond hrb
          simp [step, validate, hcond, hrb] at hres
        | succ k =>
          simp only [List.getElem?_cons_succ] at hop
          simp only [run, List.getElem?_cons_succ] at hres
          refine ih _ true ?_ hg k b i r hop hres
          intro _ ht; simp at ht
      | ok c =>
        rw [hl] at hg
        have hrb : readBlockOld load st o.block = ({ curr := o.block, loaded := true, buf := c }, .ok) := by
          simp [readBlockOld, hl]
        cases k with
        | zero =>
          simp only [List.getElem?_cons_zero, Option.some.injEq] at hop
          subst hop
          simp only [run, List.getElem?_cons_zero, Option.some.injEq] at hres
          simp only [Op.block] at hcond hrb hl
          simp only [step, validate, hcond, hrb, if_true, Bool.false_eq_true, if_false] at hres
          split at hres
          · rename_i r0 hget
            simp at hres
            subst hres
            exact ⟨c, hl, hget⟩
          · simp at hres
        | succ k =>
          simp only [List.getElem?_cons_succ] at hop
          simp only [run, List.getElem?_cons_succ] at hres
          refine ih _ false ?_ hg k b i r hop hres
          have hst : (step (readBlockOld load) st o).1 = { curr := o.block, loaded := true, buf := c } := by
            cases o with
            | ld b0 => simp only [Op.block] at hcond hrb ⊢; simp [step, validate, hcond, hrb]
            | pr b0 => simp only [Op.block] at hcond hrb ⊢; simp [step, probe, hcond, hrb]
            | rd b0 i0 =>
              simp only [Op.block] at hcond hrb ⊢
              simp only [step, validate, hcond, hrb, if_true, Bool.false_eq_true, if_false]
              split <;> rfl
          rw [hst]
          intro _ _
          exact ⟨c, hl, rfl⟩

/-! ### the timestamp reader -/

def TInv (load : Nat → TLoad) (st : TSt) : Prop :=
  st.loaded = true → ∃ c, load st.curr = .ok c ∧ st.ts = c

theorem ts_run (load : Nat → TLoad) (hne : NoEof load) :
    ∀ (ops : List (Nat × Nat)) (st : TSt), TInv load st → TsServesOnlyRequestedBlock load st ops := by
  intro ops
  induction ops with
  | nil =>
    intro st _ k b i v hop _
    simp at hop
  | cons o os ih =>
    intro st hi k b i v hop hres
    obtain ⟨b0, i0⟩ := o
    -- one read: the new state satisfies the invariant, a served value is genuine
    have hstep : TInv load (tsRead load st b0 i0).1 ∧
        (∀ v, (tsRead load st b0 i0).2 = some v → ∃ c, load b0 = .ok c ∧ c[i0]? = some v) := by
      unfold tsRead
      by_cases hskip : (!st.loaded || st.curr != b0) = true
      · rw [if_pos hskip]
        cases hl : load b0 with
        | ok c =>
          refine ⟨fun _ => ⟨c, hl, rfl⟩, fun v hv => ⟨c, rfl, hv⟩⟩
        | fail =>
          refine ⟨fun h => by simp at h, fun v hv => by simp at hv⟩
        | eof => exact absurd hl (hne b0)
        | nometa =>
          refine ⟨hi, fun v hv => by simp at hv⟩
      · rw [if_neg hskip]
        have hl : st.loaded = true := by
          cases hh : st.loaded <;> simp [hh] at hskip ⊢
        have hc : st.curr = b0 := by
          cases hh : st.loaded
          · simp [hh] at hl
          · simpa [hh] using hskip
        obtain ⟨c, hload, hts⟩ := hi hl
        refine ⟨hi, fun v hv => ⟨c, by simpa [hc] using hload, by rw [← hts]; exact hv⟩⟩
    cases k with
    | zero =>
      simp only [List.getElem?_cons_zero, Option.some.injEq] at hop
      cases hop
      simp only [tsRun, List.getElem?_cons_zero, Option.some.injEq] at hres
      exact hstep.2 v hres
    | succ k =>
      simp only [List.getElem?_cons_succ] at hop
      simp only [tsRun, List.getElem?_cons_succ] at hres
      exact ih _ hstep.1 k b i v hop hres

end SigModel.Lemmas.C18E
