import SigModel.Model.Retention
/-! Helper lemmas for C14 (retention).  Core Lean only. -/
namespace SigModel.Lemmas.C14
open SigModel.Retention

/-! ### horizon arithmetic -/

theorem wrapS64_id (x : Int) (h1 : -(two63 : Int) ≤ x) (h2 : x < (two63 : Int)) : wrapS64 x = x := by
  unfold wrapS64
  have : (x + (two63 : Int)) % (two64 : Int) = x + (two63 : Int) := by
    apply Int.emod_eq_of_lt
    · omega
    · simp only [two63, two64] at *; omega
  omega

theorem toU64_id (x : Int) (h1 : 0 ≤ x) (h2 : x < (two64 : Int)) : (toU64 x : Int) = x := by
  unfold toU64
  rw [Int.emod_eq_of_lt h1 h2]
  omega

/-- `uint64` of a negative int64 is at least 2^63 -/
theorem toU64_neg (x : Int) (h1 : x < 0) (h2 : -(two63 : Int) ≤ x) : two63 ≤ toU64 x := by
  unfold toU64
  have : x % (two64 : Int) = x + (two64 : Int) := by
    rw [← Int.add_emod_right]
    apply Int.emod_eq_of_lt
    · simp only [two63, two64] at *; omega
    · simp only [two63, two64] at *; omega
  rw [this]
  simp only [two63, two64] at *
  omega

theorem negRetDur (hours : Int) (h0 : 0 ≤ hours) (h1 : hours < 2562047) :
    wrapS64 (- retDurNs hours) = - (hours * 3600000000000) := by
  unfold retDurNs nsPerHour
  rw [wrapS64_id (hours * 3600000000000) (by simp only [two63]; omega) (by simp only [two63]; omega)]
  exact wrapS64_id _ (by simp only [two63]; omega) (by simp only [two63]; omega)

theorem horizonNs_eq (nowNs : Nat) (hours : Int)
    (h0 : 0 ≤ hours) (h1 : hours < 2562047) (h2 : hours * 3600000 ≤ ((nowNs / 1000000 : Nat) : Int)) (h3 : nowNs < two63) :
    (horizonNs nowNs hours : Int) = ((nowNs / 1000000 : Nat) : Int) - hours * 3600000 := by
  unfold horizonNs nsPerMs
  rw [negRetDur hours h0 h1]
  have e : ((nowNs : Int) + -(hours * 3600000000000)) / 1000000 = ((nowNs / 1000000 : Nat) : Int) - hours * 3600000 := by
    have : (nowNs : Int) + -(hours * 3600000000000) = (nowNs : Int) + (-(hours * 3600000)) * 1000000 := by omega
    rw [this, Int.add_mul_ediv_right _ _ (by decide)]
    omega
  rw [e]
  apply toU64_id
  · omega
  · simp only [two63, two64] at *; omega

theorem horizon_eq (nowMs : Nat) (hours : Int)
    (h0 : 0 ≤ hours) (h1 : hours < 2562047) (h2 : hours * 3600000 ≤ nowMs) (h3 : nowMs < 9000000000000) :
    (horizon nowMs hours : Int) = (nowMs : Int) - hours * 3600000 := by
  unfold horizon
  have hd : nowMs * 1000000 / 1000000 = nowMs := by omega
  have := horizonNs_eq (nowMs * 1000000) hours h0 h1 (by rw [hd]; exact h2) (by simp only [two63]; omega)
  rw [hd] at this
  exact this

/-- horizon before the epoch: the `uint64` conversion wraps -/
theorem horizon_wrapped (nowMs : Nat) (hours : Int)
    (h0 : 0 ≤ hours) (h1 : hours < 2562047) (h2 : (nowMs : Int) < hours * 3600000) (h3 : nowMs < 9000000000000) :
    two63 ≤ horizon nowMs hours := by
  unfold horizon horizonNs nsPerMs
  rw [negRetDur hours h0 h1]
  have e : (((nowMs * 1000000 : Nat) : Int) + -(hours * 3600000000000)) / 1000000 = (nowMs : Int) - hours * 3600000 := by
    have : ((nowMs * 1000000 : Nat) : Int) + -(hours * 3600000000000) = ((nowMs : Int) - hours * 3600000) * 1000000 := by omega
    rw [this, Int.mul_ediv_cancel _ (by decide)]
  rw [e]
  apply toU64_neg
  · omega
  · simp only [two63]; omega

theorem timeMs_eq_trueTime (m : Meta) (h : m.kind = .metrics → m.latest < two32) : timeMs m = trueTimeMs m := by
  unfold timeMs trueTimeMs
  cases hk : m.kind with
  | log => rfl
  | metrics =>
    have := h hk
    simp only [wrap64, two64, two32] at *
    omega

/-! ### micro-steps: commutation, idempotence, absorption -/

theorem filter_comm' {α} (p q : α → Bool) (l : List α) : (l.filter p).filter q = (l.filter q).filter p := by
  rw [List.filter_filter, List.filter_filter]
  apply List.filter_congr
  intro x _
  exact Bool.and_comm _ _

theorem filter_idem {α} (p : α → Bool) (l : List α) : (l.filter p).filter p = l.filter p := by
  rw [List.filter_filter]
  apply List.filter_congr
  intro x _
  exact Bool.and_self _

theorem applyStep_comm (s : Store) (a b : Step) :
    applyStep (applyStep s a) b = applyStep (applyStep s b) a := by
  cases a <;> cases b <;> simp only [applyStep] <;> first | rfl | (congr 1; exact filter_comm' _ _ _)

theorem applyStep_idem (s : Store) (a : Step) : applyStep (applyStep s a) a = applyStep s a := by
  cases a <;> simp only [applyStep] <;> (congr 1; exact filter_idem _ _)

theorem foldl_applyStep_comm (L : List Step) (s : Store) (t : Step) :
    L.foldl applyStep (applyStep s t) = applyStep (L.foldl applyStep s) t := by
  induction L generalizing s with
  | nil => rfl
  | cons a L ih => simp only [List.foldl_cons]; rw [applyStep_comm s t a, ih]

/-- a run absorbs a repetition of any of its own steps -/
theorem absorb_after (L : List Step) (s : Store) (t : Step) (h : t ∈ L) :
    applyStep (L.foldl applyStep s) t = L.foldl applyStep s := by
  induction L generalizing s with
  | nil => cases h
  | cons a L ih =>
    simp only [List.foldl_cons]
    rcases List.mem_cons.mp h with rfl | h'
    · rw [← foldl_applyStep_comm, applyStep_idem]
    · exact ih _ h'

/-- a run absorbs any of its own steps done beforehand -/
theorem absorb_before (L P : List Step) (s : Store) (h : ∀ t ∈ P, t ∈ L) :
    L.foldl applyStep (P.foldl applyStep s) = L.foldl applyStep s := by
  induction P generalizing s with
  | nil => rfl
  | cons t P ih =>
    simp only [List.foldl_cons]
    rw [ih _ (fun x hx => h x (List.mem_cons_of_mem _ hx)), foldl_applyStep_comm,
      absorb_after L s t (h t List.mem_cons_self)]

/-! ### what a step can touch -/

def targets : Step → List Nat
  | .blob k => [k] | .files k => [k] | .mem k => [k] | .pq k _ => [k] | .segmeta ks => ks

def isSegmeta : Step → Bool
  | .segmeta _ => true
  | _ => false

/-- the two stores agree on everything that does not belong to a key in `K` -/
structure SameOutside (K : List Nat) (s s' : Store) : Prop where
  blob : ∀ k, k ∉ K → (k ∈ s'.blob ↔ k ∈ s.blob)
  files : ∀ k, k ∉ K → (k ∈ s'.files ↔ k ∈ s.files)
  mem : ∀ k, k ∉ K → (k ∈ s'.memMeta ↔ k ∈ s.memMeta)
  pq : ∀ p k, k ∉ K → ((p, k) ∈ s'.pqMeta ↔ (p, k) ∈ s.pqMeta)
  segmeta : ∀ m : Meta, m.key ∉ K → (m ∈ s'.segmetaJson ↔ m ∈ s.segmetaJson)

theorem SameOutside.refl (K : List Nat) (s : Store) : SameOutside K s s :=
  ⟨fun _ _ => Iff.rfl, fun _ _ => Iff.rfl, fun _ _ => Iff.rfl, fun _ _ _ => Iff.rfl, fun _ _ => Iff.rfl⟩

theorem SameOutside.trans {K : List Nat} {a b c : Store} (h1 : SameOutside K a b) (h2 : SameOutside K b c) :
    SameOutside K a c :=
  ⟨fun k hk => (h2.blob k hk).trans (h1.blob k hk), fun k hk => (h2.files k hk).trans (h1.files k hk),
   fun k hk => (h2.mem k hk).trans (h1.mem k hk), fun p k hk => (h2.pq p k hk).trans (h1.pq p k hk),
   fun m hk => (h2.segmeta m hk).trans (h1.segmeta m hk)⟩

theorem sameOutside_step (K : List Nat) (s : Store) (t : Step) (h : ∀ k ∈ targets t, k ∈ K) :
    SameOutside K s (applyStep s t) := by
  cases t with
  | blob k0 =>
    have hk : k0 ∈ K := h k0 (by simp [targets])
    refine ⟨?_, fun _ _ => Iff.rfl, fun _ _ => Iff.rfl, fun _ _ _ => Iff.rfl, fun _ _ => Iff.rfl⟩
    intro k hkK
    simp only [applyStep, List.mem_filter, decide_eq_true_eq]
    exact ⟨fun h => h.1, fun h => ⟨h, fun e => hkK (e ▸ hk)⟩⟩
  | files k0 =>
    have hk : k0 ∈ K := h k0 (by simp [targets])
    refine ⟨fun _ _ => Iff.rfl, ?_, fun _ _ => Iff.rfl, fun _ _ _ => Iff.rfl, fun _ _ => Iff.rfl⟩
    intro k hkK
    simp only [applyStep, List.mem_filter, decide_eq_true_eq]
    exact ⟨fun h => h.1, fun h => ⟨h, fun e => hkK (e ▸ hk)⟩⟩
  | mem k0 =>
    have hk : k0 ∈ K := h k0 (by simp [targets])
    refine ⟨fun _ _ => Iff.rfl, fun _ _ => Iff.rfl, ?_, fun _ _ _ => Iff.rfl, fun _ _ => Iff.rfl⟩
    intro k hkK
    simp only [applyStep, List.mem_filter, decide_eq_true_eq]
    exact ⟨fun h => h.1, fun h => ⟨h, fun e => hkK (e ▸ hk)⟩⟩
  | pq k0 ps =>
    have hk : k0 ∈ K := h k0 (by simp [targets])
    refine ⟨fun _ _ => Iff.rfl, fun _ _ => Iff.rfl, fun _ _ => Iff.rfl, ?_, fun _ _ => Iff.rfl⟩
    intro p k hkK
    simp only [applyStep, List.mem_filter]
    refine ⟨fun h => h.1, fun h => ⟨h, ?_⟩⟩
    have : k ≠ k0 := fun e => hkK (e ▸ hk)
    simp [this]
  | segmeta ks =>
    refine ⟨fun _ _ => Iff.rfl, fun _ _ => Iff.rfl, fun _ _ => Iff.rfl, fun _ _ _ => Iff.rfl, ?_⟩
    intro m hmK
    simp only [applyStep, List.mem_filter, decide_eq_true_eq]
    exact ⟨fun h => h.1, fun hm => ⟨hm, fun e => hmK (h _ (by simpa [targets] using e))⟩⟩

theorem sameOutside_foldl (K : List Nat) (L : List Step) (s : Store) (h : ∀ t ∈ L, ∀ k ∈ targets t, k ∈ K) :
    SameOutside K s (L.foldl applyStep s) := by
  induction L generalizing s with
  | nil => exact SameOutside.refl K s
  | cons t L ih =>
    simp only [List.foldl_cons]
    exact (sameOutside_step K s t (h t List.mem_cons_self)).trans
      (ih _ (fun x hx => h x (List.mem_cons_of_mem _ hx)))

theorem targets_stepsFor (order : List Phase) (vs : List Meta) (t : Step) (h : t ∈ stepsFor order vs) :
    ∀ k ∈ targets t, k ∈ vs.map (·.key) := by
  unfold stepsFor at h
  obtain ⟨ph, _, ht⟩ := List.mem_flatMap.mp h
  cases ph <;> simp only [phaseSteps, List.mem_map, List.mem_singleton] at ht
  all_goals first
    | (obtain ⟨v, hv, rfl⟩ := ht
       intro k hk
       simp only [targets, List.mem_singleton] at hk
       exact List.mem_map.mpr ⟨v, hv, hk.symm⟩)
    | (subst ht; intro k hk; exact hk)

/-! ### segmeta.json under the steps -/

theorem segmeta_of_not_isSegmeta (s : Store) (t : Step) (h : isSegmeta t = false) :
    (applyStep s t).segmetaJson = s.segmetaJson := by
  cases t <;> first | rfl | (simp [isSegmeta] at h)

theorem segmeta_foldl_of_not_isSegmeta (L : List Step) (s : Store) (h : ∀ t ∈ L, isSegmeta t = false) :
    (L.foldl applyStep s).segmetaJson = s.segmetaJson := by
  induction L generalizing s with
  | nil => rfl
  | cons t L ih =>
    simp only [List.foldl_cons]
    rw [ih _ (fun x hx => h x (List.mem_cons_of_mem _ hx)), segmeta_of_not_isSegmeta s t (h t List.mem_cons_self)]

theorem segmeta_subset_step (s : Store) (t : Step) (m : Meta) (h : m ∈ (applyStep s t).segmetaJson) :
    m ∈ s.segmetaJson := by
  cases t <;> first | exact h | exact (List.mem_filter.mp h).1

theorem segmeta_subset_foldl (L : List Step) (s : Store) (m : Meta) (h : m ∈ (L.foldl applyStep s).segmetaJson) :
    m ∈ s.segmetaJson := by
  induction L generalizing s with
  | nil => exact h
  | cons t L ih => exact segmeta_subset_step s t m (ih _ h)

/-- the step list of `DeleteSegmentData` in the order of the source: everything else, then segmeta.json -/
theorem stepsFor_deleteOrder (vs : List Meta) :
    stepsFor deleteOrder vs =
      (vs.map (fun v => Step.pq v.key v.pqids) ++ vs.map (fun v => Step.blob v.key) ++ vs.map (fun v => Step.files v.key)
        ++ vs.map (fun v => Step.mem v.key)) ++ [Step.segmeta (vs.map (·.key))] := by
  simp [stepsFor, deleteOrder, phaseSteps]

theorem front_not_isSegmeta (vs : List Meta) (t : Step)
    (h : t ∈ vs.map (fun v => Step.pq v.key v.pqids) ++ vs.map (fun v => Step.blob v.key) ++ vs.map (fun v => Step.files v.key)
        ++ vs.map (fun v => Step.mem v.key)) : isSegmeta t = false := by
  simp only [List.mem_append, List.mem_map] at h
  rcases h with ((⟨v, _, rfl⟩ | ⟨v, _, rfl⟩) | ⟨v, _, rfl⟩) | ⟨v, _, rfl⟩ <;> rfl

/-! ### interrupt + repeat -/

theorem stepsFor_length_deleteOrder (vs : List Meta) :
    (stepsFor deleteOrder vs).length = 4 * vs.length + 1 := by
  rw [stepsFor_deleteOrder]; simp; omega

/-- after a complete run, a second selection over the rewritten segmeta.json finds no victim -/
theorem victims_after_full (nowMs : Nat) (hours : Int) (s : Store) :
    let vs := victims nowMs hours 0 (readLocal s)
    victims nowMs hours 0 (readLocal (runSteps s (stepsFor deleteOrder vs))) = [] := by
  intro vs
  apply List.filter_eq_nil_iff.mpr
  intro x hx
  unfold readLocal at hx
  obtain ⟨m, hm, rfl⟩ := List.mem_map.mp hx
  -- m survived the segmeta step, so its key is not a victim key
  have hσ : Step.segmeta (vs.map (·.key)) ∈ stepsFor deleteOrder vs := by
    rw [stepsFor_deleteOrder]; simp
  have habs := absorb_after (stepsFor deleteOrder vs) s _ hσ
  have hm' : m ∈ (applyStep (runSteps s (stepsFor deleteOrder vs)) (Step.segmeta (vs.map (·.key)))).segmetaJson := by
    unfold runSteps; rw [habs]; exact hm
  simp only [applyStep, List.mem_filter, decide_eq_true_eq] at hm'
  have hms : m ∈ s.segmetaJson := segmeta_subset_foldl _ s m hm
  intro hP
  apply hm'.2
  have : ({ m with pqids := [] } : Meta) ∈ vs := by
    apply List.mem_filter.mpr
    exact ⟨List.mem_map.mpr ⟨m, hms, rfl⟩, hP⟩
  exact List.mem_map.mpr ⟨_, this, rfl⟩

/-- the protocol WITHOUT the .sfm reading (`passOld`: every pq step is a no-op): interrupted + repeated =
uninterrupted, in all five stores -/
theorem interrupt_repeat_old (nowMs : Nat) (hours : Int) (s : Store) (cut : Nat) :
    passOld deleteOrder nowMs hours (passCutOld deleteOrder nowMs hours s cut) = passOld deleteOrder nowMs hours s := by
  unfold passCutOld
  generalize hvs : victims nowMs hours 0 (readLocal s) = vs
  unfold deleteSegmentDataOld
  by_cases he : vs.isEmpty = true
  · simp only [he, if_true]
  · simp only [he, if_false, Bool.false_eq_true]
    have hfront := front_not_isSegmeta vs
    have hL := stepsFor_deleteOrder vs
    generalize hF : (vs.map (fun v => Step.pq v.key v.pqids) ++ vs.map (fun v => Step.blob v.key) ++ vs.map (fun v => Step.files v.key)
        ++ vs.map (fun v => Step.mem v.key)) = F at hfront hL
    by_cases hc : cut ≤ F.length
    · -- the segmeta.json rewrite has not happened: the repeated pass selects the same victims
      have htake : (stepsFor deleteOrder vs).take cut = F.take cut := by
        rw [hL]; exact List.take_append_of_le_length hc
      have hsm : (runSteps s ((stepsFor deleteOrder vs).take cut)).segmetaJson = s.segmetaJson := by
        unfold runSteps; rw [htake]
        exact segmeta_foldl_of_not_isSegmeta _ s (fun t ht => hfront t (List.mem_of_mem_take ht))
      have hrl : readLocal (runSteps s ((stepsFor deleteOrder vs).take cut)) = readLocal s := by
        unfold readLocal; rw [hsm]
      unfold passOld
      simp only [hrl, hvs]
      unfold deleteSegmentDataOld
      simp only [he, if_false, Bool.false_eq_true, List.take_length]
      unfold runSteps
      exact absorb_before _ _ s (fun t ht => List.mem_of_mem_take ht)
    · -- the whole step list ran: the repeated pass finds nothing to do
      have hlen : (stepsFor deleteOrder vs).length ≤ cut := by
        rw [hL]; simp; omega
      rw [List.take_of_length_le hlen]
      have hnil := victims_after_full nowMs hours s
      simp only [hvs] at hnil
      have hpass_s : passOld deleteOrder nowMs hours s = runSteps s (stepsFor deleteOrder vs) := by
        unfold passOld
        simp only [hvs]
        unfold deleteSegmentDataOld
        simp only [he, if_false, Bool.false_eq_true, List.take_length]
      rw [hpass_s]
      unfold passOld
      simp only [hnil]
      unfold deleteSegmentDataOld
      simp


/-! ### the repaired protocol (pqids read from the .sfm files) against the old one -/

/-- forget the pqids of a pq step -/
def erasePq : Step → Step
  | .pq k _ => .pq k []
  | t => t

def clearPqids (v : Meta) : Meta := { v with pqids := [] }

theorem withoutPq_applyStep (s : Store) (t : Step) :
    withoutPq (applyStep s t) = applyStep (withoutPq s) (erasePq t) := by
  cases t <;> simp [withoutPq, applyStep, erasePq]

theorem withoutPq_foldl (L : List Step) (s : Store) :
    withoutPq (L.foldl applyStep s) = (L.map erasePq).foldl applyStep (withoutPq s) := by
  induction L generalizing s with
  | nil => rfl
  | cons t L ih => simp only [List.foldl_cons, List.map_cons]; rw [ih, withoutPq_applyStep]

theorem phaseSteps_erase (vs : List Meta) (ph : Phase) :
    (phaseSteps vs ph).map erasePq = (phaseSteps (vs.map clearPqids) ph).map erasePq := by
  cases ph <;> simp [phaseSteps, erasePq, clearPqids, List.map_map, Function.comp_def]

theorem stepsFor_erase (order : List Phase) (vs : List Meta) :
    (stepsFor order vs).map erasePq = (stepsFor order (vs.map clearPqids)).map erasePq := by
  unfold stepsFor
  induction order with
  | nil => rfl
  | cons ph r ih => simp only [List.flatMap_cons, List.map_append, ih, phaseSteps_erase vs ph]

theorem withSfmPqids_clear (s : Store) (vs : List Meta) :
    (withSfmPqids s vs).map clearPqids = vs.map clearPqids := by
  unfold withSfmPqids
  rw [List.map_map]
  apply List.map_congr_left
  intro v _
  simp only [Function.comp_def, clearPqids]
  split <;> rfl

theorem withSfmPqids_keys (s : Store) (vs : List Meta) :
    (withSfmPqids s vs).map (·.key) = vs.map (·.key) := by
  unfold withSfmPqids
  rw [List.map_map]
  apply List.map_congr_left
  intro v _
  simp only [Function.comp_def]
  split <;> rfl

theorem withSfmPqids_congr (s s1 : Store) (hf : s1.files = s.files) (hq : s1.sfmPq = s.sfmPq) (vs : List Meta) :
    withSfmPqids s1 vs = withSfmPqids s vs := by
  unfold withSfmPqids sfmPqids; rw [hf, hq]

theorem withSfmPqids_isEmpty (s : Store) (vs : List Meta) : (withSfmPqids s vs).isEmpty = vs.isEmpty := by
  unfold withSfmPqids; cases vs <;> rfl

/-- the step lists of the repaired and the old protocol differ only in the pqids of the pq steps -/
theorem stepsFor_withSfm_erase (order : List Phase) (s : Store) (vs : List Meta) :
    (stepsFor order (withSfmPqids s vs)).map erasePq = (stepsFor order vs).map erasePq := by
  rw [stepsFor_erase order (withSfmPqids s vs), withSfmPqids_clear, ← stepsFor_erase]

theorem stepsFor_withSfm_length (order : List Phase) (s : Store) (vs : List Meta) :
    (stepsFor order (withSfmPqids s vs)).length = (stepsFor order vs).length := by
  have := congrArg List.length (stepsFor_withSfm_erase order s vs)
  simpa using this

/-- on a store without empty-PQ entries the pqids of the pq steps do not matter -/
theorem foldl_erase_of_noPq (L : List Step) (s : Store) (h : s.pqMeta = []) :
    (L.map erasePq).foldl applyStep s = L.foldl applyStep s := by
  induction L generalizing s with
  | nil => rfl
  | cons t L ih =>
    simp only [List.foldl_cons, List.map_cons]
    have e : applyStep s (erasePq t) = applyStep s t := by
      cases t <;> simp [applyStep, erasePq, h]
    rw [e]
    apply ih
    cases t <;> simp [applyStep, h]

/-- KEY: outside the empty-PQ meta files the repaired `DeleteSegmentData` does exactly what the old one did -/
theorem withoutPq_deleteSegmentData (order : List Phase) (vs : List Meta) (s : Store) (cut : Nat) :
    withoutPq (deleteSegmentData order vs s cut) = deleteSegmentDataOld order vs (withoutPq s) cut := by
  unfold deleteSegmentData deleteSegmentDataOld
  split
  · rfl
  · unfold runSteps
    rw [withoutPq_foldl, List.map_take, stepsFor_withSfm_erase, ← List.map_take,
      foldl_erase_of_noPq _ _ rfl]

theorem readLocal_withoutPq (s : Store) : readLocal (withoutPq s) = readLocal s := rfl

theorem withoutPq_passCut (nowMs : Nat) (hours : Int) (s : Store) (cut : Nat) :
    withoutPq (passCut deleteOrder nowMs hours s cut) = passCutOld deleteOrder nowMs hours (withoutPq s) cut := by
  unfold passCut passCutOld
  rw [withoutPq_deleteSegmentData, readLocal_withoutPq]

theorem withoutPq_pass (nowMs : Nat) (hours : Int) (s : Store) :
    withoutPq (pass deleteOrder nowMs hours s) = passOld deleteOrder nowMs hours (withoutPq s) := by
  unfold pass passOld
  simp only [withoutPq_deleteSegmentData, readLocal_withoutPq]

/-- an uninterrupted pass with at least one victim runs the whole step list of the victims (with the
pqids of their .sfm files) -/
theorem pass_eq_foldl (nowMs : Nat) (hours : Int) (s : Store)
    (hne : (victims nowMs hours 0 (readLocal s)).isEmpty = false) :
    pass deleteOrder nowMs hours s
      = (stepsFor deleteOrder (withSfmPqids s (victims nowMs hours 0 (readLocal s)))).foldl applyStep s := by
  unfold pass deleteSegmentData runSteps
  simp only [hne, Bool.false_eq_true, if_false]
  rw [← stepsFor_withSfm_length deleteOrder s, List.take_length]

/-- after a complete pass a second selection finds no victim (old and repaired protocol) -/
theorem victims_after_passOld (nowMs : Nat) (hours : Int) (s : Store) :
    victims nowMs hours 0 (readLocal (passOld deleteOrder nowMs hours s)) = [] := by
  unfold passOld deleteSegmentDataOld
  simp only [List.take_length]
  split
  · rename_i he
    exact List.isEmpty_iff.mp he
  · exact victims_after_full nowMs hours s

theorem victims_after_pass (nowMs : Nat) (hours : Int) (s : Store) :
    victims nowMs hours 0 (readLocal (pass deleteOrder nowMs hours s)) = [] := by
  have h : readLocal (pass deleteOrder nowMs hours s) = readLocal (passOld deleteOrder nowMs hours (withoutPq s)) := by
    rw [← withoutPq_pass]; rfl
  rw [h, victims_after_passOld]

/-! ### interrupt + repeat at full strength (empty-PQ meta files first: repair c14-6) -/

/-- a step that changes no store -/
def IsNoop (t : Step) : Prop := ∀ s, applyStep s t = s

theorem pq_nil_noop (k : Nat) : IsNoop (Step.pq k []) := by
  intro s
  cases s
  simp [applyStep]

/-- a run absorbs any of its own steps, and any no-ops, done beforehand -/
theorem absorb_before' (L P : List Step) (s : Store) (h : ∀ t ∈ P, t ∈ L ∨ IsNoop t) :
    L.foldl applyStep (P.foldl applyStep s) = L.foldl applyStep s := by
  induction P generalizing s with
  | nil => rfl
  | cons t P ih =>
    simp only [List.foldl_cons]
    rw [ih _ (fun x hx => h x (List.mem_cons_of_mem _ hx))]
    rcases h t List.mem_cons_self with hin | hno
    · rw [foldl_applyStep_comm, absorb_after L s t hin]
    · rw [hno s]

theorem foldl_foldl_comm (A B : List Step) (s : Store) :
    B.foldl applyStep (A.foldl applyStep s) = A.foldl applyStep (B.foldl applyStep s) := by
  induction A generalizing s with
  | nil => rfl
  | cons a A ih =>
    simp only [List.foldl_cons]
    rw [ih, foldl_applyStep_comm B s a]

/-- the steps commute and are idempotent: the result of a run depends only on the SET of its effective steps -/
theorem foldl_eq_of_same_steps (A B : List Step) (s : Store)
    (hAB : ∀ t ∈ A, t ∈ B ∨ IsNoop t) (hBA : ∀ t ∈ B, t ∈ A ∨ IsNoop t) :
    A.foldl applyStep s = B.foldl applyStep s :=
  calc A.foldl applyStep s
      = A.foldl applyStep (B.foldl applyStep s) := (absorb_before' A B s hBA).symm
    _ = B.foldl applyStep (A.foldl applyStep s) := (foldl_foldl_comm A B s).symm
    _ = B.foldl applyStep s := absorb_before' B A s hAB

theorem files_foldl (P : List Step) (s : Store) (k : Nat) :
    k ∈ (P.foldl applyStep s).files ↔ k ∈ s.files ∧ Step.files k ∉ P := by
  induction P generalizing s with
  | nil => simp
  | cons t P ih =>
    simp only [List.foldl_cons, ih, List.mem_cons, not_or]
    cases t <;> simp [applyStep, List.mem_filter, and_assoc]

theorem sfmPq_foldl (P : List Step) (s : Store) : (P.foldl applyStep s).sfmPq = s.sfmPq := by
  induction P generalizing s with
  | nil => rfl
  | cons t P ih =>
    simp only [List.foldl_cons, ih]
    cases t <;> rfl

/-- the function `withSfmPqids` maps over the victims -/
def fillPqids (s : Store) (v : Meta) : Meta :=
  if v.pqids.isEmpty then { v with pqids := sfmPqids s v.key } else v

theorem withSfmPqids_eq_map (s : Store) (vs : List Meta) : withSfmPqids s vs = vs.map (fillPqids s) := rfl

theorem fillPqids_key (s : Store) (v : Meta) : (fillPqids s v).key = v.key := by
  unfold fillPqids; split <;> rfl

/-- the pqids `DeleteSegmentData` works with in the repeated run: the same as in the first run, or none — and
then the victim's files were removed by the first run -/
theorem fillPqids_repeat (s s1 : Store) (v : Meta) (hq : s1.sfmPq = s.sfmPq)
    (hsub : v.key ∈ s1.files → v.key ∈ s.files) :
    (fillPqids s1 v).pqids = (fillPqids s v).pqids ∨
      ((fillPqids s1 v).pqids = [] ∧ v.key ∈ s.files ∧ v.key ∉ s1.files) := by
  unfold fillPqids
  by_cases he : v.pqids.isEmpty = true
  · simp only [if_pos he]
    unfold sfmPqids
    by_cases h1 : v.key ∈ s1.files
    · left; simp only [if_pos h1, if_pos (hsub h1), hq]
    · by_cases h0 : v.key ∈ s.files
      · right; exact ⟨if_neg h1, h0, h1⟩
      · left; simp only [if_neg h1, if_neg h0]
  · left; simp only [if_neg he]

theorem mem_steps_withSfm (s : Store) (vs : List Meta) (t : Step) :
    t ∈ stepsFor deleteOrder (withSfmPqids s vs) ↔
      (∃ v ∈ vs, t = Step.pq v.key (fillPqids s v).pqids) ∨ (∃ v ∈ vs, t = Step.blob v.key)
        ∨ (∃ v ∈ vs, t = Step.files v.key) ∨ (∃ v ∈ vs, t = Step.mem v.key) ∨ t = Step.segmeta (vs.map (·.key)) := by
  rw [stepsFor_deleteOrder, withSfmPqids_keys, withSfmPqids_eq_map]
  simp only [List.map_map, List.mem_append, List.mem_map, List.mem_singleton, Function.comp_def, fillPqids_key]
  constructor
  · rintro ((((⟨v, hv, rfl⟩ | ⟨v, hv, rfl⟩) | ⟨v, hv, rfl⟩) | ⟨v, hv, rfl⟩) | rfl)
    · exact Or.inl ⟨v, hv, rfl⟩
    · exact Or.inr (Or.inl ⟨v, hv, rfl⟩)
    · exact Or.inr (Or.inr (Or.inl ⟨v, hv, rfl⟩))
    · exact Or.inr (Or.inr (Or.inr (Or.inl ⟨v, hv, rfl⟩)))
    · exact Or.inr (Or.inr (Or.inr (Or.inr rfl)))
  · rintro (⟨v, hv, rfl⟩ | ⟨v, hv, rfl⟩ | ⟨v, hv, rfl⟩ | ⟨v, hv, rfl⟩ | rfl)
    · exact Or.inl (Or.inl (Or.inl (Or.inl ⟨v, hv, rfl⟩)))
    · exact Or.inl (Or.inl (Or.inl (Or.inr ⟨v, hv, rfl⟩)))
    · exact Or.inl (Or.inl (Or.inr ⟨v, hv, rfl⟩))
    · exact Or.inl (Or.inr ⟨v, hv, rfl⟩)
    · exact Or.inr rfl

theorem mem_take_front {α} (A R : List α) (n : Nat) (h : A.length ≤ n) (t : α) (ht : t ∈ A) : t ∈ (A ++ R).take n := by
  induction A generalizing n with
  | nil => cases ht
  | cons a A ih =>
    cases n with
    | zero => simp at h
    | succ n =>
      simp only [List.cons_append, List.take_succ_cons, List.mem_cons]
      rcases List.mem_cons.mp ht with rfl | ht'
      · exact Or.inl rfl
      · exact Or.inr (ih n (by simpa using h) ht')

/-- the empty-PQ phase comes before the files phase: once the first run has removed the local files of ANY
victim, it has done every empty-PQ step -/
theorem pq_steps_done_before_files (ws : List Meta) (cut k : Nat)
    (hf : Step.files k ∈ (stepsFor deleteOrder ws).take cut) (v : Meta) (hv : v ∈ ws) :
    Step.pq v.key v.pqids ∈ (stepsFor deleteOrder ws).take cut := by
  rw [stepsFor_deleteOrder] at hf ⊢
  have hassoc : (ws.map (fun v => Step.pq v.key v.pqids) ++ ws.map (fun v => Step.blob v.key) ++ ws.map (fun v => Step.files v.key)
        ++ ws.map (fun v => Step.mem v.key)) ++ [Step.segmeta (ws.map (·.key))]
      = (ws.map (fun v => Step.pq v.key v.pqids) ++ ws.map (fun v => Step.blob v.key)) ++ (ws.map (fun v => Step.files v.key)
        ++ ws.map (fun v => Step.mem v.key) ++ [Step.segmeta (ws.map (·.key))]) := by
    simp only [List.append_assoc]
  by_cases hc : cut ≤ (ws.map (fun v => Step.pq v.key v.pqids) ++ ws.map (fun v => Step.blob v.key)).length
  · exfalso
    rw [hassoc, List.take_append_of_le_length hc] at hf
    have := List.mem_of_mem_take hf
    simp only [List.mem_append, List.mem_map] at this
    rcases this with ⟨w, _, h⟩ | ⟨w, _, h⟩ <;> cases h
  · have hlen : (ws.map (fun v => Step.pq v.key v.pqids)).length ≤ cut := by
      simp only [List.length_append, List.length_map] at hc ⊢; omega
    simp only [List.append_assoc]
    exact mem_take_front _ _ cut hlen _ (List.mem_map.mpr ⟨v, hv, rfl⟩)

/-- KEY: a run of `DeleteSegmentData` cut after any number of micro-steps, followed by a complete run for the
same victims (which reads the pqids again, from the .sfm files that are still there), ends in the state of
one complete run — in every store -/
theorem repeat_same_result (vs : List Meta) (s : Store) (cut : Nat) :
    (stepsFor deleteOrder (withSfmPqids (((stepsFor deleteOrder (withSfmPqids s vs)).take cut).foldl applyStep s) vs)).foldl applyStep
        (((stepsFor deleteOrder (withSfmPqids s vs)).take cut).foldl applyStep s)
      = (stepsFor deleteOrder (withSfmPqids s vs)).foldl applyStep s := by
  generalize hP : (stepsFor deleteOrder (withSfmPqids s vs)).take cut = P
  generalize hs1 : P.foldl applyStep s = s1
  have hq : s1.sfmPq = s.sfmPq := by rw [← hs1]; exact sfmPq_foldl P s
  have hfiles : ∀ k, k ∈ s1.files ↔ k ∈ s.files ∧ Step.files k ∉ P := by
    intro k; rw [← hs1]; exact files_foldl P s k
  have hPL : ∀ t ∈ P, t ∈ stepsFor deleteOrder (withSfmPqids s vs) := by
    intro t ht; rw [← hP] at ht; exact List.mem_of_mem_take ht
  rw [← hs1, ← List.foldl_append]
  apply foldl_eq_of_same_steps
  · intro t ht
    rcases List.mem_append.mp ht with htP | htL
    · exact Or.inl (hPL t htP)
    · rw [hs1] at htL
      rcases (mem_steps_withSfm s1 vs t).mp htL with ⟨v, hv, rfl⟩ | h
      · rcases fillPqids_repeat s s1 v hq (fun h => ((hfiles v.key).mp h).1) with he | ⟨he, _, _⟩
        · rw [he]; exact Or.inl ((mem_steps_withSfm s vs _).mpr (Or.inl ⟨v, hv, rfl⟩))
        · rw [he]; exact Or.inr (pq_nil_noop v.key)
      · exact Or.inl ((mem_steps_withSfm s vs t).mpr (Or.inr h))
  · intro t ht
    rcases (mem_steps_withSfm s vs t).mp ht with ⟨v, hv, rfl⟩ | h
    · rcases fillPqids_repeat s s1 v hq (fun h => ((hfiles v.key).mp h).1) with he | ⟨_, h0, h1⟩
      · left
        apply List.mem_append.mpr; right
        rw [hs1, ← he]
        exact (mem_steps_withSfm s1 vs _).mpr (Or.inl ⟨v, hv, rfl⟩)
      · -- the victim's files went in the first run: so did its empty-PQ step
        left
        apply List.mem_append.mpr; left
        have hfk : Step.files v.key ∈ P := by
          by_cases hin : Step.files v.key ∈ P
          · exact hin
          · exact absurd ((hfiles v.key).mpr ⟨h0, hin⟩) h1
        rw [← hP] at hfk ⊢
        have := pq_steps_done_before_files (withSfmPqids s vs) cut v.key hfk (fillPqids s v)
          (by rw [withSfmPqids_eq_map]; exact List.mem_map.mpr ⟨v, hv, rfl⟩)
        rwa [fillPqids_key] at this
    · left
      apply List.mem_append.mpr; right
      rw [hs1]
      exact (mem_steps_withSfm s1 vs t).mpr (Or.inr h)

/-- interrupted + repeated = uninterrupted, in ALL five stores, for every store, clock, retention and cut point -/
theorem interrupt_repeat_full (nowMs : Nat) (hours : Int) (s : Store) (cut : Nat) :
    pass deleteOrder nowMs hours (passCut deleteOrder nowMs hours s cut) = pass deleteOrder nowMs hours s := by
  generalize hvs : victims nowMs hours 0 (readLocal s) = vs
  by_cases he : vs.isEmpty = true
  · unfold passCut deleteSegmentData; simp only [hvs, he, if_true]
  · have hne : (victims nowMs hours 0 (readLocal s)).isEmpty = false := by rw [hvs]; simpa using he
    have hs1 : passCut deleteOrder nowMs hours s cut = ((stepsFor deleteOrder (withSfmPqids s vs)).take cut).foldl applyStep s := by
      unfold passCut deleteSegmentData runSteps; simp only [hvs, he, if_false, Bool.false_eq_true]
    have hfront := front_not_isSegmeta (withSfmPqids s vs)
    have hL := stepsFor_deleteOrder (withSfmPqids s vs)
    generalize hF : ((withSfmPqids s vs).map (fun v => Step.pq v.key v.pqids) ++ (withSfmPqids s vs).map (fun v => Step.blob v.key)
        ++ (withSfmPqids s vs).map (fun v => Step.files v.key) ++ (withSfmPqids s vs).map (fun v => Step.mem v.key)) = F at hfront hL
    by_cases hc : cut ≤ F.length
    · -- segmeta.json has not been rewritten: the repeated pass selects the same victims
      have htake : (stepsFor deleteOrder (withSfmPqids s vs)).take cut = F.take cut := by
        rw [hL]; exact List.take_append_of_le_length hc
      have hsm : (passCut deleteOrder nowMs hours s cut).segmetaJson = s.segmetaJson := by
        rw [hs1, htake]
        exact segmeta_foldl_of_not_isSegmeta _ s (fun t ht => hfront t (List.mem_of_mem_take ht))
      have hrl : readLocal (passCut deleteOrder nowMs hours s cut) = readLocal s := by
        unfold readLocal; rw [hsm]
      have hne1 : (victims nowMs hours 0 (readLocal (passCut deleteOrder nowMs hours s cut))).isEmpty = false := by
        rw [hrl]; exact hne
      rw [pass_eq_foldl nowMs hours _ hne1, pass_eq_foldl nowMs hours s hne, hrl, hvs, hs1]
      exact repeat_same_result vs s cut
    · -- the whole step list ran: the repeated pass finds nothing to do
      have hlen : (stepsFor deleteOrder (withSfmPqids s vs)).length ≤ cut := by
        rw [hL]; simp; omega
      have hfull : passCut deleteOrder nowMs hours s cut = pass deleteOrder nowMs hours s := by
        rw [hs1, List.take_of_length_le hlen, pass_eq_foldl nowMs hours s hne, hvs]
      rw [hfull]
      have hnil := victims_after_pass nowMs hours s
      generalize pass deleteOrder nowMs hours s = s2 at hnil
      unfold pass deleteSegmentData
      simp only [hnil, List.isEmpty_nil, if_true]

/-! ### records after a pass -/

theorem mem_recordEmpty (s : Store) (e x : Nat × Nat) : x ∈ (recordEmpty s e).pqMeta ↔ x ∈ s.pqMeta ∨ x = e := by
  unfold recordEmpty
  split
  · rename_i h
    constructor
    · exact Or.inl
    · rintro (h' | rfl)
      · exact h'
      · exact h
  · simp

theorem mem_recordAll (s : Store) (es : List (Nat × Nat)) (x : Nat × Nat) :
    x ∈ (recordAll s es).pqMeta ↔ x ∈ s.pqMeta ∨ x ∈ es := by
  unfold recordAll
  induction es generalizing s with
  | nil => simp
  | cons e es ih =>
    simp only [List.foldl_cons, ih, mem_recordEmpty, List.mem_cons, or_assoc]

theorem withoutPq_recordAll (s : Store) (es : List (Nat × Nat)) : withoutPq (recordAll s es) = withoutPq s := by
  unfold recordAll
  induction es generalizing s with
  | nil => rfl
  | cons e es ih =>
    simp only [List.foldl_cons, ih]
    unfold recordEmpty
    split <;> rfl

theorem pqMeta_subset_foldl (L : List Step) (s : Store) (e : Nat × Nat) (h : e ∈ (L.foldl applyStep s).pqMeta) :
    e ∈ s.pqMeta := by
  induction L generalizing s with
  | nil => exact h
  | cons t L ih =>
    have := ih _ h
    cases t <;> first | exact this | exact (List.mem_filter.mp this).1

/-! ### the volume pass -/

theorem mem_insertBy (key : Meta → Nat) (x a : Meta) (l : List Meta) : a ∈ insertBy key x l ↔ a = x ∨ a ∈ l := by
  induction l with
  | nil => simp [insertBy]
  | cons y r ih =>
    unfold insertBy
    split
    · simp
    · simp only [List.mem_cons, ih]
      constructor
      · rintro (h | h | h) <;> simp [h]
      · rintro (h | h | h) <;> simp [h]

theorem mem_sortBy (key : Meta → Nat) (a : Meta) (l : List Meta) : a ∈ sortBy key l ↔ a ∈ l := by
  induction l with
  | nil => simp [sortBy]
  | cons x r ih => simp [sortBy, mem_insertBy, ih]

theorem pairwise_insertBy (key : Meta → Nat) (x : Meta) (l : List Meta) (h : l.Pairwise (fun a b => key a ≤ key b)) :
    (insertBy key x l).Pairwise (fun a b => key a ≤ key b) := by
  induction l with
  | nil => simp [insertBy]
  | cons y r ih =>
    unfold insertBy
    have hy := List.pairwise_cons.mp h
    split
    · rename_i hle
      apply List.pairwise_cons.mpr
      refine ⟨?_, h⟩
      intro a ha
      rcases List.mem_cons.mp ha with rfl | ha
      · exact hle
      · exact Nat.le_trans hle (hy.1 a ha)
    · rename_i hnle
      apply List.pairwise_cons.mpr
      refine ⟨?_, ih hy.2⟩
      intro a ha
      rcases (mem_insertBy key x a r).mp ha with rfl | ha
      · omega
      · exact hy.1 a ha

theorem pairwise_sortBy (key : Meta → Nat) (l : List Meta) : (sortBy key l).Pairwise (fun a b => key a ≤ key b) := by
  induction l with
  | nil => simp [sortBy]
  | cons x r ih => exact pairwise_insertBy key x _ ih

theorem mem_volSort (a : Meta) (l : List Meta) : a ∈ volSort l ↔ a ∈ l := mem_sortBy volKey a l

theorem pairwise_volSort (l : List Meta) : (volSort l).Pairwise (fun a b => volKey a ≤ volKey b) :=
  pairwise_sortBy volKey l

theorem volLoop_sublist (rem : Nat) (l : List Meta) : (volLoop rem l).Sublist l := by
  induction l generalizing rem with
  | nil => exact List.Sublist.slnil
  | cons m r ih =>
    unfold volLoop
    split
    · exact (ih _).cons_cons m
    · exact List.nil_sublist _

/-- stopping at the first misfit deletes a prefix: nothing strictly older than a deleted segment stays -/
theorem volLoop_closed (f : Meta → Nat) (rem : Nat) (l : List Meta)
    (hs : l.Pairwise (fun a b => f a ≤ f b)) :
    ∀ a ∈ volLoop rem l, ∀ b ∈ l, f b < f a → b ∈ volLoop rem l := by
  induction l generalizing rem with
  | nil => intro a ha; cases ha
  | cons m r ih =>
    have hc := List.pairwise_cons.mp hs
    intro a ha b hb hlt
    unfold volLoop at ha ⊢
    by_cases hf : m.size < rem
    · simp only [hf, if_true] at ha ⊢
      rcases List.mem_cons.mp hb with hbm | hbr
      · rw [hbm]; exact List.mem_cons_self
      · rcases List.mem_cons.mp ha with ham | har
        · have := hc.1 b hbr; rw [ham] at hlt; omega
        · exact List.mem_cons_of_mem _ (ih _ hc.2 a har b hbr hlt)
    · simp only [hf, if_false] at ha
      cases ha

/-- the marking loop marks a prefix of its input … -/
theorem volLoop_prefix (rem : Nat) (l : List Meta) : ∃ n, volLoop rem l = l.take n := by
  induction l generalizing rem with
  | nil => exact ⟨0, rfl⟩
  | cons m r ih =>
    unfold volLoop
    split
    · obtain ⟨n, hn⟩ := ih (rem - m.size)
      exact ⟨n + 1, by rw [hn]; rfl⟩
    · exact ⟨0, rfl⟩

/-- … and never marks as much as the excess -/
theorem volLoop_total_lt (rem : Nat) (l : List Meta) (h : 0 < rem) : totalSize (volLoop rem l) < rem := by
  induction l generalizing rem with
  | nil => simpa [volLoop, totalSize] using h
  | cons m r ih =>
    unfold volLoop
    split
    · rename_i hf
      have := ih (rem - m.size) (by omega)
      simp only [totalSize, List.map_cons, List.sum_cons] at this ⊢
      omega
    · simpa [totalSize] using h

end SigModel.Lemmas.C14
