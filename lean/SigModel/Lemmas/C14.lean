import SigModel.Model.Retention
/-! Helper lemmas for C14 (retention).  Core Lean only. -/
namespace SigModel.Lemmas.C14
open SigModel.Retention

/-! ### horizon arithmetic -/

theorem wrapS64_id (x : Int) (h1 : -(two63 : Int) ≤ x) (h2 : x < (two63 : Int)) : wrapS64 x = x := by
  unfold wrapS64
  have : (x + (two63 : Int)) % (two64 : Int) = x + (two63 : Int) := by
    apply Int.emod_eq_of_lt
    · omega
    · simp only [two63, two64] at *; omega
  omega

theorem toU64_id (x : Int) (h1 : 0 ≤ x) (h2 : x < (two64 : Int)) : (toU64 x : Int) = x := by
  unfold toU64
  rw [Int.emod_eq_of_lt h1 h2]
  omega

/-- `uint64` of a negative int64 is at least 2^63 -/
theorem toU64_neg (x : Int) (h1 : x < 0) (h2 : -(two63 : Int) ≤ x) : two63 ≤ toU64 x := by
  unfold toU64
  have : x % (two64 : Int) = x + (two64 : Int) := by
    rw [← Int.add_emod_right]
    apply Int.emod_eq_of_lt
    · simp only [two63, two64] at *; omega
    · simp only [two63, two64] at *; omega
  rw [this]
  simp only [two63, two64] at *
  omega

theorem negRetDur (hours : Int) (h0 : 0 ≤ hours) (h1 : hours < 2562047) :
    wrapS64 (- retDurNs hours) = - (hours * 3600000000000) := by
  unfold retDurNs nsPerHour
  rw [wrapS64_id (hours * 3600000000000) (by simp only [two63]; omega) (by simp only [two63]; omega)]
  exact wrapS64_id _ (by simp only [two63]; omega) (by simp only [two63]; omega)

theorem horizonNs_eq (nowNs : Nat) (hours : Int)
    (h0 : 0 ≤ hours) (h1 : hours < 2562047) (h2 : hours * 3600000 ≤ ((nowNs / 1000000 : Nat) : Int)) (h3 : nowNs < two63) :
    (horizonNs nowNs hours : Int) = ((nowNs / 1000000 : Nat) : Int) - hours * 3600000 := by
  unfold horizonNs nsPerMs
  rw [negRetDur hours h0 h1]
  have e : ((nowNs : Int) + -(hours * 3600000000000)) / 1000000 = ((nowNs / 1000000 : Nat) : Int) - hours * 3600000 := by
    have : (nowNs : Int) + -(hours * 3600000000000) = (nowNs : Int) + (-(hours * 3600000)) * 1000000 := by omega
    rw [this, Int.add_mul_ediv_right _ _ (by decide)]
    omega
  rw [e]
  apply toU64_id
  · omega
  · simp only [two63, two64] at *; omega

theorem horizon_eq (nowMs : Nat) (hours : Int)
    (h0 : 0 ≤ hours) (h1 : hours < 2562047) (h2 : hours * 3600000 ≤ nowMs) (h3 : nowMs < 9000000000000) :
    (horizon nowMs hours : Int) = (nowMs : Int) - hours * 3600000 := by
  unfold horizon
  have hd : nowMs * 1000000 / 1000000 = nowMs := by omega
  have := horizonNs_eq (nowMs * 1000000) hours h0 h1 (by rw [hd]; exact h2) (by simp only [two63]; omega)
  rw [hd] at this
  exact this

/-- horizon before the epoch: the `uint64` conversion wraps -/
theorem horizon_wrapped (nowMs : Nat) (hours : Int)
    (h0 : 0 ≤ hours) (h1 : hours < 2562047) (h2 : (nowMs : Int) < hours * 3600000) (h3 : nowMs < 9000000000000) :
    two63 ≤ horizon nowMs hours := by
  unfold horizon horizonNs nsPerMs
  rw [negRetDur hours h0 h1]
  have e : (((nowMs * 1000000 : Nat) : Int) + -(hours * 3600000000000)) / 1000000 = (nowMs : Int) - hours * 3600000 := by
    have : ((nowMs * 1000000 : Nat) : Int) + -(hours * 3600000000000) = ((nowMs : Int) - hours * 3600000) * 1000000 := by omega
    rw [this, Int.mul_ediv_cancel _ (by decide)]
  rw [e]
  apply toU64_neg
  · omega
  · simp only [two63]; omega

theorem timeMs_eq_trueTime (m : Meta) (h : m.kind = .metrics → m.latest < two32) : timeMs m = trueTimeMs m := by
  unfold timeMs trueTimeMs
  cases hk : m.kind with
  | log => rfl
  | metrics =>
    have := h hk
    simp only [wrap64, two64, two32] at *
    omega

/-! ### micro-steps: commutation, idempotence, absorption -/

theorem filter_comm' {α} (p q : α → Bool) (l : List α) : (l.filter p).filter q = (l.filter q).filter p := by
  rw [List.filter_filter, List.filter_filter]
  apply List.filter_congr
  intro x _
  exact Bool.and_comm _ _

theorem filter_idem {α} (p : α → Bool) (l : List α) : (l.filter p).filter p = l.filter p := by
  rw [List.filter_filter]
  apply List.filter_congr
  intro x _
  exact Bool.and_self _

theorem applyStep_comm (s : Store) (a b : Step) :
    applyStep (applyStep s a) b = applyStep (applyStep s b) a := by
  cases a <;> cases b <;> simp only [applyStep] <;> first | rfl | (congr 1; exact filter_comm' _ _ _)

theorem applyStep_idem (s : Store) (a : Step) : applyStep (applyStep s a) a = applyStep s a := by
  cases a <;> simp only [applyStep] <;> (congr 1; exact filter_idem _ _)

theorem foldl_applyStep_comm (L : List Step) (s : Store) (t : Step) :
    L.foldl applyStep (applyStep s t) = applyStep (L.foldl applyStep s) t := by
  induction L generalizing s with
  | nil => rfl
  | cons a L ih => simp only [List.foldl_cons]; rw [applyStep_comm s t a, ih]

/-- a run absorbs a repetition of any of its own steps -/
theorem absorb_after (L : List Step) (s : Store) (t : Step) (h : t ∈ L) :
    applyStep (L.foldl applyStep s) t = L.foldl applyStep s := by
  induction L generalizing s with
  | nil => cases h
  | cons a L ih =>
    simp only [List.foldl_cons]
    rcases List.mem_cons.mp h with rfl | h'
    · rw [← foldl_applyStep_comm, applyStep_idem]
    · exact ih _ h'

/-- a run absorbs any of its own steps done beforehand -/
theorem absorb_before (L P : List Step) (s : Store) (h : ∀ t ∈ P, t ∈ L) :
    L.foldl applyStep (P.foldl applyStep s) = L.foldl applyStep s := by
  induction P generalizing s with
  | nil => rfl
  | cons t P ih =>
    simp only [List.foldl_cons]
    rw [ih _ (fun x hx => h x (List.mem_cons_of_mem _ hx)), foldl_applyStep_comm,
      absorb_after L s t (h t List.mem_cons_self)]

/-! ### what a step can touch -/

def targets : Step → List Nat
  | .blob k => [k] | .files k => [k] | .mem k => [k] | .pq k _ => [k] | .segmeta ks => ks

def isSegmeta : Step → Bool
  | .segmeta _ => true
  | _ => false

/-- the two stores agree on everything that does not belong to a key in `K` -/
structure SameOutside (K : List Nat) (s s' : Store) : Prop where
  blob : ∀ k, k ∉ K → (k ∈ s'.blob ↔ k ∈ s.blob)
  files : ∀ k, k ∉ K → (k ∈ s'.files ↔ k ∈ s.files)
  mem : ∀ k, k ∉ K → (k ∈ s'.memMeta ↔ k ∈ s.memMeta)
  pq : ∀ p k, k ∉ K → ((p, k) ∈ s'.pqMeta ↔ (p, k) ∈ s.pqMeta)
  segmeta : ∀ m : Meta, m.key ∉ K → (m ∈ s'.segmetaJson ↔ m ∈ s.segmetaJson)

theorem SameOutside.refl (K : List Nat) (s : Store) : SameOutside K s s :=
  ⟨fun _ _ => Iff.rfl, fun _ _ => Iff.rfl, fun _ _ => Iff.rfl, fun _ _ _ => Iff.rfl, fun _ _ => Iff.rfl⟩

theorem SameOutside.trans {K : List Nat} {a b c : Store} (h1 : SameOutside K a b) (h2 : SameOutside K b c) :
    SameOutside K a c :=
  ⟨fun k hk => (h2.blob k hk).trans (h1.blob k hk), fun k hk => (h2.files k hk).trans (h1.files k hk),
   fun k hk => (h2.mem k hk).trans (h1.mem k hk), fun p k hk => (h2.pq p k hk).trans (h1.pq p k hk),
   fun m hk => (h2.segmeta m hk).trans (h1.segmeta m hk)⟩

theorem sameOutside_step (K : List Nat) (s : Store) (t : Step) (h : ∀ k ∈ targets t, k ∈ K) :
    SameOutside K s (applyStep s t) := by
  cases t with
  | blob k0 =>
    have hk : k0 ∈ K := h k0 (by simp [targets])
    refine ⟨?_, fun _ _ => Iff.rfl, fun _ _ => Iff.rfl, fun _ _ _ => Iff.rfl, fun _ _ => Iff.rfl⟩
    intro k hkK
    simp only [applyStep, List.mem_filter, decide_eq_true_eq]
    exact ⟨fun h => h.1, fun h => ⟨h, fun e => hkK (e ▸ hk)⟩⟩
  | files k0 =>
    have hk : k0 ∈ K := h k0 (by simp [targets])
    refine ⟨fun _ _ => Iff.rfl, ?_, fun _ _ => Iff.rfl, fun _ _ _ => Iff.rfl, fun _ _ => Iff.rfl⟩
    intro k hkK
    simp only [applyStep, List.mem_filter, decide_eq_true_eq]
    exact ⟨fun h => h.1, fun h => ⟨h, fun e => hkK (e ▸ hk)⟩⟩
  | mem k0 =>
    have hk : k0 ∈ K := h k0 (by simp [targets])
    refine ⟨fun _ _ => Iff.rfl, fun _ _ => Iff.rfl, ?_, fun _ _ _ => Iff.rfl, fun _ _ => Iff.rfl⟩
    intro k hkK
    simp only [applyStep, List.mem_filter, decide_eq_true_eq]
    exact ⟨fun h => h.1, fun h => ⟨h, fun e => hkK (e ▸ hk)⟩⟩
  | pq k0 ps =>
    have hk : k0 ∈ K := h k0 (by simp [targets])
    refine ⟨fun _ _ => Iff.rfl, fun _ _ => Iff.rfl, fun _ _ => Iff.rfl, ?_, fun _ _ => Iff.rfl⟩
    intro p k hkK
    simp only [applyStep, List.mem_filter]
    refine ⟨fun h => h.1, fun h => ⟨h, ?_⟩⟩
    have : k ≠ k0 := fun e => hkK (e ▸ hk)
    simp [this]
  | segmeta ks =>
    refine ⟨fun _ _ => Iff.rfl, fun _ _ => Iff.rfl, fun _ _ => Iff.rfl, fun _ _ _ => Iff.rfl, ?_⟩
    intro m hmK
    simp only [applyStep, List.mem_filter, decide_eq_true_eq]
    exact ⟨fun h => h.1, fun hm => ⟨hm, fun e => hmK (h _ (by simpa [targets] using e))⟩⟩

theorem sameOutside_foldl (K : List Nat) (L : List Step) (s : Store) (h : ∀ t ∈ L, ∀ k ∈ targets t, k ∈ K) :
    SameOutside K s (L.foldl applyStep s) := by
  induction L generalizing s with
  | nil => exact SameOutside.refl K s
  | cons t L ih =>
    simp only [List.foldl_cons]
    exact (sameOutside_step K s t (h t List.mem_cons_self)).trans
      (ih _ (fun x hx => h x (List.mem_cons_of_mem _ hx)))

theorem targets_stepsFor (order : List Phase) (vs : List Meta) (t : Step) (h : t ∈ stepsFor order vs) :
    ∀ k ∈ targets t, k ∈ vs.map (·.key) := by
  unfold stepsFor at h
  obtain ⟨ph, _, ht⟩ := List.mem_flatMap.mp h
  cases ph <;> simp only [phaseSteps, List.mem_map, List.mem_singleton] at ht
  all_goals first
    | (obtain ⟨v, hv, rfl⟩ := ht
       intro k hk
       simp only [targets, List.mem_singleton] at hk
       exact List.mem_map.mpr ⟨v, hv, hk.symm⟩)
    | (subst ht; intro k hk; exact hk)

/-! ### segmeta.json under the steps -/

theorem segmeta_of_not_isSegmeta (s : Store) (t : Step) (h : isSegmeta t = false) :
    (applyStep s t).segmetaJson = s.segmetaJson := by
  cases t <;> first | rfl | (simp [isSegmeta] at h)

theorem segmeta_foldl_of_not_isSegmeta (L : List Step) (s : Store) (h : ∀ t ∈ L, isSegmeta t = false) :
    (L.foldl applyStep s).segmetaJson = s.segmetaJson := by
  induction L generalizing s with
  | nil => rfl
  | cons t L ih =>
    simp only [List.foldl_cons]
    rw [ih _ (fun x hx => h x (List.mem_cons_of_mem _ hx)), segmeta_of_not_isSegmeta s t (h t List.mem_cons_self)]

theorem segmeta_subset_step (s : Store) (t : Step) (m : Meta) (h : m ∈ (applyStep s t).segmetaJson) :
    m ∈ s.segmetaJson := by
  cases t <;> first | exact h | exact (List.mem_filter.mp h).1

theorem segmeta_subset_foldl (L : List Step) (s : Store) (m : Meta) (h : m ∈ (L.foldl applyStep s).segmetaJson) :
    m ∈ s.segmetaJson := by
  induction L generalizing s with
  | nil => exact h
  | cons t L ih => exact segmeta_subset_step s t m (ih _ h)

/-- the step list of `DeleteSegmentData` in the order of the source: everything else, then segmeta.json -/
theorem stepsFor_deleteOrder (vs : List Meta) :
    stepsFor deleteOrder vs =
      (vs.map (fun v => Step.blob v.key) ++ vs.map (fun v => Step.files v.key) ++ vs.map (fun v => Step.mem v.key)
        ++ vs.map (fun v => Step.pq v.key v.pqids)) ++ [Step.segmeta (vs.map (·.key))] := by
  simp [stepsFor, deleteOrder, phaseSteps]

theorem front_not_isSegmeta (vs : List Meta) (t : Step)
    (h : t ∈ vs.map (fun v => Step.blob v.key) ++ vs.map (fun v => Step.files v.key) ++ vs.map (fun v => Step.mem v.key)
        ++ vs.map (fun v => Step.pq v.key v.pqids)) : isSegmeta t = false := by
  simp only [List.mem_append, List.mem_map] at h
  rcases h with ((⟨v, _, rfl⟩ | ⟨v, _, rfl⟩) | ⟨v, _, rfl⟩) | ⟨v, _, rfl⟩ <;> rfl

/-! ### interrupt + repeat -/

theorem stepsFor_length_deleteOrder (vs : List Meta) :
    (stepsFor deleteOrder vs).length = 4 * vs.length + 1 := by
  rw [stepsFor_deleteOrder]; simp; omega

/-- after a complete run, a second selection over the rewritten segmeta.json finds no victim -/
theorem victims_after_full (nowMs : Nat) (hours : Int) (s : Store) :
    let vs := victims nowMs hours 0 (readLocal s)
    victims nowMs hours 0 (readLocal (runSteps s (stepsFor deleteOrder vs))) = [] := by
  intro vs
  apply List.filter_eq_nil_iff.mpr
  intro x hx
  unfold readLocal at hx
  obtain ⟨m, hm, rfl⟩ := List.mem_map.mp hx
  -- m survived the segmeta step, so its key is not a victim key
  have hσ : Step.segmeta (vs.map (·.key)) ∈ stepsFor deleteOrder vs := by
    rw [stepsFor_deleteOrder]; simp
  have habs := absorb_after (stepsFor deleteOrder vs) s _ hσ
  have hm' : m ∈ (applyStep (runSteps s (stepsFor deleteOrder vs)) (Step.segmeta (vs.map (·.key)))).segmetaJson := by
    unfold runSteps; rw [habs]; exact hm
  simp only [applyStep, List.mem_filter, decide_eq_true_eq] at hm'
  have hms : m ∈ s.segmetaJson := segmeta_subset_foldl _ s m hm
  intro hP
  apply hm'.2
  have : ({ m with pqids := [] } : Meta) ∈ vs := by
    apply List.mem_filter.mpr
    exact ⟨List.mem_map.mpr ⟨m, hms, rfl⟩, hP⟩
  exact List.mem_map.mpr ⟨_, this, rfl⟩

/-- the protocol WITHOUT the .sfm reading (`passOld`: every pq step is a no-op): interrupted + repeated =
uninterrupted, in all five stores -/
theorem interrupt_repeat_old (nowMs : Nat) (hours : Int) (s : Store) (cut : Nat) :
    passOld deleteOrder nowMs hours (passCutOld deleteOrder nowMs hours s cut) = passOld deleteOrder nowMs hours s := by
  unfold passCutOld
  generalize hvs : victims nowMs hours 0 (readLocal s) = vs
  unfold deleteSegmentDataOld
  by_cases he : vs.isEmpty = true
  · simp only [he, if_true]
  · simp only [he, if_false, Bool.false_eq_true]
    have hfront := front_not_isSegmeta vs
    have hL := stepsFor_deleteOrder vs
    generalize hF : (vs.map (fun v => Step.blob v.key) ++ vs.map (fun v => Step.files v.key) ++ vs.map (fun v => Step.mem v.key)
        ++ vs.map (fun v => Step.pq v.key v.pqids)) = F at hfront hL
    by_cases hc : cut ≤ F.length
    · -- the segmeta.json rewrite has not happened: the repeated pass selects the same victims
      have htake : (stepsFor deleteOrder vs).take cut = F.take cut := by
        rw [hL]; exact List.take_append_of_le_length hc
      have hsm : (runSteps s ((stepsFor deleteOrder vs).take cut)).segmetaJson = s.segmetaJson := by
        unfold runSteps; rw [htake]
        exact segmeta_foldl_of_not_isSegmeta _ s (fun t ht => hfront t (List.mem_of_mem_take ht))
      have hrl : readLocal (runSteps s ((stepsFor deleteOrder vs).take cut)) = readLocal s := by
        unfold readLocal; rw [hsm]
      unfold passOld
      simp only [hrl, hvs]
      unfold deleteSegmentDataOld
      simp only [he, if_false, Bool.false_eq_true, List.take_length]
      unfold runSteps
      exact absorb_before _ _ s (fun t ht => List.mem_of_mem_take ht)
    · -- the whole step list ran: the repeated pass finds nothing to do
      have hlen : (stepsFor deleteOrder vs).length ≤ cut := by
        rw [hL]; simp; omega
      rw [List.take_of_length_le hlen]
      have hnil := victims_after_full nowMs hours s
      simp only [hvs] at hnil
      have hpass_s : passOld deleteOrder nowMs hours s = runSteps s (stepsFor deleteOrder vs) := by
        unfold passOld
        simp only [hvs]
        unfold deleteSegmentDataOld
        simp only [he, if_false, Bool.false_eq_true, List.take_length]
      rw [hpass_s]
      unfold passOld
      simp only [hnil]
      unfold deleteSegmentDataOld
      simp


/-! ### the repaired protocol (pqids read from the .sfm files) against the old one -/

/-- forget the pqids of a pq step -/
def erasePq : Step → Step
  | .pq k _ => .pq k []
  | t => t

def clearPqids (v : Meta) : Meta := { v with pqids := [] }

theorem withoutPq_applyStep (s : Store) (t : Step) :
    withoutPq (applyStep s t) = applyStep (withoutPq s) (erasePq t) := by
  cases t <;> simp [withoutPq, applyStep, erasePq]

theorem withoutPq_foldl (L : List Step) (s : Store) :
    withoutPq (L.foldl applyStep s) = (L.map erasePq).foldl applyStep (withoutPq s) := by
  induction L generalizing s with
  | nil => rfl
  | cons t L ih => simp only [List.foldl_cons, List.map_cons]; rw [ih, withoutPq_applyStep]

theorem phaseSteps_erase (vs : List Meta) (ph : Phase) :
    (phaseSteps vs ph).map erasePq = (phaseSteps (vs.map clearPqids) ph).map erasePq := by
  cases ph <;> simp [phaseSteps, erasePq, clearPqids, List.map_map, Function.comp_def]

theorem stepsFor_erase (order : List Phase) (vs : List Meta) :
    (stepsFor order vs).map erasePq = (stepsFor order (vs.map clearPqids)).map erasePq := by
  unfold stepsFor
  induction order with
  | nil => rfl
  | cons ph r ih => simp only [List.flatMap_cons, List.map_append, ih, phaseSteps_erase vs ph]

theorem withSfmPqids_clear (s : Store) (vs : List Meta) :
    (withSfmPqids s vs).map clearPqids = vs.map clearPqids := by
  unfold withSfmPqids
  rw [List.map_map]
  apply List.map_congr_left
  intro v _
  simp only [Function.comp_def, clearPqids]
  split <;> rfl

theorem withSfmPqids_keys (s : Store) (vs : List Meta) :
    (withSfmPqids s vs).map (·.key) = vs.map (·.key) := by
  unfold withSfmPqids
  rw [List.map_map]
  apply List.map_congr_left
  intro v _
  simp only [Function.comp_def]
  split <;> rfl

theorem withSfmPqids_congr (s s1 : Store) (hf : s1.files = s.files) (hq : s1.sfmPq = s.sfmPq) (vs : List Meta) :
    withSfmPqids s1 vs = withSfmPqids s vs := by
  unfold withSfmPqids sfmPqids; rw [hf, hq]

theorem withSfmPqids_isEmpty (s : Store) (vs : List Meta) : (withSfmPqids s vs).isEmpty = vs.isEmpty := by
  unfold withSfmPqids; cases vs <;> rfl

/-- the step lists of the repaired and the old protocol differ only in the pqids of the pq steps -/
theorem stepsFor_withSfm_erase (order : List Phase) (s : Store) (vs : List Meta) :
    (stepsFor order (withSfmPqids s vs)).map erasePq = (stepsFor order vs).map erasePq := by
  rw [stepsFor_erase order (withSfmPqids s vs), withSfmPqids_clear, ← stepsFor_erase]

theorem stepsFor_withSfm_length (order : List Phase) (s : Store) (vs : List Meta) :
    (stepsFor order (withSfmPqids s vs)).length = (stepsFor order vs).length := by
  have := congrArg List.length (stepsFor_withSfm_erase order s vs)
  simpa using this

/-- on a store without empty-PQ entries the pqids of the pq steps do not matter -/
theorem foldl_erase_of_noPq (L : List Step) (s : Store) (h : s.pqMeta = []) :
    (L.map erasePq).foldl applyStep s = L.foldl applyStep s := by
  induction L generalizing s with
  | nil => rfl
  | cons t L ih =>
    simp only [List.foldl_cons, List.map_cons]
    have e : applyStep s (erasePq t) = applyStep s t := by
      cases t <;> simp [applyStep, erasePq, h]
    rw [e]
    apply ih
    cases t <;> simp [applyStep, h]

/-- KEY: outside the empty-PQ meta files the repaired `DeleteSegmentData` does exactly what the old one did -/
theorem withoutPq_deleteSegmentData (order : List Phase) (vs : List Meta) (s : Store) (cut : Nat) :
    withoutPq (deleteSegmentData order vs s cut) = deleteSegmentDataOld order vs (withoutPq s) cut := by
  unfold deleteSegmentData deleteSegmentDataOld
  split
  · rfl
  · unfold runSteps
    rw [withoutPq_foldl, List.map_take, stepsFor_withSfm_erase, ← List.map_take,
      foldl_erase_of_noPq _ _ rfl]

theorem readLocal_withoutPq (s : Store) : readLocal (withoutPq s) = readLocal s := rfl

theorem withoutPq_passCut (nowMs : Nat) (hours : Int) (s : Store) (cut : Nat) :
    withoutPq (passCut deleteOrder nowMs hours s cut) = passCutOld deleteOrder nowMs hours (withoutPq s) cut := by
  unfold passCut passCutOld
  rw [withoutPq_deleteSegmentData, readLocal_withoutPq]

theorem withoutPq_pass (nowMs : Nat) (hours : Int) (s : Store) :
    withoutPq (pass deleteOrder nowMs hours s) = passOld deleteOrder nowMs hours (withoutPq s) := by
  unfold pass passOld
  simp only [withoutPq_deleteSegmentData, readLocal_withoutPq]

/-- interrupted + repeated = uninterrupted in blob store, local files, in-memory metadata and segmeta.json,
for every cut point (the empty-PQ meta files are the subject of Props.C14 §3/§4) -/
theorem interrupt_repeat (nowMs : Nat) (hours : Int) (s : Store) (cut : Nat) :
    withoutPq (pass deleteOrder nowMs hours (passCut deleteOrder nowMs hours s cut))
      = withoutPq (pass deleteOrder nowMs hours s) := by
  rw [withoutPq_pass, withoutPq_passCut, interrupt_repeat_old, ← withoutPq_pass]

/-- an uninterrupted pass with at least one victim runs the whole step list of the victims (with the
pqids of their .sfm files) -/
theorem pass_eq_foldl (nowMs : Nat) (hours : Int) (s : Store)
    (hne : (victims nowMs hours 0 (readLocal s)).isEmpty = false) :
    pass deleteOrder nowMs hours s
      = (stepsFor deleteOrder (withSfmPqids s (victims nowMs hours 0 (readLocal s)))).foldl applyStep s := by
  unfold pass deleteSegmentData runSteps
  simp only [hne, Bool.false_eq_true, if_false]
  rw [← stepsFor_withSfm_length deleteOrder s, List.take_length]

/-- after a complete pass a second selection finds no victim (old and repaired protocol) -/
theorem victims_after_passOld (nowMs : Nat) (hours : Int) (s : Store) :
    victims nowMs hours 0 (readLocal (passOld deleteOrder nowMs hours s)) = [] := by
  unfold passOld deleteSegmentDataOld
  simp only [List.take_length]
  split
  · rename_i he
    exact List.isEmpty_iff.mp he
  · exact victims_after_full nowMs hours s

theorem victims_after_pass (nowMs : Nat) (hours : Int) (s : Store) :
    victims nowMs hours 0 (readLocal (pass deleteOrder nowMs hours s)) = [] := by
  have h : readLocal (pass deleteOrder nowMs hours s) = readLocal (passOld deleteOrder nowMs hours (withoutPq s)) := by
    rw [← withoutPq_pass]; rfl
  rw [h, victims_after_passOld]

/-! ### the volume pass -/

theorem mem_insertBy (key : Meta → Nat) (x a : Meta) (l : List Meta) : a ∈ insertBy key x l ↔ a = x ∨ a ∈ l := by
  induction l with
  | nil => simp [insertBy]
  | cons y r ih =>
    unfold insertBy
    split
    · simp
    · simp only [List.mem_cons, ih]
      constructor
      · rintro (h | h | h) <;> simp [h]
      · rintro (h | h | h) <;> simp [h]

theorem mem_sortBy (key : Meta → Nat) (a : Meta) (l : List Meta) : a ∈ sortBy key l ↔ a ∈ l := by
  induction l with
  | nil => simp [sortBy]
  | cons x r ih => simp [sortBy, mem_insertBy, ih]

theorem pairwise_insertBy (key : Meta → Nat) (x : Meta) (l : List Meta) (h : l.Pairwise (fun a b => key a ≤ key b)) :
    (insertBy key x l).Pairwise (fun a b => key a ≤ key b) := by
  induction l with
  | nil => simp [insertBy]
  | cons y r ih =>
    unfold insertBy
    have hy := List.pairwise_cons.mp h
    split
    · rename_i hle
      apply List.pairwise_cons.mpr
      refine ⟨?_, h⟩
      intro a ha
      rcases List.mem_cons.mp ha with rfl | ha
      · exact hle
      · exact Nat.le_trans hle (hy.1 a ha)
    · rename_i hnle
      apply List.pairwise_cons.mpr
      refine ⟨?_, ih hy.2⟩
      intro a ha
      rcases (mem_insertBy key x a r).mp ha with rfl | ha
      · omega
      · exact hy.1 a ha

theorem pairwise_sortBy (key : Meta → Nat) (l : List Meta) : (sortBy key l).Pairwise (fun a b => key a ≤ key b) := by
  induction l with
  | nil => simp [sortBy]
  | cons x r ih => exact pairwise_insertBy key x _ ih

theorem mem_volSort (a : Meta) (l : List Meta) : a ∈ volSort l ↔ a ∈ l := mem_sortBy volKey a l

theorem pairwise_volSort (l : List Meta) : (volSort l).Pairwise (fun a b => volKey a ≤ volKey b) :=
  pairwise_sortBy volKey l

theorem volLoop_sublist (rem : Nat) (l : List Meta) : (volLoop rem l).Sublist l := by
  induction l generalizing rem with
  | nil => exact List.Sublist.slnil
  | cons m r ih =>
    unfold volLoop
    split
    · exact (ih _).cons_cons m
    · exact List.nil_sublist _

/-- stopping at the first misfit deletes a prefix: nothing strictly older than a deleted segment stays -/
theorem volLoop_closed (f : Meta → Nat) (rem : Nat) (l : List Meta)
    (hs : l.Pairwise (fun a b => f a ≤ f b)) :
    ∀ a ∈ volLoop rem l, ∀ b ∈ l, f b < f a → b ∈ volLoop rem l := by
  induction l generalizing rem with
  | nil => intro a ha; cases ha
  | cons m r ih =>
    have hc := List.pairwise_cons.mp hs
    intro a ha b hb hlt
    unfold volLoop at ha ⊢
    by_cases hf : m.size < rem
    · simp only [hf, if_true] at ha ⊢
      rcases List.mem_cons.mp hb with hbm | hbr
      · rw [hbm]; exact List.mem_cons_self
      · rcases List.mem_cons.mp ha with ham | har
        · have := hc.1 b hbr; rw [ham] at hlt; omega
        · exact List.mem_cons_of_mem _ (ih _ hc.2 a har b hbr hlt)
    · simp only [hf, if_false] at ha
      cases ha

/-- the marking loop marks a prefix of its input … -/
theorem volLoop_prefix (rem : Nat) (l : List Meta) : ∃ n, volLoop rem l = l.take n := by
  induction l generalizing rem with
  | nil => exact ⟨0, rfl⟩
  | cons m r ih =>
    unfold volLoop
    split
    · obtain ⟨n, hn⟩ := ih (rem - m.size)
      exact ⟨n + 1, by rw [hn]; rfl⟩
    · exact ⟨0, rfl⟩

/-- … and never marks as much as the excess -/
theorem volLoop_total_lt (rem : Nat) (l : List Meta) (h : 0 < rem) : totalSize (volLoop rem l) < rem := by
  induction l generalizing rem with
  | nil => simpa [volLoop, totalSize] using h
  | cons m r ih =>
    unfold volLoop
    split
    · rename_i hf
      have := ih (rem - m.size) (by omega)
      simp only [totalSize, List.map_cons, List.sum_cons] at this ⊢
      omega
    · simpa [totalSize] using h

end SigModel.Lemmas.C14
