/-
C02 kernel slice, lemmas part b: the search-clause comparison equals the comparison by value under the guard.
Core Lean only.
-/
import SigModel.Lemmas.C02K

namespace SigModel.Lemmas.C02K
open SigModel.Tlv SigModel.Cmp SigModel.Lemmas.C01

/-- The guard of `implCmp_eq_spec_partial`, on the stored value, the operator and the literal enclosure.  It
excludes exactly the classes refuted by the counterexample theorems (code after the C02 repairs):
  F  (gone with repair c02-4: a stored numeric STRING is the float64 it reads as, so it falls under C)
  D  an unsigned record against a signed (negative) integer literal (compared with `uint64(negative)`);
  B  an integer record that `float64(·)` does not represent exactly, against a float-typed literal;
  C  a float record — or a string that reads as a number — against an integer literal that `float64(·)` does not
     represent exactly.
(B and C hold for every |n| ≤ 2^53.) -/
def cmpGuardQ (rnd : Rat → Rat) (v : SVal) (_op : Op) (q : Lit) : Bool :=
  match v with
  | .str s =>
    match numOfStr? s with
    | none => true
    | some _ =>
      match q.dtype with
      | .signed => decide (rnd (q.signed : Rat) = (q.signed : Rat))
      | .unsigned => decide (rnd (q.unsigned : Rat) = (q.unsigned : Rat))
      | _ => true
  | .bool _ => true
  | .backfill => true
  | .int i =>
    match q.dtype with
    | .float => decide (rnd (i : Rat) = (i : Rat))
    | _ => true
  | .uint n =>
    match q.dtype with
    | .float => decide (rnd (n : Rat) = (n : Rat))
    | .signed => false
    | _ => true
  | .float _ =>
    match q.dtype with
    | .signed => decide (rnd (q.signed : Rat) = (q.signed : Rat))
    | .unsigned => decide (rnd (q.unsigned : Rat) = (q.unsigned : Rat))
    | _ => true

theorem wrapS64_small (u : Nat) (h : (u : Int) < two63) : wrapS64 (u : Int) = (u : Int) := by
  unfold wrapS64 two64; unfold two63 at h ⊢; omega

theorem wrapS64_big (u : Nat) (h1 : two63 ≤ (u : Int)) (h2 : (u : Int) < two64) : wrapS64 (u : Int) < 0 := by
  unfold wrapS64; unfold two64 at h2 ⊢; unfold two63 at h1 ⊢; omega

theorem specCmp_nonnum (rnd : Rat → Rat) (v : SVal) (op : Op) (q : Lit) (h : v.num? rnd = none) :
    specCmp rnd v op q = (op == .ne) := by
  simp [specCmp, h]

/-- the comparison against ANY well-shaped numeric literal enclosure -/
theorem impl_eq_spec_q (rnd : Rat → Rat) (_hr : RndOk rnd) (ci : Bool) (v : SVal) (hv : v.wf) (op : Op) (q : Lit)
    (hq : LitOk rnd q) (hg : cmpGuardQ rnd v op q = true) :
    implCmp rnd ci v.enc op q = .ok (specCmp rnd v op q) := by
  have hnum : implCmp rnd ci v.enc op q = fopOnNumber rnd v.enc q op := by
    unfold LitOk at hq
    unfold implCmp
    cases hd : q.dtype <;> simp [hd] at hq ⊢
  rw [hnum]
  unfold SVal.wf SVal.wfb at hv
  cases v with
  | str s =>
    simp at hv
    simp only [fopOnNumber, getNum_str, strRecNum_str rnd s hv]
    cases hn : numOfStr? s with
    | none => simp [specCmp, SVal.num?, hn]
    | some a =>
      -- the record is the float64 `rnd a`: as for a float record
      simp only [cmpGuardQ, hn] at hg
      unfold LitOk at hq
      cases hd : q.dtype <;> simp [hd] at hq <;> simp [hd] at hg
      · simp [compareNumberDte, cmpFloat, specCmp, SVal.num?, hn, Lit.num?, hd, hq.1, hg]
      · simp [compareNumberDte, cmpFloat, specCmp, SVal.num?, hn, Lit.num?, hd, hq.1, hg]
      · simp [compareNumberDte, cmpFloat, specCmp, SVal.num?, hn, Lit.num?, hd]
  | bool b => simp [fopOnNumber, getNum_bool, strRecNum_bool, specCmp, SVal.num?]
  | backfill => simp [fopOnNumber, getNum_backfill, strRecNum_backfill, specCmp, SVal.num?]
  | int i =>
    simp at hv
    simp only [fopOnNumber, getNum_int i hv.1 hv.2]
    unfold LitOk at hq
    cases hd : q.dtype <;> simp [hd] at hq <;> simp [cmpGuardQ, hd] at hg
    · -- signed literal
      simp [promote, hd, compareNumberDte, specCmp, SVal.num?, Lit.num?, cmpQ_int]
    · -- unsigned literal: below 2^63 the SignedVal is the value, above it has wrapped and the record is smaller
      by_cases hu : (q.unsigned : Int) < two63
      · have hs : q.signed = (q.unsigned : Int) := by rw [hq.2.1]; exact wrapS64_small _ hu
        have hnn : ¬ q.signed < 0 := by rw [hs]; omega
        simp [promote, hd, compareNumberDte, specCmp, SVal.num?, Lit.num?, hs, ← natCast_rat, cmpQ_int]
        intro h; omega
      · have hneg : q.signed < 0 := by rw [hq.2.1]; exact wrapS64_big _ (by omega) hq.2.2
        have hlt : i < (q.unsigned : Int) := by unfold two63 at hu hv; omega
        simp [promote, hd, compareNumberDte, specCmp, SVal.num?, Lit.num?, hneg, ← natCast_rat, cmpQ_int]
        cases op <;> simp [cmpZ] <;> omega
    · -- float literal
      simp [promote, hd, compareNumberDte, cmpFloat, specCmp, SVal.num?, Lit.num?, hg]
  | uint n =>
    simp at hv
    simp only [fopOnNumber, getNum_uint n hv]
    unfold LitOk at hq
    cases hd : q.dtype <;> simp [hd] at hq <;> simp [cmpGuardQ, hd] at hg
    · -- unsigned literal
      simp [promote, hd, compareNumberDte, specCmp, SVal.num?, Lit.num?, ← natCast_rat, cmpQ_int]
    · -- float literal
      simp [promote, hd, compareNumberDte, cmpFloat, specCmp, SVal.num?, Lit.num?, hg]
  | float b =>
    simp only [fopOnNumber, getNum_float b hv]
    unfold LitOk at hq
    cases hd : q.dtype <;> simp [hd] at hq <;> simp [cmpGuardQ, hd] at hg
    · -- signed literal: FloatVal = float64(SignedVal), exact by the guard
      simp [promote, hd, compareNumberDte, cmpFloat, specCmp, SVal.num?, Lit.num?, hq.1, hg]
    · simp [promote, hd, compareNumberDte, cmpFloat, specCmp, SVal.num?, Lit.num?, hq.1, hg]
    · simp [promote, hd, compareNumberDte, cmpFloat, specCmp, SVal.num?, Lit.num?]

end SigModel.Lemmas.C02K
