/-
C04 timechart cells: the time-bucket kernel AS FOUND (before the repair c04-8), kept for the counterexample theorem of
Props/C04.lean.  The kernel as it is now is regenerated from the source on every run (SigModel/Gen/TimeBucket.lean).
Core Lean only.
-/
import SigModel.Model.MachInt
namespace SigModel.Props.C04
open SigModel.MachInt

/-- pkg/segment/aggregations/timechartagg.go `FindTimeRangeBucket` before the repair: a timestamp at or after the end of the
range was answered with `end − step`, whatever the grid -/
def FindTimeRangeBucketOld (r_end : Int) (r_start : Int) (r_step : Int) (timestamp : Int) : Int :=
  if (decide (timestamp < r_start)) then
    r_start
  else
    if (decide (timestamp ≥ r_end)) then
      (wrapU64 (r_end - r_step))
    else
      let index : Int := ((wrapU64 (Int.tdiv ((wrapU64 (timestamp - r_start))) r_step)))
      (wrapU64 (r_start + (wrapU64 (index * r_step))))

end SigModel.Props.C04
