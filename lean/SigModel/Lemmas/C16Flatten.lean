/-
Helper lemmas for the content clause of C16 (SigModel/Spec/Flatten.lean): the flattener as a map over the
tree's own leaves, names as dotted paths, splitting a dotted name back into its segments, decimal
array positions, sorting members keeps the leaves.
-/
import SigModel.Spec.Flatten

namespace SigModel.Lemmas.C16Flatten
open SigModel.Spec.Flatten

/-! ### the flattener is `filter ∘ map` over the leaves -/

/-- all columns the flattener would emit below `cur` if no name were consumed as the time -/
def allCols (cur : Bytes) (ls : List (List Bytes × Atom)) : List (Bytes × Atom) :=
  ls.map (fun p => (joinPath cur p.1, p.2))

def keep (ts : Bytes) (cs : List (Bytes × Atom)) : List (Bytes × Atom) := cs.filter (fun q => q.1 ≠ ts)

theorem allCols_append (cur : Bytes) (a b : List (List Bytes × Atom)) :
    allCols cur (a ++ b) = allCols cur a ++ allCols cur b := by simp [allCols]

theorem keep_append (ts : Bytes) (a b : List (Bytes × Atom)) : keep ts (a ++ b) = keep ts a ++ keep ts b := by
  simp [keep]

theorem allCols_cons_map (cur k : Bytes) (ls : List (List Bytes × Atom)) :
    allCols cur (ls.map (fun p => (k :: p.1, p.2))) = allCols (joinKey cur k) ls := by
  simp [allCols, joinPath, List.map_map, Function.comp_def]

mutual
  theorem flatVal_eq (ts cur : Bytes) : ∀ j : Json, flatVal ts cur j = keep ts (allCols cur (leaves j))
    | .leaf v => by
      simp only [flatVal, leaves, allCols, keep, emit, List.map, joinPath]
      by_cases h : cur = ts <;> simp [h]
    | .arr xs => by simp only [flatVal, leaves]; exact flatElems_eq ts cur 0 xs
    | .obj ms => by simp only [flatVal, leaves]; exact flatMembers_eq ts cur ms
  theorem flatElems_eq (ts cur : Bytes) : ∀ (i : Nat) (xs : Elems),
      flatElems ts cur i xs = keep ts (allCols cur (leavesElems i xs))
    | _, .nil => by simp [flatElems, leavesElems, allCols, keep]
    | i, .cons x xs => by
      simp only [flatElems, leavesElems, allCols_append, keep_append, allCols_cons_map]
      rw [flatVal_eq ts _ x, flatElems_eq ts cur (i + 1) xs]
  theorem flatMembers_eq (ts cur : Bytes) : ∀ ms : Members,
      flatMembers ts cur ms = keep ts (allCols cur (leavesMembers ms))
    | .nil => by simp [flatMembers, leavesMembers, allCols, keep]
    | .cons k v ms => by
      simp only [flatMembers, leavesMembers, allCols_append, keep_append, allCols_cons_map]
      rw [flatVal_eq ts _ v, flatMembers_eq ts cur ms]
end

/-! ### names -/

theorem joinKey_ne_nil (cur k : Bytes) (h : cur ≠ []) : joinKey cur k ≠ [] := by
  simp [joinKey, h]

/-- below a non-empty name the flattener's name IS the dotted path behind that name -/
theorem joinPath_of_ne_nil : ∀ (p : List Bytes) (cur : Bytes), cur ≠ [] →
    joinPath cur p = cur ++ p.flatMap (fun t => dot :: t)
  | [], cur, _ => by simp [joinPath]
  | s :: r, cur, h => by
    have h2 : joinKey cur s = cur ++ dot :: s := by simp [joinKey, h]
    rw [joinPath, joinPath_of_ne_nil r _ (joinKey_ne_nil cur s h), h2]
    simp [List.flatMap_cons]

/-- at the root: the dotted path, provided the first segment is not empty -/
theorem joinPath_root (s : Bytes) (r : List Bytes) (h : s ≠ []) : joinPath [] (s :: r) = dotted (s :: r) := by
  have : joinKey [] s = s := by simp [joinKey]
  rw [joinPath, this, joinPath_of_ne_nil r s h, dotted]

/-- the empty root key is treated as "no prefix": its members are named as if they were root members -/
theorem joinPath_empty_root (r : List Bytes) : joinPath [] ([] :: r) = joinPath [] r := by
  simp [joinPath, joinKey]

/-- behind a prefix the name is `prefix.` followed by the root name -/
theorem joinPath_prefix (cur s : Bytes) (r : List Bytes) (hc : cur ≠ []) (hs : s ≠ []) :
    joinPath cur (s :: r) = cur ++ dot :: joinPath [] (s :: r) := by
  rw [joinPath_of_ne_nil _ _ hc, joinPath_root s r hs, dotted]
  simp [List.flatMap_cons]

theorem dot_mem_joinPath_of_two (s t : Bytes) (r : List Bytes) (hs : s ≠ []) : dot ∈ joinPath [] (s :: t :: r) := by
  rw [joinPath_root s _ hs, dotted]
  simp [List.flatMap_cons]

/-! ### splitting a name at the dots -/

def splitAux : Bytes → Bytes → List Bytes
  | [], acc => [acc.reverse]
  | b :: r, acc => if b = dot then acc.reverse :: splitAux r [] else splitAux r (b :: acc)

theorem splitAux_dotfree : ∀ (s rest acc : Bytes), dot ∉ s → splitAux (s ++ rest) acc = splitAux rest (s.reverse ++ acc)
  | [], _, _, _ => by simp
  | b :: s, rest, acc, h => by
    have hb : b ≠ dot := by intro e; exact h (by simp [e])
    have hs : dot ∉ s := by intro e; exact h (by simp [e])
    simp only [List.cons_append, splitAux, hb, if_false]
    rw [splitAux_dotfree s rest (b :: acc) hs]
    simp

theorem splitAux_dotted : ∀ (segs : List Bytes) (s acc : Bytes), dot ∉ s → (∀ t ∈ segs, dot ∉ t) →
    splitAux (s ++ segs.flatMap (fun t => dot :: t)) acc = (acc.reverse ++ s) :: segs
  | [], s, acc, hs, _ => by
    simp only [List.flatMap_nil]
    rw [splitAux_dotfree s [] acc hs]
    simp [splitAux]
  | t :: ts, s, acc, hs, hts => by
    have ht : dot ∉ t := hts t (by simp)
    have hts' : ∀ u ∈ ts, dot ∉ u := fun u hu => hts u (by simp [hu])
    simp only [List.flatMap_cons]
    rw [splitAux_dotfree s _ acc hs]
    simp only [List.cons_append, splitAux, if_true]
    rw [splitAux_dotted ts t [] ht hts']
    simp

/-- dotted names of dot-free paths determine the path -/
theorem dotted_injective (p q : List Bytes) (hp : ∀ t ∈ p, dot ∉ t) (hq : ∀ t ∈ q, dot ∉ t)
    (hpn : p ≠ []) (hqn : q ≠ []) (h : dotted p = dotted q) : p = q := by
  match p, q, hpn, hqn with
  | s :: r, s' :: r', _, _ =>
    have e1 := splitAux_dotted r s [] (hp s (by simp)) (fun t ht => hp t (by simp [ht]))
    have e2 := splitAux_dotted r' s' [] (hq s' (by simp)) (fun t ht => hq t (by simp [ht]))
    simp only [dotted] at h
    rw [h] at e1
    rw [e1] at e2
    simpa using e2

/-! ### decimal positions -/

def toNum (l : Bytes) : Nat := l.foldl (fun a b => a * 10 + (b - 48)) 0

theorem decAux_acc : ∀ (fuel n : Nat) (acc : Bytes), decAux fuel n acc = decAux fuel n [] ++ acc
  | 0, _, acc => by simp [decAux]
  | fuel + 1, n, acc => by
    simp only [decAux]
    by_cases h : n / 10 = 0
    · simp [h]
    · simp only [h, if_false]
      rw [decAux_acc fuel (n / 10) ((48 + n % 10) :: acc), decAux_acc fuel (n / 10) [48 + n % 10]]
      simp

theorem toNum_append_single (l : Bytes) (d : Nat) : toNum (l ++ [d]) = toNum l * 10 + (d - 48) := by
  simp [toNum, List.foldl_append]

theorem toNum_decAux : ∀ (fuel n : Nat), n < fuel → toNum (decAux fuel n []) = n
  | 0, _, h => by omega
  | fuel + 1, n, h => by
    simp only [decAux]
    by_cases h0 : n / 10 = 0
    · simp only [h0, if_true, toNum, List.foldl]
      omega
    · simp only [h0, if_false]
      rw [decAux_acc, toNum_append_single, toNum_decAux fuel (n / 10) (by omega)]
      omega

theorem toNum_decBytes (n : Nat) : toNum (decBytes n) = n := toNum_decAux (n + 1) n (by omega)

theorem decBytes_injective (i j : Nat) (h : decBytes i = decBytes j) : i = j := by
  have := congrArg toNum h
  simpa [toNum_decBytes] using this

theorem decAux_digits : ∀ (fuel n : Nat) (acc : Bytes), (∀ b ∈ acc, 48 ≤ b ∧ b ≤ 57) →
    ∀ b ∈ decAux fuel n acc, 48 ≤ b ∧ b ≤ 57
  | 0, _, acc, h => by simpa [decAux] using h
  | fuel + 1, n, acc, h => by
    have hd : ∀ b ∈ (48 + n % 10) :: acc, 48 ≤ b ∧ b ≤ 57 := by
      intro b hb
      rcases List.mem_cons.mp hb with e | e
      · subst e; omega
      · exact h b e
    simp only [decAux]
    by_cases h0 : n / 10 = 0
    · simpa [h0] using hd
    · simp only [h0, if_false]
      exact decAux_digits fuel (n / 10) _ hd

theorem dot_not_mem_decBytes (n : Nat) : dot ∉ decBytes n := by
  intro h
  have := decAux_digits (n + 1) n [] (by simp) dot h
  simp [dot] at this

theorem decBytes_ne_nil (n : Nat) : decBytes n ≠ [] := by
  simp only [decBytes, decAux]
  by_cases h0 : n / 10 = 0
  · simp [h0]
  · simp only [h0, if_false]
    rw [decAux_acc]
    simp


/-! ### paths of a well-keyed tree: dot-free segments, no path twice -/

theorem mem_leavesMembers_head : ∀ (ms : Members) (x : List Bytes × Atom), x ∈ leavesMembers ms →
    ∃ k r, x.1 = k :: r ∧ k ∈ membersKeys ms
  | .nil, x, h => by simp [leavesMembers] at h
  | .cons k v ms, x, h => by
    simp only [leavesMembers, List.mem_append, List.mem_map] at h
    rcases h with ⟨y, _, rfl⟩ | h
    · exact ⟨k, y.1, rfl, by simp [membersKeys]⟩
    · obtain ⟨k', r, e, hk⟩ := mem_leavesMembers_head ms x h
      exact ⟨k', r, e, by simp [membersKeys, hk]⟩

theorem mem_leavesElems_head : ∀ (xs : Elems) (i : Nat) (x : List Bytes × Atom), x ∈ leavesElems i xs →
    ∃ j r, x.1 = decBytes j :: r ∧ i ≤ j
  | .nil, _, x, h => by simp [leavesElems] at h
  | .cons y ys, i, x, h => by
    simp only [leavesElems, List.mem_append, List.mem_map] at h
    rcases h with ⟨z, _, rfl⟩ | h
    · exact ⟨i, z.1, rfl, Nat.le_refl i⟩
    · obtain ⟨j, r, e, hj⟩ := mem_leavesElems_head ys (i + 1) x h
      exact ⟨j, r, e, by omega⟩

mutual
  theorem leaves_dotfree : ∀ (j : Json), wellKeyed j = true → ∀ x ∈ leaves j, ∀ t ∈ x.1, dot ∉ t
    | .leaf v, _, x, hx, t, ht => by
      simp only [leaves, List.mem_singleton] at hx
      subst hx; simp at ht
    | .arr xs, h, x, hx, t, ht => leavesElems_dotfree xs 0 (by simpa [wellKeyed] using h) x (by simpa [leaves] using hx) t ht
    | .obj ms, h, x, hx, t, ht => leavesMembers_dotfree ms (by simpa [wellKeyed] using h) x (by simpa [leaves] using hx) t ht
  theorem leavesElems_dotfree : ∀ (xs : Elems) (i : Nat), wellKeyedElems xs = true →
      ∀ x ∈ leavesElems i xs, ∀ t ∈ x.1, dot ∉ t
    | .nil, _, _, x, hx, _, _ => by simp [leavesElems] at hx
    | .cons y ys, i, h, x, hx, t, ht => by
      simp only [wellKeyedElems, Bool.and_eq_true] at h
      simp only [leavesElems, List.mem_append, List.mem_map] at hx
      rcases hx with ⟨z, hz, rfl⟩ | hx
      · simp only [List.mem_cons] at ht
        rcases ht with rfl | ht
        · exact dot_not_mem_decBytes i
        · exact leaves_dotfree y h.1 z hz t ht
      · exact leavesElems_dotfree ys (i + 1) h.2 x hx t ht
  theorem leavesMembers_dotfree : ∀ (ms : Members), wellKeyedMembers ms = true →
      ∀ x ∈ leavesMembers ms, ∀ t ∈ x.1, dot ∉ t
    | .nil, _, x, hx, _, _ => by simp [leavesMembers] at hx
    | .cons k v ms, h, x, hx, t, ht => by
      simp only [wellKeyedMembers, Bool.and_eq_true, Bool.not_eq_true', List.contains_eq_mem, decide_eq_false_iff_not] at h
      simp only [leavesMembers, List.mem_append, List.mem_map] at hx
      rcases hx with ⟨z, hz, rfl⟩ | hx
      · simp only [List.mem_cons] at ht
        rcases ht with rfl | ht
        · exact h.1.1.1
        · exact leaves_dotfree v h.1.2 z hz t ht
      · exact leavesMembers_dotfree ms h.2 x hx t ht
end

theorem nodup_map_on {α β : Type} (f : α → β) : ∀ (l : List α), (∀ a ∈ l, ∀ b ∈ l, f a = f b → a = b) → l.Nodup → (l.map f).Nodup
  | [], _, _ => by simp
  | a :: l, hinj, h => by
    rw [List.nodup_cons] at h
    simp only [List.map_cons, List.nodup_cons, List.mem_map]
    refine ⟨?_, nodup_map_on f l (fun x hx y hy => hinj x (by simp [hx]) y (by simp [hy])) h.2⟩
    rintro ⟨b, hb, e⟩
    have := hinj b (by simp [hb]) a (by simp) e
    subst this; exact h.1 hb

theorem nodup_map_cons {α : Type} (k : Bytes) (l : List (List Bytes × α)) (h : (l.map (fun p => p.1)).Nodup) :
    ((l.map (fun p : List Bytes × α => (k :: p.1, p.2))).map (fun p => p.1)).Nodup := by
  rw [List.map_map]
  have : ((fun p : List Bytes × α => p.1) ∘ fun p : List Bytes × α => (k :: p.1, p.2)) = (fun q => k :: q) ∘ (fun p : List Bytes × α => p.1) := rfl
  rw [this, ← List.map_map]
  exact nodup_map_on _ _ (fun a _ b _ e => by simpa using e) h

mutual
  theorem leaves_nodup : ∀ (j : Json), wellKeyed j = true → ((leaves j).map (·.1)).Nodup
    | .leaf v, _ => by simp [leaves]
    | .arr xs, h => by simpa [leaves] using leavesElems_nodup xs 0 (by simpa [wellKeyed] using h)
    | .obj ms, h => by simpa [leaves] using leavesMembers_nodup ms (by simpa [wellKeyed] using h)
  theorem leavesElems_nodup : ∀ (xs : Elems) (i : Nat), wellKeyedElems xs = true → ((leavesElems i xs).map (·.1)).Nodup
    | .nil, _, _ => by simp [leavesElems]
    | .cons y ys, i, h => by
      simp only [wellKeyedElems, Bool.and_eq_true] at h
      simp only [leavesElems, List.map_append]
      refine List.nodup_append.mpr ⟨nodup_map_cons _ _ (leaves_nodup y h.1), leavesElems_nodup ys (i + 1) h.2, ?_⟩
      intro a ha b hb
      simp only [List.mem_map] at ha hb
      obtain ⟨z, ⟨w, _, rfl⟩, rfl⟩ := ha
      obtain ⟨x, hx, rfl⟩ := hb
      obtain ⟨j, r, e, hj⟩ := mem_leavesElems_head ys (i + 1) x hx
      intro e2
      rw [e] at e2
      have := decBytes_injective i j (by simpa using (List.cons.inj e2).1)
      omega
  theorem leavesMembers_nodup : ∀ (ms : Members), wellKeyedMembers ms = true → ((leavesMembers ms).map (·.1)).Nodup
    | .nil, _ => by simp [leavesMembers]
    | .cons k v ms, h => by
      simp only [wellKeyedMembers, Bool.and_eq_true, Bool.not_eq_true', List.contains_eq_mem, decide_eq_false_iff_not] at h
      simp only [leavesMembers, List.map_append]
      refine List.nodup_append.mpr ⟨nodup_map_cons _ _ (leaves_nodup v h.1.2), leavesMembers_nodup ms h.2, ?_⟩
      intro a ha b hb
      simp only [List.mem_map] at ha hb
      obtain ⟨z, ⟨w, _, rfl⟩, rfl⟩ := ha
      obtain ⟨x, hx, rfl⟩ := hb
      obtain ⟨k', r, e, hk⟩ := mem_leavesMembers_head ms x hx
      intro e2
      rw [e] at e2
      have : k = k' := (List.cons.inj e2).1
      exact h.1.1.2 (this ▸ hk)
end

/-- distinct dot-free paths with a non-empty first segment get distinct names -/
theorem names_nodup (ms : Members) (hw : wellKeyedMembers ms = true) (hr : rootKeysNonEmpty ms = true) :
    ((allCols [] (leavesMembers ms)).map (·.1)).Nodup := by
  have hn := leavesMembers_nodup ms hw
  have hd := leavesMembers_dotfree ms hw
  simp only [allCols, List.map_map]
  have : ((fun q : Bytes × Atom => q.1) ∘ fun p : List Bytes × Atom => (joinPath [] p.1, p.2)) = (fun p => joinPath [] p) ∘ (·.1) := rfl
  rw [this, ← List.map_map]
  refine nodup_map_on _ _ ?_ hn
  intro p hp q hq e
  simp only [List.mem_map] at hp hq
  obtain ⟨x, hx, rfl⟩ := hp
  obtain ⟨y, hy, rfl⟩ := hq
  obtain ⟨k, r, ex, hk⟩ := mem_leavesMembers_head ms x hx
  obtain ⟨k', r', ey, hk'⟩ := mem_leavesMembers_head ms y hy
  have hkn : k ≠ [] := by
    intro e0; subst e0
    simp [rootKeysNonEmpty, hk] at hr
  have hkn' : k' ≠ [] := by
    intro e0; subst e0
    simp [rootKeysNonEmpty, hk'] at hr
  rw [ex, ey, joinPath_root k r hkn, joinPath_root k' r' hkn'] at e
  rw [ex, ey]
  exact dotted_injective _ _ (by rw [← ex]; exact hd x hx) (by rw [← ey]; exact hd y hy) (by simp) (by simp) e

theorem keep_names_sublist (ts : Bytes) (cs : List (Bytes × Atom)) : ((keep ts cs).map (·.1)).Sublist (cs.map (·.1)) :=
  List.Sublist.map _ (List.filter_sublist)

/-! ### sorting the members keeps the leaves -/

theorem mem_leavesMembers_insert (k : Bytes) (v : Json) : ∀ (ms : Members) (x : List Bytes × Atom),
    x ∈ leavesMembers (insertMember k v ms) ↔ x ∈ (leaves v).map (fun p => (k :: p.1, p.2)) ∨ x ∈ leavesMembers ms
  | .nil, x => by simp [insertMember, leavesMembers]
  | .cons k' v' ms, x => by
    simp only [insertMember]
    by_cases h : bytesLt k k' = true
    · simp [h, leavesMembers]
    · simp only [h, if_false, leavesMembers, List.mem_append, mem_leavesMembers_insert k v ms x, Bool.false_eq_true]
      constructor
      · rintro (h1 | h1 | h1)
        · exact Or.inr (Or.inl h1)
        · exact Or.inl h1
        · exact Or.inr (Or.inr h1)
      · rintro (h1 | h1 | h1)
        · exact Or.inr (Or.inl h1)
        · exact Or.inl h1
        · exact Or.inr (Or.inr h1)

mutual
  theorem mem_leaves_sortJson : ∀ (j : Json) (x : List Bytes × Atom), x ∈ leaves (sortJson j) ↔ x ∈ leaves j
    | .leaf v, x => by simp [sortJson]
    | .arr xs, x => by simpa [sortJson, leaves] using mem_leavesElems_sort xs 0 x
    | .obj ms, x => by simpa [sortJson, leaves] using mem_leavesMembers_sort ms x
  theorem mem_leavesElems_sort : ∀ (xs : Elems) (i : Nat) (x : List Bytes × Atom),
      x ∈ leavesElems i (sortElems xs) ↔ x ∈ leavesElems i xs
    | .nil, _, x => by simp [sortElems]
    | .cons y ys, i, x => by
      simp only [sortElems, leavesElems, List.mem_append, List.mem_map, mem_leavesElems_sort ys (i + 1) x]
      constructor
      · rintro (⟨z, hz, rfl⟩ | h)
        · exact Or.inl ⟨z, (mem_leaves_sortJson y z).mp hz, rfl⟩
        · exact Or.inr h
      · rintro (⟨z, hz, rfl⟩ | h)
        · exact Or.inl ⟨z, (mem_leaves_sortJson y z).mpr hz, rfl⟩
        · exact Or.inr h
  theorem mem_leavesMembers_sort : ∀ (ms : Members) (x : List Bytes × Atom),
      x ∈ leavesMembers (sortMembers ms) ↔ x ∈ leavesMembers ms
    | .nil, x => by simp [sortMembers]
    | .cons k v ms, x => by
      simp only [sortMembers, mem_leavesMembers_insert, leavesMembers, List.mem_append, List.mem_map, mem_leavesMembers_sort ms x]
      constructor
      · rintro (⟨z, hz, rfl⟩ | h)
        · exact Or.inl ⟨z, (mem_leaves_sortJson v z).mp hz, rfl⟩
        · exact Or.inr h
      · rintro (⟨z, hz, rfl⟩ | h)
        · exact Or.inl ⟨z, (mem_leaves_sortJson v z).mpr hz, rfl⟩
        · exact Or.inr h
end

/-- membership in the flattener's output, in terms of the tree's leaves -/
theorem mem_flatMembers (ts cur : Bytes) (ms : Members) (q : Bytes × Atom) :
    q ∈ flatMembers ts cur ms ↔ ∃ x ∈ leavesMembers ms, q = (joinPath cur x.1, x.2) ∧ joinPath cur x.1 ≠ ts := by
  rw [flatMembers_eq]
  simp only [keep, allCols, List.mem_filter, List.mem_map, decide_eq_true_eq]
  constructor
  · rintro ⟨⟨x, hx, rfl⟩, h⟩
    exact ⟨x, hx, rfl, h⟩
  · rintro ⟨x, hx, rfl, h⟩
    exact ⟨⟨x, hx, rfl⟩, h⟩


/-! ### counting, prefixes, lookups -/

theorem filter_length_split {α : Type} (p : α → Bool) : ∀ l : List α,
    (l.filter p).length + (l.filter (fun a => !p a)).length = l.length
  | [] => by simp
  | a :: l => by
    have ih := filter_length_split p l
    by_cases h : p a = true
    · simp [h]; omega
    · simp [h]; omega

/-- below a non-empty name every flattened name begins with that name: it cannot be a key that begins otherwise -/
theorem joinPath_ne_of_head (cur ts : Bytes) (p : List Bytes) (hc : cur ≠ []) (hh : cur.head? ≠ ts.head?) :
    joinPath cur p ≠ ts := by
  rw [joinPath_of_ne_nil p cur hc]
  intro e
  apply hh
  rw [← e]
  cases cur with
  | nil => exact absurd rfl hc
  | cons a as => simp

/-- below a non-empty name, a path with a non-empty first segment never flattens to a dot-free key -/
theorem joinPath_ne_of_dotfree (cur ts : Bytes) (p : List Bytes) (hc : cur ≠ []) (hp : p ≠ []) (hd : dot ∉ ts) :
    joinPath cur p ≠ ts := by
  rw [joinPath_of_ne_nil p cur hc]
  intro e
  apply hd
  rw [← e]
  cases p with
  | nil => exact absurd rfl hp
  | cons s r => simp [List.flatMap_cons]

theorem find_of_nodup {α : Type} (n : Bytes) (v : α) : ∀ (l : List (Bytes × α)), (l.map (fun p => p.1)).Nodup → (n, v) ∈ l →
    l.find? (fun p => p.1 = n) = some (n, v)
  | [], _, h => by simp at h
  | (m, w) :: l, hn, h => by
    simp only [List.map_cons, List.nodup_cons, List.mem_map] at hn
    rcases List.mem_cons.mp h with e | e
    · cases e; simp
    · have hne : m ≠ n := by
        intro e2
        exact hn.1 ⟨(n, v), e, by simp [e2]⟩
      simp only [List.find?_cons, hne, decide_false]
      exact find_of_nodup n v l hn.2 e

theorem lookupLast_of_nodup (fs : List (Bytes × Atom)) (n : Bytes) (v : Atom)
    (hn : (fs.map (fun p => p.1)).Nodup) (h : (n, v) ∈ fs) : lookupLast fs n = some v := by
  unfold lookupLast
  have hr : (fs.reverse.map (fun p => p.1)).Nodup := by
    rw [List.map_reverse]
    unfold List.Nodup at *
    exact List.pairwise_reverse.mpr (hn.imp (fun h => Ne.symm h))
  rw [find_of_nodup n v fs.reverse hr (by simpa using h)]
  rfl


theorem leavesMembers_ofList_filter (f : Bytes × Json → Bool) : ∀ (l : List (Bytes × Json)) (x : List Bytes × Atom),
    x ∈ leavesMembers (Members.ofList (l.filter f)) ↔ ∃ kv ∈ l, f kv = true ∧ x ∈ (leaves kv.2).map (fun p => (kv.1 :: p.1, p.2))
  | [], x => by simp [Members.ofList, leavesMembers]
  | (k, v) :: l, x => by
    by_cases h : f (k, v) = true
    · simp only [List.filter_cons, h, if_true, Members.ofList, leavesMembers, List.mem_append,
        leavesMembers_ofList_filter f l x, List.mem_cons, exists_eq_or_imp, true_and]
    · simp only [List.filter_cons, h, if_false, leavesMembers_ofList_filter f l x, List.mem_cons, exists_eq_or_imp,
        false_and, false_or, Bool.false_eq_true]

theorem mem_leavesMembers_toList : ∀ (ms : Members) (x : List Bytes × Atom),
    x ∈ leavesMembers ms ↔ ∃ kv ∈ ms.toList, x ∈ (leaves kv.2).map (fun p => (kv.1 :: p.1, p.2))
  | .nil, x => by simp [leavesMembers, Members.toList]
  | .cons k v ms, x => by
    simp only [leavesMembers, Members.toList, List.mem_append, mem_leavesMembers_toList ms x, List.mem_cons, exists_eq_or_imp]

/-- removing one root member keeps every leaf below the other root members -/
theorem mem_leavesMembers_erase (ms : Members) (k : Bytes) (x : List Bytes × Atom) (hx : x ∈ leavesMembers ms)
    (hk : x.1.head? ≠ some k) : x ∈ leavesMembers (ms.erase k) := by
  unfold Members.erase
  rw [leavesMembers_ofList_filter]
  obtain ⟨kv, hkv, hm⟩ := (mem_leavesMembers_toList ms x).mp hx
  refine ⟨kv, hkv, ?_, hm⟩
  simp only [List.mem_map] at hm
  obtain ⟨y, _, rfl⟩ := hm
  simp only [List.head?_cons] at hk
  simpa using fun e => hk (by rw [e])


/-! ### Go map assignment on member lists (the Loki handler's `allIngestData`) -/

theorem toList_ofList : ∀ l : List (Bytes × Json), (Members.ofList l).toList = l
  | [] => rfl
  | (k, v) :: l => by simp [Members.ofList, Members.toList, toList_ofList l]

theorem mem_leavesMembers_ofList (l : List (Bytes × Json)) (x : List Bytes × Atom) :
    x ∈ leavesMembers (Members.ofList l) ↔ ∃ kv ∈ l, x ∈ (leaves kv.2).map (fun p => (kv.1 :: p.1, p.2)) := by
  rw [mem_leavesMembers_toList, toList_ofList]

/-- `m[k] = v` keeps every leaf below the other keys … -/
theorem mem_setMember_other (ms : Members) (k : Bytes) (v : Json) (x : List Bytes × Atom)
    (hx : x ∈ leavesMembers ms) (hk : x.1.head? ≠ some k) : x ∈ leavesMembers (setMember ms k v) := by
  unfold setMember Members.append
  rw [mem_leavesMembers_ofList]
  have := mem_leavesMembers_erase ms k x hx hk
  obtain ⟨kv, hkv, hm⟩ := (mem_leavesMembers_toList _ x).mp this
  exact ⟨kv, by simp [hkv], hm⟩

/-- … and puts the new value's leaves below `k` -/
theorem mem_setMember_new (ms : Members) (k : Bytes) (v : Json) (y : List Bytes × Atom) (hy : y ∈ leaves v) :
    (k :: y.1, y.2) ∈ leavesMembers (setMember ms k v) := by
  unfold setMember Members.append
  rw [mem_leavesMembers_ofList]
  exact ⟨(k, v), by simp [Members.toList], by simp only [List.mem_map]; exact ⟨y, hy, rfl⟩⟩

theorem mem_foldl_setMember (x : List Bytes × Atom) : ∀ (l : List (Bytes × Json)) (acc : Members),
    x ∈ leavesMembers acc → (∀ kv ∈ l, x.1.head? ≠ some kv.1) →
    x ∈ leavesMembers (l.foldl (fun m p => setMember m p.1 p.2) acc)
  | [], _, h, _ => h
  | kv :: l, acc, h, hl => by
    simp only [List.foldl_cons]
    exact mem_foldl_setMember x l _ (mem_setMember_other acc kv.1 kv.2 x h (hl kv (by simp)))
      (fun kv' h' => hl kv' (by simp [h']))

theorem mem_stringMembers (t : Members) (k s : Bytes) (h : (k, Json.leaf (.str s)) ∈ t.toList) :
    ([k], Atom.str s) ∈ leavesMembers (stringMembers t) := by
  unfold stringMembers
  rw [leavesMembers_ofList_filter]
  exact ⟨(k, .leaf (.str s)), h, rfl, by simp [leaves]⟩

/-! ### the longest string value -/

mutual
  theorem longJson_false : ∀ (j : Json), longJson j = false → ∀ x ∈ leaves j, x.2.tooLong = false
    | .leaf v, h, x, hx => by
      simp only [leaves, List.mem_singleton] at hx
      subst hx; simpa [longJson] using h
    | .arr xs, h, x, hx => longElems_false xs 0 (by simpa [longJson] using h) x (by simpa [leaves] using hx)
    | .obj ms, h, x, hx => longMembers_false ms (by simpa [longJson] using h) x (by simpa [leaves] using hx)
  theorem longElems_false : ∀ (xs : Elems) (i : Nat), longElems xs = false → ∀ x ∈ leavesElems i xs, x.2.tooLong = false
    | .nil, _, _, x, hx => by simp [leavesElems] at hx
    | .cons y ys, i, h, x, hx => by
      simp only [longElems, Bool.or_eq_false_iff] at h
      simp only [leavesElems, List.mem_append, List.mem_map] at hx
      rcases hx with ⟨z, hz, rfl⟩ | hx
      · exact longJson_false y h.1 z hz
      · exact longElems_false ys (i + 1) h.2 x hx
  theorem longMembers_false : ∀ (ms : Members), longMembers ms = false → ∀ x ∈ leavesMembers ms, x.2.tooLong = false
    | .nil, _, x, hx => by simp [leavesMembers] at hx
    | .cons k v ms, h, x, hx => by
      simp only [longMembers, Bool.or_eq_false_iff] at h
      simp only [leavesMembers, List.mem_append, List.mem_map] at hx
      rcases hx with ⟨z, hz, rfl⟩ | hx
      · exact longJson_false v h.1 z hz
      · exact longMembers_false ms h.2 x hx
end

end SigModel.Lemmas.C16Flatten
