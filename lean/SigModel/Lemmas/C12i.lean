/- C12 helper lemmas, part i: `dropRedeliveredSpans` (repair c12-11) — of the collected spans with one id the first is
kept. Core Lean only. -/
import SigModel.Model.TraceE2E
import SigModel.Lemmas.C12h

namespace SigModel.Lemmas.C12
open SigModel.Trace SigModel.TraceE2E List

/-! ### kernel: span ids -/

theorem dedupAux_mem : ∀ (spans : List Span) (seen : List Nat) (x : Span),
    x ∈ Trace.dedupAux seen spans → x ∈ spans ∧ x.id ∉ seen
  | [], _, x, h => by simp [Trace.dedupAux] at h
  | s :: r, seen, x, h => by
    unfold Trace.dedupAux at h
    by_cases hs : seen.contains s.id = true
    · rw [if_pos hs] at h
      have := dedupAux_mem r seen x h
      exact ⟨List.mem_cons_of_mem _ this.1, this.2⟩
    · rw [if_neg hs] at h
      rcases List.mem_cons.1 h with rfl | h
      · exact ⟨List.mem_cons_self .., by simpa using hs⟩
      · have := dedupAux_mem r (s.id :: seen) x h
        exact ⟨List.mem_cons_of_mem _ this.1, fun hx => this.2 (List.mem_cons_of_mem _ hx)⟩

theorem dedupAux_nodup : ∀ (spans : List Span) (seen : List Nat), ((Trace.dedupAux seen spans).map (·.id)).Nodup
  | [], _ => by simp [Trace.dedupAux]
  | s :: r, seen => by
    unfold Trace.dedupAux
    by_cases hs : seen.contains s.id = true
    · rw [if_pos hs]; exact dedupAux_nodup r seen
    · rw [if_neg hs]
      simp only [List.map_cons, List.nodup_cons, List.mem_map, not_exists, not_and]
      refine ⟨fun x hx e => ?_, dedupAux_nodup r (s.id :: seen)⟩
      exact (dedupAux_mem r (s.id :: seen) x hx).2 (by simp [e])

/-- after `dropRedeliveredSpans` the span ids are pairwise different -/
theorem dedupIds_nodup (spans : List Span) : ((dedupIds spans).map (·.id)).Nodup := dedupAux_nodup spans []

theorem dedupAux_of_nodup : ∀ (spans : List Span) (seen : List Nat), (spans.map (·.id)).Nodup →
    (∀ s ∈ spans, s.id ∉ seen) → Trace.dedupAux seen spans = spans
  | [], _, _, _ => by simp [Trace.dedupAux]
  | s :: r, seen, hn, hs => by
    simp only [List.map_cons, List.nodup_cons, List.mem_map, not_exists, not_and] at hn
    unfold Trace.dedupAux
    have h0 : ¬ (seen.contains s.id = true) := by simpa using hs s (List.mem_cons_self ..)
    rw [if_neg h0, dedupAux_of_nodup r (s.id :: seen) hn.2]
    intro x hx hm
    rcases List.mem_cons.1 hm with e | hm
    · exact hn.1 x hx e
    · exact hs x (List.mem_cons_of_mem _ hx) hm

/-- nothing is dropped when no span was delivered twice -/
theorem dedupIds_of_nodup (spans : List Span) (h : (spans.map (·.id)).Nodup) : dedupIds spans = spans :=
  dedupAux_of_nodup spans [] h (by simp)

/-! ### end to end: (trace id, span id) -/

def recKey (r : Rec) : String × String := (r.trace, r.sid)

theorem dedupRecs_mem : ∀ (rs : List Rec) (seen : List (String × String)) (x : Rec),
    x ∈ TraceE2E.dedupAux seen rs → x ∈ rs ∧ recKey x ∉ seen
  | [], _, x, h => by simp [TraceE2E.dedupAux] at h
  | r :: rs, seen, x, h => by
    unfold TraceE2E.dedupAux at h
    by_cases hs : seen.contains (r.trace, r.sid) = true
    · rw [if_pos hs] at h
      have := dedupRecs_mem rs seen x h
      exact ⟨List.mem_cons_of_mem _ this.1, this.2⟩
    · rw [if_neg hs] at h
      rcases List.mem_cons.1 h with rfl | h
      · exact ⟨List.mem_cons_self .., by simpa [recKey] using hs⟩
      · have := dedupRecs_mem rs ((r.trace, r.sid) :: seen) x h
        exact ⟨List.mem_cons_of_mem _ this.1, fun hx => this.2 (List.mem_cons_of_mem _ hx)⟩

theorem dedupRecsAux_nodup : ∀ (rs : List Rec) (seen : List (String × String)),
    ((TraceE2E.dedupAux seen rs).map recKey).Nodup
  | [], _ => by simp [TraceE2E.dedupAux]
  | r :: rs, seen => by
    unfold TraceE2E.dedupAux
    by_cases hs : seen.contains (r.trace, r.sid) = true
    · rw [if_pos hs]; exact dedupRecsAux_nodup rs seen
    · rw [if_neg hs]
      simp only [List.map_cons, List.nodup_cons, List.mem_map, not_exists, not_and]
      refine ⟨fun x hx e => ?_, dedupRecsAux_nodup rs ((r.trace, r.sid) :: seen)⟩
      exact (dedupRecs_mem rs ((r.trace, r.sid) :: seen) x hx).2 (by simp [recKey] at e ⊢; simp [e])

/-- a record whose (trace id, span id) was met before — in `seen` or in the records in front of it — is dropped:
the collected list with it and without it give the same spans -/
theorem dedupAux_drop_later : ∀ (a : List Rec) (seen : List (String × String)) (r : Rec) (b : List Rec),
    (recKey r ∈ seen ∨ ∃ x ∈ a, recKey x = recKey r) →
    TraceE2E.dedupAux seen (a ++ r :: b) = TraceE2E.dedupAux seen (a ++ b)
  | [], seen, r, b, h => by
    have hk : seen.contains (r.trace, r.sid) = true := by
      rcases h with h | ⟨x, hx, _⟩
      · simpa [recKey] using h
      · simp at hx
    simp only [List.nil_append]
    conv => lhs; unfold TraceE2E.dedupAux
    rw [if_pos hk]
  | y :: a, seen, r, b, h => by
    simp only [List.cons_append]
    conv => lhs; unfold TraceE2E.dedupAux
    conv => rhs; unfold TraceE2E.dedupAux
    by_cases hs : seen.contains (y.trace, y.sid) = true
    · rw [if_pos hs, if_pos hs]
      apply dedupAux_drop_later a seen r b
      rcases h with h | ⟨x, hx, e⟩
      · exact Or.inl h
      · rcases List.mem_cons.1 hx with rfl | hx
        · left; rw [← e]; simpa [recKey] using hs
        · exact Or.inr ⟨x, hx, e⟩
    · rw [if_neg hs, if_neg hs]
      congr 1
      apply dedupAux_drop_later a ((y.trace, y.sid) :: seen) r b
      rcases h with h | ⟨x, hx, e⟩
      · exact Or.inl (List.mem_cons_of_mem _ h)
      · rcases List.mem_cons.1 hx with rfl | hx
        · left; rw [← e]; simp [recKey]
        · exact Or.inr ⟨x, hx, e⟩

theorem dedupRecs_drop_later (a b : List Rec) (r x : Rec) (hx : x ∈ a) (e : recKey x = recKey r) :
    dedupRecs (a ++ r :: b) = dedupRecs (a ++ b) :=
  dedupAux_drop_later a [] r b (Or.inr ⟨x, hx, e⟩)

theorem dedupRecsAux_of_nodup : ∀ (rs : List Rec) (seen : List (String × String)), (rs.map recKey).Nodup →
    (∀ r ∈ rs, recKey r ∉ seen) → TraceE2E.dedupAux seen rs = rs
  | [], _, _, _ => by simp [TraceE2E.dedupAux]
  | r :: rs, seen, hn, hs => by
    simp only [List.map_cons, List.nodup_cons, List.mem_map, not_exists, not_and] at hn
    unfold TraceE2E.dedupAux
    have h0 : ¬ (seen.contains (r.trace, r.sid) = true) := by simpa [recKey] using hs r (List.mem_cons_self ..)
    rw [if_neg h0, dedupRecsAux_of_nodup rs ((r.trace, r.sid) :: seen) hn.2]
    intro x hx hm
    rcases List.mem_cons.1 hm with e | hm
    · exact hn.1 x hx (by simpa [recKey] using e)
    · exact hs x (List.mem_cons_of_mem _ hx) hm

/-- nothing is dropped when no span was delivered twice -/
theorem dedupRecs_of_nodup (rs : List Rec) (h : (rs.map recKey).Nodup) : dedupRecs rs = rs :=
  dedupRecsAux_of_nodup rs [] h (by simp)

theorem readable_append (a b : List Rec) : readable (a ++ b) = readable a ++ readable b := by
  simp [readable]

end SigModel.Lemmas.C12
