/-
Helper lemmas for C20, alert evaluation across job lifetimes (Model/AlertJob.lean).  Core Lean only.
-/
import SigModel.Model.AlertJob
import SigModel.Lemmas.C20

namespace SigModel.Lemmas.C20J
open SigModel.Alert hiding Op
open SigModel.AlertJob
open SigModel.Lemmas.C20 (leading pof_firing pof_pending pof_normal pof_inactive windowState Barrier Inv
  inv_eval shouldSend_spaced evalStep_notified shouldSend_normal chainOk sends)

/-! ### what the two copies agree on -/

/-- the job's definition fields equal the row's (true after create / restart / edit) -/
def Sync (w : World) : Prop := w.job.window = w.window ∧ w.job.interval = w.interval

/-- two worlds that differ at most in the fields of the captured object that no decision reads -/
def DbEq (a b : World) : Prop :=
  a.st = b.st ∧ a.window = b.window ∧ a.interval = b.interval ∧ a.silence = b.silence ∧
  a.cooldown = b.cooldown ∧ a.now = b.now ∧ a.job.window = b.job.window ∧ a.job.interval = b.job.interval

theorem dbEq_refl (a : World) : DbEq a a := ⟨rfl, rfl, rfl, rfl, rfl, rfl, rfl, rfl⟩

theorem dbEq_symm {a b : World} (h : DbEq a b) : DbEq b a := by
  obtain ⟨h1, h2, h3, h4, h5, h6, h7, h8⟩ := h
  exact ⟨h1.symm, h2.symm, h3.symm, h4.symm, h5.symm, h6.symm, h7.symm, h8.symm⟩

theorem dbEq_trans {a b c : World} (h : DbEq a b) (g : DbEq b c) : DbEq a c := by
  obtain ⟨h1, h2, h3, h4, h5, h6, h7, h8⟩ := h
  obtain ⟨g1, g2, g3, g4, g5, g6, g7, g8⟩ := g
  exact ⟨h1.trans g1, h2.trans g2, h3.trans g3, h4.trans g4, h5.trans g5, h6.trans g6, h7.trans g7, h8.trans g8⟩

theorem jobCfg_of_dbEq {a b : World} (h : DbEq a b) : jobCfg a = jobCfg b := by
  obtain ⟨_, _, _, h4, h5, _, h7, h8⟩ := h
  simp [jobCfg, h4, h5, h7, h8]

theorem sync_step (w : World) (op : Op) (h : Sync w) : Sync (step w op).1 := by
  cases op with
  | eval m ok => exact h
  | tick k => exact h
  | restart => exact ⟨rfl, rfl⟩
  | edit win int =>
    by_cases ha : editAccepted win int = true
    · simp only [step, ha, if_true]; exact ⟨rfl, rfl⟩
    · simp only [step, ha]; exact h
  | silence k =>
    by_cases ha : silenceAccepted k = true
    · simp only [step, ha, if_true]; exact h
    · simp only [step, ha]; exact h
  | unsilence => exact h

/-- one operation cannot tell such worlds apart -/
theorem dbEq_step {a b : World} (op : Op) (h : DbEq a b) :
    (step a op).2 = (step b op).2 ∧ DbEq (step a op).1 (step b op).1 := by
  have hc := jobCfg_of_dbEq h
  obtain ⟨h1, h2, h3, h4, h5, h6, h7, h8⟩ := h
  cases op with
  | eval m ok => simp [step, DbEq, hc, h1, h2, h3, h4, h5, h6, h7, h8]
  | tick k => simp [step, DbEq, h1, h2, h3, h4, h5, h6, h7, h8]
  | restart => simp [step, DbEq, capture, h1, h2, h3, h4, h5, h6]
  | edit win int =>
    by_cases ha : editAccepted win int = true
    · simp [step, ha, DbEq, capture, h1, h4, h5, h6]
    · simp [step, ha, DbEq, h1, h2, h3, h4, h5, h6, h7, h8]
  | silence k =>
    by_cases ha : silenceAccepted k = true
    · simp [step, ha, DbEq, h1, h2, h3, h5, h6, h7, h8]
    · simp [step, ha, DbEq, h1, h2, h3, h4, h5, h6, h7, h8]
  | unsilence => simp [step, DbEq, h1, h2, h3, h5, h6, h7, h8]

theorem dbEq_run (ops : List Op) {a b : World} (h : DbEq a b) :
    (run a ops).2 = (run b ops).2 ∧ DbEq (run a ops).1 (run b ops).1 := by
  induction ops generalizing a b with
  | nil => exact ⟨rfl, h⟩
  | cons op ops ih =>
    obtain ⟨h1, h2⟩ := dbEq_step op h
    obtain ⟨g1, g2⟩ := ih h2
    exact ⟨by simp [run, h1, g1], by simpa [run] using g2⟩

/-- re-creating the job of a synchronised world changes nothing a decision reads -/
theorem dbEq_restart (w : World) (h : Sync w) : DbEq w (step w .restart).1 :=
  ⟨rfl, rfl, rfl, rfl, rfl, rfl, h.1, h.2⟩

def isRestart : Op → Bool
  | .restart => true
  | _ => false

/-- the operation list with every job re-creation by restart removed -/
def eraseRestarts (ops : List Op) : List Op := ops.filter (fun op => !isRestart op)

theorem run_erase (ops : List Op) (w : World) (h : Sync w) :
    (run w ops).2 = (run w (eraseRestarts ops)).2 ∧ DbEq (run w ops).1 (run w (eraseRestarts ops)).1 := by
  induction ops generalizing w with
  | nil => exact ⟨rfl, dbEq_refl _⟩
  | cons op ops ih =>
    by_cases hr : isRestart op = true
    · have hop : op = .restart := by cases op <;> simp [isRestart] at hr ⊢
      subst hop
      have he : eraseRestarts (Op.restart :: ops) = eraseRestarts ops := by simp [eraseRestarts, isRestart]
      rw [he]
      obtain ⟨i1, i2⟩ := ih (step w .restart).1 (sync_step w .restart h)
      obtain ⟨d1, d2⟩ := dbEq_run (eraseRestarts ops) (dbEq_symm (dbEq_restart w h))
      refine ⟨?_, ?_⟩
      · have : (run w (Op.restart :: ops)).2 = (run (step w .restart).1 ops).2 := by simp [run, step]
        rw [this, i1, d1]
      · have : (run w (Op.restart :: ops)).1 = (run (step w .restart).1 ops).1 := by simp [run]
        rw [this]
        exact dbEq_trans i2 d2
    · have he : eraseRestarts (op :: ops) = op :: eraseRestarts ops := by simp [eraseRestarts, hr]
      rw [he]
      obtain ⟨i1, i2⟩ := ih (step w op).1 (sync_step w op h)
      exact ⟨by simp [run, i1], by simpa [run] using i2⟩

/-! ### the window function over runs with restarts -/

def isEdit : Op → Bool
  | .edit _ _ => true
  | _ => false

/-- outcomes of the evaluations of an operation list, newest first -/
def outcomes (ops : List Op) : List Bool :=
  (ops.filterMap (fun op => match op with | .eval m _ => some m | _ => none)).reverse

def opOutcome : Op → List Bool
  | .eval m _ => [m]
  | _ => []

theorem outcomes_cons (op : Op) (ops : List Op) : outcomes (op :: ops) = outcomes ops ++ opOutcome op := by
  cases op <;> simp [outcomes, opOutcome]

/-- the database part of a world as a system of the single-lifetime model -/
def sysOf (w : World) : Sys := { st := w.st, now := w.now }

structure InvW (n : Nat) (w : World) (os : List Bool) : Prop where
  inv : Inv n (sysOf w) os
  sync : Sync w
  n_eq : w.window / w.interval = n

theorem invW_step (n : Nat) (w : World) (os : List Bool) (op : Op) (hne : isEdit op = false)
    (h : InvW n w os) : InvW n (step w op).1 (opOutcome op ++ os) := by
  cases op with
  | eval m ok =>
    have hn : (jobCfg w).n = n := by
      have := h.sync
      simp only [Cfg.n, jobCfg, this.1, this.2]
      exact h.n_eq
    have := inv_eval (jobCfg w) (sysOf w) os m ok (hn ▸ h.inv)
    rw [hn] at this
    exact ⟨⟨this.lead, this.state⟩, h.sync, h.n_eq⟩
  | tick k => exact ⟨⟨h.inv.lead, h.inv.state⟩, h.sync, h.n_eq⟩
  | restart => exact ⟨⟨h.inv.lead, h.inv.state⟩, ⟨rfl, rfl⟩, h.n_eq⟩
  | edit a b => simp [isEdit] at hne
  | silence k =>
    by_cases ha : silenceAccepted k = true
    · simp only [step, ha, if_true, opOutcome, List.nil_append]
      exact ⟨⟨h.inv.lead, h.inv.state⟩, h.sync, h.n_eq⟩
    · simp only [step, ha, opOutcome, List.nil_append]
      exact h
  | unsilence => exact ⟨⟨h.inv.lead, h.inv.state⟩, h.sync, h.n_eq⟩

theorem invW_run (n : Nat) (ops : List Op) (w : World) (os : List Bool)
    (hno : ∀ op ∈ ops, isEdit op = false) (h : InvW n w os) :
    InvW n (run w ops).1 (outcomes ops ++ os) := by
  induction ops generalizing w os with
  | nil => simpa [run, outcomes] using h
  | cons op ops ih =>
    have h1 := invW_step n w os op (hno op (List.mem_cons_self ..)) h
    have := ih (step w op).1 (opOutcome op ++ os) (fun o ho => hno o (List.mem_cons_of_mem _ ho)) h1
    rw [outcomes_cons, List.append_assoc]
    simpa [run] using this

/-- a synchronised world whose history has a barrier on top: state after a run without edits -/
theorem state_after_run (w : World) (ops : List Op) (hs : Sync w) (hb : Barrier w.st.hist)
    (hno : ∀ op ∈ ops, isEdit op = false) (hne : outcomes ops ≠ []) :
    (run w ops).1.st.state = windowState (w.window / w.interval) (outcomes ops) := by
  have h0 : InvW (w.window / w.interval) w [] :=
    ⟨⟨by simpa [Barrier, leading, sysOf] using hb, fun h => absurd rfl h⟩, hs, rfl⟩
  have := invW_run _ ops w [] hno h0
  simp only [List.append_nil] at this
  exact this.inv.state hne

/-! ### notifications over runs with restarts, edits and silence changes -/

/-- delivered notifications are at least the cool-down apart -/
def SpacedCd (cd : Nat) (a b : Out) : Prop :=
  a.notified = true → b.notified = true → a.time + cd ≤ b.time

theorem cooldown_step (w : World) (op : Op) : (step w op).1.cooldown = w.cooldown := by
  cases op with
  | eval m ok => rfl
  | tick k => rfl
  | restart => rfl
  | edit a b => by_cases ha : editAccepted a b = true <;> simp [step, ha]
  | silence k => by_cases ha : silenceAccepted k = true <;> simp [step, ha]
  | unsilence => rfl

/-- operations other than an evaluation leave the notification row alone and never move time back -/
theorem noneval_step (w : World) (op : Op) (h : (step w op).2 = none) :
    (step w op).1.st.lastSentTime = w.st.lastSentTime ∧
    (step w op).1.st.lastSentState = w.st.lastSentState ∧ w.now ≤ (step w op).1.now := by
  cases op with
  | eval m ok => simp [step] at h
  | tick k => exact ⟨rfl, rfl, Nat.le_add_right _ _⟩
  | restart => exact ⟨rfl, rfl, Nat.le_refl _⟩
  | edit a b =>
    by_cases ha : editAccepted a b = true
    · simp [step, ha, configChange]
    · simp [step, ha]
  | silence k =>
    by_cases ha : silenceAccepted k = true
    · simp [step, ha]
    · simp [step, ha]
  | unsilence => exact ⟨rfl, rfl, Nat.le_refl _⟩

theorem step_out_none_or_eval (w : World) (op : Op) :
    (step w op).2 = none ∨ ∃ m ok, op = .eval m ok := by
  cases op with
  | eval m ok => exact Or.inr ⟨m, ok, rfl⟩
  | tick k => exact Or.inl rfl
  | restart => exact Or.inl rfl
  | edit a b => by_cases ha : editAccepted a b = true <;> simp [step, ha]
  | silence k => by_cases ha : silenceAccepted k = true <;> simp [step, ha]
  | unsilence => exact Or.inl rfl

theorem spaced_run (ops : List Op) (w : World)
    (hle : ∀ t, w.st.lastSentTime = some t → t ≤ w.now) :
    (∀ o ∈ (run w ops).2, w.now ≤ o.time ∧
        (o.notified = true → ∀ t, w.st.lastSentTime = some t → t + w.cooldown ≤ o.time)) ∧
    (run w ops).2.Pairwise (SpacedCd w.cooldown) := by
  induction ops generalizing w with
  | nil => simp [run]
  | cons op ops ih =>
    rcases step_out_none_or_eval w op with hnone | ⟨m, ok, rfl⟩
    · obtain ⟨e1, _, e3⟩ := noneval_step w op hnone
      have hcd := cooldown_step w op
      have hle' : ∀ t, (step w op).1.st.lastSentTime = some t → t ≤ (step w op).1.now := by
        intro t ht; rw [e1] at ht; have := hle t ht; omega
      obtain ⟨ha, hb⟩ := ih (step w op).1 hle'
      have hout : (run w (op :: ops)).2 = (run (step w op).1 ops).2 := by simp [run, hnone]
      rw [hout]
      rw [hcd] at ha hb
      refine ⟨?_, hb⟩
      intro o ho
      obtain ⟨h1, h2⟩ := ha o ho
      exact ⟨by omega, fun hn t ht => h2 hn t (by rw [e1]; exact ht)⟩
    · let r := evalStep (jobCfg w) w.st w.now m ok
      have hnow : (step w (.eval m ok)).1.now = w.now := rfl
      have hcd : (step w (.eval m ok)).1.cooldown = w.cooldown := rfl
      have hlst : (step w (.eval m ok)).1.st.lastSentTime =
          if r.2.notified then some w.now else w.st.lastSentTime := rfl
      have hle' : ∀ t, (step w (.eval m ok)).1.st.lastSentTime = some t → t ≤ (step w (.eval m ok)).1.now := by
        intro t ht
        rw [hlst] at ht
        rw [hnow]
        by_cases hn : r.2.notified = true
        · simp [hn] at ht; omega
        · simp [hn] at ht; exact hle t ht
      obtain ⟨ha, hb⟩ := ih (step w (.eval m ok)).1 hle'
      rw [hcd] at ha hb
      have hout : (run w (.eval m ok :: ops)).2 = r.2 :: (run (step w (.eval m ok)).1 ops).2 := by
        simp [run, step, r]
      rw [hout]
      have hspace : r.2.notified = true → ∀ t, w.st.lastSentTime = some t → t + w.cooldown ≤ w.now := by
        intro hn t ht
        exact (shouldSend_spaced (cfg := jobCfg w) (evalStep_notified hn).1 ht).1
      constructor
      · intro o ho
        rcases List.mem_cons.1 ho with rfl | ho
        · exact ⟨Nat.le_refl _, fun hn t ht => hspace hn t ht⟩
        · obtain ⟨h1, h2⟩ := ha o ho
          rw [hnow] at h1
          refine ⟨h1, ?_⟩
          intro hn t ht
          by_cases hh : r.2.notified = true
          · have := h2 hn w.now (by rw [hlst]; simp [hh])
            have := hle t ht
            omega
          · exact h2 hn t (by rw [hlst]; simp [hh]; exact ht)
      · refine List.pairwise_cons.2 ⟨?_, hb⟩
        intro b hb' hn hbn
        exact (ha b hb').2 hbn w.now (by rw [hlst]; simp [hn])

theorem chain_run (ops : List Op) (w : World) (hp : w.st.lastSentState ≠ .pending) :
    chainOk w.st.lastSentState (sends (run w ops).2) := by
  induction ops generalizing w with
  | nil => simp [run, sends, chainOk]
  | cons op ops ih =>
    rcases step_out_none_or_eval w op with hnone | ⟨m, ok, rfl⟩
    · obtain ⟨_, e2, _⟩ := noneval_step w op hnone
      have hout : (run w (op :: ops)).2 = (run (step w op).1 ops).2 := by simp [run, hnone]
      rw [hout, ← e2]
      exact ih (step w op).1 (by rw [e2]; exact hp)
    · let r := evalStep (jobCfg w) w.st w.now m ok
      have hout : (run w (.eval m ok :: ops)).2 = r.2 :: (run (step w (.eval m ok)).1 ops).2 := by
        simp [run, step, r]
      have hls : (step w (.eval m ok)).1.st.lastSentState =
          if r.2.notified then r.2.state else w.st.lastSentState := rfl
      rw [hout]
      by_cases hn : r.2.notified = true
      · obtain ⟨hs, _, hst⟩ := evalStep_notified hn
        have hp' : (step w (.eval m ok)).1.st.lastSentState ≠ .pending := by
          rw [hls]; simp only [hn, if_true]
          rcases hst with h | h <;> (rw [h]; decide)
        have := ih (step w (.eval m ok)).1 hp'
        rw [hls] at this
        simp only [hn, if_true] at this
        simp only [sends, List.filter_cons, hn, if_true, chainOk]
        refine ⟨?_, this⟩
        rcases hst with h | h
        · exact Or.inl h
        · right
          refine ⟨h, ?_⟩
          have hs' : shouldSend (jobCfg w) w.st .normal w.now = true := by
            have : r.2.state = .normal := h
            rw [← this]; exact hs
          exact shouldSend_normal hs' hp
      · have hp' : (step w (.eval m ok)).1.st.lastSentState ≠ .pending := by
          rw [hls]; simp only [hn]; exact hp
        have := ih (step w (.eval m ok)).1 hp'
        rw [hls] at this
        simp only [hn] at this
        simpa [sends, List.filter_cons, hn] using this

theorem run_append (w : World) (a b : List Op) :
    run w (a ++ b) = ((run (run w a).1 b).1, (run w a).2 ++ (run (run w a).1 b).2) := by
  induction a generalizing w with
  | nil => simp [run]
  | cons op a ih => simp [run, ih, List.append_assoc]

end SigModel.Lemmas.C20J
