/-
C05 helper lemmas, part f: the sort comparator.  A three-way comparison that is antisymmetric ("flip") and
whose "not greater" is transitive lifts lexicographically to a strict weak order; `compareValues` is such a
comparison (it factors through an exact key).  Core Lean only.
-/
import SigModel.Model.SortCmp
set_option linter.unusedSimpArgs false
set_option linter.unusedVariables false

namespace SigModel.Lemmas.C05
open SigModel.SortCmp

/-! ### three-way comparisons -/

@[simp] theorem flip_less : Cmp.less.flip = .greater := rfl
@[simp] theorem flip_greater : Cmp.greater.flip = .less := rfl
@[simp] theorem flip_equal : Cmp.equal.flip = .equal := rfl
@[simp] theorem flip_flip (c : Cmp) : c.flip.flip = c := by cases c <;> rfl
@[simp] theorem flip_eq_equal (c : Cmp) : c.flip = .equal ↔ c = .equal := by cases c <;> simp [Cmp.flip]
@[simp] theorem flip_eq_less (c : Cmp) : c.flip = .less ↔ c = .greater := by cases c <;> simp [Cmp.flip]
@[simp] theorem flip_eq_greater (c : Cmp) : c.flip = .greater ↔ c = .less := by cases c <;> simp [Cmp.flip]

/-- three-way comparison from a strict order -/
def c3 {α : Type} [DecidableEq α] (lt : α → α → Bool) (a b : α) : Cmp :=
  if a = b then .equal else if lt a b then .less else .greater

structure StrictTotal {α : Type} (lt : α → α → Bool) : Prop where
  irrefl : ∀ a, lt a a = false
  trans : ∀ a b c, lt a b = true → lt b c = true → lt a c = true
  total : ∀ a b, a ≠ b → lt a b = true ∨ lt b a = true

theorem c3_flip {α : Type} [DecidableEq α] {lt : α → α → Bool} (h : StrictTotal lt) (a b : α) :
    c3 lt b a = (c3 lt a b).flip := by
  unfold c3
  by_cases hab : a = b
  · subst hab; simp [Cmp.flip]
  · have hba : ¬ b = a := fun e => hab e.symm
    simp only [hab, hba, if_false]
    cases h1 : lt a b <;> cases h2 : lt b a <;> simp [Cmp.flip]
    · rcases h.total a b hab with h | h
      · rw [h] at h1; cases h1
      · rw [h] at h2; cases h2
    · have := h.trans a b a h1 h2
      rw [h.irrefl] at this; cases this

theorem c3_le_trans {α : Type} [DecidableEq α] {lt : α → α → Bool} (h : StrictTotal lt) (a b c : α)
    (h1 : c3 lt a b ≠ .greater) (h2 : c3 lt b c ≠ .greater) : c3 lt a c ≠ .greater := by
  unfold c3 at *
  by_cases hab : a = b
  · subst hab; exact h2
  · by_cases hbc : b = c
    · subst hbc; exact h1
    · simp only [hab, hbc, if_false] at h1 h2
      have l1 : lt a b = true := by cases hl : lt a b <;> simp [hl] at h1 ⊢
      have l2 : lt b c = true := by cases hl : lt b c <;> simp [hl] at h2 ⊢
      have l3 := h.trans a b c l1 l2
      by_cases hac : a = c
      · simp [hac]
      · simp [hac, l3]

/-! ### the two strict orders -/

theorem ratLt_strictTotal : StrictTotal (fun (a b : Rat) => decide (a < b)) where
  irrefl := by intro a; simp [Rat.lt_irrefl]
  trans := by
    intro a b c h1 h2
    simp only [decide_eq_true_eq] at *
    grind
  total := by
    intro a b hab
    simp only [decide_eq_true_eq]
    grind

/-- the place of a float64 in the sort order: -Inf < finite < +Inf < NaN -/
def fltClass : Flt → Nat
  | .ninf => 0
  | .fin _ => 1
  | .pinf => 2
  | .nan => 3

/-- the total order `compareFloat` implements -/
def fltLt : Flt → Flt → Bool
  | .fin a, .fin b => decide (a < b)
  | a, b => decide (fltClass a < fltClass b)

theorem fltLt_strictTotal : StrictTotal fltLt where
  irrefl := by intro a; cases a <;> simp [fltLt, fltClass, Rat.lt_irrefl]
  trans := by
    intro a b c h1 h2
    cases a <;> cases b <;> cases c <;> simp [fltLt, fltClass] at h1 h2 ⊢
    grind
  total := by
    intro a b hab
    cases a <;> cases b <;> simp [fltLt, fltClass] at hab ⊢
    grind

theorem compareFloat_eq_c3 (a b : Flt) : compareFloat a b = c3 fltLt a b := by
  cases a <;> cases b <;> simp [compareFloat, c3, Flt.eq, Flt.lt, Flt.isNaN, fltLt, fltClass]

theorem bytesLt_irrefl : ∀ a, bytesLt a a = false
  | [] => rfl
  | x :: xs => by simp [bytesLt, bytesLt_irrefl xs]

theorem bytesLt_trans : ∀ a b c, bytesLt a b = true → bytesLt b c = true → bytesLt a c = true
  | [], [], _, h, _ => by simp [bytesLt] at h
  | [], _ :: _, [], _, h => by simp [bytesLt] at h
  | [], _ :: _, _ :: _, _, _ => by simp [bytesLt]
  | _ :: _, [], _, h, _ => by simp [bytesLt] at h
  | _ :: _, _ :: _, [], _, h => by simp [bytesLt] at h
  | x :: xs, y :: ys, z :: zs, h1, h2 => by
    simp only [bytesLt] at h1 h2 ⊢
    by_cases hxy : x < y
    · by_cases hyz : y < z
      · have : x < z := by omega
        simp [this]
      · simp only [hyz, if_false] at h2
        by_cases hzy : z < y
        · simp [hzy] at h2
        · have : y = z := by omega
          subst this; simp [hxy]
    · simp only [hxy, if_false] at h1
      by_cases hyx : y < x
      · simp [hyx] at h1
      · have : x = y := by omega
        subst this
        simp only [hyx, if_false] at h1
        by_cases hxz : x < z
        · simp [hxz]
        · simp only [hxz, if_false] at h2 ⊢
          by_cases hzx : z < x
          · simp [hzx] at h2
          · simp only [hzx, if_false] at h2 ⊢
            exact bytesLt_trans xs ys zs h1 h2

theorem bytesLt_total : ∀ a b, a ≠ b → bytesLt a b = true ∨ bytesLt b a = true
  | [], [], h => absurd rfl h
  | [], _ :: _, _ => by simp [bytesLt]
  | _ :: _, [], _ => by simp [bytesLt]
  | x :: xs, y :: ys, h => by
    simp only [bytesLt]
    by_cases hxy : x < y
    · simp [hxy]
    · by_cases hyx : y < x
      · simp [hxy, hyx]
      · have : x = y := by omega
        subst this
        simp only [hxy, if_false]
        have hne : xs ≠ ys := by intro e; apply h; rw [e]
        exact bytesLt_total xs ys hne

theorem bytesLt_strictTotal : StrictTotal bytesLt := ⟨bytesLt_irrefl, bytesLt_trans, bytesLt_total⟩

/-! ### the exact key -/

inductive K where
  | num (f : Flt)
  | str (b : List Nat)
  | other
deriving DecidableEq

def flipIf (asc : Bool) (c : Cmp) : Cmp := if asc then c else c.flip

/-- the comparison `compareValues` implements: the float64 order on numbers (NaN last), byte-wise on strings,
rank other last in both directions -/
def kcmp (asc : Bool) : K → K → Cmp
  | .other, .other => .equal
  | .other, _ => .greater
  | _, .other => .less
  | .num p, .num q => flipIf asc (c3 fltLt p q)
  | .num _, .str _ => flipIf asc .less
  | .str _, .num _ => flipIf asc .greater
  | .str s, .str t => flipIf asc (c3 bytesLt s t)

theorem flipIf_flip (asc : Bool) (c : Cmp) : (flipIf asc c).flip = flipIf asc c.flip := by
  cases asc <;> simp [flipIf]

@[simp] theorem flipIf_true (c : Cmp) : flipIf true c = c := rfl
@[simp] theorem flipIf_false (c : Cmp) : flipIf false c = c.flip := rfl

theorem kcmp_flip (asc : Bool) (x y : K) : kcmp asc y x = (kcmp asc x y).flip := by
  cases x <;> cases y <;> simp only [kcmp, flipIf_flip, flip_less, flip_greater, flip_equal]
  · rename_i p q; rw [c3_flip fltLt_strictTotal p q]
  · rename_i s t; rw [c3_flip bytesLt_strictTotal s t]

theorem c3_ge_trans {α : Type} [DecidableEq α] {lt : α → α → Bool} (h : StrictTotal lt) (a b c : α)
    (h1 : c3 lt a b ≠ .less) (h2 : c3 lt b c ≠ .less) : c3 lt a c ≠ .less := by
  have e1 : c3 lt b a ≠ .greater := by rw [c3_flip h a b]; simpa using h1
  have e2 : c3 lt c b ≠ .greater := by rw [c3_flip h b c]; simpa using h2
  have := c3_le_trans h c b a e2 e1
  rw [c3_flip h a c] at this
  simpa using this

theorem kcmp_le_trans (asc : Bool) (x y z : K) (h1 : kcmp asc x y ≠ .greater) (h2 : kcmp asc y z ≠ .greater) :
    kcmp asc x z ≠ .greater := by
  cases x <;> cases y <;> cases z <;> cases asc <;>
    simp [kcmp] at h1 h2 ⊢
  all_goals first
    | exact c3_le_trans fltLt_strictTotal _ _ _ h1 h2
    | exact c3_le_trans bytesLt_strictTotal _ _ _ h1 h2
    | exact c3_ge_trans fltLt_strictTotal _ _ _ h1 h2
    | exact c3_ge_trans bytesLt_strictTotal _ _ _ h1 h2

/-! ### lexicographic lift -/

/-- first non-equal key decides -/
def klex : List Bool → List K → List K → Cmp
  | asc :: as, x :: xs, y :: ys =>
    match kcmp asc x y with
    | .equal => klex as xs ys
    | c => c
  | _, _, _ => .equal

theorem klex_flip : ∀ (as : List Bool) (xs ys : List K), klex as ys xs = (klex as xs ys).flip
  | [], _, _ => by simp [klex, Cmp.flip]
  | _ :: _, [], [] => by simp [klex, Cmp.flip]
  | _ :: _, [], _ :: _ => by simp [klex, Cmp.flip]
  | _ :: _, _ :: _, [] => by simp [klex, Cmp.flip]
  | asc :: as, x :: xs, y :: ys => by
    simp only [klex]
    rw [kcmp_flip asc x y]
    cases h : kcmp asc x y <;> simp [Cmp.flip, klex_flip as xs ys]

/-- derived: equal composes, less composes with not-greater -/
theorem kcmp_derived (asc : Bool) (x y z : K) :
    (kcmp asc x y = .equal → kcmp asc y z = .equal → kcmp asc x z = .equal) ∧
    (kcmp asc x y = .less → kcmp asc y z ≠ .greater → kcmp asc x z = .less) ∧
    (kcmp asc x y ≠ .greater → kcmp asc y z = .less → kcmp asc x z = .less) := by
  have fl := kcmp_flip asc
  have tr := kcmp_le_trans asc
  refine ⟨?_, ?_, ?_⟩
  · intro h1 h2
    have a := tr x y z (by rw [h1]; simp) (by rw [h2]; simp)
    have b := tr z y x (by rw [fl y z, h2]; simp [Cmp.flip]) (by rw [fl x y, h1]; simp [Cmp.flip])
    rw [fl x z] at b
    cases h : kcmp asc x z <;> simp [h, Cmp.flip] at a b ⊢
  · intro h1 h2
    have a := tr x y z (by rw [h1]; simp) h2
    cases h : kcmp asc x z with
    | less => rfl
    | greater => exact absurd h a
    | equal =>
      exfalso
      have hzx : kcmp asc z x ≠ .greater := by rw [fl x z, h]; simp [Cmp.flip]
      have hyx := tr y z x h2 hzx
      rw [fl x y, h1] at hyx
      simp [Cmp.flip] at hyx
  · intro h1 h2
    have a := tr x y z h1 (by rw [h2]; simp)
    cases h : kcmp asc x z with
    | less => rfl
    | greater => exact absurd h a
    | equal =>
      exfalso
      have hzx : kcmp asc z x ≠ .greater := by rw [fl x z, h]; simp [Cmp.flip]
      have hzy := tr z x y hzx h1
      rw [fl y z, h2] at hzy
      simp [Cmp.flip] at hzy

theorem klex_le_trans : ∀ (as : List Bool) (xs ys zs : List K), xs.length = as.length → ys.length = as.length →
    zs.length = as.length → klex as xs ys ≠ .greater → klex as ys zs ≠ .greater → klex as xs zs ≠ .greater
  | [], _, _, _, _, _, _, _, _ => by simp [klex]
  | _ :: _, [], _, _, h, _, _, _, _ => by simp at h
  | _ :: _, _ :: _, [], _, _, h, _, _, _ => by simp at h
  | _ :: _, _ :: _, _ :: _, [], _, _, h, _, _ => by simp at h
  | asc :: as, x :: xs, y :: ys, z :: zs, hx, hy, hz, h1, h2 => by
    have d := kcmp_derived asc x y z
    simp only [klex] at h1 h2 ⊢
    simp only [List.length_cons, Nat.add_right_cancel_iff] at hx hy hz
    cases hxy : kcmp asc x y with
    | greater => simp [hxy] at h1
    | less =>
      have hyz : kcmp asc y z ≠ .greater := by
        intro hg; simp [hg] at h2
      simp [d.2.1 hxy hyz]
    | equal =>
      simp only [hxy] at h1
      cases hyz : kcmp asc y z with
      | greater => simp [hyz] at h2
      | less => simp [d.2.2 (by rw [hxy]; simp) hyz]
      | equal =>
        simp only [hyz] at h2
        simp only [d.1 hxy hyz]
        exact klex_le_trans as xs ys zs hx hy hz h1 h2

/-- the strict-weak-order axioms for the exact lexicographic comparison -/
theorem klex_swo (as : List Bool) (xs ys zs : List K) (hx : xs.length = as.length) (hy : ys.length = as.length)
    (hz : zs.length = as.length) :
    klex as xs xs ≠ .less ∧
    (klex as xs ys = .less → klex as ys zs = .less → klex as xs zs = .less) ∧
    (klex as xs ys ≠ .less → klex as ys xs ≠ .less → klex as ys zs ≠ .less → klex as zs ys ≠ .less →
      klex as xs zs ≠ .less ∧ klex as zs xs ≠ .less) := by
  have fl := klex_flip as
  have tr := klex_le_trans as
  refine ⟨?_, ?_, ?_⟩
  · have := fl xs xs
    cases h : klex as xs xs <;> simp [h, Cmp.flip] at this ⊢
  · intro h1 h2
    have a := tr xs ys zs hx hy hz (by rw [h1]; simp) (by rw [h2]; simp)
    cases h : klex as xs zs with
    | less => rfl
    | greater => exact absurd h a
    | equal =>
      exfalso
      have hzx : klex as zs xs ≠ .greater := by rw [fl xs zs, h]; simp [Cmp.flip]
      have hzy := tr zs xs ys hz hx hy hzx (by rw [h1]; simp)
      rw [fl ys zs, h2] at hzy
      simp [Cmp.flip] at hzy
  · intro h1 h2 h3 h4
    have e1 : klex as xs ys ≠ .greater := by
      intro hg; apply h2; rw [fl xs ys, hg]; rfl
    have e2 : klex as ys zs ≠ .greater := by
      intro hg; apply h4; rw [fl ys zs, hg]; rfl
    have e3 : klex as zs ys ≠ .greater := by
      intro hg; apply h3; rw [← flip_flip (klex as ys zs), ← fl ys zs, hg]; rfl
    have e4 : klex as ys xs ≠ .greater := by
      intro hg; apply h1; rw [← flip_flip (klex as xs ys), ← fl xs ys, hg]; rfl
    have a := tr xs ys zs hx hy hz e1 e2
    have b := tr zs ys xs hz hy hx e3 e4
    constructor
    · intro hl; apply b; rw [fl xs zs, hl]; rfl
    · intro hl; apply a; rw [fl zs xs, hl]; rfl

end SigModel.Lemmas.C05
