/-
C09 helper lemmas, part 3: downsampling and the aggregation folds.
-/
import SigModel.Lemmas.C09b

namespace SigModel.Lemmas.C09
open SigModel.Promql

/-! ### dedup -/

theorem mem_dedup {α} [DecidableEq α] {a : α} {l : List α} : a ∈ dedup l ↔ a ∈ l := by
  induction l with
  | nil => simp [dedup]
  | cons x l ih =>
    simp only [dedup]
    by_cases h : x ∈ l
    · simp only [h, if_true, ih, List.mem_cons]
      constructor
      · exact Or.inr
      · rintro (e | m)
        · subst e; exact h
        · exact m
    · simp [h, ih]

theorem nodup_dedup {α} [DecidableEq α] (l : List α) : (dedup l).Nodup := by
  induction l with
  | nil => simp [dedup]
  | cons x l ih =>
    simp only [dedup]
    by_cases h : x ∈ l
    · simpa [h] using ih
    · simp only [h, if_false, List.nodup_cons]
      exact ⟨fun m => h (mem_dedup.1 m), ih⟩

theorem dedup_eq_self {α} [DecidableEq α] {l : List α} (h : l.Nodup) : dedup l = l := by
  induction l with
  | nil => rfl
  | cons x l ih =>
    rw [List.nodup_cons] at h
    simp [dedup, h.1, ih h.2]

theorem filter_eq_of_nodup {α} [DecidableEq α] {l : List α} (h : l.Nodup) (t : α) :
    l.filter (fun b => decide (b = t)) = if t ∈ l then [t] else [] := by
  induction l with
  | nil => simp
  | cons x l ih =>
    rw [List.nodup_cons] at h
    have ih' := ih h.2
    by_cases e : x = t
    · subst e
      simp [ih', h.1]
    · have e' : ¬ t = x := fun c => e c.symm
      simp [e, e', ih']

/-! ### Series.Downsample -/

def mkEntry (fn : Fn) (step t : Nat) (pts : List (Nat × Int)) : Entry :=
  { t := t, val := reduceVals (dsFn fn) (samplesAt step t pts), cnt := (samplesAt step t pts).length }

theorem samplesAt_eq_nil_iff {step t : Nat} {pts : List (Nat × Int)} :
    samplesAt step t pts = [] ↔ t ∉ pts.map (fun p => bucket p.1 step) := by
  unfold samplesAt
  simp only [List.map_eq_nil_iff, List.filter_eq_nil_iff, List.mem_map, beq_iff_eq]
  constructor
  · rintro h ⟨p, hp, e⟩; exact h p hp e
  · intro h p hp e; exact h ⟨p, hp, e⟩

theorem dsSeries_filter (fn : Fn) (step t : Nat) (pts : List (Nat × Int)) :
    (dsSeries fn step pts).filter (fun e => decide (e.t = t))
      = if (samplesAt step t pts).isEmpty then [] else [mkEntry fn step t pts] := by
  unfold dsSeries
  rw [List.filter_map]
  have : ((fun e : Entry => decide (e.t = t)) ∘ fun b =>
      ({ t := b, val := reduceVals (dsFn fn) (samplesAt step b pts), cnt := (samplesAt step b pts).length } : Entry))
      = fun b => decide (b = t) := rfl
  rw [this, filter_eq_of_nodup (nodup_dedup _)]
  by_cases h : t ∈ pts.map (fun p => bucket p.1 step)
  · have h1 : samplesAt step t pts ≠ [] := fun e => (samplesAt_eq_nil_iff.1 e) h
    have h2 : (samplesAt step t pts).isEmpty = false := by simpa using h1
    simp only [mem_dedup, h, if_true, h2]
    rfl
  · have h1 : samplesAt step t pts = [] := samplesAt_eq_nil_iff.2 h
    simp [mem_dedup, h, h1]

/-! ### entriesAt = one running entry per member series -/

/-- the series whose id is mapped to result key `g` and that have a sample in bucket `t` -/
def members (q : Query) (ss : List Series) (g : Str) (t : Nat) : List Series :=
  ss.filter (fun s => decide (groupOf q (sidOf q s) = g) && !(samplesAt q.step t s.pts).isEmpty)

theorem entriesAt_eq (q : Query) (ss : List Series) (g : Str) (t : Nat) :
    entriesAt q ss g t = (members q ss g t).map (fun s => (sidOf q s, mkEntry q.fn q.step t s.pts)) := by
  unfold entriesAt members
  induction ss with
  | nil => rfl
  | cons s ss ih =>
    simp only [List.flatMap_cons, List.filter_cons]
    rw [ih]
    by_cases hg : groupOf q (sidOf q s) = g
    · simp only [hg, if_true, decide_true, Bool.true_and]
      rw [dsSeries_filter]
      cases hs : (samplesAt q.step t s.pts).isEmpty <;> simp
    · simp [hg]

theorem members_isEmpty (q : Query) (ss : List Series) (g : Str) (t : Nat) :
    (entriesAt q ss g t).isEmpty = (members q ss g t).isEmpty := by
  rw [entriesAt_eq]; simp

/-! ### min / max folds -/

theorem foldl_min_le (xs : List Int) (a : Int) :
    xs.foldl (fun r v => if v < r then v else r) a ≤ a ∧
    ∀ v ∈ xs, xs.foldl (fun r v => if v < r then v else r) a ≤ v := by
  induction xs generalizing a with
  | nil => simp
  | cons x xs ih =>
    simp only [List.foldl_cons]
    by_cases h : x < a
    · simp only [h, if_true]
      have := ih x
      refine ⟨by omega, ?_⟩
      intro v hv
      rcases List.mem_cons.1 hv with e | m
      · subst e; exact this.1
      · exact this.2 v m
    · simp only [h, if_false]
      have := ih a
      refine ⟨this.1, ?_⟩
      intro v hv
      rcases List.mem_cons.1 hv with e | m
      · subst e; omega
      · exact this.2 v m

theorem foldl_max_ge (xs : List Int) (a : Int) :
    a ≤ xs.foldl (fun r v => if v > r then v else r) a ∧
    ∀ v ∈ xs, v ≤ xs.foldl (fun r v => if v > r then v else r) a := by
  induction xs generalizing a with
  | nil => simp
  | cons x xs ih =>
    simp only [List.foldl_cons]
    by_cases h : x > a
    · simp only [h, if_true]
      have := ih x
      refine ⟨by omega, ?_⟩
      intro v hv
      rcases List.mem_cons.1 hv with e | m
      · subst e; exact this.1
      · exact this.2 v m
    · simp only [h, if_false]
      have := ih a
      refine ⟨this.1, ?_⟩
      intro v hv
      rcases List.mem_cons.1 hv with e | m
      · subst e; omega
      · exact this.2 v m

theorem minL_le {L : List Int} {v : Int} (h : v ∈ L) : minL L ≤ v := by
  cases L with
  | nil => cases h
  | cons x xs =>
    rcases List.mem_cons.1 h with e | m
    · subst e; exact (foldl_min_le xs v).1
    · exact (foldl_min_le xs x).2 v m

theorem le_maxL {L : List Int} {v : Int} (h : v ∈ L) : v ≤ maxL L := by
  cases L with
  | nil => cases h
  | cons x xs =>
    rcases List.mem_cons.1 h with e | m
    · subst e; exact (foldl_max_ge xs v).1
    · exact (foldl_max_ge xs x).2 v m

theorem mul_length_le_sum {m : Int} {L : List Int} (h : ∀ v ∈ L, m ≤ v) : m * (L.length : Int) ≤ L.sum := by
  induction L with
  | nil => simp
  | cons x L ih =>
    have h1 := h x (by simp)
    have h2 := ih (fun v hv => h v (by simp [hv]))
    simp only [List.length_cons, List.sum_cons]
    have : m * ((L.length + 1 : Nat) : Int) = m * (L.length : Int) + m := by
      rw [Int.natCast_add, Int.mul_add]; simp
    omega

theorem sum_le_mul_length {m : Int} {L : List Int} (h : ∀ v ∈ L, v ≤ m) : L.sum ≤ m * (L.length : Int) := by
  induction L with
  | nil => simp
  | cons x L ih =>
    have h1 := h x (by simp)
    have h2 := ih (fun v hv => h v (by simp [hv]))
    simp only [List.length_cons, List.sum_cons]
    have : m * ((L.length + 1 : Nat) : Int) = m * (L.length : Int) + m := by
      rw [Int.natCast_add, Int.mul_add]; simp
    omega

/-- pooled bounds: if `m` is below every sample of every list, `m · (total number) ≤ total sum` -/
theorem mul_total_le {m : Int} {Ls : List (List Int)} (h : ∀ L ∈ Ls, ∀ v ∈ L, m ≤ v) :
    m * (((Ls.map List.length).sum : Nat) : Int) ≤ (Ls.map List.sum).sum := by
  induction Ls with
  | nil => simp
  | cons L Ls ih =>
    have h1 := mul_length_le_sum (h L (by simp))
    have h2 := ih (fun L' hL' => h L' (by simp [hL']))
    simp only [List.map_cons, List.sum_cons]
    rw [Int.natCast_add, Int.mul_add]
    omega

theorem total_le_mul {m : Int} {Ls : List (List Int)} (h : ∀ L ∈ Ls, ∀ v ∈ L, v ≤ m) :
    (Ls.map List.sum).sum ≤ m * (((Ls.map List.length).sum : Nat) : Int) := by
  induction Ls with
  | nil => simp
  | cons L Ls ih =>
    have h1 := sum_le_mul_length (h L (by simp))
    have h2 := ih (fun L' hL' => h L' (by simp [hL']))
    simp only [List.map_cons, List.sum_cons]
    rw [Int.natCast_add, Int.mul_add]
    omega

end SigModel.Lemmas.C09
