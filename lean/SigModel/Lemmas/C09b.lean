/-
C09 helper lemmas, part 2: the rendered group key determines the PromQL key (injectivity on safe label
sets), and the normal form of the model's aggregation (`entriesAt` = one running entry per member series).
-/
import SigModel.Lemmas.C09

namespace SigModel.Lemmas.C09
open SigModel.Promql

/-! ### injectivity of the rendering -/

theorem splitOn_joinWith {c : Nat} {xs : List Str} (hne : xs ≠ []) (hx : ∀ x ∈ xs, c ∉ x) :
    splitOn c (joinWith c xs) = xs := by
  induction xs with
  | nil => exact absurd rfl hne
  | cons x r ih =>
    cases r with
    | nil => simpa [joinWith] using splitOn_notMem (hx x (by simp))
    | cons y r =>
      have : joinWith c (x :: y :: r) = x ++ c :: joinWith c (y :: r) := rfl
      rw [this, splitOn_append_sep (hx x (by simp)), ih (by simp) (fun z m => hx z (by simp [m]))]

theorem kvStr_ne_nil (kv : Str × Str) : kvStr kv ≠ [] := by simp [kvStr]

theorem comma_notMem_kvStr {kv : Str × Str} (h1 : clean kv.1 = true) (h2 : cleanVal kv.2 = true) :
    cComma ∉ kvStr kv := by
  intro m
  simp only [kvStr, List.mem_append, List.mem_cons] at m
  rcases m with m | m | m
  · exact clean_comma h1 m
  · cases m
  · exact cleanVal_comma h2 m

theorem kvStr_inj {a b : Str × Str} (ha : clean a.1 = true) (hb : clean b.1 = true)
    (h : kvStr a = kvStr b) : a = b := by
  have := append_cons_inj (clean_colon ha) (clean_colon hb) (by simpa [kvStr] using h)
  exact Prod.ext this.1 this.2

theorem map_kvStr_inj {k1 k2 : Labels} (h1 : ∀ kv ∈ k1, clean kv.1 = true) (h2 : ∀ kv ∈ k2, clean kv.1 = true)
    (h : k1.map kvStr = k2.map kvStr) : k1 = k2 := by
  induction k1 generalizing k2 with
  | nil => cases k2 with
    | nil => rfl
    | cons b k2 => simp at h
  | cons a k1 ih =>
    cases k2 with
    | nil => simp at h
    | cons b k2 =>
      simp only [List.map_cons, List.cons.injEq] at h
      rw [kvStr_inj (h1 a (by simp)) (h2 b (by simp)) h.1,
        ih (fun kv m => h1 kv (by simp [m])) (fun kv m => h2 kv (by simp [m])) h.2]

def CleanKey (k : Labels) : Prop := ∀ kv ∈ k, clean kv.1 = true ∧ cleanVal kv.2 = true

theorem render_inj {w : Bool} {name : Str} {k1 k2 : Labels} (h1 : CleanKey k1) (h2 : CleanKey k2)
    (h : render w name k1 = render w name k2) : k1 = k2 := by
  have hm1 : ∀ x ∈ k1.map kvStr, cComma ∉ x := by
    intro x m; rcases List.mem_map.1 m with ⟨kv, hkv, rfl⟩
    exact comma_notMem_kvStr (h1 kv hkv).1 (h1 kv hkv).2
  have hm2 : ∀ x ∈ k2.map kvStr, cComma ∉ x := by
    intro x m; rcases List.mem_map.1 m with ⟨kv, hkv, rfl⟩
    exact comma_notMem_kvStr (h2 kv hkv).1 (h2 kv hkv).2
  cases w with
  | false =>
    simp only [render, Bool.false_eq_true, if_false] at h
    have hj : joinWith cComma (k1.map kvStr) = joinWith cComma (k2.map kvStr) := by
      have := List.append_cancel_left h
      simpa using this
    apply map_kvStr_inj (fun kv m => (h1 kv m).1) (fun kv m => (h2 kv m).1)
    by_cases e1 : k1.map kvStr = []
    · by_cases e2 : k2.map kvStr = []
      · rw [e1, e2]
      · -- "" = join of a non-empty list of non-empty strings
        have := splitOn_joinWith e2 hm2
        rw [← hj, e1] at this
        have hmem : ([] : Str) ∈ k2.map kvStr := by rw [← this]; simp [joinWith, splitOn]
        rcases List.mem_map.1 hmem with ⟨kv, _, hkv⟩
        exact absurd hkv (kvStr_ne_nil kv)
    · by_cases e2 : k2.map kvStr = []
      · have := splitOn_joinWith e1 hm1
        rw [hj, e2] at this
        have hmem : ([] : Str) ∈ k1.map kvStr := by rw [← this]; simp [joinWith, splitOn]
        rcases List.mem_map.1 hmem with ⟨kv, _, hkv⟩
        exact absurd hkv (kvStr_ne_nil kv)
      · rw [← splitOn_joinWith e1 hm1, ← splitOn_joinWith e2 hm2, hj]
  | true =>
    simp only [render, if_true, seriesIdOf] at h
    have hj : k1.flatMap labelStr = k2.flatMap labelStr := by
      have := List.append_cancel_left h
      simpa using this
    have := congrArg (splitOn cComma) hj
    rw [splitOn_labels h1, splitOn_labels h2] at this
    exact map_kvStr_inj (fun kv m => (h1 kv m).1) (fun kv m => (h2 kv m).1) (List.append_cancel_right this)

theorem mem_of_lookup {f v : Str} {l : Labels} (h : l.lookup f = some v) : (f, v) ∈ l := by
  induction l with
  | nil => simp [List.lookup] at h
  | cons kv l ih =>
    obtain ⟨k, v'⟩ := kv
    simp only [List.lookup] at h
    by_cases e : f = k
    · subst e; simp at h; simp [h]
    · have : (f == k) = false := by simpa using e
      simp only [this] at h
      exact List.mem_cons_of_mem _ (ih h)

theorem specKey_clean {name : Str} {labels : Labels} (fields : List Str) (w : Bool)
    (h : Safe name labels) : CleanKey (specGroupKey fields w labels) := by
  intro kv m
  unfold specGroupKey at m
  cases w with
  | true =>
    simp only [if_true] at m
    exact h.hlabels kv (List.mem_filter.1 m).1
  | false =>
    simp only [Bool.false_eq_true, if_false, List.mem_filterMap] at m
    obtain ⟨f, _, hm⟩ := m
    cases hl : labels.lookup f with
    | none => simp [hl] at hm
    | some v =>
      simp [hl] at hm
      subst hm
      exact h.hlabels _ (mem_of_lookup hl)

/-- on safe label sets: same result-map key ⇔ same PromQL group -/
theorem groupKey_eq_iff {name : Str} {l1 l2 : Labels} (fields : List Str) (w : Bool)
    (h1 : Safe name l1) (h2 : Safe name l2) :
    extractGroupKey fields w (seriesIdOf name l1) = extractGroupKey fields w (seriesIdOf name l2)
      ↔ specGroupKey fields w l1 = specGroupKey fields w l2 := by
  rw [extract_eq_spec fields w h1, extract_eq_spec fields w h2]
  constructor
  · exact render_inj (specKey_clean fields w h1) (specKey_clean fields w h2)
  · intro e; rw [e]

theorem seriesIdOf_inj {name : Str} {l1 l2 : Labels} (h1 : CleanKey l1) (h2 : CleanKey l2)
    (h : seriesIdOf name l1 = seriesIdOf name l2) : l1 = l2 :=
  render_inj (w := true) h1 h2 (by simpa [render] using h)

end SigModel.Lemmas.C09
