/-
Helper lemmas for C08, part 5: whole-stream round trip, prefix closure, monotone series.
-/
import SigModel.Lemmas.C08d

namespace SigModel.Lemmas.C08
open SigModel SigModel.Gorilla

/-! ### every point costs at least one bit (so the decoder's fuel suffices) -/

theorem tsBits_length_pos (dod : Int) : 1 ≤ (tsBits dod).length := by
  rw [tsBits]
  split
  · simp only [List.length_cons]; omega
  · split
    · simp only [List.length_cons]; omega
    · split
      · simp only [List.length_cons]; omega
      · split <;> (simp only [List.length_cons]; omega)

theorem compress_length_pos (c : Enc) (t v : Nat) : 1 ≤ (compress c t v).2.length := by
  by_cases h : c.t = 0
  · have : (compress c t v).2.length = 14 + 64 := by
      rw [compress]
      refine (congrArg (fun (p : Enc × Bits) => p.2.length) (if_pos h)).trans ?_
      simp only [List.length_append, writeBits_length, firstDeltaBits]
    omega
  · rw [compress_ne_snd c t v h, compressTimestamp_snd, List.length_append]
    have := tsBits_length_pos (dodOf c t)
    omega

theorem encodePts_length (pts : List (Nat × Nat)) : ∀ c : Enc, pts.length ≤ (encodePts c pts).2.length := by
  induction pts with
  | nil => intro c; simp only [List.length_nil]; omega
  | cons p ps ih =>
    intro c
    obtain ⟨t, v⟩ := p
    rw [encodePts_cons_snd, List.length_append, List.length_cons]
    have := ih (compress c t v).1
    have := compress_length_pos c t v
    omega

/-! ### encodeAll / decodeAll -/

theorem encodeAll_eq (header : Nat) (pts : List (Nat × Nat)) :
    encodeAll header pts = writeBits header 32 ++ ((encodePts (Enc.new header).1 pts).2 ++
      finish (encodePts (Enc.new header).1 pts).1) := by
  rw [encodeAll]
  simp only [Enc.new]
  generalize encodePts _ pts = p
  obtain ⟨c1, b1⟩ := p
  simp only [List.append_assoc]

theorem decodeAll_of (bs r : Bits) (d : Dec) (ps : List (Nat × Nat)) (st : Status)
    (h1 : Dec.new bs = some (d, r)) (h2 : decodeLoop (bs.length + 1) d r = (ps, st)) :
    decodeAll bs = some (d.header, ps, st) := by
  rw [decodeAll, h1]
  simp only [h2]

theorem Dec_new_header (header : Nat) (r : Bits) (h : header < P32) :
    Dec.new (writeBits header 32 ++ r) = some (dec0 header, r) := by
  rw [Dec.new, readBits_writeBits_lt header 32 r (by simp only [P32] at h; omega)]
  rfl

theorem next_finish0 (header : Nat) (pad : Bits) :
    next (dec0 header) (finish (Enc.new header).1 ++ pad) = .eof := by
  rw [next]
  refine (if_pos rfl).trans ?_
  rw [finish]
  refine (congrArg (fun b => decompressFirst (dec0 header) (b ++ pad)) (if_pos rfl)).trans ?_
  rw [decompressFirst, List.append_assoc, readBits_writeBits]
  simp only [firstDeltaBits]
  exact if_pos trivial

theorem decode_encodeL (header : Nat) (pts : List (Nat × Nat)) (pad : Bits)
    (h : okSeriesL header pts) :
    decodeAll (encodeAll header pts ++ pad) = some (header, pts, Status.eof) := by
  rw [encodeAll_eq, List.append_assoc, List.append_assoc]
  cases pts with
  | nil =>
    have hh : header < P32 := h
    refine decodeAll_of _ _ (dec0 header) [] .eof (Dec_new_header header _ hh) ?_
    rw [encodePts_nil, List.nil_append]
    exact decodeLoop_succ_eof _ _ _ (next_finish0 header pad)
  | cons p ps =>
    obtain ⟨t, v⟩ := p
    obtain ⟨hf, hv, hrest⟩ := h
    refine decodeAll_of _ _ (dec0 header) ((t, v) :: ps) .eof (Dec_new_header header _ hf.1) ?_
    rw [encodePts_cons_fst, encodePts_cons_snd, List.append_assoc]
    obtain ⟨d1, hnext, e1, e2, inv1⟩ := first_step header t v
      ((encodePts (compress (Enc.new header).1 t v).1 ps).2 ++
        (finish (encodePts (compress (Enc.new header).1 t v).1 ps).1 ++ pad)) hf hv
    rw [decodeLoop_succ_ok _ _ d1 _ _ hnext,
      decodeLoop_encodePts ps (compress (Enc.new header).1 t v).1 d1 _ pad inv1 hrest ?_, e1, e2]
    have := encodePts_length ps (compress (Enc.new header).1 t v).1
    simp only [List.length_append, writeBits_length]
    omega

theorem decode_encode_bytesL (header : Nat) (pts : List (Nat × Nat)) (h : okSeriesL header pts) :
    decodeAll (unpack (pack (encodeAll header pts))) = some (header, pts, Status.eof) := by
  obtain ⟨k, _, hk⟩ := unpack_pack (encodeAll header pts)
  rw [hk]
  exact decode_encodeL header pts _ h

/-! ### prefix closure -/

theorem okPtsL_take (ps : List (Nat × Nat)) : ∀ (c : Enc) (k : Nat), okPtsL c ps → okPtsL c (ps.take k) := by
  induction ps with
  | nil => intro c k _; rw [List.take_nil]; trivial
  | cons p ps ih =>
    intro c k h
    cases k with
    | zero => trivial
    | succ k =>
      obtain ⟨t, v⟩ := p
      obtain ⟨h1, h2, h3, h4, h5⟩ := h
      exact ⟨h1, h2, h3, h4, ih _ k h5⟩

theorem okSeriesL_take (header : Nat) (pts : List (Nat × Nat)) (k : Nat) (h : okSeriesL header pts) :
    okSeriesL header (pts.take k) := by
  cases pts with
  | nil => rw [List.take_nil]; exact h
  | cons p ps =>
    obtain ⟨t, v⟩ := p
    obtain ⟨hf, hv, hrest⟩ := h
    cases k with
    | zero => exact hf.1
    | succ k => exact ⟨hf, hv, okPtsL_take ps _ k hrest⟩

theorem clone_prefix_decodesL (header : Nat) (pts : List (Nat × Nat)) (k : Nat)
    (h : okSeriesL header pts) :
    decodeAll (unpack (pack (encodeAll header (pts.take k)))) = some (header, pts.take k, Status.eof) :=
  decode_encode_bytesL header (pts.take k) (okSeriesL_take header pts k h)

/-! ### monotone ingest series satisfy the guard -/

def monotoneFromL (prev : Nat) : List (Nat × Nat) → Prop
  | [] => True
  | (t, v) :: ps => prev ≤ t ∧ t < 2 ^ 31 ∧ v < P64 ∧ monotoneFromL t ps

theorem value_step_proj (c : Enc) (v : Nat) :
    (compressValue c v).1.t = c.t ∧ (compressValue c v).1.tDelta = c.tDelta := by
  by_cases h0 : c.value ^^^ v = 0
  · rw [compressValue_zero c v h0]; exact ⟨rfl, rfl⟩
  · by_cases hw : c.lead ≤ clz (c.value ^^^ v) ∧ c.trail ≤ trailingZeros (c.value ^^^ v)
    · rw [compressValue_reuse c v h0 hw]; exact ⟨rfl, rfl⟩
    · rw [compressValue_new c v h0 hw]; exact ⟨rfl, rfl⟩

theorem compress_t (c : Enc) (t v : Nat) : (compress c t v).1.t = t % P32 := by
  by_cases h : c.t = 0
  · rw [compress]
    exact (congrArg (fun (p : Enc × Bits) => p.1.t) (if_pos h)).trans rfl
  · rw [compress_ne_fst c t v h]
    have := (value_step_proj (compressTimestamp c t).1 v).1
    rw [this, compressTimestamp_fst]

theorem compress_tDelta (c : Enc) (t v : Nat) (h : c.t ≠ 0) :
    (compress c t v).1.tDelta = (t % P32 + P32 - c.t) % P32 := by
  rw [compress_ne_fst c t v h]
  have := (value_step_proj (compressTimestamp c t).1 v).2
  rw [this, compressTimestamp_fst]

theorem okPtsL_of_monotone (ps : List (Nat × Nat)) : ∀ c : Enc,
    c.t ≠ 0 → c.t < 2 ^ 31 → c.tDelta < 2 ^ 31 → monotoneFromL c.t ps → okPtsL c ps := by
  induction ps with
  | nil => intro c _ _ _ _; trivial
  | cons p ps ih =>
    intro c h0 h1 h2 hm
    obtain ⟨t, v⟩ := p
    obtain ⟨m1, m2, m3, m4⟩ := hm
    have htP : t % P32 = t := Nat.mod_eq_of_lt (by simp only [P32]; omega)
    have hdelta : (t % P32 + P32 - c.t) % P32 = t - c.t := by
      simp only [P32]; omega
    refine ⟨by simp only [P32]; omega, by omega, m3, ?_, ?_⟩
    · rw [dodOf, hdelta]
      rcases toS32_cases (t - c.t) with ⟨_, e1⟩ | ⟨_, _⟩
      · rcases toS32_cases c.tDelta with ⟨_, e2⟩ | ⟨_, _⟩
        · rw [e1, e2]; clear e1 e2
          simp only [P32]; omega
        · omega
      · omega
    · apply ih
      · rw [compress_t, htP]; omega
      · rw [compress_t, htP]; exact m2
      · rw [compress_tDelta c t v h0, hdelta]; omega
      · rw [compress_t, htP]; exact m4

theorem okSeriesL_of_monotone (t0 v0 : Nat) (ps : List (Nat × Nat))
    (h0 : 0 < t0) (h1 : t0 < 2 ^ 31) (hv : v0 < P64) (hm : monotoneFromL t0 ps) :
    okSeriesL t0 ((t0, v0) :: ps) := by
  have hf : okFirstL t0 t0 :=
    ⟨by simp only [P32]; omega, by simp only [P32]; omega, by omega, Nat.le_refl _, by omega⟩
  refine ⟨hf, hv, ?_⟩
  rw [compress_first_fst t0 t0 v0 hf]
  exact okPtsL_of_monotone ps _ (by show t0 ≠ 0; omega) h1 (by show t0 - t0 < 2 ^ 31; omega) hm

/-! ### transfer between the guard copies here and the definitions in Props/C08.lean

Props/C08.lean imports this file, so its `okPts`/`okSeries`/`monotoneFrom` cannot be mentioned here.
Any predicates with the same unfolding equations coincide with the copies above; Props supplies the
equations by `Iff.rfl`. -/

theorem okPtsL_iff (P : Enc → List (Nat × Nat) → Prop) (hnil : ∀ c, P c [])
    (hcons : ∀ c t v ps, P c ((t, v) :: ps) ↔
      (t < P32 ∧ t ≠ 0 ∧ v < P64 ∧
        ((-2047 ≤ dodOf c t ∧ dodOf c t ≤ 2048) ∨ dodOf c t % (P32 : Int) ≠ (P32 : Int) - 1) ∧
        P (compress c t v).1 ps)) :
    ∀ (ps : List (Nat × Nat)) (c : Enc), P c ps ↔ okPtsL c ps := by
  intro ps
  induction ps with
  | nil => intro c; exact ⟨fun _ => trivial, fun _ => hnil c⟩
  | cons p ps ih =>
    intro c
    obtain ⟨t, v⟩ := p
    rw [hcons]
    constructor
    · rintro ⟨h1, h2, h3, h4, h5⟩; exact ⟨h1, h2, h3, h4, (ih _).1 h5⟩
    · rintro ⟨h1, h2, h3, h4, h5⟩; exact ⟨h1, h2, h3, h4, (ih _).2 h5⟩

theorem okSeriesL_iff (S : Nat → List (Nat × Nat) → Prop) (P : Enc → List (Nat × Nat) → Prop)
    (hnil : ∀ c, P c [])
    (hcons : ∀ c t v ps, P c ((t, v) :: ps) ↔
      (t < P32 ∧ t ≠ 0 ∧ v < P64 ∧
        ((-2047 ≤ dodOf c t ∧ dodOf c t ≤ 2048) ∨ dodOf c t % (P32 : Int) ≠ (P32 : Int) - 1) ∧
        P (compress c t v).1 ps))
    (hSnil : ∀ h, S h [] ↔ h < P32)
    (hScons : ∀ h t v ps, S h ((t, v) :: ps) ↔
      ((h < P32 ∧ t < P32 ∧ t ≠ 0 ∧ h ≤ t ∧ t - h < 2 ^ 14 - 1) ∧ v < P64 ∧
        P (compress (Enc.new h).1 t v).1 ps)) :
    ∀ (header : Nat) (pts : List (Nat × Nat)), S header pts ↔ okSeriesL header pts := by
  intro header pts
  cases pts with
  | nil => exact hSnil header
  | cons p ps =>
    obtain ⟨t, v⟩ := p
    rw [hScons]
    constructor
    · rintro ⟨h1, h2, h3⟩; exact ⟨h1, h2, (okPtsL_iff P hnil hcons ps _).1 h3⟩
    · rintro ⟨h1, h2, h3⟩; exact ⟨h1, h2, (okPtsL_iff P hnil hcons ps _).2 h3⟩

theorem monotoneFromL_iff (M : Nat → List (Nat × Nat) → Prop) (hnil : ∀ p, M p [])
    (hcons : ∀ p t v ps, M p ((t, v) :: ps) ↔ (p ≤ t ∧ t < 2 ^ 31 ∧ v < P64 ∧ M t ps)) :
    ∀ (ps : List (Nat × Nat)) (p : Nat), M p ps ↔ monotoneFromL p ps := by
  intro ps
  induction ps with
  | nil => intro p; exact ⟨fun _ => trivial, fun _ => hnil p⟩
  | cons q ps ih =>
    intro p
    obtain ⟨t, v⟩ := q
    rw [hcons]
    constructor
    · rintro ⟨h1, h2, h3, h4⟩; exact ⟨h1, h2, h3, (ih _).1 h4⟩
    · rintro ⟨h1, h2, h3, h4⟩; exact ⟨h1, h2, h3, (ih _).2 h4⟩

end SigModel.Lemmas.C08
