/-
Lemmas for the C03 kernel slice "bloom" (Model/Bloom.lean): splitting at single spaces, the keys the writer adds,
decomposition of a record-level sub-word hit, ASCII case folding.  Core Lean only.
-/
import SigModel.Model.Bloom

namespace SigModel.Bloom
open SigModel.Tlv (Bytes)

/-! ### splitSpace -/

theorem splitSpace_ne_nil (s : Bytes) : splitSpace s ≠ [] := by
  induction s with
  | nil => simp [splitSpace]
  | cons b r ih =>
    unfold splitSpace
    split
    · simp
    · split <;> simp

theorem splitSpace_noSpace (w : Bytes) (h : 32 ∉ w) : splitSpace w = [w] := by
  induction w with
  | nil => simp [splitSpace]
  | cons b r ih =>
    have hb : b ≠ 32 := fun e => h (by simp [e])
    have hr : 32 ∉ r := fun e => h (by simp [e])
    simp [splitSpace, hb, ih hr]

theorem splitSpace_append (a b : Bytes) : splitSpace (a ++ 32 :: b) = splitSpace a ++ splitSpace b := by
  induction a with
  | nil => simp [splitSpace]
  | cons c r ih =>
    by_cases hc : c = 32
    · simp [splitSpace, hc, ih]
    · simp only [List.cons_append, splitSpace, hc, if_false, ih]
      cases hs : splitSpace r with
      | nil => exact absurd hs (splitSpace_ne_nil r)
      | cons s ss => simp

theorem splitSpace_singleton (v x : Bytes) (h : splitSpace v = [x]) : x = v := by
  induction v generalizing x with
  | nil => simp [splitSpace] at h; exact h
  | cons b r ih =>
    by_cases hb : b = 32
    · simp [splitSpace, hb] at h
      exact absurd h.2 (splitSpace_ne_nil r)
    · simp only [splitSpace, hb, if_false] at h
      cases hs : splitSpace r with
      | nil => exact absurd hs (splitSpace_ne_nil r)
      | cons s ss =>
        rw [hs] at h
        simp at h
        obtain ⟨h1, h2⟩ := h
        subst h2
        rw [← h1, ih s hs]

/-- a piece delimited by spaces (or the ends) is one of the pieces `splitSpace` yields -/
theorem seg_of_decomp (pre t post : Bytes) (ht : 32 ∉ t)
    (hpre : pre = [] ∨ ∃ p, pre = p ++ [32]) (hpost : post = [] ∨ ∃ q, post = 32 :: q) :
    t ∈ splitSpace (pre ++ t ++ post) := by
  rcases hpre with rfl | ⟨p, rfl⟩ <;> rcases hpost with rfl | ⟨q, rfl⟩
  · simp [splitSpace_noSpace t ht]
  · simp [splitSpace_append, splitSpace_noSpace t ht]
  · have : p ++ [32] ++ t ++ [] = p ++ 32 :: t := by simp
    rw [this, splitSpace_append, splitSpace_noSpace t ht]; simp
  · have : p ++ [32] ++ t ++ 32 :: q = p ++ 32 :: (t ++ 32 :: q) := by simp
    rw [this, splitSpace_append, splitSpace_append, splitSpace_noSpace t ht]; simp


/-! ### the keys the writer adds -/

theorem mem_addedKeys_self (v : Bytes) : v ∈ addedKeys v := by
  simp [addedKeys]

theorem mem_addedKeys_lower_self (v : Bytes) (h : hasUpper v = true) : toLower v ∈ addedKeys v := by
  simp [addedKeys, h]

theorem mem_dropLast_or_getLast {α} (l : List α) (s : α) (h : s ∈ l) : s ∈ l.dropLast ∨ l.getLast? = some s := by
  induction l with
  | nil => simp at h
  | cons a r ih =>
    cases r with
    | nil => simp at h; simp [h]
    | cons b r' =>
      simp only [List.mem_cons] at h
      rcases h with rfl | h
      · left; simp [List.dropLast]
      · have := ih (by simpa using h)
        rcases this with h1 | h1
        · left; simp [List.dropLast]; right; simpa [List.dropLast] using h1
        · right; simpa [List.getLast?_cons_cons] using h1

/-- every non-empty piece of the value is added -/
theorem mem_addedKeys_seg (v s : Bytes) (hs : s ∈ splitSpace v) (hne : s ≠ []) : s ∈ addedKeys v := by
  by_cases hl : (splitSpace v).length ≤ 1
  · -- no space: the only piece is the value itself
    have : splitSpace v = [s] := by
      cases h : splitSpace v with
      | nil => exact absurd h (splitSpace_ne_nil v)
      | cons a r =>
        cases r with
        | nil => rw [h] at hs; simp at hs; simp [hs]
        | cons b r' => rw [h] at hl; simp at hl
    rw [splitSpace_singleton v s this]
    exact mem_addedKeys_self v
  · rcases mem_dropLast_or_getLast _ s hs with h | h
    · simp only [addedKeys, hl, if_false]
      simp only [List.mem_append, List.mem_flatMap]
      left; right; left
      exact ⟨s, h, by split <;> simp⟩
    · simp only [addedKeys, hl, if_false, h]
      have : s.isEmpty = false := by cases s <;> simp_all
      simp [this]

/-- … and so is its lower-cased copy when the value holds an upper-case byte -/
theorem mem_addedKeys_lower_seg (v s : Bytes) (hs : s ∈ splitSpace v) (hne : s ≠ []) (hu : hasUpper v = true) :
    toLower s ∈ addedKeys v := by
  by_cases hl : (splitSpace v).length ≤ 1
  · have : splitSpace v = [s] := by
      cases h : splitSpace v with
      | nil => exact absurd h (splitSpace_ne_nil v)
      | cons a r =>
        cases r with
        | nil => rw [h] at hs; simp at hs; simp [hs]
        | cons b r' => rw [h] at hl; simp at hl
    rw [splitSpace_singleton v s this]
    exact mem_addedKeys_lower_self v hu
  · rcases mem_dropLast_or_getLast _ s hs with h | h
    · simp only [addedKeys, hl, if_false, hu]
      simp only [List.mem_append, List.mem_flatMap]
      left; right; left
      exact ⟨s, h, by simp⟩
    · simp only [addedKeys, hl, if_false, h]
      have : s.isEmpty = false := by cases s <;> simp_all
      simp [this]


/-! ### ASCII case folding -/

theorem xor32_upper : ∀ k, k < 26 → (65 + k) ^^^ 32 = 97 + k := by decide
theorem xor32_lower : ∀ k, k < 26 → (97 + k) ^^^ 32 = 65 + k := by decide

/-- one byte of `BytesCaseInsensitiveEqual` accepts exactly the pairs with equal ASCII-lower-cased form -/
theorem ciEqB_lower (a b : Nat) (h : ciEqB a b = true) : lowerB a = lowerB b := by
  unfold ciEqB at h
  simp only [Bool.or_eq_true, Bool.and_eq_true, beq_iff_eq] at h
  rcases h with h | ⟨⟨ha, hb⟩, hx⟩
  · rw [h]
  · unfold isAlphaB isUpperB at ha hb
    simp only [Bool.or_eq_true, Bool.and_eq_true, decide_eq_true_eq] at ha hb
    unfold lowerB isUpperB
    rcases ha with ha | ha
    · have e := xor32_upper (a - 65) (by omega)
      have : 65 + (a - 65) = a := by omega
      rw [this] at e
      have hb' : b = 97 + (a - 65) := by omega
      simp only [Bool.and_eq_true, decide_eq_true_eq]
      rw [if_pos ⟨by omega, by omega⟩, if_neg (by omega)]
      omega
    · have e := xor32_lower (a - 97) (by omega)
      have : 97 + (a - 97) = a := by omega
      rw [this] at e
      have hb' : b = 65 + (a - 97) := by omega
      simp only [Bool.and_eq_true, decide_eq_true_eq]
      rw [if_neg (by omega), if_pos ⟨by omega, by omega⟩]
      omega

theorem zip_all_ciEq_lower : ∀ (a b : Bytes), a.length = b.length →
    (a.zip b).all (fun xy => ciEqB xy.1 xy.2) = true → toLower a = toLower b
  | [], [], _, _ => rfl
  | [], _ :: _, hl, _ => by simp at hl
  | _ :: _, [], hl, _ => by simp at hl
  | x :: a, y :: b, hl, h => by
    simp only [List.zip_cons_cons, List.all_cons, Bool.and_eq_true] at h
    simp only [toLower, List.map_cons]
    have := zip_all_ciEq_lower a b (by simpa using hl) h.2
    simp only [toLower] at this
    rw [ciEqB_lower x y h.1, this]

/-- `PerformBytesEqualityCheck`: equal, resp. equal after ASCII lower-casing -/
theorem bytesEq_spec (ci : Bool) (a b : Bytes) (h : bytesEq ci a b = true) :
    a.length = b.length ∧ (ci = false → a = b) ∧ (ci = true → toLower a = toLower b) := by
  unfold bytesEq at h
  cases ci with
  | false => simp at h; simp [h]
  | true =>
    simp only [if_true, Bool.and_eq_true, beq_iff_eq] at h
    exact ⟨h.1, by simp, fun _ => zip_all_ciEq_lower a b h.1 h.2⟩

theorem lowerB_eq_32 (b : Nat) : lowerB b = 32 ↔ b = 32 := by
  unfold lowerB isUpperB
  simp only [Bool.and_eq_true, decide_eq_true_eq]
  split <;> omega

theorem space_mem_toLower (s : Bytes) : 32 ∈ toLower s ↔ 32 ∈ s := by
  simp only [toLower, List.mem_map]
  constructor
  · rintro ⟨b, hb, e⟩; rw [(lowerB_eq_32 b).1 e] at hb; exact hb
  · intro h; exact ⟨32, h, by decide⟩

theorem toLower_of_noUpper (s : Bytes) (h : hasUpper s = false) : toLower s = s := by
  induction s with
  | nil => rfl
  | cons b r ih =>
    simp only [hasUpper, List.any_cons, Bool.or_eq_false_iff] at h
    simp only [toLower, List.map_cons, lowerB, h.1]
    have := ih (by simpa [hasUpper] using h.2)
    simp only [toLower] at this
    simp [this]

theorem toLower_length (s : Bytes) : (toLower s).length = s.length := by simp [toLower]

theorem hasUpper_append (a b : Bytes) : hasUpper (a ++ b) = (hasUpper a || hasUpper b) := by
  simp [hasUpper]


/-! ### a record-level sub-word hit, decomposed -/

/-- `IsSubWordPresent` returns true exactly on a slice `t` of the haystack that equals the needle (up to case when
`ci`) and is delimited by a single space or the end on either side -/
theorem subWord_decomp (ci : Bool) (v w : Bytes) (h : subWord ci v w = true) :
    ∃ pre t post, v = pre ++ t ++ post ∧ bytesEq ci t w = true ∧
      (pre = [] ∨ ∃ p, pre = p ++ [32]) ∧ (post = [] ∨ ∃ q, post = 32 :: q) := by
  unfold subWord at h
  simp only at h
  split at h
  · simp at h
  · rename_i hn
    simp only [List.any_eq_true, List.mem_range, Bool.and_eq_true, Bool.or_eq_true, beq_iff_eq] at h
    obtain ⟨i, hi, ⟨⟨heq, hpre⟩, hpost⟩⟩ := h
    refine ⟨v.take i, (v.drop i).take w.length, v.drop (i + w.length), ?_, heq, ?_, ?_⟩
    · have h1 : v.drop (i + w.length) = (v.drop i).drop w.length := by rw [List.drop_drop]
      rw [h1, List.append_assoc, List.take_append_drop, List.take_append_drop]
    · by_cases hi0 : i = 0
      · left; simp [hi0]
      · rcases hpre with h0 | h1
        · exact absurd h0 hi0
        · right
          refine ⟨v.take (i - 1), ?_⟩
          have : i = (i - 1) + 1 := by omega
          rw [this, List.take_add_one, Nat.add_sub_cancel, h1]
          simp
    · rcases hpost with h0 | h1
      · left; rw [h0]; simp
      · right
        refine ⟨v.drop (i + w.length + 1), ?_⟩
        obtain ⟨hlt, he⟩ := List.getElem?_eq_some_iff.1 h1
        rw [List.drop_eq_getElem_cons hlt, he]

theorem length_of_decomp_full (pre t post v : Bytes) (h : v = pre ++ t ++ post) (hl : t.length = v.length) :
    pre = [] ∧ post = [] := by
  have := congrArg List.length h
  simp only [List.length_append] at this
  constructor
  · apply List.eq_nil_of_length_eq_zero; omega
  · apply List.eq_nil_of_length_eq_zero; omega


/-! ### the probed key is among the added keys -/

/-- a non-empty needle without a space that `IsSubWordPresent` finds in the value is a key the writer added
(case-insensitive search: for a needle without upper-case bytes, which is what the query grammar produces) -/
theorem key_added_token (ci : Bool) (v w : Bytes) (hne : w ≠ []) (hsp : 32 ∉ w)
    (hlow : ci = true → hasUpper w = false) (h : subWord ci v w = true) : w ∈ addedKeys v := by
  obtain ⟨pre, t, post, hv, heq, hpre, hpost⟩ := subWord_decomp ci v w h
  obtain ⟨hlen, hcs, hcis⟩ := bytesEq_spec ci t w heq
  have htne : t ≠ [] := by
    intro e; subst e; simp at hlen; exact hne (List.eq_nil_of_length_eq_zero hlen.symm)
  cases ci with
  | false =>
    have : t = w := hcs rfl
    subst this
    rw [hv]
    exact mem_addedKeys_seg _ t (seg_of_decomp pre t post hsp hpre hpost) htne
  | true =>
    have hw : toLower w = w := toLower_of_noUpper w (hlow rfl)
    have htl : toLower t = w := by rw [hcis rfl, hw]
    have hspt : 32 ∉ t := by
      intro e; exact hsp (by rw [← htl]; exact (space_mem_toLower t).2 e)
    have hseg : t ∈ splitSpace v := by rw [hv]; exact seg_of_decomp pre t post hspt hpre hpost
    by_cases hu : hasUpper v = true
    · rw [← htl]; exact mem_addedKeys_lower_seg v t hseg htne hu
    · have hu' : hasUpper v = false := by simpa using hu
      have : hasUpper t = false := by
        rw [hv, hasUpper_append, hasUpper_append] at hu'
        simp only [Bool.or_eq_false_iff] at hu'
        exact hu'.1.2
      rw [← htl, toLower_of_noUpper t this]
      exact mem_addedKeys_seg v t hseg htne

/-- a needle as long as the value that `IsSubWordPresent` finds is the value itself (up to case): added as the full value -/
theorem key_added_whole (ci : Bool) (v w : Bytes) (hlen : w.length = v.length)
    (hlow : ci = true → hasUpper w = false) (h : subWord ci v w = true) : w ∈ addedKeys v := by
  obtain ⟨pre, t, post, hv, heq, _, _⟩ := subWord_decomp ci v w h
  obtain ⟨hl, hcs, hcis⟩ := bytesEq_spec ci t w heq
  obtain ⟨rfl, rfl⟩ := length_of_decomp_full pre t post v hv (by omega)
  have hvt : v = t := by simpa using hv
  subst hvt
  cases ci with
  | false => rw [← hcs rfl]; exact mem_addedKeys_self v
  | true =>
    have hw : toLower w = w := toLower_of_noUpper w (hlow rfl)
    by_cases hu : hasUpper v = true
    · rw [← hw, ← hcis rfl]; exact mem_addedKeys_lower_self v hu
    · have hu' : hasUpper v = false := by simpa using hu
      rw [← hw, ← hcis rfl, toLower_of_noUpper v hu']; exact mem_addedKeys_self v

/-! ### the entry loops in closed form (so: independent of the order in which Go iterates the key map) -/

theorem forColLoop_and (ex : Bytes → Bool) (ks : List Bytes) : forColLoop ex .and ks = ks.all ex := by
  induction ks with
  | nil => rfl
  | cons k r ih => cases h : ex k <;> simp [forColLoop, h, ih]

theorem forColLoop_or (ex : Bytes → Bool) (ks : List Bytes) : forColLoop ex .or ks = true := by
  induction ks with
  | nil => rfl
  | cons k r ih => cases h : ex k <;> simp [forColLoop, h, ih]

theorem allColLoop_and (ex : Bytes → Bool) (ks : List Bytes) : allColLoop ex .and ks true = ks.all ex := by
  induction ks with
  | nil => rfl
  | cons k r ih => cases h : ex k <;> simp [allColLoop, h, ih]

theorem allColLoop_or_any (ex : Bytes → Bool) (ks : List Bytes) (m : Bool) (h : ks.any ex = true) :
    allColLoop ex .or ks m = true := by
  induction ks generalizing m with
  | nil => simp at h
  | cons k r ih =>
    cases hk : ex k
    · simp only [List.any_cons, hk, Bool.false_or] at h
      simp [allColLoop, hk, ih _ h]
    · simp [allColLoop, hk]

theorem allColLoop_or_none (ex : Bytes → Bool) (ks : List Bytes) (h : ks.any ex = false) (hne : ks ≠ []) (m : Bool) :
    allColLoop ex .or ks m = false := by
  induction ks generalizing m with
  | nil => exact absurd rfl hne
  | cons k r ih =>
    simp only [List.any_cons, Bool.or_eq_false_iff] at h
    cases r with
    | nil => simp [allColLoop, h.1]
    | cons k2 r2 =>
      have := ih h.2 (by simp) false
      rw [allColLoop]
      simp only [h.1]
      simpa using this

/-- a key the column's filter holds is found in the block -/
theorem needleInCols_of_test (cols : Cols) (b : BloomLike) (p : Probe) (k : Bytes) (hc : some b ∈ cols)
    (hk : b.test k = true) : needleInCols cols p k = true := by
  simp only [needleInCols, List.any_eq_true]
  exact ⟨some b, hc, by simp [needleIn, hk]⟩

/-! ### the words loop of GetAllBlockBloomKeysToSearch -/

theorem mem_insertKey (ks : List Bytes) (k x : Bytes) : x ∈ insertKey ks k ↔ x ∈ ks ∨ x = k := by
  unfold insertKey
  split
  · rename_i h
    have hk : k ∈ ks := by simpa using h
    constructor
    · exact Or.inl
    · rintro (h | rfl); exact h; exact hk
  · simp

theorem wordsLoop_spec (ci lenEq : Bool) (origs : List Bytes) (l : List Bytes) (i : Nat)
    (ks : List Bytes) (os : List (Bytes × Bytes)) (wc : Bool) :
    (wordsLoop ci lenEq origs l i (ks, os, wc)).2.2 = (wc || l.any hasStar) ∧
    ∀ x, x ∈ (wordsLoop ci lenEq origs l i (ks, os, wc)).1 ↔ x ∈ ks ∨ (x ∈ l ∧ hasStar x = false) := by
  induction l generalizing i ks os wc with
  | nil => simp [wordsLoop]
  | cons w r ih =>
    unfold wordsLoop
    by_cases hs : hasStar w = true
    · simp only [hs, if_true]
      obtain ⟨h1, h2⟩ := ih (i + 1) ks os true
      refine ⟨by simp [h1, hs], fun x => ?_⟩
      rw [h2 x]
      constructor
      · rintro (h | ⟨he, hse⟩)
        · exact Or.inl h
        · exact Or.inr ⟨List.mem_cons_of_mem _ he, hse⟩
      · rintro (h | ⟨he, hse⟩)
        · exact Or.inl h
        · rcases List.mem_cons.1 he with rfl | he
          · simp [hs] at hse
          · exact Or.inr ⟨he, hse⟩
    · have hs' : hasStar w = false := by simpa using hs
      simp only [hs', Bool.false_eq_true, if_false]
      obtain ⟨h1, h2⟩ := ih (i + 1) (insertKey ks w) (if (ci && lenEq) = true then setOrig os w (origs.getD i []) else os) wc
      refine ⟨by rw [h1]; simp [hs'], fun x => ?_⟩
      rw [h2 x, mem_insertKey]
      constructor
      · rintro ((h | rfl) | ⟨he, hse⟩)
        · exact Or.inl h
        · exact Or.inr ⟨by simp, hs'⟩
        · exact Or.inr ⟨List.mem_cons_of_mem _ he, hse⟩
      · rintro (h | ⟨he, hse⟩)
        · exact Or.inl (Or.inl h)
        · rcases List.mem_cons.1 he with rfl | he
          · exact Or.inl (Or.inr rfl)
          · exact Or.inr ⟨he, hse⟩

theorem exact_holds (keys : List Bytes) : (exact keys).holds keys := by
  intro k hk
  simp [exact, hk]


/-! ### lemmas for the repaired probe (patch c03-A): the words of a needle -/

theorem mem_foldl_insertKey (l acc : List Bytes) (x : Bytes) : x ∈ l.foldl insertKey acc ↔ x ∈ acc ∨ x ∈ l := by
  induction l generalizing acc with
  | nil => simp
  | cons a r ih =>
    simp only [List.foldl_cons, ih, mem_insertKey, List.mem_cons]
    constructor
    · rintro ((h | h) | h)
      · exact Or.inl h
      · exact Or.inr (Or.inl h)
      · exact Or.inr (Or.inr h)
    · rintro (h | h | h)
      · exact Or.inl (Or.inl h)
      · exact Or.inl (Or.inr h)
      · exact Or.inr h

theorem mem_wordsOfKeys (ks : List Bytes) (x : Bytes) :
    x ∈ wordsOfKeys ks ↔ ∃ k ∈ ks, x ∈ splitSpace k ∧ x ≠ [] := by
  unfold wordsOfKeys
  rw [mem_foldl_insertKey]
  simp only [List.not_mem_nil, false_or, List.mem_flatMap, List.mem_filter]
  constructor
  · rintro ⟨k, hk, hx, hne⟩
    exact ⟨k, hk, hx, by cases x <;> simp_all⟩
  · rintro ⟨k, hk, hx, hne⟩
    exact ⟨k, hk, hx, by cases x <;> simp_all⟩

theorem splitSpace_toLower (s : Bytes) : splitSpace (toLower s) = (splitSpace s).map toLower := by
  induction s with
  | nil => simp [splitSpace, toLower]
  | cons b r ih =>
    have ih' : splitSpace (List.map lowerB r) = (splitSpace r).map toLower := by simpa [toLower] using ih
    by_cases hb : b = 32
    · subst hb
      have : lowerB 32 = 32 := by decide
      simp [splitSpace, toLower, this, ih']
    · have hl : lowerB b ≠ 32 := fun e => hb ((lowerB_eq_32 b).1 e)
      simp only [toLower, List.map_cons, splitSpace, hl, hb, if_false, ih']
      cases hs : splitSpace r with
      | nil => exact absurd hs (splitSpace_ne_nil r)
      | cons s ss => simp [toLower]

theorem mem_of_mem_piece (v s : Bytes) (x : Nat) (hs : s ∈ splitSpace v) (hx : x ∈ s) : x ∈ v := by
  induction v generalizing s with
  | nil => simp [splitSpace] at hs; subst hs; simp at hx
  | cons b r ih =>
    by_cases hb : b = 32
    · simp only [splitSpace, hb, if_true, List.mem_cons] at hs
      rcases hs with rfl | hs
      · simp at hx
      · exact List.mem_cons_of_mem _ (ih s hs hx)
    · simp only [splitSpace, hb, if_false] at hs
      cases hsr : splitSpace r with
      | nil => exact absurd hsr (splitSpace_ne_nil r)
      | cons s0 ss =>
        rw [hsr] at hs
        simp only [List.mem_cons] at hs
        rcases hs with rfl | hs
        · simp only [List.mem_cons] at hx
          rcases hx with rfl | hx
          · simp
          · exact List.mem_cons_of_mem _ (ih s0 (by rw [hsr]; simp) hx)
        · exact List.mem_cons_of_mem _ (ih s (by rw [hsr]; simp [hs]) hx)

theorem hasUpper_piece (v s : Bytes) (hs : s ∈ splitSpace v) (hu : hasUpper v = false) : hasUpper s = false := by
  simp only [hasUpper, List.any_eq_false] at hu ⊢
  intro x hx
  exact hu x (mem_of_mem_piece v s x hs hx)

/-- the pieces of a slice delimited by spaces (or the ends) are pieces of the whole -/
theorem pieces_of_decomp (pre t post : Bytes)
    (hpre : pre = [] ∨ ∃ p, pre = p ++ [32]) (hpost : post = [] ∨ ∃ q, post = 32 :: q) :
    ∀ s ∈ splitSpace t, s ∈ splitSpace (pre ++ t ++ post) := by
  intro s hs
  rcases hpre with rfl | ⟨p, rfl⟩ <;> rcases hpost with rfl | ⟨q, rfl⟩
  · simpa using hs
  · simp [splitSpace_append, hs]
  · have : p ++ [32] ++ t ++ [] = p ++ 32 :: t := by simp
    rw [this, splitSpace_append]; simp [hs]
  · have : p ++ [32] ++ t ++ 32 :: q = p ++ 32 :: (t ++ 32 :: q) := by simp
    rw [this, splitSpace_append, splitSpace_append]; simp [hs]

/-- every non-empty word of a needle that `IsSubWordPresent` finds in the value is a key the writer added — for
needles of any number of words (case-insensitive search: for a needle without upper-case bytes) -/
theorem pieces_added (ci : Bool) (v n : Bytes) (hlow : ci = true → hasUpper n = false)
    (h : subWord ci v n = true) : ∀ w ∈ splitSpace n, w ≠ [] → w ∈ addedKeys v := by
  intro w hw hne
  obtain ⟨pre, t, post, hv, heq, hpre, hpost⟩ := subWord_decomp ci v n h
  obtain ⟨_, hcs, hcis⟩ := bytesEq_spec ci t n heq
  have hpieces := pieces_of_decomp pre t post hpre hpost
  cases ci with
  | false =>
    have : t = n := hcs rfl
    subst this
    rw [hv]
    exact mem_addedKeys_seg _ w (hpieces w hw) hne
  | true =>
    have hn : toLower n = n := toLower_of_noUpper n (hlow rfl)
    have htl : toLower t = n := by rw [hcis rfl, hn]
    rw [← htl, splitSpace_toLower] at hw
    obtain ⟨s, hs, rfl⟩ := List.mem_map.1 hw
    have hsne : s ≠ [] := by intro e; subst e; simp [toLower] at hne
    have hsv : s ∈ splitSpace v := by rw [hv]; exact hpieces s hs
    by_cases hu : hasUpper v = true
    · exact mem_addedKeys_lower_seg v s hsv hsne hu
    · have hu' : hasUpper v = false := by simpa using hu
      rw [toLower_of_noUpper s (hasUpper_piece v s hsv hu')]
      exact mem_addedKeys_seg v s hsv hsne


/-- a word that is not blank has a non-empty piece (so: a bloom key) -/
theorem piece_of_not_blank (w : Bytes) (h : blankWord w = false) : ∃ s ∈ splitSpace w, s ≠ [] := by
  induction w with
  | nil => simp [blankWord] at h
  | cons b r ih =>
    by_cases hb : b = 32
    · subst hb
      have hr : blankWord r = false := by simpa [blankWord] using h
      obtain ⟨s, hs, hne⟩ := ih hr
      exact ⟨s, by simp [splitSpace, hs], hne⟩
    · cases hsr : splitSpace r with
      | nil => exact absurd hsr (splitSpace_ne_nil r)
      | cons s0 ss => exact ⟨b :: s0, by simp [splitSpace, hb, hsr], by simp⟩

end SigModel.Bloom
