/-
C05 helper lemmas, part h: pages, scroll, head.  Core Lean only.
-/
import SigModel.Model.Sched
set_option linter.unusedSimpArgs false
set_option linter.unusedVariables false

namespace SigModel.Lemmas.C05
open SigModel.Sched

/-- the first `n` pages of size `k` of a result list, concatenated -/
def pages {α : Type} (r : List α) (k n : Nat) : List α :=
  (List.range n).flatMap (fun i => (r.drop (i * k)).take k)

theorem pages_eq_take {α : Type} (r : List α) (k : Nat) : ∀ n, pages r k n = r.take (n * k)
  | 0 => by simp [pages]
  | n + 1 => by
    have ih := pages_eq_take r k n
    unfold pages at ih ⊢
    rw [List.range_succ, List.flatMap_append, ih]
    simp only [List.flatMap_cons, List.flatMap_nil, List.append_nil]
    rw [Nat.succ_mul, List.take_add]

theorem scrollRun_flatten {α : Type} : ∀ (from_ : Nat) (bs : List (List α)),
    (scrollRun from_ bs).flatten = bs.flatten.drop from_
  | _, [] => by simp [scrollRun]
  | f, b :: bs => by
    simp only [scrollRun, List.flatten_cons]
    unfold scrollStep
    by_cases h0 : f = 0
    · subst h0
      simp [scrollRun_flatten 0 bs]
    · simp only [h0, if_false]
      by_cases hlt : f < b.length
      · simp only [hlt, if_true]
        rw [scrollRun_flatten 0 bs, List.drop_append]
        have : f - b.length = 0 := by omega
        simp [this]
      · simp only [hlt, if_false]
        rw [scrollRun_flatten (f - b.length) bs, List.drop_append]
        have : b.drop f = [] := List.drop_of_length_le (by omega)
        simp [this]

theorem headRun_flatten {α : Type} : ∀ (limit sent : Nat) (bs : List (List α)),
    (headRun limit sent bs).flatten = bs.flatten.take (limit - sent)
  | _, _, [] => by simp [headRun]
  | limit, sent, b :: bs => by
    simp only [headRun, List.flatten_cons]
    split
    · rename_i hge
      rw [List.length_take] at hge
      simp only [List.flatten_cons, List.flatten_nil, List.append_nil]
      rw [List.take_append]
      have : limit - sent - b.length = 0 := by omega
      simp [this]
    · rename_i hlt
      rw [List.length_take] at hlt
      have hb : b.length < limit - sent := by omega
      simp only [List.flatten_cons]
      rw [headRun_flatten limit _ bs, List.take_append, List.length_take]
      have h1 : List.take (limit - sent) b = b := List.take_of_length_le (by omega)
      have h2 : min (limit - sent) b.length = b.length := by omega
      rw [h1, h2]
      congr 2
      omega

end SigModel.Lemmas.C05
