import SigModel.Model.OtsdbQuery
/-!
C17, the small request grammars of the OpenTSDB query route (Model/OtsdbQuery.lean): what `indexOf` / `lastIndexOf` /
`splitOn` compute, which texts the tag-list parser accepts, and where the parsers before the repair panicked.
-/
namespace SigModel.Lemmas.C17f
open SigModel.OtsdbQuery

/-! ### first / last occurrence -/

theorem indexOf_none_iff {c : Nat} {s : Bytes} : indexOf c s = none ↔ c ∉ s := by
  induction s with
  | nil => simp [indexOf]
  | cons b r ih =>
    by_cases h : b = c
    · simp [indexOf, h]
    · have hc : ¬ c = b := fun e => h e.symm
      simp [indexOf, h, ih, hc]

/-- `indexOf c s = some i`: position `i` holds `c` and no earlier position does -/
theorem indexOf_some_iff {c : Nat} {s : Bytes} {i : Nat} :
    indexOf c s = some i ↔ ∃ pre post, s = pre ++ c :: post ∧ c ∉ pre ∧ pre.length = i := by
  induction s generalizing i with
  | nil => simp [indexOf]
  | cons b r ih =>
    by_cases h : b = c
    · subst h
      constructor
      · intro e
        simp [indexOf] at e
        exact ⟨[], r, by simp, by simp, by simp [e]⟩
      · rintro ⟨pre, post, e, hn, hl⟩
        cases pre with
        | nil => simp at hl; simp [indexOf, hl]
        | cons p ps =>
          simp at e
          exact absurd (by simp [e.1]) hn
    · constructor
      · intro e
        simp only [indexOf, h, if_false] at e
        cases hr : indexOf c r with
        | none => simp [hr] at e
        | some j =>
          simp [hr] at e
          obtain ⟨pre, post, e1, hn, hl⟩ := ih.mp hr
          refine ⟨b :: pre, post, by simp [e1], ?_, by simp [hl, e]⟩
          intro hm
          simp at hm
          rcases hm with hm | hm
          · exact h hm.symm
          · exact hn hm
      · rintro ⟨pre, post, e, hn, hl⟩
        cases pre with
        | nil => simp at e; exact absurd e.1 h
        | cons p ps =>
          simp at e
          have hn' : c ∉ ps := fun hm => hn (by simp [hm])
          have := ih.mpr ⟨ps, post, e.2, hn', rfl⟩
          simp only [indexOf, h, if_false, this]
          simp at hl
          simp [hl]

theorem lastIndexOf_none_iff {c : Nat} {s : Bytes} : lastIndexOf c s = none ↔ c ∉ s := by
  induction s with
  | nil => simp [lastIndexOf]
  | cons b r ih =>
    cases hr : lastIndexOf c r with
    | some j =>
      have : c ∈ r := by
        by_cases hm : c ∈ r
        · exact hm
        · rw [ih.mpr hm] at hr
          cases hr
      simp [lastIndexOf, hr, this]
    | none =>
      have hn := ih.mp hr
      by_cases h : b = c
      · simp [lastIndexOf, hr, h]
      · have hc : ¬ c = b := fun e => h e.symm
        simp [lastIndexOf, hr, h, hn, hc]

/-- `lastIndexOf c s = some i`: position `i` holds `c` and no later position does -/
theorem lastIndexOf_some_iff {c : Nat} {s : Bytes} {i : Nat} :
    lastIndexOf c s = some i ↔ ∃ pre post, s = pre ++ c :: post ∧ c ∉ post ∧ pre.length = i := by
  induction s generalizing i with
  | nil => simp [lastIndexOf]
  | cons b r ih =>
    cases hr : lastIndexOf c r with
    | some j =>
      obtain ⟨pre, post, e1, hn, hl⟩ := ih.mp hr
      constructor
      · intro e
        simp [lastIndexOf, hr] at e
        exact ⟨b :: pre, post, by simp [e1], hn, by simp [hl, e]⟩
      · rintro ⟨pre', post', e, hn', hl'⟩
        simp only [lastIndexOf, hr]
        cases pre' with
        | nil =>
          simp at e
          have : c ∈ r := by rw [e1]; simp
          rw [e.2] at this
          exact absurd this hn'
        | cons p ps =>
          simp at e
          have := ih.mpr ⟨ps, post', e.2, hn', rfl⟩
          rw [hr] at this
          simp at this hl'
          simp [this, hl']
    | none =>
      have hn := lastIndexOf_none_iff.mp hr
      by_cases h : b = c
      · subst h
        constructor
        · intro e
          simp [lastIndexOf, hr] at e
          exact ⟨[], r, by simp, hn, by simp [e]⟩
        · rintro ⟨pre', post', e, _, hl'⟩
          cases pre' with
          | nil => simp at hl'; simp [lastIndexOf, hr, hl']
          | cons p ps =>
            simp at e
            exact absurd (by rw [e.2]; simp) hn
      · constructor
        · intro e
          simp [lastIndexOf, hr, h] at e
        · rintro ⟨pre', post', e, _, _⟩
          cases pre' with
          | nil => simp at e; exact absurd e.1 h
          | cons p ps =>
            simp at e
            exact absurd (by rw [e.2]; simp) hn

/-! ### Split -/

theorem splitOn_ne_nil (c : Nat) (s : Bytes) : splitOn c s ≠ [] := by
  induction s with
  | nil => simp [splitOn]
  | cons b r ih =>
    cases h : splitOn c r with
    | nil => exact absurd h ih
    | cons p ps =>
      simp only [splitOn, h]
      split <;> simp

/-- `strings.Split` cuts at every separator: one piece more than there are separators -/
theorem splitOn_length (c : Nat) (s : Bytes) : (splitOn c s).length = s.count c + 1 := by
  induction s with
  | nil => simp [splitOn]
  | cons b r ih =>
    cases h : splitOn c r with
    | nil => exact absurd h (splitOn_ne_nil c r)
    | cons p ps =>
      rw [h] at ih
      simp only [splitOn, h]
      by_cases hb : b = c
      · subst hb
        simp at ih ⊢
        omega
      · simp [hb] at ih ⊢
        exact ih

/-! ### the tag list -/

theorem parseTag_isSome_iff (op : LogOp) (item : Bytes) :
    (parseTag op item).isSome = true ↔ (splitOn 61 item).length = 2 := by
  unfold parseTag
  split
  · rename_i k vs h
    simp [h]
  · rename_i h
    constructor
    · intro e; simp at e
    · intro e
      exfalso
      match hs : splitOn 61 item, e with
      | [k, vs], _ => exact h k vs hs

theorem parseTags_isSome_iff (op : LogOp) (items : List Bytes) :
    (parseTags op items).isSome = true ↔ ∀ item ∈ items, (splitOn 61 item).length = 2 := by
  induction items generalizing op with
  | nil => simp [parseTags]
  | cons item rest ih =>
    simp only [parseTags]
    cases hp : parseTag op item with
    | none =>
      have : ¬ (splitOn 61 item).length = 2 := by
        intro e
        have := (parseTag_isSome_iff op item).mpr e
        simp [hp] at this
      simp [this]
    | some r =>
      obtain ⟨op', fs⟩ := r
      have h2 : (splitOn 61 item).length = 2 := (parseTag_isSome_iff op item).mp (by simp [hp])
      simp [Option.isSome_map, ih op', h2]

/-- a tag item is accepted iff it holds exactly one '=' -/
theorem parseTags_isSome_iff_count (op : LogOp) (items : List Bytes) :
    (parseTags op items).isSome = true ↔ ∀ item ∈ items, item.count 61 = 1 := by
  rw [parseTags_isSome_iff]
  constructor
  · intro h item hm
    have := h item hm
    rw [splitOn_length] at this
    omega
  · intro h item hm
    rw [splitOn_length, h item hm]

/-! ### parseMetricTag -/

/-- the text between the first '{' (at `ts`) and the first '}' (at `te`) -/
def inner (m : Bytes) (ts te : Nat) : Bytes := (m.drop (ts + 1)).take (te - (ts + 1))

theorem parseMetricTag_isOk_iff (m : Bytes) :
    (parseMetricTag m).isOk = true ↔
      ∃ ts te, indexOf 123 m = some ts ∧ indexOf 125 m = some te ∧ ts < te ∧
        ∀ item ∈ splitOn 44 (inner m ts te), item.count 61 = 1 := by
  unfold parseMetricTag
  cases hs : indexOf 123 m with
  | none => simp [Outcome.isOk]
  | some ts =>
    cases he : indexOf 125 m with
    | none => simp [Outcome.isOk]
    | some te =>
      have hne : ts ≠ te := by
        intro e
        subst e
        obtain ⟨p1, q1, e1, _, l1⟩ := indexOf_some_iff.mp hs
        obtain ⟨p2, q2, e2, _, l2⟩ := indexOf_some_iff.mp he
        have h1 : m[ts]? = some 123 := by rw [e1, ← l1]; simp
        have h2 : m[ts]? = some 125 := by rw [e2, ← l2]; simp
        rw [h1] at h2
        cases h2
      simp only []
      by_cases hlt : te < ts
      · simp only [hlt, if_true, Outcome.isOk]
        constructor
        · intro e; cases e
        · rintro ⟨ts', te', e1, e2, hl, _⟩
          simp at e1 e2
          omega
      · simp only [hlt, if_false]
        have hlt' : ts < te := by omega
        cases hp : parseTags .and (splitOn 44 ((m.drop (ts + 1)).take (te - (ts + 1)))) with
        | some fs =>
          have := (parseTags_isSome_iff_count .and _).mp (by rw [hp]; rfl)
          simp only [Outcome.isOk]
          constructor
          · intro _; exact ⟨ts, te, rfl, rfl, hlt', this⟩
          · intro _; trivial
        | none =>
          simp only [Outcome.isOk]
          constructor
          · intro e; cases e
          · rintro ⟨ts', te', e1, e2, _, hall⟩
            simp at e1 e2
            subst e1 e2
            have := (parseTags_isSome_iff_count .and _).mpr hall
            unfold inner at this
            simp [hp] at this

theorem parseMetricTag_never_panics (m : Bytes) : parseMetricTag m ≠ .panic := by
  unfold parseMetricTag
  split
  · split
    · simp
    · split <;> simp
  · simp

theorem parseAggDs_never_panics (m : Bytes) : parseAggDs m ≠ .panic := by
  unfold parseAggDs
  split
  · simp
  · split <;> simp
  · split
    · simp
    · split
      · simp
      · split <;> simp
  · simp

/-- the metric name of an accepted text holds no ':' -/
theorem metricOf_no_colon (pre : Bytes) : 58 ∉ metricOf pre := by
  unfold metricOf
  cases h : lastIndexOf 58 pre with
  | none => exact lastIndexOf_none_iff.mp h
  | some i =>
    obtain ⟨p, q, e, hn, hl⟩ := lastIndexOf_some_iff.mp h
    simp only []
    have : pre.drop (i + 1) = q := by
      rw [e, ← hl]
      simp
    rw [this]
    exact hn

/-- where the parser before the repair panicked: a ':' at or behind the first '{', or the first '}' in front of the
first '{' -/
theorem parseMetricTagOld_panic_iff (m : Bytes) :
    parseMetricTagOld m = .panic ↔
      (∃ i ts, lastIndexOf 58 m = some i ∧ indexOf 123 m = some ts ∧ ts ≤ i) ∨
      (∃ ts te, indexOf 123 m = some ts ∧ indexOf 125 m = some te ∧ te < ts) := by
  unfold parseMetricTagOld
  cases hc : lastIndexOf 58 m with
  | none =>
    simp only [Nat.not_lt_zero, if_false, Option.getD]
    cases hs : indexOf 123 m with
    | none => simp
    | some ts =>
      cases he : indexOf 125 m with
      | none => simp
      | some te =>
        simp only []
        by_cases hlt : te < ts + 1
        · simp only [hlt, if_true, true_iff]
          right
          refine ⟨ts, te, rfl, rfl, ?_⟩
          have hne : ts ≠ te := by
            intro e
            subst e
            obtain ⟨p1, q1, e1, _, l1⟩ := indexOf_some_iff.mp hs
            obtain ⟨p2, q2, e2, _, l2⟩ := indexOf_some_iff.mp he
            have h1 : m[ts]? = some 123 := by rw [e1, ← l1]; simp
            have h2 : m[ts]? = some 125 := by rw [e2, ← l2]; simp
            rw [h1] at h2
            cases h2
          omega
        · simp only [hlt, if_false]
          constructor
          · intro e
            split at e <;> cases e
          · rintro (⟨i, ts', e1, _⟩ | ⟨ts', te', e1, e2, hl⟩)
            · cases e1
            · simp at e1 e2
              omega
  | some i =>
    simp only []
    cases hs : indexOf 123 m with
    | none =>
      have hle : ¬ (i + 1 > m.length) := by
        obtain ⟨p, q, e, _, hl⟩ := lastIndexOf_some_iff.mp hc
        rw [e, ← hl]
        simp
      simp [Option.getD, hle]
    | some ts =>
      simp only [Option.getD]
      by_cases hgt : i + 1 > ts
      · simp only [hgt, if_true, true_iff]
        left
        exact ⟨i, ts, rfl, rfl, by omega⟩
      · simp only [hgt, if_false]
        cases he : indexOf 125 m with
        | none =>
          simp
          omega
        | some te =>
          simp only []
          by_cases hlt : te < ts + 1
          · simp only [hlt, if_true, true_iff]
            right
            refine ⟨ts, te, rfl, rfl, ?_⟩
            have hne : ts ≠ te := by
              intro e
              subst e
              obtain ⟨p1, q1, e1, _, l1⟩ := indexOf_some_iff.mp hs
              obtain ⟨p2, q2, e2, _, l2⟩ := indexOf_some_iff.mp he
              have h1 : m[ts]? = some 123 := by rw [e1, ← l1]; simp
              have h2 : m[ts]? = some 125 := by rw [e2, ← l2]; simp
              rw [h1] at h2
              cases h2
            omega
          · simp only [hlt, if_false]
            constructor
            · intro e
              split at e <;> cases e
            · rintro (⟨i', ts', e1, e2, hl⟩ | ⟨ts', te', e1, e2, hl⟩)
              · simp at e1 e2
                omega
              · simp at e1 e2
                omega

/-! ### relative times -/

theorem ago_never_panics (s : Bytes) : ago s ≠ .panic := by
  unfold ago
  split
  · dsimp only
    split
    · simp
    · split <;> simp
  · simp

theorem agoOld_eq_ago_of_ne_panic (s : Bytes) (h : agoOld s ≠ .panic) : agoOld s = ago s := by
  unfold agoOld at h ⊢
  unfold ago
  split
  · dsimp only at h ⊢
    split
    · rename_i h1 h2
      simp [h1, h2] at h
    · rfl
  · rfl

/-! ### the repair changes nothing else -/

theorem lastIndexOf_take {c : Nat} {m : Bytes} {i n : Nat} (h : lastIndexOf c m = some i) (hi : i + 1 ≤ n) :
    lastIndexOf c (m.take n) = some i := by
  obtain ⟨p, q, e, hn, hl⟩ := lastIndexOf_some_iff.mp h
  refine lastIndexOf_some_iff.mpr ⟨p, q.take (n - (i + 1)), ?_, ?_, hl⟩
  · rw [e, List.take_append, List.take_of_length_le (by omega)]
    congr 1
    have : n - p.length = (n - (i + 1)) + 1 := by omega
    rw [this, List.take_succ_cons]
  · intro hm
    exact hn (List.mem_of_mem_take hm)

theorem lastIndexOf_take_none {c : Nat} {m : Bytes} (n : Nat) (h : lastIndexOf c m = none) :
    lastIndexOf c (m.take n) = none :=
  lastIndexOf_none_iff.mpr (fun hm => lastIndexOf_none_iff.mp h (List.mem_of_mem_take hm))

/-- wherever the parser before the repair returned (a value or an error), the repaired one returns the same -/
theorem parseMetricTagOld_eq_of_ne_panic (m : Bytes) (h : parseMetricTagOld m ≠ .panic) :
    parseMetricTagOld m = parseMetricTag m := by
  have hp := mt (parseMetricTagOld_panic_iff m).mpr h
  unfold parseMetricTagOld at h ⊢
  unfold parseMetricTag
  cases hs : indexOf 123 m with
  | none =>
    cases hc : lastIndexOf 58 m with
    | none => simp [Option.getD]
    | some i =>
      have hle : ¬ (i + 1 > m.length) := by
        obtain ⟨p, q, e, _, hl⟩ := lastIndexOf_some_iff.mp hc
        rw [e, ← hl]
        simp
      simp [Option.getD, hle]
  | some ts =>
    cases he : indexOf 125 m with
    | none =>
      cases hc : lastIndexOf 58 m with
      | none => simp [Option.getD]
      | some i =>
        have hgt : ¬ i + 1 > ts := by
          intro hg
          exact hp (Or.inl ⟨i, ts, hc, hs, by omega⟩)
        simp [Option.getD, hgt]
    | some te =>
      have h1 : ¬ te < ts := fun hl => hp (Or.inr ⟨ts, te, hs, he, hl⟩)
      have hne : ts ≠ te := by
        intro e
        subst e
        obtain ⟨p1, q1, e1, _, l1⟩ := indexOf_some_iff.mp hs
        obtain ⟨p2, q2, e2, _, l2⟩ := indexOf_some_iff.mp he
        have h1 : m[ts]? = some 123 := by rw [e1, ← l1]; simp
        have h2 : m[ts]? = some 125 := by rw [e2, ← l2]; simp
        rw [h1] at h2
        cases h2
      have h2 : ¬ te < ts + 1 := by omega
      cases hc : lastIndexOf 58 m with
      | none =>
        simp only [Option.getD, Nat.not_lt_zero, if_false, h1, h2]
        cases hpt : parseTags .and (splitOn 44 ((m.drop (ts + 1)).take (te - (ts + 1)))) with
        | none => rfl
        | some fs =>
          simp only [metricOf, lastIndexOf_take_none ts hc]
          simp
      | some i =>
        have hi : i + 1 ≤ ts := by
          by_cases hle : i + 1 ≤ ts
          · exact hle
          · exact absurd (Or.inl ⟨i, ts, hc, hs, by omega⟩) hp
        have hgt : ¬ i + 1 > ts := by omega
        simp only [Option.getD, hgt, if_false, h1, h2]
        cases hpt : parseTags .and (splitOn 44 ((m.drop (ts + 1)).take (te - (ts + 1)))) with
        | none => rfl
        | some fs =>
          simp only [metricOf, lastIndexOf_take hc hi]

theorem agoOld_panic_iff (s : Bytes) : agoOld s = .panic ↔ s = agoSuffix := by
  unfold agoOld
  constructor
  · intro h
    split at h
    · rename_i hsuf
      dsimp only at h
      split at h
      · rename_i hd
        have hsuf' : agoSuffix.length ≤ s.length ∧ s.drop (s.length - agoSuffix.length) = agoSuffix := by
          simpa [hasSuffix] using hsuf
        have hl : s.length - 4 = 0 := by
          rcases List.take_eq_nil_iff.mp hd with h0 | h0
          · exact h0
          · subst h0; rfl
        have h4 : agoSuffix.length = 4 := rfl
        have := hsuf'.2
        rw [h4, hl] at this
        simpa using this
      · split at h <;> cases h
    · cases h
  · intro h
    subst h
    decide

theorem hasSuffix_iff (s suf : Bytes) : hasSuffix s suf = true ↔ ∃ d, s = d ++ suf := by
  constructor
  · intro h
    have h' : suf.length ≤ s.length ∧ s.drop (s.length - suf.length) = suf := by simpa [hasSuffix] using h
    refine ⟨s.take (s.length - suf.length), ?_⟩
    conv => lhs; rw [← List.take_append_drop (s.length - suf.length) s]
    rw [h'.2]
  · rintro ⟨d, rfl⟩
    simp [hasSuffix]

/-- the relative times the parser accepts: `[+-]digits`, one of the units s m h d w n y, "-ago" -/
theorem ago_relOk_iff (s : Bytes) :
    ago s = .relOk ↔ ∃ n u, s = n ++ u :: agoSuffix ∧ u ∈ timeUnits ∧ atoiOk n = true := by
  unfold ago
  constructor
  · intro h
    split at h
    · rename_i hsuf
      obtain ⟨d, rfl⟩ := (hasSuffix_iff s agoSuffix).mp hsuf
      have hd : (d ++ agoSuffix).take ((d ++ agoSuffix).length - 4) = d := by
        simp [agoSuffix]
      dsimp only at h
      rw [hd] at h
      split at h
      · cases h
      · split at h
        · rename_i hne hdur
          unfold durationOk at hdur
          cases hg : d.getLast? with
          | none => simp [hg] at hdur
          | some u =>
            simp only [hg, Bool.decide_and, Bool.and_eq_true, decide_eq_true_eq] at hdur
            refine ⟨d.dropLast, u, ?_, by simpa using hdur.1, hdur.2⟩
            have : d = d.dropLast ++ [u] := by
              have hne' : d ≠ [] := hne
              rw [List.getLast?_eq_some_getLast hne'] at hg
              have hu : d.getLast hne' = u := by simpa using hg
              rw [← hu]
              exact (List.dropLast_concat_getLast hne').symm
            conv => lhs; rw [this]
            simp
        · cases h
    · cases h
  · rintro ⟨n, u, rfl, hu, hn⟩
    have hsuf : hasSuffix (n ++ u :: agoSuffix) agoSuffix = true :=
      (hasSuffix_iff _ _).mpr ⟨n ++ [u], by simp⟩
    have hd : (n ++ u :: agoSuffix).take ((n ++ u :: agoSuffix).length - 4) = n ++ [u] := by
      have : (n ++ u :: agoSuffix) = (n ++ [u]) ++ agoSuffix := by simp
      rw [this]
      have h4 : agoSuffix.length = 4 := rfl
      rw [List.length_append, h4, Nat.add_sub_cancel, List.take_left']
      rfl
    simp only [hsuf, if_true]
    rw [hd]
    have hne : ¬ (n ++ [u] = []) := by simp
    have hdur : durationOk (n ++ [u]) = true := by
      unfold durationOk
      simp [hn]
      simpa using hu
    simp [hne, hdur]

end SigModel.Lemmas.C17f
