/-
C09 helper lemmas, part 5: relations between the aggregation functions, grouping by all labels, buckets.
-/
import SigModel.Lemmas.C09d

namespace SigModel.Lemmas.C09
open SigModel.Promql

/-! ### rational bounds -/

theorem intCast_le_div {m s : Int} {n : Nat} (hn : 0 < n) (h : m * (n : Int) ≤ s) :
    (m : Rat) ≤ (s : Rat) / (n : Rat) := by
  have hn' : (0 : Rat) < (n : Rat) := Rat.natCast_pos.2 hn
  have hne : (n : Rat) ≠ 0 := fun e => by rw [e] at hn'; exact Rat.lt_irrefl hn'
  have h1 : (m : Rat) * (n : Rat) ≤ (s : Rat) := by
    have := Rat.intCast_le_intCast.2 h
    rwa [Rat.intCast_mul, Rat.intCast_natCast] at this
  have h2 : (m : Rat) = (m : Rat) * (n : Rat) / (n : Rat) := (Rat.mul_div_cancel hne).symm
  rw [h2, Rat.div_def, Rat.div_def]
  exact Rat.mul_le_mul_of_nonneg_right h1 (Rat.le_of_lt (Rat.inv_pos.2 hn'))

theorem div_le_intCast {m s : Int} {n : Nat} (hn : 0 < n) (h : s ≤ m * (n : Int)) :
    (s : Rat) / (n : Rat) ≤ (m : Rat) := by
  have hn' : (0 : Rat) < (n : Rat) := Rat.natCast_pos.2 hn
  have hne : (n : Rat) ≠ 0 := fun e => by rw [e] at hn'; exact Rat.lt_irrefl hn'
  have h1 : (s : Rat) ≤ (m : Rat) * (n : Rat) := by
    have := Rat.intCast_le_intCast.2 h
    rwa [Rat.intCast_mul, Rat.intCast_natCast] at this
  have h2 : (m : Rat) = (m : Rat) * (n : Rat) / (n : Rat) := (Rat.mul_div_cancel hne).symm
  rw [h2, Rat.div_def, Rat.div_def]
  exact Rat.mul_le_mul_of_nonneg_right h1 (Rat.le_of_lt (Rat.inv_pos.2 hn'))

/-! ### min ≤ avg ≤ max -/

def withFn (q : Query) (fn : Fn) : Query := { q with fn := fn }

theorem members_withFn {q : Query} {f1 f2 : Fn} (h1 : f1 ≠ .count) (h2 : f2 ≠ .count)
    (ss : List Series) (g : Str) (t : Nat) :
    members (withFn q f1) ss g t = members (withFn q f2) ss g t := by
  unfold members groupOf sidOf withFn
  simp [h1, h2]

theorem members_samples_ne_nil {q : Query} {ss : List Series} {g : Str} {t : Nat} {s : Series}
    (h : s ∈ members q ss g t) : samplesAt q.step t s.pts ≠ [] := by
  unfold members at h
  rw [List.mem_filter] at h
  have := h.2
  simp only [Bool.and_eq_true, decide_eq_true_eq, Bool.not_eq_true', List.isEmpty_eq_false_iff] at this
  exact this.2

theorem min_avg_max_members (step t : Nat) (ms : List Series) (hne : ms ≠ [])
    (hs : ∀ s ∈ ms, samplesAt step t s.pts ≠ []) :
    specValue .min step t ms ≤ specValue .avg step t ms ∧ specValue .avg step t ms ≤ specValue .max step t ms := by
  simp only [specValue]
  -- the total number of samples is positive
  have hN : 0 < ((ms.map (fun s => samplesAt step t s.pts)).map List.length).sum := by
    cases ms with
    | nil => exact absurd rfl hne
    | cons s ms =>
      have : samplesAt step t s.pts ≠ [] := hs s (by simp)
      have : 0 < (samplesAt step t s.pts).length := List.length_pos_iff.2 this
      simp only [List.map_cons, List.sum_cons]
      omega
  constructor
  · apply intCast_le_div hN
    apply mul_total_le
    intro L hL v hv
    have h1 : minL L ∈ (ms.map (fun s => samplesAt step t s.pts)).map minL := List.mem_map.2 ⟨L, hL, rfl⟩
    exact Int.le_trans (minL_le h1) (minL_le hv)
  · apply div_le_intCast hN
    apply total_le_mul
    intro L hL v hv
    have h1 : maxL L ∈ (ms.map (fun s => samplesAt step t s.pts)).map maxL := List.mem_map.2 ⟨L, hL, rfl⟩
    exact Int.le_trans (le_maxL hv) (le_maxL h1)

theorem aggAt_noncount {q : Query} (hfn : q.fn ≠ .count) (ss : List Series) (g : Str) (t : Nat) :
    aggAt q ss g t =
      if (members q ss g t).isEmpty then none else some (specValue q.fn q.step t (members q ss g t)) := by
  rw [aggAt_members]
  simp only
  cases hm : (members q ss g t).isEmpty with
  | true => simp
  | false =>
    simp only [Bool.false_eq_true, if_false]
    congr 1
    cases hq : q.fn with
    | count => exact absurd hq hfn
    | sum => simpa using reduceRunning_spec .sum (by decide) q.step t _
    | avg => simpa using reduceRunning_spec .avg (by decide) q.step t _
    | min => simpa using reduceRunning_spec .min (by decide) q.step t _
    | max => simpa using reduceRunning_spec .max (by decide) q.step t _

/-! ### avg = sum / count -/

theorem samplesAt_length_le_one {step t : Nat} {pts : List (Nat × Int)}
    (h : (pts.map (fun p => bucket p.1 step)).Nodup) : (samplesAt step t pts).length ≤ 1 := by
  unfold samplesAt
  rw [List.length_map]
  induction pts with
  | nil => simp
  | cons p ps ih =>
    simp only [List.map_cons, List.nodup_cons] at h
    have ih' := ih h.2
    by_cases e : bucket p.1 step = t
    · have : ps.filter (fun p => bucket p.1 step == t) = [] := by
        rw [List.filter_eq_nil_iff]
        intro p' hp' hb
        exact h.1 (List.mem_map.2 ⟨p', hp', by rw [e]; simpa using hb⟩)
      simp [e, this]
    · simp [e]; exact ih'

theorem total_length_of_single {step t : Nat} {ms : List Series}
    (hs : ∀ s ∈ ms, samplesAt step t s.pts ≠ [])
    (h1 : ∀ s ∈ ms, (s.pts.map (fun p => bucket p.1 step)).Nodup) :
    ((ms.map (fun s => samplesAt step t s.pts)).map List.length).sum = ms.length := by
  induction ms with
  | nil => rfl
  | cons s ms ih =>
    have a := samplesAt_length_le_one (t := t) (h1 s (by simp))
    have b : 0 < (samplesAt step t s.pts).length := List.length_pos_iff.2 (hs s (by simp))
    have := ih (fun s m => hs s (by simp [m])) (fun s m => h1 s (by simp [m]))
    simp only [List.map_cons, List.sum_cons, List.length_cons, this]
    omega

theorem avg_sum_count_members (step t : Nat) (ms : List Series)
    (hs : ∀ s ∈ ms, samplesAt step t s.pts ≠ [])
    (h1 : ∀ s ∈ ms, (s.pts.map (fun p => bucket p.1 step)).Nodup) :
    specValue .avg step t ms = specValue .sum step t ms / specValue .count step t ms := by
  simp only [specValue, total_length_of_single hs h1]

theorem members_count_fields {q : Query} (hf : q.fields ≠ []) (fn : Fn) (ss : List Series) (g : Str) (t : Nat) :
    members (withFn q fn) ss g t = members (withFn q .count) ss g t := by
  unfold members groupOf sidOf withFn
  simp [hf]

theorem aggAt_count_fields {q : Query} (hfn : q.fn = .count) (hf : q.fields ≠ []) (ss : List Series) (g : Str) (t : Nat) :
    aggAt q ss g t =
      if (members q ss g t).isEmpty then none else some (specValue .count q.step t (members q ss g t)) := by
  rw [aggAt_members]
  simp only [hfn, specValue]

/-! ### grouping by all labels -/

theorem lookup_eq_some_iff {l : Labels} (hn : (l.map (·.1)).Nodup) {k v : Str} :
    l.lookup k = some v ↔ (k, v) ∈ l := by
  constructor
  · exact mem_of_lookup
  · intro h
    induction l with
    | nil => cases h
    | cons kv l ih =>
      obtain ⟨k', v'⟩ := kv
      simp only [List.map_cons, List.nodup_cons] at hn
      simp only [List.lookup]
      by_cases e : k = k'
      · subst e
        rcases List.mem_cons.1 h with e | m
        · simp at e; simp [e]
        · exact absurd (List.mem_map.2 ⟨(k, v), m, rfl⟩) hn.1
      · have : (k == k') = false := by simpa using e
        simp only [this]
        rcases List.mem_cons.1 h with e' | m
        · simp at e'; exact absurd e'.1 e
        · exact ih hn.2 m

theorem sameLabelSet_iff {l1 l2 : Labels} : sameLabelSet l1 l2 = true ↔ ∀ kv, kv ∈ l1 ↔ kv ∈ l2 := by
  unfold sameLabelSet
  simp only [Bool.and_eq_true, List.all_eq_true, List.contains_iff_mem]
  constructor
  · rintro ⟨a, b⟩ kv; exact ⟨a kv, b kv⟩
  · intro h; exact ⟨fun kv m => (h kv).1 m, fun kv m => (h kv).2 m⟩

theorem spec_by_all_eq_iff {fields : List Str} {l1 l2 : Labels}
    (hn1 : (l1.map (·.1)).Nodup) (hn2 : (l2.map (·.1)).Nodup)
    (ha1 : ∀ kv ∈ l1, kv.1 ∈ fields) (ha2 : ∀ kv ∈ l2, kv.1 ∈ fields) :
    specGroupKey fields false l1 = specGroupKey fields false l2 ↔ ∀ kv, kv ∈ l1 ↔ kv ∈ l2 := by
  have key : ∀ {la lb : Labels}, (la.map (·.1)).Nodup → (lb.map (·.1)).Nodup → (∀ kv ∈ la, kv.1 ∈ fields) →
      specGroupKey fields false la = specGroupKey fields false lb → ∀ kv, kv ∈ la → kv ∈ lb := by
    intro la lb hna hnb haa he kv hkv
    obtain ⟨k, v⟩ := kv
    have hk : k ∈ fields := haa (k, v) hkv
    have hm : (k, v) ∈ specGroupKey fields false la := by
      simp only [specGroupKey, Bool.false_eq_true, if_false, List.mem_filterMap]
      exact ⟨k, hk, by simp [(lookup_eq_some_iff hna).2 hkv]⟩
    rw [he] at hm
    simp only [specGroupKey, Bool.false_eq_true, if_false, List.mem_filterMap] at hm
    obtain ⟨f, _, hfm⟩ := hm
    cases hl : lb.lookup f with
    | none => simp [hl] at hfm
    | some v' =>
      simp [hl] at hfm
      obtain ⟨rfl, rfl⟩ := hfm
      exact mem_of_lookup hl
  constructor
  · intro he kv
    exact ⟨key hn1 hn2 ha1 he kv, key hn2 hn1 ha2 he.symm kv⟩
  · intro h
    simp only [specGroupKey, Bool.false_eq_true, if_false]
    apply filterMap_congr'
    intro f _
    have : l1.lookup f = l2.lookup f := by
      cases h1 : l1.lookup f with
      | none =>
        cases h2 : l2.lookup f with
        | none => rfl
        | some v =>
          have := (lookup_eq_some_iff hn1).2 ((h (f, v)).2 (mem_of_lookup h2))
          rw [h1] at this; cases this
      | some v =>
        exact ((lookup_eq_some_iff hn2).2 ((h (f, v)).1 (mem_of_lookup h1))).symm
    rw [this]

/-! ### buckets -/

theorem bucket_le (ts step : Nat) : bucket ts step ≤ ts := Nat.div_mul_le_self ts step

theorem lt_bucket_add (ts : Nat) {step : Nat} (h : 0 < step) : ts < bucket ts step + step := by
  unfold bucket
  have h1 := Nat.div_add_mod ts step
  have h2 := Nat.mod_lt ts h
  have h3 : step * (ts / step) = ts / step * step := Nat.mul_comm _ _
  omega

theorem dvd_bucket (ts step : Nat) : step ∣ bucket ts step := Nat.dvd_mul_left step (ts / step)

end SigModel.Lemmas.C09
