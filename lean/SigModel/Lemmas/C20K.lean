/-
C20 (keyed-store half) — helper lemmas: association lists, the saved-query store (Usq).
-/
import SigModel.Model.KV

namespace SigModel.Lemmas.C20K
open SigModel.KV

/-! ### association lists -/
section AL
variable {K V : Type} [DecidableEq K]

theorem get_put (l : AL K V) (k : K) (v : V) (k' : K) :
    (l.put k v).get k' = if k' = k then some v else l.get k' := by
  induction l with
  | nil => simp [AL.put, AL.get]; split <;> simp_all [eq_comm]
  | cons p r ih =>
    obtain ⟨a, b⟩ := p
    simp only [AL.put]
    by_cases h : a = k
    · subst h; simp only [if_true, AL.get]; by_cases h2 : a = k' <;> simp [h2, eq_comm]
      intro h3; exact absurd h3.symm h2
    · simp only [h, if_false, AL.get]
      by_cases h2 : a = k'
      · subst h2; simp [h]
      · simp [h2, ih]

theorem get_del (l : AL K V) (k k' : K) :
    (l.del k).get k' = if k' = k then none else l.get k' := by
  induction l with
  | nil => simp [AL.del, AL.get]
  | cons p r ih =>
    obtain ⟨a, b⟩ := p
    simp only [AL.del, List.filter] at ih ⊢
    by_cases h : a = k
    · subst h; simp only [decide_true, Bool.not_true]
      rw [ih]; by_cases h2 : k' = a
      · simp [h2]
      · simp [h2, AL.get, Ne.symm h2]
    · simp only [h, decide_false, Bool.not_false, AL.get]
      by_cases h2 : a = k'
      · subst h2; simp [h]
      · simp [h2, ih]

theorem keys_put_nodup (l : AL K V) (k : K) (v : V) (h : l.keys.Nodup) : (l.put k v).keys.Nodup := by
  induction l with
  | nil => simp [AL.put, AL.keys]
  | cons p r ih =>
    obtain ⟨a, b⟩ := p
    simp only [AL.keys, List.map_cons, List.nodup_cons] at h
    simp only [AL.put]
    by_cases hk : a = k
    · subst hk; simpa [AL.keys] using h
    · simp only [hk, if_false, AL.keys, List.map_cons, List.nodup_cons]
      refine ⟨?_, ih h.2⟩
      intro hm
      have : ∀ (l : AL K V), a ∈ (l.put k v).keys → a ∈ l.keys := by
        intro l
        induction l with
        | nil => simp [AL.put, AL.keys, hk]
        | cons q s ih2 =>
          obtain ⟨c, d⟩ := q
          simp only [AL.put]
          by_cases hc : c = k
          · subst hc; simp [AL.keys]
          · simp only [hc, if_false, AL.keys, List.map_cons, List.mem_cons]
            intro h; rcases h with h | h
            · exact Or.inl h
            · exact Or.inr (ih2 h)
      exact h.1 (this r hm)

theorem keys_del_nodup (l : AL K V) (k : K) (h : l.keys.Nodup) : (l.del k).keys.Nodup := by
  unfold AL.del AL.keys at *
  exact (List.Nodup.sublist ((List.filter_sublist).map _) h)

omit [DecidableEq K] in
theorem keys_filter_nodup (l : AL K V) (p : K × V → Bool) (h : l.keys.Nodup) : (AL.keys (l.filter p)).Nodup := by
  unfold AL.keys at *
  exact (List.Nodup.sublist ((List.filter_sublist).map _) h)

/-- with duplicate-free keys, membership is lookup -/
theorem mem_iff_get (l : AL K V) (h : l.keys.Nodup) (k : K) (v : V) : (k, v) ∈ l ↔ l.get k = some v := by
  induction l with
  | nil => simp [AL.get]
  | cons p r ih =>
    obtain ⟨a, b⟩ := p
    simp only [AL.keys, List.map_cons, List.nodup_cons] at h
    simp only [List.mem_cons, AL.get, Prod.mk.injEq]
    by_cases hk : a = k
    · subst hk; simp only [if_true, Option.some.injEq, true_and]
      constructor
      · rintro (h1 | h1)
        · exact h1.symm
        · exact absurd (List.mem_map_of_mem (f := Prod.fst) h1) h.1
      · intro h1; exact Or.inl h1.symm
    · simp only [hk, if_false]
      rw [← ih h.2]
      constructor
      · rintro (h1 | h1)
        · exact absurd h1.1.symm hk
        · exact h1
      · exact Or.inr
end AL


/-! ### saved queries -/
namespace Usq
open SigModel.KV.Usq
variable {V : Type}

/-- the memory image of every org equals its file image (or was not loaded yet); names are unique -/
structure Inv (st : St V) : Prop where
  sync : ∀ t, st.mem t = st.file t ∨ (st.mem t = none ∧ st.read t = false)
  nodup : ∀ t m, st.file t = some m → m.keys.Nodup

theorem inv_init : Inv (init : St V) := ⟨fun _ => Or.inl rfl, fun _ _ h => by simp [init] at h⟩

theorem view_eq_file {st : St V} (h : Inv st) (t : Nat) : view st t = st.file t := by
  unfold view
  rcases h.sync t with h1 | ⟨h1, h2⟩
  · by_cases hr : st.read t = true
    · simp [hr, h1]
    · simp only [hr]; cases hf : st.file t <;> simp [h1, hf]
  · simp only [h2]; cases hf : st.file t <;> simp [h1]

theorem getD_get (o : Option (AL Key V)) (k : Key) : (o.getD []).get k = o.bind (fun m => m.get k) := by
  cases o <;> simp [AL.get]

theorem abs_eq_file {st : St V} (h : Inv st) (t : Nat) (k : Key) :
    abs st t k = (st.file t).bind (fun m => m.get k) := by
  unfold abs; rw [view_eq_file h]

/-- effect of `readSavedQueries` on a well-formed state: afterwards memory = file for that org,
nothing else changes -/
theorem readSaved_spec {st : St V} (h : Inv st) (t : Nat) (b : Bool) :
    Inv (readSaved st t b) ∧ (readSaved st t b).file = st.file ∧ (readSaved st t b).mem t = st.file t := by
  unfold readSaved
  cases hf : st.file t with
  | none =>
    refine ⟨h, rfl, ?_⟩
    rcases h.sync t with h1 | ⟨h1, _⟩
    · rw [h1, hf]
    · exact h1
  | some f =>
    by_cases hc : st.read t = false ∨ b = true
    · simp only [hc, if_true]
      refine ⟨⟨?_, h.nodup⟩, by trivial, by simp [upd]⟩
      intro t'
      by_cases ht : t' = t
      · subst ht; left; simp [upd, hf]
      · simp only [upd, ht, if_false]; exact h.sync t'
    · simp only [hc, if_false]
      refine ⟨h, by trivial, ?_⟩
      rcases h.sync t with h1 | ⟨_, h2⟩
      · rw [h1, hf]
      · exact absurd (Or.inl h2) hc

theorem nodup_getD {st : St V} (h : Inv st) (t : Nat) : ((st.file t).getD []).keys.Nodup := by
  cases hf : st.file t with
  | none => simp [AL.keys]
  | some m => exact h.nodup t m hf

/-- one step: the invariant is kept, `abs` commutes with the step, the output is the documented one -/
theorem step_ok {st : St V} (h : Inv st) (op : Op V) (b : Bool) :
    Inv (step st op b).1 ∧ abs (step st op b).1 = specStep (abs st) op ∧ OutOk (abs st) op (step st op b).2 := by
  cases op with
  | put t k v =>
    by_cases hk : k = []
    · simp [step, hk, specStep, OutOk, h]
    · obtain ⟨h1, hfile, hmem⟩ := readSaved_spec h t b
      simp only [step, hk, if_false]
      have hinv : Inv ({ readSaved st t b with
          mem := upd (readSaved st t b).mem t (some ((((readSaved st t b).mem t).getD []).put k v)),
          file := upd (readSaved st t b).file t (some ((((readSaved st t b).mem t).getD []).put k v)) } : St V) := by
        refine ⟨?_, ?_⟩
        · intro t'
          by_cases ht : t' = t
          · subst ht; left; simp [upd]
          · simp only [upd, ht, if_false]; exact h1.sync t'
        · intro t' m hm
          by_cases ht : t' = t
          · subst ht
            simp only [upd, if_true, Option.some.injEq] at hm
            subst hm; rw [hmem]; exact keys_put_nodup _ _ _ (nodup_getD h t')
          · simp only [upd, ht, if_false] at hm; exact h1.nodup t' m hm
      refine ⟨hinv, ?_, by simp [OutOk, hk]⟩
      funext t' k'
      rw [abs_eq_file hinv]
      simp only [specStep, hk, if_false, Spec.put, Spec.set]
      by_cases ht : t' = t
      · subst ht
        simp only [upd, if_true, Option.bind_some, get_put, hmem, true_and]
        by_cases hk' : k' = k
        · simp [hk']
        · simp only [hk', if_false]; rw [getD_get, abs_eq_file h]
      · simp only [upd, ht, if_false, false_and, hfile]; rw [abs_eq_file h]
  | del t k =>
    obtain ⟨h1, hfile, hmem⟩ := readSaved_spec h t b
    have habs : abs st t k = (st.file t).bind (fun m => m.get k) := abs_eq_file h t k
    simp only [step]
    cases hm0 : (readSaved st t b).mem t with
    | none =>
      have hf : st.file t = none := by rw [← hmem, hm0]
      have hn : abs st t k = none := by rw [habs, hf]; rfl
      simp only [hm0]
      refine ⟨h1, ?_, by simp [OutOk, Spec.delete, hn]⟩
      funext t' k'
      rw [abs_eq_file h1, hfile, ← abs_eq_file h]; simp [specStep, Spec.delete, hn]
    | some m0 =>
      have hf : st.file t = some m0 := by rw [← hmem, hm0]
      simp only [hm0]
      cases hg : m0.get k with
      | none =>
        have hn : abs st t k = none := by rw [habs, hf]; simpa using hg
        simp only [hg]
        refine ⟨h1, ?_, by simp [OutOk, Spec.delete, hn]⟩
        funext t' k'
        rw [abs_eq_file h1, hfile, ← abs_eq_file h]; simp [specStep, Spec.delete, hn]
      | some v0 =>
        have hn : abs st t k = some v0 := by rw [habs, hf]; simpa using hg
        simp only [hg]
        have hinv : Inv ({ readSaved st t b with
            mem := upd (readSaved st t b).mem t (some (m0.del k)),
            file := upd (readSaved st t b).file t (some (m0.del k)) } : St V) := by
          refine ⟨?_, ?_⟩
          · intro t'
            by_cases ht : t' = t
            · subst ht; left; simp [upd]
            · simp only [upd, ht, if_false]; exact h1.sync t'
          · intro t' m hm
            by_cases ht : t' = t
            · subst ht
              simp only [upd, if_true, Option.some.injEq] at hm
              subst hm; exact keys_del_nodup _ _ (h.nodup t' m0 hf)
            · simp only [upd, ht, if_false] at hm; exact h1.nodup t' m hm
        refine ⟨hinv, ?_, by simp [OutOk, Spec.delete, hn]⟩
        funext t' k'
        rw [abs_eq_file hinv]
        simp only [specStep, Spec.delete, hn, Spec.set]
        by_cases ht : t' = t
        · subst ht
          simp only [upd, if_true, Option.bind_some, get_del, true_and]
          by_cases hk' : k' = k
          · simp [hk']
          · simp only [hk', if_false]; rw [abs_eq_file h, hf]; rfl
        · simp only [upd, ht, if_false, false_and, hfile]; rw [abs_eq_file h]
  | search t q =>
    obtain ⟨h1, hfile, hmem⟩ := readSaved_spec h t b
    simp only [step]
    refine ⟨h1, ?_, ?_⟩
    · funext t' k'; rw [abs_eq_file h1, hfile, ← abs_eq_file h]; rfl
    · simp only [OutOk, Spec.FilterOk, hmem]
      have hnd := nodup_getD h t
      refine ⟨keys_filter_nodup _ _ hnd, ?_⟩
      intro k v
      rw [List.mem_filter, mem_iff_get _ hnd, getD_get, ← abs_eq_file h]
  | list t =>
    obtain ⟨h1, hfile, hmem⟩ := readSaved_spec h t b
    simp only [step]
    refine ⟨h1, ?_, ?_⟩
    · funext t' k'; rw [abs_eq_file h1, hfile, ← abs_eq_file h]; rfl
    · simp only [OutOk, Spec.ListOk, hmem]
      have hnd := nodup_getD h t
      refine ⟨hnd, ?_⟩
      intro k v
      rw [mem_iff_get _ hnd, getD_get, ← abs_eq_file h]
  | restart =>
    have h0 : Inv ({ mem := fun _ => none, file := st.file, read := fun _ => false } : St V) :=
      ⟨fun _ => Or.inr ⟨rfl, rfl⟩, h.nodup⟩
    obtain ⟨h1, hfile, _⟩ := readSaved_spec h0 0 b
    simp only [step]
    refine ⟨h1, ?_, by simp [OutOk]⟩
    funext t' k'; rw [abs_eq_file h1, hfile, ← abs_eq_file h]; rfl

theorem refines_of_inv (ops : List (Op V × Bool)) : ∀ (st : St V), Inv st → Refines (abs st) st ops := by
  induction ops with
  | nil => intro _ _; trivial
  | cons x r ih =>
    obtain ⟨op, b⟩ := x
    intro st h
    obtain ⟨h1, h2, h3⟩ := step_ok h op b
    refine ⟨h3, h2, ?_⟩
    rw [← h2]; exact ih _ h1

theorem inv_run (ops : List (Op V × Bool)) : ∀ (st : St V), Inv st → Inv (run st ops).1 := by
  induction ops with
  | nil => intro st h; exact h
  | cons x r ih =>
    obtain ⟨op, b⟩ := x
    intro st h
    simp only [run]
    exact ih _ (step_ok h op b).1

theorem abs_init : abs (init : St V) = Spec.empty := by
  funext t k; simp [abs, view, init, Spec.empty]

end Usq

end SigModel.Lemmas.C20K
